(* C23/ProofsLit.v -- conv_func's literal output WITH the selects the repaired cond_br materialises vs the
   block-wise translation tr_prog (whose phi table holds the abstract `KSel c a b`).

   LitOK bs T : the literal blocks are the translated bodies followed by select instructions with fresh (negative)
   result ids; terminators match; per phi and predecessor the literal entries and the kernel's entries are constant
   lists whose heads correspond (same operand, or `KSel c a b` <-> the result of a materialised `select c a b` of the
   predecessor); all other ids are non-negative.
   Theorem lit_sel_sim: whenever the abstract target machine run_tgt does not get stuck, the literal machine run_lit
   computes the same outcome from environments that agree on the non-negative ids. *)
From Coq Require Import ZArith List String Bool Lia.
From XV Require Import C15.Spec Gen.C23_tables C23.Model C23.Sem C23.ProofsTables C23.ProofsPhi C23.Whole C23.ProofsWhole.
Import ListNotations.
Local Open Scope list_scope.
Local Open Scope Z_scope.

Definition opd_nn (o : iopd) : bool := match o with IVar v => 0 <=? v | IConst _ _ => true end.
Definition instr_nn (i : iinstr) : bool :=
  match i with
  | IBin r _ _ _ a b | IIcmp r _ _ a b => (0 <=? r) && opd_nn a && opd_nn b
  | ICast r _ _ _ a _ => (0 <=? r) && opd_nn a
  | ISelect r _ c a b => (0 <=? r) && opd_nn c && opd_nn a && opd_nn b
  | _ => true
  end.
Definition Agree (el ea : cenv) : Prop := forall v, 0 <= v -> env_get el v = env_get ea v.

Lemma i_eval_agree el ea o : Agree el ea -> opd_nn o = true -> i_eval el o = i_eval ea o.
Proof. intros H Hn. destruct o as [v|t c]; [|reflexivity]. cbn in *. apply H. apply Z.leb_le; exact Hn. Qed.
Lemma fetch_agree el ea o t : Agree el ea -> opd_nn o = true -> fetch_i el o t = fetch_i ea o t.
Proof. intros H Hn. unfold fetch_i. rewrite (i_eval_agree el ea o H Hn). reflexivity. Qed.
Lemma Agree_cons el ea r z : Agree el ea -> Agree ((r, z) :: el) ((r, z) :: ea).
Proof. intros H v Hv. cbn [env_get]. destruct (r =? v); [reflexivity | apply H; exact Hv]. Qed.
Lemma Agree_neg el ea n x : n < 0 -> Agree el ea -> Agree ((n, x) :: el) ea.
Proof. intros Hn H v Hv. cbn [env_get]. destruct (Z.eqb_spec n v); [lia | apply H; exact Hv]. Qed.
Lemma Agree_app l el ea : Agree el ea -> Agree (l ++ el) (l ++ ea).
Proof. intros H. induction l as [|[k z] r IH]; [exact H|]. cbn [app]. apply Agree_cons; exact IH. Qed.

Definition step_rel (s1 s2 : step) : Prop :=
  match s1, s2 with
  | Next a, Next b => Agree a b
  | Poison, Poison => True
  | StuckS, StuckS => True
  | _, _ => False
  end.

Lemma exec_i_agree el ea i : Agree el ea -> instr_nn i = true -> step_rel (exec_i el i) (exec_i ea i).
Proof.
  intros H Hn. destruct i as [r opc fl t a b|r mn t a b|r mn t a b|r opc fl t a t2|r t c a b| | |];
    cbn [instr_nn] in Hn; cbn [exec_i]; try exact I.
  - apply andb_prop in Hn as [Hn Hb]. apply andb_prop in Hn as [_ Ha].
    rewrite (fetch_agree el ea a t H Ha), (fetch_agree el ea b t H Hb).
    destruct (llvm_bin opc); [|exact I]. destruct (flags_ok _ fl); [|exact I].
    destruct (fetch_i ea a t); [|exact I]. destruct (fetch_i ea b t); [|exact I].
    destruct (sem_i _ _ t _ _); [apply Agree_cons; exact H | exact I].
  - apply andb_prop in Hn as [Hn Hb]. apply andb_prop in Hn as [_ Ha].
    rewrite (fetch_agree el ea a t H Ha), (fetch_agree el ea b t H Hb).
    destruct (fetch_i ea a t); [|exact I]. destruct (fetch_i ea b t); [|exact I].
    destruct (sem_i_icmp mn t _ _); [apply Agree_cons; exact H | exact I].
  - apply andb_prop in Hn as [_ Ha]. rewrite (fetch_agree el ea a t H Ha).
    destruct (llvm_cast opc); [|exact I]. destruct (_ && _); [|exact I].
    destruct (fetch_i ea a t); [|exact I].
    destruct (sem_i_cast _ _ t t2 _); [apply Agree_cons; exact H | exact I].
  - apply andb_prop in Hn as [Hn Hb]. apply andb_prop in Hn as [Hn Ha]. apply andb_prop in Hn as [_ Hc].
    rewrite (i_eval_agree el ea c H Hc). destruct (i_eval ea c) as [vc|]; [|exact I].
    assert (E : i_eval el (if Z.odd vc then a else b) = i_eval ea (if Z.odd vc then a else b))
      by (destruct (Z.odd vc); apply i_eval_agree; assumption).
    rewrite E. destruct (i_eval ea _); [apply Agree_cons; exact H | exact I].
Qed.

Lemma exec_body_agree l : forall el ea, Agree el ea -> Forall (fun x => instr_nn x = true) l ->
  step_rel (exec_body_i el l) (exec_body_i ea l).
Proof.
  induction l as [|i r IH]; intros el ea H Hn; cbn [exec_body_i]; [exact H|].
  inversion Hn as [|? ? Hi Hr]; subst.
  pose proof (exec_i_agree el ea i H Hi) as G.
  destruct (exec_i el i) as [el1| |], (exec_i ea i) as [ea1| |]; cbn [step_rel] in G; try contradiction; try exact I.
  apply IH; assumption.
Qed.

Lemma exec_body_app l1 l2 e : exec_body_i e (l1 ++ l2) =
  match exec_body_i e l1 with Next e1 => exec_body_i e1 l2 | s => s end.
Proof.
  revert e. induction l1 as [|i r IH]; intros e; cbn [app exec_body_i]; [reflexivity|].
  destruct (exec_i e i); [apply IH | reflexivity | reflexivity].
Qed.

(* ---------- the materialised selects of one block ---------- *)
Definition sel := (Z * Z * iopd * iopd * iopd)%type.       (* (result id, type, cond, a, b) *)
Definition sel_id (s : sel) : Z := fst (fst (fst (fst s))).
Definition mk_sel (s : sel) : iinstr :=
  match s with (n, ty, c, a, b) => ISelect n ty c a b end.
Definition sel_wf (c : iopd) (s : sel) : Prop :=
  match s with (n, ty, c', a, b) => n < 0 /\ c' = c /\ opd_nn a = true /\ opd_nn b = true end.

(* executing the selects: all of them succeed when the chosen operands evaluate; the new bindings are exactly the
   chosen values; nothing non-negative changes *)
Lemma sels_exec c cv : forall (sels : list sel) el ea,
  Agree el ea -> opd_nn c = true -> i_eval ea c = Some cv ->
  Forall (sel_wf c) sels -> NoDup (map sel_id sels) ->
  (forall n ty c' a b, In (n, ty, c', a, b) sels -> exists x, i_eval ea (if Z.odd cv then a else b) = Some x) ->
  exists el', exec_body_i el (map mk_sel sels) = Next el' /\ Agree el' ea /\
    (forall n ty c' a b, In (n, ty, c', a, b) sels ->
       env_get el' n = i_eval ea (if Z.odd cv then a else b)) /\
    (forall v, ~ In v (map sel_id sels) -> env_get el' v = env_get el v).
Proof.
  induction sels as [|[[[[n ty] c'] a] b] r IH]; intros el ea H Hc Ec Hwf Hnd Hev.
  - exists el. split; [reflexivity|]. split; [exact H|]. split; [intros ? ? ? ? ? [] | reflexivity].
  - inversion Hwf as [|? ? Hw Hwr]; subst. cbn [sel_wf] in Hw. destruct Hw as (Hn & Hcc & Ha & Hb). subst c'.
    inversion Hnd as [|? ? Hni Hndr]; subst.
    cbn [map mk_sel exec_body_i exec_i].
    rewrite (i_eval_agree el ea c H Hc), Ec.
    destruct (Hev n ty c a b (or_introl eq_refl)) as [x Ex].
    assert (E : i_eval el (if Z.odd cv then a else b) = Some x).
    { rewrite <- Ex. destruct (Z.odd cv); apply i_eval_agree; assumption. }
    rewrite E.
    destruct (IH ((n, x) :: el) ea (Agree_neg el ea n x Hn H) Hc Ec Hwr Hndr
                 (fun n' ty' c'' a' b' Hin => Hev n' ty' c'' a' b' (or_intror Hin)))
      as (el' & X1 & X2 & X3 & X4).
    exists el'. split; [exact X1|]. split; [exact X2|]. split.
    + intros n' ty' c'' a' b' [Heq | Hin].
      * inversion Heq; subst. rewrite X4 by exact Hni. cbn [env_get]. rewrite Z.eqb_refl. symmetry; exact Ex.
      * apply (X3 n' ty' c'' a' b' Hin).
    + intros v Hv. cbn [map] in Hv. rewrite X4 by (intros Hc'; apply Hv; right; exact Hc').
      cbn [env_get]. destruct (Z.eqb_spec n v) as [->|]; [|reflexivity].
      exfalso; apply Hv; left; reflexivity.
Qed.

(* ---------- correspondence of phi entries ---------- *)
Definition inc_rel (sels : list sel) (ka kl : kopd) : Prop :=
  (exists x, ka = KO x /\ kl = KO x /\ opd_nn x = true) \/
  (exists n ty c a b, kl = KO (IVar n) /\ In (n, ty, c, a, b) sels /\ (ka = KSel c a b \/ (ka = KO a /\ a = b))).
Definition phi_rel (sels : list sel) (la ll : list incoming) : Prop :=
  match la, ll with
  | [], [] => True
  | a :: ra, l :: rl =>
      inc_rel sels (fst a) (fst l) /\ Forall (fun e => fst e = fst a) ra /\ Forall (fun e => fst e = fst l) rl
  | _, _ => False
  end.
(* what executing the selects of the predecessor established *)
Definition SelInfo (sels : list sel) (el ea : cenv) : Prop :=
  forall n ty c a b, In (n, ty, c, a, b) sels ->
    exists cv, i_eval ea c = Some cv /\ env_get el n = i_eval ea (if Z.odd cv then a else b).

Lemma forallb_const (o : kopd) (r : list incoming) : Forall (fun e => fst e = o) r ->
  forallb (fun e => kopd_eqb (fst e) o) r = true.
Proof. induction 1 as [|x r Hx _ IH]; [reflexivity|]. cbn. rewrite Hx, kopd_eqb_refl. exact IH. Qed.

Lemma phi_eval_rel sels la ll p el ea : Agree el ea -> SelInfo sels el ea ->
  phi_rel sels (filter (fun e => snd e =? p) la) (filter (fun e => snd e =? p) ll) ->
  phi_eval cenv i_eval ll p el = phi_eval cenv i_eval la p ea.
Proof.
  intros HA HS HR. unfold phi_eval.
  destruct (filter (fun e => snd e =? p) la) as [|[ka pa] ra]; destruct (filter (fun e => snd e =? p) ll) as [|[kl pl] rl];
    cbn [phi_rel] in HR; try contradiction; [reflexivity|].
  destruct HR as (HI & Ha & Hl). cbn [fst] in *.
  rewrite (forallb_const ka ra Ha), (forallb_const kl rl Hl).
  destruct HI as [(x & -> & -> & Hx) | (n & ty & c & a & b & -> & Hin & Hk)].
  - cbn [eval_k]. apply i_eval_agree; assumption.
  - destruct (HS n ty c a b Hin) as (cv & Ec & En). cbn [eval_k i_eval]. rewrite En.
    destruct Hk as [-> | [-> <-]].
    + cbn [eval_k]. rewrite Ec. destruct (Z.odd cv); reflexivity.
    + cbn [eval_k]. destruct (Z.odd cv); reflexivity.
Qed.

Lemma opt_map_some {A B} (g : A -> option B) l vs x : opt_map g l = Some vs -> In x l -> exists y, g x = Some y.
Proof.
  revert vs. induction l as [|a r IH]; intros vs H Hin; [destruct Hin|]. cbn [opt_map] in H.
  destruct (g a) as [y|] eqn:Ea; [|discriminate]. destruct (opt_map g r) as [ys|] eqn:Er; [|discriminate].
  destruct Hin as [<- | Hin]; [exists y; exact Ea | apply (IH ys eq_refl Hin)].
Qed.

Record LitOK (bs : list iblock) (T : tprog) (S : nat -> list sel) : Prop := {
  lo_len : List.length bs = List.length (t_k T);
  lo_body : forall i b, nth_error bs i = Some b -> i_body b = nth i (t_bodies T) [] ++ map mk_sel (S i);
  lo_nn : forall i, Forall (fun x => instr_nn x = true) (nth i (t_bodies T) []);
  lo_term : forall i b, nth_error bs i = Some b -> term_matchesP (k_term (nth i (t_k T) kdflt)) (i_term b);
  lo_term_nn : forall i, match k_term (nth i (t_k T) kdflt) with
                         | KRet v => opd_nn v = true | KCondBr c _ _ _ _ => opd_nn c = true | _ => True end;
  lo_sel : forall i, S i = [] \/
      exists c tb ta ea, k_term (nth i (t_k T) kdflt) = KCondBr c tb ta tb ea /\
        Forall (sel_wf c) (S i) /\ NoDup (map sel_id (S i)) /\
        forall n ty c' a b, In (n, ty, c', a, b) (S i) -> exists k, (k < k_nargs (t_k T) tb)%nat /\
          match filter (fun e => snd e =? Z.of_nat i) (pt_get (t_pt T) tb (Z.of_nat k)) with
          | (ka, _) :: r => (ka = KSel c a b \/ (ka = KO a /\ a = b)) /\ Forall (fun e => fst e = ka) r
          | [] => False
          end;
  lo_phis : forall d b, d <> O -> nth_error bs d = Some b ->
      map (fun ph => fst (fst ph)) (i_phis b) = k_args (nth d (t_k T) kdflt) /\
      forall k ph p, nth_error (i_phis b) k = Some ph -> (p < List.length bs)%nat ->
        phi_rel (S p) (filter (fun e => snd e =? Z.of_nat p) (pt_get (t_pt T) (Z.of_nat d) (Z.of_nat k)))
                      (filter (fun e => snd e =? Z.of_nat p) (snd ph)) }.

Section Lit.
  Variable bs : list iblock.
  Variable T : tprog.
  Variable S : nat -> list sel.
  Hypothesis HL : LitOK bs T S.
  Hypothesis Hwf : wf (t_k T).

  Lemma phi_transfer_lit d cur el ea : d <> O -> (d < List.length bs)%nat -> (cur < List.length bs)%nat ->
    Agree el ea -> SelInfo (S cur) el ea ->
    lit_phi_vals (nth d bs idflt) (Z.of_nat cur) el =
    phi_vals cenv i_eval (t_k T) (t_pt T) (Z.of_nat d) (Z.of_nat cur) ea.
  Proof.
    intros Hd Hdl Hc HA HS.
    assert (Hb : nth_error bs d = Some (nth d bs idflt)) by (apply nth_error_nth'; exact Hdl).
    destruct (lo_phis _ _ _ HL d _ Hd Hb) as [Hids Hrel]. set (b := nth d bs idflt) in *.
    assert (Hn : k_nargs (t_k T) (Z.of_nat d) = List.length (i_phis b)).
    { unfold k_nargs. rewrite Nat2Z.id.
      rewrite (nth_error_nth' (t_k T) kdflt) by (rewrite <- (lo_len _ _ _ HL); exact Hdl).
      rewrite <- Hids, map_length. reflexivity. }
    unfold lit_phi_vals, phi_vals. rewrite Hn.
    rewrite <- (opt_map_nth (fun ph => phi_eval cenv i_eval (snd ph) (Z.of_nat cur) el) (i_phis b) (0, 0, [])).
    apply opt_map_ext. intros k Hk. apply in_seq in Hk.
    assert (Hph : nth_error (i_phis b) k = Some (nth k (i_phis b) (0, 0, []))) by (apply nth_error_nth'; lia).
    apply (phi_eval_rel (S cur)); [exact HA | exact HS | apply (Hrel k _ cur Hph Hc)].
  Qed.

  Theorem lit_sel_sim : forall fuel cur el ea, Agree el ea ->
    run_tgt T fuel cur ea <> WStuck -> run_lit bs fuel cur el = run_tgt T fuel cur ea.
  Proof.
    pose proof (lo_len _ _ _ HL) as Hlen.
    induction fuel as [|n IH]; intros cur el ea HA Hns; [reflexivity|]. cbn [run_lit run_tgt] in *.
    destruct (nth_error bs cur) as [b|] eqn:Hb.
    2: { apply nth_error_None in Hb. rewrite Hlen in Hb. apply nth_error_None in Hb. rewrite Hb in *. reflexivity. }
    assert (Hc : (cur < List.length bs)%nat) by (apply nth_error_Some; rewrite Hb; discriminate).
    assert (Hck : (cur < List.length (t_k T))%nat) by (rewrite <- Hlen; exact Hc).
    rewrite (nth_error_nth' (t_k T) kdflt Hck) in *.
    rewrite (lo_body _ _ _ HL cur b Hb), exec_body_app.
    pose proof (exec_body_agree _ el ea HA (lo_nn _ _ _ HL cur)) as G.
    destruct (exec_body_i ea (nth cur (t_bodies T) [])) as [ea1| |];
      destruct (exec_body_i el (nth cur (t_bodies T) [])) as [el1| |]; cbn [step_rel] in G; try contradiction;
      try reflexivity.
    pose proof (lo_term _ _ _ HL cur b Hb) as Hterm. pose proof (lo_term_nn _ _ _ HL cur) as Hnn.
    pose proof (Hwf _ (nth_In (t_k T) kdflt Hck)) as Hok. unfold term_ok in Hok.
    destruct (lo_sel _ _ _ HL cur) as [Hs0 | (c0 & tb0 & ta0 & ea0 & Hk0 & Hswf & Hsnd & Hsused)].
    - (* no select in this block *)
      rewrite Hs0. cbn [map exec_body_i].
      assert (HS : SelInfo (S cur) el1 ea1) by (rewrite Hs0; intros ? ? ? ? ? []).
      destruct (k_term (nth cur (t_k T) kdflt)) as [v|d args|c tb ta eb ea'|];
        destruct (i_term b) as [ty v'| |d'|c' tb' eb'|]; cbn [term_matchesP] in Hterm; try contradiction; try reflexivity.
      + subst v'. rewrite (i_eval_agree el1 ea1 v G Hnn). reflexivity.
      + subst d'. destruct Hok as (H0 & Hr & _).
        assert (E : lit_phi_vals (nth (Z.to_nat d) bs idflt) (Z.of_nat cur) el1 =
                    phi_vals cenv i_eval (t_k T) (t_pt T) d (Z.of_nat cur) ea1).
        { rewrite <- (Z2Nat.id d) at 2 by lia. apply phi_transfer_lit; try assumption; [lia | rewrite Hlen; exact Hr]. }
        rewrite E. destruct (phi_vals cenv i_eval (t_k T) (t_pt T) d (Z.of_nat cur) ea1) as [vs|]; [|reflexivity].
        apply IH; [|exact Hns].
        unfold lit_enter, enter, c_assign.
        assert (Hbd : nth_error bs (Z.to_nat d) = Some (nth (Z.to_nat d) bs idflt))
          by (apply nth_error_nth'; rewrite Hlen; exact Hr).
        destruct (lo_phis _ _ _ HL (Z.to_nat d) _ ltac:(lia) Hbd) as [Hids _]. rewrite Hids.
        apply Agree_app; exact G.
      + destruct Hterm as (<- & <- & <-). destruct Hok as ((H0 & Hr & _) & (H0' & Hr' & _)).
        rewrite (i_eval_agree el1 ea1 c G Hnn). destruct (i_eval ea1 c) as [cv|]; [|reflexivity]. cbv zeta in *.
        set (d := if Z.odd cv then tb else eb) in *.
        assert (Hd : 0 < d /\ (Z.to_nat d < List.length (t_k T))%nat) by (subst d; destruct (Z.odd cv); split; assumption).
        destruct Hd as [Hd0 Hdr].
        assert (E : lit_phi_vals (nth (Z.to_nat d) bs idflt) (Z.of_nat cur) el1 =
                    phi_vals cenv i_eval (t_k T) (t_pt T) d (Z.of_nat cur) ea1).
        { rewrite <- (Z2Nat.id d) at 2 by lia. apply phi_transfer_lit; try assumption; [lia | rewrite Hlen; exact Hdr]. }
        rewrite E. destruct (phi_vals cenv i_eval (t_k T) (t_pt T) d (Z.of_nat cur) ea1) as [vs|]; [|reflexivity].
        apply IH; [|exact Hns].
        unfold lit_enter, enter, c_assign.
        assert (Hbd : nth_error bs (Z.to_nat d) = Some (nth (Z.to_nat d) bs idflt))
          by (apply nth_error_nth'; rewrite Hlen; exact Hdr).
        destruct (lo_phis _ _ _ HL (Z.to_nat d) _ ltac:(lia) Hbd) as [Hids _]. rewrite Hids.
        apply Agree_app; exact G.
    - (* the block ends in the repaired cond_br with materialised selects *)
      rewrite Hk0 in *. destruct (i_term b) as [ty v'| |d'|c' tb' eb'|]; cbn [term_matchesP] in Hterm; try contradiction.
      destruct Hterm as (<- & <- & <-). destruct Hok as ((H0 & Hr & _) & _).
      destruct (i_eval ea1 c0) as [cv|] eqn:Ec; [|contradiction Hns; reflexivity]. cbv zeta in *.
      replace (if Z.odd cv then tb0 else tb0) with tb0 in * by (destruct (Z.odd cv); reflexivity).
      destruct (phi_vals cenv i_eval (t_k T) (t_pt T) tb0 (Z.of_nat cur) ea1) as [vs|] eqn:Ev;
        [|contradiction Hns; reflexivity].
      (* every select's chosen operand evaluates, because the phi it feeds evaluated *)
      assert (Hch : forall n ty c' a b, In (n, ty, c', a, b) (S cur) ->
                      exists x, i_eval ea1 (if Z.odd cv then a else b) = Some x).
      { intros n' ty c' sa sb Hin. destruct (Hsused n' ty c' sa sb Hin) as (k & Hk & Hhead).
        unfold phi_vals in Ev.
        destruct (opt_map_some _ _ _ k Ev ltac:(apply in_seq; lia)) as [y Ey]. unfold phi_eval in Ey.
        destruct (filter (fun e => snd e =? Z.of_nat cur) (pt_get (t_pt T) tb0 (Z.of_nat k))) as [|[ka pa] r];
          [destruct Hhead|]. destruct Hhead as [Hka Hr']. rewrite (forallb_const ka r Hr') in Ey.
        destruct Hka as [-> | [-> <-]]; cbn [eval_k] in Ey.
        - rewrite Ec in Ey. exists y. destruct (Z.odd cv); exact Ey.
        - exists y. destruct (Z.odd cv); exact Ey. }
      destruct (sels_exec c0 cv (S cur) el1 ea1 G Hnn Ec Hswf Hsnd Hch) as (el2 & X1 & X2 & X3 & _).
      rewrite X1. rewrite (i_eval_agree el2 ea1 c0 X2 Hnn), Ec. cbv zeta.
      replace (if Z.odd cv then tb0 else tb0) with tb0 by (destruct (Z.odd cv); reflexivity).
      assert (HS : SelInfo (S cur) el2 ea1).
      { intros n' ty c' sa sb Hin. exists cv. split; [|apply (X3 n' ty c' sa sb Hin)].
        rewrite Forall_forall in Hswf. specialize (Hswf _ Hin). cbn [sel_wf] in Hswf. destruct Hswf as (_ & -> & _). exact Ec. }
      assert (E : lit_phi_vals (nth (Z.to_nat tb0) bs idflt) (Z.of_nat cur) el2 =
                  phi_vals cenv i_eval (t_k T) (t_pt T) tb0 (Z.of_nat cur) ea1).
      { rewrite <- (Z2Nat.id tb0) at 2 by lia. apply phi_transfer_lit; try assumption; [lia | rewrite Hlen; exact Hr]. }
      rewrite E, Ev. apply IH; [|exact Hns].
      unfold lit_enter, enter, c_assign.
      assert (Hbd : nth_error bs (Z.to_nat tb0) = Some (nth (Z.to_nat tb0) bs idflt))
        by (apply nth_error_nth'; rewrite Hlen; exact Hr).
      destruct (lo_phis _ _ _ HL (Z.to_nat tb0) _ ltac:(lia) Hbd) as [Hids _]. rewrite Hids.
      apply Agree_app; exact X2.
  Qed.
End Lit.

(* ---------- composition with the whole-function theorem ---------- *)
Lemma Agree_refl e : Agree e e.
Proof. intros v _; reflexivity. Qed.

Theorem conv_func_sel_sim : forall f bs T S, conv_func f = Ok bs -> tr_prog f = Ok T -> LitOK bs T S ->
  whole_okb f = true ->
  forall fuel inputs,
    let e0 := combine (map fst (d_args (nth 0 f ddflt))) inputs in
    run_src f fuel 0 e0 <> WStuck -> run_lit bs fuel 0 e0 = run_src f fuel 0 e0.
Proof.
  intros f bs T S _ Ht HL Hok fuel inputs e0 Hns.
  pose proof (whole_function_sim f T Ht Hok fuel inputs Hns) as E. fold e0 in E.
  rewrite <- E. apply (lit_sel_sim bs T S HL); [| apply Agree_refl | rewrite E; exact Hns].
  unfold tr_prog in Ht. cbv zeta in Ht.
  destruct (k_build condbr_same_block_special_case (tr_kfunc (final_vm f) f) (block_order f)) as [pt|]; [|discriminate].
  cbn [bind] in Ht. inversion Ht; subst T. cbn [t_k].
  unfold whole_okb in Hok. cbv zeta in Hok.
  apply andb_prop in Hok as [Hok _]. apply andb_prop in Hok as [_ Hw]. apply (terms_okb_ok _ _ Hw).
Qed.

(* ---------- LitOK is decidable: the validator lit_okb ---------- *)
From Coq Require Import ListDec.
Definition parse_sel (i : iinstr) : option sel :=
  match i with ISelect n ty c a b => Some (n, ty, c, a, b) | _ => None end.
Fixpoint parse_sels (l : list iinstr) : option (list sel) :=
  match l with
  | [] => Some []
  | i :: r => match parse_sel i, parse_sels r with Some s, Some ss => Some (s :: ss) | _, _ => None end
  end.
Definition sels_list (bs : list iblock) (T : tprog) : list (list sel) :=
  map (fun i => match parse_sels (skipn (List.length (nth i (t_bodies T) [])) (i_body (nth i bs idflt))) with
                | Some l => l | None => [] end) (seq 0 (List.length bs)).
Definition S_of (bs : list iblock) (T : tprog) (i : nat) : list sel := nth i (sels_list bs T) [].

Fixpoint znodupb (l : list Z) : bool :=
  match l with [] => true | x :: r => negb (existsb (Z.eqb x) r) && znodupb r end.
Lemma znodupb_ok l : znodupb l = true -> NoDup l.
Proof.
  induction l as [|x r IH]; cbn; [constructor|]. intros H; apply andb_prop in H as [H1 H2].
  constructor; [|apply IH; exact H2]. intros Hin. apply negb_true_iff in H1.
  assert (existsb (Z.eqb x) r = true) by (apply existsb_exists; exists x; split; [exact Hin | apply Z.eqb_refl]).
  congruence.
Qed.
Definition keqb (x y : kopd) : bool := dec2b (kopd_eq_dec x y).
Definition sel_wfb (c : iopd) (s : sel) : bool :=
  match s with (n, ty, c', a, b) => (n <? 0) && dec2b (iopd_eq_dec c' c) && opd_nn a && opd_nn b end.
Definition absb (ka : kopd) (c a b : iopd) : bool :=
  keqb ka (KSel c a b) || (keqb ka (KO a) && dec2b (iopd_eq_dec a b)).
Definition head_okb (c a b : iopd) (l : list incoming) : bool :=
  match l with
  | (ka, _) :: r => absb ka c a b && forallb (fun e => keqb (fst e) ka) r
  | [] => false
  end.
Definition sel_blockb (T : tprog) (i : nat) (ss : list sel) : bool :=
  match ss with
  | [] => true
  | _ =>
    match k_term (nth i (t_k T) kdflt) with
    | KCondBr c tb ta eb ea =>
        (tb =? eb) && forallb (sel_wfb c) ss && znodupb (map sel_id ss) &&
        forallb (fun s => match s with (n, ty, c', a, b) =>
                   existsb (fun k => head_okb c a b (filter (fun e => snd e =? Z.of_nat i) (pt_get (t_pt T) tb (Z.of_nat k))))
                           (seq 0 (k_nargs (t_k T) tb)) end) ss
    | _ => false
    end
  end.
Definition inc_relb (sels : list sel) (ka kl : kopd) : bool :=
  match kl with
  | KO x =>
      (keqb ka (KO x) && opd_nn x) ||
      match x with
      | IVar n => existsb (fun s => match s with (n', ty, c, a, b) => (n' =? n) && absb ka c a b end) sels
      | _ => false
      end
  | _ => false
  end.
Definition phi_relb (sels : list sel) (la ll : list incoming) : bool :=
  match la, ll with
  | [], [] => true
  | a :: ra, l :: rl =>
      inc_relb sels (fst a) (fst l) && forallb (fun e => keqb (fst e) (fst a)) ra && forallb (fun e => keqb (fst e) (fst l)) rl
  | _, _ => false
  end.
Definition term_nnb (kb : kblock) : bool :=
  match k_term kb with KRet v => opd_nn v | KCondBr c _ _ _ _ => opd_nn c | _ => true end.
Definition phdflt : Z * Z * list incoming := (0, 0, []).
Definition lit_okb (bs : list iblock) (T : tprog) : bool :=
  let Sf := S_of bs T in
  Nat.eqb (List.length bs) (List.length (t_k T)) &&
  forallb (fun i =>
     let b := nth i bs idflt in
     dec2b (list_eq_dec iinstr_eq_dec (i_body b) (nth i (t_bodies T) [] ++ map mk_sel (Sf i))) &&
     term_matchesb (k_term (nth i (t_k T) kdflt)) (i_term b) &&
     sel_blockb T i (Sf i) &&
     (Nat.eqb i 0 ||
      (dec2b (list_eq_dec Z.eq_dec (map (fun ph => fst (fst ph)) (i_phis b)) (k_args (nth i (t_k T) kdflt))) &&
       forallb (fun k => forallb (fun p =>
                  phi_relb (Sf p) (filter (fun e => snd e =? Z.of_nat p) (pt_get (t_pt T) (Z.of_nat i) (Z.of_nat k)))
                                  (filter (fun e => snd e =? Z.of_nat p) (snd (nth k (i_phis b) phdflt))))
                (seq 0 (List.length bs))) (seq 0 (List.length (i_phis b))))))
    (seq 0 (List.length bs)) &&
  forallb (forallb instr_nn) (t_bodies T) &&
  forallb term_nnb (t_k T).

Lemma keqb_eq x y : keqb x y = true -> x = y.
Proof. apply dec2b_true. Qed.
Lemma absb_ok ka c a b : absb ka c a b = true -> ka = KSel c a b \/ (ka = KO a /\ a = b).
Proof.
  unfold absb. intros H. apply orb_prop in H as [H | H]; [left; apply keqb_eq; exact H|].
  apply andb_prop in H as [H1 H2]. right. split; [apply keqb_eq; exact H1 | apply (dec2b_true _ H2)].
Qed.
Lemma forallb_keqb (o : kopd) (r : list incoming) : forallb (fun e => keqb (fst e) o) r = true ->
  Forall (fun e => fst e = o) r.
Proof.
  intros H. apply Forall_forall. intros e He. rewrite forallb_forall in H. apply keqb_eq. apply H; exact He.
Qed.
Lemma inc_relb_ok sels ka kl : inc_relb sels ka kl = true -> inc_rel sels ka kl.
Proof.
  unfold inc_relb. destruct kl as [x|]; [|discriminate]. intros H. apply orb_prop in H as [H | H].
  - apply andb_prop in H as [H1 H2]. left. exists x. split; [apply keqb_eq; exact H1 | split; [reflexivity | exact H2]].
  - destruct x as [n|]; [|discriminate]. apply existsb_exists in H as [[[[[n' ty] c] a] b] [Hin H]].
    apply andb_prop in H as [H1 H2]. apply Z.eqb_eq in H1. subst n'.
    right. exists n, ty, c, a, b. split; [reflexivity | split; [exact Hin | apply absb_ok; exact H2]].
Qed.
Lemma phi_relb_ok sels la ll : phi_relb sels la ll = true -> phi_rel sels la ll.
Proof.
  unfold phi_relb, phi_rel. destruct la as [|a ra], ll as [|l rl]; try discriminate; [intros _; exact I|].
  intros H. apply andb_prop in H as [H H3]. apply andb_prop in H as [H1 H2].
  split; [apply inc_relb_ok; exact H1 | split; apply forallb_keqb; assumption].
Qed.
Lemma forallb_nth {A} (P : A -> bool) l i d : forallb P l = true -> P d = true -> P (nth i l d) = true.
Proof.
  intros H Hd. destruct (Nat.lt_ge_cases i (List.length l)) as [Hl | Hl].
  - rewrite forallb_forall in H. apply H. apply nth_In; exact Hl.
  - rewrite nth_overflow by exact Hl. exact Hd.
Qed.

Theorem lit_okb_ok bs T : lit_okb bs T = true -> LitOK bs T (S_of bs T).
Proof.
  unfold lit_okb. cbv zeta. intros H.
  apply andb_prop in H as [H Htn]. apply andb_prop in H as [H Hnn]. apply andb_prop in H as [Hlen Hb].
  apply Nat.eqb_eq in Hlen. rewrite forallb_forall in Hb.
  assert (Hblk : forall i b, nth_error bs i = Some b -> (i < List.length bs)%nat /\ nth i bs idflt = b).
  { intros i b E. split; [apply nth_error_Some; rewrite E; discriminate | apply nth_error_nth; exact E]. }
  constructor.
  - exact Hlen.
  - intros i b E. destruct (Hblk i b E) as [Hi Hn]. specialize (Hb i ltac:(apply in_seq; lia)). rewrite Hn in Hb.
    apply andb_prop in Hb as [Hb _]. apply andb_prop in Hb as [Hb _]. apply andb_prop in Hb as [Hb _].
    exact (dec2b_true _ Hb).
  - intros i. apply Forall_forall. intros x Hx.
    pose proof (forallb_nth (forallb instr_nn) (t_bodies T) i [] Hnn eq_refl) as F.
    rewrite forallb_forall in F. apply F; exact Hx.
  - intros i b E. destruct (Hblk i b E) as [Hi Hn]. specialize (Hb i ltac:(apply in_seq; lia)). rewrite Hn in Hb.
    apply andb_prop in Hb as [Hb _]. apply andb_prop in Hb as [Hb _]. apply andb_prop in Hb as [_ Hb].
    apply term_matchesb_ok; exact Hb.
  - intros i. pose proof (forallb_nth term_nnb (t_k T) i kdflt Htn eq_refl) as F. unfold term_nnb in F.
    destruct (k_term (nth i (t_k T) kdflt)); try exact I; exact F.
  - intros i. destruct (Nat.lt_ge_cases i (List.length bs)) as [Hi | Hi].
    2: { left. unfold S_of. apply nth_overflow. unfold sels_list. rewrite map_length, seq_length. exact Hi. }
    specialize (Hb i ltac:(apply in_seq; lia)).
    apply andb_prop in Hb as [Hb _]. apply andb_prop in Hb as [_ Hs]. unfold sel_blockb in Hs.
    destruct (S_of bs T i) as [|s0 ss] eqn:ES; [left; reflexivity|]. right.
    destruct (k_term (nth i (t_k T) kdflt)) as [|?|c tb ta eb ea|]; try discriminate.
    apply andb_prop in Hs as [Hs Hu]. apply andb_prop in Hs as [Hs Hd]. apply andb_prop in Hs as [He Hw].
    apply Z.eqb_eq in He. subst eb. exists c, tb, ta, ea. split; [reflexivity|]. split; [|split].
    + apply Forall_forall. intros [[[[n ty] c'] a] b] Hin. rewrite forallb_forall in Hw. specialize (Hw _ Hin).
      cbn [sel_wfb sel_wf] in *. apply andb_prop in Hw as [Hw H4]. apply andb_prop in Hw as [Hw H3].
      apply andb_prop in Hw as [H1 H2]. apply Z.ltb_lt in H1. repeat split; try assumption. exact (dec2b_true _ H2).
    + exact (znodupb_ok _ Hd).
    + intros n ty c' a b Hin. rewrite forallb_forall in Hu. specialize (Hu _ Hin). cbn beta iota in Hu.
      apply existsb_exists in Hu as [k [Hk Hh]]. apply in_seq in Hk. exists k. split; [lia|].
      unfold head_okb in Hh.
      destruct (filter (fun e => snd e =? Z.of_nat i) (pt_get (t_pt T) tb (Z.of_nat k))) as [|[ka pa] r]; [discriminate|].
      apply andb_prop in Hh as [H1 H2]. split; [apply absb_ok; exact H1 | apply forallb_keqb; exact H2].
  - intros d b Hd E. destruct (Hblk d b E) as [Hi Hn]. specialize (Hb d ltac:(apply in_seq; lia)). rewrite Hn in Hb.
    apply andb_prop in Hb as [_ Hp]. destruct (Nat.eqb_spec d 0) as [|_]; [contradiction|]. cbn [orb] in Hp.
    apply andb_prop in Hp as [Hids Hrel]. split; [exact (dec2b_true _ Hids)|].
    intros k ph p Ek Hp. rewrite forallb_forall in Hrel.
    assert (Hk : (k < List.length (i_phis b))%nat) by (apply nth_error_Some; rewrite Ek; discriminate).
    specialize (Hrel k ltac:(apply in_seq; lia)). rewrite forallb_forall in Hrel.
    specialize (Hrel p ltac:(apply in_seq; lia)). rewrite (nth_error_nth _ _ phdflt Ek) in Hrel.
    apply phi_relb_ok; exact Hrel.
Qed.

(* translation validation for EVERY function of the fragment, the repaired same-successor cond_br included *)
Theorem conv_func_validated_all : forall f bs T, conv_func f = Ok bs -> tr_prog f = Ok T ->
  lit_okb bs T = true -> whole_okb f = true ->
  forall fuel inputs,
    let e0 := combine (map fst (d_args (nth 0 f ddflt))) inputs in
    run_src f fuel 0 e0 <> WStuck -> run_lit bs fuel 0 e0 = run_src f fuel 0 e0.
Proof.
  intros f bs T Hc Ht Hl Hok. apply (conv_func_sel_sim f bs T (S_of bs T) Hc Ht (lit_okb_ok bs T Hl) Hok).
Qed.
