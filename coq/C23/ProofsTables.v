(* C23/ProofsTables.v -- theorems about the tables REGENERATED from the backend's source (Gen/C23_tables.v)
   and the code around them (C23/Model.v), against the two semantics of C23/Sem.v.

   Spec side (what the source op means, independent of the backend):
     spec_flags / spec_cast_flags : which poison-generating flags an llvm-dialect op carries, read off its
       properties the way the MLIR LLVM dialect defines them (overflowFlags bit 0 = nsw, bit 1 = nuw; isExact;
       isDisjoint; nonNeg);  sem_d* of Sem.v gives the result.
   Backend side: binop_opcode / binop_flags / conv_icmp / cast_opcode / cast_flags / conv_fcmp of Model.v
     (all driven by the generated tables) produce the opcode / mnemonic / flag list of the textual LLVM IR, whose
     meaning is sem_i* of Sem.v through llvm_bin / flags_of_list.                                              *)
From Coq Require Import ZArith Bool List String Lia.
From XV Require Import C15.Spec Gen.C23_tables C23.Model C23.Sem C23.ProofsBits.
Import ListNotations.
Local Open Scope string_scope.
Local Open Scope list_scope.
Local Open Scope Z_scope.

(* ---------- Spec: flags of the source operation ---------- *)
Definition ovf_value (o : src_binop) : Z := match sb_overflow o with Some v => v | None => 0 end.
Definition spec_flags (d : ibin) (o : src_binop) : iflags :=
  match d with
  | Add | Sub | Mul | Shl => mkF (Z.testbit (ovf_value o) 0) (Z.testbit (ovf_value o) 1) false false false
  | UDiv | SDiv | LShr | AShr => mkF false false (sb_exact o) false false
  | Or => mkF false false false (sb_disjoint o) false
  | _ => no_flags
  end.
Definition spec_flag_names (d : ibin) (o : src_binop) : list string :=
  let f := spec_flags d o in
  (if f_nsw f then ["nsw"] else []) ++ (if f_nuw f then ["nuw"] else []) ++
  (if f_exact f then ["exact"] else []) ++ (if f_disjoint f then ["disjoint"] else []).
(* a verified op: the i32 overflowFlags attribute is one of the four OverflowAttr encodings *)
Definition ovf_valid (o : src_binop) : Prop :=
  match sb_overflow o with None => True | Some v => 0 <= v <= 3 end.

Definition cast_ovf (o : src_cast) : list string := match sc_overflow o with Some l => l | None => [] end.
Definition spec_cast_flags (c : icast) (o : src_cast) : iflags :=
  match c with
  | Trunc => mkF (has "nsw" (cast_ovf o)) (has "nuw" (cast_ovf o)) false false false
  | ZExt => mkF false false false false (sc_nneg o)
  | SExt => no_flags
  end.
Definition cast_ovf_valid (o : src_cast) : Prop := forall s, In s (cast_ovf o) -> s = "nsw" \/ s = "nuw".

Definition same_set (l1 l2 : list string) : Prop := forall s, In s l1 <-> In s l2.

(* ---------- binary integer operations ---------- *)
Ltac split_in H :=
  repeat (destruct H as [H | H]; [inversion H; subst; clear H | ]); try contradiction.

Lemma ovf_cases v : 0 <= v <= 3 -> v = 0 \/ v = 1 \/ v = 2 \/ v = 3.
Proof. lia. Qed.

Theorem binop_table_sound :
  forall cls meth, In (cls, meth) binary_op_map ->
  forall name d, op_name cls = Some name -> dialect_bin name = Some d ->
  forall o, sb_class o = cls -> ovf_valid o ->
  exists opc fl,
    binop_opcode cls = Ok opc /\ binop_flags o = Ok fl /\
    llvm_bin opc = Some d /\                                     (* same operation *)
    flags_ok (llvm_allowed d) fl = true /\                       (* flags LLVM accepts on that opcode *)
    flags_of_list fl = spec_flags d o /\                         (* exactly the source's flags *)
    same_set fl (spec_flag_names d o) /\
    forall w a b, 1 <= w -> 0 <= a < 2 ^ w -> 0 <= b < 2 ^ w ->
      sem_i d (flags_of_list fl) w a b = sem_d d (spec_flags d o) w a b.
Proof.
  intros cls meth Hin name d Hn Hd.
  unfold binary_op_map in Hin. split_in Hin;
    vm_compute in Hn; inversion Hn; subst; clear Hn;
    vm_compute in Hd; try discriminate Hd; inversion Hd; subst; clear Hd;
    intros o Hc Hv;
    destruct o as [c ovf ex dj fm]; cbn [sb_class] in Hc; subst c;
    unfold ovf_valid in Hv; cbn [sb_overflow] in Hv;
    (destruct ovf as [v|];
       [destruct (ovf_cases v Hv) as [E | [E | [E | E]]]; subst v | ]);
    destruct ex, dj;
    (eexists; eexists;
     split; [vm_compute; reflexivity |
     split; [vm_compute; reflexivity |
     split; [vm_compute; reflexivity |
     split; [vm_compute; reflexivity |
     split; [vm_compute; reflexivity |
     split; [intros s; vm_compute; tauto |
     intros w a b Hw Ha Hb;
     match goal with |- sem_i ?d ?f1 _ _ _ = sem_d _ ?f2 _ _ _ =>
       replace f2 with f1 by (vm_compute; reflexivity) end;
     apply sem_eq; assumption ]]]]]]).
Qed.

Theorem flags_preserved :
  forall cls meth, In (cls, meth) binary_op_map ->
  forall name d, op_name cls = Some name -> dialect_bin name = Some d ->
  forall o, sb_class o = cls -> ovf_valid o ->
  exists fl, binop_flags o = Ok fl /\ same_set fl (spec_flag_names d o) /\ flags_of_list fl = spec_flags d o.
Proof.
  intros cls meth Hin name d Hn Hd o Hc Hv.
  destruct (binop_table_sound cls meth Hin name d Hn Hd o Hc Hv) as (opc & fl & _ & Hf & _ & _ & Hs & Hn' & _).
  exists fl. repeat split; try assumption; apply Hn'.
Qed.

(* the operands are passed in source order and the result is bound to the new instruction *)
Theorem conv_binop_instr :
  forall cls meth, In (cls, meth) binary_op_map ->
  forall o, sb_class o = cls -> forall opc fl, binop_opcode cls = Ok opc -> binop_flags o = Ok fl ->
  forall vm r t a b x y, vm_get vm a = Ok x -> vm_get vm b = Ok y ->
  conv_instr vm (DBin r o t a b) = Ok (Some (IBin r opc fl t x y), vm_set vm r (IVar r)).
Proof.
  intros cls meth _ o Hc opc fl Ho Hf vm r t a b x y Hx Hy.
  cbn [conv_instr]. rewrite Hc, Ho, Hf. cbn [bind].
  change binop_operand_order with [0; 1]. cbn [Z.eqb]. rewrite Hx, Hy. reflexivity.
Qed.

(* ---------- float binary operations: same operation, fast-math flags forwarded unchanged ---------- *)
Theorem fbinop_table_sound :
  forall cls meth, In (cls, meth) binary_op_map ->
  forall name k, op_name cls = Some name -> dialect_fbin name = Some k ->
  forall o, sb_class o = cls ->
  exists opc, binop_opcode cls = Ok opc /\ llvm_fbin opc = Some k /\ binop_flags o = Ok (sb_fastmath o).
Proof.
  intros cls meth Hin name k Hn Hk.
  unfold binary_op_map in Hin. split_in Hin;
    vm_compute in Hn; inversion Hn; subst; clear Hn;
    vm_compute in Hk; try discriminate Hk; inversion Hk; subst; clear Hk;
    intros o Hc;
    destruct o as [c ovf ex dj fm]; cbn [sb_class] in Hc; subst c;
    (eexists; split; [vm_compute; reflexivity | split; vm_compute; reflexivity]).
Qed.
(* every fast-math flag value of the dialect is a flag LLVM's parser knows *)
Theorem fastmath_flags_known : forall s, In s fastmath_flags -> has s fastmath_names = true.
Proof. intros s Hin. unfold fastmath_flags in Hin. split_in Hin; reflexivity. Qed.

(* every entry of the binary table is one of the two kinds above *)
Theorem binop_table_classified :
  forall cls meth, In (cls, meth) binary_op_map ->
  exists name, op_name cls = Some name /\ (dialect_bin name <> None \/ dialect_fbin name <> None).
Proof.
  intros cls meth Hin. unfold binary_op_map in Hin.
  split_in Hin; (eexists; split; [vm_compute; reflexivity | vm_compute; first [left; discriminate | right; discriminate]]).
Qed.

(* ---------- icmp ---------- *)
Theorem icmp_table_sound :
  forall pred, 0 <= pred <= 9 ->
  exists mn, conv_icmp pred = Ok mn /\ icmp_mnemonic pred = Some mn /\
    forall w a b, 1 <= w -> 0 <= a < 2 ^ w -> 0 <= b < 2 ^ w ->
      sem_i_icmp mn w a b = sem_d_icmp pred w a b.
Proof.
  intros pred Hp.
  assert (C : pred = 0 \/ pred = 1 \/ pred = 2 \/ pred = 3 \/ pred = 4 \/ pred = 5 \/ pred = 6 \/ pred = 7 \/
              pred = 8 \/ pred = 9) by lia.
  repeat (destruct C as [C | C]; [subst pred;
    (eexists; split; [vm_compute; reflexivity | split; [reflexivity |
       intros w a b Hw Ha Hb; apply (icmp_eq w Hw); [assumption | assumption | reflexivity]]]) | ]).
  subst pred.
  eexists; split; [vm_compute; reflexivity | split; [reflexivity |
       intros w a b Hw Ha Hb; apply (icmp_eq w Hw); [assumption | assumption | reflexivity]]].
Qed.
Theorem icmp_out_of_range : forall pred, 10 <= pred -> conv_icmp pred = Err E_Index.
Proof.
  intros pred Hp. unfold conv_icmp, py_index. change (Z.of_nat (List.length icmp_flags)) with 10.
  destruct (Z.leb_spec 10 pred); [|lia]. rewrite orb_true_r. reflexivity.
Qed.
Theorem conv_icmp_instr :
  forall pred mn, conv_icmp pred = Ok mn ->
  forall vm r t a b x y, vm_get vm a = Ok x -> vm_get vm b = Ok y ->
  conv_instr vm (DIcmp r pred t a b) = Ok (Some (IIcmp r mn t x y), vm_set vm r (IVar r)).
Proof.
  intros pred mn Hm vm r t a b x y Hx Hy. cbn [conv_instr]. rewrite Hm. cbn [bind].
  change icmp_operands with ["lhs"; "rhs"]. vm_compute pick_operand. cbn [bind]. rewrite Hx, Hy. reflexivity.
Qed.

(* ---------- casts ---------- *)
Lemma has_only l : (forall s, In s l -> s = "nsw" \/ s = "nuw") ->
  has "exact" l = false /\ has "disjoint" l = false /\ has "nneg" l = false /\
  flags_ok ["nsw"; "nuw"] l = true.
Proof.
  induction l as [|x r IH]; intros Hl; [repeat split|].
  destruct IH as (I1 & I2 & I3 & I4); [intros s Hs; apply Hl; right; exact Hs|].
  unfold has, flags_ok in *. cbn [existsb forallb].
  destruct (Hl x (or_introl eq_refl)) as [E | E]; subst x; rewrite ?I1, ?I2, ?I3, ?I4; repeat split; reflexivity.
Qed.

Theorem cast_table_sound :
  forall cls opc, In (cls, opc) cast_op_names ->
  forall name c, op_name cls = Some name -> dialect_cast name = Some c ->
  forall o, sc_class o = cls -> cast_ovf_valid o ->
  exists fl,
    cast_opcode cls = Ok opc /\ cast_flags o = Ok fl /\ llvm_cast opc = Some c /\
    flags_ok (llvm_cast_allowed c) fl = true /\
    flags_of_list fl = spec_cast_flags c o /\
    forall w w2 a, 1 <= w -> 1 <= w2 -> (c = Trunc -> w2 < w) -> (c = SExt -> w < w2) -> 0 <= a < 2 ^ w ->
      sem_i_cast c (flags_of_list fl) w w2 a = sem_d_cast c (spec_cast_flags c o) w w2 a.
Proof.
  intros cls opc Hin name c Hn Hc.
  unfold cast_op_names in Hin. split_in Hin;
    vm_compute in Hn; inversion Hn; subst; clear Hn;
    vm_compute in Hc; try discriminate Hc; inversion Hc; subst; clear Hc;
    intros o Ho Hv;
    destruct o as [c ovf nn]; cbn [sc_class] in Ho; subst c.
  - (* trunc *)
    unfold cast_ovf_valid, cast_ovf in Hv; cbn [sc_overflow] in Hv.
    destruct (has_only _ Hv) as (H1 & H2 & H3 & H4).
    exists (match ovf with Some l => l | None => [] end).
    split; [reflexivity|]. split; [destruct ovf; reflexivity|]. split; [reflexivity|].
    split; [exact H4|].
    assert (F : flags_of_list (match ovf with Some l => l | None => [] end) =
                spec_cast_flags Trunc {| sc_class := "TruncOp"; sc_overflow := ovf; sc_nneg := nn |}).
    { unfold flags_of_list, spec_cast_flags, cast_ovf; cbn [sc_overflow]. rewrite H1, H2, H3. reflexivity. }
    split; [exact F|].
    intros w w2 a Hw Hw2 Ht _ Ha. rewrite F. apply trunc_eq; auto.
  - (* zext *)
    exists (if nn then ["nneg"] else []).
    split; [reflexivity|]. split; [destruct nn; reflexivity|]. split; [reflexivity|].
    split; [destruct nn; reflexivity|].
    assert (F : flags_of_list (if nn then ["nneg"] else []) =
                spec_cast_flags ZExt {| sc_class := "ZExtOp"; sc_overflow := ovf; sc_nneg := nn |}).
    { destruct nn; reflexivity. }
    split; [exact F|].
    intros w w2 a Hw Hw2 _ _ Ha. rewrite F. apply zext_eq; auto.
  - (* sext *)
    exists []. split; [reflexivity|]. split; [reflexivity|]. split; [reflexivity|]. split; [reflexivity|].
    split; [reflexivity|].
    intros w w2 a Hw Hw2 _ Hs Ha. apply sext_eq; auto.
Qed.

(* every cast opcode (also the ones without an integer semantics here: ptrtoint inttoptr bitcast fpext sitofp)
   is the LLVM opcode of the same name as the dialect op *)
Theorem cast_names_identity :
  forall cls opc, In (cls, opc) cast_op_names -> op_name cls = Some ("llvm." ++ opc)%string.
Proof. intros cls opc Hin. unfold cast_op_names in Hin. split_in Hin; vm_compute; reflexivity. Qed.

Theorem conv_cast_instr :
  forall o opc fl, cast_opcode (sc_class o) = Ok opc -> cast_flags o = Ok fl ->
  forall vm r t a t2 x, vm_get vm a = Ok x ->
  conv_instr vm (DCast r o t a t2) = Ok (Some (ICast r opc fl t x t2), vm_set vm r (IVar r)).
Proof. intros o opc fl Ho Hf vm r t a t2 x Hx. cbn [conv_instr]. rewrite Hf, Ho, Hx. reflexivity. Qed.

(* ---------- fcmp ---------- *)
Theorem fcmp_table_sound :
  forall pred, 0 <= pred <= 15 -> (fcmp_strips_underscore = true \/ 1 <= pred <= 14) ->
  exists cc, conv_fcmp pred = Ok cc /\ forall o, sem_i_fcmp cc o = sem_d_fcmp pred o.
Proof.
  intros pred Hp Hv.
  assert (C : pred = 0 \/ pred = 1 \/ pred = 2 \/ pred = 3 \/ pred = 4 \/ pred = 5 \/ pred = 6 \/ pred = 7 \/
              pred = 8 \/ pred = 9 \/ pred = 10 \/ pred = 11 \/ pred = 12 \/ pred = 13 \/ pred = 14 \/ pred = 15) by lia.
  repeat (destruct C as [C | C]; [subst pred;
    first [ eexists; split; [vm_compute; reflexivity | intros []; reflexivity]
          | exfalso; destruct Hv as [Hv | Hv]; [vm_compute in Hv; discriminate Hv | lia] ] | ]).
  subst pred.
  first [ eexists; split; [vm_compute; reflexivity | intros []; reflexivity]
        | exfalso; destruct Hv as [Hv | Hv]; [vm_compute in Hv; discriminate Hv | lia] ].
Qed.
(* unrepaired code: the two constant predicates make llvmlite raise ValueError("invalid comparison '_false'") *)
Theorem fcmp_false_true_refuted :
  fcmp_strips_underscore = false -> conv_fcmp 0 = Err E_Value /\ conv_fcmp 15 = Err E_Value.
Proof.
  intros Hf. unfold conv_fcmp. rewrite Hf. split; vm_compute; reflexivity.
Qed.

(* ---------- totality: every arithmetic / compare / cast op class of the dialect is handled ---------- *)
Definition int_bin_bases : list string :=
  ["ArithmeticBinOperation"; "ArithmeticBinOpOverflow"; "ArithmeticBinOpExact"; "ArithmeticBinOpDisjoint"].
Definition cast_bases : list string :=
  ["IntegerConversionOp"; "IntegerConversionOpNNeg"; "IntegerConversionOpOverflow"; "GenericCastOp"].
Definition in_family (fam anc : list string) : bool := existsb (fun b => mem_str b anc) fam.
Definition has_key {A} (k : string) (l : list (string * A)) : bool :=
  match assoc k l with Some _ => true | None => false end.
Definition total_check (e : string * (string * list string)) : bool :=
  let cls := fst e in let anc := snd (snd e) in
  implb (in_family int_bin_bases anc || mem_str "AbstractFloatArithOp" anc) (has_key cls binary_op_map) &&
  implb (in_family cast_bases anc || String.eqb cls "PtrToIntOp" || String.eqb cls "IntToPtrOp")
        (has_key cls cast_op_names) &&
  implb (String.eqb cls "ICmpOp" || String.eqb cls "FCmpOp" || String.eqb cls "SelectOp" || String.eqb cls "BrOp"
         || String.eqb cls "CondBrOp" || String.eqb cls "AllocaOp" || String.eqb cls "LoadOp" || String.eqb cls "StoreOp"
         || String.eqb cls "ReturnOp" || String.eqb cls "ConstantOp")
        (mem_str cls dispatched).
Theorem table_total : forall e, In e dialect_ops -> total_check e = true.
Proof. apply forallb_forall. vm_compute. reflexivity. Qed.
(* and conversely the tables only name registered op classes *)
Theorem tables_name_dialect_ops :
  (forall cls m, In (cls, m) binary_op_map -> has_key cls dialect_ops = true) /\
  (forall cls m, In (cls, m) cast_op_names -> has_key cls dialect_ops = true).
Proof.
  split; intros cls m Hin; [unfold binary_op_map in Hin | unfold cast_op_names in Hin]; split_in Hin; reflexivity.
Qed.
