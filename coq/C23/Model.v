(* C23/Model.v -- executable model of the LLVM backend xdsl/backend/llvm/{convert,convert_op}.py for the
   integer / float / cast / compare / select / memory / branch operations of the llvm dialect.
   Definitions only (no proofs).

   The TABLES are not written here: they are regenerated from the source on every run
   (coq/Gen/C23_tables.v, harness/translate/c23_tables.py).  This file is the code AROUND the tables,
   mirrored statement by statement:
     binop_flags / cast_flags   = the `match op:` flag arms of _convert_binop / _convert_cast
     conv_icmp, conv_fcmp       = _convert_icmp, _convert_fcmp (+ IRBuilder._icmp, fcmp_ordered, fcmp_unordered of llvmlite)
     conv_instr                 = convert_op's dispatch for the modelled op classes
     add_incomings, conv_term   = _convert_br / _convert_condbr (phi.add_incoming per zip(dest.args, operands))
     conv_func                  = _convert_func: blocks, phi creation for non-entry block arguments, ops
   Python exceptions are explicit (`Err`); val_map is an association list; llvmlite values are `iopd`
   (an instruction result / phi / function argument is `IVar id` with the id of the xDSL value it was
   created for, an llvm.mlir.constant is the inlined `IConst`).

   Types are integer codes: w >= 1 is iw, 0 is ptr, -16 / -32 / -64 are half / float / double. *)
From Coq Require Import ZArith List String Ascii Bool.
From XV Require Import Gen.C23_tables C24.Model.
Import ListNotations.
Local Open Scope string_scope.
Local Open Scope list_scope.
Local Open Scope Z_scope.

Inductive err := E_Value | E_Key | E_Index | E_Assert | E_NotImpl.
Inductive res (A : Type) := Ok (a : A) | Err (e : err).
Arguments Ok {A} _.
Arguments Err {A} _.
Definition bind {A B} (r : res A) (f : A -> res B) : res B :=
  match r with Ok a => f a | Err e => Err e end.
Notation "'do' x <- r ; k" := (bind r (fun x => k)) (at level 200, x pattern, r at level 100, k at level 200).

(* ---------- lookups in the generated tables ---------- *)
Fixpoint assoc {A} (k : string) (l : list (string * A)) : option A :=
  match l with
  | [] => None
  | (k', v) :: r => if String.eqb k k' then Some v else assoc k r
  end.
Fixpoint assocZ {A} (k : Z) (l : list (Z * A)) : option A :=
  match l with
  | [] => None
  | (k', v) :: r => if k =? k' then Some v else assocZ k r
  end.
Definition mem_str (s : string) (l : list string) : bool := existsb (String.eqb s) l.

Definition op_name (cls : string) : option string := option_map fst (assoc cls dialect_ops).
Definition ancestors (cls : string) : list string :=
  match assoc cls dialect_ops with Some (_, a) => a | None => [] end.
(* python `match op: case llvm.B(): ...` takes the first arm whose class is an ancestor (or the class) *)
Definition first_arm {A} (cls : string) (arms : list (string * A)) : option A :=
  match filter (fun a => String.eqb (fst a) cls || mem_str (fst a) (ancestors cls)) arms with
  | [] => None
  | a :: _ => Some (snd a)
  end.
(* python tuple indexing `T[i]` incl. negative indices; IndexError outside [-n, n) *)
Definition py_index {A} (l : list A) (i : Z) : res A :=
  let n := Z.of_nat (List.length l) in
  if (i <? - n) || (n <=? i) then Err E_Index
  else match nth_error l (Z.to_nat (if i <? 0 then i + n else i)) with Some x => Ok x | None => Err E_Index end.

(* ---------- source operations (the properties the backend reads) ---------- *)
Record src_binop := mkBin {
  sb_class : string;              (* python class name, e.g. "AddOp" *)
  sb_overflow : option Z;         (* overflowFlags : IntegerAttr i32, if the property is present *)
  sb_exact : bool;                (* isExact unit property present *)
  sb_disjoint : bool;             (* isDisjoint unit property present *)
  sb_fastmath : list string }.    (* fastmathFlags (float ops) *)

(* `if op.<prop>:` truthiness + the value read, per rule of the generated arm *)
Definition binop_flags (o : src_binop) : res (list string) :=
  match first_arm (sb_class o) binop_flag_arms with
  | None => Ok []
  | Some (rule, (prop, consts)) =>
      if String.eqb rule "overflow_int" then
        if String.eqb prop "overflowFlags" then
          match sb_overflow o with
          | None => Ok []
          | Some v =>
              if v =? 0 then Ok []            (* IntegerAttr.__bool__ : value != 0 *)
              else match assocZ v overflow_from_int with Some fl => Ok fl | None => Err E_Value end
          end
        else Err E_NotImpl
      else if String.eqb rule "attr_values" then
        if String.eqb prop "fastmathFlags" then Ok (sb_fastmath o) else Err E_NotImpl
      else if String.eqb rule "unit" then
        if String.eqb prop "is_exact" then Ok (if sb_exact o then consts else [])
        else if String.eqb prop "is_disjoint" then Ok (if sb_disjoint o then consts else [])
        else Err E_NotImpl
      else Err E_NotImpl
  end.

Record src_cast := mkCast {
  sc_class : string;
  sc_overflow : option (list string);   (* overflowFlags : OverflowAttr (always truthy when present) *)
  sc_nneg : bool }.
Definition cast_flags (o : src_cast) : res (list string) :=
  match first_arm (sc_class o) cast_flag_arms with
  | None => Ok []
  | Some (rule, (prop, consts)) =>
      if String.eqb rule "attr_values" then
        if String.eqb prop "overflowFlags" then Ok (match sc_overflow o with Some fl => fl | None => [] end)
        else Err E_NotImpl
      else if String.eqb rule "unit" then
        if String.eqb prop "non_neg" then Ok (if sc_nneg o then consts else []) else Err E_NotImpl
      else Err E_NotImpl
  end.

(* llvmlite: IRBuilder.<method> of @_binop('<opcode>') creates Instruction(opname = opcode) *)
Definition binop_opcode (cls : string) : res string :=
  match assoc cls binary_op_map with
  | None => Err E_Key
  | Some meth => match assoc meth llvmlite_binop_opname with Some oc => Ok oc | None => Err E_NotImpl end
  end.

(* _convert_icmp + IRBuilder._icmp : predicate integer -> LLVM predicate mnemonic *)
Definition llvmlite_icmp (prefix cmpop : string) : res string :=
  match assoc cmpop llvmlite_cmp_map with
  | None => Err E_Value
  | Some op => Ok (if String.eqb cmpop "==" || String.eqb cmpop "!=" then op else prefix ++ op)%string
  end.
Definition conv_icmp (pred : Z) : res string :=
  do ps <- py_index icmp_flags pred;
  match assoc ps icmp_pred_map with
  | None => Err E_Key
  | Some (cmpop, sg) =>
      let meth := if sg then icmp_signed_method else icmp_unsigned_method in
      if String.eqb meth "icmp_signed" then llvmlite_icmp "s" cmpop
      else if String.eqb meth "icmp_unsigned" then llvmlite_icmp "u" cmpop
      else Err E_NotImpl
  end.
(* which operand goes first: icmp_operands = ["lhs"; "rhs"] in the unchanged code *)
Definition pick_operand {A} (name : string) (lhs rhs : A) : res A :=
  if String.eqb name "lhs" then Ok lhs else if String.eqb name "rhs" then Ok rhs else Err E_NotImpl.

(* _convert_fcmp + IRBuilder.fcmp_ordered / fcmp_unordered + FCMPInstr validation *)
Definition str_tail (s : string) : string := match s with EmptyString => EmptyString | String _ r => r end.
Definition str_head_is (c : ascii) (s : string) : bool :=
  match s with EmptyString => false | String a _ => Ascii.eqb a c end.
Fixpoint lstrip_underscore (s : string) : string :=
  match s with String "_"%char r => lstrip_underscore r | _ => s end.
Definition conv_fcmp (pred : Z) : res string :=
  do p <- py_index fcmp_flags pred;
  match p with
  | EmptyString => Err E_Index                        (* pred[0] on an empty string *)
  | _ =>
    let is_ordered := str_head_is "o"%char p in
    let key := str_tail p in
    let dflt := if fcmp_strips_underscore then lstrip_underscore p else p in
    let cmpop := match assoc key fcmp_cmp_map with Some c => c | None => dflt end in
    let op := match assoc cmpop llvmlite_cmp_map with
              | Some sfx => ((if is_ordered then "o" else "u") ++ sfx)%string
              | None => cmpop end in
    if mem_str op llvmlite_fcmp_valid then Ok op else Err E_Value
  end.

Definition cast_opcode (cls : string) : res string :=
  match assoc cls cast_op_names with Some oc => Ok oc | None => Err E_Key end.

(* ---------- programs ---------- *)
Inductive dinstr :=
| DConst (r : Z) (t : Z) (c : Z)
| DBin (r : Z) (o : src_binop) (t : Z) (a b : Z)
| DIcmp (r : Z) (pred : Z) (t : Z) (a b : Z)
| DFcmp (r : Z) (pred : Z) (t : Z) (a b : Z)
| DCast (r : Z) (o : src_cast) (t : Z) (a : Z) (t2 : Z)
| DSelect (r : Z) (t : Z) (c a b : Z)
| DAlloca (r : Z) (t : Z) (tn : Z) (n : Z) (align : Z)
| DLoad (r : Z) (t : Z) (p : Z) (align : Z)
| DStore (t : Z) (v p : Z) (align : Z).
Inductive dterm :=
| DRet (t : Z) (v : Z) | DRetVoid
| DBr (d : Z) (args : list Z)
| DCondBr (c : Z) (t : Z) (targs : list Z) (e : Z) (eargs : list Z)
| DUnreachable.
Record dblock := mkDB { d_args : list (Z * Z); d_body : list dinstr; d_term : dterm }.
Definition dfunc := list dblock.

Inductive iopd := IVar (v : Z) | IConst (t : Z) (c : Z).
Inductive iinstr :=
| IBin (r : Z) (opc : string) (flags : list string) (t : Z) (a b : iopd)
| IIcmp (r : Z) (pred : string) (t : Z) (a b : iopd)
| IFcmp (r : Z) (pred : string) (t : Z) (a b : iopd)
| ICast (r : Z) (opc : string) (flags : list string) (t : Z) (a : iopd) (t2 : Z)
| ISelect (r : Z) (t : Z) (c a b : iopd)
| IAlloca (r : Z) (t : Z) (tn : Z) (n : iopd) (align : Z)
| ILoad (r : Z) (t : Z) (p : iopd) (align : Z)
| IStore (t : Z) (v p : iopd) (align : Z).
Inductive iterm :=
| IRet (t : Z) (a : iopd) | IRetVoid | IBr (d : Z) | ICondBr (c : iopd) (t e : Z) | IUnreachable.
(* an incoming value of a phi: an llvmlite value, or (kernel abstraction of the repaired cond_br, see
   k_condbr) `select c a b` evaluated in the predecessor *)
Inductive kopd := KO (o : iopd) | KSel (c a b : iopd).
Definition incoming := (kopd * Z)%type.                (* (value, predecessor block) *)
Record iblock := mkIB { i_phis : list (Z * Z * list incoming); i_body : list iinstr; i_term : iterm }.

Definition iopd_eqb (x y : iopd) : bool :=
  match x, y with
  | IVar a, IVar b => a =? b
  | IConst t c, IConst t' c' => (t =? t') && (c =? c')
  | _, _ => false
  end.
Definition kopd_eqb (x y : kopd) : bool :=
  match x, y with
  | KO a, KO b => iopd_eqb a b
  | KSel c a b, KSel c' a' b' => iopd_eqb c c' && iopd_eqb a a' && iopd_eqb b b'
  | _, _ => false
  end.

(* ---------- val_map ---------- *)
Definition valmap := list (Z * iopd).
Fixpoint vm_get (vm : valmap) (v : Z) : res iopd :=
  match vm with
  | [] => Err E_Key
  | (k, o) :: r => if k =? v then Ok o else vm_get r v
  end.
Definition vm_set (vm : valmap) (v : Z) (o : iopd) : valmap := (v, o) :: vm.
Fixpoint vm_gets (vm : valmap) (vs : list Z) : res (list iopd) :=
  match vs with
  | [] => Ok []
  | v :: r => do o <- vm_get vm v; do os <- vm_gets vm r; Ok (o :: os)
  end.

(* ---------- convert_op for one non-terminator op: the emitted instruction (None for a constant) ---------- *)
Definition conv_instr (vm : valmap) (i : dinstr) : res (option iinstr * valmap) :=
  match i with
  | DConst r t c => Ok (None, vm_set vm r (IConst t c))
  | DBin r o t a b =>
      do opc <- binop_opcode (sb_class o);
      do fl <- binop_flags o;
      match binop_operand_order with
      | [i0; i1] =>
          do x <- vm_get vm (if i0 =? 0 then a else b);
          do y <- vm_get vm (if i1 =? 0 then a else b);
          Ok (Some (IBin r opc fl t x y), vm_set vm r (IVar r))
      | _ => Err E_NotImpl
      end
  | DIcmp r pred t a b =>
      do p <- conv_icmp pred;
      match icmp_operands with
      | [n0; n1] =>
          do a0 <- pick_operand n0 a b; do a1 <- pick_operand n1 a b;
          do x <- vm_get vm a0; do y <- vm_get vm a1;
          Ok (Some (IIcmp r p t x y), vm_set vm r (IVar r))
      | _ => Err E_NotImpl
      end
  | DFcmp r pred t a b =>
      do p <- conv_fcmp pred;
      do x <- vm_get vm a; do y <- vm_get vm b;
      Ok (Some (IFcmp r p t x y), vm_set vm r (IVar r))
  | DCast r o t a t2 =>
      do fl <- cast_flags o;
      do opc <- cast_opcode (sc_class o);
      do x <- vm_get vm a;
      Ok (Some (ICast r opc fl t x t2), vm_set vm r (IVar r))
  | DSelect r t c a b =>
      do x <- vm_get vm c; do y <- vm_get vm a; do z <- vm_get vm b;
      Ok (Some (ISelect r t x y z), vm_set vm r (IVar r))
  | DAlloca r t tn n al =>
      do x <- vm_get vm n; Ok (Some (IAlloca r t tn x al), vm_set vm r (IVar r))
  | DLoad r t p al =>
      do x <- vm_get vm p; Ok (Some (ILoad r t x al), vm_set vm r (IVar r))
  | DStore t v p al =>
      do x <- vm_get vm v; do y <- vm_get vm p; Ok (Some (IStore t x y al), vm)
  end.

Fixpoint conv_body (vm : valmap) (l : list dinstr) : res (list iinstr * valmap) :=
  match l with
  | [] => Ok ([], vm)
  | i :: r =>
      do (oi, vm1) <- conv_instr vm i;
      do (is, vm2) <- conv_body vm1 r;
      Ok (match oi with Some x => x :: is | None => is end, vm2)
  end.

(* ---------- phi table: (block, argument index) -> incomings, created empty for non-entry blocks ---------- *)
Definition phitab := list ((Z * Z) * list incoming).
Fixpoint pt_add (pt : phitab) (b k : Z) (inc : incoming) : option phitab :=
  match pt with
  | [] => None                                  (* not a PhiInstr: `assert isinstance(phi, PhiInstr)` *)
  | ((b', k'), l) :: r =>
      if (b =? b') && (k =? k') then Some (((b', k'), l ++ [inc]) :: r)
      else option_map (cons ((b', k'), l)) (pt_add r b k inc)
  end.
Definition pt_get (pt : phitab) (b k : Z) : list incoming :=
  match find (fun e => (b =? fst (fst e)) && (k =? snd (fst e))) pt with Some e => snd e | None => [] end.

(* `for arg, val in zip(dest.args, operands): phi = val_map[arg]; assert ...; phi.add_incoming(val_map[val], cur)`
   nargs = len(dest.args); vals = the operands already looked up; k = index of the next argument *)
Fixpoint add_incomings (pt : phitab) (dest : Z) (k : Z) (nargs : nat) (vals : list kopd) (cur : Z) : res phitab :=
  match nargs, vals with
  | S n, v :: r =>
      match pt_add pt dest k (v, cur) with
      | None => Err E_Assert
      | Some pt' => add_incomings pt' dest (k + 1) n r cur
      end
  | _, _ => Ok pt
  end.

Definition nargs_of (f : dfunc) (b : Z) : nat :=
  match nth_error f (Z.to_nat b) with Some bl => List.length (d_args bl) | None => O end.

(* zip(dest.args, operands) truncated to the shorter; val_map[val] raises KeyError lazily, i.e. only for the
   operands the zip reaches *)
Definition zip_lookup (vm : valmap) (n : nat) (vs : list Z) : res (list iopd) := vm_gets vm (firstn n vs).

(* repaired cond_br to one block: `val = val_map[t] if t is e else builder.select(cond, val_map[t], val_map[e])`
   (t, e are the xDSL operands: compared by identity of the SSA value) *)
Fixpoint mk_selects (fresh : Z) (t_of : nat -> Z) (k : nat) (c : iopd) (ts es : list (Z * iopd))
  : list iinstr * list kopd * Z :=
  match ts, es with
  | (ti, t) :: tr, (ei, e) :: er =>
      if ti =? ei then
        let '(is, os, fr) := mk_selects fresh t_of (S k) c tr er in (is, KO t :: os, fr)
      else
        let '(is, os, fr) := mk_selects (fresh - 1) t_of (S k) c tr er in
        (ISelect fresh (t_of k) c t e :: is, KO (IVar fresh) :: os, fr)
  | _, _ => ([], [], fresh)
  end.

(* _convert_br / _convert_condbr.  `fresh` numbers the values the repaired cond_br creates (negative ids). *)
Definition conv_term (f : dfunc) (vm : valmap) (pt : phitab) (fresh : Z) (cur : Z) (t : dterm)
  : res (list iinstr * iterm * phitab * Z) :=
  match t with
  | DRet ty v => do x <- vm_get vm v; Ok ([], IRet ty x, pt, fresh)
  | DRetVoid => Ok ([], IRetVoid, pt, fresh)
  | DUnreachable => Ok ([], IUnreachable, pt, fresh)
  | DBr d args =>
      let n := nargs_of f d in
      do vals <- (if (d =? 0) && negb (Nat.eqb (Nat.min n (List.length args)) 0) then Err E_Assert else zip_lookup vm n args);
      do pt' <- add_incomings pt d 0 n (map KO vals) cur;
      Ok ([], IBr d, pt', fresh)
  | DCondBr c tb targs eb eargs =>
      if condbr_same_block_special_case && (tb =? eb) then
        (* repaired code: one select per differing operand pair, the same incoming twice *)
        do cv <- vm_get vm c;
        let n := nargs_of f tb in
        let m := Nat.min n (Nat.min (List.length targs) (List.length eargs)) in
        do tv <- (if (tb =? 0) && negb (Nat.eqb m 0) then Err E_Assert else zip_lookup vm m targs);
        do ev <- zip_lookup vm m eargs;
        let t_of := fun k => match nth_error f (Z.to_nat tb) with
                             | Some bl => snd (nth k (d_args bl) (0, 0)) | None => 0 end in
        let '(sels, os, fresh') := mk_selects fresh t_of O cv (combine (firstn m targs) tv) (combine (firstn m eargs) ev) in
        do pt1 <- add_incomings pt tb 0 m os cur;
        do pt2 <- add_incomings pt1 tb 0 m os cur;
        Ok (sels, ICondBr cv tb eb, pt2, fresh')
      else
        let nt := nargs_of f tb in
        let ne := nargs_of f eb in
        do tv <- (if (tb =? 0) && negb (Nat.eqb (Nat.min nt (List.length targs)) 0) then Err E_Assert else zip_lookup vm nt targs);
        do pt1 <- add_incomings pt tb 0 nt (map KO tv) cur;
        do ev <- (if (eb =? 0) && negb (Nat.eqb (Nat.min ne (List.length eargs)) 0) then Err E_Assert else zip_lookup vm ne eargs);
        do pt2 <- add_incomings pt1 eb 0 ne (map KO ev) cur;
        do cv <- vm_get vm c;
        Ok ([], ICondBr cv tb eb, pt2, fresh)
  end.

(* pass 1+2 of _convert_func: val_map for all block arguments (entry: function arguments; others: phis) *)
Fixpoint init_args (i : Z) (bs : list dblock) (vm : valmap) (pt : phitab) : valmap * phitab :=
  match bs with
  | [] => (vm, pt)
  | b :: r =>
      let ids := map fst (d_args b) in
      let vm' := fold_left (fun m a => vm_set m a (IVar a)) ids vm in
      let pt' := if i =? 0 then pt
                 else pt ++ map (fun k => ((i, Z.of_nat k), [])) (seq 0 (List.length ids)) in
      init_args (i + 1) r vm' pt'
  end.

(* the order in which the blocks' ops are converted: layout order, or (repaired code) reverse post-order of the
   CFG from the entry followed by the unreachable blocks in layout order *)
Definition term_succs (t : dterm) : list nat :=
  match t with
  | DBr d _ => [Z.to_nat d]
  | DCondBr _ t _ e _ => [Z.to_nat t; Z.to_nat e]
  | _ => []
  end.
Definition block_order (f : dfunc) : list nat :=
  let n := List.length f in
  if blocks_converted_in_dominance_order then
    match post_order (map (fun b => term_succs (d_term b)) f) with
    | Some po => let rpo := rev po in rpo ++ filter (fun b => negb (existsb (Nat.eqb b) rpo)) (seq 0 n)
    | None => seq 0 n
    end
  else seq 0 n.

Record cblock := mkCB { c_idx : nat; c_body : list iinstr; c_term : iterm }.
Fixpoint conv_blocks (f : dfunc) (order : list nat) (vm : valmap) (pt : phitab) (fresh : Z)
  : res (list cblock * phitab) :=
  match order with
  | [] => Ok ([], pt)
  | i :: r =>
      match nth_error f i with
      | None => Err E_Index
      | Some b =>
          do (is, vm1) <- conv_body vm (d_body b);
          do (extra, tm, pt1, fresh1) <- conv_term f vm1 pt fresh (Z.of_nat i) (d_term b);
          do (cbs, pt2) <- conv_blocks f r vm1 pt1 fresh1;
          Ok (mkCB i (is ++ extra) tm :: cbs, pt2)
      end
  end.

Definition find_cb (cbs : list cblock) (i : nat) : option cblock :=
  find (fun c => Nat.eqb (c_idx c) i) cbs.

Definition conv_func (f : dfunc) : res (list iblock) :=
  let '(vm0, pt0) := init_args 0 f [] [] in
  do (cbs, pt) <- conv_blocks f (block_order f) vm0 pt0 (-1);
  Ok (map (fun i =>
        let b := nth i f (mkDB [] [] DUnreachable) in
        let phis := if Nat.eqb i 0 then []
                    else map (fun k => (fst (nth k (d_args b) (0, 0)), snd (nth k (d_args b) (0, 0)),
                                        pt_get pt (Z.of_nat i) (Z.of_nat k)))
                             (seq 0 (List.length (d_args b))) in
        match find_cb cbs i with
        | Some c => mkIB phis (c_body c) (c_term c)
        | None => mkIB phis [] IUnreachable
        end) (seq 0 (List.length f))).

(* ---------- CFG kernel: only block arguments and terminators (operands already llvmlite values) ---------- *)
Inductive kterm :=
| KRet (v : iopd)
| KBr (d : Z) (args : list iopd)
| KCondBr (c : iopd) (t : Z) (targs : list iopd) (e : Z) (eargs : list iopd)
| KStop.
Record kblock := mkKB { k_args : list Z; k_term : kterm }.
Definition kfunc := list kblock.
Definition k_nargs (f : kfunc) (b : Z) : nat :=
  match nth_error f (Z.to_nat b) with Some bl => List.length (k_args bl) | None => O end.

(* repaired cond_br to one block: the operand itself when both edges pass the same one, else `select c t e` *)
Definition k_sel (c t e : iopd) : kopd := if iopd_eqb t e then KO t else KSel c t e.
(* the incomings one terminator adds (same add_incomings as conv_term; `fixed` = repaired cond_br) *)
Definition k_term_phis (fixed : bool) (f : kfunc) (pt : phitab) (cur : Z) (t : kterm) : res phitab :=
  match t with
  | KRet _ | KStop => Ok pt
  | KBr d args => add_incomings pt d 0 (k_nargs f d) (map KO args) cur
  | KCondBr c tb targs eb eargs =>
      if fixed && (tb =? eb) then
        let os := map (fun p => k_sel c (fst p) (snd p)) (combine targs eargs) in
        do pt1 <- add_incomings pt tb 0 (k_nargs f tb) os cur;
        add_incomings pt1 tb 0 (k_nargs f tb) os cur
      else
        do pt1 <- add_incomings pt tb 0 (k_nargs f tb) (map KO targs) cur;
        add_incomings pt1 eb 0 (k_nargs f eb) (map KO eargs) cur
  end.
Fixpoint k_init (i : Z) (bs : list kblock) (pt : phitab) : phitab :=
  match bs with
  | [] => pt
  | b :: r => k_init (i + 1) r
      (if i =? 0 then pt else pt ++ map (fun k => ((i, Z.of_nat k), [])) (seq 0 (List.length (k_args b))))
  end.
Fixpoint k_walk (fixed : bool) (f : kfunc) (order : list nat) (pt : phitab) : res phitab :=
  match order with
  | [] => Ok pt
  | i :: r =>
      match nth_error f i with
      | None => Err E_Index
      | Some b => do pt1 <- k_term_phis fixed f pt (Z.of_nat i) (k_term b); k_walk fixed f r pt1
      end
  end.
Definition k_build (fixed : bool) (f : kfunc) (order : list nat) : res phitab :=
  k_walk fixed f order (k_init 0 f []).
