(* C23/ProofsWhole.v -- whole-function simulation for the integer fragment (machines: C23/Whole.v).

   Instruction-wise the table theorems of ProofsTables.v (hence sem_i = sem_d of ProofsBits.v for every width) are
   used; at block boundaries the transfer lemmas of ProofsPhi.v (the content of phi_block_args: the phi table built
   by k_build delivers, from predecessor p, exactly the values of the operands p's terminator passes).
   Direction: whenever the SOURCE machine does not get stuck (ill-typed operand, value used before it is defined, op
   outside the fragment), the TARGET machine produces the same outcome: the same returned bit pattern, poison/UB
   exactly when the source is, fuel exhaustion after the same number of blocks. *)
From Coq Require Import ZArith List String Bool Lia.
From XV Require Import C15.Spec Gen.C23_tables C23.Model C23.Sem C23.ProofsBits C23.ProofsTables C23.ProofsPhi C23.Whole.
Import ListNotations.
Local Open Scope string_scope.
Local Open Scope list_scope.
Local Open Scope Z_scope.

Lemma assoc_In {A} k (l : list (string * A)) v : assoc k l = Some v -> In (k, v) l.
Proof.
  induction l as [|[k' v'] r IH]; cbn [assoc]; [discriminate|].
  destruct (String.eqb_spec k k') as [->|]; intros H; [inversion H; left; reflexivity | right; apply IH; exact H].
Qed.

Definition V_id (V : valmap) : Prop :=
  Forall (fun p => match snd p with IVar u => u = fst p | IConst _ _ => True end) V.
Lemma V_id_lookup V v u : V_id V -> vm_get V v = Ok (IVar u) -> u = v.
Proof.
  induction 1 as [|[k o] r Hk _ IH]; cbn [vm_get]; [discriminate|].
  destruct (Z.eqb_spec k v) as [->|]; [|exact IH].
  intros E; inversion E; subst o. exact Hk.
Qed.
Lemma wvmf_get V v o : vm_get V v = Ok o -> wvmf V v = o.
Proof. unfold wvmf; intros ->; reflexivity. Qed.
Lemma wvmf_cases V v : V_id V -> wvmf V v = IVar v \/ exists t c, wvmf V v = IConst t c.
Proof.
  intros HV. unfold wvmf. destruct (vm_get V v) as [[u|t c]|] eqn:E.
  - left. f_equal. apply (V_id_lookup V v u HV E).
  - right; eauto.
  - left; reflexivity.
Qed.

Lemma Rel_set_var V ed ei r z : V_id V -> vm_get V r = Ok (IVar r) -> Rel V ed ei -> Rel V ((r, z) :: ed) ((r, z) :: ei).
Proof.
  intros HV Hr HR v x. cbn [env_get].
  destruct (Z.eqb_spec r v) as [->|Ne].
  - intros E; inversion E; subst. rewrite (wvmf_get _ _ _ Hr). cbn [i_eval env_get]. rewrite Z.eqb_refl. reflexivity.
  - intros E. specialize (HR v x E). destruct (wvmf_cases V v HV) as [W | (t & c & W)]; rewrite W in *.
    + cbn [i_eval env_get] in *. destruct (Z.eqb_spec r v); [contradiction | exact HR].
    + exact HR.
Qed.
Lemma Rel_set_const V ed ei r t c : vm_get V r = Ok (IConst t c) -> Rel V ed ei -> Rel V ((r, wrap t c) :: ed) ei.
Proof.
  intros Hr HR v x. cbn [env_get]. destruct (Z.eqb_spec r v) as [->|Ne]; [|apply HR].
  intros E; inversion E; subst. rewrite (wvmf_get _ _ _ Hr). reflexivity.
Qed.
Lemma Rel_app V l ed ei : V_id V -> (forall k, In k (map fst l) -> vm_get V k = Ok (IVar k)) ->
  Rel V ed ei -> Rel V (l ++ ed) (l ++ ei).
Proof.
  intros HV. induction l as [|[k z] r IH]; intros Hk HR; [exact HR|]. cbn [app].
  apply Rel_set_var; [exact HV | apply Hk; left; reflexivity |].
  apply IH; [intros k' Hk'; apply Hk; right; exact Hk' | exact HR].
Qed.

Lemma fetch_rel V ed ei a t x o : Rel V ed ei -> fetch_d ed a t = Some x -> vm_get V a = Ok o -> fetch_i ei o t = Some x.
Proof.
  unfold fetch_d, fetch_i. intros HR Hf Hg.
  destruct (env_get ed a) as [y|] eqn:E; [|discriminate].
  rewrite <- (wvmf_get _ _ _ Hg), (HR a y E). exact Hf.
Qed.
Lemma fetch_d_range e a t x : fetch_d e a t = Some x -> 1 <= t /\ 0 <= x < 2 ^ t.
Proof.
  unfold fetch_d, in_ty. destruct (env_get e a) as [y|]; [|discriminate].
  destruct (Z.leb_spec 1 t), (Z.leb_spec 0 y), (Z.ltb_spec y (2 ^ t)); cbn; try discriminate.
  intros E; inversion E; subst. lia.
Qed.
Lemma ovf_validb_ok o : ovf_validb o = true -> ovf_valid o.
Proof.
  unfold ovf_validb, ovf_valid. destruct (sb_overflow o) as [v|]; [|trivial].
  destruct (Z.leb_spec 0 v), (Z.leb_spec v 3); cbn; try discriminate. lia.
Qed.
Lemma cast_ovf_validb_ok o : cast_ovf_validb o = true -> cast_ovf_valid o.
Proof.
  unfold cast_ovf_validb, cast_ovf_valid. intros H s Hs.
  rewrite forallb_forall in H. specialize (H s Hs). apply orb_prop in H as [H | H]; apply String.eqb_eq in H; auto.
Qed.

(* ---------- one operation ---------- *)
Definition instr_goal (V : valmap) (ei : cenv) (oi : option iinstr) (s : step) : Prop :=
  match oi with
  | Some ii =>
      match s with
      | Next ed' => exists ei', exec_i ei ii = Next ei' /\ Rel V ed' ei'
      | Poison => exec_i ei ii = Poison
      | StuckS => True
      end
  | None => match s with Next ed' => Rel V ed' ei | Poison => False | StuckS => True end
  end.

Lemma instr_sim V ed ei i p : V_id V -> Rel V ed ei -> def_ok V i -> conv_instr V i = Ok p ->
  instr_goal V ei (fst p) (exec_d ed i).
Proof.
  intros HV HR Hd Hc. destruct i as [r t c|r o t a b|r pr t a b|r pr t a b|r o t a t2|r t c a b| | |];
    cbn [exec_d]; try (cbn [conv_instr] in Hc).
  - (* constant *)
    inversion Hc; subst p. cbn [fst instr_goal]. destruct (1 <=? t); [|exact I].
    apply Rel_set_const; assumption.
  - (* integer binary operation *)
    destruct (binop_opcode (sb_class o)) as [opc|] eqn:Eo; [|discriminate]. cbn [bind] in Hc.
    destruct (binop_flags o) as [fl|] eqn:Ef; [|discriminate]. cbn [bind] in Hc.
    change binop_operand_order with [0; 1] in Hc. cbn [Z.eqb] in Hc.
    destruct (vm_get V a) as [oa|] eqn:Ga; [|discriminate]. cbn [bind] in Hc.
    destruct (vm_get V b) as [ob|] eqn:Gb; [|discriminate]. cbn [bind] in Hc.
    inversion Hc; subst p. cbn [fst instr_goal].
    destruct (op_name (sb_class o)) as [n|] eqn:En; [|exact I].
    destruct (dialect_bin n) as [d|] eqn:Ed; [|exact I].
    destruct (ovf_validb o) eqn:Ev; [|exact I].
    destruct (fetch_d ed a t) as [x|] eqn:Fa; [|exact I].
    destruct (fetch_d ed b t) as [y|] eqn:Fb; [|exact I].
    assert (Hin : exists meth, In (sb_class o, meth) binary_op_map).
    { unfold binop_opcode in Eo. destruct (assoc (sb_class o) binary_op_map) as [m|] eqn:Em; [|discriminate].
      exists m. apply assoc_In; exact Em. }
    destruct Hin as [meth Hin].
    destruct (binop_table_sound _ _ Hin n d En Ed o eq_refl (ovf_validb_ok o Ev))
      as (opc' & fl' & Eo' & Ef' & Hl & Hok & Hfl & _ & Hsem).
    rewrite Eo in Eo'; injection Eo' as <-. rewrite Ef in Ef'; injection Ef' as <-.
    destruct (fetch_d_range _ _ _ _ Fa) as [Ht Hx]. destruct (fetch_d_range _ _ _ _ Fb) as [_ Hy].
    cbn [exec_i]. rewrite Hl, Hok, (fetch_rel _ _ _ _ _ _ _ HR Fa Ga), (fetch_rel _ _ _ _ _ _ _ HR Fb Gb).
    rewrite (Hsem t x y Ht Hx Hy).
    destruct (sem_d d (spec_flags d o) t x y) as [z|]; [|reflexivity].
    eexists; split; [reflexivity|]. apply Rel_set_var; assumption.
  - (* icmp *)
    destruct (conv_icmp pr) as [mn|] eqn:Em; [|discriminate]. cbn [bind] in Hc.
    change icmp_operands with ["lhs"; "rhs"] in Hc. cbv iota in Hc.
    change (pick_operand "lhs" a b) with (Ok a) in Hc. change (pick_operand "rhs" a b) with (Ok b) in Hc. cbn [bind] in Hc.
    destruct (vm_get V a) as [oa|] eqn:Ga; [|discriminate]. cbn [bind] in Hc.
    destruct (vm_get V b) as [ob|] eqn:Gb; [|discriminate]. cbn [bind] in Hc.
    inversion Hc; subst p. cbn [fst instr_goal].
    destruct ((0 <=? pr) && (pr <=? 9)) eqn:Er; [|exact I].
    apply andb_prop in Er as [R1 R2]. apply Z.leb_le in R1, R2.
    destruct (fetch_d ed a t) as [x|] eqn:Fa; [|exact I].
    destruct (fetch_d ed b t) as [y|] eqn:Fb; [|exact I].
    destruct (icmp_table_sound pr (conj R1 R2)) as (mn' & Em' & _ & Hsem).
    rewrite Em in Em'; injection Em' as <-.
    destruct (fetch_d_range _ _ _ _ Fa) as [Ht Hx]. destruct (fetch_d_range _ _ _ _ Fb) as [_ Hy].
    cbn [exec_i]. rewrite (fetch_rel _ _ _ _ _ _ _ HR Fa Ga), (fetch_rel _ _ _ _ _ _ _ HR Fb Gb).
    rewrite (Hsem t x y Ht Hx Hy).
    destruct (sem_d_icmp pr t x y) as [bb|]; [|exact I].
    eexists; split; [reflexivity|]. apply Rel_set_var; assumption.
  - (* fcmp: outside the fragment *)
    destruct (conv_fcmp pr); [|discriminate]. cbn [bind] in Hc.
    destruct (vm_get V a); [|discriminate]. cbn [bind] in Hc. destruct (vm_get V b); [|discriminate].
    inversion Hc; subst p. exact I.
  - (* cast *)
    destruct (cast_flags o) as [fl|] eqn:Ef; [|discriminate]. cbn [bind] in Hc.
    destruct (cast_opcode (sc_class o)) as [opc|] eqn:Eo; [|discriminate]. cbn [bind] in Hc.
    destruct (vm_get V a) as [oa|] eqn:Ga; [|discriminate]. cbn [bind] in Hc.
    inversion Hc; subst p. cbn [fst instr_goal].
    destruct (op_name (sc_class o)) as [n|] eqn:En; [|exact I].
    destruct (dialect_cast n) as [c|] eqn:Ec; [|exact I].
    destruct (cast_ovf_validb o && cast_widths_ok c t t2) eqn:Ev; [|exact I].
    apply andb_prop in Ev as [Ev Ew].
    destruct (fetch_d ed a t) as [x|] eqn:Fa; [|exact I].
    assert (Hin : In (sc_class o, opc) cast_op_names).
    { unfold cast_opcode in Eo. destruct (assoc (sc_class o) cast_op_names) as [m|] eqn:Em; [|discriminate].
      inversion Eo; subst m. apply assoc_In; exact Em. }
    destruct (cast_table_sound _ _ Hin n c En Ec o eq_refl (cast_ovf_validb_ok o Ev))
      as (fl' & _ & Ef' & Hl & Hok & Hfl & Hsem).
    rewrite Ef in Ef'; injection Ef' as <-.
    destruct (fetch_d_range _ _ _ _ Fa) as [Ht Hx].
    cbn [exec_i]. rewrite Hl, Hok, Ew, (fetch_rel _ _ _ _ _ _ _ HR Fa Ga). cbn [andb].
    assert (W : 1 <= t2 /\ (c = Trunc -> t2 < t) /\ (c = SExt -> t < t2)).
    { unfold cast_widths_ok in Ew. apply andb_prop in Ew as [W1 W2]. apply Z.leb_le in W1.
      split; [exact W1|]. split; intros ->; apply Z.ltb_lt in W2; exact W2. }
    destruct W as (W1 & W2 & W3).
    rewrite (Hsem t t2 x Ht W1 W2 W3 Hx).
    destruct (sem_d_cast c (spec_cast_flags c o) t t2 x) as [z|]; [|reflexivity].
    eexists; split; [reflexivity|]. apply Rel_set_var; assumption.
  - (* select *)
    destruct (vm_get V c) as [oc|] eqn:Gc; [|discriminate]. cbn [bind] in Hc.
    destruct (vm_get V a) as [oa|] eqn:Ga; [|discriminate]. cbn [bind] in Hc.
    destruct (vm_get V b) as [ob|] eqn:Gb; [|discriminate]. cbn [bind] in Hc.
    inversion Hc; subst p. cbn [fst instr_goal].
    destruct (fetch_d ed c 1) as [vc|] eqn:Fc; [|exact I].
    destruct (fetch_d ed a t) as [x|] eqn:Fa; [|exact I].
    destruct (fetch_d ed b t) as [y|] eqn:Fb; [|exact I].
    cbn [exec_i].
    assert (Ec : i_eval ei oc = Some vc).
    { pose proof (fetch_rel _ _ _ _ _ _ _ HR Fc Gc) as F. unfold fetch_i in F.
      destruct (i_eval ei oc) as [z|]; [|discriminate]. destruct (in_ty 1 z); [exact F | discriminate]. }
    assert (Ea : i_eval ei oa = Some x).
    { pose proof (fetch_rel _ _ _ _ _ _ _ HR Fa Ga) as F. unfold fetch_i in F.
      destruct (i_eval ei oa) as [z|]; [|discriminate]. destruct (in_ty t z); [exact F | discriminate]. }
    assert (Eb : i_eval ei ob = Some y).
    { pose proof (fetch_rel _ _ _ _ _ _ _ HR Fb Gb) as F. unfold fetch_i in F.
      destruct (i_eval ei ob) as [z|]; [|discriminate]. destruct (in_ty t z); [exact F | discriminate]. }
    rewrite Ec. destruct (Z.odd vc); [rewrite Ea | rewrite Eb];
      (eexists; split; [reflexivity|]; apply Rel_set_var; assumption).
  - (* alloca *) destruct (vm_get V n); [|discriminate]. inversion Hc; subst p. exact I.
  - (* load *) destruct (vm_get V p0); [|discriminate]. inversion Hc; subst p. exact I.
  - (* store *) destruct (vm_get V v); [|discriminate]. cbn [bind] in Hc. destruct (vm_get V p0); [|discriminate].
    inversion Hc; subst p. exact I.
Qed.

(* ---------- a block body ---------- *)
Definition body_goal (V : valmap) (ei : cenv) (il : list iinstr) (s : step) : Prop :=
  match s with
  | Next ed' => exists ei', exec_body_i ei il = Next ei' /\ Rel V ed' ei'
  | Poison => exec_body_i ei il = Poison
  | StuckS => True
  end.

Lemma body_sim V : V_id V -> forall l ed ei il, (forall i, In i l -> def_ok V i) -> Rel V ed ei ->
  tr_body V l = Ok il -> body_goal V ei il (exec_body_d ed l).
Proof.
  intros HV. induction l as [|i r IH]; intros ed ei il Hd HR Ht; cbn [tr_body] in Ht.
  - inversion Ht; subst il. cbn. eexists; split; [reflexivity | exact HR].
  - destruct (conv_instr V i) as [p|] eqn:Ec; [|discriminate]. cbn [bind] in Ht.
    destruct (tr_body V r) as [is|] eqn:Er; [|discriminate]. cbn [bind] in Ht. inversion Ht; subst il.
    pose proof (instr_sim V ed ei i p HV HR (Hd i (or_introl eq_refl)) Ec) as G.
    cbn [exec_body_d]. destruct (fst p) as [ii|]; cbn [instr_goal] in G.
    + destruct (exec_d ed i) as [ed1| |].
      * destruct G as (ei1 & G1 & G2).
        assert (G3 : body_goal V ei1 is (exec_body_d ed1 r)).
        { apply (IH ed1 ei1 is); [intros j Hj; apply Hd; right; exact Hj | exact G2 | reflexivity]. }
        unfold body_goal in *. cbn [exec_body_i]. rewrite G1. exact G3.
      * cbn [body_goal exec_body_i]. rewrite G. reflexivity.
      * exact I.
    + destruct (exec_d ed i) as [ed1| |].
      * apply (IH ed1 ei is); [intros j Hj; apply Hd; right; exact Hj | exact G | reflexivity].
      * destruct G.
      * exact I.
Qed.

(* ---------- operands of a terminator ---------- *)
Lemma opt_map_rel V ed ei args vs : Rel V ed ei -> opt_map (env_get ed) args = Some vs ->
  opt_map (i_eval ei) (map (wvmf V) args) = Some vs.
Proof.
  intros HR. revert vs. induction args as [|a r IH]; intros vs; cbn [opt_map map]; [auto|].
  destruct (env_get ed a) as [x|] eqn:E; [|discriminate].
  destruct (opt_map (env_get ed) r) as [xs|]; [|discriminate]. intros H; inversion H; subst vs.
  rewrite (HR a x E), (IH xs eq_refl). reflexivity.
Qed.

Section Whole.
  Variable f : dfunc.
  Variable V : valmap.
  Variable pt : phitab.
  Let kf := tr_kfunc V f.
  Let T := mkT (tr_bodies V f) kf pt.
  Hypothesis Hvm : vm_ok V f.
  Hypothesis Htr : tr_ok V f.
  Hypothesis Hbuild : k_build condbr_same_block_special_case kf (block_order f) = Ok pt.
  Hypothesis Hwf : wf kf.
  Hypothesis Hnc : condbr_same_block_special_case = false -> no_conflict kf.
  Hypothesis Hnd : NoDup (block_order f).
  Hypothesis Hall : forall i, (i < List.length kf)%nat -> In i (block_order f).

  Lemma kf_nth cur b : nth_error f cur = Some b ->
    nth_error kf cur = Some (mkKB (map fst (d_args b)) (tr_term V (d_term b))).
  Proof. intros H. unfold kf, tr_kfunc. rewrite nth_error_map, H. reflexivity. Qed.
  Lemma bodies_nth cur b il : nth_error f cur = Some b -> tr_body V (d_body b) = Ok il ->
    nth cur (tr_bodies V f) [] = il.
  Proof.
    intros H Hb. apply nth_error_nth. unfold tr_bodies. rewrite nth_error_map, H. cbn. rewrite Hb. reflexivity.
  Qed.
  Lemma enter_rel d vs ed ei : Rel V ed ei ->
    Rel V (enter_src f d vs ed) (enter cenv c_assign kf d vs ei).
  Proof.
    intros HR. unfold enter_src, enter, c_assign.
    assert (E : k_args (nth (Z.to_nat d) kf kdflt) = map fst (d_args (nth (Z.to_nat d) f ddflt))).
    { unfold kf, tr_kfunc.
      change kdflt with ((fun b => mkKB (map fst (d_args b)) (tr_term V (d_term b))) ddflt).
      rewrite map_nth. reflexivity. }
    rewrite E. destruct Hvm as [HV Hb]. apply Rel_app; [exact HV | | exact HR].
    intros k Hk.
    destruct (Nat.lt_ge_cases (Z.to_nat d) (List.length f)) as [Hl | Hl].
    - destruct (Hb (nth (Z.to_nat d) f ddflt) (nth_In _ _ Hl)) as [Ha _].
      assert (Hk' : In k (map fst (d_args (nth (Z.to_nat d) f ddflt)))).
      { clear - Hk. revert Hk. generalize (map fst (d_args (nth (Z.to_nat d) f ddflt))). intros l. revert vs.
        induction l as [|x r IH]; intros vs; [intros []|]. destruct vs as [|v vs]; [intros []|]. cbn.
        intros [<- | H]; [left; reflexivity | right; eapply IH; exact H]. }
      apply in_map_iff in Hk' as [[a ty] [<- Hin]]. apply (Ha (a, ty) Hin).
    - rewrite nth_overflow in Hk by exact Hl. destruct Hk.
  Qed.

  Theorem whole_sim : forall fuel cur ed ei, Rel V ed ei ->
    run_src f fuel cur ed <> WStuck -> run_tgt T fuel cur ei = run_src f fuel cur ed.
  Proof.
    destruct Hvm as [HV Hb].
    induction fuel as [|n IH]; intros cur ed ei HR Hns; [reflexivity|].
    cbn [run_src run_tgt] in *.
    destruct (nth_error f cur) as [b|] eqn:Hn; [|contradiction Hns; reflexivity].
    change (t_k T) with kf. change (t_bodies T) with (tr_bodies V f). change (t_pt T) with pt.
    rewrite (kf_nth cur b Hn).
    destruct (Htr b (nth_error_In _ _ Hn)) as [il Hil]. rewrite (bodies_nth cur b il Hn Hil).
    destruct (Hb b (nth_error_In _ _ Hn)) as [_ Hdefs].
    pose proof (body_sim V HV (d_body b) ed ei il Hdefs HR Hil) as G.
    destruct (exec_body_d ed (d_body b)) as [ed1| |]; cbn [body_goal] in G.
    2: { rewrite G. reflexivity. }
    2: { contradiction Hns; reflexivity. }
    destruct G as (ei1 & G1 & HR1). rewrite G1. cbn [k_term].
    destruct (d_term b) as [ty v| |d args|c tb ta eb ea|] eqn:Ht; cbn [tr_term].
    - (* ret *)
      destruct (env_get ed1 v) as [x|] eqn:E; [|contradiction Hns; reflexivity].
      rewrite (HR1 v x E). reflexivity.
    - reflexivity.
    - (* br *)
      destruct (opt_map (env_get ed1) args) as [vs|] eqn:E; [|contradiction Hns; reflexivity].
      rewrite (transfer_br cenv i_eval _ kf (block_order f) pt Hbuild Hwf Hnd Hall cur _ d (map (wvmf V) args) ei1
                 (kf_nth cur b Hn)) by (cbn [k_term]; rewrite Ht; reflexivity).
      unfold evals. rewrite (opt_map_rel V ed1 ei1 args vs HR1 E).
      apply IH; [apply enter_rel; exact HR1 | exact Hns].
    - (* cond_br *)
      destruct (env_get ed1 c) as [cv|] eqn:Ec; [|contradiction Hns; reflexivity].
      rewrite (HR1 c cv Ec). cbv zeta in *.
      destruct (opt_map (env_get ed1) (if Z.odd cv then ta else ea)) as [vs|] eqn:E; [|contradiction Hns; reflexivity].
      rewrite (transfer_condbr cenv i_eval _ kf (block_order f) pt Hbuild Hwf Hnc Hnd Hall cur _ (wvmf V c) tb
                 (map (wvmf V) ta) eb (map (wvmf V) ea) ei1 cv (kf_nth cur b Hn))
        by (first [cbn [k_term]; rewrite Ht; reflexivity | exact (HR1 c cv Ec)]).
      unfold evals.
      replace (if Z.odd cv then map (wvmf V) ta else map (wvmf V) ea)
        with (map (wvmf V) (if Z.odd cv then ta else ea)) by (destruct (Z.odd cv); reflexivity).
      rewrite (opt_map_rel V ed1 ei1 _ vs HR1 E).
      apply IH; [apply enter_rel; exact HR1 | exact Hns].
    - reflexivity.
  Qed.
End Whole.

(* ---------- the hypotheses are decidable: whole_okb ---------- *)
Lemma iopd_eqb_eq x y : iopd_eqb x y = true -> x = y.
Proof.
  destruct x, y; cbn; try discriminate.
  - intros H; apply Z.eqb_eq in H; subst; reflexivity.
  - intros H; apply andb_prop in H as [H1 H2]. apply Z.eqb_eq in H1, H2. subst; reflexivity.
Qed.
Lemma res_opd_is_ok r o : res_opd_is r o = true -> r = Ok o.
Proof. destruct r; cbn; [|discriminate]. intros H; apply iopd_eqb_eq in H; subst; reflexivity. Qed.
Lemma opds_eqb_eq a : forall b, opds_eqb a b = true -> a = b.
Proof.
  induction a as [|x r IH]; intros [|y s]; cbn; try discriminate; [reflexivity|].
  intros H; apply andb_prop in H as [H1 H2]. apply iopd_eqb_eq in H1. rewrite (IH s H2), H1. reflexivity.
Qed.
Lemma vm_okb_ok V f : vm_okb V f = true -> vm_ok V f.
Proof.
  unfold vm_okb, vm_ok. intros H; apply andb_prop in H as [H1 H2]. split.
  - apply Forall_forall. intros p Hp. rewrite forallb_forall in H1. specialize (H1 p Hp).
    destruct (snd p); [apply Z.eqb_eq; exact H1 | exact I].
  - intros b Hb. rewrite forallb_forall in H2. specialize (H2 b Hb). apply andb_prop in H2 as [A B]. split.
    + intros a Ha. rewrite forallb_forall in A. apply res_opd_is_ok. apply A; exact Ha.
    + intros i Hi. rewrite forallb_forall in B. specialize (B i Hi).
      destruct i; cbn [def_okb def_ok] in *; try exact I; apply res_opd_is_ok; exact B.
Qed.
Lemma tr_okb_ok V f : tr_okb V f = true -> tr_ok V f.
Proof.
  unfold tr_okb, tr_ok. intros H b Hb. rewrite forallb_forall in H. specialize (H b Hb).
  destruct (tr_body V (d_body b)) as [l|]; [exists l; reflexivity | discriminate].
Qed.
Lemma edge_okb_ok kf d args : edge_okb kf d args = true -> edge_ok kf d args.
Proof.
  unfold edge_okb, edge_ok. intros H. apply andb_prop in H as [H H3]. apply andb_prop in H as [H1 H2].
  apply Z.ltb_lt in H1. apply Nat.ltb_lt in H2. apply Nat.eqb_eq in H3. auto.
Qed.
Lemma terms_okb_ok fixed kf : forallb (fun b => term_okb fixed kf (k_term b)) kf = true ->
  wf kf /\ (fixed = false -> no_conflict kf).
Proof.
  intros H. rewrite forallb_forall in H. split.
  - intros b Hb. specialize (H b Hb). unfold term_ok. destruct (k_term b); cbn [term_okb] in H; try exact I.
    + apply edge_okb_ok; exact H.
    + apply andb_prop in H as [H _]. apply andb_prop in H as [H1 H2]. split; apply edge_okb_ok; assumption.
  - intros Hf b c tb ta eb ea Hb Ht Heq. specialize (H b Hb). rewrite Ht in H. cbn [term_okb] in H.
    apply andb_prop in H as [_ H]. subst fixed eb. rewrite Z.eqb_refl in H. cbn in H. apply opds_eqb_eq; exact H.
Qed.
Lemma nodupb_ok l : nodupb l = true -> NoDup l.
Proof.
  induction l as [|x r IH]; cbn; [constructor|]. intros H; apply andb_prop in H as [H1 H2].
  constructor; [|apply IH; exact H2]. intros Hin. apply negb_true_iff in H1.
  assert (existsb (Nat.eqb x) r = true) by (apply existsb_exists; exists x; split; [exact Hin | apply Nat.eqb_refl]).
  congruence.
Qed.
Lemma order_okb_ok n order : order_okb n order = true -> NoDup order /\ (forall i, (i < n)%nat -> In i order).
Proof.
  unfold order_okb. intros H; apply andb_prop in H as [H1 H2]. split; [apply nodupb_ok; exact H1|].
  intros i Hi. rewrite forallb_forall in H2. specialize (H2 i ltac:(apply in_seq; lia)).
  apply existsb_exists in H2 as [j [Hj E]]. apply Nat.eqb_eq in E. subst j. exact Hj.
Qed.

(* ---------- the whole-function theorem ---------- *)
Theorem whole_function_sim : forall f T, tr_prog f = Ok T -> whole_okb f = true ->
  forall fuel inputs,
    let e0 := combine (map fst (d_args (nth 0 f ddflt))) inputs in
    run_src f fuel 0 e0 <> WStuck -> run_tgt T fuel 0 e0 = run_src f fuel 0 e0.
Proof.
  intros f T Ht Hok fuel inputs e0 Hns.
  unfold tr_prog in Ht. cbv zeta in Ht.
  destruct (k_build condbr_same_block_special_case (tr_kfunc (final_vm f) f) (block_order f)) as [pt|] eqn:Hb;
    [|discriminate]. cbn [bind] in Ht. inversion Ht; subst T; clear Ht.
  unfold whole_okb in Hok. cbv zeta in Hok.
  apply andb_prop in Hok as [Hok Ho]. apply andb_prop in Hok as [Hok Hw]. apply andb_prop in Hok as [Hv Htr].
  apply vm_okb_ok in Hv. apply tr_okb_ok in Htr. destruct (terms_okb_ok _ _ Hw) as [Hwf Hnc].
  destruct (order_okb_ok _ _ Ho) as [Hnd Hall].
  apply (whole_sim f (final_vm f) pt Hv Htr Hb Hwf Hnc Hnd); [| |exact Hns].
  - intros i Hi. apply Hall. unfold tr_kfunc in Hi. rewrite map_length in Hi. exact Hi.
  - (* the entry environment is related to itself *)
    destruct Hv as [HV Hbk]. subst e0.
    rewrite <- (app_nil_r (combine _ inputs)). apply Rel_app; [exact HV | | intros v x H; discriminate H].
    intros k Hk.
    destruct f as [|b0 r]; [cbn in Hk; destruct Hk|]. cbn [nth] in Hk.
    destruct (Hbk b0 (or_introl eq_refl)) as [Ha _].
    assert (Hk' : In k (map fst (d_args b0))).
    { clear - Hk. revert Hk. generalize (map fst (d_args b0)). intros l. revert inputs.
      induction l as [|x l IH]; intros vs; [intros []|]. destruct vs as [|v vs]; [intros []|]. cbn.
      intros [<- | H]; [left; reflexivity | right; eapply IH; exact H]. }
    apply in_map_iff in Hk' as [[a ty] [<- Hin]]. apply (Ha (a, ty) Hin).
Qed.

(* non-vacuity: a loop with a double edge whose operands differ (the repaired select case), a poison path *)
Definition ex_func : dfunc :=
  [ mkDB [(1, 8); (2, 8); (3, 1)] [DConst 9 8 1] (DCondBr 3 1 [1; 9] 1 [2; 9]);
    mkDB [(4, 8); (5, 8)]
         [DBin 6 (mkBin "AddOp" (Some 1) false false []) 8 4 5; DIcmp 7 6 8 6 2;
          DCast 10 (mkCast "ZExtOp" None false) 1 7 8; DSelect 11 8 7 10 6]
         (DCondBr 7 1 [6; 5] 2 [11]);
    mkDB [(8, 8)] [] (DRet 8 8) ].
Definition ex_env (l : list Z) : cenv := combine (map fst (d_args (nth 0 ex_func ddflt))) l.
Example ex_func_ok : whole_okb ex_func = true.
Proof. vm_compute. reflexivity. Qed.
Example ex_func_runs : exists T, tr_prog ex_func = Ok T /\
  run_src ex_func 10 0 (ex_env [100; 100; 1]) = WRet 101 /\ run_tgt T 10 0 (ex_env [100; 100; 1]) = WRet 101 /\
  run_src ex_func 10 0 (ex_env [5; 200; 0]) = WRet 201 /\ run_tgt T 10 0 (ex_env [5; 200; 0]) = WRet 201 /\
  run_src ex_func 10 0 (ex_env [127; 3; 1]) = WPoison /\ run_tgt T 10 0 (ex_env [127; 3; 1]) = WPoison /\
  run_src ex_func 3 0 (ex_env [1; 250; 1]) = WFuel /\ run_tgt T 3 0 (ex_env [1; 250; 1]) = WFuel.
Proof. eexists. split; [vm_compute; reflexivity|]. repeat split; vm_compute; reflexivity. Qed.

(* ---------- conv_func's literal output vs the block-wise translation ---------- *)
Lemma lit_transfer bs T d cur e : lit_matches bs T -> 0 < d -> (Z.to_nat d < List.length (t_k T))%nat ->
  lit_phi_vals (nth (Z.to_nat d) bs idflt) cur e = phi_vals cenv i_eval (t_k T) (t_pt T) d cur e /\
  forall vs, lit_enter bs d vs e = enter cenv c_assign (t_k T) d vs e.
Proof.
  intros [Hlen Hm] Hd Hr.
  assert (Hb : nth_error bs (Z.to_nat d) = Some (nth (Z.to_nat d) bs idflt)).
  { apply nth_error_nth'. rewrite Hlen. exact Hr. }
  destruct (Hm _ _ Hb) as (_ & _ & Hp). destruct Hp as [Hids Hincs]; [lia|].
  set (b := nth (Z.to_nat d) bs idflt) in *.
  assert (Hn : k_nargs (t_k T) d = List.length (i_phis b)).
  { unfold k_nargs. rewrite (nth_error_nth' (t_k T) kdflt Hr), <- Hids, map_length. reflexivity. }
  split.
  - unfold lit_phi_vals, phi_vals. rewrite Hn.
    rewrite <- (opt_map_map (fun incs => phi_eval cenv i_eval incs cur e) snd (i_phis b)), Hincs, opt_map_map.
    rewrite Z2Nat.id by lia. reflexivity.
  - intros vs. unfold lit_enter, enter, c_assign. fold b. rewrite Hids. reflexivity.
Qed.

Theorem lit_sim bs T : lit_matches bs T -> wf (t_k T) ->
  forall fuel cur e, run_lit bs fuel cur e = run_tgt T fuel cur e.
Proof.
  intros HM Hwf. pose proof HM as [Hlen Hm].
  induction fuel as [|n IH]; intros cur e; [reflexivity|]. cbn [run_lit run_tgt].
  destruct (nth_error bs cur) as [b|] eqn:Hb.
  2: { apply nth_error_None in Hb. rewrite Hlen in Hb. apply nth_error_None in Hb. rewrite Hb. reflexivity. }
  assert (Hc : (cur < List.length (t_k T))%nat) by (rewrite <- Hlen; apply nth_error_Some; rewrite Hb; discriminate).
  rewrite (nth_error_nth' (t_k T) kdflt Hc).
  destruct (Hm _ _ Hb) as (Hbody & Hterm & _). rewrite Hbody.
  destruct (exec_body_i e (nth cur (t_bodies T) [])) as [e1| |]; try reflexivity.
  pose proof (Hwf _ (nth_In (t_k T) kdflt Hc)) as Hok. unfold term_ok in Hok.
  destruct (k_term (nth cur (t_k T) kdflt)) as [v|d args|c tb ta eb ea|];
    destruct (i_term b) as [ty v'| |d'|c' tb' eb'|]; cbn [term_matchesP] in Hterm; try contradiction; try reflexivity.
  - subst v'. reflexivity.
  - subst d'. destruct Hok as (H0 & Hr & _). destruct (lit_transfer bs T d (Z.of_nat cur) e1 HM H0 Hr) as [E1 E2].
    rewrite E1. destruct (phi_vals cenv i_eval (t_k T) (t_pt T) d (Z.of_nat cur) e1) as [vs|]; [|reflexivity].
    rewrite E2. apply IH.
  - destruct Hterm as (<- & <- & <-). destruct Hok as ((H0 & Hr & _) & (H0' & Hr' & _)).
    destruct (i_eval e1 c) as [cv|]; [|reflexivity]. cbv zeta.
    assert (Hd : 0 < (if Z.odd cv then tb else eb) /\ (Z.to_nat (if Z.odd cv then tb else eb) < List.length (t_k T))%nat)
      by (destruct (Z.odd cv); split; assumption).
    destruct Hd as [Hd0 Hdr].
    destruct (lit_transfer bs T _ (Z.of_nat cur) e1 HM Hd0 Hdr) as [E1 E2].
    rewrite E1. destruct (phi_vals cenv i_eval (t_k T) (t_pt T) _ (Z.of_nat cur) e1) as [vs|]; [|reflexivity].
    rewrite E2. apply IH.
Qed.

(* the composition: the IR function conv_func produces computes what the dialect function computes *)
Theorem conv_func_sim : forall f bs T, conv_func f = Ok bs -> tr_prog f = Ok T -> lit_matches bs T ->
  whole_okb f = true ->
  forall fuel inputs,
    let e0 := combine (map fst (d_args (nth 0 f ddflt))) inputs in
    run_src f fuel 0 e0 <> WStuck -> run_lit bs fuel 0 e0 = run_src f fuel 0 e0.
Proof.
  intros f bs T _ Ht HM Hok fuel inputs e0 Hns.
  transitivity (run_tgt T fuel 0 e0); [|exact (whole_function_sim f T Ht Hok fuel inputs Hns)].
  apply lit_sim; [exact HM|].
  unfold tr_prog in Ht. cbv zeta in Ht.
  destruct (k_build condbr_same_block_special_case (tr_kfunc (final_vm f) f) (block_order f)) as [pt|]; [|discriminate].
  cbn [bind] in Ht. inversion Ht; subst T. cbn [t_k].
  unfold whole_okb in Hok. cbv zeta in Hok.
  apply andb_prop in Hok as [Hok _]. apply andb_prop in Hok as [_ Hw]. apply (terms_okb_ok _ _ Hw).
Qed.

(* ---------- lit_matches is decidable: the validator lit_matchesb ---------- *)
Definition iopd_eq_dec : forall x y : iopd, {x = y} + {x <> y}.
Proof. decide equality; apply Z.eq_dec. Defined.
Definition kopd_eq_dec : forall x y : kopd, {x = y} + {x <> y}.
Proof. decide equality; apply iopd_eq_dec. Defined.
Definition incoming_eq_dec : forall x y : incoming, {x = y} + {x <> y}.
Proof. decide equality; [apply Z.eq_dec | apply kopd_eq_dec]. Defined.
Definition iinstr_eq_dec : forall x y : iinstr, {x = y} + {x <> y}.
Proof.
  decide equality; try apply Z.eq_dec; try apply string_dec; try apply iopd_eq_dec;
    apply list_eq_dec; apply string_dec.
Defined.
Definition dec2b {P : Prop} (d : {P} + {~ P}) : bool := if d then true else false.
Lemma dec2b_true {P : Prop} (d : {P} + {~ P}) : dec2b d = true -> P.
Proof. destruct d; [auto | discriminate]. Qed.

Definition term_matchesb (k : kterm) (t : iterm) : bool :=
  match k, t with
  | KRet a, IRet _ b => dec2b (iopd_eq_dec a b)
  | KStop, IRetVoid | KStop, IUnreachable => true
  | KBr d _, IBr d' => d =? d'
  | KCondBr c tb _ eb _, ICondBr c' tb' eb' => dec2b (iopd_eq_dec c c') && (tb =? tb') && (eb =? eb')
  | _, _ => false
  end.
Definition lit_matchesb (bs : list iblock) (T : tprog) : bool :=
  Nat.eqb (List.length bs) (List.length (t_k T)) &&
  forallb (fun i =>
     let b := nth i bs idflt in
     dec2b (list_eq_dec iinstr_eq_dec (i_body b) (nth i (t_bodies T) [])) &&
     term_matchesb (k_term (nth i (t_k T) kdflt)) (i_term b) &&
     (Nat.eqb i 0 ||
      (dec2b (list_eq_dec Z.eq_dec (map (fun ph => fst (fst ph)) (i_phis b)) (k_args (nth i (t_k T) kdflt))) &&
       dec2b (list_eq_dec (list_eq_dec incoming_eq_dec) (map snd (i_phis b))
                (map (fun k => pt_get (t_pt T) (Z.of_nat i) (Z.of_nat k)) (seq 0 (List.length (i_phis b))))))))
    (seq 0 (List.length bs)).

Lemma term_matchesb_ok k t : term_matchesb k t = true -> term_matchesP k t.
Proof.
  destruct k, t; cbn; try discriminate; try (intros _; exact I).
  - apply dec2b_true.
  - apply Z.eqb_eq.
  - intros H. apply andb_prop in H as [H H3]. apply andb_prop in H as [H1 H2].
    apply dec2b_true in H1. apply Z.eqb_eq in H2, H3. auto.
Qed.
Lemma lit_matchesb_ok bs T : lit_matchesb bs T = true -> lit_matches bs T.
Proof.
  unfold lit_matchesb, lit_matches. intros H. apply andb_prop in H as [Hl H]. apply Nat.eqb_eq in Hl.
  split; [exact Hl|]. intros i b Hb. rewrite forallb_forall in H.
  assert (Hi : (i < List.length bs)%nat) by (apply nth_error_Some; rewrite Hb; discriminate).
  specialize (H i ltac:(apply in_seq; lia)). cbv zeta in H. rewrite (nth_error_nth _ _ idflt Hb) in H.
  apply andb_prop in H as [H H3]. apply andb_prop in H as [H1 H2].
  split; [exact (dec2b_true _ H1)|]. split; [apply term_matchesb_ok; exact H2|].
  intros Hne. destruct (Nat.eqb_spec i 0) as [|_]; [contradiction|]. cbn [orb] in H3.
  apply andb_prop in H3 as [A B]. split; [exact (dec2b_true _ A) | exact (dec2b_true _ B)].
Qed.

(* translation validation: whenever the two computable checks accept, conv_func's output computes the source *)
Theorem conv_func_validated : forall f bs T, conv_func f = Ok bs -> tr_prog f = Ok T ->
  lit_matchesb bs T = true -> whole_okb f = true ->
  forall fuel inputs,
    let e0 := combine (map fst (d_args (nth 0 f ddflt))) inputs in
    run_src f fuel 0 e0 <> WStuck -> run_lit bs fuel 0 e0 = run_src f fuel 0 e0.
Proof.
  intros f bs T Hc Ht Hm Hok. apply (conv_func_sim f bs T Hc Ht (lit_matchesb_ok bs T Hm) Hok).
Qed.
