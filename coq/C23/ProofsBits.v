(* C23/ProofsBits.v -- the LLVM-IR (bit-pattern) semantics sem_i of C23/Sem.v equals the LLVM-dialect
   (value) semantics sem_d for every width w >= 1 and all operand patterns 0 <= a, b < 2^w, for every flag
   combination, including where the result is poison / undefined (None on both sides). *)
From Coq Require Import ZArith Bool List String Lia.
From XV Require Import C15.Spec C23.Sem.
Local Open Scope Z_scope.

Lemma pow2_pos w : 0 <= w -> 0 < 2 ^ w.
Proof. intros; apply Z.pow_pos_nonneg; lia. Qed.
Lemma pow2_half w : 1 <= w -> 2 ^ w = 2 * 2 ^ (w - 1).
Proof. intros; replace w with (1 + (w - 1)) at 1 by lia; rewrite Z.pow_add_r by lia; reflexivity. Qed.
Lemma pow2_split a b : 0 <= a -> 0 <= b -> 2 ^ (a + b) = 2 ^ a * 2 ^ b.
Proof. intros; apply Z.pow_add_r; lia. Qed.

Lemma mod_plus1 M x : 0 < M -> M <= x < 2 * M -> x mod M = x - M.
Proof. intros; symmetry; apply (Z.mod_unique x M 1 (x - M)); lia. Qed.
Lemma mod_minus1 M x : 0 < M -> - M <= x < 0 -> x mod M = x + M.
Proof. intros; symmetry; apply (Z.mod_unique x M (-1) (x + M)); lia. Qed.
Lemma mod_case M x : 0 < M -> 0 <= x < 2 * M -> x mod M = if M <=? x then x - M else x.
Proof.
  intros; destruct (Z.leb_spec M x); [apply mod_plus1 | apply Z.mod_small]; lia.
Qed.
Lemma mod_case_neg M x : 0 < M -> - M <= x < M -> x mod M = if x <? 0 then x + M else x.
Proof.
  intros; destruct (Z.ltb_spec x 0); [apply mod_minus1 | apply Z.mod_small]; lia.
Qed.
(* residues: x mod N determined on an interval of length N *)
Lemma mod_inj N x y : 0 < N -> x mod N = y mod N -> - N < x - y < N -> x = y.
Proof.
  intros HN E B.
  assert (D : (x - y) mod N = 0).
  { rewrite Zminus_mod, E, Z.sub_diag. apply Z.mod_0_l; lia. }
  apply Z.mod_divide in D; [|lia]. destruct D as [k D].
  assert (k = 0) by nia. subst k; lia.
Qed.

Ltac cmp_cases :=
  repeat match goal with
  | |- context [?x <=? ?y] => destruct (Z.leb_spec x y)
  | |- context [?x <? ?y] => destruct (Z.ltb_spec x y)
  | |- context [?x =? ?y] => destruct (Z.eqb_spec x y)
  end.
Ltac bsimp := cbn [andb orb negb xorb Bool.eqb].
Ltac fin := bsimp; try reflexivity; try (exfalso; lia); try (f_equal; lia).
Ltac flags f := destruct f as [nsw nuw exact disjoint nneg]; cbn [f_nsw f_nuw f_exact f_disjoint f_nneg].

Section Width.
  Variable w : Z.
  Hypothesis Hw : 1 <= w.
  Let H := 2 ^ (w - 1).
  Lemma Hpos : 0 < H.
  Proof. apply pow2_pos; lia. Qed.
  Lemma MH : 2 ^ w = 2 * H.
  Proof. apply pow2_half; exact Hw. Qed.

  Lemma sgn_eq a : sgn w a = if a <? H then a else a - 2 * H.
  Proof. unfold sgn; rewrite MH; reflexivity. Qed.
  Lemma msb_eq a : msb w a = (H <=? a).
  Proof. reflexivity. Qed.

  Theorem add_eq f a b : 0 <= a < 2 ^ w -> 0 <= b < 2 ^ w -> sem_i Add f w a b = sem_d Add f w a b.
  Proof.
    rewrite MH; intros Ha Hb. pose proof Hpos.
    unfold sem_i, sem_d, spec_addi, wrap, fits_u, fits_s. rewrite !sgn_eq, !msb_eq, MH. fold H.
    rewrite (mod_case (2 * H) (a + b)) by lia.
    flags f. destruct (Z.ltb_spec a H), (Z.ltb_spec b H); destruct nuw, nsw; bsimp; cmp_cases; fin.
  Qed.

  Theorem sub_eq f a b : 0 <= a < 2 ^ w -> 0 <= b < 2 ^ w -> sem_i Sub f w a b = sem_d Sub f w a b.
  Proof.
    rewrite MH; intros Ha Hb. pose proof Hpos.
    unfold sem_i, sem_d, spec_subi, wrap, fits_u, fits_s. rewrite !sgn_eq, !msb_eq, MH. fold H.
    rewrite (mod_case_neg (2 * H) (a - b)) by lia.
    flags f. destruct (Z.ltb_spec a H), (Z.ltb_spec b H); destruct nuw, nsw; bsimp; cmp_cases; fin.
  Qed.

  Theorem udiv_eq f a b : 0 <= a < 2 ^ w -> 0 <= b < 2 ^ w -> sem_i UDiv f w a b = sem_d UDiv f w a b.
  Proof.
    intros Ha Hb. unfold sem_i, sem_d, spec_divui.
    destruct (Z.eqb_spec b 0); [reflexivity|].
    pose proof (Z.div_mod a b ltac:(lia)) as E. pose proof (Z.mod_pos_bound a b ltac:(lia)).
    flags f. destruct exact; cbn [andb negb]; [|reflexivity].
    destruct (Z.eqb_spec (a / b * b) a), (Z.eqb_spec (a mod b) 0); fin.
  Qed.

  Theorem urem_eq f a b : 0 <= a < 2 ^ w -> 0 <= b < 2 ^ w -> sem_i URem f w a b = sem_d URem f w a b.
  Proof.
    intros Ha Hb. unfold sem_i, sem_d, spec_remui.
    destruct (Z.eqb_spec b 0); [reflexivity|].
    f_equal. rewrite Z.mod_eq by lia. lia.
  Qed.

  Theorem logic_eq op f a b : op = And \/ op = Or \/ op = Xor -> sem_i op f w a b = sem_d op f w a b.
  Proof. intros [E | [E | E]]; subst; reflexivity. Qed.

  Theorem lshr_eq f a b : 0 <= a < 2 ^ w -> 0 <= b < 2 ^ w -> sem_i LShr f w a b = sem_d LShr f w a b.
  Proof.
    intros Ha Hb. unfold sem_i, sem_d, spec_shrui.
    destruct (Z.leb_spec w b); [reflexivity|].
    rewrite Z.shiftr_div_pow2, Z.shiftl_mul_pow2 by lia.
    pose proof (pow2_pos b ltac:(lia)) as Pb.
    pose proof (Z.div_mod a (2 ^ b) ltac:(lia)) as E. pose proof (Z.mod_pos_bound a (2 ^ b) Pb).
    flags f. destruct exact; cbn [andb negb]; [|reflexivity].
    destruct (Z.eqb_spec (a / 2 ^ b * 2 ^ b) a), (Z.eqb_spec (a mod 2 ^ b) 0); fin.
  Qed.

  (* ---- signed division: magnitudes ---- *)
  Lemma mag_eq a : 0 <= a < 2 * H -> mag w a = Z.abs (sgn w a).
  Proof.
    intros Ha. unfold mag. rewrite msb_eq, sgn_eq, MH.
    destruct (Z.leb_spec H a), (Z.ltb_spec a H); lia.
  Qed.
  Lemma sgn_sign a : 0 <= a < 2 * H -> (msb w a = true -> sgn w a < 0) /\ (msb w a = false -> 0 <= sgn w a).
  Proof.
    intros Ha. rewrite msb_eq, sgn_eq. pose proof Hpos.
    destruct (Z.leb_spec H a), (Z.ltb_spec a H); split; intros; try discriminate; lia.
  Qed.
  Lemma sgn_range a : 0 <= a < 2 * H -> - H <= sgn w a < H.
  Proof. intros Ha. rewrite sgn_eq. pose proof Hpos. destruct (Z.ltb_spec a H); lia. Qed.
  Lemma sgn_zero a : 0 <= a < 2 * H -> (sgn w a = 0 <-> a = 0).
  Proof. intros Ha. rewrite sgn_eq. pose proof Hpos. destruct (Z.ltb_spec a H); lia. Qed.
  Lemma sgn_min a : 0 <= a < 2 * H -> (sgn w a = - H <-> a = H).
  Proof. intros Ha. rewrite sgn_eq. pose proof Hpos. destruct (Z.ltb_spec a H); lia. Qed.
  Lemma sgn_m1 a : 0 <= a < 2 * H -> (sgn w a = -1 <-> a = 2 * H - 1).
  Proof. intros Ha. rewrite sgn_eq. pose proof Hpos. destruct (Z.ltb_spec a H); lia. Qed.

  Lemma sdiv_ub_eq a b : 0 <= a < 2 * H -> 0 <= b < 2 * H ->
    sdiv_ub w a b = ((b =? 0) || ((a =? H) && (b =? 2 * H - 1))).
  Proof.
    intros Ha Hb. unfold sdiv_ub. fold H.
    pose proof (sgn_zero b Hb). pose proof (sgn_min a Ha). pose proof (sgn_m1 b Hb).
    destruct (Z.eqb_spec (sgn w b) 0), (Z.eqb_spec b 0), (Z.eqb_spec (sgn w a) (- H)), (Z.eqb_spec a H),
      (Z.eqb_spec (sgn w b) (-1)), (Z.eqb_spec b (2 * H - 1)); simpl; try reflexivity; exfalso; lia.
  Qed.

  (* quot / rem of signed values through magnitudes *)
  Lemma quot_mag x y : y <> 0 ->
    Z.quot x y = (if xorb (x <? 0) (y <? 0) then - (Z.abs x / Z.abs y) else Z.abs x / Z.abs y).
  Proof.
    intros Hy.
    destruct (Z.ltb_spec x 0), (Z.ltb_spec y 0); cbn [xorb].
    - replace x with (- Z.abs x) at 1 by lia. replace y with (- Z.abs y) at 1 by lia.
      rewrite Z.quot_opp_opp by lia. apply Z.quot_div_nonneg; lia.
    - replace x with (- Z.abs x) at 1 by lia. replace y with (Z.abs y) at 1 by lia.
      rewrite Z.quot_opp_l by lia. f_equal. apply Z.quot_div_nonneg; lia.
    - replace x with (Z.abs x) at 1 by lia. replace y with (- Z.abs y) at 1 by lia.
      rewrite Z.quot_opp_r by lia. f_equal. apply Z.quot_div_nonneg; lia.
    - replace x with (Z.abs x) at 1 by lia. replace y with (Z.abs y) at 1 by lia.
      apply Z.quot_div_nonneg; lia.
  Qed.
  Lemma rem_mag x y : y <> 0 ->
    Z.rem x y = (if x <? 0 then - (Z.abs x mod Z.abs y) else Z.abs x mod Z.abs y).
  Proof.
    intros Hy.
    destruct (Z.ltb_spec x 0).
    - replace x with (- Z.abs x) at 1 by lia. rewrite Z.rem_opp_l by lia.
      rewrite <- (Z.rem_abs_r (Z.abs x) y) by lia. f_equal. apply Z.rem_mod_nonneg; lia.
    - replace x with (Z.abs x) at 1 by lia.
      rewrite <- (Z.rem_abs_r (Z.abs x) y) by lia. apply Z.rem_mod_nonneg; lia.
  Qed.

  Lemma negw_eq q : 0 <= q <= 2 * H -> negw w q = wrap w (- q).
  Proof.
    intros Hq. unfold negw, wrap. rewrite MH.
    replace (2 * H - q) with (- q + 1 * (2 * H)) by lia. pose proof Hpos.
    rewrite Z.mod_add by lia. reflexivity.
  Qed.

  Lemma msb_neg a : 0 <= a < 2 * H -> msb w a = (sgn w a <? 0).
  Proof.
    intros Ha. pose proof (sgn_sign a Ha) as [S1 S2].
    destruct (msb w a); destruct (Z.ltb_spec (sgn w a) 0); try reflexivity;
      [specialize (S1 eq_refl) | specialize (S2 eq_refl)]; lia.
  Qed.

  Theorem sdiv_eq f a b : 0 <= a < 2 ^ w -> 0 <= b < 2 ^ w -> sem_i SDiv f w a b = sem_d SDiv f w a b.
  Proof.
    rewrite MH; intros Ha Hb. pose proof Hpos.
    unfold sem_i, sem_d, spec_divsi. rewrite sdiv_ub_eq, MH by assumption. fold H.
    destruct (Z.eqb_spec b 0) as [|Nb]; [reflexivity|]. cbn [orb].
    destruct ((a =? H) && (b =? 2 * H - 1)) eqn:Eov; [reflexivity|].
    assert (Sb : sgn w b <> 0) by (rewrite sgn_zero; assumption).
    rewrite (rem_mag _ _ Sb), (quot_mag _ _ Sb), <- !msb_neg, <- !mag_eq by assumption.
    pose proof (sgn_range a Ha). pose proof (sgn_range b Hb).
    assert (Ma : 0 <= mag w a <= H) by (rewrite mag_eq by assumption; lia).
    assert (Mb : 0 < mag w b <= H) by (rewrite mag_eq by assumption; lia).
    set (q := mag w a / mag w b).
    assert (Q : 0 <= q <= mag w a).
    { subst q; split; [apply Z.div_pos; lia|]. apply Z.div_le_upper_bound; nia. }
    pose proof (Z.div_mod (mag w a) (mag w b) ltac:(lia)) as E. fold q in E.
    pose proof (Z.mod_pos_bound (mag w a) (mag w b) ltac:(lia)) as Bm.
    assert (Ex : (q * mag w b =? mag w a) =
                 ((if msb w a then - (mag w a mod mag w b) else mag w a mod mag w b) =? 0)).
    { destruct (msb w a); destruct (Z.eqb_spec (q * mag w b) (mag w a));
        match goal with |- _ = (?t =? 0) => destruct (Z.eqb_spec t 0) end; try reflexivity; exfalso; lia. }
    rewrite Ex.
    match goal with |- (if ?c then _ else _) = _ => destruct c end; [reflexivity|].
    f_equal. destruct (xorb (msb w a) (msb w b)).
    - apply negw_eq; lia.
    - unfold wrap. rewrite MH. symmetry; apply Z.mod_small; lia.
  Qed.

  Theorem srem_eq f a b : 0 <= a < 2 ^ w -> 0 <= b < 2 ^ w -> sem_i SRem f w a b = sem_d SRem f w a b.
  Proof.
    rewrite MH; intros Ha Hb. pose proof Hpos.
    unfold sem_i, sem_d, spec_remsi. rewrite sdiv_ub_eq, MH by assumption. fold H.
    destruct (Z.eqb_spec b 0) as [|Nb]; [reflexivity|]. cbn [orb].
    destruct ((a =? H) && (b =? 2 * H - 1)) eqn:Eov; [reflexivity|].
    assert (Sb : sgn w b <> 0) by (rewrite sgn_zero; assumption).
    rewrite (rem_mag _ _ Sb), <- !msb_neg, <- !mag_eq by assumption.
    pose proof (sgn_range a Ha). pose proof (sgn_range b Hb).
    assert (Ma : 0 <= mag w a <= H) by (rewrite mag_eq by assumption; lia).
    assert (Mb : 0 < mag w b <= H) by (rewrite mag_eq by assumption; lia).
    pose proof (Z.mod_pos_bound (mag w a) (mag w b) ltac:(lia)) as Bm.
    f_equal. destruct (msb w a).
    - apply negw_eq; lia.
    - unfold wrap. rewrite MH. symmetry; apply Z.mod_small; lia.
  Qed.

  (* ---- shifts ---- *)
  Lemma div_floor_neg x m : 0 < m -> x / m = -1 - (-1 - x) / m.
  Proof.
    intros Hm. pose proof (Z.div_mod (-1 - x) m ltac:(lia)) as E.
    pose proof (Z.mod_pos_bound (-1 - x) m Hm) as B.
    symmetry. apply (Z.div_unique x m _ (m - 1 - (-1 - x) mod m)); [lia|]. nia.
  Qed.

  Theorem ashr_eq f a b : 0 <= a < 2 ^ w -> 0 <= b < 2 ^ w -> sem_i AShr f w a b = sem_d AShr f w a b.
  Proof.
    rewrite MH; intros Ha Hb. pose proof Hpos.
    unfold sem_i, sem_d, spec_shrsi.
    destruct (Z.leb_spec w b); [reflexivity|].
    pose proof (pow2_pos b ltac:(lia)) as Pb.
    assert (Dv : (2 ^ b | 2 * H)).
    { rewrite <- MH. exists (2 ^ (w - b)). rewrite <- pow2_split by lia. f_equal; lia. }
    assert (Ex : Z.land a (Z.ones b) = sgn w a mod 2 ^ b).
    { rewrite Z.land_ones by lia. rewrite sgn_eq. destruct (Z.ltb_spec a H); [reflexivity|].
      destruct Dv as [k Dk]. rewrite Dk. replace (a - k * 2 ^ b) with (a + (- k) * 2 ^ b) by lia.
      rewrite Z.mod_add by lia. reflexivity. }
    rewrite Ex.
    match goal with |- (if ?c then _ else _) = _ => destruct c end; [reflexivity|].
    f_equal. unfold ashr_raw, bnot, wrap. rewrite msb_eq, sgn_eq, MH, !Z.shiftr_div_pow2 by lia.
    destruct (Z.leb_spec H a), (Z.ltb_spec a H); try lia.
    - rewrite (div_floor_neg (a - 2 * H) (2 ^ b)) by lia.
      replace (-1 - (a - 2 * H)) with (2 * H - 1 - a) by lia.
      assert (0 <= (2 * H - 1 - a) / 2 ^ b <= 2 * H - 1 - a).
      { split; [apply Z.div_pos; lia|]. apply Z.div_le_upper_bound; nia. }
      rewrite mod_minus1 by lia. lia.
    - assert (0 <= a / 2 ^ b <= a).
      { split; [apply Z.div_pos; lia|]. apply Z.div_le_upper_bound; nia. }
      symmetry; apply Z.mod_small; lia.
  Qed.

  Theorem shl_eq f a b : 0 <= a < 2 ^ w -> 0 <= b < 2 ^ w -> sem_i Shl f w a b = sem_d Shl f w a b.
  Proof.
    rewrite MH; intros Ha Hb. pose proof Hpos as HP.
    unfold sem_i, sem_d, spec_shli, wrap.
    destruct (Z.leb_spec w b) as [|Lb]; [reflexivity|].
    pose proof (pow2_pos b ltac:(lia)) as Pb.
    set (K := 2 ^ (w - 1 - b)).
    assert (PK : 0 < K) by (apply pow2_pos; lia).
    assert (HK : H = K * 2 ^ b).
    { unfold H, K. rewrite <- pow2_split by lia. f_equal; lia. }
    rewrite Z.shiftl_mul_pow2, Z.land_ones, !Z.shiftr_div_pow2, Z.ones_equiv by lia.
    rewrite (pow2_split b 1) by lia. change (2 ^ 1) with 2. fold K. rewrite MH, <- Z.sub_1_r.
    (* nuw *)
    assert (NU : ((a * 2 ^ b) mod (2 * H) / 2 ^ b =? a) = fits_u w (a * 2 ^ b)).
    { unfold fits_u. rewrite MH.
      destruct (Z.leb_spec 0 (a * 2 ^ b)); [|nia]. cbn [andb].
      destruct (Z.ltb_spec (a * 2 ^ b) (2 * H)).
      - rewrite Z.mod_small by lia. rewrite Z.div_mul by lia. apply Z.eqb_refl.
      - apply Z.eqb_neq. intros E.
        pose proof (Z.div_mod (a * 2 ^ b) (2 * H) ltac:(lia)) as D.
        pose proof (Z.mod_pos_bound (a * 2 ^ b) (2 * H) ltac:(lia)) as Bd.
        set (k := a * 2 ^ b / (2 * H)) in *. set (r := (a * 2 ^ b) mod (2 * H)) in *.
        assert (1 <= k) by nia.
        assert (r = (a - k * (2 * K)) * 2 ^ b) by nia.
        rewrite H3 in E. rewrite Z.div_mul in E by lia. nia. }
    (* nsw *)
    assert (NS : ((a / K =? 0) || (a / K =? 2 ^ b * 2 - 1)) = fits_s w (sgn w a * 2 ^ b)).
    { unfold fits_s. fold H. rewrite sgn_eq.
      assert (TK : 2 * H = (2 ^ b * 2) * K) by lia.
      destruct (Z.ltb_spec a H).
      - (* non-negative value: fits iff a < K *)
        assert (a / K < 2 ^ b * 2 - 1).
        { apply Z.div_lt_upper_bound; nia. }
        destruct (Z.eqb_spec (a / K) (2 ^ b * 2 - 1)); [lia|]. rewrite orb_false_r.
        destruct (Z.leb_spec (- H) (a * 2 ^ b)); [|nia]. cbn [andb].
        destruct (Z.ltb_spec (a * 2 ^ b) H).
        + assert (a < K) by nia. rewrite Z.div_small by lia. reflexivity.
        + assert (K <= a) by nia. apply Z.eqb_neq. intros E.
          pose proof (Z.div_mod a K ltac:(lia)). pose proof (Z.mod_pos_bound a K PK). nia.
      - (* negative value a - 2H: fits iff a >= 2H - K *)
        assert (0 < a / K).
        { apply Z.div_str_pos; nia. }
        destruct (Z.eqb_spec (a / K) 0); [lia|]. cbn [orb].
        destruct (Z.ltb_spec ((a - 2 * H) * 2 ^ b) H); [|nia]. rewrite andb_true_r.
        destruct (Z.leb_spec (- H) ((a - 2 * H) * 2 ^ b)).
        + assert (2 * H - K <= a) by nia. apply Z.eqb_eq. symmetry.
          apply (Z.div_unique a K _ (a - (2 ^ b * 2 - 1) * K)); nia.
        + assert (a < 2 * H - K) by nia. apply Z.eqb_neq. intros E.
          pose proof (Z.div_mod a K ltac:(lia)). pose proof (Z.mod_pos_bound a K PK). nia. }
    rewrite NU, NS. reflexivity.
  Qed.

  (* ---- multiplication ---- *)
  Lemma sext2_eq a : 0 <= a < 2 * H -> sext_raw w (2 * w) a = sgn w a mod 2 ^ (2 * w).
  Proof.
    intros Ha. pose proof Hpos.
    assert (M2 : 2 ^ (2 * w) = (2 * H) * (2 * H)).
    { replace (2 * w) with (w + w) by lia. rewrite pow2_split, MH by lia. reflexivity. }
    unfold sext_raw. rewrite msb_eq, sgn_eq, M2, MH.
    destruct (Z.leb_spec H a), (Z.ltb_spec a H); try lia.
    - rewrite mod_minus1 by nia. lia.
    - symmetry; apply Z.mod_small; nia.
  Qed.

  Theorem mul_eq f a b : 0 <= a < 2 ^ w -> 0 <= b < 2 ^ w -> sem_i Mul f w a b = sem_d Mul f w a b.
  Proof.
    rewrite MH; intros Ha Hb. pose proof Hpos as HP.
    unfold sem_i, sem_d, spec_muli, wrap.
    assert (M2 : 2 ^ (2 * w) = (2 * H) * (2 * H)).
    { replace (2 * w) with (w + w) by lia. rewrite pow2_split, MH by lia. reflexivity. }
    assert (P0 : 0 <= a * b) by nia.
    assert (R : 0 <= (a * b) mod (2 * H) < 2 * H) by (apply Z.mod_pos_bound; lia).
    rewrite MH in *.
    (* nuw *)
    assert (NU : (a * b / (2 * H) =? 0) = fits_u w (a * b)).
    { unfold fits_u. rewrite MH. destruct (Z.leb_spec 0 (a * b)); [|lia]. cbn [andb].
      destruct (Z.ltb_spec (a * b) (2 * H)).
      - rewrite Z.div_small by lia. reflexivity.
      - apply Z.eqb_neq. intros E. apply Z.div_small_iff in E; lia. }
    (* nsw *)
    assert (NS : ((sext_raw w (2 * w) a * sext_raw w (2 * w) b) mod 2 ^ (2 * w)
                  =? sext_raw w (2 * w) ((a * b) mod (2 * H))) = fits_s w (sgn w a * sgn w b)).
    { rewrite !sext2_eq by assumption. rewrite <- Z.mul_mod by (rewrite M2; nia).
      pose proof (sgn_range a Ha) as Ra. pose proof (sgn_range b Hb) as Rb.
      set (p := sgn w a * sgn w b).
      assert (Pb : - (H * H) <= p <= H * H) by (subst p; nia).
      (* the truncated product as a signed value *)
      assert (Cg : (a * b) mod (2 * H) = p mod (2 * H)).
      { subst p. rewrite !sgn_eq.
        destruct (Z.ltb_spec a H), (Z.ltb_spec b H); try reflexivity.
        - replace (a * (b - 2 * H)) with (a * b + (- a) * (2 * H)) by lia. rewrite Z.mod_add by lia. reflexivity.
        - replace ((a - 2 * H) * b) with (a * b + (- b) * (2 * H)) by lia. rewrite Z.mod_add by lia. reflexivity.
        - replace ((a - 2 * H) * (b - 2 * H)) with (a * b + (2 * H - a - b) * (2 * H)) by lia.
          rewrite Z.mod_add by lia. reflexivity. }
      rewrite Cg.
      set (r := p mod (2 * H)). assert (Rr : 0 <= r < 2 * H) by (apply Z.mod_pos_bound; lia).
      pose proof (sgn_range r Rr) as Rs.
      assert (Cs : sgn w r mod (2 * H) = r).
      { rewrite sgn_eq. destruct (Z.ltb_spec r H); [apply Z.mod_small; lia|].
        rewrite mod_minus1 by lia. lia. }
      unfold fits_s. fold H.
      destruct (Z.leb_spec (- H) p), (Z.ltb_spec p H); cbn [andb].
      - (* fits: sgn r = p *)
        assert (sgn w r = p).
        { apply (mod_inj (2 * H)); [lia| |lia]. rewrite Cs. reflexivity. }
        rewrite H2. apply Z.eqb_refl.
      - apply Z.eqb_neq. intros E. apply (mod_inj (2 ^ (2 * w))) in E; [lia|rewrite M2; nia|rewrite M2; nia].
      - apply Z.eqb_neq. intros E. apply (mod_inj (2 ^ (2 * w))) in E; [lia|rewrite M2; nia|rewrite M2; nia].
      - lia. }
    rewrite NU, NS. reflexivity.
  Qed.

  Theorem sem_eq op f a b : 0 <= a < 2 ^ w -> 0 <= b < 2 ^ w -> sem_i op f w a b = sem_d op f w a b.
  Proof.
    intros Ha Hb. destruct op.
    - apply add_eq; assumption. - apply sub_eq; assumption. - apply mul_eq; assumption.
    - apply udiv_eq; assumption. - apply sdiv_eq; assumption. - apply urem_eq; assumption.
    - apply srem_eq; assumption. - reflexivity. - reflexivity. - reflexivity.
    - apply shl_eq; assumption. - apply lshr_eq; assumption. - apply ashr_eq; assumption.
  Qed.

  (* ---- icmp ---- *)
  Lemma bias_eq a : 0 <= a < 2 * H -> bias w a = sgn w a + H.
  Proof.
    intros Ha. unfold bias. fold H. rewrite MH, sgn_eq. pose proof Hpos.
    rewrite (mod_case (2 * H) (a + H)) by lia.
    destruct (Z.leb_spec (2 * H) (a + H)), (Z.ltb_spec a H); lia.
  Qed.

  (* the mnemonic of each MLIR predicate number *)
  Definition icmp_mnemonic (pred : Z) : option string :=
    match pred with
    | 0 => Some "eq" | 1 => Some "ne" | 2 => Some "slt" | 3 => Some "sle" | 4 => Some "sgt" | 5 => Some "sge"
    | 6 => Some "ult" | 7 => Some "ule" | 8 => Some "ugt" | 9 => Some "uge" | _ => None
    end%string.

  Theorem icmp_eq pred mn a b : 0 <= a < 2 ^ w -> 0 <= b < 2 ^ w -> icmp_mnemonic pred = Some mn ->
    sem_i_icmp mn w a b = sem_d_icmp pred w a b.
  Proof.
    rewrite MH; intros Ha Hb E. unfold sem_d_icmp, spec_cmpi.
    pose proof (bias_eq a Ha) as Ba. pose proof (bias_eq b Hb) as Bb.
    unfold icmp_mnemonic in E.
    repeat (match type of E with
            | match ?p with _ => _ end = _ => destruct p; try discriminate
            end);
      injection E as <-; unfold sem_i_icmp; cbn [String.eqb Ascii.eqb Bool.eqb]; rewrite ?Ba, ?Bb;
      f_equal; cmp_cases; try reflexivity; lia.
  Qed.
End Width.

(* ---- casts ---- *)
Theorem zext_eq f w w2 a : 1 <= w -> 0 <= a < 2 ^ w -> sem_i_cast ZExt f w w2 a = sem_d_cast ZExt f w w2 a.
Proof.
  intros Hw Ha. unfold sem_i_cast, sem_d_cast, spec_zext.
  rewrite (msb_neg w Hw a) by (rewrite <- (MH w Hw); exact Ha). reflexivity.
Qed.

Theorem sext_eq f w w2 a : 1 <= w -> w < w2 -> 0 <= a < 2 ^ w -> sem_i_cast SExt f w w2 a = sem_d_cast SExt f w w2 a.
Proof.
  intros Hw Hw2 Ha. unfold sem_i_cast, sem_d_cast, spec_sext, wrap, sext_raw. f_equal.
  pose proof (pow2_pos (w - 1) ltac:(lia)) as HP. pose proof (MH w Hw) as M. cbv zeta in M.
  assert (L : 2 ^ w < 2 ^ w2) by (apply Z.pow_lt_mono_r; lia).
  rewrite (sgn_eq w Hw), (msb_eq w), M in *.
  destruct (Z.leb_spec (2 ^ (w - 1)) a), (Z.ltb_spec a (2 ^ (w - 1))); try lia.
  - rewrite mod_minus1 by lia. lia.
  - symmetry; apply Z.mod_small; lia.
Qed.

Theorem trunc_eq f w w2 a : 1 <= w2 -> w2 < w -> 0 <= a < 2 ^ w ->
  sem_i_cast Trunc f w w2 a = sem_d_cast Trunc f w w2 a.
Proof.
  intros Hw2 Hw Ha. unfold sem_i_cast, sem_d_cast, spec_trunc, wrap.
  assert (Hw1 : 1 <= w) by lia.
  pose proof (pow2_pos (w - 1) ltac:(lia)) as HP. pose proof (MH w Hw1) as M. cbv zeta in M.
  pose proof (pow2_pos (w2 - 1) ltac:(lia)) as HP2. pose proof (MH w2 Hw2) as M2. cbv zeta in M2.
  rewrite Z.land_ones, Z.shiftr_div_pow2 by lia.
  set (H := 2 ^ (w - 1)) in *. set (H2 := 2 ^ (w2 - 1)) in *.
  assert (Dv : exists k, 1 <= k /\ H = k * (2 * H2)).
  { exists (2 ^ (w - 1 - w2)). split; [pose proof (pow2_pos (w - 1 - w2) ltac:(lia)); lia|].
    unfold H. rewrite <- M2, <- pow2_split by lia. f_equal; lia. }
  destruct Dv as [k [Hk Dk]].
  assert (NU : (a / 2 ^ w2 =? 0) = fits_u w2 a).
  { unfold fits_u. destruct (Z.leb_spec 0 a); [|lia]. cbn [andb].
    destruct (Z.ltb_spec a (2 ^ w2)).
    - rewrite Z.div_small by lia. reflexivity.
    - apply Z.eqb_neq. intros E. apply Z.div_small_iff in E; lia. }
  assert (NS : (sext_raw w2 w (a mod 2 ^ w2) =? a) = fits_s w2 (sgn w a)).
  { unfold fits_s, sext_raw. rewrite (sgn_eq w Hw1), (msb_eq w2). fold H H2. rewrite M, M2.
    pose proof (Z.mod_pos_bound a (2 * H2) ltac:(lia)) as Bm.
    pose proof (Z.div_mod a (2 * H2) ltac:(lia)) as Dm.
    destruct (Z.ltb_spec a H).
    - destruct (Z.leb_spec (- H2) a); [|lia]. cbn [andb].
      destruct (Z.ltb_spec a H2).
      + rewrite Z.mod_small by lia. destruct (Z.leb_spec H2 a); [lia|]. apply Z.eqb_refl.
      + apply Z.eqb_neq. destruct (Z.leb_spec H2 (a mod (2 * H2))); nia.
    - destruct (Z.ltb_spec (a - 2 * H) H2); [|nia]. rewrite andb_true_r.
      destruct (Z.leb_spec (- H2) (a - 2 * H)).
      + assert (E : a mod (2 * H2) = a - 2 * H + 2 * H2).
        { symmetry. apply (Z.mod_unique a (2 * H2) (2 * k - 1)); nia. }
        rewrite E. destruct (Z.leb_spec H2 (a - 2 * H + 2 * H2)); [|lia]. apply Z.eqb_eq. lia.
      + apply Z.eqb_neq. destruct (Z.leb_spec H2 (a mod (2 * H2))); nia. }
  rewrite NU, NS. reflexivity.
Qed.
