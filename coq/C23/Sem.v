(* C23/Sem.v -- the two semantics the table theorems of Props/C23.v relate.  Definitions only.

   A value of type iw (w >= 1) is its bit pattern 0 <= a < 2^w.  `None` = poison or undefined behaviour.

   sem_d  : the LLVM-DIALECT operation (MLIR LLVM dialect = LLVM LangRef), keyed by the MLIR op name
            ("llvm.add"), written mathematically on the signed / unsigned VALUE of the pattern
            (C15/Spec.v: wrap, sgn, spec_addi, spec_divsi ... are reused, so that the arith dialect and the llvm
            dialect share one statement of two's-complement arithmetic);
   sem_i  : the LLVM-IR instruction, keyed by the opcode / predicate mnemonic of the textual IR ("add", "slt"),
            written the way hardware / LLVM's APInt computes on bit patterns: carry and borrow, sign bits,
            magnitudes, a 2w-bit product, shifts and masks, biased comparison.
   Nothing in one is defined through the other; C23/ProofsBits.v proves them equal for every width. *)
From Coq Require Import ZArith Bool List String Ascii.
From XV Require Import C15.Spec.
Import ListNotations.
Local Open Scope string_scope.
Local Open Scope Z_scope.

Record iflags := mkF { f_nsw : bool; f_nuw : bool; f_exact : bool; f_disjoint : bool; f_nneg : bool }.
Definition no_flags := mkF false false false false false.

Inductive ibin := Add | Sub | Mul | UDiv | SDiv | URem | SRem | And | Or | Xor | Shl | LShr | AShr.
Inductive icast := Trunc | ZExt | SExt.
Inductive fbin := FAdd | FSub | FMul | FDiv | FRem.

Definition fits_s (w x : Z) : bool := (- 2 ^ (w - 1) <=? x) && (x <? 2 ^ (w - 1)).
Definition fits_u (w x : Z) : bool := (0 <=? x) && (x <? 2 ^ w).

(* ================= LLVM dialect (value level) ================= *)
Definition sdiv_ub (w a b : Z) : bool :=
  (sgn w b =? 0) || ((sgn w a =? - 2 ^ (w - 1)) && (sgn w b =? -1)).

Definition sem_d (op : ibin) (f : iflags) (w a b : Z) : option Z :=
  match op with
  | Add => if f_nuw f && negb (fits_u w (a + b)) then None
           else if f_nsw f && negb (fits_s w (sgn w a + sgn w b)) then None
           else Some (spec_addi w a b)
  | Sub => if f_nuw f && negb (fits_u w (a - b)) then None
           else if f_nsw f && negb (fits_s w (sgn w a - sgn w b)) then None
           else Some (spec_subi w a b)
  | Mul => if f_nuw f && negb (fits_u w (a * b)) then None
           else if f_nsw f && negb (fits_s w (sgn w a * sgn w b)) then None
           else Some (spec_muli w a b)
  | UDiv => if b =? 0 then None
            else if f_exact f && negb (a mod b =? 0) then None
            else Some (spec_divui w a b)
  | SDiv => if sdiv_ub w a b then None
            else if f_exact f && negb (Z.rem (sgn w a) (sgn w b) =? 0) then None
            else Some (spec_divsi w a b)
  | URem => if b =? 0 then None else Some (spec_remui w a b)
  | SRem => if sdiv_ub w a b then None else Some (spec_remsi w a b)
  | And => Some (spec_andi w a b)
  | Or => if f_disjoint f && negb (Z.land a b =? 0) then None else Some (spec_ori w a b)
  | Xor => Some (spec_xori w a b)
  | Shl => if w <=? b then None
           else if f_nuw f && negb (fits_u w (a * 2 ^ b)) then None
           else if f_nsw f && negb (fits_s w (sgn w a * 2 ^ b)) then None
           else Some (spec_shli w a b)
  | LShr => if w <=? b then None
            else if f_exact f && negb (a mod 2 ^ b =? 0) then None
            else Some (spec_shrui w a b)
  | AShr => if w <=? b then None
            else if f_exact f && negb (sgn w a mod 2 ^ b =? 0) then None
            else Some (spec_shrsi w a b)
  end.

(* icmp by the MLIR predicate number (0 eq .. 9 uge): C15/Spec.v spec_cmpi *)
Definition sem_d_icmp (pred w a b : Z) : option bool := spec_cmpi pred w a b.

(* casts iw -> iw2 *)
Definition sem_d_cast (c : icast) (f : iflags) (w w2 a : Z) : option Z :=
  match c with
  | Trunc => if f_nuw f && negb (fits_u w2 a) then None
             else if f_nsw f && negb (fits_s w2 (sgn w a)) then None
             else Some (spec_trunc w w2 a)
  | ZExt => if f_nneg f && (sgn w a <? 0) then None else Some (spec_zext w w2 a)
  | SExt => Some (spec_sext w w2 a)
  end.

(* ================= LLVM IR (bit-pattern level) ================= *)
Definition msb (w a : Z) : bool := 2 ^ (w - 1) <=? a.                 (* the sign bit *)
Definition mag (w a : Z) : Z := if msb w a then 2 ^ w - a else a.     (* magnitude of the signed value *)
Definition negw (w q : Z) : Z := (2 ^ w - q) mod 2 ^ w.               (* two's-complement negation *)
Definition bnot (w a : Z) : Z := 2 ^ w - 1 - a.                       (* bitwise complement *)
Definition sext_raw (w w2 a : Z) : Z := if msb w a then a + (2 ^ w2 - 2 ^ w) else a.   (* fill with the sign bit *)
Definition ashr_raw (w a b : Z) : Z :=
  if msb w a then bnot w (Z.shiftr (bnot w a) b) else Z.shiftr a b.
Definition bias (w a : Z) : Z := (a + 2 ^ (w - 1)) mod 2 ^ w.         (* flip the sign bit *)

Definition sem_i (op : ibin) (f : iflags) (w a b : Z) : option Z :=
  match op with
  | Add =>
      let s := a + b in
      let carry := 2 ^ w <=? s in
      let r := if carry then s - 2 ^ w else s in
      if f_nuw f && carry then None
      else if f_nsw f && (Bool.eqb (msb w a) (msb w b) && negb (Bool.eqb (msb w r) (msb w a))) then None
      else Some r
  | Sub =>
      let borrow := a <? b in
      let r := if borrow then a - b + 2 ^ w else a - b in
      if f_nuw f && borrow then None
      else if f_nsw f && (negb (Bool.eqb (msb w a) (msb w b)) && negb (Bool.eqb (msb w r) (msb w a))) then None
      else Some r
  | Mul =>
      let p := a * b in
      let r := p mod 2 ^ w in
      (* signed check on the 2w-bit product of the sign-extended operands *)
      let p2 := (sext_raw w (2 * w) a * sext_raw w (2 * w) b) mod 2 ^ (2 * w) in
      if f_nuw f && negb (p / 2 ^ w =? 0) then None
      else if f_nsw f && negb (p2 =? sext_raw w (2 * w) r) then None
      else Some r
  | UDiv =>
      if b =? 0 then None
      else let q := a / b in
           if f_exact f && negb (q * b =? a) then None else Some q
  | SDiv =>
      if b =? 0 then None
      else if (a =? 2 ^ (w - 1)) && (b =? 2 ^ w - 1) then None
      else let q := mag w a / mag w b in
           if f_exact f && negb (q * mag w b =? mag w a) then None
           else Some (if xorb (msb w a) (msb w b) then negw w q else q)
  | URem => if b =? 0 then None else Some (a - (a / b) * b)
  | SRem =>
      if b =? 0 then None
      else if (a =? 2 ^ (w - 1)) && (b =? 2 ^ w - 1) then None
      else let m := mag w a mod mag w b in
           Some (if msb w a then negw w m else m)
  | And => Some (Z.land a b)
  | Or => if f_disjoint f && negb (Z.land a b =? 0) then None else Some (Z.lor a b)
  | Xor => Some (Z.lxor a b)
  | Shl =>
      if w <=? b then None
      else let r := Z.land (Z.shiftl a b) (Z.ones w) in
           (* nuw: shifting back logically restores a;  nsw: the b+1 top bits of a are all equal *)
           let top := Z.shiftr a (w - 1 - b) in
           if f_nuw f && negb (Z.shiftr r b =? a) then None
           else if f_nsw f && negb ((top =? 0) || (top =? Z.ones (b + 1))) then None
           else Some r
  | LShr =>
      if w <=? b then None
      else let r := Z.shiftr a b in
           if f_exact f && negb (Z.shiftl r b =? a) then None else Some r
  | AShr =>
      if w <=? b then None
      else if f_exact f && negb (Z.land a (Z.ones b) =? 0) then None
      else Some (ashr_raw w a b)
  end.

(* icmp by the mnemonic of the textual IR *)
Definition sem_i_icmp (mn : string) (w a b : Z) : option bool :=
  if String.eqb mn "eq" then Some (a =? b)
  else if String.eqb mn "ne" then Some (negb (a =? b))
  else if String.eqb mn "ult" then Some (a <? b)
  else if String.eqb mn "ule" then Some (a <=? b)
  else if String.eqb mn "ugt" then Some (b <? a)
  else if String.eqb mn "uge" then Some (b <=? a)
  else if String.eqb mn "slt" then Some (bias w a <? bias w b)
  else if String.eqb mn "sle" then Some (bias w a <=? bias w b)
  else if String.eqb mn "sgt" then Some (bias w b <? bias w a)
  else if String.eqb mn "sge" then Some (bias w b <=? bias w a)
  else None.

Definition sem_i_cast (c : icast) (f : iflags) (w w2 a : Z) : option Z :=
  match c with
  | Trunc =>
      let r := Z.land a (Z.ones w2) in
      if f_nuw f && negb (Z.shiftr a w2 =? 0) then None
      else if f_nsw f && negb (sext_raw w2 w r =? a) then None
      else Some r
  | ZExt => if f_nneg f && msb w a then None else Some a
  | SExt => Some (sext_raw w w2 a)
  end.

(* ================= names ================= *)
(* MLIR op name -> operation *)
Definition dialect_bin (n : string) : option ibin :=
  if String.eqb n "llvm.add" then Some Add else if String.eqb n "llvm.sub" then Some Sub
  else if String.eqb n "llvm.mul" then Some Mul else if String.eqb n "llvm.udiv" then Some UDiv
  else if String.eqb n "llvm.sdiv" then Some SDiv else if String.eqb n "llvm.urem" then Some URem
  else if String.eqb n "llvm.srem" then Some SRem else if String.eqb n "llvm.and" then Some And
  else if String.eqb n "llvm.or" then Some Or else if String.eqb n "llvm.xor" then Some Xor
  else if String.eqb n "llvm.shl" then Some Shl else if String.eqb n "llvm.lshr" then Some LShr
  else if String.eqb n "llvm.ashr" then Some AShr else None.
Definition dialect_fbin (n : string) : option fbin :=
  if String.eqb n "llvm.fadd" then Some FAdd else if String.eqb n "llvm.fsub" then Some FSub
  else if String.eqb n "llvm.fmul" then Some FMul else if String.eqb n "llvm.fdiv" then Some FDiv
  else if String.eqb n "llvm.frem" then Some FRem else None.
Definition dialect_cast (n : string) : option icast :=
  if String.eqb n "llvm.trunc" then Some Trunc else if String.eqb n "llvm.zext" then Some ZExt
  else if String.eqb n "llvm.sext" then Some SExt else None.
(* LLVM IR opcode -> instruction *)
Definition llvm_bin (n : string) : option ibin :=
  if String.eqb n "add" then Some Add else if String.eqb n "sub" then Some Sub
  else if String.eqb n "mul" then Some Mul else if String.eqb n "udiv" then Some UDiv
  else if String.eqb n "sdiv" then Some SDiv else if String.eqb n "urem" then Some URem
  else if String.eqb n "srem" then Some SRem else if String.eqb n "and" then Some And
  else if String.eqb n "or" then Some Or else if String.eqb n "xor" then Some Xor
  else if String.eqb n "shl" then Some Shl else if String.eqb n "lshr" then Some LShr
  else if String.eqb n "ashr" then Some AShr else None.
Definition llvm_fbin (n : string) : option fbin :=
  if String.eqb n "fadd" then Some FAdd else if String.eqb n "fsub" then Some FSub
  else if String.eqb n "fmul" then Some FMul else if String.eqb n "fdiv" then Some FDiv
  else if String.eqb n "frem" then Some FRem else None.
Definition llvm_cast (n : string) : option icast :=
  if String.eqb n "trunc" then Some Trunc else if String.eqb n "zext" then Some ZExt
  else if String.eqb n "sext" then Some SExt else None.

(* flags: what the textual IR carries (LLVM parses them in any order) *)
Definition has (s : string) (l : list string) : bool := existsb (String.eqb s) l.
Definition flags_of_list (l : list string) : iflags :=
  mkF (has "nsw" l) (has "nuw" l) (has "exact" l) (has "disjoint" l) (has "nneg" l).
(* flags LLVM's assembly parser accepts after an opcode *)
Definition llvm_allowed (op : ibin) : list string :=
  match op with
  | Add | Sub | Mul | Shl => ["nsw"; "nuw"]
  | UDiv | SDiv | LShr | AShr => ["exact"]
  | Or => ["disjoint"]
  | _ => []
  end.
Definition llvm_cast_allowed (c : icast) : list string :=
  match c with Trunc => ["nsw"; "nuw"] | ZExt => ["nneg"] | SExt => [] end.
Definition flags_ok (allowed l : list string) : bool := forallb (fun f => has f allowed) l.
Definition fastmath_names : list string := ["nnan"; "ninf"; "nsz"; "arcp"; "contract"; "afn"; "reassoc"; "fast"].

(* fcmp: outcome of comparing two floats *)
Inductive fout := FLt | FEq | FGt | FUn.
(* MLIR FCmpPredicate number -> result *)
Definition sem_d_fcmp (pred : Z) (o : fout) : option bool :=
  let ord := match o with FUn => false | _ => true end in
  let eq := match o with FEq => true | _ => false end in
  let lt := match o with FLt => true | _ => false end in
  let gt := match o with FGt => true | _ => false end in
  match pred with
  | 0 => Some false
  | 1 => Some eq | 2 => Some gt | 3 => Some (gt || eq) | 4 => Some lt | 5 => Some (lt || eq)
  | 6 => Some (lt || gt) | 7 => Some ord
  | 8 => Some (negb ord || eq) | 9 => Some (negb ord || gt) | 10 => Some (negb ord || gt || eq)
  | 11 => Some (negb ord || lt) | 12 => Some (negb ord || lt || eq) | 13 => Some (negb eq) | 14 => Some (negb ord)
  | 15 => Some true
  | _ => None
  end.
(* LLVM IR fcmp condition code: first letter o/u = ordered / unordered-or, then the relation *)
Definition rel_holds (r : string) (o : fout) : option bool :=
  if String.eqb r "eq" then Some (match o with FEq => true | _ => false end)
  else if String.eqb r "gt" then Some (match o with FGt => true | _ => false end)
  else if String.eqb r "ge" then Some (match o with FGt | FEq => true | _ => false end)
  else if String.eqb r "lt" then Some (match o with FLt => true | _ => false end)
  else if String.eqb r "le" then Some (match o with FLt | FEq => true | _ => false end)
  else if String.eqb r "ne" then Some (match o with FLt | FGt => true | _ => false end)
  else None.
Definition sem_i_fcmp (cc : string) (o : fout) : option bool :=
  let un := match o with FUn => true | _ => false end in
  if String.eqb cc "false" then Some false
  else if String.eqb cc "true" then Some true
  else if String.eqb cc "ord" then Some (negb un)
  else if String.eqb cc "uno" then Some un
  else match cc with
       | String "o"%char r => option_map (fun h => negb un && h) (rel_holds r o)
       | String "u"%char r => option_map (fun h => un || h) (rel_holds r o)
       | _ => None
       end.
