(* C23/Whole.v -- whole-function machines for the modelled integer fragment.  Definitions only.

   SOURCE machine  run_src : an llvm-dialect function (C23/Model.v dfunc) executed with block arguments and the
     value-level semantics sem_d / sem_d_icmp / sem_d_cast of C23/Sem.v; flags read off the op's properties by
     spec_flags / spec_cast_flags (C23/ProofsTables.v).
   TARGET machine  run_tgt : the LLVM-IR function -- per block the instruction list the backend model emits
     (conv_instr, i.e. the generated tables), executed with the bit-level semantics sem_i / sem_i_icmp / sem_i_cast
     keyed by opcode / mnemonic / textual flags; control enters a block through its PHI nodes (phi_vals of
     C23/ProofsPhi.v: LLVM's rule on the table built by k_build = the add_incoming calls of the backend).
   Fragment: llvm.mlir.constant (integers), the 13 integer binary ops with flags, icmp, trunc/zext/sext with flags,
     select, return, br / cond_br with block arguments.  Anything else is `StuckS` on the source side (outside the
     fragment).  A value of type iw is a bit pattern 0 <= x < 2^w; fetching an operand at another type is stuck.
   Outcomes: WRet v | WHalt | WPoison (a flag violation / UB was executed) | WStuck | WFuel. *)
From Coq Require Import ZArith List String Bool.
From XV Require Import C15.Spec Gen.C23_tables C23.Model C23.Sem C23.ProofsTables C23.ProofsPhi.
Import ListNotations.
Local Open Scope string_scope.
Local Open Scope list_scope.
Local Open Scope Z_scope.

(* environments: association lists id -> bit pattern (cenv / env_get of ProofsPhi.v) *)
Definition i_eval (e : cenv) (o : iopd) : option Z :=
  match o with IVar v => env_get e v | IConst t c => Some (wrap t c) end.
Definition in_ty (w x : Z) : bool := (1 <=? w) && (0 <=? x) && (x <? 2 ^ w).
Definition fetch_d (e : cenv) (v w : Z) : option Z :=
  match env_get e v with Some x => if in_ty w x then Some x else None | None => None end.
Definition fetch_i (e : cenv) (o : iopd) (w : Z) : option Z :=
  match i_eval e o with Some x => if in_ty w x then Some x else None | None => None end.

Inductive step := Next (e : cenv) | Poison | StuckS.

Definition ovf_validb (o : src_binop) : bool :=
  match sb_overflow o with None => true | Some v => (0 <=? v) && (v <=? 3) end.
Definition cast_ovf_validb (o : src_cast) : bool :=
  forallb (fun s => String.eqb s "nsw" || String.eqb s "nuw") (cast_ovf o).
Definition cast_widths_ok (c : icast) (w w2 : Z) : bool :=
  (1 <=? w2) && match c with Trunc => w2 <? w | ZExt | SExt => w <? w2 end.

(* ---------- one source operation ---------- *)
Definition exec_d (e : cenv) (i : dinstr) : step :=
  match i with
  | DConst r t c => if 1 <=? t then Next ((r, wrap t c) :: e) else StuckS
  | DBin r o t a b =>
      match op_name (sb_class o) with
      | None => StuckS
      | Some n =>
        match dialect_bin n with
        | None => StuckS
        | Some d =>
          if ovf_validb o then
            match fetch_d e a t, fetch_d e b t with
            | Some x, Some y =>
                match sem_d d (spec_flags d o) t x y with Some z => Next ((r, z) :: e) | None => Poison end
            | _, _ => StuckS
            end
          else StuckS
        end
      end
  | DIcmp r p t a b =>
      if (0 <=? p) && (p <=? 9) then
        match fetch_d e a t, fetch_d e b t with
        | Some x, Some y =>
            match sem_d_icmp p t x y with Some bb => Next ((r, Z.b2z bb) :: e) | None => StuckS end
        | _, _ => StuckS
        end
      else StuckS
  | DCast r o t a t2 =>
      match op_name (sc_class o) with
      | None => StuckS
      | Some n =>
        match dialect_cast n with
        | None => StuckS
        | Some c =>
          if cast_ovf_validb o && cast_widths_ok c t t2 then
            match fetch_d e a t with
            | Some x =>
                match sem_d_cast c (spec_cast_flags c o) t t2 x with Some z => Next ((r, z) :: e) | None => Poison end
            | None => StuckS
            end
          else StuckS
        end
      end
  | DSelect r t c a b =>
      match fetch_d e c 1, fetch_d e a t, fetch_d e b t with
      | Some vc, Some x, Some y => Next ((r, if Z.odd vc then x else y) :: e)
      | _, _, _ => StuckS
      end
  | _ => StuckS
  end.

(* ---------- one LLVM-IR instruction ---------- *)
Definition exec_i (e : cenv) (i : iinstr) : step :=
  match i with
  | IBin r opc fl t a b =>
      match llvm_bin opc with
      | None => StuckS
      | Some d =>
        if flags_ok (llvm_allowed d) fl then
          match fetch_i e a t, fetch_i e b t with
          | Some x, Some y =>
              match sem_i d (flags_of_list fl) t x y with Some z => Next ((r, z) :: e) | None => Poison end
          | _, _ => StuckS
          end
        else StuckS
      end
  | IIcmp r mn t a b =>
      match fetch_i e a t, fetch_i e b t with
      | Some x, Some y =>
          match sem_i_icmp mn t x y with Some bb => Next ((r, Z.b2z bb) :: e) | None => StuckS end
      | _, _ => StuckS
      end
  | ICast r opc fl t a t2 =>
      match llvm_cast opc with
      | None => StuckS
      | Some c =>
        if flags_ok (llvm_cast_allowed c) fl && cast_widths_ok c t t2 then
          match fetch_i e a t with
          | Some x =>
              match sem_i_cast c (flags_of_list fl) t t2 x with Some z => Next ((r, z) :: e) | None => Poison end
          | None => StuckS
          end
        else StuckS
      end
  | ISelect r t c a b =>
      (* select does not inspect its value operands: only the chosen one is read (LLVM: the other may be poison) *)
      match i_eval e c with
      | Some vc =>
          match i_eval e (if Z.odd vc then a else b) with
          | Some x => Next ((r, x) :: e)
          | None => StuckS
          end
      | None => StuckS
      end
  | _ => StuckS
  end.

Fixpoint exec_body_d (e : cenv) (l : list dinstr) : step :=
  match l with
  | [] => Next e
  | i :: r => match exec_d e i with Next e1 => exec_body_d e1 r | s => s end
  end.
Fixpoint exec_body_i (e : cenv) (l : list iinstr) : step :=
  match l with
  | [] => Next e
  | i :: r => match exec_i e i with Next e1 => exec_body_i e1 r | s => s end
  end.

(* ---------- the translation, block by block, under a complete val_map V ---------- *)
Definition wvmf (V : valmap) (v : Z) : iopd := match vm_get V v with Ok o => o | Err _ => IVar v end.
(* convert_op on every op of a block body (the val_map is complete: the updates conv_instr returns are no-ops) *)
Fixpoint tr_body (V : valmap) (l : list dinstr) : res (list iinstr) :=
  match l with
  | [] => Ok []
  | i :: r =>
      do p <- conv_instr V i;
      do is <- tr_body V r;
      Ok (match fst p with Some x => x :: is | None => is end)
  end.
Definition tr_term (V : valmap) (t : dterm) : kterm :=
  match t with
  | DRet _ v => KRet (wvmf V v)
  | DRetVoid | DUnreachable => KStop
  | DBr d args => KBr d (map (wvmf V) args)
  | DCondBr c t ta e ea => KCondBr (wvmf V c) t (map (wvmf V) ta) e (map (wvmf V) ea)
  end.
Definition tr_kfunc (V : valmap) (f : dfunc) : kfunc :=
  map (fun b => mkKB (map fst (d_args b)) (tr_term V (d_term b))) f.
Definition tr_bodies (V : valmap) (f : dfunc) : list (list iinstr) :=
  map (fun b => match tr_body V (d_body b) with Ok l => l | Err _ => [] end) f.

Record tprog := mkT { t_bodies : list (list iinstr); t_k : kfunc; t_pt : phitab }.

(* the complete val_map of a function: constants inlined, everything else the value itself *)
Definition def_ids (f : dfunc) : list Z :=
  flat_map (fun b => map fst (d_args b) ++
              flat_map (fun i => match i with
                                 | DConst _ _ _ | DStore _ _ _ _ => []
                                 | DBin r _ _ _ _ | DIcmp r _ _ _ _ | DFcmp r _ _ _ _ | DCast r _ _ _ _
                                 | DSelect r _ _ _ _ | DAlloca r _ _ _ _ | DLoad r _ _ _ => [r]
                                 end) (d_body b)) f.
Definition consts_of (f : dfunc) : valmap :=
  flat_map (fun b => flat_map (fun i => match i with DConst r t c => [(r, IConst t c)] | _ => [] end) (d_body b)) f.
Definition final_vm (f : dfunc) : valmap := consts_of f ++ map (fun v => (v, IVar v)) (def_ids f).

Definition tr_prog (f : dfunc) : res tprog :=
  let V := final_vm f in
  let kf := tr_kfunc V f in
  do pt <- k_build condbr_same_block_special_case kf (block_order f);
  Ok (mkT (tr_bodies V f) kf pt).

(* ---------- the two machines ---------- *)
Inductive wout := WRet (v : Z) | WHalt | WPoison | WStuck | WFuel.

Definition ddflt : dblock := mkDB [] [] DUnreachable.
Definition enter_src (f : dfunc) (d : Z) (vals : list Z) (e : cenv) : cenv :=
  combine (map fst (d_args (nth (Z.to_nat d) f ddflt))) vals ++ e.

Fixpoint run_src (f : dfunc) (fuel : nat) (cur : nat) (e : cenv) : wout :=
  match fuel with
  | O => WFuel
  | S n =>
    match nth_error f cur with
    | None => WStuck
    | Some b =>
      match exec_body_d e (d_body b) with
      | StuckS => WStuck
      | Poison => WPoison
      | Next e1 =>
        match d_term b with
        | DRet _ v => match env_get e1 v with Some x => WRet x | None => WStuck end
        | DRetVoid | DUnreachable => WHalt
        | DBr d args =>
            match opt_map (env_get e1) args with
            | Some vs => run_src f n (Z.to_nat d) (enter_src f d vs e1)
            | None => WStuck
            end
        | DCondBr c tb ta eb ea =>
            match env_get e1 c with
            | None => WStuck
            | Some cv =>
                let d := if Z.odd cv then tb else eb in
                match opt_map (env_get e1) (if Z.odd cv then ta else ea) with
                | Some vs => run_src f n (Z.to_nat d) (enter_src f d vs e1)
                | None => WStuck
                end
            end
        end
      end
    end
  end.

Fixpoint run_tgt (T : tprog) (fuel : nat) (cur : nat) (e : cenv) : wout :=
  match fuel with
  | O => WFuel
  | S n =>
    match nth_error (t_k T) cur with
    | None => WStuck
    | Some kb =>
      match exec_body_i e (nth cur (t_bodies T) []) with
      | StuckS => WStuck
      | Poison => WPoison
      | Next e1 =>
        match k_term kb with
        | KRet v => match i_eval e1 v with Some x => WRet x | None => WStuck end
        | KStop => WHalt
        | KBr d _ =>
            match phi_vals cenv i_eval (t_k T) (t_pt T) d (Z.of_nat cur) e1 with
            | Some vs => run_tgt T n (Z.to_nat d) (enter cenv c_assign (t_k T) d vs e1)
            | None => WStuck
            end
        | KCondBr c tb _ eb _ =>
            match i_eval e1 c with
            | None => WStuck
            | Some cv =>
                let d := if Z.odd cv then tb else eb in
                match phi_vals cenv i_eval (t_k T) (t_pt T) d (Z.of_nat cur) e1 with
                | Some vs => run_tgt T n (Z.to_nat d) (enter cenv c_assign (t_k T) d vs e1)
                | None => WStuck
                end
            end
        end
      end
    end
  end.

(* ---------- well-formedness of the val_map w.r.t. the function (SSA: one definition per id) ---------- *)
Definition def_ok (V : valmap) (i : dinstr) : Prop :=
  match i with
  | DConst r t c => vm_get V r = Ok (IConst t c)
  | DBin r _ _ _ _ | DIcmp r _ _ _ _ | DCast r _ _ _ _ | DSelect r _ _ _ _ => vm_get V r = Ok (IVar r)
  | _ => True
  end.
Definition vm_ok (V : valmap) (f : dfunc) : Prop :=
  Forall (fun p => match snd p with IVar u => u = fst p | IConst _ _ => True end) V /\
  (forall b, In b f -> (forall a, In a (d_args b) -> vm_get V (fst a) = Ok (IVar (fst a))) /\
                       (forall i, In i (d_body b) -> def_ok V i)).
(* every op of the function is translated (no exception) *)
Definition tr_ok (V : valmap) (f : dfunc) : Prop :=
  forall b, In b f -> exists l, tr_body V (d_body b) = Ok l.

(* source environment vs target environment *)
Definition Rel (V : valmap) (ed ei : cenv) : Prop :=
  forall v x, env_get ed v = Some x -> i_eval ei (wvmf V v) = Some x.

(* ---------- decidable form of the hypotheses of the simulation theorem ---------- *)
Definition res_opd_is (r : res iopd) (o : iopd) : bool :=
  match r with Ok x => iopd_eqb x o | Err _ => false end.
Definition def_okb (V : valmap) (i : dinstr) : bool :=
  match i with
  | DConst r t c => res_opd_is (vm_get V r) (IConst t c)
  | DBin r _ _ _ _ | DIcmp r _ _ _ _ | DCast r _ _ _ _ | DSelect r _ _ _ _ => res_opd_is (vm_get V r) (IVar r)
  | _ => true
  end.
Definition vm_okb (V : valmap) (f : dfunc) : bool :=
  forallb (fun p => match snd p with IVar u => u =? fst p | IConst _ _ => true end) V &&
  forallb (fun b => forallb (fun a => res_opd_is (vm_get V (fst a)) (IVar (fst a))) (d_args b) &&
                    forallb (def_okb V) (d_body b)) f.
Definition tr_okb (V : valmap) (f : dfunc) : bool :=
  forallb (fun b => match tr_body V (d_body b) with Ok _ => true | Err _ => false end) f.
Definition edge_okb (kf : kfunc) (d : Z) (args : list iopd) : bool :=
  (0 <? d) && Nat.ltb (Z.to_nat d) (List.length kf) && Nat.eqb (List.length args) (k_nargs kf d).
Fixpoint opds_eqb (a b : list iopd) : bool :=
  match a, b with
  | [], [] => true
  | x :: r, y :: s => iopd_eqb x y && opds_eqb r s
  | _, _ => false
  end.
Definition term_okb (fixed : bool) (kf : kfunc) (t : kterm) : bool :=
  match t with
  | KBr d args => edge_okb kf d args
  | KCondBr _ tb ta eb ea =>
      edge_okb kf tb ta && edge_okb kf eb ea && (fixed || negb (tb =? eb) || opds_eqb ta ea)
  | _ => true
  end.
Fixpoint nodupb (l : list nat) : bool :=
  match l with [] => true | x :: r => negb (existsb (Nat.eqb x) r) && nodupb r end.
Definition order_okb (n : nat) (order : list nat) : bool :=
  nodupb order && forallb (fun i => existsb (Nat.eqb i) order) (seq 0 n).
Definition whole_okb (f : dfunc) : bool :=
  let V := final_vm f in
  let kf := tr_kfunc V f in
  vm_okb V f && tr_okb V f &&
  forallb (fun b => term_okb condbr_same_block_special_case kf (k_term b)) kf &&
  order_okb (List.length f) (block_order f).

(* ---------- the machine on conv_func's literal output (list iblock) ---------- *)
Definition idflt : iblock := mkIB [] [] IUnreachable.
Definition lit_phi_vals (b : iblock) (pred : Z) (e : cenv) : option (list Z) :=
  opt_map (fun ph => phi_eval cenv i_eval (snd ph) pred e) (i_phis b).
Definition lit_enter (bs : list iblock) (d : Z) (vals : list Z) (e : cenv) : cenv :=
  combine (map (fun ph => fst (fst ph)) (i_phis (nth (Z.to_nat d) bs idflt))) vals ++ e.
Fixpoint run_lit (bs : list iblock) (fuel : nat) (cur : nat) (e : cenv) : wout :=
  match fuel with
  | O => WFuel
  | S n =>
    match nth_error bs cur with
    | None => WStuck
    | Some b =>
      match exec_body_i e (i_body b) with
      | StuckS => WStuck
      | Poison => WPoison
      | Next e1 =>
        match i_term b with
        | IRet _ v => match i_eval e1 v with Some x => WRet x | None => WStuck end
        | IRetVoid | IUnreachable => WHalt
        | IBr d =>
            match lit_phi_vals (nth (Z.to_nat d) bs idflt) (Z.of_nat cur) e1 with
            | Some vs => run_lit bs n (Z.to_nat d) (lit_enter bs d vs e1)
            | None => WStuck
            end
        | ICondBr c tb eb =>
            match i_eval e1 c with
            | None => WStuck
            | Some cv =>
                let d := if Z.odd cv then tb else eb in
                match lit_phi_vals (nth (Z.to_nat d) bs idflt) (Z.of_nat cur) e1 with
                | Some vs => run_lit bs n (Z.to_nat d) (lit_enter bs d vs e1)
                | None => WStuck
                end
            end
        end
      end
    end
  end.

(* conv_func's output IS the block-wise translation (no select had to be materialised): same instruction lists, same
   terminators, the phis of block i are the entries (i, 0), (i, 1), ... of the kernel's table; the entry block has none *)
Definition term_matchesP (k : kterm) (t : iterm) : Prop :=
  match k, t with
  | KRet a, IRet _ b => a = b
  | KStop, IRetVoid | KStop, IUnreachable => True
  | KBr d _, IBr d' => d = d'
  | KCondBr c tb _ eb _, ICondBr c' tb' eb' => c = c' /\ tb = tb' /\ eb = eb'
  | _, _ => False
  end.
Definition lit_matches (bs : list iblock) (T : tprog) : Prop :=
  List.length bs = List.length (t_k T) /\
  forall i b, nth_error bs i = Some b ->
    i_body b = nth i (t_bodies T) [] /\
    term_matchesP (k_term (nth i (t_k T) kdflt)) (i_term b) /\
    (i <> O -> map (fun ph => fst (fst ph)) (i_phis b) = k_args (nth i (t_k T) kdflt) /\
               map snd (i_phis b) =
               map (fun k => pt_get (t_pt T) (Z.of_nat i) (Z.of_nat k)) (seq 0 (List.length (i_phis b)))).
