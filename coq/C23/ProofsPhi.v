(* C23/ProofsPhi.v -- block arguments vs phi nodes on the CFG kernel of C23/Model.v.

   Source machine (`run_ba`): blocks with arguments; a branch evaluates its operands in the current state and
   assigns them simultaneously to the arguments of the destination block.
   Target machine (`run_phi`): the same blocks and terminators without operands, plus the phi table that
   `k_build` (= the add_incoming calls of _convert_br / _convert_condbr, folded over the blocks in conversion
   order) constructs; entering block d from predecessor p evaluates every phi of d by LLVM's rule: the
   incoming entries labelled p -- if they do not all carry the same value the IR is invalid (LLVM's verifier
   rejects `PHI node has multiple entries for the same basic block with different incoming values`), modelled
   as getting stuck.
   States, operand evaluation, simultaneous assignment and the effect of a block's non-terminator operations are
   abstract (Section variables, no law needed): both machines perform the same assignments with the same values,
   so the theorem is an EQUALITY of outcomes for every CFG, entry state, path and fuel. *)
From Coq Require Import ZArith Bool List String Lia.
From XV Require Import Gen.C23_tables C23.Model.
Import ListNotations.
Local Open Scope list_scope.
Local Open Scope Z_scope.

(* ---------- the phi table as a function of the terminators ---------- *)
Definition kdo : kopd := KO (IVar 0).
Definition kdflt : kblock := mkKB [] KStop.

Lemma iopd_eqb_refl x : iopd_eqb x x = true.
Proof. destruct x; cbn; rewrite ?Z.eqb_refl; reflexivity. Qed.
Lemma kopd_eqb_refl x : kopd_eqb x x = true.
Proof. destruct x; cbn; rewrite ?iopd_eqb_refl; reflexivity. Qed.

Lemma pt_add_get pt b k inc pt' : pt_add pt b k inc = Some pt' ->
  forall b' k', pt_get pt' b' k' =
    if (b' =? b) && (k' =? k) then pt_get pt b k ++ [inc] else pt_get pt b' k'.
Proof.
  revert pt'. induction pt as [|[[b0 k0] l] r IH]; intros pt' Hadd b' k'; cbn [pt_add] in Hadd; [discriminate|].
  destruct ((b =? b0) && (k =? k0)) eqn:E.
  - inversion Hadd; subst pt'; clear Hadd.
    apply andb_prop in E as [E1 E2]. apply Z.eqb_eq in E1, E2. subst b0 k0.
    unfold pt_get. cbn [find fst snd]. rewrite !Z.eqb_refl. cbn [andb].
    destruct ((b' =? b) && (k' =? k)); reflexivity.
  - destruct (pt_add r b k inc) as [r'|] eqn:Er; [|discriminate]. cbn [option_map] in Hadd.
    inversion Hadd; subst pt'; clear Hadd.
    specialize (IH r' eq_refl b' k').
    unfold pt_get in *. cbn [find fst snd].
    destruct ((b' =? b0) && (k' =? k0)) eqn:E0.
    + destruct ((b' =? b) && (k' =? k)) eqn:E1; [|reflexivity].
      apply andb_prop in E0 as [A1 A2]. apply andb_prop in E1 as [B1 B2].
      apply Z.eqb_eq in A1, A2, B1, B2. subst. rewrite !Z.eqb_refl in E. discriminate.
    + rewrite IH. destruct ((b' =? b) && (k' =? k)) eqn:E1; [|reflexivity].
      apply andb_prop in E1 as [B1 B2]. apply Z.eqb_eq in B1, B2. subst b' k'. rewrite E. reflexivity.
Qed.

(* the incomings `add_incomings pt d k0 n vals cur` appends to phi (b, k) *)
Definition seg (d k0 : Z) (n : nat) (vals : list kopd) (cur b k : Z) : list incoming :=
  if (b =? d) && (k0 <=? k) && (k <? k0 + Z.of_nat (Nat.min n (List.length vals)))
  then [(nth (Z.to_nat (k - k0)) vals kdo, cur)] else [].

Lemma add_incomings_get n : forall pt d k0 vals cur pt',
  add_incomings pt d k0 n vals cur = Ok pt' ->
  forall b k, pt_get pt' b k = pt_get pt b k ++ seg d k0 n vals cur b k.
Proof.
  induction n as [|n IH]; intros pt d k0 vals cur pt' Hadd b k.
  - cbn in Hadd. inversion Hadd; subst. unfold seg. cbn [Nat.min Z.of_nat].
    replace (k <? k0 + 0) with (k <? k0) by (f_equal; lia).
    destruct (Z.leb_spec k0 k), (Z.ltb_spec k k0); try lia; rewrite ?andb_false_r; rewrite app_nil_r; reflexivity.
  - destruct vals as [|v r].
    + cbn in Hadd. inversion Hadd; subst. unfold seg. cbn [List.length Nat.min Z.of_nat].
      replace (k <? k0 + 0) with (k <? k0) by (f_equal; lia).
      destruct (Z.leb_spec k0 k), (Z.ltb_spec k k0); try lia; rewrite ?andb_false_r; rewrite app_nil_r; reflexivity.
    + cbn [add_incomings] in Hadd.
      destruct (pt_add pt d k0 (v, cur)) as [pt1|] eqn:Ea; [|discriminate].
      rewrite (IH _ _ _ _ _ _ Hadd b k), (pt_add_get _ _ _ _ _ Ea b k).
      unfold seg. cbn [List.length]. rewrite <- Nat.succ_min_distr.
      set (m := Nat.min n (List.length r)). rewrite Nat2Z.inj_succ.
      destruct (Z.eqb_spec b d) as [Eb|Nb]; cbn [andb]; [subst b|rewrite app_nil_r; reflexivity].
      destruct (Z.eqb_spec k k0) as [Ek|Nk].
      * subst k. destruct (Z.leb_spec (k0 + 1) k0); [lia|]. cbn [andb]. rewrite app_nil_r.
        destruct (Z.leb_spec k0 k0); [|lia]. destruct (Z.ltb_spec k0 (k0 + Z.succ (Z.of_nat m))); [|lia].
        cbn [andb]. replace (k0 - k0) with 0 by lia. reflexivity.
      * destruct (Z.leb_spec (k0 + 1) k), (Z.leb_spec k0 k); try lia; cbn [andb]; [|rewrite app_nil_r; reflexivity].
        destruct (Z.ltb_spec k (k0 + 1 + Z.of_nat m)), (Z.ltb_spec k (k0 + Z.succ (Z.of_nat m))); try lia;
          [|rewrite app_nil_r; reflexivity].
        replace (Z.to_nat (k - k0)) with (S (Z.to_nat (k - (k0 + 1)))) by lia. reflexivity.
Qed.

Definition edge_incs (fixed : bool) (f : kfunc) (cur : Z) (t : kterm) (b k : Z) : list incoming :=
  match t with
  | KRet _ | KStop => []
  | KBr d args => seg d 0 (k_nargs f d) (map KO args) cur b k
  | KCondBr c tb targs eb eargs =>
      if fixed && (tb =? eb) then
        let os := map (fun p => k_sel c (fst p) (snd p)) (combine targs eargs) in
        seg tb 0 (k_nargs f tb) os cur b k ++ seg tb 0 (k_nargs f tb) os cur b k
      else seg tb 0 (k_nargs f tb) (map KO targs) cur b k ++ seg eb 0 (k_nargs f eb) (map KO eargs) cur b k
  end.

Lemma k_term_phis_get fixed f pt cur t pt' : k_term_phis fixed f pt cur t = Ok pt' ->
  forall b k, pt_get pt' b k = pt_get pt b k ++ edge_incs fixed f cur t b k.
Proof.
  intros Ht b k. destruct t as [v|d args|c tb targs eb eargs|]; cbn [k_term_phis edge_incs] in *.
  - inversion Ht; subst; rewrite app_nil_r; reflexivity.
  - apply (add_incomings_get _ _ _ _ _ _ _ Ht).
  - destruct (fixed && (tb =? eb)).
    + destruct (add_incomings pt tb 0 _ _ cur) as [pt1|] eqn:E1; [|discriminate]. cbn [bind] in Ht.
      rewrite (add_incomings_get _ _ _ _ _ _ _ Ht), (add_incomings_get _ _ _ _ _ _ _ E1), app_assoc. reflexivity.
    + destruct (add_incomings pt tb 0 _ _ cur) as [pt1|] eqn:E1; [|discriminate]. cbn [bind] in Ht.
      rewrite (add_incomings_get _ _ _ _ _ _ _ Ht), (add_incomings_get _ _ _ _ _ _ _ E1), app_assoc. reflexivity.
  - inversion Ht; subst; rewrite app_nil_r; reflexivity.
Qed.

Lemma pt_get_ext pt ext b k : (forall e, In e ext -> snd e = []) -> pt_get (pt ++ ext) b k = pt_get pt b k.
Proof.
  intros He. unfold pt_get. induction pt as [|e r IH]; cbn [app find].
  - induction ext as [|x xs IHx]; [reflexivity|]. cbn [find].
    destruct ((b =? fst (fst x)) && (k =? snd (fst x))).
    + apply He. left; reflexivity.
    + apply IHx. intros e Hin; apply He; right; exact Hin.
  - destruct ((b =? fst (fst e)) && (k =? snd (fst e))); [reflexivity | exact IH].
Qed.
Lemma k_init_get bs : forall i pt b k, pt_get (k_init i bs pt) b k = pt_get pt b k.
Proof.
  induction bs as [|x r IH]; intros i pt b k; cbn [k_init]; [reflexivity|].
  rewrite IH. destruct (i =? 0); [reflexivity|].
  apply pt_get_ext. intros e Hin. apply in_map_iff in Hin as [j [<- _]]. reflexivity.
Qed.

Lemma k_walk_get fixed f order : forall pt pt', k_walk fixed f order pt = Ok pt' ->
  forall b k, pt_get pt' b k = pt_get pt b k ++
    flat_map (fun i => edge_incs fixed f (Z.of_nat i) (k_term (nth i f kdflt)) b k) order.
Proof.
  induction order as [|i r IH]; intros pt pt' Hw b k; cbn [k_walk flat_map] in *.
  - inversion Hw; subst; rewrite app_nil_r; reflexivity.
  - destruct (nth_error f i) as [bl|] eqn:En; [|discriminate].
    destruct (k_term_phis fixed f pt (Z.of_nat i) (k_term bl)) as [pt1|] eqn:Et; [|discriminate]. cbn [bind] in Hw.
    rewrite (IH _ _ Hw b k), (k_term_phis_get _ _ _ _ _ _ Et b k), app_assoc.
    rewrite (nth_error_nth _ _ kdflt En). reflexivity.
Qed.

Theorem k_build_get fixed f order pt : k_build fixed f order = Ok pt ->
  forall b k, pt_get pt b k =
    flat_map (fun i => edge_incs fixed f (Z.of_nat i) (k_term (nth i f kdflt)) b k) order.
Proof.
  intros Hb b k. unfold k_build in Hb. rewrite (k_walk_get _ _ _ _ _ Hb b k), k_init_get. reflexivity.
Qed.

Lemma seg_label d k0 n vals cur b k e : In e (seg d k0 n vals cur b k) -> snd e = cur.
Proof. unfold seg. destruct (_ && _); cbn; [intros [<- | []]; reflexivity | intros []]. Qed.
Lemma edge_incs_label fixed f cur t b k e : In e (edge_incs fixed f cur t b k) -> snd e = cur.
Proof.
  destruct t; cbn [edge_incs]; try (intros []).
  - apply seg_label.
  - destruct (fixed && (t =? e0)); intros Hin; apply in_app_or in Hin as [Hin | Hin]; eapply seg_label; exact Hin.
Qed.

Lemma filter_label_all (l : list incoming) p : (forall e, In e l -> snd e = p) ->
  filter (fun e => snd e =? p) l = l.
Proof.
  induction l as [|x r IH]; intros Hl; [reflexivity|]. cbn [filter].
  rewrite (Hl x (or_introl eq_refl)), Z.eqb_refl. f_equal. apply IH. intros e He; apply Hl; right; exact He.
Qed.
Lemma filter_label_none (l : list incoming) p q : q <> p -> (forall e, In e l -> snd e = q) ->
  filter (fun e => snd e =? p) l = [].
Proof.
  intros Hq. induction l as [|x r IH]; intros Hl; [reflexivity|]. cbn [filter].
  rewrite (Hl x (or_introl eq_refl)). destruct (Z.eqb_spec q p); [contradiction|].
  apply IH. intros e He; apply Hl; right; exact He.
Qed.
Lemma filter_flat_map_unique (g : nat -> list incoming) order p :
  (forall i e, In e (g i) -> snd e = Z.of_nat i) -> NoDup order -> In p order ->
  filter (fun e => snd e =? Z.of_nat p) (flat_map g order) = g p.
Proof.
  intros Hg. induction order as [|i r IH]; intros Hnd Hin; [destruct Hin|].
  cbn [flat_map]. rewrite filter_app. inversion Hnd as [|? ? Hni Hnd']; subst.
  destruct Hin as [-> | Hin].
  - rewrite filter_label_all by (apply Hg).
    assert (E : filter (fun e => snd e =? Z.of_nat p) (flat_map g r) = []).
    { clear IH Hnd Hnd'. induction r as [|j r IHr]; [reflexivity|]. cbn [flat_map]. rewrite filter_app.
      rewrite (filter_label_none _ _ (Z.of_nat j)); [|intros E; apply Nat2Z.inj in E; subst; apply Hni; left; reflexivity|apply Hg].
      apply IHr. intros Hc; apply Hni; right; exact Hc. }
    rewrite <- (app_nil_r (g p)) at 2. f_equal. exact E.
  - rewrite (filter_label_none _ _ (Z.of_nat i)); [|intros E; apply Nat2Z.inj in E; subst; contradiction|apply Hg].
    apply IH; assumption.
Qed.

Lemma nth_map_sel c (ta ea : list iopd) k : List.length ea = List.length ta -> (k < List.length ta)%nat ->
  nth k (map (fun p => k_sel c (fst p) (snd p)) (combine ta ea)) kdo =
  k_sel c (nth k ta (IVar 0)) (nth k ea (IVar 0)).
Proof.
  intros Hl Hk.
  rewrite (nth_indep _ kdo ((fun p => k_sel c (fst p) (snd p)) (IVar 0, IVar 0)))
    by (rewrite map_length, combine_length; lia).
  rewrite (map_nth (fun p => k_sel c (fst p) (snd p))). rewrite combine_nth by (symmetry; exact Hl). reflexivity.
Qed.
Lemma iopd_eqb_true x y : iopd_eqb x y = true -> x = y.
Proof.
  destruct x, y; cbn; try discriminate.
  - intros H; apply Z.eqb_eq in H; subst; reflexivity.
  - intros H; apply andb_prop in H as [H1 H2]. apply Z.eqb_eq in H1, H2. subst; reflexivity.
Qed.

(* ---------- the two machines ---------- *)
Inductive outcome := ORet (v : Z) | OHalt | OStuck | OFuel.

Section Kernel.
  Variable St : Type.
  Variable eval : St -> iopd -> option Z.            (* value of an llvmlite operand in a state *)
  Variable assign : list (Z * Z) -> St -> St.        (* simultaneous assignment  id := value *)
  Variable body : nat -> St -> option St.            (* the non-terminator operations of block i *)

  Fixpoint opt_map {A B} (g : A -> option B) (l : list A) : option (list B) :=
    match l with
    | [] => Some []
    | x :: r => match g x, opt_map g r with Some v, Some vs => Some (v :: vs) | _, _ => None end
    end.
  Definition evals (st : St) (l : list iopd) : option (list Z) := opt_map (eval st) l.

  Definition enter (f : kfunc) (d : Z) (vals : list Z) (st : St) : St :=
    assign (combine (k_args (nth (Z.to_nat d) f kdflt)) vals) st.

  (* block-argument machine *)
  Fixpoint run_ba (f : kfunc) (fuel : nat) (cur : nat) (st : St) : outcome :=
    match fuel with
    | O => OFuel
    | S n =>
      match nth_error f cur with
      | None => OStuck
      | Some b =>
        match body cur st with
        | None => OStuck
        | Some st1 =>
          match k_term b with
          | KRet v => match eval st1 v with Some x => ORet x | None => OStuck end
          | KStop => OHalt
          | KBr d args =>
              match evals st1 args with
              | Some vs => run_ba f n (Z.to_nat d) (enter f d vs st1)
              | None => OStuck
              end
          | KCondBr c tb targs eb eargs =>
              match eval st1 c with
              | None => OStuck
              | Some cv =>
                  let d := if Z.odd cv then tb else eb in
                  match evals st1 (if Z.odd cv then targs else eargs) with
                  | Some vs => run_ba f n (Z.to_nat d) (enter f d vs st1)
                  | None => OStuck
                  end
              end
          end
        end
      end
    end.

  (* phi machine *)
  Definition eval_k (st : St) (o : kopd) : option Z :=
    match o with
    | KO x => eval st x
    | KSel c a b => match eval st c with Some cv => if Z.odd cv then eval st a else eval st b | None => None end
    end.
  Definition phi_eval (incs : list incoming) (pred : Z) (st : St) : option Z :=
    match filter (fun e => snd e =? pred) incs with
    | [] => None                                                    (* no entry for the predecessor *)
    | (o, _) :: r => if forallb (fun e => kopd_eqb (fst e) o) r then eval_k st o else None
    end.
  Definition phi_vals (f : kfunc) (pt : phitab) (d pred : Z) (st : St) : option (list Z) :=
    opt_map (fun k => phi_eval (pt_get pt d (Z.of_nat k)) pred st) (seq 0 (k_nargs f d)).

  Fixpoint run_phi (f : kfunc) (pt : phitab) (fuel : nat) (cur : nat) (st : St) : outcome :=
    match fuel with
    | O => OFuel
    | S n =>
      match nth_error f cur with
      | None => OStuck
      | Some b =>
        match body cur st with
        | None => OStuck
        | Some st1 =>
          match k_term b with
          | KRet v => match eval st1 v with Some x => ORet x | None => OStuck end
          | KStop => OHalt
          | KBr d _ =>
              match phi_vals f pt d (Z.of_nat cur) st1 with
              | Some vs => run_phi f pt n (Z.to_nat d) (enter f d vs st1)
              | None => OStuck
              end
          | KCondBr c tb _ eb _ =>
              match eval st1 c with
              | None => OStuck
              | Some cv =>
                  let d := if Z.odd cv then tb else eb in
                  match phi_vals f pt d (Z.of_nat cur) st1 with
                  | Some vs => run_phi f pt n (Z.to_nat d) (enter f d vs st1)
                  | None => OStuck
                  end
              end
          end
        end
      end
    end.

  (* ---------- well-formed source CFG ---------- *)
  Definition edge_ok (f : kfunc) (d : Z) (args : list iopd) : Prop :=
    0 < d /\ (Z.to_nat d < List.length f)%nat /\ List.length args = k_nargs f d.
  Definition term_ok (f : kfunc) (t : kterm) : Prop :=
    match t with
    | KBr d args => edge_ok f d args
    | KCondBr _ tb targs eb eargs => edge_ok f tb targs /\ edge_ok f eb eargs
    | _ => True
    end.
  Definition wf (f : kfunc) : Prop := forall b, In b f -> term_ok f (k_term b).
  (* a cond_br that names one block twice passes the same operands on both edges *)
  Definition no_conflict (f : kfunc) : Prop :=
    forall b c tb targs eb eargs, In b f -> k_term b = KCondBr c tb targs eb eargs -> tb = eb -> targs = eargs.

  Lemma opt_map_ext {A B} (g h : A -> option B) l : (forall x, In x l -> g x = h x) -> opt_map g l = opt_map h l.
  Proof.
    induction l as [|x r IH]; intros He; [reflexivity|]. cbn [opt_map].
    rewrite (He x (or_introl eq_refl)), IH; [reflexivity|]. intros y Hy; apply He; right; exact Hy.
  Qed.
  Lemma opt_map_map {A B C} (g : B -> option C) (h : A -> B) l : opt_map g (map h l) = opt_map (fun x => g (h x)) l.
  Proof. induction l as [|x r IH]; [reflexivity|]. cbn [map opt_map]. rewrite IH. reflexivity. Qed.
  Lemma opt_map_nth {A B} (g : A -> option B) (l : list A) (d : A) :
    opt_map (fun k => g (nth k l d)) (seq 0 (List.length l)) = opt_map g l.
  Proof.
    induction l as [|x r IH]; [reflexivity|]. cbn [List.length seq opt_map nth].
    rewrite <- seq_shift, opt_map_map. cbn [nth]. rewrite IH. reflexivity.
  Qed.

  Lemma seg_hit d n vals cur k : (k < Nat.min n (List.length vals))%nat ->
    seg d 0 n vals cur d (Z.of_nat k) = [(nth k vals kdo, cur)].
  Proof.
    intros Hk. unfold seg. rewrite Z.eqb_refl.
    destruct (Z.leb_spec 0 (Z.of_nat k)); [|lia].
    destruct (Z.ltb_spec (Z.of_nat k) (0 + Z.of_nat (Nat.min n (List.length vals)))); [|lia].
    cbn [andb]. rewrite Z.sub_0_r, Nat2Z.id. reflexivity.
  Qed.
  Lemma seg_miss d n vals cur b k : b <> d -> seg d 0 n vals cur b k = [].
  Proof. intros Hb. unfold seg. destruct (Z.eqb_spec b d); [contradiction | reflexivity]. Qed.

  Definition edges_to (f : kfunc) (d : Z) (i : nat) : list Z :=
    match k_term (nth i f kdflt) with
    | KBr d' _ => if d' =? d then [Z.of_nat i] else []
    | KCondBr _ tb _ eb _ => (if tb =? d then [Z.of_nat i] else []) ++ (if eb =? d then [Z.of_nat i] else [])
    | _ => []
    end.
  Lemma edges_map_snd fixed f d (k : nat) order :
    wf f -> (forall i, In i order -> (i < List.length f)%nat) -> (k < k_nargs f d)%nat ->
    map snd (flat_map (fun i => edge_incs fixed f (Z.of_nat i) (k_term (nth i f kdflt)) d (Z.of_nat k)) order) =
    flat_map (edges_to f d) order.
  Proof.
    intros Hwf Hin Hk. induction order as [|i r IHo]; [reflexivity|]. cbn [flat_map]. rewrite map_app.
    f_equal; [|apply IHo; intros j Hj; apply Hin; right; exact Hj].
    assert (Hi : (i < List.length f)%nat) by (apply Hin; left; reflexivity).
    pose proof (Hwf (nth i f kdflt) (nth_In _ _ Hi)) as Hok. unfold edges_to.
    destruct (k_term (nth i f kdflt)) as [v|d' args|c tb targs eb eargs|]; cbn [edge_incs map]; try reflexivity.
    - destruct Hok as (_ & _ & Hlen). destruct (Z.eqb_spec d' d) as [-> | Ne].
      + rewrite seg_hit by (rewrite map_length, Hlen, Nat.min_id; exact Hk). reflexivity.
      + rewrite seg_miss by (intros E; apply Ne; symmetry; exact E). reflexivity.
    - destruct Hok as ((_ & _ & Htl) & (_ & _ & Hel)).
      destruct (fixed && (tb =? eb)) eqn:Ef.
      + apply andb_prop in Ef as [_ Ee]. apply Z.eqb_eq in Ee. subst eb.
        destruct (Z.eqb_spec tb d) as [-> | Ne].
        * rewrite !seg_hit by (rewrite map_length, combine_length, Htl, Hel, !Nat.min_id; exact Hk). reflexivity.
        * rewrite !seg_miss by (intros E; apply Ne; symmetry; exact E). reflexivity.
      + rewrite map_app. f_equal.
        * destruct (Z.eqb_spec tb d) as [-> | Ne].
          -- rewrite seg_hit by (rewrite map_length, Htl, Nat.min_id; exact Hk). reflexivity.
          -- rewrite seg_miss by (intros E; apply Ne; symmetry; exact E). reflexivity.
        * destruct (Z.eqb_spec eb d) as [-> | Ne].
          -- rewrite seg_hit by (rewrite map_length, Hel, Nat.min_id; exact Hk). reflexivity.
          -- rewrite seg_miss by (intros E; apply Ne; symmetry; exact E). reflexivity.
  Qed.

  Section Built.
    Variable fixed : bool.
    Variable f : kfunc.
    Variable order : list nat.
    Variable pt : phitab.
    Hypothesis Hbuild : k_build fixed f order = Ok pt.
    Hypothesis Hwf : wf f.
    Hypothesis Hnc : fixed = false -> no_conflict f.
    Hypothesis Hnd : NoDup order.
    Hypothesis Hall : forall i, (i < List.length f)%nat -> In i order.

    Lemma incs_from p b (k : nat) : (p < List.length f)%nat ->
      filter (fun e => snd e =? Z.of_nat p) (pt_get pt b (Z.of_nat k)) =
      edge_incs fixed f (Z.of_nat p) (k_term (nth p f kdflt)) b (Z.of_nat k).
    Proof.
      intros Hp. rewrite (k_build_get _ _ _ _ Hbuild).
      apply (filter_flat_map_unique
               (fun i => edge_incs fixed f (Z.of_nat i) (k_term (nth i f kdflt)) b (Z.of_nat k))).
      - intros i e He. eapply edge_incs_label; exact He.
      - exact Hnd.
      - apply Hall; exact Hp.
    Qed.

    (* transfer along `br d(args)` from block p *)
    Lemma transfer_br p bl d args st : nth_error f p = Some bl -> k_term bl = KBr d args ->
      phi_vals f pt d (Z.of_nat p) st = evals st args.
    Proof.
      intros Hn Ht.
      assert (Hp : (p < List.length f)%nat) by (apply nth_error_Some; rewrite Hn; discriminate).
      pose proof (Hwf bl (nth_error_In _ _ Hn)) as Hok. rewrite Ht in Hok. destruct Hok as (Hd0 & Hdl & Hlen).
      unfold phi_vals, evals. rewrite <- Hlen, <- (opt_map_nth (eval st) args (IVar 0)).
      apply opt_map_ext. intros k Hk. apply in_seq in Hk.
      unfold phi_eval. rewrite (incs_from p d k Hp), (nth_error_nth _ _ kdflt Hn), Ht. cbn [edge_incs].
      rewrite seg_hit by (rewrite map_length, <- Hlen, Nat.min_id; lia).
      cbn [forallb]. change kdo with (KO (IVar 0)). rewrite map_nth. reflexivity.
    Qed.

    (* transfer along the taken edge of `cond_br c, tb(targs), eb(eargs)` from block p *)
    Lemma transfer_condbr p bl c tb targs eb eargs st cv :
      nth_error f p = Some bl -> k_term bl = KCondBr c tb targs eb eargs -> eval st c = Some cv ->
      phi_vals f pt (if Z.odd cv then tb else eb) (Z.of_nat p) st =
      evals st (if Z.odd cv then targs else eargs).
    Proof.
      intros Hn Ht Hc.
      assert (Hp : (p < List.length f)%nat) by (apply nth_error_Some; rewrite Hn; discriminate).
      pose proof (Hwf bl (nth_error_In _ _ Hn)) as Hok. rewrite Ht in Hok.
      destruct Hok as ((Ht0 & Htl & Htlen) & (He0 & Hel & Helen)).
      unfold phi_vals, evals.
      set (d := if Z.odd cv then tb else eb). set (args := if Z.odd cv then targs else eargs).
      assert (Hlen : List.length args = k_nargs f d) by (subst d args; destruct (Z.odd cv); assumption).
      rewrite <- Hlen, <- (opt_map_nth (eval st) args (IVar 0)).
      apply opt_map_ext. intros k Hk. apply in_seq in Hk.
      unfold phi_eval. rewrite (incs_from p d k Hp), (nth_error_nth _ _ kdflt Hn), Ht. cbn [edge_incs].
      destruct (Z.eqb_spec tb eb) as [Eq | Ne].
      - (* both edges lead to the same block *)
        subst eb. assert (Ed : d = tb) by (subst d; destruct (Z.odd cv); reflexivity). rewrite Ed in *.
        destruct fixed eqn:Ef; cbn [andb].
        + (* repaired code: the same select twice *)
          assert (Hl2 : List.length eargs = List.length targs) by lia.
          assert (Hk' : (k < Nat.min (k_nargs f tb)
                              (List.length (map (fun p0 => k_sel c (fst p0) (snd p0)) (combine targs eargs))))%nat).
          { rewrite map_length, combine_length, Hl2, Nat.min_id, <- Htlen, Nat.min_id.
            subst args; destruct (Z.odd cv); lia. }
          rewrite !seg_hit by exact Hk'. cbn [app filter forallb fst snd]. rewrite kopd_eqb_refl. cbn [andb].
          rewrite nth_map_sel by (try exact Hl2; subst args; destruct (Z.odd cv); lia).
          unfold k_sel. destruct (iopd_eqb (nth k targs (IVar 0)) (nth k eargs (IVar 0))) eqn:Ek.
          * apply iopd_eqb_true in Ek. cbn [eval_k]. subst args; destruct (Z.odd cv); [reflexivity | rewrite Ek; reflexivity].
          * cbn [eval_k]. rewrite Hc. subst args; destruct (Z.odd cv); reflexivity.
        + (* unrepaired code: two entries, equal because the operands are *)
          assert (Eargs : targs = eargs) by (eapply (Hnc eq_refl); [eapply nth_error_In; exact Hn | exact Ht | reflexivity]).
          subst eargs. assert (Ea : args = targs) by (subst args; destruct (Z.odd cv); reflexivity). rewrite Ea in *.
          rewrite !seg_hit by (rewrite map_length, <- Htlen, Nat.min_id; lia).
          cbn [app filter forallb fst snd]. rewrite kopd_eqb_refl. cbn [andb].
          change kdo with (KO (IVar 0)). rewrite map_nth. reflexivity.
      - (* two different blocks: exactly one entry *)
        rewrite andb_false_r. subst d args. destruct (Z.odd cv).
        + rewrite seg_hit by (rewrite map_length, <- Htlen, Nat.min_id; lia).
          rewrite seg_miss by exact Ne. cbn [app forallb]. change kdo with (KO (IVar 0)). rewrite map_nth. reflexivity.
        + rewrite (seg_miss tb) by (intros E; apply Ne; symmetry; exact E).
          rewrite seg_hit by (rewrite map_length, <- Helen, Nat.min_id; lia).
          cbn [app forallb]. change kdo with (KO (IVar 0)). rewrite map_nth. reflexivity.
    Qed.

    Theorem phi_block_args : forall fuel cur st, run_phi f pt fuel cur st = run_ba f fuel cur st.
    Proof.
      induction fuel as [|n IH]; intros cur st; [reflexivity|]. cbn [run_phi run_ba].
      destruct (nth_error f cur) as [bl|] eqn:Hn; [|reflexivity].
      destruct (body cur st) as [st1|]; [|reflexivity].
      destruct (k_term bl) as [v|d args|c tb targs eb eargs|] eqn:Ht; try reflexivity.
      - rewrite (transfer_br cur bl d args st1 Hn Ht). destruct (evals st1 args); [apply IH | reflexivity].
      - destruct (eval st1 c) as [cv|] eqn:Hc; [|reflexivity]. cbv zeta.
        rewrite (transfer_condbr cur bl c tb targs eb eargs st1 cv Hn Ht Hc).
        destruct (evals st1 (if Z.odd cv then targs else eargs)); [apply IH | reflexivity].
    Qed.

    (* LLVM's structural rule: phi (d, k) has exactly one entry per CFG edge into d, labelled with its source *)
    Theorem phi_one_entry_per_edge : forall d (k : nat), (k < k_nargs f d)%nat ->
      map snd (pt_get pt d (Z.of_nat k)) = flat_map (edges_to f d) order.
    Proof.
      intros d k Hk. rewrite (k_build_get _ _ _ _ Hbuild).
      apply edges_map_snd; [exact Hwf | | exact Hk].
      unfold k_build in Hbuild. revert Hbuild. generalize (k_init 0 f []). clear.
      induction order as [|j r IHr]; intros p0 Hb i Hi; [destruct Hi|]. cbn [k_walk] in Hb.
      destruct (nth_error f j) as [bj|] eqn:En; [|discriminate].
      destruct (k_term_phis fixed f p0 (Z.of_nat j) (k_term bj)) as [p1|]; [|discriminate]. cbn [bind] in Hb.
      destruct Hi as [<- | Hi]; [apply nth_error_Some; rewrite En; discriminate | eapply IHr; eassumption].
    Qed.
  End Built.
End Kernel.

(* ---------- a concrete instance: environments as association lists, empty block bodies ---------- *)
Definition cenv := list (Z * Z).
Fixpoint env_get (e : cenv) (v : Z) : option Z :=
  match e with [] => None | (k, x) :: r => if k =? v then Some x else env_get r v end.
Definition c_eval (e : cenv) (o : iopd) : option Z :=
  match o with IVar v => env_get e v | IConst _ c => Some c end.
Definition c_assign (l : list (Z * Z)) (e : cenv) : cenv := l ++ e.
Definition c_body (_ : nat) (e : cenv) : option cenv := Some e.
Definition c_run_ba := run_ba cenv c_eval c_assign c_body.
Definition c_run_phi := run_phi cenv c_eval c_assign c_body.

(* entry(%10, %11, %12): cond_br %12, ^1(%10), ^1(%11)   ^1(%20): ret %20 *)
Definition multi_edge : kfunc :=
  [ mkKB [10; 11; 12] (KCondBr (IVar 12) 1 [IVar 10] 1 [IVar 11]); mkKB [20] (KRet (IVar 20)) ].
(* the same with equal operands on both edges *)
Definition multi_edge_same : kfunc :=
  [ mkKB [10; 11; 12] (KCondBr (IVar 12) 1 [IVar 10] 1 [IVar 10]); mkKB [20] (KRet (IVar 20)) ].

(* the unrepaired construction makes an invalid phi on which the target is stuck while the source returns 5 *)
Theorem phi_multi_edge_refuted :
  exists f pt st, k_build false f (seq 0 (List.length f)) = Ok pt /\ wf f /\
    c_run_ba f 3 0 st = ORet 5 /\ c_run_phi f pt 3 0 st = OStuck.
Proof.
  exists multi_edge.
  eexists. exists [(10, 5); (11, 7); (12, 1)].
  split; [vm_compute; reflexivity|]. split; [|split; vm_compute; reflexivity].
  intros b Hb. cbn in Hb. destruct Hb as [<- | [<- | []]]; cbv; repeat split; try reflexivity; repeat constructor.
Qed.
(* the repaired construction (select) handles it *)
Example phi_multi_edge_fixed :
  exists pt, k_build true multi_edge (seq 0 2) = Ok pt /\
    c_run_phi multi_edge pt 3 0 [(10, 5); (11, 7); (12, 1)] = ORet 5 /\
    c_run_phi multi_edge pt 3 0 [(10, 5); (11, 7); (12, 0)] = ORet 7.
Proof. eexists. split; [vm_compute; reflexivity|]. split; vm_compute; reflexivity. Qed.
(* the hypothesis of the partial theorem is satisfiable on a CFG with a genuine double edge *)
Example no_conflict_satisfiable : wf multi_edge_same /\ no_conflict multi_edge_same /\
  exists pt, k_build false multi_edge_same (seq 0 2) = Ok pt /\
             c_run_phi multi_edge_same pt 3 0 [(10, 5); (11, 7); (12, 1)] = ORet 5.
Proof.
  split; [|split].
  - intros b Hb. cbn in Hb. destruct Hb as [<- | [<- | []]]; cbv; repeat split; try reflexivity; repeat constructor.
  - intros b c tb ta eb ea Hb Ht _. cbn in Hb. destruct Hb as [<- | [<- | []]]; cbn in Ht; inversion Ht; reflexivity.
  - eexists. split; vm_compute; reflexivity.
Qed.
