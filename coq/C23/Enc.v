(* C23/Enc.v -- encoders of model results into Base/Show.v `sx` for the generated case files, and the
   projection of a function onto the CFG kernel (used to tie k_build to conv_func on every generated case).
   No proofs. *)
From Coq Require Import ZArith List String Ascii Bool.
From XV Require Import Base.Show Gen.C23_tables C23.Model C23.ProofsPhi C23.Whole C23.ProofsWhole C23.ProofsLit.
Import ListNotations.
Local Open Scope list_scope.
Local Open Scope Z_scope.

Definition sS (s : string) : sx :=
  L ((fix go (s : string) : list sx :=
        match s with EmptyString => [] | String c r => I (Z.of_nat (nat_of_ascii c)) :: go r end) s).
Definition sSs (l : list string) : sx := L (map sS l).

Definition err_code (e : err) : Z :=
  match e with E_Value => 3 | E_Key => 4 | E_Index => 5 | E_Assert => 6 | E_NotImpl => 8 end.

Definition enc_opd (o : iopd) : sx :=
  match o with IVar v => L [I 0; I v] | IConst t c => L [I 1; I t; I c] end.
Definition enc_kopd (o : kopd) : sx :=
  match o with KO x => enc_opd x | KSel c a b => L [I 2; enc_opd c; enc_opd a; enc_opd b] end.
Definition enc_instr (i : iinstr) : sx :=
  match i with
  | IBin r opc fl t a b => L [I 1; I r; sS opc; sSs fl; I t; enc_opd a; enc_opd b]
  | IIcmp r p t a b => L [I 2; I r; sS p; I t; enc_opd a; enc_opd b]
  | IFcmp r p t a b => L [I 3; I r; sS p; I t; enc_opd a; enc_opd b]
  | ICast r opc fl t a t2 => L [I 4; I r; sS opc; sSs fl; I t; enc_opd a; I t2]
  | ISelect r t c a b => L [I 5; I r; I t; enc_opd c; enc_opd a; enc_opd b]
  | IAlloca r t tn n al => L [I 6; I r; I t; I tn; enc_opd n; I al]
  | ILoad r t p al => L [I 7; I r; I t; enc_opd p; I al]
  | IStore t v p al => L [I 8; I t; enc_opd v; enc_opd p; I al]
  end.
Definition enc_term (t : iterm) : sx :=
  match t with
  | IRet ty a => L [I 1; I ty; enc_opd a]
  | IRetVoid => L [I 2]
  | IBr d => L [I 3; I d]
  | ICondBr c t e => L [I 4; enc_opd c; I t; I e]
  | IUnreachable => L [I 5]
  end.
Definition enc_inc (i : incoming) : sx := L [enc_kopd (fst i); I (snd i)].
Definition enc_block (b : iblock) : sx :=
  L [ L (map (fun p => L [I (fst (fst p)); I (snd (fst p)); L (map enc_inc (snd p))]) (i_phis b));
      L (map enc_instr (i_body b)); enc_term (i_term b) ].

(* ---------- kernel projection ---------- *)
Definition consts_of (f : dfunc) : list (Z * iopd) :=
  flat_map (fun b => flat_map (fun i => match i with DConst r t c => [(r, IConst t c)] | _ => [] end) (d_body b)) f.
Definition vmf (cs : list (Z * iopd)) (v : Z) : iopd :=
  match vm_get cs v with Ok o => o | Err _ => IVar v end.
Definition kproj (f : dfunc) : kfunc :=
  let cs := consts_of f in
  map (fun b => mkKB (map fst (d_args b))
         (match d_term b with
          | DRet _ v => KRet (vmf cs v)
          | DRetVoid | DUnreachable => KStop
          | DBr d args => KBr d (map (vmf cs) args)
          | DCondBr c t ta e ea => KCondBr (vmf cs c) t (map (vmf cs) ta) e (map (vmf cs) ea)
          end)) f.
Fixpoint incs_eqb (a b : list incoming) : bool :=
  match a, b with
  | [], [] => true
  | (x, p) :: r, (y, q) :: s => kopd_eqb x y && (p =? q) && incs_eqb r s
  | _, _ => false
  end.
(* 1 iff the phi table conv_func built is the one k_build builds for the kernel projection (2 = not compared) *)
Definition kernel_agrees (f : dfunc) : Z :=
  if condbr_same_block_special_case then 2
  else match conv_func f, k_build false (kproj f) (block_order f) with
       | Ok bs, Ok pt =>
           if forallb (fun ib =>
                 let i := fst ib in
                 forallb (fun kp => incs_eqb (snd (snd kp)) (pt_get pt (Z.of_nat i) (Z.of_nat (fst kp))))
                         (combine (seq 0 (List.length (i_phis (snd ib)))) (i_phis (snd ib))))
               (combine (seq 0 (List.length bs)) bs)
           then 1 else 0
       | Err _, Err _ => 1
       | Err _, Ok _ => 2      (* the kernel has no val_map: a KeyError of the full model has no kernel counterpart *)
       | Ok _, Err _ => 0
       end.

(* ---------- conv_func vs the block-wise translation tr_prog of C23/Whole.v (the object of the whole-function
   theorem): same bodies up to the selects the repaired cond_br appends, same terminators, same phi entries where a
   `KSel c a b` entry of the kernel table corresponds to an appended `select c a b` (or to a = b = the entry) ---------- *)
Definition instr_eqb (x y : iinstr) : bool := String.eqb (show (enc_instr x)) (show (enc_instr y)).
Fixpoint instrs_eqb (a b : list iinstr) : bool :=
  match a, b with
  | [], [] => true
  | x :: r, y :: s => instr_eqb x y && instrs_eqb r s
  | _, _ => false
  end.
Definition inc_matches (sels : list iinstr) (t c : incoming) : bool :=
  (snd t =? snd c) &&
  match fst t, fst c with
  | KO a, KO b =>
      iopd_eqb a b ||
      match b with      (* two different constant ops with the same value: the backend still emits a select *)
      | IVar n => existsb (fun i => match i with
                                    | ISelect r _ _ a' b' => (r =? n) && iopd_eqb a' a && iopd_eqb b' a
                                    | _ => false end) sels
      | _ => false
      end
  | KSel cc a b, KO o =>
      (iopd_eqb a o && iopd_eqb b o) ||
      match o with
      | IVar n => existsb (fun i => match i with
                                    | ISelect r _ c' a' b' => (r =? n) && iopd_eqb c' cc && iopd_eqb a' a && iopd_eqb b' b
                                    | _ => false end) sels
      | _ => false
      end
  | _, _ => false
  end.
Fixpoint incs_match (extra : nat -> list iinstr) (t c : list incoming) : bool :=
  match t, c with
  | [], [] => true
  | x :: r, y :: s => inc_matches (extra (Z.to_nat (snd y))) x y && incs_match extra r s
  | _, _ => false
  end.
Definition term_matches (k : kterm) (t : iterm) : bool :=
  match k, t with
  | KRet a, IRet _ b => iopd_eqb a b
  | KStop, IRetVoid | KStop, IUnreachable => true
  | KBr d _, IBr d' => d =? d'
  | KCondBr c tb _ eb _, ICondBr c' tb' eb' => iopd_eqb c c' && (tb =? tb') && (eb =? eb')
  | _, _ => false
  end.
Definition whole_agrees (f : dfunc) : Z :=
  match conv_func f, tr_prog f with
  | Err _, _ => 2
  | Ok _, Err _ => 0
  | Ok bs, Ok T =>
      let extra := fun i => skipn (List.length (nth i (t_bodies T) [])) (i_body (nth i bs (mkIB [] [] IUnreachable))) in
      if Nat.eqb (List.length bs) (List.length (t_k T)) &&
         forallb (fun i =>
            let b := nth i bs (mkIB [] [] IUnreachable) in
            let trb := nth i (t_bodies T) [] in
            instrs_eqb (firstn (List.length trb) (i_body b)) trb &&
            forallb (fun x => match x with ISelect r _ _ _ _ => r <? 0 | _ => false end) (extra i) &&
            term_matches (k_term (nth i (t_k T) kdflt)) (i_term b) &&
            forallb (fun kp => incs_match extra (pt_get (t_pt T) (Z.of_nat i) (Z.of_nat (fst kp))) (snd (snd kp)))
                    (combine (seq 0 (List.length (i_phis b))) (i_phis b)))
           (seq 0 (List.length bs))
      then 1 else 0
  end.

(* the validator ProofsWhole.lit_matchesb of C23_conv_func_validated, evaluated on every generated case *)
Definition lit_flag (f : dfunc) : Z :=
  match conv_func f, tr_prog f with
  | Ok bs, Ok T => if lit_matchesb bs T then 1 else 0
  | _, _ => 2
  end.
(* the validator ProofsLit.lit_okb of C23_conv_func_validated_all (materialised selects allowed) *)
Definition lit_ok_flag (f : dfunc) : Z :=
  match conv_func f, tr_prog f with
  | Ok bs, Ok T => if lit_okb bs T then 1 else 0
  | _, _ => 2
  end.

Definition enc_func (f : dfunc) : sx :=
  match conv_func f with
  | Err e => L [I (-1); I (err_code e)]
  | Ok bs => L [I 0; L (map enc_block bs); I (kernel_agrees f); I (whole_agrees f); sB (whole_okb f); I (lit_flag f); I (lit_ok_flag f)]
  end.

(* ---------- running the two machines of C23/Whole.v on concrete inputs (tie of sem_d / sem_i to LLVM's behaviour
   through the harness's reference evaluator and the JIT) ---------- *)
Definition enc_wout (o : wout) : sx :=
  match o with
  | WRet v => L [I 0; I v] | WHalt => L [I 1] | WPoison => L [I 2] | WStuck => L [I 3] | WFuel => L [I 4]
  end.
Definition enc_runs (f : dfunc) (inputs : list (list Z)) (fuel : nat) : sx :=
  let e0 := fun l => combine (map fst (d_args (nth 0 f ddflt))) l in
  let t := tr_prog f in
  let c := conv_func f in
  L (map (fun l => L [enc_wout (run_src f fuel 0 (e0 l));
                      match t with Ok T => enc_wout (run_tgt T fuel 0 (e0 l)) | Err _ => L [I 5] end;
                      match c with Ok bs => enc_wout (run_lit bs fuel 0 (e0 l)) | Err _ => L [I 5] end]) inputs).
