(* C13/Enc.v -- encoders of the C13 model's results into Base/Show.v `sx`. *)
From Coq Require Import List Arith ZArith Bool.
From XV Require Import Base.Show C24.Model C13.Model.
Import ListNotations.

Fixpoint enc_op (o : op) : sx :=
  L [sN (o_id o);
     L (map (fun r => L (map (fun b => L [sN (b_id b); L (map enc_op (b_ops b))]) r)) (o_regs o))].
Definition enc_block (b : block) : sx := L [sN (b_id b); L (map enc_op (b_ops b))].
Definition enc_region (r : region) : sx := L (map enc_block r).

Definition oof : sx := I (-3)%Z.

(* per-operation queries on the input program, in walk order *)
Definition enc_effects (o : op) : sx :=
  match get_effects o with
  | None => I (-1)%Z
  | Some _ => L [sB (has_effects o ERead); sB (has_effects o EWrite);
                 sB (has_effects o (EAlloc None)); sB (has_effects o EFree)]
  end.
Definition enc_preds (all : list op) (o : op) : sx :=
  L [sN (o_id o); enc_effects o; sB (only_has_effect o ERead); sB (is_side_effect_free o);
     sB (result_only_effects o); sB (would_be_trivially_dead o); sB (is_trivially_dead all o)].

(* mode 0: region_dce (= the dce pass) with its returned flag; 1: region_dce iterated until it
   reports no change; 2: trivially-dead removal of the greedy driver; 3: DeadCodeElimination.apply as it
   is in the tree (since fix 12db68a: region_dce iterated until it reports no change = dce_pass_iter;
   before the fix it was one run, `dce_pass`, kept for the recorded refutation) *)
Definition enc_result (mode : nat) (r : region) : sx :=
  match mode with
  | 0 => match region_dce r with None => oof | Some (r', ch) => L [sB ch; enc_region r'] end
  | 1 => match dce_pass_iter r with None => oof | Some r' => L [enc_region r'] end
  | 2 => match greedy_dce r with None => oof | Some r' => L [enc_region r'] end
  | _ => match dce_pass_iter r with None => oof | Some r' => L [enc_region r'] end
  end.

Definition c13_case (mode : nat) (r : region) : sx :=
  let all := walk_region r in
  L [L (map (enc_preds all) all); enc_result mode r].

(* ------------------------------------------------------------------ *)
(* Case files give programs with binary (Z) ids: unary `nat` literals make coqc spend its time
   elaborating numerals.  `conv_*` is the obvious structure-preserving map into the model's types. *)
Inductive reffect := RRead | RWrite | RFree | RAlloc (tgt : option Z).
Inductive rop : Type :=
  ROp (id : Z) (res args succs : list Z) (regs : list (list rblock))
      (term sym : bool) (eff : option (list reffect)) (rec : bool)
with rblock : Type := RBlk (id : Z) (args : list Z) (ops : list rop).

Definition conv_eff (e : reffect) : effect :=
  match e with
  | RRead => ERead | RWrite => EWrite | RFree => EFree
  | RAlloc t => EAlloc (option_map Z.to_nat t)
  end.
Fixpoint conv_op (o : rop) : op :=
  match o with
  | ROp i res args succs regs term sym eff rec =>
      Op (Z.to_nat i) (map Z.to_nat res) (map Z.to_nat args) (map Z.to_nat succs)
         (map (map (fun b => match b with
                             | RBlk bi ba bo => Blk (Z.to_nat bi) (map Z.to_nat ba) (map conv_op bo)
                             end)) regs)
         term sym (option_map (map conv_eff) eff) rec
  end.
Definition conv_block (b : rblock) : block :=
  match b with RBlk bi ba bo => Blk (Z.to_nat bi) (map Z.to_nat ba) (map conv_op bo) end.
Definition conv_region (r : list rblock) : region := map conv_block r.
Definition c13_caseZ (mode : Z) (r : list rblock) : sx := c13_case (Z.to_nat mode) (conv_region r).
