(* C13/Model.v -- executable model of xdsl/transforms/dead_code_elimination.py
   (would_be_trivially_dead, is_trivially_dead, result_only_effects, LiveSet.propagate_*,
   the `while changed` loop, delete_dead, region_dce, the DeadCodeElimination pass, and the
   trivially-dead removal of the greedy driver) and of the effect queries of xdsl/traits.py
   (get_effects incl. RecursiveMemoryEffect, only_has_effect, is_side_effect_free).
   Definitions only.  The post-order iterator is the one of C24/Model.v.

   Program representation (self-contained, no heap):
     region = list of blocks (head = entry block), block = {id; args; ops},
     op = {id; results; operands; successors; regions; IsTerminator?; SymbolOpInterface?;
           static effects; RecursiveMemoryEffect?}.
   Object identity = `nat` ids (ops, blocks, SSA values live in three separate id spaces).
   `result.uses` is recomputed from the operand lists of every operation of the whole program
   (`all`, the list `walk_region root`), exactly the invariant the IR maintains (C01). *)
From Coq Require Import List Arith Bool.
From XV Require Import C24.Model.
Import ListNotations.

(* EffectInstance(kind, value): only ALLOC looks at the value; `Some v` = an SSA value id,
   `None` = no value / a symbol reference *)
Inductive effect := ERead | EWrite | EFree | EAlloc (tgt : option nat).

Inductive op : Type := Op {
  o_id : nat;
  o_res : list nat;              (* result value ids *)
  o_args : list nat;             (* operand value ids *)
  o_succs : list nat;            (* successor block ids *)
  o_regs : list (list block);    (* nested regions *)
  o_term : bool;                 (* has_trait(IsTerminator) *)
  o_sym : bool;                  (* has_trait(SymbolOpInterface) *)
  o_eff : option (list effect);  (* union of the static MemoryEffect traits; None = no such trait *)
  o_rec : bool }                 (* has RecursiveMemoryEffect *)
with block : Type := Blk { b_id : nat; b_args : list nat; b_ops : list op }.
Definition region := list block.

Definition set_regs (o : op) (rs : list region) : op :=
  Op (o_id o) (o_res o) (o_args o) (o_succs o) rs (o_term o) (o_sym o) (o_eff o) (o_rec o).

(* Operation.walk(): the op, then everything nested, in order *)
Fixpoint walk_op (o : op) : list op :=
  o :: flat_map (fun r => flat_map (fun b => flat_map walk_op (b_ops b)) r) (o_regs o).
Definition walk_block (b : block) : list op := flat_map walk_op (b_ops b).
Definition walk_region (r : region) : list op := flat_map walk_block r.

(* ------------------------------------------------------------------ *)
(* traits.py: effects *)

(* rootOp.is_ancestor(v.owner): v is a result of o, or a result / block argument nested in o *)
Fixpoint defined_in (o : op) (v : nat) : bool :=
  memb v (o_res o)
  || existsb (fun r => existsb (fun b => memb v (b_args b) || existsb (fun x => defined_in x v) (b_ops b)) r)
       (o_regs o).

Definition opt_app (a b : option (list effect)) : option (list effect) :=
  match a, b with Some x, Some y => Some (x ++ y) | _, _ => None end.

(* get_effects(op): None = unknown.  No MemoryEffect trait at all -> None; a static trait
   contributes its set; RecursiveMemoryEffect contributes the effects of all directly nested
   operations (all blocks, reachable or not) and None as soon as one of them is unknown. *)
Fixpoint get_effects (o : op) : option (list effect) :=
  if o_rec o then
    opt_app (Some (match o_eff o with Some e => e | None => [] end))
      (fold_right (fun r acc =>
         fold_right (fun b acc => fold_right (fun x acc => opt_app (get_effects x) acc) acc (b_ops b)) acc r)
         (Some []) (o_regs o))
  else o_eff o.

Definition kind_eqb (a b : effect) : bool :=
  match a, b with
  | ERead, ERead | EWrite, EWrite | EFree, EFree | EAlloc _, EAlloc _ => true
  | _, _ => false
  end.
Definition only_has_effect (o : op) (k : effect) : bool :=
  match get_effects o with None => false | Some es => forallb (fun e => kind_eqb e k) es end.
Definition has_effects (o : op) (k : effect) : bool :=
  match get_effects o with None => false | Some es => existsb (fun e => kind_eqb e k) es end.
Definition is_side_effect_free (o : op) : bool :=
  match get_effects o with None => false | Some es => match es with [] => true | _ => false end end.

(* ------------------------------------------------------------------ *)
(* dead_code_elimination.py: the three predicates *)

Definition harmless (root : op) (e : effect) : bool :=
  match e with
  | ERead => true
  | EAlloc (Some v) => defined_in root v
  | _ => false
  end.
Definition result_only_effects (root : op) : bool :=
  match get_effects root with None => false | Some es => forallb (harmless root) es end.
Definition would_be_trivially_dead (o : op) : bool :=
  negb (o_term o) && negb (o_sym o) && result_only_effects o.

(* value.uses, as the list of using operations, over the whole program `all` *)
Definition users (all : list op) (v : nat) : list op := filter (fun u => memb v (o_args u)) all.
Definition unused (all : list op) (v : nat) : bool :=
  match users all v with [] => true | _ => false end.
Definition is_trivially_dead (all : list op) (o : op) : bool :=
  forallb (unused all) (o_res o) && would_be_trivially_dead o.

(* ------------------------------------------------------------------ *)
(* LiveSet *)

Record lstate := LS { ls_live : list nat; ls_changed : bool; ls_err : bool }.
(* ls_err: the post-order iterator model ran out of fuel (proved impossible) *)
Definition is_live (st : lstate) (o : op) : bool := memb (o_id o) (ls_live st).
Definition set_live (st : lstate) (o : op) : lstate :=
  if is_live st o then st else LS (o_id o :: ls_live st) true (ls_err st).

(* CFG of a region for PostOrderIterator: successors of the last op if it is a terminator,
   as block indices (an id that is not a block of this region maps to `length r`) *)
Fixpoint index_of (x : nat) (l : list nat) : nat :=
  match l with [] => 0 | y :: r => if Nat.eqb x y then 0 else S (index_of x r) end.
Definition last_op (b : block) : option op := last (map Some (b_ops b)) None.
Definition term_succs (b : block) : list nat :=
  match last_op b with Some t => if o_term t then o_succs t else [] | None => [] end.
Definition cfg_of (r : region) : cfg :=
  map (fun b => map (fun s => index_of s (map b_id r)) (term_succs b)) r.

(* propagate_region_liveness on the per-block state transformers `fs` *)
Definition run_region (fs : list (lstate -> lstate)) (g : cfg) (st : lstate) : lstate :=
  match fs with
  | [] => st                                  (* first_block is None: return *)
  | _ =>
      match post_order g with
      | None => LS (ls_live st) (ls_changed st) true
      | Some po => fold_left (fun s bi => nth bi fs (fun s' => s') s) po st
      end
  end.

(* propagate_op_liveness after the recursion into the regions *)
Definition op_step (all : list op) (o : op) (st : lstate) : lstate :=
  if is_live st o then st
  else if negb (would_be_trivially_dead o) then set_live st o
  else if existsb (fun v => existsb (is_live st) (users all v)) (o_res o) then set_live st o
  else st.

(* `for operation in reversed(block.ops)` = fold_right: the last op is processed first *)
Fixpoint prop_op (all : list op) (o : op) (st : lstate) : lstate :=
  op_step all o
    (fold_left (fun s r => run_region (map (fun b s' => fold_right (prop_op all) s' (b_ops b)) r) (cfg_of r) s)
       (o_regs o) st).
Definition prop_block (all : list op) (b : block) (st : lstate) : lstate :=
  fold_right (prop_op all) st (b_ops b).
Definition prop_region (all : list op) (r : region) (st : lstate) : lstate :=
  run_region (map (prop_block all) r) (cfg_of r) st.

(* while live_set.changed: changed = False; propagate_region_liveness(region) *)
Fixpoint live_loop (fuel : nat) (all : list op) (r : region) (st : lstate) : option lstate :=
  match fuel with
  | O => None
  | S f =>
      if ls_changed st
      then live_loop f all r (prop_region all r (LS (ls_live st) false (ls_err st)))
      else Some st
  end.
Definition live_fuel (all : list op) : nat := S (S (length all)).
Definition liveness (r : region) : option lstate :=
  live_loop (live_fuel (walk_region r)) (walk_region r) r (LS [] true false).

(* ------------------------------------------------------------------ *)
(* delete_dead: L = the final is_live.  The result region, and the `changed` flag. *)

Definition has_live (L : nat -> bool) (b : block) : bool := existsb (fun o => L (o_id o)) (b_ops b).

Fixpoint dd_op (L : nat -> bool) (o : op) : op :=
  set_regs o
    (map (fun r =>
       match r with
       | [] => []
       | first :: rest =>
           Blk (b_id first) (b_args first)
               (flat_map (fun x => if L (o_id x) then [dd_op L x] else []) (b_ops first))
           :: flat_map (fun b =>
                if has_live L b
                then [Blk (b_id b) (b_args b)
                          (flat_map (fun x => if L (o_id x) then [dd_op L x] else []) (b_ops b))]
                else []) rest
       end) (o_regs o)).
Definition dd_block (L : nat -> bool) (b : block) : block :=
  Blk (b_id b) (b_args b) (flat_map (fun x => if L (o_id x) then [dd_op L x] else []) (b_ops b)).
Definition dd_region (L : nat -> bool) (r : region) : region :=
  match r with
  | [] => []
  | first :: rest => dd_block L first :: flat_map (fun b => if has_live L b then [dd_block L b] else []) rest
  end.

(* self.changed after delete_dead (it is False when delete_dead starts) *)
Fixpoint ddc_op (L : nat -> bool) (o : op) : bool :=
  existsb (fun r =>
    match r with
    | [] => false
    | first :: rest =>
        existsb (fun x => negb (L (o_id x)) || ddc_op L x) (b_ops first)
        || existsb (fun b => negb (has_live L b)
                             || existsb (fun x => negb (L (o_id x)) || ddc_op L x) (b_ops b)) rest
    end) (o_regs o).
Definition ddc_block (L : nat -> bool) (b : block) : bool :=
  existsb (fun x => negb (L (o_id x)) || ddc_op L x) (b_ops b).
Definition ddc_region (L : nat -> bool) (r : region) : bool :=
  match r with
  | [] => false
  | first :: rest => ddc_block L first || existsb (fun b => negb (has_live L b) || ddc_block L b) rest
  end.

(* region_dce(region): (region afterwards, returned `changed`); None = fuel exhausted *)
Definition region_dce (r : region) : option (region * bool) :=
  match liveness r with
  | None => None
  | Some st =>
      if ls_err st then None
      else let L := fun i => memb i (ls_live st) in Some (dd_region L r, ddc_region L r)
  end.

(* DeadCodeElimination.apply: region_dce(op.body), once *)
Definition dce_pass (r : region) : option region :=
  match region_dce r with None => None | Some (r', _) => Some r' end.

(* the proposed repair: `while region_dce(op.body): pass` *)
Fixpoint dce_iter (fuel : nat) (r : region) : option region :=
  match fuel with
  | O => None
  | S f =>
      match region_dce r with
      | None => None
      | Some (r', ch) => if ch then dce_iter f r' else Some r'
      end
  end.
(* fuel: number of operations and blocks (every run that reports a change deletes one of them) *)
Fixpoint msz_op (o : op) : nat :=
  S (list_sum (map (fun r => list_sum (map (fun b => S (list_sum (map msz_op (b_ops b)))) r)) (o_regs o))).
Definition msz_block (b : block) : nat := S (list_sum (map msz_op (b_ops b))).
Definition msz_region (r : region) : nat := list_sum (map msz_block r).
Definition dce_pass_iter (r : region) : option region := dce_iter (S (msz_region r)) r.

(* ------------------------------------------------------------------ *)
(* Trivially-dead removal of the greedy driver (RemoveUnusedOperations /
   GreedyRewritePatternApplier(dce_enabled) under PatternRewriteWalker(apply_recursively)):
   the driver erases trivially dead operations until a whole pass over the IR finds none.
   The order in which the worklist reaches them does not influence the final IR; the model
   erases, per round, every operation that is trivially dead at the start of the round. *)
Fixpoint gd_op (all : list op) (o : op) : op :=
  set_regs o
    (map (map (fun b => Blk (b_id b) (b_args b)
                 (flat_map (fun x => if is_trivially_dead all x then [] else [gd_op all x]) (b_ops b))))
       (o_regs o)).
Definition gd_block (all : list op) (b : block) : block :=
  Blk (b_id b) (b_args b) (flat_map (fun x => if is_trivially_dead all x then [] else [gd_op all x]) (b_ops b)).
Definition gd_region (all : list op) (r : region) : region := map (gd_block all) r.
Fixpoint gd_iter (fuel : nat) (r : region) : option region :=
  match fuel with
  | O => None
  | S f =>
      let all := walk_region r in
      if existsb (is_trivially_dead all) all then gd_iter f (gd_region all r) else Some r
  end.
Definition greedy_dce (r : region) : option region := gd_iter (S (length (walk_region r))) r.
