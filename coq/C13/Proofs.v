(* C13/Proofs.v -- proofs about the model of region_dce (C13/Model.v). *)
From Coq Require Import List Arith Bool Lia Permutation.
From XV Require Import C24.Model C24.ProofsPO C13.Model.
Import ListNotations.

(* ------------------------------------------------------------------ *)
(* induction principle for the nested/mutual op type *)
Section OpInd.
  Variable P : op -> Prop.
  Hypothesis H : forall o,
    (forall r b x, In r (o_regs o) -> In b r -> In x (b_ops b) -> P x) -> P o.
  Fixpoint op_ind2 (o : op) : P o.
  Proof.
    apply H. destruct o as [i res args succs regs t s e rc]. simpl.
    induction regs as [|r regs IHregs]; intros r0 b x Hr Hb Hx; [destruct Hr|].
    destruct Hr as [<-|Hr]; [|eapply IHregs; eauto].
    clear IHregs. induction r as [|b0 r IHr]; [destruct Hb|].
    destruct Hb as [<-|Hb]; [|eapply IHr; eauto].
    clear IHr. destruct b0 as [bi ba bo]. simpl in Hx.
    induction bo as [|x0 bo IHbo]; [destruct Hx|].
    destruct Hx as [<-|Hx]; [apply op_ind2 | eapply IHbo; eauto].
  Qed.
End OpInd.

(* ------------------------------------------------------------------ *)
(* generic list facts *)
Lemma nth_map_error {A B} (f : A -> B) (l : list A) (i : nat) (d : B) :
  nth i (map f l) d = match nth_error l i with Some a => f a | None => d end.
Proof.
  revert i. induction l as [|a l IH]; intros [|i]; simpl; auto.
Qed.

Lemma fold_left_flat_map {A B S} (step : S -> B -> S) (f : A -> list B) (l : list A) (s : S) :
  fold_left step (flat_map f l) s = fold_left (fun s a => fold_left step (f a) s) l s.
Proof.
  revert s. induction l as [|a l IH]; intros s; simpl; auto.
  rewrite fold_left_app. apply IH.
Qed.

Lemma fold_left_ext_in {A S} (f g : S -> A -> S) (l : list A) :
  (forall a s, In a l -> f s a = g s a) -> forall s, fold_left f l s = fold_left g l s.
Proof.
  induction l as [|a l IH]; intros Hfg s; simpl; auto.
  rewrite Hfg by (left; reflexivity). apply IH. intros; apply Hfg; right; assumption.
Qed.

(* ------------------------------------------------------------------ *)
(* The order in which propagate_op_liveness reaches the operations does not depend on the
   live set: `trav_*` is that order, and a pass is a fold of `op_step` over it. *)
Definition trav_aux (ts : list (list op)) (g : cfg) : list op :=
  match ts with
  | [] => []
  | _ => match post_order g with None => [] | Some po => flat_map (fun bi => nth bi ts []) po end
  end.
Fixpoint trav_op (o : op) : list op :=
  flat_map (fun r => trav_aux (map (fun b => fold_right (fun x acc => acc ++ trav_op x) [] (b_ops b)) r) (cfg_of r))
    (o_regs o) ++ [o].
Definition trav_block (b : block) : list op := fold_right (fun x acc => acc ++ trav_op x) [] (b_ops b).
Definition trav_region (r : region) : list op := trav_aux (map trav_block r) (cfg_of r).

Lemma trav_op_eq o : trav_op o = flat_map trav_region (o_regs o) ++ [o].
Proof. destruct o; reflexivity. Qed.

Lemma prop_op_eq all o st :
  prop_op all o st = op_step all o (fold_left (fun s r => prop_region all r s) (o_regs o) st).
Proof. destruct o; reflexivity. Qed.

Section Trav.
  Variable all : list op.
  Let step := fun s o => op_step all o s.

  Lemma trav_block_fold b s :
    (forall x, In x (b_ops b) -> forall s, prop_op all x s = fold_left step (trav_op x) s) ->
    prop_block all b s = fold_left step (trav_block b) s.
  Proof.
    unfold prop_block, trav_block. revert s.
    induction (b_ops b) as [|x l IH]; intros s Hx; simpl; auto.
    rewrite fold_left_app. rewrite <- IH by (intros; apply Hx; right; assumption).
    apply Hx. left; reflexivity.
  Qed.

  Lemma trav_region_fold r s :
    (forall b x, In b r -> In x (b_ops b) -> forall s, prop_op all x s = fold_left step (trav_op x) s) ->
    prop_region all r s = fold_left step (trav_region r) s.
  Proof.
    intros Hx. unfold prop_region, trav_region, run_region, trav_aux.
    destruct r as [|b0 r0]; [reflexivity|].
    remember (b0 :: r0) as r eqn:Er.
    assert (Hne : map (prop_block all) r <> [] /\ map trav_block r <> []) by (subst r; split; discriminate).
    destruct (map (prop_block all) r) as [|f0 fs] eqn:Ef; [destruct Hne as [Hn _]; contradiction|].
    destruct (map trav_block r) as [|t0 ts] eqn:Et; [destruct Hne as [_ Hn]; contradiction|].
    rewrite <- Ef, <- Et. clear Ef Et f0 fs t0 ts Hne.
    destruct (post_order_terminates (cfg_of r)) as [po Epo]. rewrite Epo.
    clear Epo. revert s. induction po as [|bi po IH]; intros s; simpl; auto.
    rewrite fold_left_app, <- IH. f_equal.
    rewrite !nth_map_error. destruct (nth_error r bi) as [b|] eqn:Eb; [|reflexivity].
    apply trav_block_fold. intros x Hin. apply (Hx b x); auto. eapply nth_error_In; eauto.
  Qed.

  Lemma trav_op_fold o : forall s, prop_op all o s = fold_left step (trav_op o) s.
  Proof.
    induction o as [o IH] using op_ind2. intros s.
    rewrite prop_op_eq, trav_op_eq, fold_left_app. simpl. unfold step at 1. f_equal.
    rewrite fold_left_flat_map.
    apply fold_left_ext_in. intros r s' Hr. apply trav_region_fold.
    intros b x Hb Hx. apply (IH r b x); assumption.
  Qed.

  Theorem prop_region_trav r s : prop_region all r s = fold_left step (trav_region r) s.
  Proof. apply trav_region_fold. intros b x _ _. apply trav_op_fold. Qed.
End Trav.

(* ------------------------------------------------------------------ *)
(* one op_step *)
Definition ids (l : list op) : list nat := map o_id l.
Definition uses (u o : op) : Prop := exists v, In v (o_res o) /\ In v (o_args u).
Definition lives (L : list nat) (o : op) : bool := memb (o_id o) L.
(* some user (anywhere in the program) of a result of o is in L *)
Definition has_live_user (all : list op) (L : list nat) (o : op) : Prop :=
  exists u, In u all /\ uses u o /\ lives L u = true.

Lemma users_In all v u : In u (users all v) <-> In u all /\ In v (o_args u).
Proof. unfold users. rewrite filter_In, memb_In. tauto. Qed.

Lemma live_user_spec all L o :
  existsb (fun v => existsb (fun u => memb (o_id u) L) (users all v)) (o_res o) = true
  <-> has_live_user all L o.
Proof.
  rewrite existsb_exists. split.
  - intros (v & Hv & Hex). apply existsb_exists in Hex. destruct Hex as (u & Hu & Hl).
    apply users_In in Hu. exists u. split; [tauto|]. split; [exists v; tauto | exact Hl].
  - intros (u & Hu & (v & Hv & Ha) & Hl). exists v. split; [exact Hv|].
    apply existsb_exists. exists u. split; [apply users_In; tauto | exact Hl].
Qed.

Lemma op_step_cases all o s :
  (op_step all o s = s /\
   (lives (ls_live s) o = true \/
    (would_be_trivially_dead o = true /\ ~ has_live_user all (ls_live s) o)))
  \/ (op_step all o s = LS (o_id o :: ls_live s) true (ls_err s) /\
      lives (ls_live s) o = false /\
      (would_be_trivially_dead o = false \/ has_live_user all (ls_live s) o)).
Proof.
  unfold op_step, set_live, is_live, lives.
  destruct (memb (o_id o) (ls_live s)) eqn:El; [left; auto|].
  destruct (would_be_trivially_dead o) eqn:Ew; simpl.
  - destruct (existsb _ (o_res o)) eqn:Ex.
    + right. repeat split; auto. right. apply live_user_spec. exact Ex.
    + left. split; auto. right. split; auto. intros Hu. apply live_user_spec in Hu.
      unfold is_live in Ex. rewrite Hu in Ex. discriminate.
  - right. auto.
Qed.

(* ------------------------------------------------------------------ *)
(* the fixed-point loop over a traversal order T *)
Section Fix.
  Variable all T : list op.
  Hypothesis T_all : incl T all.
  Let step := fun s o => op_step all o s.

  Definition closed_at (L : list nat) (o : op) : Prop :=
    lives L o = true \/ (would_be_trivially_dead o = true /\ ~ has_live_user all L o).

  (* justification of a member of the live set *)
  Definition justified (L : list nat) (i : nat) : Prop :=
    exists o, In o T /\ o_id o = i /\ (would_be_trivially_dead o = false \/ has_live_user all L o).

  Record good (s : lstate) : Prop := {
    g_nodup : NoDup (ls_live s);
    g_incl : incl (ls_live s) (ids all);
    g_just : forall i, In i (ls_live s) -> justified (ls_live s) i }.

  Lemma has_live_user_mono L L' o : incl L L' -> has_live_user all L o -> has_live_user all L' o.
  Proof.
    intros Hi (u & Hu & Hus & Hl). exists u. repeat split; auto.
    unfold lives in *. apply memb_In. apply Hi. apply memb_In. exact Hl.
  Qed.

  Lemma justified_mono L L' i : incl L L' -> justified L i -> justified L' i.
  Proof.
    intros Hi (o & Ho & Eo & [Hw|Hu]); exists o; repeat split; auto.
    right. eapply has_live_user_mono; eauto.
  Qed.

  Lemma step_good o s : In o T -> good s -> good (step s o).
  Proof.
    intros Ho [Hn Hi Hj]. unfold step.
    destruct (op_step_cases all o s) as [[E _]|[E [Hnl Hwhy]]]; rewrite E; [constructor; auto|].
    constructor; simpl.
    - constructor; [|exact Hn]. intros Hin. apply memb_In in Hin. unfold lives in Hnl. congruence.
    - intros i [<-|Hin]; [|apply Hi; exact Hin]. apply in_map. apply T_all. exact Ho.
    - intros i [<-|Hin].
      + exists o. repeat split; auto. destruct Hwhy as [Hw|Hu]; [left; exact Hw|right].
        eapply has_live_user_mono; [|exact Hu]. intros x Hx; right; exact Hx.
      + eapply justified_mono; [|apply Hj; exact Hin]. intros x Hx; right; exact Hx.
  Qed.

  Lemma fold_good l s : incl l T -> good s -> good (fold_left step l s).
  Proof.
    revert s. induction l as [|o l IH]; intros s Hl Hg; simpl; auto.
    apply IH; [intros x Hx; apply Hl; right; exact Hx|].
    apply step_good; auto. apply Hl. left; reflexivity.
  Qed.

  (* monotonicity / change tracking *)
  Lemma step_mono o s :
    ls_err (step s o) = ls_err s /\
    (exists l, ls_live (step s o) = l ++ ls_live s /\
               (ls_changed (step s o) = ls_changed s /\ l = [] \/ ls_changed (step s o) = true /\ l <> [])).
  Proof.
    unfold step. destruct (op_step_cases all o s) as [[E _]|[E _]]; rewrite E; simpl.
    - split; auto. exists []. split; auto.
    - split; auto. exists [o_id o]. split; auto. right. split; auto. discriminate.
  Qed.

  Lemma fold_mono l s :
    ls_err (fold_left step l s) = ls_err s /\
    (exists l', ls_live (fold_left step l s) = l' ++ ls_live s /\
       (ls_changed (fold_left step l s) = ls_changed s /\ l' = [] \/
        ls_changed (fold_left step l s) = true /\ l' <> [])).
  Proof.
    revert s. induction l as [|o l IH]; intros s; simpl.
    - split; auto. exists []. auto.
    - destruct (IH (step s o)) as [He (l2 & E2 & H2)].
      destruct (step_mono o s) as [He1 (l1 & E1 & H1)].
      split; [congruence|]. exists (l2 ++ l1). split; [rewrite E2, E1, app_assoc; reflexivity|].
      destruct H2 as [[Hc2 ->]|[Hc2 Hn2]].
      + destruct H1 as [[Hc1 ->]|[Hc1 Hn1]]; [left; split; [congruence|reflexivity]|].
        right. split; [congruence|]. simpl. exact Hn1.
      + right. split; auto. destruct l2; [contradiction|discriminate].
  Qed.

  (* a pass that reports no change leaves every traversed op closed *)
  Lemma fold_steady l s :
    ls_changed (fold_left step l s) = false ->
    ls_live (fold_left step l s) = ls_live s /\ forall o, In o l -> closed_at (ls_live s) o.
  Proof.
    revert s. induction l as [|o l IH]; intros s Hc; simpl in *; [split; [reflexivity|intros ? []]|].
    destruct (IH _ Hc) as [El Hcl].
    destruct (fold_mono l (step s o)) as [_ (l2 & E2 & H2)].
    destruct H2 as [[Hc2 ->]|[Hc2 _]]; [|congruence].
    rewrite Hc in Hc2. symmetry in Hc2.
    assert (Es : step s o = op_step all o s) by reflexivity.
    destruct (op_step_cases all o s) as [[E Hwhy]|[E _]]; rewrite E in Es; rewrite Es in *;
      [|simpl in Hc2; discriminate].
    split; [exact El|]. intros x [<-|Hx]; [exact Hwhy|apply Hcl; exact Hx].
  Qed.

  Definition pass (s : lstate) : lstate := fold_left step T (LS (ls_live s) false (ls_err s)).

  Lemma good_reset s : good s -> good (LS (ls_live s) false (ls_err s)).
  Proof. intros [a b c]. constructor; simpl; auto. Qed.

  Lemma good_length s : good s -> length (ls_live s) <= length all.
  Proof.
    intros [Hn Hi _]. unfold ids in Hi. rewrite <- (map_length o_id all).
    apply NoDup_incl_length; assumption.
  Qed.

  Fixpoint loop (fuel : nat) (s : lstate) : option lstate :=
    match fuel with
    | O => None
    | S f => if ls_changed s then loop f (pass s) else Some s
    end.

  (* final state of the `while changed` loop *)
  Record final (s : lstate) : Prop := {
    f_good : good s;
    f_closed : forall o, In o T -> closed_at (ls_live s) o }.

  Lemma loop_terminates fuel s :
    good s -> (ls_changed s = false -> forall o, In o T -> closed_at (ls_live s) o) ->
    length all - length (ls_live s) + 2 <= fuel ->
    exists s', loop fuel s = Some s' /\ final s' /\ ls_err s' = ls_err s.
  Proof.
    revert s. induction fuel as [|f IH]; intros s Hg Hcl Hf; [lia|]. simpl.
    destruct (ls_changed s) eqn:Ec.
    - assert (Hgp : good (pass s)) by (apply fold_good; [apply incl_refl|apply good_reset; exact Hg]).
      destruct (fold_mono T (LS (ls_live s) false (ls_err s))) as [He (l' & El & Hch)].
      fold (pass s) in He, El, Hch. simpl in He, El, Hch.
      destruct Hch as [[Hc ->]|[Hc Hn]].
      + (* nothing changed: next iteration stops *)
        destruct f as [|f']; [lia|]. simpl. rewrite Hc. exists (pass s). split; [reflexivity|].
        split; [|exact He]. constructor; [exact Hgp|].
        destruct (fold_steady T (LS (ls_live s) false (ls_err s))) as [E Hall]; [exact Hc|].
        simpl in E, Hall. fold (pass s) in E. rewrite E. exact Hall.
      + destruct (IH (pass s)) as (s' & E' & Hfin & He'); auto.
        * intros Hcf. congruence.
        * pose proof (good_length _ Hgp) as Hlen. rewrite El in *. rewrite app_length in *.
          destruct l'; [contradiction|]. simpl in *. lia.
        * exists s'. repeat split; auto; try apply Hfin. congruence.
    - exists s. split; [reflexivity|]. split; [|reflexivity]. constructor; auto.
  Qed.
End Fix.

(* ------------------------------------------------------------------ *)
(* Spec: which operations propagate_region_liveness reaches *)
Inductive visited_r : region -> op -> Prop :=
| vis_r r bi b o x :
    reach (cfg_of r) bi -> nth_error r bi = Some b -> In o (b_ops b) -> visited_o o x -> visited_r r x
with visited_o : op -> op -> Prop :=
| vis_self o : visited_o o o
| vis_sub o rg x : In rg (o_regs o) -> visited_r rg x -> visited_o o x.

Lemma in_trav_block b x : In x (trav_block b) <-> exists y, In y (b_ops b) /\ In x (trav_op y).
Proof.
  unfold trav_block. induction (b_ops b) as [|y l IH]; simpl.
  - split; [intros []|intros (y & [] & _)].
  - rewrite in_app_iff, IH. split.
    + intros [(z & Hz & Hx)|Hx]; [exists z; auto|exists y; auto].
    + intros (z & [<-|Hz] & Hx); [right; exact Hx|left; exists z; auto].
Qed.

Lemma in_trav_region r x :
  In x (trav_region r) <->
  exists bi b, reach (cfg_of r) bi /\ nth_error r bi = Some b /\ In x (trav_block b).
Proof.
  unfold trav_region, trav_aux.
  destruct (post_order_terminates (cfg_of r)) as [po Epo].
  destruct (post_order_spec_general _ _ Epo) as (_ & Hpo & _).
  destruct (map trav_block r) as [|t0 ts] eqn:Em.
  - destruct r; [|discriminate]. split; [intros []|]. intros (bi & b & _ & Hn & _). destruct bi; discriminate.
  - rewrite <- Em, Epo. rewrite in_flat_map. split.
    + intros (bi & Hbi & Hx). rewrite nth_map_error in Hx.
      destruct (nth_error r bi) as [b|] eqn:Eb; [|destruct Hx].
      exists bi, b. split; [apply Hpo; exact Hbi|auto].
    + intros (bi & b & Hr & Hn & Hx). exists bi. split; [apply Hpo; exact Hr|].
      rewrite nth_map_error, Hn. exact Hx.
Qed.

Lemma in_trav_op_iff o : forall x, In x (trav_op o) <-> visited_o o x.
Proof.
  induction o as [o IH] using op_ind2. intros x.
  rewrite trav_op_eq, in_app_iff, in_flat_map. split.
  - intros [(rg & Hrg & Hx)|[<-|[]]]; [|apply vis_self].
    apply in_trav_region in Hx. destruct Hx as (bi & b & Hr & Hn & Hx).
    apply in_trav_block in Hx. destruct Hx as (y & Hy & Hx).
    apply (vis_sub o rg x Hrg). apply (vis_r rg bi b y x Hr Hn Hy).
    apply (IH rg b y Hrg (nth_error_In _ _ Hn) Hy). exact Hx.
  - intros Hv. inversion Hv as [|o' rg x' Hrg Hvr]; subst; [right; left; reflexivity|].
    left. exists rg. split; [exact Hrg|].
    inversion Hvr as [r bi b y x' Hr Hn Hy Hvo]; subst.
    apply in_trav_region. exists bi, b. repeat split; auto.
    apply in_trav_block. exists y. split; [exact Hy|].
    apply (IH rg b y Hrg (nth_error_In _ _ Hn) Hy). exact Hvo.
Qed.

Theorem in_trav_region_iff r x : In x (trav_region r) <-> visited_r r x.
Proof.
  rewrite in_trav_region. split.
  - intros (bi & b & Hr & Hn & Hx). apply in_trav_block in Hx. destruct Hx as (y & Hy & Hx).
    apply (vis_r r bi b y x Hr Hn Hy). apply in_trav_op_iff. exact Hx.
  - intros Hv. inversion Hv as [r' bi b y x' Hr Hn Hy Hvo]; subst.
    exists bi, b. repeat split; auto. apply in_trav_block. exists y. split; auto.
    apply in_trav_op_iff. exact Hvo.
Qed.

(* walk facts *)
Lemma walk_op_eq o : walk_op o = o :: flat_map walk_region (o_regs o).
Proof. destruct o; reflexivity. Qed.

Lemma in_walk_region r x :
  In x (walk_region r) <-> exists b y, In b r /\ In y (b_ops b) /\ In x (walk_op y).
Proof.
  unfold walk_region, walk_block. rewrite in_flat_map. split.
  - intros (b & Hb & Hx). apply in_flat_map in Hx. destruct Hx as (y & Hy & Hx). exists b, y. auto.
  - intros (b & y & Hb & Hy & Hx). exists b. split; auto. apply in_flat_map. exists y. auto.
Qed.

Lemma in_walk_op o x :
  In x (walk_op o) <-> x = o \/ exists rg, In rg (o_regs o) /\ In x (walk_region rg).
Proof.
  rewrite walk_op_eq. simpl. rewrite in_flat_map. split; intros [H|H]; auto.
Qed.

Lemma visited_o_walk o : forall x, visited_o o x -> In x (walk_op o).
Proof.
  induction o as [o IH] using op_ind2. intros x Hv. apply in_walk_op.
  inversion Hv as [|o' rg x' Hrg Hvr]; subst; [left; reflexivity|]. right. exists rg. split; auto.
  inversion Hvr as [r bi b y x' Hr Hn Hy Hvo]; subst.
  apply in_walk_region. exists b, y. repeat split; auto; [eapply nth_error_In; eauto|].
  apply (IH rg b y Hrg (nth_error_In _ _ Hn) Hy). exact Hvo.
Qed.

Lemma visited_r_walk r x : visited_r r x -> In x (walk_region r).
Proof.
  intros Hv. inversion Hv as [r' bi b y x' Hr Hn Hy Hvo]; subst.
  apply in_walk_region. exists b, y. repeat split; auto; [eapply nth_error_In; eauto|].
  apply visited_o_walk. exact Hvo.
Qed.

Lemma trav_incl_walk r : incl (trav_region r) (walk_region r).
Proof. intros x Hx. apply visited_r_walk. apply in_trav_region_iff. exact Hx. Qed.

(* ------------------------------------------------------------------ *)
(* the model's loop is the abstract loop over the traversal order *)
Lemma live_loop_eq fuel all r s :
  live_loop fuel all r s = loop all (trav_region r) fuel s.
Proof.
  revert s. induction fuel as [|f IH]; intros s; simpl; auto.
  destruct (ls_changed s); auto. rewrite IH. unfold pass. rewrite prop_region_trav. reflexivity.
Qed.

Lemma good_init all T : good all T (LS [] true false).
Proof. constructor; simpl; [constructor|intros ? []|intros ? []]. Qed.

(* C13_terminates: the `while changed` loop ends within the fuel; the result is a justified,
   closed live set, and the post-order model never ran out of fuel *)
Theorem liveness_total r :
  exists st, liveness r = Some st /\ final (walk_region r) (trav_region r) st /\ ls_err st = false.
Proof.
  unfold liveness. rewrite live_loop_eq.
  destruct (loop_terminates (walk_region r) (trav_region r) (trav_incl_walk r)
              (live_fuel (walk_region r)) (LS [] true false)) as (s' & E & Hf & He).
  - apply good_init.
  - simpl. discriminate.
  - unfold live_fuel. simpl. lia.
  - exists s'. auto.
Qed.

(* ------------------------------------------------------------------ *)
(* Spec: the live operations are the least fixed point of the two rules *)
Inductive live (root : region) : op -> Prop :=
| live_intr o : visited_r root o -> would_be_trivially_dead o = false -> live root o
| live_use o u : visited_r root o -> live root u -> uses u o -> live root o.

Lemma live_visited root o : live root o -> visited_r root o.
Proof. intros H; inversion H; assumption. Qed.

Lemma NoDup_ids_inj (l : list op) x y :
  NoDup (ids l) -> In x l -> In y l -> o_id x = o_id y -> x = y.
Proof.
  unfold ids. induction l as [|a l IH]; simpl; intros Hn Hx Hy E; [destruct Hx|].
  inversion Hn as [|? ? Hna Hn']; subst.
  destruct Hx as [<-|Hx], Hy as [<-|Hy]; auto.
  - exfalso. apply Hna. rewrite E. apply in_map. exact Hy.
  - exfalso. apply Hna. rewrite <- E. apply in_map. exact Hx.
Qed.

Section LoopInv.
  Variable all T : list op.
  Variable Q : list nat -> Prop.
  Hypothesis Qstep : forall s o, In o T -> Q (ls_live s) -> Q (ls_live (op_step all o s)).

  Lemma fold_inv l s : incl l T -> Q (ls_live s) -> Q (ls_live (fold_left (fun s o => op_step all o s) l s)).
  Proof.
    revert s. induction l as [|o l IH]; intros s Hl Hq; simpl; auto.
    apply IH; [intros x Hx; apply Hl; right; exact Hx|]. apply Qstep; auto. apply Hl; left; reflexivity.
  Qed.

  Lemma loop_inv fuel : forall s s', loop all T fuel s = Some s' -> Q (ls_live s) -> Q (ls_live s').
  Proof.
    induction fuel as [|f IH]; intros s s' E Hq; simpl in E; [discriminate|].
    destruct (ls_changed s).
    - eapply IH; [exact E|]. unfold pass. apply fold_inv; [apply incl_refl|exact Hq].
    - inversion E; subst. exact Hq.
  Qed.
End LoopInv.

Theorem liveness_lfp r st :
  NoDup (ids (walk_region r)) -> liveness r = Some st ->
  forall o, In o (walk_region r) -> (lives (ls_live st) o = true <-> live r o).
Proof.
  intros Hnd E o Ho.
  destruct (liveness_total r) as (st' & E' & Hfin & _). rewrite E in E'. inversion E'; subst st'.
  split.
  - (* soundness: everything in the live set is derivable *)
    intros Hl.
    assert (Hq : forall i, In i (ls_live st) -> exists x, In x (trav_region r) /\ o_id x = i /\ live r x).
    { unfold liveness in E. rewrite live_loop_eq in E.
      refine (loop_inv (walk_region r) (trav_region r)
                (fun L => forall i, In i L -> exists x, In x (trav_region r) /\ o_id x = i /\ live r x)
                _ _ _ _ E _); [|simpl; intros ? []].
      intros s x Hx Hq i Hi.
      destruct (op_step_cases (walk_region r) x s) as [[Es _]|[Es [_ Hwhy]]]; rewrite Es in Hi;
        [apply Hq; exact Hi|].
      simpl in Hi. destruct Hi as [<-|Hi]; [|apply Hq; exact Hi].
      exists x. repeat split; auto.
      assert (Hvx : visited_r r x) by (apply in_trav_region_iff; exact Hx).
      destruct Hwhy as [Hw|(u & Hu & Hus & Hlu)]; [apply live_intr; auto|].
      unfold lives in Hlu. apply memb_In in Hlu. destruct (Hq _ Hlu) as (u' & Hu' & Eid & Hlive).
      assert (u' = u) by (eapply NoDup_ids_inj; eauto; apply trav_incl_walk; exact Hu').
      subst u'. eapply live_use; eauto. }
    unfold lives in Hl. apply memb_In in Hl. destruct (Hq _ Hl) as (x & Hx & Eid & Hlive).
    assert (x = o) by (eapply NoDup_ids_inj; eauto; apply trav_incl_walk; exact Hx).
    subst x. exact Hlive.
  - (* completeness: the final set is closed under the rules *)
    intros Hlive. clear Ho. induction Hlive as [o Hv Hw|o u Hv Hu IH Hus].
    + destruct (f_closed _ _ _ Hfin o) as [Hl|[Hw' _]]; [apply in_trav_region_iff; exact Hv|exact Hl|congruence].
    + destruct (f_closed _ _ _ Hfin o) as [Hl|[_ Hno]]; [apply in_trav_region_iff; exact Hv|exact Hl|].
      exfalso. apply Hno. exists u. repeat split; auto.
      apply visited_r_walk. apply live_visited. exact Hu.
Qed.

(* ------------------------------------------------------------------ *)
(* regions reached by the liveness propagation (`hin`) and regions kept by delete_dead (`kin`) *)
Inductive hin : region -> region -> Prop :=
| hin_refl rg : hin rg rg
| hin_step rg bi b p rg1 rg' :
    nth_error rg bi = Some b -> reach (cfg_of rg) bi -> In p (b_ops b) -> In rg1 (o_regs p) ->
    hin rg1 rg' -> hin rg rg'.

Definition keep_blk (L : nat -> bool) (bi : nat) (b : block) : Prop := bi = 0 \/ has_live L b = true.

Inductive kin (L : nat -> bool) : region -> region -> Prop :=
| kin_refl rg : kin L rg rg
| kin_step rg bi b p rg1 rg' :
    nth_error rg bi = Some b -> keep_blk L bi b -> In p (b_ops b) -> L (o_id p) = true ->
    In rg1 (o_regs p) -> kin L rg1 rg' -> kin L rg rg'.

Lemma hin_visited root rg : hin root rg ->
  forall bi b x, reach (cfg_of rg) bi -> nth_error rg bi = Some b -> In x (b_ops b) -> visited_r root x.
Proof.
  induction 1 as [rg|rg bi0 b0 p rg1 rg' Hn0 Hr0 Hp Hrg1 _ IH]; intros bi b x Hr Hn Hx.
  - eapply vis_r; eauto. apply vis_self.
  - eapply vis_r; eauto. eapply vis_sub; eauto.
Qed.

Lemma hin_walk root rg : hin root rg -> incl (walk_region rg) (walk_region root).
Proof.
  induction 1 as [rg|rg bi0 b0 p rg1 rg' Hn0 Hr0 Hp Hrg1 _ IH]; [apply incl_refl|].
  intros x Hx. apply in_walk_region. exists b0, p. repeat split; auto; [eapply nth_error_In; eauto|].
  apply in_walk_op. right. exists rg1. split; auto.
Qed.

Lemma kin_walk L root rg : kin L root rg -> incl (walk_region rg) (walk_region root).
Proof.
  induction 1 as [rg|rg bi0 b0 p rg1 rg' Hn0 Hk Hp HL Hrg1 _ IH]; [apply incl_refl|].
  intros x Hx. apply in_walk_region. exists b0, p. repeat split; auto; [eapply nth_error_In; eauto|].
  apply in_walk_op. right. exists rg1. split; auto.
Qed.

(* ------------------------------------------------------------------ *)
(* distinct ids: occurrences at different positions are different operations *)
Lemma ids_app l1 l2 : ids (l1 ++ l2) = ids l1 ++ ids l2.
Proof. apply map_app. Qed.

Lemma NoDup_app_inv {A} (l1 l2 : list A) :
  NoDup (l1 ++ l2) -> NoDup l1 /\ NoDup l2 /\ (forall x, In x l1 -> In x l2 -> False).
Proof.
  induction l1 as [|a l1 IH]; simpl; intros Hn.
  - repeat split; [constructor|exact Hn|intros ? []].
  - inversion Hn as [|? ? Hna Hn']; subst. destruct (IH Hn') as (H1 & H2 & H3).
    repeat split; auto.
    + constructor; auto. intros Hin. apply Hna. apply in_or_app. left; exact Hin.
    + intros x [<-|Hx] Hx2; [apply Hna; apply in_or_app; right; exact Hx2|eauto].
Qed.

Section FlatNoDup.
  Context {A : Type} (f : A -> list op).

  Lemma flat_nodup_sub l a : NoDup (ids (flat_map f l)) -> In a l -> NoDup (ids (f a)).
  Proof.
    intros Hn Ha. apply in_split in Ha. destruct Ha as (l1 & l2 & ->).
    rewrite flat_map_app in Hn. simpl in Hn. rewrite !ids_app in Hn.
    apply NoDup_app_inv in Hn. destruct Hn as (_ & Hn & _).
    apply NoDup_app_inv in Hn. tauto.
  Qed.

  Lemma flat_nodup_idx l : NoDup (ids (flat_map f l)) ->
    forall i j a a' x x', nth_error l i = Some a -> nth_error l j = Some a' ->
      In x (f a) -> In x' (f a') -> o_id x = o_id x' -> i = j.
  Proof.
    induction l as [|a0 l IH]; intros Hn i j a a' x x' Hi Hj Hx Hx' E; [destruct i; discriminate|].
    simpl in Hn. rewrite ids_app in Hn. apply NoDup_app_inv in Hn. destruct Hn as (_ & Hn2 & Hdis).
    assert (Hrest : forall k c z, nth_error l k = Some c -> In z (f c) -> In (o_id z) (ids (flat_map f l))).
    { intros k c z Hk Hz. apply in_map. apply in_flat_map. exists c. split; auto. eapply nth_error_In; eauto. }
    destruct i as [|i], j as [|j]; simpl in Hi, Hj; auto.
    - inversion Hi; subst. exfalso. apply (Hdis (o_id x)); [apply in_map; exact Hx|].
      rewrite E. eapply Hrest; eauto.
    - inversion Hj; subst. exfalso. apply (Hdis (o_id x')); [apply in_map; exact Hx'|].
      rewrite <- E. eapply Hrest; eauto.
    - f_equal. eapply IH; eauto.
  Qed.
End FlatNoDup.

Lemma walk_region_nodup_block r b :
  NoDup (ids (walk_region r)) -> In b r -> NoDup (ids (walk_block b)).
Proof. apply (flat_nodup_sub walk_block). Qed.

Lemma walk_block_nodup_op b y :
  NoDup (ids (walk_block b)) -> In y (b_ops b) -> NoDup (ids (walk_op y)).
Proof. apply (flat_nodup_sub walk_op). Qed.

Lemma walk_op_nodup_region o rg :
  NoDup (ids (walk_op o)) -> In rg (o_regs o) -> NoDup (ids (walk_region rg)).
Proof.
  rewrite walk_op_eq. simpl. intros Hn. inversion Hn; subst.
  apply (flat_nodup_sub walk_region). assumption.
Qed.

Lemma in_walk_block b x : In x (walk_block b) <-> exists y, In y (b_ops b) /\ In x (walk_op y).
Proof. unfold walk_block. apply in_flat_map. Qed.

(* an op of an unreachable block of a reached region is not reached at all *)
Lemma unreachable_not_visited root rg : hin root rg ->
  NoDup (ids (walk_region root)) ->
  forall bi b y, nth_error rg bi = Some b -> ~ reach (cfg_of rg) bi -> In y (b_ops b) ->
  ~ visited_r root y.
Proof.
  induction 1 as [rg|rg bi0 b0 p rg1 rg' Hn0 Hr0 Hp Hrg1 Hh IH]; intros Hnd bi b y Hn Hnr Hy Hv.
  - inversion Hv as [r bi' b' o' x Hr' Hn' Ho' Hvo]; subst.
    assert (bi' = bi).
    { eapply (flat_nodup_idx walk_block rg Hnd bi' bi b' b y y); eauto.
      - apply in_walk_block. exists o'. split; auto. apply visited_o_walk. exact Hvo.
      - apply in_walk_block. exists y. split; auto. apply in_walk_op. left; reflexivity. }
    subst. contradiction.
  - assert (Hyrg1 : In y (walk_region rg1)).
    { apply (hin_walk _ _ Hh). apply in_walk_region. exists b, y. repeat split; auto.
      - eapply nth_error_In; eauto.
      - apply in_walk_op. left; reflexivity. }
    inversion Hv as [r bi' b' o' x Hr' Hn' Ho' Hvo]; subst.
    assert (bi' = bi0).
    { eapply (flat_nodup_idx walk_block rg Hnd bi' bi0 b' b0 y y); eauto.
      - apply in_walk_block. exists o'. split; auto. apply visited_o_walk. exact Hvo.
      - apply in_walk_block. exists p. split; auto. apply in_walk_op. right. exists rg1. auto. }
    subst bi'. rewrite Hn0 in Hn'. inversion Hn'; subst b'.
    assert (Hndb : NoDup (ids (walk_block b0))).
    { eapply walk_region_nodup_block; eauto. eapply nth_error_In; eauto. }
    destruct (In_nth_error _ _ Ho') as [i Hi]. destruct (In_nth_error _ _ Hp) as [j Hj].
    assert (i = j).
    { eapply (flat_nodup_idx walk_op (b_ops b0) Hndb i j o' p y y); eauto.
      - apply visited_o_walk. exact Hvo.
      - apply in_walk_op. right. exists rg1. auto. }
    subst j. rewrite Hi in Hj. inversion Hj; subst o'.
    assert (Hndp : NoDup (ids (walk_op p))) by (eapply walk_block_nodup_op; eauto).
    inversion Hvo as [|o'' rg2 x Hrg2 Hvr]; subst.
    + (* y = p, but y also occurs inside a region of p *)
      rewrite walk_op_eq in Hndp. simpl in Hndp. inversion Hndp as [|? ? Hnotin _]; subst.
      apply Hnotin. apply in_map. apply in_flat_map. exists rg1. auto.
    + assert (rg2 = rg1).
      { destruct (In_nth_error _ _ Hrg2) as [i2 Hi2]. destruct (In_nth_error _ _ Hrg1) as [i1 Hi1].
        assert (i2 = i1).
        { rewrite walk_op_eq in Hndp. simpl in Hndp. inversion Hndp as [|? ? _ Hndr]; subst.
          eapply (flat_nodup_idx walk_region (o_regs p) Hndr i2 i1 rg2 rg1 y y); eauto.
          apply visited_r_walk. exact Hvr. }
        subst. rewrite Hi2 in Hi1. inversion Hi1. reflexivity. }
      subst rg2. eapply IH; eauto. eapply walk_op_nodup_region; eauto.
Qed.

(* ------------------------------------------------------------------ *)
(* delete_dead: which operation ids survive *)
Lemma dd_op_eq L o : dd_op L o = set_regs o (map (dd_region L) (o_regs o)).
Proof. destruct o; reflexivity. Qed.

Lemma dd_block_ops L b :
  b_ops (dd_block L b) = flat_map (fun x => if L (o_id x) then [dd_op L x] else []) (b_ops b).
Proof. reflexivity. Qed.

Definition surv (L : nat -> bool) (rg : region) (i : nat) : Prop :=
  exists rg' bi b y, kin L rg rg' /\ nth_error rg' bi = Some b /\ keep_blk L bi b /\
                     In y (b_ops b) /\ L (o_id y) = true /\ o_id y = i.

Lemma in_ids_walk_dd_op L o i :
  In i (ids (walk_op (dd_op L o))) <->
  i = o_id o \/ exists rg, In rg (o_regs o) /\ In i (ids (walk_region (dd_region L rg))).
Proof.
  rewrite dd_op_eq, walk_op_eq. unfold ids. simpl. split.
  - intros [E|Hin]; [left; destruct o; simpl in *; auto|right].
    apply in_map_iff in Hin. destruct Hin as (x & Ex & Hx). apply in_flat_map in Hx.
    destruct Hx as (rg' & Hrg' & Hx). apply in_map_iff in Hrg'. destruct Hrg' as (rg & <- & Hrg).
    exists rg. split; auto. subst i. apply in_map. exact Hx.
  - intros [->|(rg & Hrg & Hin)]; [left; destruct o; reflexivity|right].
    apply in_map_iff in Hin. destruct Hin as (x & Ex & Hx). apply in_map_iff. exists x. split; auto.
    apply in_flat_map. exists (dd_region L rg). split; auto. apply in_map. exact Hrg.
Qed.

Lemma in_ids_walk_dd_block L b i :
  In i (ids (walk_block (dd_block L b))) <->
  exists y, In y (b_ops b) /\ L (o_id y) = true /\ In i (ids (walk_op (dd_op L y))).
Proof.
  unfold ids, walk_block. rewrite dd_block_ops. split.
  - intros Hin. apply in_map_iff in Hin. destruct Hin as (x & Ex & Hx).
    apply in_flat_map in Hx. destruct Hx as (y' & Hy' & Hx). apply in_flat_map in Hy'.
    destruct Hy' as (y & Hy & Hy'). destruct (L (o_id y)) eqn:El; [|destruct Hy'].
    destruct Hy' as [<-|[]]. exists y. repeat split; auto. subst i. apply in_map. exact Hx.
  - intros (y & Hy & El & Hin). apply in_map_iff in Hin. destruct Hin as (x & Ex & Hx).
    apply in_map_iff. exists x. split; auto. apply in_flat_map. exists (dd_op L y). split; auto.
    apply in_flat_map. exists y. split; auto. rewrite El. left; reflexivity.
Qed.

Lemma dd_region_blocks L rg b' :
  In b' (dd_region L rg) <->
  exists bi b, nth_error rg bi = Some b /\ keep_blk L bi b /\ b' = dd_block L b.
Proof.
  unfold dd_region, keep_blk. destruct rg as [|first rest].
  - split; [intros []|]. intros (bi & b & Hn & _). destruct bi; discriminate.
  - simpl. rewrite in_flat_map. split.
    + intros [<-|(b & Hb & Hin)]; [exists 0, first; auto|].
      destruct (has_live L b) eqn:Eh; [|destruct Hin]. destruct Hin as [<-|[]].
      destruct (In_nth_error _ _ Hb) as [k Hk]. exists (S k), b. auto.
    + intros (bi & b & Hn & Hk & ->). destruct bi as [|k]; simpl in Hn.
      * inversion Hn; subst. left; reflexivity.
      * right. exists b. split; [eapply nth_error_In; eauto|].
        destruct Hk as [Hk|Hk]; [discriminate|]. rewrite Hk. left; reflexivity.
Qed.

Lemma in_ids_walk_dd_region L rg i :
  In i (ids (walk_region (dd_region L rg))) <->
  exists bi b, nth_error rg bi = Some b /\ keep_blk L bi b /\ In i (ids (walk_block (dd_block L b))).
Proof.
  unfold ids at 1, walk_region. split.
  - intros Hin. apply in_map_iff in Hin. destruct Hin as (x & Ex & Hx).
    apply in_flat_map in Hx. destruct Hx as (b' & Hb' & Hx).
    apply dd_region_blocks in Hb'. destruct Hb' as (bi & b & Hn & Hk & ->).
    exists bi, b. repeat split; auto. subst i. apply in_map. exact Hx.
  - intros (bi & b & Hn & Hk & Hin). apply in_map_iff in Hin. destruct Hin as (x & Ex & Hx).
    apply in_map_iff. exists x. split; auto. apply in_flat_map. exists (dd_block L b). split; auto.
    apply dd_region_blocks. exists bi, b. auto.
Qed.

Lemma surv_op_region L rg :
  (forall b y, In b rg -> In y (b_ops b) -> forall i,
     In i (ids (walk_op (dd_op L y))) <-> i = o_id y \/ exists rg1, In rg1 (o_regs y) /\ surv L rg1 i) ->
  forall i, In i (ids (walk_region (dd_region L rg))) <-> surv L rg i.
Proof.
  intros Hop i. rewrite in_ids_walk_dd_region. split.
  - intros (bi & b & Hn & Hk & Hin). apply in_ids_walk_dd_block in Hin.
    destruct Hin as (y & Hy & El & Hin).
    apply (Hop b y (nth_error_In _ _ Hn) Hy) in Hin.
    destruct Hin as [->|(rg1 & Hrg1 & (rg' & bi' & b' & y' & Hkin & H'))].
    + exists rg, bi, b, y. repeat split; auto. apply kin_refl.
    + exists rg', bi', b', y'. split; [|exact H']. eapply kin_step; eauto.
  - intros (rg' & bi' & b' & y' & Hkin & Hn' & Hk' & Hy' & El' & Ei).
    inversion Hkin as [|rg0 bi b p rg1 rg'' Hn Hk Hp Elp Hrg1 Hkin']; subst.
    + exists bi', b'. repeat split; auto. apply in_ids_walk_dd_block. exists y'. repeat split; auto.
      apply (Hop b' y' (nth_error_In _ _ Hn') Hy'). left; reflexivity.
    + exists bi, b. repeat split; auto. apply in_ids_walk_dd_block. exists p. repeat split; auto.
      apply (Hop b p (nth_error_In _ _ Hn) Hp). right. exists rg1. split; auto.
      exists rg', bi', b', y'. repeat split; auto.
Qed.

Lemma surv_op L o : forall i,
  In i (ids (walk_op (dd_op L o))) <-> i = o_id o \/ exists rg1, In rg1 (o_regs o) /\ surv L rg1 i.
Proof.
  induction o as [o IH] using op_ind2. intros i. rewrite in_ids_walk_dd_op.
  split; (intros [E|(rg & Hrg & Hin)]; [left; exact E|right; exists rg; split; auto]).
  - apply surv_op_region; auto. intros b y Hb Hy. apply (IH rg b y Hrg Hb Hy).
  - apply surv_op_region; auto. intros b y Hb Hy. apply (IH rg b y Hrg Hb Hy).
Qed.

Theorem dd_region_ids L rg i : In i (ids (walk_region (dd_region L rg))) <-> surv L rg i.
Proof. apply surv_op_region. intros b y _ _. apply surv_op. Qed.

(* ------------------------------------------------------------------ *)
(* region_dce *)
Definition Lof (st : lstate) : nat -> bool := fun i => memb i (ls_live st).

Lemma region_dce_unfold r :
  exists st, liveness r = Some st /\ final (walk_region r) (trav_region r) st /\
             region_dce r = Some (dd_region (Lof st) r, ddc_region (Lof st) r).
Proof.
  destruct (liveness_total r) as (st & E & Hf & He). exists st.
  split; [exact E|]. split; [exact Hf|].
  unfold region_dce. rewrite E, He. reflexivity.
Qed.

Lemma reach_dec g b : {reach g b} + {~ reach g b}.
Proof.
  destruct (post_order g) as [po|] eqn:E.
  - destruct (post_order_spec_general _ _ E) as (_ & Hpo & _).
    destruct (in_dec Nat.eq_dec b po) as [Hi|Hn]; [left|right]; rewrite <- Hpo; assumption.
  - exfalso. destruct (post_order_terminates g) as [l El]. congruence.
Qed.

Lemma hin_snoc a rg0 : hin a rg0 ->
  forall bi b p rg1, nth_error rg0 bi = Some b -> reach (cfg_of rg0) bi -> In p (b_ops b) ->
    In rg1 (o_regs p) -> hin a rg1.
Proof.
  induction 1 as [rg|rg bi0 b0 p0 rg1' rg' Hn0 Hr0 Hp0 Hrg1' _ IH]; intros bi b p rg1 Hn Hr Hp Hrg1.
  - eapply hin_step; eauto. apply hin_refl.
  - eapply hin_step; eauto.
Qed.

Section Final.
  Variable r : region.
  Variable st : lstate.
  Hypothesis Hnd : NoDup (ids (walk_region r)).
  Hypothesis Hfin : final (walk_region r) (trav_region r) st.
  Let L := Lof st.

  Lemma L_visited o : In o (walk_region r) -> L (o_id o) = true -> visited_r r o.
  Proof.
    intros Ho Hl. unfold L, Lof in Hl. apply memb_In in Hl.
    destruct (g_just _ _ _ (f_good _ _ _ Hfin) _ Hl) as (t & Ht & Eid & _).
    assert (t = o) by (eapply NoDup_ids_inj; eauto; apply trav_incl_walk; exact Ht).
    subst t. apply in_trav_region_iff. exact Ht.
  Qed.

  Lemma visited_closed o : visited_r r o ->
    L (o_id o) = true \/
    (would_be_trivially_dead o = true /\ ~ has_live_user (walk_region r) (ls_live st) o).
  Proof.
    intros Hv. apply in_trav_region_iff in Hv. exact (f_closed _ _ _ Hfin o Hv).
  Qed.

  (* a block of a reached region that has a live op is reachable *)
  Lemma live_block_reachable rg : hin r rg ->
    forall bi b, nth_error rg bi = Some b -> keep_blk L bi b -> reach (cfg_of rg) bi.
  Proof.
    intros Hh bi b Hn [->|Hl]; [apply reach_entry|].
    destruct (reach_dec (cfg_of rg) bi) as [Hr|Hnr]; [exact Hr|exfalso].
    unfold has_live in Hl. apply existsb_exists in Hl. destruct Hl as (y & Hy & Hly).
    eapply (unreachable_not_visited r rg Hh Hnd bi b y); eauto.
    apply L_visited; auto. apply (hin_walk _ _ Hh). apply in_walk_region.
    exists b, y. repeat split; auto; [eapply nth_error_In; eauto|apply in_walk_op; left; reflexivity].
  Qed.

  Lemma kin_hin rg0 rg : kin L rg0 rg -> hin r rg0 -> hin r rg.
  Proof.
    induction 1 as [rg|rg bi b p rg1 rg' Hn Hk Hp Hl Hrg1 _ IH]; intros Hh; [exact Hh|].
    apply IH. eapply hin_snoc; eauto. eapply live_block_reachable; eauto.
  Qed.

  (* a reachable block that ends with a terminator is kept *)
  Lemma terminated_block_kept rg : hin r rg ->
    forall bi b t, nth_error rg bi = Some b -> reach (cfg_of rg) bi -> In t (b_ops b) -> o_term t = true ->
    keep_blk L bi b.
  Proof.
    intros Hh bi b t Hn Hr Ht Hterm. right. unfold has_live. apply existsb_exists. exists t. split; auto.
    destruct (visited_closed t) as [Hl|[Hw _]]; [eapply hin_visited; eauto|exact Hl|].
    unfold would_be_trivially_dead in Hw. rewrite Hterm in Hw. discriminate.
  Qed.

  Let out := ids (walk_region (dd_region L r)).

  Lemma kept_in_out rg bi b o :
    kin L r rg -> nth_error rg bi = Some b -> In o (b_ops b) -> L (o_id o) = true -> In (o_id o) out.
  Proof.
    intros Hk Hn Ho Hl. apply dd_region_ids. exists rg, bi, b, o. repeat split; auto.
    right. unfold has_live. apply existsb_exists. exists o. auto.
  Qed.

  Lemma out_live i : In i out -> L i = true.
  Proof. intros Hi. apply dd_region_ids in Hi. destruct Hi as (_ & _ & _ & y & _ & _ & _ & _ & Hl & <-). exact Hl. Qed.

  Lemma out_in i : In i out -> In i (ids (walk_region r)).
  Proof.
    intros Hi. apply dd_region_ids in Hi. destruct Hi as (rg & bi & b & y & Hk & Hn & _ & Hy & _ & <-).
    apply in_map. apply (kin_walk _ _ _ Hk). apply in_walk_region. exists b, y.
    repeat split; auto; [eapply nth_error_In; eauto|apply in_walk_op; left; reflexivity].
  Qed.

  Lemma only_removable_kin rg bi b o :
    kin L r rg -> nth_error rg bi = Some b -> In o (b_ops b) -> ~ In (o_id o) out ->
    ~ reach (cfg_of rg) bi \/
    (would_be_trivially_dead o = true /\
     forall u, In u (walk_region r) -> uses u o -> ~ In (o_id u) out).
  Proof.
    intros Hk Hn Ho Hout.
    destruct (reach_dec (cfg_of rg) bi) as [Hr|Hnr]; [right|left; exact Hnr].
    assert (Hh : hin r rg) by (eapply kin_hin; eauto; apply hin_refl).
    destruct (visited_closed o) as [Hl|[Hw Hno]]; [eapply hin_visited; eauto| |].
    - exfalso. apply Hout. eapply kept_in_out; eauto.
    - split; [exact Hw|]. intros u Hu Hus Hin. apply Hno. exists u. repeat split; auto.
      apply out_live in Hin. exact Hin.
  Qed.
End Final.

(* regions all of whose enclosing operations remain in the output (ids `out`) *)
Inductive rin (out : list nat) : region -> region -> Prop :=
| rin_refl rg : rin out rg rg
| rin_step rg bi b p rg1 rg' :
    nth_error rg bi = Some b -> In p (b_ops b) -> In (o_id p) out -> In rg1 (o_regs p) ->
    rin out rg1 rg' -> rin out rg rg'.

Lemma rin_kin r st : NoDup (ids (walk_region r)) ->
  forall rg0 rg, rin (ids (walk_region (dd_region (Lof st) r))) rg0 rg ->
  incl (walk_region rg0) (walk_region r) -> kin (Lof st) rg0 rg.
Proof.
  intros Hnd rg0 rg Hr. induction Hr as [rg|rg bi b p rg1 rg' Hn Hp Hout Hrg1 _ IH]; intros Hincl.
  - apply kin_refl.
  - assert (Hl : Lof st (o_id p) = true) by (eapply out_live; eauto).
    assert (Hpw : In p (walk_region rg)).
    { apply in_walk_region. exists b, p. repeat split; auto; [eapply nth_error_In; eauto|].
      apply in_walk_op. left; reflexivity. }
    eapply kin_step; eauto.
    + right. unfold has_live. apply existsb_exists. exists p. auto.
    + apply IH. intros x Hx. apply Hincl. apply in_walk_region. exists b, p.
      repeat split; auto; [eapply nth_error_In; eauto|]. apply in_walk_op. right. exists rg1. auto.
Qed.

(* C13_only_removable *)
Theorem only_removable r r' ch :
  NoDup (ids (walk_region r)) -> region_dce r = Some (r', ch) ->
  forall rg bi b o, rin (ids (walk_region r')) r rg -> nth_error rg bi = Some b -> In o (b_ops b) ->
    ~ In (o_id o) (ids (walk_region r')) ->
    ~ reach (cfg_of rg) bi \/
    (would_be_trivially_dead o = true /\
     forall u, In u (walk_region r) -> uses u o -> ~ In (o_id u) (ids (walk_region r'))).
Proof.
  intros Hnd E rg bi b o Hrin Hn Ho Hout.
  destruct (region_dce_unfold r) as (st & _ & Hfin & E'). rewrite E in E'. inversion E'; subst r' ch.
  eapply only_removable_kin; eauto. eapply rin_kin; eauto. apply incl_refl.
Qed.

(* nothing is invented: every remaining op id is an id of the input *)
Theorem output_subset r r' ch :
  region_dce r = Some (r', ch) -> incl (ids (walk_region r')) (ids (walk_region r)).
Proof.
  intros E i Hi.
  destruct (region_dce_unfold r) as (st & _ & Hfin & E'). rewrite E in E'. inversion E'; subst r' ch.
  eapply out_in; eauto.
Qed.

(* C13_blocks: which blocks delete_dead keeps *)
Theorem blocks_kept_iff_reachable r r' ch :
  NoDup (ids (walk_region r)) -> region_dce r = Some (r', ch) ->
  exists L, r' = dd_region L r /\ ch = ddc_region L r /\
    forall rg, kin L r rg -> forall bi b, nth_error rg bi = Some b ->
      (keep_blk L bi b -> reach (cfg_of rg) bi) /\
      (reach (cfg_of rg) bi -> (exists t, In t (b_ops b) /\ o_term t = true) -> keep_blk L bi b).
Proof.
  intros Hnd E.
  destruct (region_dce_unfold r) as (st & _ & Hfin & E'). rewrite E in E'. inversion E'; subst r' ch.
  exists (Lof st). repeat split; auto.
  - intros Hk. eapply live_block_reachable; eauto. eapply kin_hin; eauto. apply hin_refl.
  - intros Hr (t & Ht & Hterm). eapply terminated_block_kept; eauto. eapply kin_hin; eauto. apply hin_refl.
Qed.

(* ------------------------------------------------------------------ *)
(* completeness: a run that reports no change leaves nothing to remove *)
Inductive rsub : region -> region -> Prop :=
| rsub_refl rg : rsub rg rg
| rsub_step rg bi b p rg1 rg' :
    nth_error rg bi = Some b -> In p (b_ops b) -> In rg1 (o_regs p) -> rsub rg1 rg' -> rsub rg rg'.

Definition complete (r : region) : Prop :=
  (forall o, In o (walk_region r) -> is_trivially_dead (walk_region r) o = false) /\
  (forall rg, rsub r rg -> forall bi b, nth_error rg bi = Some b -> reach (cfg_of rg) bi).

Lemma existsb_false {A} (f : A -> bool) (l : list A) :
  existsb f l = false -> forall x, In x l -> f x = false.
Proof.
  intros H x Hx. destruct (f x) eqn:E; auto.
  assert (existsb f l = true) by (apply existsb_exists; exists x; auto). congruence.
Qed.

Lemma ddc_op_eq L o : ddc_op L o = existsb (ddc_region L) (o_regs o).
Proof. destruct o; reflexivity. Qed.

Lemma ddc_false_inv L rg : ddc_region L rg = false ->
  forall bi b, nth_error rg bi = Some b ->
    keep_blk L bi b /\
    forall p, In p (b_ops b) -> L (o_id p) = true /\ forall rg1, In rg1 (o_regs p) -> ddc_region L rg1 = false.
Proof.
  intros Hd bi b Hn.
  assert (Hblk : forall b0, ddc_block L b0 = false -> forall p, In p (b_ops b0) ->
            L (o_id p) = true /\ forall rg1, In rg1 (o_regs p) -> ddc_region L rg1 = false).
  { intros b0 Hb0 p Hp. unfold ddc_block in Hb0.
    assert (Hf := existsb_false _ _ Hb0 p Hp). apply orb_false_iff in Hf. destruct Hf as [Hl Hdo].
    split; [destruct (L (o_id p)); auto; discriminate|].
    intros rg1 Hrg1. rewrite ddc_op_eq in Hdo. exact (existsb_false _ _ Hdo rg1 Hrg1). }
  destruct rg as [|first rest]; [destruct bi; discriminate|].
  simpl in Hd. apply orb_false_iff in Hd. destruct Hd as [Hf Hrest].
  destruct bi as [|k]; simpl in Hn.
  - inversion Hn; subst. split; [left; reflexivity|apply Hblk; exact Hf].
  - assert (Hk := existsb_false _ _ Hrest b (nth_error_In _ _ Hn)).
    apply orb_false_iff in Hk. destruct Hk as [Hhl Hdb].
    split; [right; destruct (has_live L b); auto; discriminate|apply Hblk; exact Hdb].
Qed.

Lemma ddc_rsub L rg0 rg : rsub rg0 rg -> ddc_region L rg0 = false ->
  kin L rg0 rg /\ ddc_region L rg = false.
Proof.
  induction 1 as [rg|rg bi b p rg1 rg' Hn Hp Hrg1 _ IH]; intros Hd; [split; [apply kin_refl|exact Hd]|].
  destruct (ddc_false_inv L rg Hd bi b Hn) as [Hk Hops]. destruct (Hops p Hp) as [Hl Hregs].
  destruct (IH (Hregs rg1 Hrg1)) as [Hkin Hd']. split; [|exact Hd']. eapply kin_step; eauto.
Qed.

Lemma walk_op_rsub o : forall x, In x (walk_op o) ->
  x = o \/ exists rg1 rg bi b, In rg1 (o_regs o) /\ rsub rg1 rg /\ nth_error rg bi = Some b /\ In x (b_ops b).
Proof.
  induction o as [o IH] using op_ind2. intros x Hx. apply in_walk_op in Hx.
  destruct Hx as [->|(rg1 & Hrg1 & Hx)]; [left; reflexivity|right].
  apply in_walk_region in Hx. destruct Hx as (b & y & Hb & Hy & Hx).
  destruct (In_nth_error _ _ Hb) as [bi Hbi].
  destruct (IH rg1 b y Hrg1 Hb Hy x Hx) as [->|(rg2 & rg & bi' & b' & Hrg2 & Hsub & Hn' & Hx')].
  - exists rg1, rg1, bi, b. repeat split; auto. apply rsub_refl.
  - exists rg1, rg, bi', b'. repeat split; auto. eapply rsub_step; eauto.
Qed.

Lemma walk_region_rsub rg0 x : In x (walk_region rg0) ->
  exists rg bi b, rsub rg0 rg /\ nth_error rg bi = Some b /\ In x (b_ops b).
Proof.
  intros Hx. apply in_walk_region in Hx. destruct Hx as (b & y & Hb & Hy & Hx).
  destruct (In_nth_error _ _ Hb) as [bi Hbi].
  destruct (walk_op_rsub y x Hx) as [->|(rg1 & rg & bi' & b' & Hrg1 & Hsub & Hn' & Hx')].
  - exists rg0, bi, b. repeat split; auto. apply rsub_refl.
  - exists rg, bi', b'. repeat split; auto. eapply rsub_step; eauto.
Qed.

(* nothing deleted: the IR is unchanged *)
Lemma flat_map_keep_all {A} (c : A -> bool) (g : A -> A) (l : list A) :
  (forall a, In a l -> c a = true /\ g a = a) ->
  flat_map (fun a => if c a then [g a] else []) l = l.
Proof.
  induction l as [|a l IH]; intros H; simpl; auto.
  destruct (H a (or_introl eq_refl)) as [-> ->]. simpl. f_equal. apply IH. intros; apply H; right; assumption.
Qed.

Lemma map_id_in {A} (g : A -> A) (l : list A) : (forall a, In a l -> g a = a) -> map g l = l.
Proof.
  induction l as [|a l IH]; intros H; simpl; auto. rewrite H by (left; reflexivity).
  f_equal. apply IH. intros; apply H; right; assumption.
Qed.

Lemma dd_region_id_aux L rg :
  (forall b y, In b rg -> In y (b_ops b) -> ddc_op L y = false -> dd_op L y = y) ->
  ddc_region L rg = false -> dd_region L rg = rg.
Proof.
  intros Hop Hd.
  assert (Hblk : forall bi b, nth_error rg bi = Some b -> dd_block L b = b).
  { intros bi b Hn. destruct (ddc_false_inv L rg Hd bi b Hn) as [_ Hops].
    unfold dd_block. destruct b as [i a ops]. simpl in *. f_equal.
    apply flat_map_keep_all. intros y Hy. destruct (Hops y Hy) as [Hl Hregs]. split; auto.
    apply (Hop _ y (nth_error_In _ _ Hn)); auto.
    rewrite ddc_op_eq. destruct (existsb (ddc_region L) (o_regs y)) eqn:Ex; auto.
    apply existsb_exists in Ex. destruct Ex as (rg1 & Hrg1 & Hd1). rewrite (Hregs rg1 Hrg1) in Hd1. discriminate. }
  destruct rg as [|first rest]; [reflexivity|]. unfold dd_region. f_equal.
  - apply (Hblk 0 first). reflexivity.
  - apply flat_map_keep_all. intros b Hb. destruct (In_nth_error _ _ Hb) as [k Hk].
    destruct (ddc_false_inv L (first :: rest) Hd (S k) b Hk) as [[Hz|Hl] _]; [discriminate|].
    split; auto. apply (Hblk (S k) b Hk).
Qed.

Lemma dd_op_id L o : ddc_op L o = false -> dd_op L o = o.
Proof.
  induction o as [o IH] using op_ind2. intros Hd. rewrite dd_op_eq.
  rewrite map_id_in; [destruct o; reflexivity|].
  intros rg Hrg. apply dd_region_id_aux; [intros b y Hb Hy; apply (IH rg b y Hrg Hb Hy)|].
  rewrite ddc_op_eq in Hd. exact (existsb_false _ _ Hd rg Hrg).
Qed.

Lemma dd_region_id L rg : ddc_region L rg = false -> dd_region L rg = rg.
Proof. apply dd_region_id_aux. intros b y _ _. apply dd_op_id. Qed.

(* C13_complete_partial (1): a run of region_dce that reports no change returns the IR unchanged and
   the IR contains no trivially dead operation and no unreachable block *)
Theorem complete_if_unchanged r r' :
  NoDup (ids (walk_region r)) -> region_dce r = Some (r', false) -> r' = r /\ complete r.
Proof.
  intros Hnd E.
  destruct (region_dce_unfold r) as (st & _ & Hfin & E'). rewrite E in E'.
  inversion E' as [[Er Hd]]. symmetry in Hd.
  split; [apply dd_region_id; exact Hd|]. split.
  - intros o Ho. destruct (walk_region_rsub r o Ho) as (rg & bi & b & Hsub & Hn & Hob).
    destruct (ddc_rsub _ _ _ Hsub Hd) as [Hkin Hd'].
    destruct (ddc_false_inv _ rg Hd' bi b Hn) as [_ Hops]. destruct (Hops o Hob) as [Hl _].
    unfold Lof in Hl. apply memb_In in Hl.
    destruct (g_just _ _ _ (f_good _ _ _ Hfin) _ Hl) as (t & Ht & Eid & Hwhy).
    assert (t = o) by (eapply NoDup_ids_inj; eauto; apply trav_incl_walk; exact Ht). subst t.
    unfold is_trivially_dead. destruct Hwhy as [Hw|(u & Hu & (v & Hv & Ha) & _)]; [rewrite Hw; apply andb_false_r|].
    apply andb_false_iff. left.
    destruct (forallb (unused (walk_region r)) (o_res o)) eqn:Ef; auto.
    assert (Hun := proj1 (forallb_forall _ _) Ef v Hv). unfold unused in Hun.
    assert (Hin : In u (users (walk_region r) v)) by (apply users_In; auto).
    destruct (users (walk_region r) v); [destruct Hin|discriminate].
  - intros rg Hsub bi b Hn. destruct (ddc_rsub _ _ _ Hsub Hd) as [Hkin Hd'].
    destruct (ddc_false_inv _ rg Hd' bi b Hn) as [Hk _].
    eapply live_block_reachable; eauto. eapply kin_hin; eauto. apply hin_refl.
Qed.

(* ------------------------------------------------------------------ *)
(* delete_dead keeps ids distinct *)
Definition cnt (l : list op) (i : nat) : nat := count_occ Nat.eq_dec (ids l) i.

Lemma cnt_app l1 l2 i : cnt (l1 ++ l2) i = cnt l1 i + cnt l2 i.
Proof. unfold cnt. rewrite ids_app. apply count_occ_app. Qed.

Lemma cnt_flat_cond {A B} (c : A -> bool) (g : A -> B) (w : B -> list op) (w0 : A -> list op) l i :
  (forall a, In a l -> cnt (w (g a)) i <= cnt (w0 a) i) ->
  cnt (flat_map w (flat_map (fun a => if c a then [g a] else []) l)) i <= cnt (flat_map w0 l) i.
Proof.
  induction l as [|a l IH]; intros H; simpl; [lia|].
  rewrite flat_map_app, !cnt_app.
  assert (Hl := IH (fun a' Ha' => H a' (or_intror Ha'))).
  assert (Ha := H a (or_introl eq_refl)).
  destruct (c a); simpl; [rewrite app_nil_r|]; lia.
Qed.

Lemma cnt_flat_map_le {A} (g : A -> A) (w : A -> list op) l i :
  (forall a, In a l -> cnt (w (g a)) i <= cnt (w a) i) ->
  cnt (flat_map w (map g l)) i <= cnt (flat_map w l) i.
Proof.
  induction l as [|a l IH]; intros H; simpl; [lia|]. rewrite !cnt_app.
  assert (Hl := IH (fun a' Ha' => H a' (or_intror Ha'))).
  assert (Ha := H a (or_introl eq_refl)). lia.
Qed.

Lemma cnt_dd_region_aux L rg i :
  (forall b y, In b rg -> In y (b_ops b) -> cnt (walk_op (dd_op L y)) i <= cnt (walk_op y) i) ->
  cnt (walk_region (dd_region L rg)) i <= cnt (walk_region rg) i.
Proof.
  intros Hop.
  assert (Hblk : forall b, In b rg -> cnt (walk_block (dd_block L b)) i <= cnt (walk_block b) i).
  { intros b Hb. unfold walk_block. rewrite dd_block_ops.
    apply (cnt_flat_cond (fun x => L (o_id x)) (dd_op L) walk_op walk_op). intros y Hy. apply (Hop b y Hb Hy). }
  destruct rg as [|first rest]; [simpl; lia|].
  unfold dd_region, walk_region. simpl. rewrite !cnt_app.
  assert (H1 := Hblk first (or_introl eq_refl)).
  assert (H2 : cnt (flat_map walk_block (flat_map (fun b => if has_live L b then [dd_block L b] else []) rest)) i
               <= cnt (flat_map walk_block rest) i).
  { apply (cnt_flat_cond (has_live L) (dd_block L) walk_block walk_block). intros b Hb. apply Hblk. right; exact Hb. }
  lia.
Qed.

Lemma cnt_dd_op L o i : cnt (walk_op (dd_op L o)) i <= cnt (walk_op o) i.
Proof.
  induction o as [o IH] using op_ind2. rewrite dd_op_eq, (walk_op_eq o), walk_op_eq.
  change (o_regs (set_regs o (map (dd_region L) (o_regs o)))) with (map (dd_region L) (o_regs o)).
  assert (Hr : cnt (flat_map walk_region (map (dd_region L) (o_regs o))) i <= cnt (flat_map walk_region (o_regs o)) i).
  { apply cnt_flat_map_le. intros rg Hrg. apply cnt_dd_region_aux. intros b y Hb Hy. apply (IH rg b y Hrg Hb Hy). }
  unfold cnt in *. simpl. change (o_id (set_regs o (map (dd_region L) (o_regs o)))) with (o_id o).
  destruct (Nat.eq_dec (o_id o) i); lia.
Qed.

Lemma dd_region_nodup L rg : NoDup (ids (walk_region rg)) -> NoDup (ids (walk_region (dd_region L rg))).
Proof.
  intros Hn. apply (NoDup_count_occ Nat.eq_dec). intros i.
  assert (H1 := proj1 (NoDup_count_occ Nat.eq_dec _) Hn i).
  assert (H2 : cnt (walk_region (dd_region L rg)) i <= cnt (walk_region rg) i).
  { apply cnt_dd_region_aux. intros b y _ _. apply cnt_dd_op. }
  unfold cnt in H2. lia.
Qed.

Theorem region_dce_nodup r r' ch :
  NoDup (ids (walk_region r)) -> region_dce r = Some (r', ch) -> NoDup (ids (walk_region r')).
Proof.
  intros Hnd E. destruct (region_dce_unfold r) as (st & _ & _ & E'). rewrite E in E'.
  inversion E'; subst. apply dd_region_nodup. exact Hnd.
Qed.

(* C13_complete_partial (2): region_dce iterated until it reports no change (the proposed repair of the
   pass) leaves no trivially dead operation and no unreachable block *)
Theorem dce_iter_complete fuel : forall r r'',
  NoDup (ids (walk_region r)) -> dce_iter fuel r = Some r'' -> complete r''.
Proof.
  induction fuel as [|f IH]; intros r r'' Hnd E; simpl in E; [discriminate|].
  destruct (region_dce r) as [[r' ch]|] eqn:Er; [|discriminate].
  destruct ch.
  - eapply IH; [|exact E]. eapply region_dce_nodup; eauto.
  - inversion E; subst r''. destruct (complete_if_unchanged r r' Hnd Er) as [-> Hc]. exact Hc.
Qed.

(* ------------------------------------------------------------------ *)
(* totality *)
Theorem region_dce_total r : exists r' ch, region_dce r = Some (r', ch).
Proof. destruct (region_dce_unfold r) as (st & _ & _ & E). eauto. Qed.

Theorem terminates r :
  (exists st, liveness r = Some st /\ ls_err st = false) /\ exists r' ch, region_dce r = Some (r', ch).
Proof.
  split; [|apply region_dce_total].
  destruct (liveness_total r) as (st & E & _ & He). exists st. split; assumption.
Qed.

(* ------------------------------------------------------------------ *)
(* ONE run of region_dce (the dce pass as it is) is not complete: two witnesses *)

(* %0 = pure ; %1 = pure { %2 = pure(%0) ; term(%2) } ; term
   the nested terminator keeps %2 and hence %0 alive, then op 1 is deleted with its region *)
Definition witness_nested_use : region :=
  [Blk 0 [] [Op 0 [0] [] [] [] false false (Some []) false;
             Op 1 [1] [] [] [[Blk 1 [] [Op 2 [2] [0] [] [] false false (Some []) false;
                                        Op 3 [] [2] [] [] true false None false]]]
                false false (Some []) false;
             Op 4 [] [] [] [] true false None false]].

(* %0 = rec { ^1: pure-term ; ^2 (unreachable): write ; term } ; term
   op 0 is live because of the write in the unreachable block, which is then deleted *)
Definition witness_unreachable_effect : region :=
  [Blk 0 [] [Op 0 [0] [] [] [[Blk 1 [] [Op 1 [] [] [] [] true false (Some []) false];
                              Blk 2 [] [Op 2 [] [] [] [] false false (Some [EWrite]) false;
                                        Op 3 [] [] [] [] true false None false]]]
                false false None true;
             Op 4 [] [] [] [] true false None false]].

Definition leaves_trivially_dead (r : region) : Prop :=
  exists r' ch o, NoDup (ids (walk_region r)) /\ region_dce r = Some (r', ch) /\ dce_pass r = Some r' /\
                  In o (walk_region r') /\ is_trivially_dead (walk_region r') o = true.

Theorem complete_refuted :
  leaves_trivially_dead witness_nested_use /\ leaves_trivially_dead witness_unreachable_effect.
Proof.
  split.
  - exists [Blk 0 [] [Op 0 [0] [] [] [] false false (Some []) false; Op 4 [] [] [] [] true false None false]],
           true, (Op 0 [0] [] [] [] false false (Some []) false).
    split; [|split; [vm_compute; reflexivity|split; [vm_compute; reflexivity|split; [left; reflexivity|vm_compute; reflexivity]]]].
    vm_compute. repeat (constructor; [simpl; intuition discriminate|]). constructor.
  - exists [Blk 0 [] [Op 0 [0] [] [] [[Blk 1 [] [Op 1 [] [] [] [] true false (Some []) false]]] false false None true;
                      Op 4 [] [] [] [] true false None false]],
           true, (Op 0 [0] [] [] [[Blk 1 [] [Op 1 [] [] [] [] true false (Some []) false]]] false false None true).
    split; [|split; [vm_compute; reflexivity|split; [vm_compute; reflexivity|split; [left; reflexivity|vm_compute; reflexivity]]]].
    vm_compute. repeat (constructor; [simpl; intuition discriminate|]). constructor.
Qed.

(* the iterated pass removes them *)
Example iter_removes_witnesses :
  dce_pass_iter witness_nested_use = Some [Blk 0 [] [Op 4 [] [] [] [] true false None false]] /\
  dce_pass_iter witness_unreachable_effect = Some [Blk 0 [] [Op 4 [] [] [] [] true false None false]].
Proof. vm_compute. split; reflexivity. Qed.
