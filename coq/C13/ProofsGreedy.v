(* C13/ProofsGreedy.v -- the trivially-dead removal of the greedy driver (model: greedy_dce, rounds of
   gd_region): every round removes only operations that are trivially dead (or nested in one), the
   iteration terminates within its fuel, and the result contains no trivially dead operation. *)
From Coq Require Import List Arith Bool Lia.
From XV Require Import C24.Model C13.Model C13.Proofs C13.ProofsIter.
Import ListNotations.

Lemma gd_op_eq all o : gd_op all o = set_regs o (map (gd_region all) (o_regs o)).
Proof. destruct o; reflexivity. Qed.

Lemma gd_block_ops all b :
  b_ops (gd_block all b) =
  flat_map (fun x => if negb (is_trivially_dead all x) then [gd_op all x] else []) (b_ops b).
Proof.
  unfold gd_block. simpl. apply flat_map_ext. intros x. destruct (is_trivially_dead all x); reflexivity.
Qed.

(* ------------------------------------------------------------------ *)
(* one round removes only trivially dead operations and what is nested in them *)
Lemma gd_region_survive_aux all rg :
  (forall b x, In b rg -> In x (b_ops b) -> forall y, In y (walk_op x) ->
     (exists p, In p (flat_map walk_region (o_regs x)) /\ is_trivially_dead all p = true /\ In y (walk_op p))
     \/ In (o_id y) (ids (walk_op (gd_op all x)))) ->
  forall y, In y (walk_region rg) ->
    (exists p, In p (walk_region rg) /\ is_trivially_dead all p = true /\ In y (walk_op p))
    \/ In (o_id y) (ids (walk_region (gd_region all rg))).
Proof.
  intros Hop y Hy. apply in_walk_region in Hy. destruct Hy as (b & x & Hb & Hx & Hy).
  destruct (is_trivially_dead all x) eqn:Ex.
  - left. exists x. repeat split; auto. apply in_walk_region. exists b, x. repeat split; auto.
    apply in_walk_op. left; reflexivity.
  - destruct (Hop b x Hb Hx y Hy) as [(p & Hp & Hd & Hyp)|Hs].
    + left. exists p. repeat split; auto. apply in_walk_region. exists b, x. repeat split; auto.
      apply in_walk_op. right. apply in_flat_map in Hp. exact Hp.
    + right. unfold ids in *. apply in_map_iff in Hs. destruct Hs as (z & Ez & Hz).
      apply in_map_iff. exists z. split; auto.
      apply in_walk_region. exists (gd_block all b), (gd_op all x). repeat split; auto.
      * unfold gd_region. apply in_map. exact Hb.
      * rewrite gd_block_ops. apply in_flat_map. exists x. split; auto. rewrite Ex. left; reflexivity.
Qed.

Lemma gd_op_survive all o : forall y, In y (walk_op o) ->
  (exists p, In p (flat_map walk_region (o_regs o)) /\ is_trivially_dead all p = true /\ In y (walk_op p))
  \/ In (o_id y) (ids (walk_op (gd_op all o))).
Proof.
  induction o as [o IH] using op_ind2. intros y Hy. apply in_walk_op in Hy.
  destruct Hy as [->|(rg & Hrg & Hy)].
  - right. rewrite gd_op_eq, walk_op_eq. left. destruct o; reflexivity.
  - destruct (gd_region_survive_aux all rg (fun b x Hb Hx => IH rg b x Hrg Hb Hx) y Hy) as [(p & Hp & Hd & Hyp)|Hs].
    + left. exists p. repeat split; auto. apply in_flat_map. exists rg. auto.
    + right. rewrite gd_op_eq, walk_op_eq. right. unfold ids in *.
      apply in_map_iff in Hs. destruct Hs as (z & Ez & Hz). apply in_map_iff. exists z. split; auto.
      apply in_flat_map. exists (gd_region all rg). split; auto.
      change (o_regs (set_regs o (map (gd_region all) (o_regs o)))) with (map (gd_region all) (o_regs o)).
      apply in_map. exact Hrg.
Qed.

Theorem gd_round_sound all r i :
  In i (ids (walk_region r)) -> ~ In i (ids (walk_region (gd_region all r))) ->
  exists p, In p (walk_region r) /\ is_trivially_dead all p = true /\ In i (ids (walk_op p)).
Proof.
  intros Hi Hn. unfold ids in Hi. apply in_map_iff in Hi. destruct Hi as (y & <- & Hy).
  destruct (gd_region_survive_aux all r (fun b x _ _ => gd_op_survive all x) y Hy) as [(p & Hp & Hd & Hyp)|Hs].
  - exists p. repeat split; auto. apply in_map. exact Hyp.
  - contradiction.
Qed.

(* ------------------------------------------------------------------ *)
(* rounds; the result has no trivially dead operation *)
Inductive grounds : region -> region -> Prop :=
| grounds_done r : (forall o, In o (walk_region r) -> is_trivially_dead (walk_region r) o = false) -> grounds r r
| grounds_step r r' : grounds (gd_region (walk_region r) r) r' -> grounds r r'.

Lemma gd_iter_rounds fuel : forall r r', gd_iter fuel r = Some r' -> grounds r r'.
Proof.
  induction fuel as [|f IH]; intros r r' E; simpl in E; [discriminate|].
  destruct (existsb (is_trivially_dead (walk_region r)) (walk_region r)) eqn:Ex.
  - apply grounds_step. apply IH. exact E.
  - inversion E; subst. apply grounds_done. intros o Ho. exact (existsb_false _ _ Ex o Ho).
Qed.

Lemma grounds_final r r' : grounds r r' ->
  forall o, In o (walk_region r') -> is_trivially_dead (walk_region r') o = false.
Proof. induction 1; auto. Qed.

(* ------------------------------------------------------------------ *)
(* termination: a round with a trivially dead operation removes at least one operation *)
Lemma length_flat_map {A B} (f : A -> list B) l :
  length (flat_map f l) = list_sum (map (fun a => length (f a)) l).
Proof. induction l as [|a l IH]; simpl; auto. rewrite app_length, IH. reflexivity. Qed.

Definition wsz_op (o : op) : nat := length (walk_op o).
Definition wsz_block (b : block) : nat := list_sum (map wsz_op (b_ops b)).
Definition wsz_region (r : region) : nat := list_sum (map wsz_block r).

Lemma wsz_block_len b : length (walk_block b) = wsz_block b.
Proof. unfold walk_block, wsz_block, wsz_op. apply length_flat_map. Qed.
Lemma wsz_region_len r : length (walk_region r) = wsz_region r.
Proof.
  unfold walk_region, wsz_region. rewrite length_flat_map. f_equal. apply map_ext. apply wsz_block_len.
Qed.
Lemma wsz_op_eq o : wsz_op o = S (list_sum (map wsz_region (o_regs o))).
Proof.
  unfold wsz_op. rewrite walk_op_eq. simpl. rewrite length_flat_map. f_equal. f_equal.
  apply map_ext. apply wsz_region_len.
Qed.
Lemma wsz_op_pos o : 0 < wsz_op o.
Proof. rewrite wsz_op_eq. lia. Qed.

Definition gshrinks (all : list op) (o : op) : Prop :=
  wsz_op (gd_op all o) <= wsz_op o /\
  ((exists y, In y (flat_map walk_region (o_regs o)) /\ is_trivially_dead all y = true) ->
   wsz_op (gd_op all o) < wsz_op o).

Lemma gshrinks_block all b : (forall x, In x (b_ops b) -> gshrinks all x) ->
  wsz_block (gd_block all b) <= wsz_block b /\
  ((exists y, In y (walk_block b) /\ is_trivially_dead all y = true) -> wsz_block (gd_block all b) < wsz_block b).
Proof.
  intros Hop. unfold wsz_block. rewrite gd_block_ops.
  assert (Hle : forall x, In x (b_ops b) -> wsz_op (gd_op all x) <= wsz_op x) by (intros x Hx; apply (Hop x Hx)).
  split.
  - apply (sum_cond_le (fun x => negb (is_trivially_dead all x)) (gd_op all) wsz_op). exact Hle.
  - intros (y & Hy & Hd). apply (sum_cond_lt (fun x => negb (is_trivially_dead all x)) (gd_op all) wsz_op); [exact Hle|].
    apply in_walk_block in Hy. destruct Hy as (x & Hx & Hy). exists x. split; auto.
    destruct (is_trivially_dead all x) eqn:Ex.
    + left. split; auto. apply wsz_op_pos.
    + right. apply (Hop x Hx). apply in_walk_op in Hy. destruct Hy as [->|(rg & Hrg & Hy)]; [congruence|].
      exists y. split; auto. apply in_flat_map. exists rg. auto.
Qed.

Lemma gshrinks_region_aux all rg : (forall b x, In b rg -> In x (b_ops b) -> gshrinks all x) ->
  wsz_region (gd_region all rg) <= wsz_region rg /\
  ((exists y, In y (walk_region rg) /\ is_trivially_dead all y = true) ->
   wsz_region (gd_region all rg) < wsz_region rg).
Proof.
  intros Hop. unfold wsz_region, gd_region.
  assert (Hblk : forall b, In b rg -> _) by (intros b Hb; exact (gshrinks_block all b (fun x Hx => Hop b x Hb Hx))).
  assert (Hle : forall b, In b rg -> wsz_block (gd_block all b) <= wsz_block b) by (intros b Hb; apply (Hblk b Hb)).
  split.
  - apply (sum_map_le (gd_block all) wsz_block). exact Hle.
  - intros (y & Hy & Hd). apply (sum_map_lt (gd_block all) wsz_block); [exact Hle|].
    unfold walk_region in Hy. apply in_flat_map in Hy. destruct Hy as (b & Hb & Hy).
    exists b. split; auto. apply (Hblk b Hb). exists y. auto.
Qed.

Lemma gshrinks_all all o : gshrinks all o.
Proof.
  induction o as [o IH] using op_ind2. unfold gshrinks.
  rewrite gd_op_eq, (wsz_op_eq o), wsz_op_eq.
  change (o_regs (set_regs o (map (gd_region all) (o_regs o)))) with (map (gd_region all) (o_regs o)).
  assert (Hreg : forall rg, In rg (o_regs o) -> _)
    by (intros rg Hrg; exact (gshrinks_region_aux all rg (fun b x Hb Hx => IH rg b x Hrg Hb Hx))).
  assert (Hle : forall rg, In rg (o_regs o) -> wsz_region (gd_region all rg) <= wsz_region rg)
    by (intros rg Hrg; apply (Hreg rg Hrg)).
  split.
  - apply le_n_S. apply (sum_map_le (gd_region all) wsz_region). exact Hle.
  - intros (y & Hy & Hd). apply -> Nat.succ_lt_mono. apply (sum_map_lt (gd_region all) wsz_region); [exact Hle|].
    apply in_flat_map in Hy. destruct Hy as (rg & Hrg & Hy). exists rg. split; auto.
    apply (Hreg rg Hrg). exists y. auto.
Qed.

Lemma gd_round_shrinks all r :
  existsb (is_trivially_dead all) (walk_region r) = true ->
  length (walk_region (gd_region all r)) < length (walk_region r).
Proof.
  intros Hex. rewrite !wsz_region_len. apply existsb_exists in Hex. destruct Hex as (y & Hy & Hd).
  apply (gshrinks_region_aux all r (fun b x _ _ => gshrinks_all all x)). exists y. auto.
Qed.

Lemma gd_iter_terminates fuel : forall r, length (walk_region r) < fuel -> exists r', gd_iter fuel r = Some r'.
Proof.
  induction fuel as [|f IH]; intros r Hf; [lia|]. simpl.
  destruct (existsb (is_trivially_dead (walk_region r)) (walk_region r)) eqn:Ex; [|eauto].
  apply IH. pose proof (gd_round_shrinks _ _ Ex). lia.
Qed.

(* C13_greedy: terminates; proceeds by rounds each of which removes only trivially dead operations
   (gd_round_sound); the result has no trivially dead operation *)
Theorem greedy_total r :
  exists r', greedy_dce r = Some r' /\ grounds r r' /\
             forall o, In o (walk_region r') -> is_trivially_dead (walk_region r') o = false.
Proof.
  unfold greedy_dce. destruct (gd_iter_terminates (S (length (walk_region r))) r (Nat.lt_succ_diag_r _)) as [r' E].
  exists r'. split; [exact E|]. assert (Hg := gd_iter_rounds _ _ _ E). split; [exact Hg|].
  apply grounds_final with (r := r). exact Hg.
Qed.
