(* C13/ProofsSem.v -- region_dce preserves the behaviour of the single-region CFG fragment.

   Semantics (Spec): a region whose operations have no nested regions is executed from its entry
   block.  Operation semantics are uninterpreted (Section variables): `sem o operands mem` gives
   the results, the new memory and the events appended to the effect log; the last operation of a
   block must be a terminator, whose `tsem` either returns values or jumps to its k-th successor
   passing block arguments.  The only assumption (`sem_pure`) is the meaning of the traits:
   an operation that passes would_be_trivially_dead always succeeds, leaves the memory unchanged
   and logs nothing.  Environments are total maps from value ids to values. *)
From Coq Require Import List Arith Bool Lia.
From XV Require Import C24.Model C24.ProofsPO C13.Model C13.Proofs.
Import ListNotations.

Section Sem.
  Variables val mem event : Type.
  Inductive tres := TJump (k : nat) (args : list val) | TRet (rs : list val).
  Variable sem : op -> list val -> mem -> option (list val * mem * list event).
  Variable tsem : op -> list val -> mem -> option (tres * mem * list event).
  Hypothesis sem_pure : forall o vs m,
    would_be_trivially_dead o = true -> exists rs, sem o vs m = Some (rs, m, []).

  Definition env := nat -> val.
  Fixpoint bind (xs : list nat) (vs : list val) (e : env) : env :=
    match xs, vs with
    | x :: xs', v :: vs' => bind xs' vs' (fun y => if Nat.eqb y x then v else e y)
    | _, _ => e
    end.
  Definition get_all (e : env) (l : list nat) : list val := map e l.
  Definition find_block (r : region) (bid : nat) : option block :=
    find (fun b => Nat.eqb (b_id b) bid) r.

  Definition outcome := (list val * mem * list event)%type.

  (* big-step execution of the rest `ops` of the current block *)
  Inductive exec (r : region) : list op -> env -> mem -> list event -> outcome -> Prop :=
  | ex_op o rest e m lg rs m' ev res :
      rest <> [] ->
      sem o (get_all e (o_args o)) m = Some (rs, m', ev) ->
      exec r rest (bind (o_res o) rs e) m' (lg ++ ev) res ->
      exec r (o :: rest) e m lg res
  | ex_ret t e m lg rs m' ev :
      o_term t = true ->
      tsem t (get_all e (o_args t)) m = Some (TRet rs, m', ev) ->
      exec r [t] e m lg (rs, m', lg ++ ev)
  | ex_jump t e m lg k args m' ev bid b res :
      o_term t = true ->
      tsem t (get_all e (o_args t)) m = Some (TJump k args, m', ev) ->
      nth_error (o_succs t) k = Some bid ->
      find_block r bid = Some b ->
      exec r (b_ops b) (bind (b_args b) args e) m' (lg ++ ev) res ->
      exec r [t] e m lg res.

  (* run r e m res: started in the entry block with environment e, memory m and an empty log, the
     region returns `res` = (returned values, final memory, effect log) *)
  Definition run (r : region) (e : env) (m : mem) (res : outcome) : Prop :=
    match r with [] => False | b0 :: _ => exec r (b_ops b0) e m [] res end.

  Lemma run_cons rr b0 rest e m res :
    rr = b0 :: rest -> (run rr e m res <-> exec rr (b_ops b0) e m [] res).
  Proof. intros ->. reflexivity. Qed.

  (* ---------------------------------------------------------------- *)
  (* environments *)
  Lemma bind_ext xs : forall vs e1 e2 y, e1 y = e2 y -> bind xs vs e1 y = bind xs vs e2 y.
  Proof.
    induction xs as [|x xs IH]; intros [|v vs] e1 e2 y E; simpl; auto.
    apply IH. destruct (Nat.eqb y x); auto.
  Qed.

  Lemma bind_notin xs : forall vs e y, ~ In y xs -> bind xs vs e y = e y.
  Proof.
    induction xs as [|x xs IH]; intros [|v vs] e y Hn; simpl; auto.
    rewrite IH by (intros H; apply Hn; right; exact H).
    destruct (Nat.eqb y x) eqn:E; auto. apply Nat.eqb_eq in E. subst. exfalso. apply Hn. left; reflexivity.
  Qed.

  (* ---------------------------------------------------------------- *)
  Variable r : region.
  Variable st : lstate.
  Hypothesis Hnd : NoDup (ids (walk_region r)).
  Hypothesis Hfin : final (walk_region r) (trav_region r) st.
  Hypothesis Hfree : forall o, In o (walk_region r) -> o_regs o = [].
  Let L := Lof st.
  Let r' := dd_region L r.

  Definition live_ops (ops : list op) : list op := filter (fun x => L (o_id x)) ops.

  Definition dead_val (v : nat) : Prop :=
    exists o, visited_r r o /\ L (o_id o) = false /\ In v (o_res o).
  Definition agree (e1 e2 : env) : Prop := forall v, ~ dead_val v -> e1 v = e2 v.

  Lemma agree_bind_same xs vs e1 e2 : agree e1 e2 -> agree (bind xs vs e1) (bind xs vs e2).
  Proof. intros H v Hv. apply bind_ext. apply H. exact Hv. Qed.

  Lemma agree_bind_dead xs vs e1 e2 :
    (forall v, In v xs -> dead_val v) -> agree e1 e2 -> agree (bind xs vs e1) e2.
  Proof.
    intros Hd H v Hv. rewrite bind_notin; [apply H; exact Hv|]. intros Hin. apply Hv. apply Hd. exact Hin.
  Qed.

  (* positions: `ops` is the rest of a reachable block *)
  Definition at_ (ops : list op) : Prop :=
    exists bi bcur pre, nth_error r bi = Some bcur /\ reach (cfg_of r) bi /\ b_ops bcur = pre ++ ops.

  Lemma at_tail o rest : at_ (o :: rest) -> at_ rest.
  Proof.
    intros (bi & bc & pre & Hn & Hr & E). exists bi, bc, (pre ++ [o]). repeat split; auto.
    rewrite <- app_assoc. exact E.
  Qed.

  Lemma at_visited ops o : at_ ops -> In o ops -> visited_r r o.
  Proof.
    intros (bi & bc & pre & Hn & Hr & E) Ho. eapply vis_r; eauto; [|apply vis_self].
    rewrite E. apply in_or_app. right; exact Ho.
  Qed.

  Lemma at_block bi b : nth_error r bi = Some b -> reach (cfg_of r) bi -> at_ (b_ops b).
  Proof. intros Hn Hr. exists bi, b, []. auto. Qed.

  Lemma visited_term_live t : visited_r r t -> o_term t = true -> L (o_id t) = true.
  Proof.
    intros Hv Ht. destruct (visited_closed r st Hfin t Hv) as [Hl|[Hw _]]; [exact Hl|].
    unfold would_be_trivially_dead in Hw. rewrite Ht in Hw. discriminate.
  Qed.

  Lemma visited_dead o : visited_r r o -> L (o_id o) = false ->
    would_be_trivially_dead o = true /\ forall v, In v (o_res o) -> dead_val v.
  Proof.
    intros Hv Hl. destruct (visited_closed r st Hfin o Hv) as [Hl'|[Hw _]].
    - unfold L in Hl. congruence.
    - split; auto. intros v Hin. exists o. auto.
  Qed.

  Lemma live_args o : visited_r r o -> L (o_id o) = true -> forall e1 e2, agree e1 e2 ->
    get_all e1 (o_args o) = get_all e2 (o_args o).
  Proof.
    intros Hv Hl e1 e2 Ha. unfold get_all. apply map_ext_in. intros v Hin. apply Ha.
    intros (d & Hvd & Hld & Hres).
    destruct (visited_closed r st Hfin d Hvd) as [Hl'|[_ Hno]]; [unfold L in Hld; congruence|].
    apply Hno. exists o. split; [apply visited_r_walk; exact Hv|]. split; [exists v; auto|exact Hl].
  Qed.

  (* region-free blocks: delete_dead is a filter *)
  Lemma dd_op_free o : o_regs o = [] -> dd_op L o = o.
  Proof. intros E. rewrite dd_op_eq, E. destruct o; simpl in *; subst; reflexivity. Qed.

  Lemma block_ops_walk b x : In b r -> In x (b_ops b) -> In x (walk_region r).
  Proof. intros Hb Hx. apply in_walk_region. exists b, x. repeat split; auto. apply in_walk_op. left; reflexivity. Qed.

  Lemma dd_block_free b : In b r -> b_ops (dd_block L b) = live_ops (b_ops b).
  Proof.
    intros Hb. rewrite dd_block_ops. unfold live_ops.
    assert (H : forall x, In x (b_ops b) -> dd_op L x = x).
    { intros x Hx. apply dd_op_free. apply Hfree. eapply block_ops_walk; eauto. }
    induction (b_ops b) as [|x l IH]; simpl; auto.
    rewrite IH by (intros; apply H; right; assumption).
    destruct (L (o_id x)); simpl; auto. rewrite H by (left; reflexivity). reflexivity.
  Qed.

  (* executions end in a terminator *)
  Lemma exec_last rr ops e m lg res : exec rr ops e m lg res ->
    exists pre t, ops = pre ++ [t] /\ o_term t = true.
  Proof.
    induction 1 as [o rest e m lg rs m' ev res Hne _ _ (pre & t & -> & Ht)|t e m lg rs m' ev Ht _
                   |t e m lg k args m' ev bid b res Ht _ _ _ _ _].
    - exists (o :: pre), t. auto.
    - exists [], t. auto.
    - exists [], t. auto.
  Qed.

  Lemma live_ops_nonempty ops e m lg res : at_ ops -> exec r ops e m lg res -> live_ops ops <> [].
  Proof.
    intros Hat Hex. destruct (exec_last _ _ _ _ _ _ Hex) as (pre & t & -> & Ht).
    assert (Hin : In t (live_ops (pre ++ [t]))).
    { apply filter_In. split; [apply in_or_app; right; left; reflexivity|].
      apply visited_term_live; auto. eapply at_visited; eauto. apply in_or_app; right; left; reflexivity. }
    intros E. rewrite E in Hin. destruct Hin.
  Qed.

  (* jump targets *)
  Lemma find_index rr bid b : find_block rr bid = Some b ->
    nth_error rr (index_of bid (map b_id rr)) = Some b.
  Proof.
    unfold find_block. induction rr as [|a rr IH]; simpl; [discriminate|].
    rewrite (Nat.eqb_sym bid (b_id a)). destruct (Nat.eqb (b_id a) bid); intros E; [exact E|apply IH; exact E].
  Qed.

  Lemma last_some {A} (l : list A) (x : A) : last (map Some (l ++ [x])) None = Some x.
  Proof. induction l as [|a l IH]; simpl; auto. rewrite IH. destruct (map Some (l ++ [x])) eqn:E; auto.
         destruct l; discriminate. Qed.

  Lemma jump_target t k bid b :
    at_ [t] -> o_term t = true -> nth_error (o_succs t) k = Some bid -> find_block r bid = Some b ->
    exists bj, nth_error r bj = Some b /\ reach (cfg_of r) bj.
  Proof.
    intros (bi & bc & pre & Hn & Hr & E) Ht Hk Hf.
    exists (index_of bid (map b_id r)). split; [apply find_index; exact Hf|].
    apply (reach_step _ bi); [exact Hr|].
    unfold succs, cfg_of. rewrite nth_map_error, Hn.
    unfold term_succs, last_op. rewrite E, last_some, Ht.
    apply in_map_iff. exists bid. split; [reflexivity|]. eapply nth_error_In; eauto.
  Qed.

  Lemma target_kept bj b e m lg res :
    nth_error r bj = Some b -> reach (cfg_of r) bj -> exec r (b_ops b) e m lg res -> keep_blk L bj b.
  Proof.
    intros Hn Hr Hex. destruct (exec_last _ _ _ _ _ _ Hex) as (pre & t & E & Ht).
    eapply (terminated_block_kept r st Hfin r (hin_refl r) bj b t); eauto.
    rewrite E. apply in_or_app. right; left; reflexivity.
  Qed.

  Lemma b_id_dd b : b_id (dd_block L b) = b_id b.
  Proof. reflexivity. Qed.

  Lemma find_dd_fwd rr bid b bj :
    find_block rr bid = Some b -> nth_error rr bj = Some b -> keep_blk L bj b ->
    find_block (dd_region L rr) bid = Some (dd_block L b).
  Proof.
    unfold find_block, dd_region. destruct rr as [|first rest]; [discriminate|]. simpl.
    destruct (Nat.eqb (b_id first) bid) eqn:Ef; [intros E; inversion E; reflexivity|].
    intros Hfind Hn Hk.
    assert (Hl : has_live L b = true).
    { destruct Hk as [->|Hl]; auto. simpl in Hn. inversion Hn; subst.
      apply find_some in Hfind. destruct Hfind as [_ E]. congruence. }
    clear Hn Hk. induction rest as [|h rest IH]; simpl in *; [discriminate|].
    destruct (Nat.eqb (b_id h) bid) eqn:Eh.
    - inversion Hfind; subst h. rewrite Hl. simpl. rewrite Eh. reflexivity.
    - destruct (has_live L h); simpl; [rewrite Eh|]; apply IH; exact Hfind.
  Qed.

  Hypothesis Hbids : NoDup (map b_id r).

  Lemma find_unique rr b : NoDup (map b_id rr) -> In b rr -> find_block rr (b_id b) = Some b.
  Proof.
    unfold find_block. induction rr as [|a rr IH]; intros Hn Hb; [destruct Hb|]. simpl.
    inversion Hn as [|? ? Hna Hn']; subst. destruct Hb as [->|Hb]; [rewrite Nat.eqb_refl; reflexivity|].
    destruct (Nat.eqb (b_id a) (b_id b)) eqn:E; [|apply IH; auto].
    apply Nat.eqb_eq in E. exfalso. apply Hna. rewrite E. apply in_map. exact Hb.
  Qed.

  Lemma find_dd_bwd bid b' :
    find_block r' bid = Some b' -> exists b, find_block r bid = Some b /\ b' = dd_block L b /\ In b r.
  Proof.
    intros Hf. apply find_some in Hf. destruct Hf as [Hin E]. apply Nat.eqb_eq in E.
    apply dd_region_blocks in Hin. destruct Hin as (bi & b & Hn & _ & ->).
    exists b. rewrite b_id_dd in E. subst bid. repeat split; [|eapply nth_error_In; eauto].
    apply find_unique; auto. eapply nth_error_In; eauto.
  Qed.

  (* ---------------------------------------------------------------- *)
  (* original run => run after region_dce *)
  Lemma fwd ops e1 m lg res : exec r ops e1 m lg res ->
    at_ ops -> forall e2, agree e1 e2 -> exec r' (live_ops ops) e2 m lg res.
  Proof.
    induction 1 as [o rest e m lg rs m' ev res Hne Hsem Hex IH|t e m lg rs m' ev Ht Hts
                   |t e m lg k args m' ev bid b res Ht Hts Hk Hfind Hex IH]; intros Hat e2 Hag.
    - assert (Hv : visited_r r o) by (eapply at_visited; eauto; left; reflexivity).
      assert (Hat' := at_tail _ _ Hat).
      simpl. destruct (L (o_id o)) eqn:El.
      + eapply ex_op.
        * eapply live_ops_nonempty; eauto.
        * rewrite <- (live_args o Hv El e e2 Hag). exact Hsem.
        * apply IH; auto. apply agree_bind_same. exact Hag.
      + destruct (visited_dead o Hv El) as [Hw Hdv].
        destruct (sem_pure o (get_all e (o_args o)) m Hw) as [rs' Hs]. rewrite Hsem in Hs.
        inversion Hs; subst. rewrite app_nil_r in IH. apply IH; auto.
        apply agree_bind_dead; auto.
    - assert (Hv : visited_r r t) by (eapply at_visited; eauto; left; reflexivity).
      assert (El := visited_term_live t Hv Ht). simpl. rewrite El.
      apply ex_ret; auto. rewrite <- (live_args t Hv El e e2 Hag). exact Hts.
    - assert (Hv : visited_r r t) by (eapply at_visited; eauto; left; reflexivity).
      assert (El := visited_term_live t Hv Ht). simpl. rewrite El.
      destruct (jump_target t k bid b Hat Ht Hk Hfind) as (bj & Hnj & Hrj).
      assert (Hkeep := target_kept bj b _ _ _ _ Hnj Hrj Hex).
      eapply ex_jump; eauto.
      + rewrite <- (live_args t Hv El e e2 Hag). exact Hts.
      + unfold r'. eapply find_dd_fwd; eauto.
      + rewrite dd_block_free by (eapply nth_error_In; eauto). simpl.
        apply IH; [eapply at_block; eauto|]. apply agree_bind_same. exact Hag.
  Qed.

  (* ---------------------------------------------------------------- *)
  (* run after region_dce => original run.  Needs: a terminator is the last op of its block *)
  Hypothesis Hterm : forall b pre t post, In b r -> b_ops b = pre ++ t :: post -> o_term t = true -> post = [].

  Lemma at_term_last t rest : at_ (t :: rest) -> o_term t = true -> rest = [].
  Proof.
    intros (bi & bc & pre & Hn & _ & E) Ht. eapply Hterm; eauto. eapply nth_error_In; eauto.
  Qed.

  Lemma skip_dead ops : at_ ops -> forall e1 e2 m lg res o' rest',
    live_ops ops = o' :: rest' -> agree e1 e2 ->
    (forall rest e1', at_ (o' :: rest) -> L (o_id o') = true -> live_ops rest = rest' -> agree e1' e2 ->
        exec r (o' :: rest) e1' m lg res) ->
    exec r ops e1 m lg res.
  Proof.
    induction ops as [|o rest IH]; intros Hat e1 e2 m lg res o' rest' El Hag K; [discriminate|].
    simpl in El. destruct (L (o_id o)) eqn:Elo.
    - inversion El; subst. apply K; auto.
    - assert (Hv : visited_r r o) by (eapply at_visited; eauto; left; reflexivity).
      destruct (visited_dead o Hv Elo) as [Hw Hdv].
      destruct (sem_pure o (get_all e1 (o_args o)) m Hw) as [rs Hs].
      eapply ex_op; [intros ->; discriminate|exact Hs|]. rewrite app_nil_r.
      eapply IH; eauto; [eapply at_tail; eauto|]. apply agree_bind_dead; auto.
  Qed.

  Lemma bwd ops' e2 m lg res : exec r' ops' e2 m lg res ->
    forall ops e1, at_ ops -> ops' = live_ops ops -> agree e1 e2 -> exec r ops e1 m lg res.
  Proof.
    induction 1 as [o rest' e m lg rs m' ev res Hne Hsem Hex IH|t e m lg rs m' ev Ht Hts
                   |t e m lg k args m' ev bid b' res Ht Hts Hk Hfind Hex IH]; intros ops e1 Hat Eo Hag.
    - eapply skip_dead; eauto. intros rest e1' Hat' El Er Hag'.
      assert (Hv : visited_r r o) by (eapply at_visited; eauto; left; reflexivity).
      eapply ex_op.
      + intros ->. simpl in Er. subst rest'. contradiction.
      + rewrite (live_args o Hv El e1' e Hag'). exact Hsem.
      + apply IH; auto; [eapply at_tail; eauto|]. apply agree_bind_same. exact Hag'.
    - eapply skip_dead; eauto. intros rest e1' Hat' El Er Hag'.
      assert (Hv : visited_r r t) by (eapply at_visited; eauto; left; reflexivity).
      assert (rest = []) by (eapply at_term_last; eauto). subst rest.
      apply ex_ret; auto. rewrite (live_args t Hv El e1' e Hag'). exact Hts.
    - eapply skip_dead; eauto. intros rest e1' Hat' El Er Hag'.
      assert (Hv : visited_r r t) by (eapply at_visited; eauto; left; reflexivity).
      assert (rest = []) by (eapply at_term_last; eauto). subst rest.
      destruct (find_dd_bwd bid b' Hfind) as (b & Hfb & -> & Hbin).
      destruct (jump_target t k bid b Hat' Ht Hk Hfb) as (bj & Hnj & Hrj).
      eapply ex_jump; eauto.
      + rewrite (live_args t Hv El e1' e Hag'). exact Hts.
      + apply IH; [eapply at_block; eauto|apply dd_block_free; exact Hbin|].
        simpl. apply agree_bind_same. exact Hag'.
  Qed.

  Lemma agree_refl e : agree e e.
  Proof. intros v _. reflexivity. Qed.

  Theorem run_preserved e m res : run r e m res <-> run r' e m res.
  Proof.
    assert (Hcase : r = [] \/ exists b0 rest, r = b0 :: rest) by (destruct r; eauto).
    destruct Hcase as [E|(b0 & rest & E)].
    - unfold run, r'. rewrite E. simpl. tauto.
    - assert (Er' : r' = dd_block L b0 :: flat_map (fun b => if has_live L b then [dd_block L b] else []) rest)
        by (unfold r'; rewrite E; reflexivity).
      rewrite (run_cons r b0 rest e m res E), (run_cons r' _ _ e m res Er').
      assert (Hat : at_ (b_ops b0)).
      { exists 0, b0, []. rewrite E. repeat split; auto. apply reach_entry. }
      assert (Hb0 : b_ops (dd_block L b0) = live_ops (b_ops b0)).
      { apply dd_block_free. rewrite E. left; reflexivity. }
      rewrite Hb0. split.
      + intros Hex. apply (fwd _ _ _ _ _ Hex Hat e (agree_refl e)).
      + intros Hex. apply (bwd _ _ _ _ _ Hex (b_ops b0) e Hat eq_refl (agree_refl e)).
  Qed.
End Sem.

(* C13_semantics *)
Theorem semantics_preserved (val mem event : Type)
  (sem : op -> list val -> mem -> option (list val * mem * list event))
  (tsem : op -> list val -> mem -> option (tres val * mem * list event)) :
  (forall o vs m, would_be_trivially_dead o = true -> exists rs, sem o vs m = Some (rs, m, [])) ->
  forall r r' ch,
    NoDup (ids (walk_region r)) -> NoDup (map b_id r) ->
    (forall o, In o (walk_region r) -> o_regs o = []) ->
    (forall b pre t post, In b r -> b_ops b = pre ++ t :: post -> o_term t = true -> post = []) ->
    region_dce r = Some (r', ch) ->
    forall e m res, run val mem event sem tsem r e m res <-> run val mem event sem tsem r' e m res.
Proof.
  intros Hpure r r' ch Hnd Hb Hfree Hterm E e m res.
  destruct (region_dce_unfold r) as (st & _ & Hfin & E'). rewrite E in E'. inversion E'; subst r' ch.
  apply run_preserved; auto.
Qed.

(* non-vacuity: a program with a dead pure op, an effectful op and a returning terminator; it runs to
   a result, region_dce deletes the pure op, and the hypotheses of semantics_preserved hold *)
Definition ex_prog : region :=
  [Blk 0 [] [Op 0 [0] [] [] [] false false (Some []) false;
             Op 1 [1] [] [] [] false false (Some [EWrite]) false;
             Op 2 [] [1] [] [] true false None false]].
Definition ex_sem (o : op) (vs : list nat) (m : nat) : option (list nat * nat * list nat) :=
  if would_be_trivially_dead o then Some ([0], m, []) else Some ([7], S m, [o_id o]).
Definition ex_tsem (t : op) (vs : list nat) (m : nat) : option (tres nat * nat * list nat) :=
  Some (TRet nat vs, m, []).

Example semantics_nonvacuous :
  (forall o vs m, would_be_trivially_dead o = true -> exists rs, ex_sem o vs m = Some (rs, m, [])) /\
  region_dce ex_prog = Some ([Blk 0 [] [Op 1 [1] [] [] [] false false (Some [EWrite]) false;
                                        Op 2 [] [1] [] [] true false None false]], true) /\
  run nat nat nat ex_sem ex_tsem ex_prog (fun _ => 0) 0 ([7], 1, [1]).
Proof.
  split; [|split].
  - intros o vs m Hw. unfold ex_sem. rewrite Hw. eauto.
  - vm_compute. reflexivity.
  - unfold run, ex_prog. simpl.
    eapply ex_op; [discriminate|vm_compute; reflexivity|].
    eapply ex_op; [discriminate|vm_compute; reflexivity|].
    simpl. apply (ex_ret nat nat nat ex_sem ex_tsem ex_prog _ _ 1 [1] [7] 1 []); reflexivity.
Qed.
