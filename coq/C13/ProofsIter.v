(* C13/ProofsIter.v -- the proposed repair of the pass (`while region_dce(op.body): pass`, model
   dce_pass_iter) terminates within its fuel: every run that reports a change removes something. *)
From Coq Require Import List Arith Bool Lia.
From XV Require Import C24.Model C13.Model C13.Proofs.
Import ListNotations.

Lemma msz_op_eq o : msz_op o = S (list_sum (map msz_region (o_regs o))).
Proof. destruct o; reflexivity. Qed.

Lemma msz_op_pos o : 0 < msz_op o.
Proof. rewrite msz_op_eq. lia. Qed.

Section Sums.
  Context {A : Type} (c : A -> bool) (g : A -> A) (f : A -> nat).
  Let cond := fun a => if c a then [g a] else [].

  Lemma sum_cond_le l : (forall a, In a l -> f (g a) <= f a) ->
    list_sum (map f (flat_map cond l)) <= list_sum (map f l).
  Proof.
    induction l as [|a l IH]; intros H; simpl; [lia|].
    rewrite map_app, list_sum_app.
    assert (Ha := H a (or_introl eq_refl)). assert (Hl := IH (fun x Hx => H x (or_intror Hx))).
    unfold cond at 1. destruct (c a); simpl; lia.
  Qed.

  Lemma sum_cond_lt l : (forall a, In a l -> f (g a) <= f a) ->
    (exists a, In a l /\ ((c a = false /\ 0 < f a) \/ f (g a) < f a)) ->
    list_sum (map f (flat_map cond l)) < list_sum (map f l).
  Proof.
    induction l as [|a l IH]; intros H (x & Hx & Hwhy); [destruct Hx|]. simpl.
    rewrite map_app, list_sum_app.
    assert (Ha := H a (or_introl eq_refl)).
    assert (Hle := sum_cond_le l (fun y Hy => H y (or_intror Hy))).
    destruct Hx as [<-|Hx].
    - unfold cond at 1. destruct Hwhy as [[Hc Hp]|Hlt]; [rewrite Hc; simpl; lia|].
      destruct (c a); simpl; lia.
    - assert (Hl := IH (fun y Hy => H y (or_intror Hy)) (ex_intro _ x (conj Hx Hwhy))).
      unfold cond at 1. destruct (c a); simpl; lia.
  Qed.

  Lemma sum_map_le l : (forall a, In a l -> f (g a) <= f a) ->
    list_sum (map f (map g l)) <= list_sum (map f l).
  Proof.
    induction l as [|a l IH]; intros H; simpl; [lia|].
    assert (Ha := H a (or_introl eq_refl)). assert (Hl := IH (fun x Hx => H x (or_intror Hx))). lia.
  Qed.

  Lemma sum_map_lt l : (forall a, In a l -> f (g a) <= f a) ->
    (exists a, In a l /\ f (g a) < f a) -> list_sum (map f (map g l)) < list_sum (map f l).
  Proof.
    induction l as [|a l IH]; intros H (x & Hx & Hlt); [destruct Hx|]. simpl.
    assert (Ha := H a (or_introl eq_refl)).
    assert (Hle := sum_map_le l (fun y Hy => H y (or_intror Hy))).
    destruct Hx as [<-|Hx]; [lia|].
    assert (Hl := IH (fun y Hy => H y (or_intror Hy)) (ex_intro _ x (conj Hx Hlt))). lia.
  Qed.
End Sums.

Definition shrinks_op (L : nat -> bool) (o : op) : Prop :=
  msz_op (dd_op L o) <= msz_op o /\ (ddc_op L o = true -> msz_op (dd_op L o) < msz_op o).

Lemma shrinks_block L b : (forall y, In y (b_ops b) -> shrinks_op L y) ->
  msz_block (dd_block L b) <= msz_block b /\ (ddc_block L b = true -> msz_block (dd_block L b) < msz_block b).
Proof.
  intros Hop. unfold msz_block. rewrite dd_block_ops.
  assert (Hle : forall y, In y (b_ops b) -> msz_op (dd_op L y) <= msz_op y) by (intros y Hy; apply (Hop y Hy)).
  split.
  - apply le_n_S. apply (sum_cond_le (fun x => L (o_id x)) (dd_op L) msz_op). exact Hle.
  - intros Hd. apply -> Nat.succ_lt_mono. apply (sum_cond_lt (fun x => L (o_id x)) (dd_op L) msz_op); [exact Hle|].
    unfold ddc_block in Hd. apply existsb_exists in Hd. destruct Hd as (x & Hx & Hd). exists x. split; auto.
    destruct (L (o_id x)) eqn:El; simpl in Hd.
    + right. apply (Hop x Hx). exact Hd.
    + left. split; auto. apply msz_op_pos.
Qed.

Lemma msz_block_pos b : 0 < msz_block b.
Proof. unfold msz_block. lia. Qed.

Lemma shrinks_region_aux L rg : (forall b y, In b rg -> In y (b_ops b) -> shrinks_op L y) ->
  msz_region (dd_region L rg) <= msz_region rg /\
  (ddc_region L rg = true -> msz_region (dd_region L rg) < msz_region rg).
Proof.
  intros Hop.
  assert (Hblk : forall b, In b rg -> msz_block (dd_block L b) <= msz_block b /\
                   (ddc_block L b = true -> msz_block (dd_block L b) < msz_block b)).
  { intros b Hb. apply shrinks_block. intros y Hy. apply (Hop b y Hb Hy). }
  destruct rg as [|first rest]; [simpl; split; [lia|discriminate]|].
  unfold dd_region.
  set (R' := flat_map (fun b => if has_live L b then [dd_block L b] else []) rest).
  assert (E1 : msz_region (dd_block L first :: R') = msz_block (dd_block L first) + list_sum (map msz_block R'))
    by reflexivity.
  assert (E2 : msz_region (first :: rest) = msz_block first + list_sum (map msz_block rest)) by reflexivity.
  rewrite E1, E2. unfold R'. clear E1 E2 R'.
  destruct (Hblk first (or_introl eq_refl)) as [H1 H1s].
  assert (Hle : forall b, In b rest -> msz_block (dd_block L b) <= msz_block b)
    by (intros b Hb; apply (Hblk b (or_intror Hb))).
  assert (H2 := sum_cond_le (has_live L) (dd_block L) msz_block rest Hle).
  split; [lia|]. intros Hd. simpl in Hd. apply orb_true_iff in Hd. destruct Hd as [Hd|Hd]; [specialize (H1s Hd); lia|].
  assert (H2s : list_sum (map msz_block (flat_map (fun b => if has_live L b then [dd_block L b] else []) rest))
                < list_sum (map msz_block rest)).
  { apply (sum_cond_lt (has_live L) (dd_block L) msz_block); [exact Hle|].
    apply existsb_exists in Hd. destruct Hd as (b & Hb & Hd). exists b. split; auto.
    destruct (has_live L b) eqn:Eh; simpl in Hd.
    - right. apply (Hblk b (or_intror Hb)). exact Hd.
    - left. split; auto. apply msz_block_pos. }
  lia.
Qed.

Lemma shrinks_op_all L o : shrinks_op L o.
Proof.
  induction o as [o IH] using op_ind2. unfold shrinks_op.
  rewrite dd_op_eq, (msz_op_eq o), msz_op_eq.
  change (o_regs (set_regs o (map (dd_region L) (o_regs o)))) with (map (dd_region L) (o_regs o)).
  assert (Hreg : forall rg, In rg (o_regs o) -> msz_region (dd_region L rg) <= msz_region rg /\
                   (ddc_region L rg = true -> msz_region (dd_region L rg) < msz_region rg)).
  { intros rg Hrg. apply shrinks_region_aux. intros b y Hb Hy. apply (IH rg b y Hrg Hb Hy). }
  assert (Hle : forall rg, In rg (o_regs o) -> msz_region (dd_region L rg) <= msz_region rg)
    by (intros rg Hrg; apply (Hreg rg Hrg)).
  split.
  - apply le_n_S. apply (sum_map_le (dd_region L) msz_region). exact Hle.
  - intros Hd. apply -> Nat.succ_lt_mono. apply (sum_map_lt (dd_region L) msz_region); [exact Hle|].
    rewrite ddc_op_eq in Hd. apply existsb_exists in Hd. destruct Hd as (rg & Hrg & Hd).
    exists rg. split; auto. apply (Hreg rg Hrg). exact Hd.
Qed.

Lemma shrinks_region L rg :
  msz_region (dd_region L rg) <= msz_region rg /\
  (ddc_region L rg = true -> msz_region (dd_region L rg) < msz_region rg).
Proof. apply shrinks_region_aux. intros b y _ _. apply shrinks_op_all. Qed.

Lemma dce_iter_terminates fuel : forall r, msz_region r < fuel -> exists r'', dce_iter fuel r = Some r''.
Proof.
  induction fuel as [|f IH]; intros r Hf; [lia|]. simpl.
  destruct (region_dce_unfold r) as (st & _ & _ & E). rewrite E.
  destruct (ddc_region (Lof st) r) eqn:Ed; [|eauto].
  apply IH. destruct (shrinks_region (Lof st) r) as [_ Hlt]. specialize (Hlt Ed). lia.
Qed.

(* the repaired pass terminates and its result is complete *)
Theorem dce_pass_iter_total r : NoDup (ids (walk_region r)) ->
  exists r'', dce_pass_iter r = Some r'' /\ complete r''.
Proof.
  intros Hnd. unfold dce_pass_iter.
  destruct (dce_iter_terminates (S (msz_region r)) r (Nat.lt_succ_diag_r _)) as [r'' E].
  exists r''. split; [exact E|]. eapply dce_iter_complete; eauto.
Qed.
