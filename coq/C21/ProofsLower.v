(* C21/ProofsLower.v -- the lowering kernels compute the source semantics.
   A. dead source ops do not influence the result (neutralize);
   B. SSA-level semantics of the x86 IR; lowering (LowerFuncOp, ArithConstantToX86, ArithBinaryToX86 with
      RS_Add_Zero) maps every source value to an IR value holding it; dce keeps the live values;
   C. simulation: under the allocation hypothesis alloc_ok (property C19's invariant) the machine running the
      assigned instructions (redundant moves dropped, stack offsets rebased by delta) tracks the SSA values. *)
From Coq Require Import ZArith List Bool Lia Arith.
From XV Require Import Gen.C21_tables C21.Model C21.Spec C21.ProofsMachine.
Import ListNotations.
Local Open Scope Z_scope.

(* ---------------------------------------------------------------------------------------- *)
(* generic list facts *)

Lemma memb_In : forall v l, memb v l = true <-> In v l.
Proof.
  intros v l. induction l as [|a l IH]; cbn [memb In]; [split; [discriminate | tauto]|].
  rewrite orb_true_iff, IH, Nat.eqb_eq. tauto.
Qed.

Lemma memb_false : forall v l, memb v l = false <-> ~ In v l.
Proof. intros v l. rewrite <- memb_In. destruct (memb v l); split; congruence. Qed.

Lemma memz_In : forall x l, memz x l = true <-> In x l.
Proof.
  intros x l. induction l as [|a l IH]; cbn [memz In]; [split; [discriminate | tauto]|].
  rewrite orb_true_iff, IH, Z.eqb_eq. tauto.
Qed.

Lemma nth_error_snoc_same : forall (l l' : list Z) x i,
  length l = length l' -> nth_error l i = nth_error l' i ->
  nth_error (l ++ [x]) i = nth_error (l' ++ [x]) i.
Proof.
  intros l l' x i Hlen H. destruct (lt_dec i (length l)) as [Hlt|Hge].
  - rewrite !nth_error_app1 by lia. exact H.
  - rewrite !nth_error_app2 by lia. rewrite Hlen. reflexivity.
Qed.

Lemma nth_error_snoc_other : forall (l l' : list Z) x y i,
  length l = length l' -> i <> length l -> nth_error l i = nth_error l' i ->
  nth_error (l ++ [x]) i = nth_error (l' ++ [y]) i.
Proof.
  intros l l' x y i Hlen Hne H. destruct (lt_dec i (length l)) as [Hlt|Hge].
  - rewrite !nth_error_app1 by lia. exact H.
  - assert (H1 : nth_error (l ++ [x]) i = None) by (apply nth_error_None; rewrite app_length; cbn [length]; lia).
    assert (H2 : nth_error (l' ++ [y]) i = None) by (apply nth_error_None; rewrite app_length; cbn [length]; lia).
    congruence.
Qed.

Lemma nth_error_snoc_last : forall (l : list Z) x, nth_error (l ++ [x]) (length l) = Some x.
Proof. intros l x. rewrite nth_error_app2 by lia. rewrite Nat.sub_diag. reflexivity. Qed.

Lemma Forall2_weaken_In : forall A B (P Q : A -> B -> Prop) l l',
  (forall a b, In a l -> P a b -> Q a b) -> Forall2 P l l' -> Forall2 Q l l'.
Proof.
  intros A B P Q l l' H F. induction F as [|a b l l' Hab F IH]; constructor.
  - apply H; [left; reflexivity | exact Hab].
  - apply IH. intros a' b' Hin. apply H. right. exact Hin.
Qed.

Lemma Forall2_nth_error : forall A B (P : A -> B -> Prop) l l' i a,
  Forall2 P l l' -> nth_error l i = Some a -> forall b, nth_error l' i = Some b -> P a b.
Proof.
  intros A B P l l' i a F. revert i. induction F as [|x y l l' Hxy F IH]; intros i Ha b Hb.
  - destruct i; discriminate.
  - destruct i as [|i]; cbn [nth_error] in *.
    + inversion Ha; inversion Hb; subst. exact Hxy.
    + eapply IH; eassumption.
Qed.

Lemma Forall2_seq : forall (P : nat -> Z -> Prop) (l : list Z) k,
  (forall i x, nth_error l i = Some x -> P (k + i)%nat x) -> Forall2 P (seq k (length l)) l.
Proof.
  intros P l. induction l as [|a l IH]; intros k H; cbn [length seq]; constructor.
  - replace k with (k + 0)%nat by lia. apply H. reflexivity.
  - apply IH. intros i x Hi. replace (S k + i)%nat with (k + S i)%nat by lia. apply H. exact Hi.
Qed.

Lemma Forall2_length' : forall A B (P : A -> B -> Prop) l l', Forall2 P l l' -> length l = length l'.
Proof. intros A B P l l' F. induction F; cbn [length]; congruence. Qed.

(* ---------------------------------------------------------------------------------------- *)
(* A. dead source ops *)

Section Source.
Variable w : width.

Definition src_step (o : sop) (vals : list Z) : option (list Z) :=
  match o with
  | SConst k => Some (vals ++ [low w k])
  | SBin b x y =>
      match nth_error vals x, nth_error vals y with
      | Some vx, Some vy => Some (vals ++ [low w (bop_eval b vx vy)])
      | _, _ => None
      end
  end.

Lemma src_run_cons : forall o r vals,
  src_run w (o :: r) vals = match src_step o vals with Some v' => src_run w r v' | None => None end.
Proof.
  intros o r vals. destruct o as [k | b x y]; cbn [src_run src_step]; [reflexivity|].
  destruct (nth_error vals x); [|reflexivity]. destruct (nth_error vals y); reflexivity.
Qed.

Lemma src_step_length : forall o vals vals', src_step o vals = Some vals' -> length vals' = S (length vals).
Proof.
  intros o vals vals' H. destruct o as [k | b x y]; cbn [src_step] in H.
  - inversion H; subst. rewrite app_length. cbn [length]. lia.
  - destruct (nth_error vals x); [|discriminate]. destruct (nth_error vals y); [|discriminate].
    inversion H; subst. rewrite app_length. cbn [length]. lia.
Qed.

Definition neut (x : sop * bool) : sop := if snd x then fst x else SConst 0.

Lemma src_run_neutral : forall ops v0 ret vals vals' out,
  length vals = v0 -> length vals' = v0 ->
  (forall i, In i (live_before v0 ops ret) -> nth_error vals i = nth_error vals' i) ->
  src_run w ops vals = Some out ->
  exists out', src_run w (map neut (combine ops (live_flags_from v0 ops ret))) vals' = Some out'
    /\ forall i, In i ret -> nth_error out i = nth_error out' i.
Proof.
  induction ops as [|o r IH]; intros v0 ret vals vals' out Hl Hl' Hag Hrun.
  - cbn [src_run] in Hrun. inversion Hrun; subst. exists vals'. split; [reflexivity|]. exact Hag.
  - cbn [live_flags_from combine map]. cbn [live_before] in Hag.
    set (L := live_before (S v0) r ret) in *.
    rewrite src_run_cons in Hrun. rewrite src_run_cons.
    destruct (src_step o vals) as [vals1|] eqn:Hs; [|discriminate].
    destruct (memb v0 L) eqn:Hm; unfold neut at 1; cbn [fst snd].
    + (* live op: same step on both sides *)
      assert (Hs' : exists x, vals1 = vals ++ [x] /\ src_step o vals' = Some (vals' ++ [x])).
      { destruct o as [k | b x y]; cbn [src_step] in *.
        - inversion Hs; subst. eexists. split; reflexivity.
        - destruct (nth_error vals x) as [vx|] eqn:Hx; [|discriminate].
          destruct (nth_error vals y) as [vy|] eqn:Hy; [|discriminate].
          inversion Hs; subst.
          rewrite <- (Hag x) by (cbn [sop_uses app In]; auto). rewrite Hx.
          rewrite <- (Hag y) by (cbn [sop_uses app In]; auto). rewrite Hy.
          eexists. split; reflexivity. }
      destruct Hs' as [x [-> Hs']]. rewrite Hs'.
      apply (IH (S v0) ret (vals ++ [x]) (vals' ++ [x]) out); [| | | exact Hrun].
      * rewrite app_length. cbn [length]. lia.
      * rewrite app_length. cbn [length]. lia.
      * intros i Hi. apply nth_error_snoc_same; [lia|]. apply Hag. apply in_or_app. right. exact Hi.
    + (* dead op: replaced by a constant *)
      cbn [src_step].
      assert (Hx : exists x, vals1 = vals ++ [x]).
      { destruct o as [k | b x y]; cbn [src_step] in Hs.
        - inversion Hs. eexists; reflexivity.
        - destruct (nth_error vals x); [|discriminate]. destruct (nth_error vals y); [|discriminate].
          inversion Hs. eexists; reflexivity. }
      destruct Hx as [x ->].
      apply (IH (S v0) ret (vals ++ [x]) (vals' ++ [low w 0]) out); [| | | exact Hrun].
      * rewrite app_length. cbn [length]. lia.
      * rewrite app_length. cbn [length]. lia.
      * intros i Hi. apply nth_error_snoc_other; [lia | | apply Hag; exact Hi].
        intro Heq. apply memb_false in Hm. apply Hm. rewrite <- Hl, <- Heq. exact Hi.
Qed.

End Source.

Lemma src_sem_neutralize : forall p raw, src_sem p raw <> None -> src_sem (neutralize p) raw = src_sem p raw.
Proof.
  intros p raw Hne. unfold src_sem in *. cbn [neutralize sp_nargs sp_w sp_ops sp_ret].
  destruct (negb (Nat.eqb (length raw) (sp_nargs p))) eqn:Hn; [reflexivity|].
  apply negb_false_iff, Nat.eqb_eq in Hn.
  destruct (src_run (sp_w p) (sp_ops p) (map (low (sp_w p)) raw)) as [out|] eqn:Hrun; [|congruence].
  destruct (src_run_neutral (sp_w p) (sp_ops p) (sp_nargs p) (sret_uses (sp_ret p))
              (map (low (sp_w p)) raw) (map (low (sp_w p)) raw) out) as [out' [Hrun' Hag]].
  - rewrite map_length. exact Hn.
  - rewrite map_length. exact Hn.
  - reflexivity.
  - exact Hrun.
  - unfold live_flags. fold neut. rewrite Hrun'.
    destruct (sp_ret p) as [r|]; [|reflexivity].
    rewrite <- (Hag r) by (left; reflexivity). reflexivity.
Qed.

(* ---------------------------------------------------------------------------------------- *)
(* B. SSA-level semantics of the x86 IR *)

Definition venv := vreg -> Z.
Definition vupd (e : venv) (v : vreg) (x : Z) : venv := fun y => if Nat.eqb y v then x else e y.
Definition xop_eval (o : xop) (x y : Z) : Z :=
  match o with XAdd => x + y | XImul => x * y | XSub => x - y end.

Lemma vupd_same : forall e v x, vupd e v x v = x.
Proof. intros. unfold vupd. rewrite Nat.eqb_refl. reflexivity. Qed.
Lemma vupd_other : forall e v x y, y <> v -> vupd e v x y = e y.
Proof. intros e v x y H. unfold vupd. destruct (Nat.eqb y v) eqn:E; [apply Nat.eqb_eq in E; contradiction | reflexivity]. Qed.

Section VSem.
Variable w : width.
Variable raw : list Z.      (* raw contents of the argument registers / stack slots *)

Definition vdef_val (e : venv) (d : vdef) : Z :=
  match d with
  | VArg _ i => low w (nth i raw 0)
  | VStk _ j => low w (nth (max_reg_args + j) raw 0)
  | VImm _ k => low w k
  | VMov _ s => e s
  | VOp o _ t s => low w (xop_eval o (e t) (e s))
  end.

Fixpoint veval (l : list vdef) (e : venv) : venv :=
  match l with
  | [] => e
  | d :: r => veval r (vupd e (def_id d) (vdef_val e d))
  end.

Lemma veval_app : forall l1 l2 e, veval (l1 ++ l2) e = veval l2 (veval l1 e).
Proof. induction l1 as [|d l1 IH]; intros l2 e; cbn [app veval]; [reflexivity | apply IH]. Qed.

Lemma veval_snoc : forall l d e,
  veval (l ++ [d]) e = vupd (veval l e) (def_id d) (vdef_val (veval l e) d).
Proof. intros. rewrite veval_app. reflexivity. Qed.

Lemma vdef_val_ext : forall e1 e2 d,
  (forall u, In u (def_uses d) -> e1 u = e2 u) -> vdef_val e1 d = vdef_val e2 d.
Proof.
  intros e1 e2 d H. destruct d; cbn [vdef_val def_uses] in *; try reflexivity.
  - apply H. left. reflexivity.
  - rewrite (H t), (H s); cbn [In]; auto.
Qed.

(* dce keeps the values that are live at the end *)
Lemma dce_sound : forall rl live e v, In v live ->
  veval (rev (dce_rev rl live)) e v = veval (rev rl) e v.
Proof.
  induction rl as [|d r IH]; intros live e v Hv; cbn [dce_rev rev]; [reflexivity|].
  rewrite (veval_snoc (rev r)).
  destruct (memb (def_id d) live) eqn:Hm.
  - cbn [rev]. rewrite veval_snoc.
    destruct (Nat.eq_dec v (def_id d)) as [->|Hne].
    + rewrite !vupd_same. apply vdef_val_ext. intros u Hu. apply IH. apply in_or_app. left. exact Hu.
    + rewrite !vupd_other by exact Hne. apply IH. apply in_or_app. right. exact Hv.
  - rewrite vupd_other.
    + apply IH. exact Hv.
    + intro Heq. subst v. apply memb_false in Hm. contradiction.
Qed.

Lemma dce_rev_subset : forall rl live d, In d (dce_rev rl live) -> In d rl.
Proof.
  induction rl as [|x r IH]; intros live d H; cbn [dce_rev] in H; [contradiction|].
  destruct (memb (def_id x) live).
  - destruct H as [->|H]; [left; reflexivity | right; eapply IH; exact H].
  - right. eapply IH. exact H.
Qed.

(* --- LowerFuncOp --- *)
Lemma lower_args_head : forall i0 e,
  let d := if Nat.ltb i0 max_reg_args then VArg i0 i0 else VStk i0 (i0 - max_reg_args) in
  def_id d = i0 /\ vdef_val e d = low w (nth i0 raw 0).
Proof.
  intros i0 e. cbv zeta. destruct (Nat.ltb i0 max_reg_args) eqn:E; cbn [def_id vdef_val]; split; try reflexivity.
  apply Nat.ltb_ge in E. f_equal. f_equal. lia.
Qed.

Lemma veval_lower_args_out : forall n i0 e i, ~ (i0 <= i < i0 + n)%nat -> veval (lower_args n i0) e i = e i.
Proof.
  induction n as [|n IH]; intros i0 e i H; cbn [lower_args veval]; [reflexivity|].
  destruct (lower_args_head i0 e) as [Hid Hval]. rewrite Hid, Hval.
  rewrite IH by lia. apply vupd_other. lia.
Qed.

Lemma veval_lower_args_in : forall n i0 e i, (i0 <= i < i0 + n)%nat ->
  veval (lower_args n i0) e i = low w (nth i raw 0).
Proof.
  induction n as [|n IH]; intros i0 e i H; [lia|]. cbn [lower_args veval].
  destruct (lower_args_head i0 e) as [Hid Hval]. rewrite Hid, Hval.
  destruct (Nat.eq_dec i i0) as [->|Hne].
  - rewrite veval_lower_args_out by lia. apply vupd_same.
  - apply IH. lia.
Qed.

(* --- the table lookups used by ArithBinaryToX86 --- *)
Lemma lookup_binop_commutes : forall b xo, lookup_binop b = Some xo ->
  forall x y, xop_eval xo y x = bop_eval b x y.
Proof.
  intros b xo H x y. destruct b; vm_compute in H; inversion H; subst; cbn [xop_eval bop_eval]; lia.
Qed.

Lemma lookup_binop_add : forall b, lookup_binop b = Some XAdd -> b = BAdd.
Proof. intros b H. destruct b; vm_compute in H; congruence. Qed.

Lemma is_add_zero_spec : forall xo c, is_add_zero xo c = true -> xo = XAdd /\ c = Some 0.
Proof.
  intros xo c H. destruct xo; cbn [is_add_zero] in H; try discriminate.
  destruct c as [[| |]|]; try discriminate. auto.
Qed.

(* --- invariant of the lowering walk --- *)
Variable e0 : venv.
Definition e_of (st : lstate) : venv := veval (rev (l_out st)) e0.
Definition canon (x : Z) : Prop := low w x = x.

Record linv (st : lstate) (vals : list Z) : Prop := mkLinv {
  li_vals : Forall2 (fun v x => e_of st v = x) (l_vmap st) vals;
  li_canon : Forall canon vals;
  li_const : forall v k, const_of (l_cmap st) v = Some k -> e_of st v = low w k /\ (v < l_next st)%nat;
  li_fresh : forall v, In v (l_vmap st) -> (v < l_next st)%nat }.

Lemma canon_low : forall x, canon (low w x).
Proof. intro x. unfold canon. apply low_low. Qed.

Lemma lower_op_inv : forall st o st' vals vals',
  linv st vals -> lower_op st o = Some st' -> src_step w o vals = Some vals' -> linv st' vals'.
Proof.
  intros st o st' vals vals' [Hv Hc Hk Hf] Hl Hs.
  destruct o as [k | b x y]; cbn [lower_op src_step] in *.
  - (* constant *)
    destruct (in_si32 k); [|discriminate]. inversion Hl; subst st'; clear Hl. inversion Hs; subst vals'; clear Hs.
    set (d := l_next st).
    assert (He : e_of (mkL (S d) (l_vmap st ++ [d]) ((d, k) :: l_cmap st) (VImm d k :: l_out st))
                 = vupd (e_of st) d (low w k)).
    { unfold e_of. cbn [l_out rev]. rewrite veval_snoc. reflexivity. }
    constructor; cbn [l_vmap l_cmap l_next]; rewrite ?He.
    + apply Forall2_app.
      * eapply Forall2_weaken_In; [|exact Hv]. intros a b0 Hin Hab. cbn beta in *.
        rewrite vupd_other; [exact Hab|]. apply Hf in Hin. subst d. lia.
      * constructor; [|constructor]. apply vupd_same.
    + apply Forall_app. split; [exact Hc|]. constructor; [apply canon_low | constructor].
    + intros v k' H. cbn [const_of] in H. destruct (Nat.eqb d v) eqn:E.
      * apply Nat.eqb_eq in E. subst v. inversion H; subst k'. rewrite vupd_same. split; [reflexivity | lia].
      * apply Nat.eqb_neq in E. destruct (Hk v k' H) as [H1 H2]. rewrite vupd_other by congruence.
        split; [exact H1 | subst d; lia].
    + intros v Hin. apply in_app_or in Hin. destruct Hin as [Hin | [<- | []]]; [apply Hf in Hin; subst d; lia | lia].
  - (* binary op *)
    destruct (lookup_binop b) as [xo|] eqn:Hb; [|discriminate].
    destruct (nth_error (l_vmap st) x) as [lx|] eqn:Hx; [|discriminate].
    destruct (nth_error (l_vmap st) y) as [ly|] eqn:Hy; [|discriminate].
    destruct (nth_error vals x) as [vx|] eqn:Hvx; [|discriminate].
    destruct (nth_error vals y) as [vy|] eqn:Hvy; [|discriminate].
    inversion Hs; subst vals'; clear Hs.
    assert (Hex : e_of st lx = vx) by (eapply (Forall2_nth_error _ _ _ _ _ x lx Hv Hx); exact Hvx).
    assert (Hey : e_of st ly = vy) by (eapply (Forall2_nth_error _ _ _ _ _ y ly Hv Hy); exact Hvy).
    assert (Hlx : (lx < l_next st)%nat) by (apply Hf; eapply nth_error_In; exact Hx).
    assert (Hly : (ly < l_next st)%nat) by (apply Hf; eapply nth_error_In; exact Hy).
    assert (Hcy : canon vy).
    { rewrite Forall_forall in Hc. apply Hc. eapply nth_error_In. exact Hvy. }
    set (t := l_next st) in *.
    set (cm := match const_of (l_cmap st) ly with Some k => (t, k) :: l_cmap st | None => l_cmap st end) in *.
    (* facts about the copy t = ds.mov ly *)
    assert (Hcm : forall e', e' t = vy -> (forall v, (v < t)%nat -> e' v = e_of st v) ->
                  forall v k, const_of cm v = Some k -> e' v = low w k /\ (v < S t)%nat).
    { intros e' Ht Hold v k H. subst cm. destruct (const_of (l_cmap st) ly) as [ky|] eqn:Hky.
      - cbn [const_of] in H. destruct (Nat.eqb t v) eqn:E.
        + apply Nat.eqb_eq in E. subst v. inversion H; subst k. rewrite Ht.
          destruct (Hk ly ky Hky) as [H1 _]. rewrite <- Hey. split; [exact H1 | lia].
        + destruct (Hk v k H) as [H1 H2]. fold t in H2. rewrite Hold by exact H2. split; [exact H1 | lia].
      - destruct (Hk v k H) as [H1 H2]. fold t in H2. rewrite Hold by exact H2. split; [exact H1 | lia]. }
    destruct (is_add_zero xo (const_of (l_cmap st) lx)) eqn:Haz.
    + (* RS_Add_Zero *)
      inversion Hl; subst st'; clear Hl.
      apply is_add_zero_spec in Haz. destruct Haz as [-> Hc0].
      apply lookup_binop_add in Hb. subst b.
      destruct (Hk lx 0 Hc0) as [Hz _]. rewrite low_zero in Hz.
      assert (He : e_of (mkL (S t) (l_vmap st ++ [t]) cm (VMov t ly :: l_out st)) = vupd (e_of st) t (e_of st ly)).
      { unfold e_of. cbn [l_out rev]. rewrite veval_snoc. reflexivity. }
      constructor; cbn [l_vmap l_cmap l_next]; rewrite ?He.
      * apply Forall2_app.
        -- eapply Forall2_weaken_In; [|exact Hv]. intros a b0 Hin Hab. cbn beta in *.
           rewrite vupd_other; [exact Hab|]. apply Hf in Hin. fold t in Hin. lia.
        -- constructor; [|constructor]. rewrite vupd_same. cbn [bop_eval].
           rewrite Hey. rewrite <- Hex, Hz. cbn [Z.add]. symmetry. exact Hcy.
      * apply Forall_app. split; [exact Hc|]. constructor; [apply canon_low | constructor].
      * apply Hcm; [rewrite vupd_same; exact Hey | intros v Hlt; apply vupd_other; lia].
      * intros v Hin. apply in_app_or in Hin. destruct Hin as [Hin | [<- | []]]; [apply Hf in Hin; fold t in Hin; lia | lia].
    + (* the two-address op *)
      inversion Hl; subst st'; clear Hl.
      assert (He : e_of (mkL (S (S t)) (l_vmap st ++ [S t]) cm (VOp xo (S t) t lx :: VMov t ly :: l_out st))
                   = vupd (vupd (e_of st) t (e_of st ly)) (S t)
                       (low w (xop_eval xo (vupd (e_of st) t (e_of st ly) t) (vupd (e_of st) t (e_of st ly) lx)))).
      { unfold e_of. cbn [l_out rev]. rewrite <- app_assoc. cbn [app]. rewrite veval_app. reflexivity. }
      constructor; cbn [l_vmap l_cmap l_next]; rewrite ?He.
      * apply Forall2_app.
        -- eapply Forall2_weaken_In; [|exact Hv]. intros a b0 Hin Hab. cbn beta in *.
           apply Hf in Hin. fold t in Hin. rewrite !vupd_other by lia. exact Hab.
        -- constructor; [|constructor]. rewrite vupd_same. rewrite vupd_same. rewrite (vupd_other _ t _ lx) by lia.
           rewrite Hex, Hey. rewrite (lookup_binop_commutes b xo Hb). reflexivity.
      * apply Forall_app. split; [exact Hc|]. constructor; [apply canon_low | constructor].
      * intros v k H.
        destruct (Hcm (vupd (e_of st) t (e_of st ly)) ltac:(rewrite vupd_same; exact Hey)
                      ltac:(intros v' Hlt; apply vupd_other; lia) v k H) as [H1 H2].
        rewrite vupd_other by lia. split; [exact H1 | lia].
      * intros v Hin. apply in_app_or in Hin. destruct Hin as [Hin | [<- | []]]; [apply Hf in Hin; fold t in Hin; lia | lia].
Qed.

Lemma lower_ops_inv : forall ops st st' vals out,
  linv st vals -> lower_ops st ops = Some st' -> src_run w ops vals = Some out -> linv st' out.
Proof.
  induction ops as [|o r IH]; intros st st' vals out Hi Hl Hs.
  - cbn [lower_ops src_run] in *. inversion Hl; inversion Hs; subst. exact Hi.
  - cbn [lower_ops] in Hl. rewrite src_run_cons in Hs.
    destruct (lower_op st o) as [st1|] eqn:H1; [|discriminate].
    destruct (src_step w o vals) as [vals1|] eqn:H2; [|discriminate].
    eapply IH; [eapply lower_op_inv; eassumption | exact Hl | exact Hs].
Qed.

(* argument moves / stack loads come only from LowerFuncOp *)
Definition arg_def (d : vdef) : bool := match d with VArg _ _ | VStk _ _ => true | _ => false end.

Lemma lower_op_args : forall st o st' d, lower_op st o = Some st' -> In d (l_out st') -> arg_def d = true -> In d (l_out st).
Proof.
  intros st o st' d Hl Hin Ha. destruct o as [k | b x y]; cbn [lower_op] in Hl.
  - destruct (in_si32 k); [|discriminate]. inversion Hl; subst st'. cbn [l_out In] in Hin.
    destruct Hin as [<-|Hin]; [discriminate | exact Hin].
  - destruct (lookup_binop b); [|discriminate]. destruct (nth_error (l_vmap st) x); [|discriminate].
    destruct (nth_error (l_vmap st) y); [|discriminate].
    destruct (is_add_zero _ _); inversion Hl; subst st'; cbn [l_out In] in Hin.
    + destruct Hin as [<-|Hin]; [discriminate | exact Hin].
    + destruct Hin as [<-|[<-|Hin]]; [discriminate | discriminate | exact Hin].
Qed.

Lemma lower_ops_args : forall ops st st' d, lower_ops st ops = Some st' -> In d (l_out st') -> arg_def d = true -> In d (l_out st).
Proof.
  induction ops as [|o r IH]; intros st st' d Hl Hin Ha; cbn [lower_ops] in Hl.
  - inversion Hl; subst. exact Hin.
  - destruct (lower_op st o) as [st1|] eqn:H1; [|discriminate].
    eapply lower_op_args; [exact H1 | | exact Ha]. eapply IH; eassumption.
Qed.

Lemma lower_args_shape : forall n i0 d, In d (lower_args n i0) ->
  exists i, (i0 <= i < i0 + n)%nat /\
    ((i < max_reg_args)%nat /\ d = VArg i i \/ (max_reg_args <= i)%nat /\ d = VStk i (i - max_reg_args)).
Proof.
  induction n as [|n IH]; intros i0 d H; cbn [lower_args In] in H; [contradiction|].
  destruct H as [<-|H].
  - exists i0. split; [lia|]. destruct (Nat.ltb i0 max_reg_args) eqn:E.
    + apply Nat.ltb_lt in E. left. auto.
    + apply Nat.ltb_ge in E. right. auto.
  - destruct (IH _ _ H) as [i [Hr Hd]]. exists i. split; [lia | exact Hd].
Qed.

End VSem.

(* value computed by the IR function, whatever the initial environment *)
Definition vsem (w : width) (raw : list Z) (e0 : venv) (f : vfunc) : option Z :=
  match vf_ret f with Some v => Some (veval w raw (vf_defs f) e0 v) | None => None end.

Theorem lower_strict_sound : forall q f raw e0 res,
  lower_strict q = Some f -> src_sem q raw = Some res -> vsem (sp_w q) raw e0 f = res.
Proof.
  intros q f raw e0 res Hl Hs. unfold lower_strict in Hl. unfold src_sem in Hs.
  destruct (negb (Nat.eqb (length raw) (sp_nargs q))) eqn:Hn; [discriminate|].
  apply negb_false_iff, Nat.eqb_eq in Hn.
  set (n := sp_nargs q) in *. set (w := sp_w q) in *.
  destruct (lower_ops (mkL n (seq 0 n) [] (rev (lower_args n 0))) (sp_ops q)) as [st|] eqn:Hlo; [|discriminate].
  destruct (src_run w (sp_ops q) (map (low w) raw)) as [out|] eqn:Hrun; [|discriminate].
  assert (Hinv : linv w raw e0 st out).
  { eapply lower_ops_inv; [| exact Hlo | exact Hrun]. constructor; cbn [l_vmap l_cmap l_next].
    - unfold e_of. cbn [l_out]. rewrite rev_involutive.
      rewrite <- Hn. rewrite <- (map_length (low w) raw). apply Forall2_seq.
      intros i x Hi. cbn [Nat.add]. rewrite nth_error_map in Hi.
      destruct (nth_error raw i) as [r0|] eqn:Hr0; [|discriminate]. inversion Hi; subst x.
      rewrite veval_lower_args_in.
      + f_equal. apply nth_error_nth. exact Hr0.
      + rewrite ?map_length. assert (i < length raw)%nat by (apply nth_error_Some; congruence). lia.
    - rewrite Forall_forall. intros x Hin. apply in_map_iff in Hin. destruct Hin as [y [<- _]]. apply canon_low.
    - intros v k H. discriminate.
    - intros v Hin. apply in_seq in Hin. lia. }
  destruct Hinv as [Hv _ _ _].
  destruct (sp_ret q) as [r|].
  - destruct (nth_error (l_vmap st) r) as [v|] eqn:Hr; [|discriminate].
    inversion Hl; subst f; clear Hl.
    destruct (nth_error out r) as [x|] eqn:Hx; [|discriminate]. inversion Hs; subst res; clear Hs.
    unfold vsem. cbn [vf_ret vf_defs]. f_equal.
    rewrite dce_sound by (left; reflexivity).
    eapply (Forall2_nth_error _ _ _ _ _ r v Hv Hr). exact Hx.
  - inversion Hl; subst f. inversion Hs; subst res. reflexivity.
Qed.
