(* C21/ProofsAbi.v -- the whole modelled pipeline against the SysV ABI:
   body_correct      lowering + allocation + second canonicalize compute the source value in rax
   pipeline_correct  ... wrapped in the prologue/epilogue: rax, rsp, callee-saved registers
   stack-argument offsets (the defect of the unrepaired prologue pass), refutation witnesses. *)
From Coq Require Import ZArith List Bool Lia Arith.
From XV Require Import Gen.C21_tables C21.Model C21.Spec C21.ProofsMachine C21.ProofsLower C21.ProofsSim.
Import ListNotations.
Local Open Scope Z_scope.

(* ---------------------------------------------------------------------------------------- *)
(* the generated tables are the SysV facts *)

Lemma tables_match_sysv :
  c21_arg_regs = sysv_arg_regs /\ c21_ret_reg = sysv_ret_reg /\ c21_callee_saved = sysv_callee_saved
  /\ c21_stack_slot = 8 /\ c21_max_reg_args = 6 /\ c21_pop_reversed = true /\ c21_binop_copies_rhs = true.
Proof. repeat split; reflexivity. Qed.

Lemma max_reg_args_6 : max_reg_args = 6%nat.
Proof. reflexivity. Qed.

Lemma arg_reg_not_rsp : forall i, (i < 6)%nat -> arg_reg i <> RSP.
Proof.
  intros i H. do 6 (destruct i as [|i]; [vm_compute; discriminate|]). lia.
Qed.

Lemma stack_arg_offset_eq : forall i, c21_stack_arg_offset i = 8 * (i + 1).
Proof. intro i. unfold c21_stack_arg_offset. lia. Qed.

(* ---------------------------------------------------------------------------------------- *)
(* the stack-argument offsets *)

(* rsp after k pushes, plus the offset the emitted load uses, against the SysV location *)
Definition load_addr (shift : bool) (entry_rsp : Z) (k : Z) (i : Z) : Z :=
  (entry_rsp - 8 * k) + (c21_stack_arg_offset i + (if shift then c21_stack_slot * k else 0)).

Theorem stack_args_offset : forall shift entry_rsp k i, 0 <= k ->
  (load_addr shift entry_rsp k i = sysv_stack_arg_addr entry_rsp i <-> shift = true \/ k = 0).
Proof.
  intros shift sp k i Hk. unfold load_addr, sysv_stack_arg_addr. rewrite stack_arg_offset_eq.
  change c21_stack_slot with 8. destruct shift; split; intro H; try lia;
    try (left; reflexivity); try (destruct H as [H|H]; [discriminate | lia]).
Qed.

(* without rebasing, k pushes make the load of argument i read the slot of argument i-k (or, for i < k,
   the return address / the save area) *)
Theorem stack_args_offset_unshifted : forall entry_rsp k i,
  load_addr false entry_rsp k i = sysv_stack_arg_addr entry_rsp (i - k).
Proof. intros. unfold load_addr, sysv_stack_arg_addr. rewrite stack_arg_offset_eq. lia. Qed.

(* ---------------------------------------------------------------------------------------- *)
(* used_callee *)

Definition is64 (w : width) : bool := match w with W64 => true | _ => false end.

Lemma used_callee_spec : forall byi w rs acc,
  NoDup acc ->
  NoDup (used_callee byi w rs acc)
  /\ forall r, In r (used_callee byi w rs acc) <->
       In r acc \/ (In r rs /\ (byi || is64 w) = true /\ memz r c21_callee_saved = true).
Proof.
  intros byi w rs. induction rs as [|x rs IH]; intros acc Hnd; cbn [used_callee].
  - split; [apply NoDup_rev; exact Hnd|]. intro r. rewrite <- in_rev. cbn [In]. tauto.
  - fold (is64 w).
    destruct ((byi || is64 w) && memz x c21_callee_saved && negb (memz x acc)) eqn:E.
    + apply andb_true_iff in E. destruct E as [E E3]. apply andb_true_iff in E. destruct E as [E1 E2].
      apply negb_true_iff in E3.
      assert (Hnin : ~ In x acc) by (intro Hin; apply memz_In in Hin; congruence).
      destruct (IH (x :: acc) ltac:(constructor; assumption)) as [H1 H2]. split; [exact H1|].
      intro r. rewrite H2. cbn [In]. split.
      * intros [[Hx|H]|[H Hr]].
        -- subst r. right. split; [left; reflexivity | split; assumption].
        -- left. exact H.
        -- right. split; [right; exact H | exact Hr].
      * intros [H|[[Hx|H] Hr]].
        -- left. right. exact H.
        -- left. left. exact Hx.
        -- right. split; assumption.
    + destruct (IH acc Hnd) as [H1 H2]. split; [exact H1|].
      intro r. rewrite H2. cbn [In]. split.
      * intros [H|[H Hr]]; [left; exact H | right; split; [right; exact H | exact Hr]].
      * intros [H|[[Hx|H] Hr]].
        -- left. exact H.
        -- subst r. destruct Hr as [Hr1 Hr2]. rewrite Hr1, Hr2 in E. cbn [andb] in E. apply negb_false_iff in E.
           left. apply memz_In. exact E.
        -- right. split; assumption.
Qed.

Lemma used_callee_props : forall byi w rs,
  let u := used_callee byi w rs [] in
  NoDup u /\ ~ In RSP u /\ ~ In RAX u /\ (length u <= 6)%nat
  /\ (forall r, In r u -> In r rs)
  /\ (forall r, (byi || is64 w) = true -> In r c21_callee_saved -> In r rs -> In r u).
Proof.
  intros byi w rs u. destruct (used_callee_spec byi w rs [] (NoDup_nil _)) as [Hnd Hin]. fold u in Hnd, Hin.
  assert (Hsub : forall r, In r u -> In r c21_callee_saved).
  { intros r H. apply Hin in H. destruct H as [[]|[_ [_ H]]]. apply memz_In. exact H. }
  split; [exact Hnd|]. split; [|split; [|split; [|split]]].
  - intro H. apply Hsub in H. vm_compute in H. intuition discriminate.
  - intro H. apply Hsub in H. vm_compute in H. intuition discriminate.
  - change 6%nat with (length c21_callee_saved). apply NoDup_incl_length; [exact Hnd | exact Hsub].
  - intros r H. apply Hin in H. destruct H as [[]|[H _]]. exact H.
  - intros r Hb Hc Hr. apply Hin. right. split; [exact Hr|]. split; [exact Hb|]. apply memz_In. exact Hc.
Qed.

(* ---------------------------------------------------------------------------------------- *)
(* shape of the lowered function: argument moves and stack loads *)

Lemma lower_strict_args : forall q f d, lower_strict q = Some f -> In d (vf_defs f) -> arg_def d = true ->
  exists i, (i < sp_nargs q)%nat /\
    ((i < max_reg_args)%nat /\ d = VArg i i \/ (max_reg_args <= i)%nat /\ d = VStk i (i - max_reg_args)).
Proof.
  intros q f d Hl Hin Ha. unfold lower_strict in Hl.
  destruct (lower_ops _ (sp_ops q)) as [st|] eqn:Hlo; [|discriminate].
  assert (Hsub : In d (l_out st)).
  { destruct (sp_ret q) as [r|].
    - destruct (nth_error (l_vmap st) r); [|discriminate]. inversion Hl; subst f. cbn [vf_defs] in Hin.
      apply in_rev in Hin. eapply dce_rev_subset. exact Hin.
    - inversion Hl; subst f. cbn [vf_defs] in Hin. apply in_rev in Hin. eapply dce_rev_subset. exact Hin. }
  pose proof (lower_ops_args _ _ _ d Hlo Hsub Ha) as H0. cbn [l_out] in H0. apply in_rev in H0.
  destruct (lower_args_shape _ _ _ H0) as [i [Hr Hd]]. exists i. split; [lia | exact Hd].
Qed.

(* ---------------------------------------------------------------------------------------- *)
(* the body: argument moves, arithmetic, move to the return register *)

Lemma body_ops_split : forall w alloc f,
  body_ops w alloc f = flat_map (emit2 w alloc) (vf_defs f)
                       ++ filter (fun x => negb (redundant (fst x))) (assign_ret w alloc (vf_ret f)).
Proof. intros. unfold body_ops. rewrite filter_app, filter_emit2. reflexivity. Qed.

Lemma body_correct : forall q f alloc raw s1 delta,
  lower_strict q = Some f ->
  alloc_ok alloc f = true ->
  (forall i, (i < sp_nargs q)%nat -> (i < max_reg_args)%nat -> regs s1 (arg_reg i) = nth i raw 0) ->
  (forall d j, In (VStk d j) (vf_defs f) -> stk_ok raw delta s1 j) ->
  let w := sp_w q in
  let e := fun v => low w (regs s1 (alloc v)) in
  exists sb, exec (map (shift_instr delta) (map fst (body_ops w alloc f))) s1 = Running sb
    /\ (forall rv, vf_ret f = Some rv -> low w (regs sb RAX) = veval w raw (vf_defs f) e rv)
    /\ mem sb = mem s1
    /\ regs sb RSP = regs s1 RSP
    /\ (forall r, ~ In r (map snd (body_ops w alloc f)) -> regs sb r = regs s1 r).
Proof.
  intros q f alloc raw s1 delta Hl Hok Hregs Hstk w e.
  unfold alloc_ok in Hok. rewrite body_ops_split.
  set (res := reserved_regs (vf_defs f)) in *.
  destruct (sim_defs w raw alloc delta (vf_defs f) s1 e (ret_uses (vf_ret f)) res) as [st' [He [Hag [Hm [Hfr Hrs]]]]].
  - left. reflexivity.
  - intros d i Hin. split.
    + subst res. unfold reserved_regs. right. apply in_flat_map. exists (VArg d i). split; [exact Hin | left; reflexivity].
    + destruct (lower_strict_args q f (VArg d i) Hl Hin eq_refl) as [i' [Hn [[Hlt Heq]|[_ Heq]]]]; [|discriminate].
      inversion Heq; subst. apply Hregs; assumption.
  - exact Hstk.
  - intros v _. reflexivity.
  - exact Hok.
  - rewrite !map_app. rewrite (exec_app_running _ _ _ _ He).
    assert (Hrsp' : regs st' RSP = regs s1 RSP) by (apply Hrs; left; reflexivity).
    destruct (vf_ret f) as [rv|] eqn:Hret; cbn [assign_ret filter].
    + assert (Hrv : low w (regs st' (alloc rv)) = veval w raw (vf_defs f) e rv) by (apply Hag; left; reflexivity).
      cbn [fst redundant]. destruct (c21_ret_reg =? alloc rv) eqn:Eq; cbn [negb map exec].
      * apply Z.eqb_eq in Eq. exists st'. split; [reflexivity|]. split; [|split; [exact Hm|split; [exact Hrsp'|]]].
        -- intros rv' Hrv'. inversion Hrv'; subst rv'. change RAX with c21_ret_reg. rewrite Eq. exact Hrv.
        -- intros r Hnin. apply Hfr. intro Hin. apply Hnin. rewrite app_nil_r. exact Hin.
      * cbn [shift_instr step]. eexists. split; [reflexivity|]. cbn [regs mem].
        split; [|split; [exact Hm|split]].
        -- intros rv' Hrv'. inversion Hrv'; subst rv'. change RAX with c21_ret_reg. rewrite write_reg_same. exact Hrv.
        -- rewrite write_reg_other by (vm_compute; discriminate). exact Hrsp'.
        -- intros r Hnin. cbn [map snd] in Hnin.
           rewrite write_reg_other.
           ++ apply Hfr. intro Hin. apply Hnin. apply in_or_app. left. exact Hin.
           ++ intro Heq. apply Hnin. apply in_or_app. right. left. congruence.
    + cbn [map exec]. exists st'. split; [reflexivity|]. split; [intros rv Hrv; discriminate|].
      split; [exact Hm|]. split; [exact Hrsp'|].
      intros r Hnin. apply Hfr. intro Hin. apply Hnin. rewrite app_nil_r. exact Hin.
Qed.

(* ---------------------------------------------------------------------------------------- *)
(* the entry state demanded by the SysV ABI *)

Record entry_ok (n : nat) (raw : list Z) (entry_rsp ra : Z) (s0 : state) : Prop := mkEntry {
  en_rsp : regs s0 RSP = entry_rsp;
  en_al : aligned entry_rsp = true;
  en_room : 48 <= entry_rsp;                                  (* room for the six callee-saved registers *)
  en_top : entry_rsp + 8 + 8 * Z.of_nat n < M64;
  en_ra : mem s0 entry_rsp = Some ra;                          (* return address *)
  en_regs : forall i, (i < n)%nat -> (i < 6)%nat -> regs s0 (nth i sysv_arg_regs (-1)) = nth i raw 0;
  en_stk : forall j, (6 + j < n)%nat ->
           mem s0 (sysv_stack_arg_addr entry_rsp (Z.of_nat j)) = Some (nth (6 + j) raw 0) }.

Definition has_stk (l : list vdef) : bool :=
  existsb (fun d => match d with VStk _ _ => true | _ => false end) l.

Definition pushed (ver : version) (w : width) (alloc : vreg -> reg) (f : vfunc) : list reg :=
  used_callee (v_by_index ver) w (map snd (body_ops w alloc f)) [].

(* the stack-passed arguments are read from the right slots *)
Definition stack_args_ok (ver : version) (w : width) (alloc : vreg -> reg) (f : vfunc) : Prop :=
  v_shift ver = true \/ has_stk (vf_defs f) = false \/ pushed ver w alloc f = [].

Theorem pipeline_correct : forall ver p f alloc raw entry_rsp ra s0 res,
  c21_lower p = Some f ->
  src_sem p raw = Some res ->
  alloc_ok alloc f = true ->
  entry_ok (sp_nargs p) raw entry_rsp ra s0 ->
  stack_args_ok ver (sp_w p) alloc f ->
  exists sf, exec (c21_finish ver (sp_w p) alloc f) s0 = Returned sf ra
    /\ regs sf RSP = entry_rsp + 8
    /\ (forall v, res = Some v -> low (sp_w p) (regs sf RAX) = v)
    /\ ((sp_w p = W64 \/ v_by_index ver = true) -> forall r, In r sysv_callee_saved -> regs sf r = regs s0 r).
Proof.
  intros ver p f alloc raw sp0 ra s0 res Hlow Hsem Hok [Hrsp Hal Hroom Htop Hra Hregs Hstk] Hsa.
  unfold c21_lower, c21_lower_v in Hlow. destruct (rejects_v c21_rejects_imul8 p); [discriminate|].
  assert (Hsem' : src_sem (neutralize p) raw = Some res) by (rewrite src_sem_neutralize; [exact Hsem | congruence]).
  set (q := neutralize p) in *.
  assert (Hw : sp_w q = sp_w p) by reflexivity. assert (Hn : sp_nargs q = sp_nargs p) by reflexivity.
  set (w := sp_w p) in *. set (n := sp_nargs p) in *.
  unfold c21_finish. unfold stack_args_ok, pushed in Hsa.
  set (ops := body_ops w alloc f) in *.
  set (used := used_callee (v_by_index ver) w (map snd ops) []) in *.
  destruct (used_callee_props (v_by_index ver) w (map snd ops)) as [Hnd [Hnrsp [Hnrax [Hlen [Hsub Hall]]]]].
  fold used in Hnd, Hnrsp, Hnrax, Hlen, Hsub, Hall.
  set (k := Z.of_nat (length used)) in *.
  set (delta := if v_shift ver then c21_stack_slot * k else 0).
  assert (Hbody : (if v_shift ver then map (shift_instr (c21_stack_slot * k)) (map fst ops) else map fst ops)
                  = map (shift_instr delta) (map fst ops)).
  { subst delta. destruct (v_shift ver); [reflexivity | symmetry; apply map_shift_0]. }
  rewrite Hbody. change c21_pop_reversed with true. cbv iota.
  destruct (wrap_correct used (map (shift_instr delta) (map fst ops)) s0 sp0 ra Hrsp Hal ltac:(lia) ltac:(lia) Hnd Hnrsp Hra)
    as [s1 [He1 [Hr1 [Hf1 [Hm1 Hcont]]]]].
  fold k in Hr1.
  (* the body, from the state after the pushes *)
  destruct (body_correct q f alloc raw s1 delta Hlow Hok) as [sb [Heb [Hval [Hmb [Hrb Hfb]]]]].
  - intros i Hi1 Hi2. rewrite max_reg_args_6 in Hi2. rewrite Hf1 by (apply arg_reg_not_rsp; exact Hi2).
    unfold arg_reg. change c21_arg_regs with sysv_arg_regs. apply Hregs; assumption.
  - intros d j Hin.
    destruct (lower_strict_args q f (VStk d j) Hlow Hin eq_refl) as [i [Hi [[_ Heq]|[Hge Heq]]]]; [discriminate|].
    inversion Heq; subst d j. rewrite max_reg_args_6 in *.
    assert (Hdk : delta = 8 * k \/ k = 0 /\ delta = 0).
    { subst delta. destruct Hsa as [Hs|[Hs|Hs]].
      - rewrite Hs. left. reflexivity.
      - exfalso. unfold has_stk in Hs. apply Bool.not_true_iff_false in Hs. apply Hs. apply existsb_exists.
        eexists. split; [exact Hin | reflexivity].
      - right. subst k. rewrite Hs. cbn [length]. split; [reflexivity|]. destruct (v_shift ver); reflexivity. }
    unfold stk_ok. cbv zeta. rewrite Hr1. rewrite stack_arg_offset_eq.
    assert (Haddr : sp0 - 8 * k + (8 * (Z.of_nat (i - 6) + 1) + delta) = sysv_stack_arg_addr sp0 (Z.of_nat (i - 6))).
    { unfold sysv_stack_arg_addr. lia. }
    rewrite Haddr. unfold sysv_stack_arg_addr. rewrite low64_small by lia. split.
    + replace (sp0 + 8 + 8 * Z.of_nat (i - 6)) with (sp0 + 8 * (1 + Z.of_nat (i - 6))) by lia.
      apply aligned_shift. exact Hal.
    + rewrite Hmb || idtac. rewrite Hm1 by lia. rewrite max_reg_args_6.
      specialize (Hstk (i - 6)%nat ltac:(lia)). unfold sysv_stack_arg_addr in Hstk. exact Hstk.
  - (* the epilogue *)
    destruct (Hcont sb Heb Hrb) as [sf [Hef [Hrf [Hused [Hother Hmf]]]]].
    + intros a Ha. rewrite Hmb. reflexivity.
    + exists sf. split; [exact Hef|]. split; [exact Hrf|]. split.
      * intros v ->. rewrite Hother by (first [exact Hnrax | vm_compute; discriminate]).
        pose proof (lower_strict_sound q f raw (fun v0 => low (sp_w q) (regs s1 (alloc v0))) (Some v) Hlow Hsem') as Hv.
        unfold vsem in Hv. cbv zeta in Hval. change (sp_w q) with w in Hv, Hval. destruct (vf_ret f) as [rv|] eqn:Hret; [|discriminate].
        injection Hv as Hv'. rewrite (Hval rv eq_refl). exact Hv'.
      * intros Hcs r Hr. change sysv_callee_saved with c21_callee_saved in Hr.
        destruct (in_dec Z.eq_dec r used) as [Hin|Hnin]; [apply Hused; exact Hin|].
        assert (Hrr : r <> RSP) by (intro; subst r; vm_compute in Hr; intuition discriminate).
        rewrite Hother by assumption.
        rewrite Hfb; [apply Hf1; exact Hrr|].
        intro Hin. apply Hnin. apply Hall; [| exact Hr | exact Hin].
        destruct Hcs as [Hw64|Hbi]; [rewrite Hw64; apply orb_true_r | rewrite Hbi; reflexivity].
Qed.

(* ---------------------------------------------------------------------------------------- *)
(* readable projections of wrap_correct and pipeline_correct (used by Props/C21.v) *)

Definition frame_hyps (ps : list reg) (s : state) (sp ra : Z) : Prop :=
  regs s RSP = sp /\ aligned sp = true /\ 8 * Z.of_nat (length ps) <= sp /\ sp + 8 < M64
  /\ NoDup ps /\ ~ In RSP ps /\ mem s sp = Some ra.

(* a body is well behaved from s1 when it runs to its end, is stack-balanced and leaves the save area and
   the return slot alone *)
Definition body_ok (body : list instr) (s1 sb : state) (sp : Z) : Prop :=
  exec body s1 = Running sb /\ regs sb RSP = regs s1 RSP
  /\ (forall a, regs s1 RSP <= a <= sp -> mem sb a = mem s1 a).

Theorem callee_saved_restored : forall ps body s sp ra, frame_hyps ps s sp ra ->
  exists s1, exec (map IPush ps) s = Running s1 /\
    forall sb, body_ok body s1 sb sp ->
      exists sf, exec (map IPush ps ++ body ++ map IPop (rev ps) ++ [IRet]) s = Returned sf ra
        /\ (forall r, In r ps -> regs sf r = regs s r)                       (* pushed: restored *)
        /\ (forall r, ~ In r ps -> r <> RSP -> regs sb r = regs s1 r -> regs sf r = regs s r).  (* untouched *)
Proof.
  intros ps body s sp ra [H1 [H2 [H3 [H4 [H5 [H6 H7]]]]]].
  destruct (wrap_correct ps body s sp ra H1 H2 H3 H4 H5 H6 H7) as [s1 [He [_ [Hf [_ Hc]]]]].
  exists s1. split; [exact He|]. intros sb [Hb1 [Hb2 Hb3]].
  destruct (Hc sb Hb1 Hb2 Hb3) as [sf [Hef [_ [Hu [Ho _]]]]].
  exists sf. split; [exact Hef|]. split; [exact Hu|].
  intros r Hn Hr Hsame. rewrite Ho by assumption. rewrite Hsame. apply Hf. exact Hr.
Qed.

Theorem rsp_restored : forall ps body s sp ra, frame_hyps ps s sp ra ->
  exists s1, exec (map IPush ps) s = Running s1 /\
    forall sb, body_ok body s1 sb sp ->
      exists sf, exec (map IPush ps ++ body ++ map IPop (rev ps) ++ [IRet]) s = Returned sf ra
        /\ regs sf RSP = sp + 8.
Proof.
  intros ps body s sp ra [H1 [H2 [H3 [H4 [H5 [H6 H7]]]]]].
  destruct (wrap_correct ps body s sp ra H1 H2 H3 H4 H5 H6 H7) as [s1 [He [_ [_ [_ Hc]]]]].
  exists s1. split; [exact He|]. intros sb [Hb1 [Hb2 Hb3]].
  destruct (Hc sb Hb1 Hb2 Hb3) as [sf [Hef [Hr _]]]. exists sf. split; assumption.
Qed.

(* the order matters: popping in push order (not reversed) swaps two saved registers *)
Example pop_order_matters :
  exists s sf, exec (map IPush [3; 12] ++ map IPop [3; 12] ++ [IRet]) s = Returned sf 77
               /\ regs sf 3 <> regs s 3.
Proof.
  exists (mkState (fun r => if r =? 4 then 4096 else r) (fun a => if a =? 4096 then Some 77 else None)).
  eexists. split; [vm_compute; reflexivity|]. vm_compute. discriminate.
Qed.
