(* C21/Model.v -- executable model for property C21 (x86 backend: source results + SysV ABI).
   Definitions only (no proofs).

   Part 1  an x86-64 SUBSET machine: sixteen 64-bit registers, a word-addressed stack memory, the
           instructions the xDSL x86 pipeline emits for func/arith integer programs
             mov r,r | mov r,imm | mov r,[base+k] | add r,r | sub r,r | imul r,r | push r | pop r | ret
           in their 64/32/16/8-bit forms (32-bit writes zero-extend, 16/8-bit writes merge), wrap-around
           written out (mod 2^w).
   Part 2  the source language (straight-line func/arith integer functions).
   Part 3  the lowering kernels, mirroring the Python:
             LowerFuncOp            xdsl/backend/x86/lowering/convert_func_to_x86_func.py
             LowerReturnOp
             ArithConstantToX86     xdsl/backend/x86/lowering/convert_arith_to_x86.py
             ArithBinaryToX86       (copy rhs into a fresh register, two-address op with lhs as source)
             RS_Add_Zero            xdsl/transforms/canonicalization_patterns/x86.py (fused into the walk:
                                    the greedy driver reaches the same normal form)
             region_dce / dce       backward liveness filter
             RemoveRedundantDS_Mov  second canonicalize, after allocation
             X86PrologueEpilogueInsertion  xdsl/backend/x86/prologue_epilogue_insertion.py
           The register ALLOCATION is not re-modelled (property C19): it is a parameter `alloc`.
   SysV facts come from coq/Gen/C21_tables.v (regenerated from the source on every run). *)
From Coq Require Import ZArith List Bool.
From XV Require Import Gen.C21_tables.
Import ListNotations.
Local Open Scope Z_scope.

(* ------------------------------------------------------------------------------------------ *)
(* Part 1: machine *)

Inductive width := W8 | W16 | W32 | W64.
Definition bits (w : width) : Z := match w with W8 => 8 | W16 => 16 | W32 => 32 | W64 => 64 end.
Definition modulus (w : width) : Z := 2 ^ bits w.
Definition low (w : width) (x : Z) : Z := x mod modulus w.

Definition reg := Z.            (* hardware index 0..15: rax rcx rdx rbx rsp rbp rsi rdi r8..r15 *)
Definition RAX : reg := 0.
Definition RSP : reg := 4.

Inductive instr :=
| IMovRR (w : width) (d s : reg)
| IMovRI (w : width) (d : reg) (imm : Z)
| ILoad (w : width) (d base : reg) (off : Z)        (* mov d, [base+off] *)
| IAdd (w : width) (d s : reg)
| ISub (w : width) (d s : reg)
| IImul (w : width) (d s : reg)
| IPush (s : reg)
| IPop (d : reg)
| IRet.

Definition upd {A} (f : Z -> A) (k : Z) (v : A) : Z -> A := fun x => if x =? k then v else f x.

Record state := mkState { regs : reg -> Z; mem : Z -> option Z }.

(* writing the low w bits of register r: 64-bit replaces, 32-bit zero-extends, 16/8-bit merge *)
Definition write_reg (w : width) (r : reg) (v : Z) (rf : reg -> Z) : reg -> Z :=
  match w with
  | W64 => upd rf r (low W64 v)
  | W32 => upd rf r (low W32 v)
  | _ => upd rf r (rf r - low w (rf r) + low w v)
  end.

Inductive outcome :=
| Running (s : state)
| Returned (s : state) (target : Z)     (* `ret` executed: popped return address = target *)
| Fault (code : Z).                      (* 3 = unmapped stack slot, 4 = misaligned access, 5 = pop rsp *)

Definition aligned (a : Z) : bool := a mod 8 =? 0.

Definition step (i : instr) (s : state) : outcome :=
  match i with
  | IMovRR w d r => Running (mkState (write_reg w d (regs s r) (regs s)) (mem s))
  | IMovRI w d k => Running (mkState (write_reg w d k (regs s)) (mem s))
  | ILoad w d b off =>
      let a := low W64 (regs s b + off) in
      if aligned a then
        match mem s a with
        | Some v => Running (mkState (write_reg w d v (regs s)) (mem s))
        | None => Fault 3
        end
      else Fault 4
  | IAdd w d r => Running (mkState (write_reg w d (regs s d + regs s r) (regs s)) (mem s))
  | ISub w d r => Running (mkState (write_reg w d (regs s d - regs s r) (regs s)) (mem s))
  | IImul w d r => Running (mkState (write_reg w d (regs s d * regs s r) (regs s)) (mem s))
  | IPush r =>
      let sp := low W64 (regs s RSP - 8) in
      if aligned sp then Running (mkState (upd (regs s) RSP sp) (upd (mem s) sp (Some (regs s r))))
      else Fault 4
  | IPop d =>
      let sp := regs s RSP in
      if d =? RSP then Fault 5 else
      if aligned sp then
        match mem s sp with
        | Some v => Running (mkState (upd (upd (regs s) RSP (low W64 (sp + 8))) d v) (mem s))
        | None => Fault 3
        end
      else Fault 4
  | IRet =>
      let sp := regs s RSP in
      if aligned sp then
        match mem s sp with
        | Some ra => Returned (mkState (upd (regs s) RSP (low W64 (sp + 8))) (mem s)) ra
        | None => Fault 3
        end
      else Fault 4
  end.

(* `imul` has no 8-bit two-operand register form: such a line is not an x86-64 instruction (the assembler
   rejects it); everything else of the subset is encodable *)
Definition encodable (i : instr) : bool :=
  match i with IImul W8 _ _ => false | _ => true end.

Fixpoint exec (l : list instr) (s : state) : outcome :=
  match l with
  | [] => Running s
  | i :: r => match step i s with Running s' => exec r s' | o => o end
  end.

(* ------------------------------------------------------------------------------------------ *)
(* Part 2: source programs.  Values are numbered: 0..nargs-1 the arguments, nargs+j the result of op j. *)

Inductive bop := BAdd | BMul | BSub.
Inductive sop := SConst (k : Z) | SBin (o : bop) (a b : nat).
Record sprog := mkSprog { sp_w : width; sp_nargs : nat; sp_ops : list sop; sp_ret : option nat }.

(* ------------------------------------------------------------------------------------------ *)
(* Part 3: lowering *)

Definition vreg := nat.
Inductive xop := XAdd | XImul | XSub.

(* one x86 IR operation defining the SSA value d (before register allocation) *)
Inductive vdef :=
| VArg (d : vreg) (i : nat)          (* d = x86.ds.mov <block argument i : argument register i> *)
| VStk (d : vreg) (i : nat)          (* d = x86.dm.mov [sp + offset(i)]  : (i)th stack-passed argument *)
| VImm (d : vreg) (k : Z)            (* d = x86.di.mov k *)
| VMov (d s : vreg)                  (* d = x86.ds.mov s *)
| VOp (o : xop) (d t s : vreg).      (* d = x86.rs.<o> t, s   (register_in = t tied to d, source = s) *)

Record vfunc := mkVfunc { vf_defs : list vdef; vf_ret : option vreg }.

Definition def_id (d : vdef) : vreg :=
  match d with VArg d _ | VStk d _ | VImm d _ | VMov d _ | VOp _ d _ _ => d end.
Definition def_uses (d : vdef) : list vreg :=
  match d with VMov _ s => [s] | VOp _ _ t s => [t; s] | _ => [] end.

(* X86_OP_BY_ARITH_BINARY_OP, decoded from the generated table *)
Definition bop_code (o : bop) : Z := match o with BAdd => 1 | BMul => 2 | BSub => 3 end.
Definition xop_of_code (c : Z) : option xop :=
  if c =? 1 then Some XAdd else if c =? 2 then Some XImul else if c =? 3 then Some XSub else None.
Fixpoint assoc_Z (k : Z) (l : list (Z * Z)) : option Z :=
  match l with [] => None | (a, b) :: r => if a =? k then Some b else assoc_Z k r end.
Definition lookup_binop (o : bop) : option xop :=
  match assoc_Z (bop_code o) c21_binop_table with Some c => xop_of_code c | None => None end.

(* known constants (get_constant_value: through ds.mov chains to a di.mov) *)
Fixpoint const_of (cm : list (vreg * Z)) (v : vreg) : option Z :=
  match cm with [] => None | (a, k) :: r => if Nat.eqb a v then Some k else const_of r v end.

Definition max_reg_args : nat := Z.to_nat c21_max_reg_args.

(* LowerFuncOp: argument moves, then stack-argument loads; value i of the source is represented by vreg i *)
Fixpoint lower_args (n : nat) (i : nat) : list vdef :=
  match n with
  | O => []
  | S n' => (if Nat.ltb i max_reg_args then VArg i i else VStk i (i - max_reg_args)) :: lower_args n' (S i)
  end.

Definition in_si32 (k : Z) : bool := (-2147483648 <=? k) && (k <? 2147483648).

Record lstate := mkL { l_next : vreg; l_vmap : list vreg; l_cmap : list (vreg * Z); l_out : list vdef (* reversed *) }.

(* RS_Add_Zero: an x86.rs.add whose SOURCE operand (= the lhs of the arith op) is the constant 0 *)
Definition is_add_zero (xo : xop) (c : option Z) : bool :=
  match xo, c with XAdd, Some 0 => true | _, _ => false end.

(* ArithConstantToX86 / ArithBinaryToX86 (+ RS_Add_Zero), one source op *)
Definition lower_op (st : lstate) (o : sop) : option lstate :=
  match o with
  | SConst k =>
      if in_si32 k then
        let d := l_next st in
        Some (mkL (S d) (l_vmap st ++ [d]) ((d, k) :: l_cmap st) (VImm d k :: l_out st))
      else None                                           (* DI_MovOp immediate is si32: VerifyException *)
  | SBin b x y =>
      match lookup_binop b, nth_error (l_vmap st) x, nth_error (l_vmap st) y with
      | Some xo, Some lx, Some ly =>
          let t := l_next st in
          let cm := match const_of (l_cmap st) ly with Some k => (t, k) :: l_cmap st | None => l_cmap st end in
          let out := VMov t ly :: l_out st in              (* moved_rhs = copy of rhs *)
          if is_add_zero xo (const_of (l_cmap st) lx)
          then Some (mkL (S t) (l_vmap st ++ [t]) cm out)  (* RS_Add_Zero: the copy of rhs IS the result *)
          else let d := S t in
               Some (mkL (S d) (l_vmap st ++ [d]) cm (VOp xo d t lx :: out))
      | _, _, _ => None                                    (* no pattern: the op is left behind, emission fails *)
      end
  end.

Fixpoint lower_ops (st : lstate) (ops : list sop) : option lstate :=
  match ops with
  | [] => Some st
  | o :: r => match lower_op st o with Some st' => lower_ops st' r | None => None end
  end.

(* dce (and region_dce of canonicalize): an operation whose result is unused is removed, to a fixpoint *)
Fixpoint memb (v : vreg) (l : list vreg) : bool :=
  match l with [] => false | a :: r => Nat.eqb a v || memb v r end.
Fixpoint dce_rev (rl : list vdef) (live : list vreg) : list vdef :=
  match rl with
  | [] => []
  | d :: r => if memb (def_id d) live then d :: dce_rev r (def_uses d ++ live) else dce_rev r live
  end.
Definition ret_uses (r : option vreg) : list vreg := match r with Some v => [v] | None => [] end.

(* the kernel: every op is lowered; None = a constant outside si32, an op without pattern, a bad index *)
Definition lower_strict (p : sprog) : option vfunc :=
  let n := sp_nargs p in
  let st0 := mkL n (seq 0 n) [] (rev (lower_args n 0)) in
  match lower_ops st0 (sp_ops p) with
  | None => None
  | Some st =>
      match sp_ret p with
      | None => Some (mkVfunc (rev (dce_rev (l_out st) [])) None)
      | Some r =>
          match nth_error (l_vmap st) r with
          | Some v => Some (mkVfunc (rev (dce_rev (l_out st) [v])) (Some v))
          | None => None
          end
      end
  end.

(* Which source ops are lowered at all.  GreedyRewritePatternApplier erases an operation that is trivially
   dead WHEN IT IS VISITED, before trying the patterns; both conversion passes walk forwards once:
     pass 1 (convert-func-to-x86-func) erases op j iff nothing uses it (s1 = survives pass 1);
     pass 2 (convert-arith-to-x86) erases a survivor iff no survivor uses it (l2 = lowered by pass 2);
   whatever is lowered but dead, and any dead op left without pattern, is removed by canonicalize/dce.
   Hence: a constant outside si32 aborts the pipeline iff it is lowered by pass 2, an op without pattern
   aborts it (at emission) iff it is live; all other dead ops leave no trace. *)
Definition uses_val (v : nat) (o : sop) : bool :=
  match o with SBin _ a b => Nat.eqb a v || Nat.eqb b v | SConst _ => false end.
Definition ret_is (r : option nat) (v : nat) : bool :=
  match r with Some x => Nat.eqb x v | None => false end.

Fixpoint survive1 (v : nat) (ops : list sop) (ret : option nat) : list bool :=
  match ops with
  | [] => []
  | _ :: r => (existsb (uses_val v) r || ret_is ret v) :: survive1 (S v) r ret
  end.
Fixpoint lowered2 (v : nat) (ops : list sop) (s1 : list bool) (ret : option nat) : list bool :=
  match ops, s1 with
  | _ :: r, b :: s1r =>
      (b && (existsb (fun x => snd x && uses_val v (fst x)) (combine r s1r) || ret_is ret v))
      :: lowered2 (S v) r s1r ret
  | _, _ => []
  end.
(* transitive liveness: live_before v ops ret = the values live just before `ops` (whose first op defines v) *)
Definition sop_uses (o : sop) : list nat := match o with SBin _ a b => [a; b] | SConst _ => [] end.
Fixpoint live_before (v : nat) (ops : list sop) (ret : list nat) : list nat :=
  match ops with
  | [] => ret
  | o :: r => let l := live_before (S v) r ret in if memb v l then sop_uses o ++ l else l
  end.
Fixpoint live_flags_from (v : nat) (ops : list sop) (ret : list nat) : list bool :=
  match ops with
  | [] => []
  | _ :: r => memb v (live_before (S v) r ret) :: live_flags_from (S v) r ret
  end.
Definition sret_uses (r : option nat) : list nat := match r with Some x => [x] | None => [] end.
Definition live_flags (p : sprog) : list bool :=
  live_flags_from (sp_nargs p) (sp_ops p) (sret_uses (sp_ret p)).

Definition const_too_big (o : sop) : bool := match o with SConst k => negb (in_si32 k) | _ => false end.
Definition no_pattern (o : sop) : bool :=
  match o with SBin b _ _ => match lookup_binop b with None => true | Some _ => false end | _ => false end.

Definition is_mul (o : sop) : bool := match o with SBin BMul _ _ => true | _ => false end.
Definition is_w8 (w : width) : bool := match w with W8 => true | _ => false end.

(* rej8: ArithBinaryToX86 refuses muli on 8-bit integers when it visits one it would lower (repair C21-3) *)
Definition rejects_v (rej8 : bool) (p : sprog) : bool :=
  let n := sp_nargs p in
  let s1 := survive1 n (sp_ops p) (sp_ret p) in
  let l2 := lowered2 n (sp_ops p) s1 (sp_ret p) in
  existsb (fun x => snd x && const_too_big (fst x)) (combine (sp_ops p) l2)
  || existsb (fun x => snd x && no_pattern (fst x)) (combine (sp_ops p) (live_flags p))
  || (rej8 && is_w8 (sp_w p) && existsb (fun x => snd x && is_mul (fst x)) (combine (sp_ops p) l2)).

(* dead ops leave no trace: for the kernel they are replaced by a harmless constant *)
Definition neutralize (p : sprog) : sprog :=
  mkSprog (sp_w p) (sp_nargs p)
          (map (fun x => if (snd x : bool) then fst x else SConst 0) (combine (sp_ops p) (live_flags p)))
          (sp_ret p).

(* the x86 IR handed to the register allocator *)
Definition c21_lower_v (rej8 : bool) (p : sprog) : option vfunc :=
  if rejects_v rej8 p then None else lower_strict (neutralize p).
Definition c21_lower (p : sprog) : option vfunc := c21_lower_v c21_rejects_imul8 p.

(* --- after allocation ----------------------------------------------------------------------- *)

Definition xinstr (o : xop) (w : width) (d s : reg) : instr :=
  match o with XAdd => IAdd w d s | XImul => IImul w d s | XSub => ISub w d s end.

Definition arg_reg (i : nat) : reg := nth i c21_arg_regs (-1).

(* assembly line of an allocated operation + the register of its RESULT (what the prologue pass looks at).
   A two-address op prints register_in (t) and source (s); its result is d. *)
Definition assign_def (w : width) (alloc : vreg -> reg) (d : vdef) : instr * reg :=
  match d with
  | VArg d i => (IMovRR w (alloc d) (arg_reg i), alloc d)
  | VStk d i => (ILoad w (alloc d) RSP (c21_stack_arg_offset (Z.of_nat i)), alloc d)
  | VImm d k => (IMovRI w (alloc d) k, alloc d)
  | VMov d s => (IMovRR w (alloc d) (alloc s), alloc d)
  | VOp o d t s => (xinstr o w (alloc t) (alloc s), alloc d)
  end.

(* LowerReturnOp: move the result to the return register *)
Definition assign_ret (w : width) (alloc : vreg -> reg) (r : option vreg) : list (instr * reg) :=
  match r with Some v => [(IMovRR w c21_ret_reg (alloc v), c21_ret_reg)] | None => [] end.

(* RemoveRedundantDS_Mov (second canonicalize): a mov whose destination and source are the same register *)
Definition redundant (i : instr) : bool :=
  match i with IMovRR _ d s => d =? s | _ => false end.

Definition body_ops (w : width) (alloc : vreg -> reg) (f : vfunc) : list (instr * reg) :=
  filter (fun x => negb (redundant (fst x))) (map (assign_def w alloc) (vf_defs f) ++ assign_ret w alloc (vf_ret f)).

(* X86PrologueEpilogueInsertion._process_function *)
Fixpoint memz (x : Z) (l : list Z) : bool :=
  match l with [] => false | a :: r => (a =? x) || memz x r end.
(* OrderedSet of the results that are callee-saved registers, in order of first appearance.
   `res.type in X86_CALLEE_SAVED_REGISTERS` is attribute equality with the 64-bit register types: a
   32/16/8-bit name of the same hardware register is NOT recognised (select_by_index = false). *)
Fixpoint used_callee (by_index : bool) (w : width) (rs : list reg) (acc : list reg) : list reg :=
  match rs with
  | [] => rev acc
  | r :: t =>
      let is64 := match w with W64 => true | _ => false end in
      if (by_index || is64) && memz r c21_callee_saved && negb (memz r acc)
      then used_callee by_index w t (r :: acc) else used_callee by_index w t acc
  end.

(* version of the code under test: does the prologue pass rebase rsp-relative offsets / recognise narrow names *)
Record version := mkVer { v_shift : bool; v_by_index : bool }.
Definition current_version : version := mkVer c21_prologue_shifts c21_select_by_index.

Definition shift_instr (k : Z) (i : instr) : instr :=
  match i with
  | ILoad w d b off => if b =? RSP then ILoad w d b (off + k) else i
  | _ => i
  end.

Definition c21_finish (ver : version) (w : width) (alloc : vreg -> reg) (f : vfunc) : list instr :=
  let ops := body_ops w alloc f in
  let used := used_callee (v_by_index ver) w (map snd ops) [] in
  let body := map fst ops in
  let body' := if v_shift ver then map (shift_instr (c21_stack_slot * Z.of_nat (length used))) body else body in
  map IPush used ++ body' ++ map IPop (if c21_pop_reversed then rev used else used) ++ [IRet].

(* --- the hypothesis on the allocation (property C19's invariant), as a checkable predicate ---- *)

Fixpoint live_in (l : list vdef) (retlive : list vreg) : list vreg :=
  match l with
  | [] => retlive
  | d :: r => def_uses d ++ filter (fun v => negb (Nat.eqb v (def_id d))) (live_in r retlive)
  end.

(* registers holding something from function entry on: rsp and the argument registers that are read *)
Definition reserved_regs (l : list vdef) : list reg :=
  RSP :: flat_map (fun d => match d with VArg _ i => [arg_reg i] | _ => [] end) l.

Definition tie_ok (alloc : vreg -> reg) (d : vdef) : bool :=
  match d with VOp _ d t _ => alloc d =? alloc t | _ => true end.

(* for every operation: its result register is not reserved, holds no OTHER value that is live afterwards,
   and a two-address result sits in the register of its in/out operand *)
Fixpoint alloc_ok_from (res : list reg) (alloc : vreg -> reg) (l : list vdef) (retlive : list vreg) : bool :=
  match l with
  | [] => true
  | d :: r =>
      negb (memz (alloc (def_id d)) res)
      && tie_ok alloc d
      && forallb (fun v => Nat.eqb v (def_id d) || negb (alloc v =? alloc (def_id d))) (live_in r retlive)
      && alloc_ok_from res alloc r retlive
  end.
Definition alloc_ok (alloc : vreg -> reg) (f : vfunc) : bool :=
  alloc_ok_from (reserved_regs (vf_defs f)) alloc (vf_defs f) (ret_uses (vf_ret f)).
