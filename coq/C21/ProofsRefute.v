(* C21/ProofsRefute.v -- refutation witnesses of the full-strength statements on the model of the
   UNREPAIRED prologue pass (version flags false), the partial/repaired corollaries, and encodability. *)
From Coq Require Import ZArith List Bool Lia Arith.
From XV Require Import Base.Show Gen.C21_tables C21.Model C21.Spec C21.Enc C21.ProofsMachine C21.ProofsLower
  C21.ProofsSim C21.ProofsAbi.
Import ListNotations.
Local Open Scope Z_scope.

Definition the_func (p : sprog) : vfunc :=
  match c21_lower p with Some f => f | None => mkVfunc [] None end.

Definition unrepaired : version := mkVer false false.
Definition repaired : version := mkVer true true.

(* ---------------------------------------------------------------------------------------- *)
(* witness 1: f(a..h) = (g + g) * h, eight i64 arguments; allocation as produced by the real allocator
   (g -> r11, h -> rbx, copy of g -> r10); entry state per SysV with the arguments 1..6, 7, 9 *)

Definition w1_p : sprog := zprog 64 8 [ZB 1 6 6; ZB 2 8 7] 9.
Definition w1_raw : list Z := [1; 2; 3; 4; 5; 6; 7; 9].
Definition w1_alloc : vreg -> reg := alloc_of (the_func w1_p) [11; 3; 10; 10; 3; 3].
Definition w1_s0 : state :=
  init_state [(7, 1); (6, 2); (2, 3); (1, 4); (8, 5); (9, 6); (3, 1003); (5, 1005); (12, 1012); (13, 1013);
              (14, 1014); (15, 1015)] 4096 424242 [7; 9].

Lemma w1_entry : entry_ok 8 w1_raw 4096 424242 w1_s0.
Proof.
  constructor; [vm_compute; reflexivity | vm_compute; reflexivity | vm_compute; discriminate | vm_compute; reflexivity
               | vm_compute; reflexivity | | ].
  - intros i _ H6. do 6 (destruct i as [|i]; [vm_compute; reflexivity|]). lia.
  - intros j Hj. do 2 (destruct j as [|j]; [vm_compute; reflexivity|]). lia.
Qed.

(* every hypothesis of pipeline_correct except stack_args_ok holds, the function returns to its caller with
   rsp and the callee-saved registers intact -- and rax is not the source value 126 = (7+7)*9 *)
Theorem stack_args_refuted :
  exists p f alloc raw entry_rsp ra s0 v,
    c21_lower p = Some f /\ src_sem p raw = Some (Some v) /\ alloc_ok alloc f = true
    /\ entry_ok (sp_nargs p) raw entry_rsp ra s0
    /\ exists sf, exec (c21_finish unrepaired (sp_w p) alloc f) s0 = Returned sf ra
                  /\ low (sp_w p) (regs sf RAX) <> v.
Proof.
  exists w1_p, (the_func w1_p), w1_alloc, w1_raw, 4096, 424242, w1_s0, 126.
  split; [vm_compute; reflexivity|]. split; [vm_compute; reflexivity|]. split; [vm_compute; reflexivity|]. split; [exact w1_entry|].
  eexists. split; [vm_compute; reflexivity|]. vm_compute. discriminate.
Qed.

(* the same program on the model of the repaired pass: full statement, by the general theorem *)
Example w1_repaired :
  exists sf, exec (c21_finish repaired W64 w1_alloc (the_func w1_p)) w1_s0 = Returned sf 424242
             /\ low W64 (regs sf RAX) = 126.
Proof. eexists. split; [vm_compute; reflexivity|]. vm_compute. reflexivity. Qed.

(* ---------------------------------------------------------------------------------------- *)
(* witness 2: an i32 function whose values live in ebx: rbx is not saved *)

Definition w2_p : sprog := zprog 32 2 [ZC (-3); ZB 2 0 2; ZB 1 3 1; ZB 1 4 0; ZB 2 5 1; ZB 1 6 2; ZB 1 7 3] 8.
Definition w2_raw : list Z := [1; 2].
Definition w2_alloc : vreg -> reg := alloc_of (the_func w2_p) [8; 3; 2; 1; 1; 9; 9; 8; 8; 3; 3; 2; 2; 1; 1].
Definition w2_s0 : state :=
  init_state [(7, 1); (6, 2); (3, 1003); (5, 1005); (12, 1012); (13, 1013); (14, 1014); (15, 1015)] 4096 424242 [].

Lemma w2_entry : entry_ok 2 w2_raw 4096 424242 w2_s0.
Proof.
  constructor; [vm_compute; reflexivity | vm_compute; reflexivity | vm_compute; discriminate | vm_compute; reflexivity
               | vm_compute; reflexivity | | ].
  - intros i Hi _. do 2 (destruct i as [|i]; [vm_compute; reflexivity|]). lia.
  - intros j Hj. lia.
Qed.

Theorem callee_saved_narrow_refuted :
  exists p f alloc raw entry_rsp ra s0 v,
    c21_lower p = Some f /\ src_sem p raw = Some (Some v) /\ alloc_ok alloc f = true
    /\ entry_ok (sp_nargs p) raw entry_rsp ra s0 /\ stack_args_ok unrepaired (sp_w p) alloc f
    /\ exists sf r, exec (c21_finish unrepaired (sp_w p) alloc f) s0 = Returned sf ra
                    /\ low (sp_w p) (regs sf RAX) = v          (* the value is right ... *)
                    /\ In r sysv_callee_saved /\ regs sf r <> regs s0 r.   (* ... but rbx is clobbered *)
Proof.
  exists w2_p, (the_func w2_p), w2_alloc, w2_raw, 4096, 424242, w2_s0, 4294967290.
  split; [vm_compute; reflexivity|]. split; [vm_compute; reflexivity|]. split; [vm_compute; reflexivity|]. split; [exact w2_entry|].
  split; [right; left; vm_compute; reflexivity|].
  eexists. exists 3. split; [vm_compute; reflexivity|]. split; [vm_compute; reflexivity|].
  split; [vm_compute; auto|]. vm_compute. discriminate.
Qed.

(* ---------------------------------------------------------------------------------------- *)
(* witness 3: i8 multiplication is emitted as an `imul` on 8-bit registers, which does not exist *)

Definition w3_p : sprog := zprog 8 2 [ZB 2 0 1] 2.
Definition w3_f : vfunc := match c21_lower_v false w3_p with Some f => f | None => mkVfunc [] None end.
Definition w3_alloc : vreg -> reg := alloc_of w3_f [2; 1; 1; 1].

(* for the lowering that does not refuse 8-bit multiplication (c21_lower_v false) *)
Theorem imul8_not_encodable :
  exists p f alloc ver, c21_lower_v false p = Some f /\ alloc_ok alloc f = true
    /\ forallb encodable (c21_finish ver (sp_w p) alloc f) = false.
Proof. exists w3_p, w3_f, w3_alloc, unrepaired. repeat split; vm_compute; reflexivity. Qed.

(* every other width only produces instructions of the subset that exist *)
Lemma encodable_shift : forall k i, encodable (shift_instr k i) = encodable i.
Proof. intros k i. destruct i; cbn [shift_instr]; try reflexivity. destruct (base =? RSP); reflexivity. Qed.

Lemma encodable_assign : forall w alloc d, w <> W8 -> encodable (fst (assign_def w alloc d)) = true.
Proof.
  intros w alloc d Hw. destruct d as [d i | d j | d k | d s | o d t s]; cbn [assign_def fst encodable]; try reflexivity.
  destruct o; cbn [xinstr encodable]; try reflexivity. destruct w; try reflexivity. contradiction.
Qed.

Theorem encodable_partial : forall ver w alloc f, w <> W8 -> forallb encodable (c21_finish ver w alloc f) = true.
Proof.
  intros ver w alloc f Hw. unfold c21_finish. rewrite !forallb_app.
  assert (Hbody : forallb encodable (map fst (body_ops w alloc f)) = true).
  { apply forallb_forall. intros i Hi. apply in_map_iff in Hi. destruct Hi as [[i' r] [<- Hin]].
    unfold body_ops in Hin. apply filter_In in Hin. destruct Hin as [Hin _]. apply in_app_or in Hin.
    destruct Hin as [Hin|Hin].
    - apply in_map_iff in Hin. destruct Hin as [d [Hd _]]. cbn [fst]. rewrite <- (encodable_assign w alloc d Hw).
      rewrite Hd. reflexivity.
    - destruct (vf_ret f); cbn [assign_ret In] in Hin; [|contradiction].
      destruct Hin as [Hin|[]]. inversion Hin; subst. reflexivity. }
  apply andb_true_iff. split; [|apply andb_true_iff; split; [|apply andb_true_iff; split; [|reflexivity]]].
  - apply forallb_forall. intros i Hi. apply in_map_iff in Hi. destruct Hi as [r [<- _]]. reflexivity.
  - destruct (v_shift ver); [|exact Hbody].
    apply forallb_forall. intros i Hi. apply in_map_iff in Hi. destruct Hi as [i' [<- Hin]].
    rewrite encodable_shift. rewrite forallb_forall in Hbody. apply Hbody. exact Hin.
  - apply forallb_forall. intros i Hi. apply in_map_iff in Hi. destruct Hi as [r [<- _]]. reflexivity.
Qed.

(* ---------------------------------------------------------------------------------------- *)
(* corollaries for the code version found in the source on this run (Gen/C21_tables.v) *)

(* value + rsp: full when the pass rebases the offsets; otherwise for functions without stack loads or pushes *)
Theorem returns_source_value_repaired : forall ver p f alloc raw entry_rsp ra s0 v,
  v_shift ver = true ->
  c21_lower p = Some f -> src_sem p raw = Some (Some v) -> alloc_ok alloc f = true ->
  entry_ok (sp_nargs p) raw entry_rsp ra s0 ->
  exists sf, exec (c21_finish ver (sp_w p) alloc f) s0 = Returned sf ra
    /\ low (sp_w p) (regs sf RAX) = v /\ regs sf RSP = entry_rsp + 8.
Proof.
  intros ver p f alloc raw sp0 ra s0 v Hs Hl Hsem Hok Hen.
  destruct (pipeline_correct ver p f alloc raw sp0 ra s0 (Some v) Hl Hsem Hok Hen (or_introl Hs))
    as [sf [He [Hr [Hv _]]]].
  exists sf. split; [exact He|]. split; [apply Hv; reflexivity | exact Hr].
Qed.

Theorem current_stack_args :
  if c21_prologue_shifts
  then (forall entry_rsp k i, 0 <= k -> load_addr c21_prologue_shifts entry_rsp k i = sysv_stack_arg_addr entry_rsp i)
  else (forall entry_rsp k i, 0 < k -> load_addr c21_prologue_shifts entry_rsp k i <> sysv_stack_arg_addr entry_rsp i).
Proof.
  destruct c21_prologue_shifts eqn:E.
  - intros sp k i Hk. apply stack_args_offset; [exact Hk | left; reflexivity].
  - intros sp k i Hk H. apply stack_args_offset in H; [|lia]. destruct H as [H|H]; [discriminate | lia].
Qed.
