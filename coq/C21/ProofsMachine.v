(* C21/ProofsMachine.v -- facts about the x86-64 subset machine:
   wrap-around arithmetic, register writes, sequencing, soundness of the two-address lowering of every
   entry of X86_OP_BY_ARITH_BINARY_OP, and the prologue/epilogue frame theorem. *)
From Coq Require Import ZArith List Bool Lia.
From XV Require Import Gen.C21_tables C21.Model C21.Spec.
Import ListNotations.
Local Open Scope Z_scope.

(* ---------------------------------------------------------------------------------------- *)
(* wrap-around *)

Definition M64 : Z := 18446744073709551616.
Lemma modulus64 : modulus W64 = M64. Proof. reflexivity. Qed.

Lemma modulus_pos : forall w, 0 < modulus w.
Proof. destruct w; reflexivity. Qed.

Lemma low_range : forall w x, 0 <= low w x < modulus w.
Proof. intros w x. unfold low. apply Z.mod_pos_bound. apply modulus_pos. Qed.

Lemma low_low : forall w x, low w (low w x) = low w x.
Proof. intros w x. unfold low. apply Z.mod_mod. pose proof (modulus_pos w). lia. Qed.

Lemma low_add : forall w x y, low w (low w x + low w y) = low w (x + y).
Proof. intros w x y. unfold low. symmetry. apply Zplus_mod. Qed.

Lemma low_sub : forall w x y, low w (low w x - low w y) = low w (x - y).
Proof. intros w x y. unfold low. symmetry. apply Zminus_mod. Qed.

Lemma low_mul : forall w x y, low w (low w x * low w y) = low w (x * y).
Proof. intros w x y. unfold low. symmetry. apply Zmult_mod. Qed.

Lemma low_small : forall w x, 0 <= x < modulus w -> low w x = x.
Proof. intros w x H. unfold low. apply Z.mod_small. exact H. Qed.

Lemma low64_small : forall x, 0 <= x < M64 -> low W64 x = x.
Proof. intros x H. apply low_small. rewrite modulus64. exact H. Qed.

Lemma low_zero : forall w, low w 0 = 0.
Proof. destruct w; reflexivity. Qed.

(* dropping the low bits leaves a multiple of the modulus *)
Lemma low_merge : forall w old v, low w (old - low w old + low w v) = low w v.
Proof.
  intros w old v. unfold low.
  pose proof (modulus_pos w) as Hm.
  assert (Hq : old - old mod modulus w = (old / modulus w) * modulus w).
  { pose proof (Z.div_mod old (modulus w)). lia. }
  rewrite Hq. rewrite Z.add_comm. rewrite Z.mod_add by lia. apply Z.mod_mod. lia.
Qed.

(* ---------------------------------------------------------------------------------------- *)
(* register file *)

Lemma upd_same : forall A (f : Z -> A) k v, upd f k v k = v.
Proof. intros. unfold upd. rewrite Z.eqb_refl. reflexivity. Qed.

Lemma upd_other : forall A (f : Z -> A) k v x, x <> k -> upd f k v x = f x.
Proof. intros A f k v x H. unfold upd. destruct (x =? k) eqn:E; [apply Z.eqb_eq in E; contradiction | reflexivity]. Qed.

Lemma write_reg_same : forall w r v rf, low w (write_reg w r v rf r) = low w v.
Proof.
  intros w r v rf. destruct w; cbn [write_reg]; rewrite upd_same.
  - apply low_merge.
  - apply low_merge.
  - apply low_low.
  - apply low_low.
Qed.

Lemma write_reg_other : forall w r v rf x, x <> r -> write_reg w r v rf x = rf x.
Proof. intros w r v rf x H. destruct w; cbn [write_reg]; apply upd_other; exact H. Qed.

Lemma write_reg64_same : forall r v rf, write_reg W64 r v rf r = low W64 v.
Proof. intros. cbn [write_reg]. apply upd_same. Qed.

(* ---------------------------------------------------------------------------------------- *)
(* sequencing *)

Lemma exec_app : forall l1 l2 s,
  exec (l1 ++ l2) s = match exec l1 s with Running s' => exec l2 s' | o => o end.
Proof.
  induction l1 as [|i l1 IH]; intros l2 s; cbn [app exec]; [reflexivity|].
  destruct (step i s); [apply IH | reflexivity | reflexivity].
Qed.

Lemma exec_app_running : forall l1 l2 s s1, exec l1 s = Running s1 -> exec (l1 ++ l2) s = exec l2 s1.
Proof. intros l1 l2 s s1 H. rewrite exec_app, H. reflexivity. Qed.

(* ---------------------------------------------------------------------------------------- *)
(* the two-address lowering of a binary op: `mov t, rhs ; op t, lhs` *)

Definition binop_sound (o : bop) (xo : xop) : Prop :=
  forall w s a b t, t <> a ->
    exists s', exec [IMovRR w t b; xinstr xo w t a] s = Running s'
      /\ low w (regs s' t) = low w (bop_eval o (low w (regs s a)) (low w (regs s b)))
      /\ (forall r, r <> t -> regs s' r = regs s r)
      /\ mem s' = mem s.

Lemma binop_sound_add : binop_sound BAdd XAdd.
Proof.
  intros w s a b t Hta. eexists. split; [reflexivity|]. cbn [regs mem]. repeat split.
  - rewrite write_reg_same.
    rewrite (write_reg_other w t (regs s b) (regs s) a) by (apply not_eq_sym; exact Hta).
    rewrite <- low_add. rewrite write_reg_same. cbn [bop_eval]. f_equal. lia.
  - intros r Hr. rewrite !write_reg_other by exact Hr. reflexivity.
Qed.

Lemma binop_sound_mul : binop_sound BMul XImul.
Proof.
  intros w s a b t Hta. eexists. split; [reflexivity|]. cbn [regs mem]. repeat split.
  - rewrite write_reg_same.
    rewrite (write_reg_other w t (regs s b) (regs s) a) by (apply not_eq_sym; exact Hta).
    rewrite <- low_mul. rewrite write_reg_same. cbn [bop_eval]. f_equal. lia.
  - intros r Hr. rewrite !write_reg_other by exact Hr. reflexivity.
Qed.

(* every entry of the table extracted from X86_OP_BY_ARITH_BINARY_OP *)
Theorem binop_table_sound : forall o xo, lookup_binop o = Some xo -> binop_sound o xo.
Proof.
  intros o xo H. destruct o; vm_compute in H; inversion H; subst.
  - exact binop_sound_add.
  - exact binop_sound_mul.
Qed.

(* the same scheme would be WRONG for a non-commutative op: `mov t, rhs ; sub t, lhs` computes rhs - lhs *)
Lemma sub_scheme_unsound : ~ binop_sound BSub XSub.
Proof.
  intro H.
  destruct (H W64 (mkState (fun r => if r =? 1 then 5 else if r =? 2 then 3 else 0) (fun _ => None)) 1 2 3
              ltac:(lia)) as [s' [He [Hv _]]].
  vm_compute in He. inversion He; subst. vm_compute in Hv. discriminate.
Qed.

(* ---------------------------------------------------------------------------------------- *)
(* alignment *)

Lemma aligned_spec : forall a, aligned a = true <-> exists q, a = 8 * q.
Proof.
  intro a. unfold aligned. rewrite Z.eqb_eq. split.
  - intro H. exists (a / 8). pose proof (Z.div_mod a 8). lia.
  - intros [q ->]. rewrite Z.mul_comm. apply Z.mod_mul. lia.
Qed.

Lemma aligned_shift : forall a k, aligned a = true -> aligned (a + 8 * k) = true.
Proof. intros a k H. apply aligned_spec in H. destruct H as [q ->]. apply aligned_spec. exists (q + k). lia. Qed.

Lemma aligned_m8 : forall a, aligned a = true -> aligned (a - 8) = true.
Proof. intros a H. replace (a - 8) with (a + 8 * (-1)) by lia. apply aligned_shift. exact H. Qed.

Lemma aligned_p8 : forall a, aligned a = true -> aligned (a + 8) = true.
Proof. intros a H. replace (a + 8) with (a + 8 * 1) by lia. apply aligned_shift. exact H. Qed.

(* ---------------------------------------------------------------------------------------- *)
(* prologue: push a list of registers *)

Fixpoint stack_at (m : Z -> option Z) (base : Z) (vals : list Z) : Prop :=
  match vals with
  | [] => True
  | v :: r => m base = Some v /\ stack_at m (base + 8) r
  end.

Lemma stack_at_app : forall m l1 l2 base,
  stack_at m base (l1 ++ l2) <-> stack_at m base l1 /\ stack_at m (base + 8 * Z.of_nat (length l1)) l2.
Proof.
  intros m l1. induction l1 as [|v l1 IH]; intros l2 base.
  - cbn [app length stack_at]. replace (base + 8 * Z.of_nat 0) with base by lia. tauto.
  - cbn [app stack_at]. rewrite IH. cbn [length].
    replace (base + 8 + 8 * Z.of_nat (length l1)) with (base + 8 * Z.of_nat (S (length l1))) by lia. tauto.
Qed.

Lemma stack_at_ext : forall m m' vals base,
  (forall a, base <= a -> m' a = m a) -> stack_at m base vals -> stack_at m' base vals.
Proof.
  intros m m' vals. induction vals as [|v r IH]; intros base Hext H; cbn [stack_at] in *; [exact I|].
  destruct H as [H1 H2]. split.
  - rewrite Hext by lia. exact H1.
  - apply IH; [|exact H2]. intros a Ha. apply Hext. lia.
Qed.

Lemma push_all : forall ps s sp,
  regs s RSP = sp -> aligned sp = true -> 8 * Z.of_nat (length ps) <= sp -> sp < M64 -> ~ In RSP ps ->
  exists s1, exec (map IPush ps) s = Running s1
    /\ regs s1 RSP = sp - 8 * Z.of_nat (length ps)
    /\ (forall r, r <> RSP -> regs s1 r = regs s r)
    /\ (forall a, sp <= a -> mem s1 a = mem s a)
    /\ stack_at (mem s1) (sp - 8 * Z.of_nat (length ps)) (rev (map (regs s) ps)).
Proof.
  induction ps as [|p ps IH]; intros s sp Hsp Hal Hroom Hlt Hnin.
  - exists s. cbn [map exec length rev stack_at]. repeat split; auto. lia.
  - cbn [map exec step]. rewrite Hsp.
    cbn [length] in Hroom. rewrite Nat2Z.inj_succ in Hroom.
    rewrite low64_small by lia. rewrite (aligned_m8 _ Hal).
    set (s' := mkState (upd (regs s) RSP (sp - 8)) (upd (mem s) (sp - 8) (Some (regs s p)))).
    destruct (IH s' (sp - 8)) as [s1 [He [Hr [Hf [Hm Hst]]]]].
    + reflexivity.
    + apply aligned_m8. exact Hal.
    + lia.
    + lia.
    + intro Hin. apply Hnin. right. exact Hin.
    + exists s1. split; [exact He|]. cbn [length]. rewrite Nat2Z.inj_succ. split; [lia|]. split; [|split].
      * intros r Hrr. rewrite Hf by exact Hrr. subst s'. cbn [regs]. apply upd_other. exact Hrr.
      * intros a Ha. rewrite Hm by lia. subst s'. cbn [mem]. apply upd_other. lia.
      * cbn [map rev]. apply stack_at_app. split.
        -- replace (sp - 8 * Z.succ (Z.of_nat (length ps))) with (sp - 8 - 8 * Z.of_nat (length ps)) by lia.
           assert (Hmap : map (regs s') ps = map (regs s) ps).
           { apply map_ext_in. intros r Hin. subst s'. cbn [regs]. apply upd_other.
             intro Heq. subst r. apply Hnin. right. exact Hin. }
           rewrite <- Hmap. exact Hst.
        -- rewrite rev_length, map_length. cbn [stack_at]. split; [|exact I].
           replace (sp - 8 * Z.succ (Z.of_nat (length ps)) + 8 * Z.of_nat (length ps)) with (sp - 8) by lia.
           rewrite Hm by lia. subst s'. cbn [mem]. apply upd_same.
Qed.

(* epilogue: pop a list of registers *)
Lemma pop_all : forall qs s base vals,
  regs s RSP = base -> aligned base = true -> 0 <= base -> base + 8 * Z.of_nat (length qs) < M64 ->
  length vals = length qs -> stack_at (mem s) base vals -> NoDup qs -> ~ In RSP qs ->
  exists s', exec (map IPop qs) s = Running s'
    /\ regs s' RSP = base + 8 * Z.of_nat (length qs)
    /\ (forall q v, In (q, v) (combine qs vals) -> regs s' q = v)
    /\ (forall r, ~ In r qs -> r <> RSP -> regs s' r = regs s r)
    /\ mem s' = mem s.
Proof.
  induction qs as [|q qs IH]; intros s base vals Hsp Hal H0 Hlt Hlen Hst Hnd Hnin.
  - exists s. cbn [map exec length combine]. repeat split; auto; try lia. intros q v [].
  - destruct vals as [|v vals]; [discriminate|]. cbn [stack_at] in Hst. destruct Hst as [Hv Hst].
    cbn [length] in Hlt. rewrite Nat2Z.inj_succ in Hlt.
    cbn [map exec step]. rewrite Hsp.
    destruct (q =? RSP) eqn:Eq; [apply Z.eqb_eq in Eq; exfalso; apply Hnin; left; exact Eq|].
    apply Z.eqb_neq in Eq.
    rewrite Hal, Hv. rewrite low64_small by lia.
    set (s1 := mkState (upd (upd (regs s) RSP (base + 8)) q v) (mem s)).
    apply NoDup_cons_iff in Hnd. destruct Hnd as [Hnq Hnd'].
    destruct (IH s1 (base + 8) vals) as [s' [He [Hr [Hc [Hf Hm]]]]].
    + subst s1. cbn [regs]. rewrite upd_other by (intro; apply Eq; congruence). apply upd_same.
    + apply aligned_p8. exact Hal.
    + lia.
    + lia.
    + cbn [length] in Hlen. lia.
    + subst s1. cbn [mem]. exact Hst.
    + exact Hnd'.
    + intro Hin. apply Hnin. right. exact Hin.
    + exists s'. split; [exact He|]. cbn [length]. rewrite Nat2Z.inj_succ. split; [lia|]. split; [|split].
      * intros q' v' Hin. cbn [combine] in Hin. destruct Hin as [Heq | Hin].
        -- inversion Heq; subst q' v'. rewrite Hf; [| exact Hnq | exact Eq]. subst s1. cbn [regs]. apply upd_same.
        -- apply Hc. exact Hin.
      * intros r Hnr Hrr. rewrite Hf; [| intro Hin; apply Hnr; right; exact Hin | exact Hrr].
        subst s1. cbn [regs]. rewrite upd_other by (intro Heq; apply Hnr; left; congruence).
        apply upd_other. exact Hrr.
      * rewrite Hm. reflexivity.
Qed.

Lemma combine_map_self : forall A B (f : A -> B) (l : list A),
  combine l (map f l) = map (fun x => (x, f x)) l.
Proof. intros A B f l. induction l as [|a l IH]; cbn [map combine]; [reflexivity | rewrite IH; reflexivity]. Qed.

(* ---------------------------------------------------------------------------------------- *)
(* prologue + body + epilogue + ret *)

Theorem wrap_correct : forall ps body s sp ra,
  regs s RSP = sp -> aligned sp = true -> 8 * Z.of_nat (length ps) <= sp -> sp + 8 < M64 ->
  NoDup ps -> ~ In RSP ps -> mem s sp = Some ra ->
  exists s1, exec (map IPush ps) s = Running s1
    /\ regs s1 RSP = sp - 8 * Z.of_nat (length ps)
    /\ (forall r, r <> RSP -> regs s1 r = regs s r)
    /\ (forall a, sp <= a -> mem s1 a = mem s a)
    /\ forall sb,
         exec body s1 = Running sb ->
         regs sb RSP = regs s1 RSP ->                                   (* stack-balanced body *)
         (forall a, regs s1 RSP <= a <= sp -> mem sb a = mem s1 a) ->  (* leaves save area + return slot alone *)
         exists sf, exec (map IPush ps ++ body ++ map IPop (rev ps) ++ [IRet]) s = Returned sf ra
           /\ regs sf RSP = sp + 8
           /\ (forall r, In r ps -> regs sf r = regs s r)
           /\ (forall r, ~ In r ps -> r <> RSP -> regs sf r = regs sb r)
           /\ mem sf = mem sb.
Proof.
  intros ps body s sp ra Hsp Hal Hroom Hlt Hnd Hnin Hra.
  assert (H0 : 0 <= Z.of_nat (length ps)) by lia.
  destruct (push_all ps s sp Hsp Hal Hroom ltac:(lia) Hnin) as [s1 [He1 [Hr1 [Hf1 [Hm1 Hst1]]]]].
  exists s1. split; [exact He1|]. split; [exact Hr1|]. split; [exact Hf1|]. split; [exact Hm1|].
  intros sb Heb Hbal Hsave.
  set (base := sp - 8 * Z.of_nat (length ps)) in *.
  assert (Hstb : stack_at (mem sb) base (rev (map (regs s) ps))).
  { clear - Hst1 Hsave Hr1 H0.
    assert (G : forall vals b, base <= b -> b + 8 * Z.of_nat (length vals) <= sp + 8 ->
                stack_at (mem s1) b vals -> stack_at (mem sb) b vals).
    { induction vals as [|v r IH]; intros b Hb1 Hb2 Hst; cbn [stack_at] in *; [exact I|].
      cbn [length] in Hb2. rewrite Nat2Z.inj_succ in Hb2. destruct Hst as [Hv Hst]. split.
      - rewrite Hsave; [exact Hv|]. rewrite Hr1. fold base. lia.
      - apply IH; [lia | lia | exact Hst]. }
    apply G; [lia | | exact Hst1]. rewrite rev_length, map_length. subst base. lia. }
  destruct (pop_all (rev ps) sb base (rev (map (regs s) ps))) as [s3 [He3 [Hr3 [Hc3 [Hf3 Hm3]]]]].
  - rewrite Hbal. exact Hr1.
  - subst base. replace (sp - 8 * Z.of_nat (length ps)) with (sp + 8 * (- Z.of_nat (length ps))) by lia.
    apply aligned_shift. exact Hal.
  - subst base. lia.
  - rewrite rev_length. subst base. lia.
  - rewrite !rev_length, map_length. reflexivity.
  - exact Hstb.
  - apply NoDup_rev. exact Hnd.
  - intro Hin. apply in_rev in Hin. contradiction.
  - rewrite rev_length in Hr3.
    assert (Hrsp3 : regs s3 RSP = sp) by (rewrite Hr3; subst base; lia).
    assert (Hra3 : mem s3 sp = Some ra).
    { rewrite Hm3. rewrite Hsave; [| rewrite Hr1; fold base; subst base; lia]. rewrite Hm1 by lia. exact Hra. }
    eexists. split.
    + rewrite (exec_app_running _ _ _ _ He1). rewrite (exec_app_running _ _ _ _ Heb).
      rewrite (exec_app_running _ _ _ _ He3). cbn [exec step]. rewrite Hrsp3, Hal, Hra3. reflexivity.
    + cbn [regs mem]. split; [|split; [|split]].
      * rewrite upd_same. apply low64_small. lia.
      * intros r Hin. assert (Hrr : r <> RSP) by (intro; subst; contradiction).
        rewrite upd_other by exact Hrr. apply Hc3.
        rewrite <- map_rev. rewrite combine_map_self. apply in_map_iff. exists r. split; [reflexivity|].
        apply in_rev in Hin. exact Hin.
      * intros r Hnr Hrr. rewrite upd_other by exact Hrr. apply Hf3; [|exact Hrr].
        intro Hin. apply in_rev in Hin. contradiction.
      * exact Hm3.
Qed.
