(* C21/Enc.v -- case syntax and encoders for the correspondence check (definitions only). *)
From Coq Require Import ZArith List Bool.
From XV Require Import Base.Show Gen.C21_tables C21.Model C21.Spec.
Import ListNotations.
Local Open Scope Z_scope.

(* case syntax with Z everywhere *)
Inductive zop := ZC (k : Z) | ZB (o a b : Z).
Definition width_of (w : Z) : width :=
  if w =? 8 then W8 else if w =? 16 then W16 else if w =? 32 then W32 else W64.
Definition bop_of (o : Z) : bop := if o =? 1 then BAdd else if o =? 2 then BMul else BSub.
Definition sop_of (o : zop) : sop :=
  match o with ZC k => SConst k | ZB o a b => SBin (bop_of o) (Z.to_nat a) (Z.to_nat b) end.
Definition zprog (w n : Z) (ops : list zop) (ret : Z) : sprog :=
  mkSprog (width_of w) (Z.to_nat n) (map sop_of ops) (if ret <? 0 then None else Some (Z.to_nat ret)).

(* position of an SSA id in the final op list = its canonical number *)
Fixpoint index_of (v : vreg) (ids : list vreg) (k : Z) : Z :=
  match ids with [] => -1 | a :: r => if Nat.eqb a v then k else index_of v r (k + 1) end.

Definition xop_code (o : xop) : Z := match o with XAdd => 1 | XImul => 2 | XSub => 3 end.

Definition enc_vdef (ids : list vreg) (d : vdef) : sx :=
  let ix v := I (index_of v ids 0) in
  match d with
  | VArg _ i => L [I 1; I (Z.of_nat i)]
  | VStk _ i => L [I 2; I (c21_stack_arg_offset (Z.of_nat i))]
  | VImm _ k => L [I 3; I k]
  | VMov _ s => L [I 4; ix s]
  | VOp o _ t s => L [I 5; I (xop_code o); ix t; ix s]
  end.

Definition enc_vfunc (f : vfunc) : sx :=
  let ids := map def_id (vf_defs f) in
  L (map (enc_vdef ids) (vf_defs f)
     ++ match vf_ret f with Some v => [L [I 6; I (index_of v ids 0)]] | None => [] end
     ++ [L [I 7]]).

Definition enc_lower_v (rej8 : bool) (p : sprog) : sx :=
  match c21_lower_v rej8 p with None => I (-1) | Some f => enc_vfunc f end.
Definition enc_lower (p : sprog) : sx := enc_lower_v c21_rejects_imul8 p.

Definition wbits (w : width) : Z := bits w.
Definition enc_instr (i : instr) : sx :=
  match i with
  | IMovRR w d s => L [I 1; I (wbits w); I d; I s; I 0]
  | IMovRI w d k => L [I 2; I (wbits w); I d; I k; I 0]
  | ILoad w d b off => L [I 3; I (wbits w); I d; I b; I off]
  | IAdd w d s => L [I 4; I (wbits w); I d; I s; I 0]
  | ISub w d s => L [I 5; I (wbits w); I d; I s; I 0]
  | IImul w d s => L [I 6; I (wbits w); I d; I s; I 0]
  | IPush s => L [I 7; I 64; I s; I 0; I 0]
  | IPop d => L [I 8; I 64; I d; I 0; I 0]
  | IRet => L [I 9; I 64; I 0; I 0; I 0]
  end.

(* the allocation read back from the real IR: one register per op of the final list, by position *)
Definition alloc_of (f : vfunc) (al : list Z) : vreg -> reg :=
  let ids := map def_id (vf_defs f) in
  fun v => nth (Z.to_nat (index_of v ids 0)) al (-1).

Definition mkver (shift by_index : bool) : version := mkVer shift by_index.

(* -> [ emitted instruction list ; alloc_ok ] *)
Definition enc_finish_v (rej8 : bool) (ver : version) (p : sprog) (al : list Z) : sx :=
  match c21_lower_v rej8 p with
  | None => I (-1)
  | Some f =>
      let a := alloc_of f al in
      L [L (map enc_instr (c21_finish ver (sp_w p) a f)); sB (alloc_ok a f)]
  end.
Definition enc_finish (ver : version) (p : sprog) (al : list Z) : sx := enc_finish_v c21_rejects_imul8 ver p al.

(* machine run of a (parsed, real) instruction list from an ABI entry state *)
Fixpoint assoc_reg (l : list (Z * Z)) (r : Z) : Z :=
  match l with [] => 0 | (a, v) :: t => if a =? r then v else assoc_reg t r end.
Fixpoint stack_mem (base : Z) (l : list Z) (m : Z -> option Z) : Z -> option Z :=
  match l with [] => m | v :: t => stack_mem (base + 8) t (upd m base (Some v)) end.
Definition init_state (rinit : list (Z * Z)) (sp0 ra : Z) (stk : list Z) : state :=
  mkState (upd (assoc_reg rinit) RSP sp0) (stack_mem (sp0 + 8) stk (upd (fun _ => None) sp0 (Some ra))).

Definition enc_outcome (sp0 ra : Z) (o : outcome) : sx :=
  match o with
  | Returned s t =>
      if t =? ra then
        L [I (regs s 0); I (regs s 3); I (regs s 5); I (regs s 12); I (regs s 13); I (regs s 14); I (regs s 15);
           I (low W64 (regs s RSP - (sp0 + 8)))]
      else L [I (-9)]                       (* control leaves through a wrong return address *)
  | Running _ => L [I (-9)]                 (* falls off the end of the function *)
  | Fault c => L [I (-10); I c]
  end.

Definition enc_src (p : sprog) (args : list Z) : sx :=
  match src_sem p args with
  | None => I (-2)
  | Some None => I (-1)
  | Some (Some v) => I v
  end.

(* one argument vector: [ machine outcome ; source semantics ] *)
Definition enc_exec (asm : list instr) (p : sprog) (rinit : list (Z * Z)) (sp0 ra : Z) (args : list Z) : sx :=
  L [enc_outcome sp0 ra (exec asm (init_state rinit sp0 ra (skipn 6 args))); enc_src p args].

(* the register file the native trampoline (harness/props/c21.py, TRAMP) establishes before the call:
   argument registers from the vector (unused ones a fill pattern), sentinels in the callee-saved registers,
   a scratch pattern in rax, r10, r11 *)
Definition tramp_fill : Z := 1229782938247303441.
Definition tramp_scratch : Z := 6510615555426900570.
Definition tramp_sentinels : list (Z * Z) := [(3, 11935946387415370507); (5, 11935946387415370509); (12, 11935946387415370764); (13, 11935946387415371021); (14, 11935946387415371278); (15, 11935946387415371535)].
Fixpoint arg_inits (rs : list Z) (args : list Z) (i : Z) : list (Z * Z) :=
  match rs with
  | [] => []
  | r :: t => (r, match args with a :: _ => a | [] => low W64 (tramp_fill * (i + 1)) end) :: arg_inits t (tl args) (i + 1)
  end.
Definition tramp_rinit (args : list Z) : list (Z * Z) :=
  arg_inits sysv_arg_regs args 0 ++ tramp_sentinels ++ [(0, tramp_scratch); (10, tramp_scratch); (11, tramp_scratch)].

(* a whole program: one entry per argument vector, or (-8) if the text is not assemblable *)
Definition enc_exec_all (asm : list instr) (p : sprog) (sp0 ra : Z) (vecs : list (list Z)) : sx :=
  if forallb encodable asm
  then L (map (fun v => enc_exec asm p (tramp_rinit v) sp0 ra v) vecs)
  else L [I (-8)].
