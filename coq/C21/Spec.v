(* C21/Spec.v -- the statements the C21 theorems are stated against (definitions only).
   1. reference semantics of the SOURCE program: two's complement integers of width w;
   2. the SysV AMD64 calling convention facts, written down independently of the generated tables. *)
From Coq Require Import ZArith List Bool.
From XV Require Import C21.Model.
Import ListNotations.
Local Open Scope Z_scope.

Definition bop_eval (o : bop) (x y : Z) : Z :=
  match o with BAdd => x + y | BMul => x * y | BSub => x - y end.

(* values so far -> values after the remaining ops; None = a use before definition *)
Fixpoint src_run (w : width) (ops : list sop) (vals : list Z) : option (list Z) :=
  match ops with
  | [] => Some vals
  | SConst k :: r => src_run w r (vals ++ [low w k])
  | SBin o a b :: r =>
      match nth_error vals a, nth_error vals b with
      | Some x, Some y => src_run w r (vals ++ [low w (bop_eval o x y)])
      | _, _ => None
      end
  end.

(* args: the raw 64-bit contents of the argument registers / stack slots; the argument is their low w bits.
   Result: None = ill-formed program, Some None = function without result, Some (Some v) = returned value *)
Definition src_sem (p : sprog) (args : list Z) : option (option Z) :=
  if negb (Nat.eqb (length args) (sp_nargs p)) then None else
  match src_run (sp_w p) (sp_ops p) (map (low (sp_w p)) args) with
  | None => None
  | Some vals =>
      match sp_ret p with
      | None => Some None
      | Some r => match nth_error vals r with Some v => Some (Some v) | None => None end
      end
  end.

(* SysV AMD64 (System V ABI, AMD64 supplement 3.2.3 / figure 3.4), hardware register numbers *)
Definition sysv_arg_regs : list Z := [7; 6; 2; 1; 8; 9].          (* rdi rsi rdx rcx r8 r9 *)
Definition sysv_ret_reg : Z := 0.                                  (* rax *)
Definition sysv_callee_saved : list Z := [3; 5; 12; 13; 14; 15].   (* rbx rbp r12 r13 r14 r15 *)
(* at function entry [rsp] is the return address and the (6+i)th INTEGER argument is at [rsp + 8 + 8*i] *)
Definition sysv_stack_arg_addr (entry_rsp : Z) (i : Z) : Z := entry_rsp + 8 + 8 * i.
