(* C21/ProofsSim.v -- simulation: the machine running the assigned instructions tracks the SSA values of
   the x86 IR, given an allocation satisfying alloc_ok (property C19's no-interference invariant). *)
From Coq Require Import ZArith List Bool Lia Arith.
From XV Require Import Gen.C21_tables C21.Model C21.Spec C21.ProofsMachine C21.ProofsLower.
Import ListNotations.
Local Open Scope Z_scope.

Lemma shift_instr_0 : forall i, shift_instr 0 i = i.
Proof. intros i. destruct i; cbn [shift_instr]; try reflexivity. destruct (base =? RSP); [f_equal; lia | reflexivity]. Qed.

Lemma map_shift_0 : forall l, map (shift_instr 0) l = l.
Proof. intros l. induction l as [|i l IH]; cbn [map]; [reflexivity | rewrite shift_instr_0, IH; reflexivity]. Qed.

Lemma shift_xinstr : forall k o w d s, shift_instr k (xinstr o w d s) = xinstr o w d s.
Proof. intros. destruct o; reflexivity. Qed.

Section Sim.
Variable w : width.
Variable raw : list Z.
Variable alloc : vreg -> reg.
Variable delta : Z.            (* what the prologue pass adds to rsp-relative offsets *)

(* what the second canonicalize leaves of one allocated operation *)
Definition emit2 (d : vdef) : list (instr * reg) :=
  let x := assign_def w alloc d in if redundant (fst x) then [] else [x].

Lemma filter_emit2 : forall l,
  filter (fun x => negb (redundant (fst x))) (map (assign_def w alloc) l) = flat_map emit2 l.
Proof.
  induction l as [|d l IH]; cbn [map filter flat_map]; [reflexivity|].
  unfold emit2 at 1. cbv zeta. destruct (redundant (fst (assign_def w alloc d))); cbn [negb app]; rewrite IH; reflexivity.
Qed.

Definition agree (L : list vreg) (st : state) (e : venv) : Prop :=
  forall v, In v L -> low w (regs st (alloc v)) = e v.

(* the slot the (rebased) load of stack argument j reads holds that argument *)
Definition stk_ok (st : state) (j : nat) : Prop :=
  let a := low W64 (regs st RSP + (c21_stack_arg_offset (Z.of_nat j) + delta)) in
  aligned a = true /\ mem st a = Some (nth (max_reg_args + j) raw 0).

Lemma snd_assign_def : forall d, snd (assign_def w alloc d) = alloc (def_id d).
Proof. intros d. destruct d; reflexivity. Qed.

(* one operation *)
Lemma step_def : forall d st e,
  (forall u, In u (def_uses d) -> low w (regs st (alloc u)) = e u) ->
  tie_ok alloc d = true ->
  (forall d' i, d = VArg d' i -> regs st (arg_reg i) = nth i raw 0) ->
  (forall d' j, d = VStk d' j -> stk_ok st j) ->
  exists st1, step (shift_instr delta (fst (assign_def w alloc d))) st = Running st1
    /\ low w (regs st1 (alloc (def_id d))) = vdef_val w raw e d
    /\ (forall r, r <> alloc (def_id d) -> regs st1 r = regs st r)
    /\ mem st1 = mem st.
Proof.
  intros d st e Hu Htie Harg Hstk. destruct d as [d i | d j | d k | d s | o d t s];
    cbn [assign_def fst shift_instr def_id vdef_val def_uses tie_ok] in *.
  - eexists. split; [reflexivity|]. cbn [regs mem]. split; [|split; [|reflexivity]].
    + rewrite write_reg_same. rewrite (Harg d i eq_refl). reflexivity.
    + intros r Hr. apply write_reg_other. exact Hr.
  - replace (RSP =? RSP) with true by reflexivity. cbn [step].
    destruct (Hstk d j eq_refl) as [Hal Hm]. cbv zeta in Hal, Hm. rewrite Hal, Hm.
    eexists. split; [reflexivity|]. cbn [regs mem]. split; [|split; [|reflexivity]].
    + apply write_reg_same.
    + intros r Hr. apply write_reg_other. exact Hr.
  - eexists. split; [reflexivity|]. cbn [regs mem]. split; [|split; [|reflexivity]].
    + apply write_reg_same.
    + intros r Hr. apply write_reg_other. exact Hr.
  - eexists. split; [reflexivity|]. cbn [regs mem]. split; [|split; [|reflexivity]].
    + rewrite write_reg_same. apply Hu. left. reflexivity.
    + intros r Hr. apply write_reg_other. exact Hr.
  - apply Z.eqb_eq in Htie. rewrite shift_xinstr.
    assert (Ht : low w (regs st (alloc t)) = e t) by (apply Hu; cbn [In]; auto).
    assert (Hs : low w (regs st (alloc s)) = e s) by (apply Hu; cbn [In]; auto).
    destruct o; cbn [xinstr step]; (eexists; split; [reflexivity|]); cbn [regs mem];
      (split; [|split; [|reflexivity]]); try (intros r Hr; apply write_reg_other; congruence);
      rewrite Htie; rewrite write_reg_same; cbn [xop_eval]; rewrite <- Ht, <- Hs.
    + symmetry. apply low_add.
    + symmetry. apply low_mul.
    + symmetry. apply low_sub.
Qed.

Lemma redundant_assign : forall d, redundant (fst (assign_def w alloc d)) = true ->
  (exists d' i, d = VArg d' i /\ alloc d' = arg_reg i) \/ (exists d' s, d = VMov d' s /\ alloc d' = alloc s).
Proof.
  intros d H. destruct d as [d i | d j | d k | d s | o d t s]; cbn [assign_def fst redundant] in H; try discriminate.
  - left. exists d, i. split; [reflexivity | apply Z.eqb_eq; exact H].
  - right. exists d, s. split; [reflexivity | apply Z.eqb_eq; exact H].
  - destruct o; discriminate.
Qed.

Lemma live_in_cons_other : forall d r retlive v,
  In v (live_in r retlive) -> v <> def_id d -> In v (live_in (d :: r) retlive).
Proof.
  intros d r retlive v Hin Hne. cbn [live_in]. apply in_or_app. right. apply filter_In. split; [exact Hin|].
  apply negb_true_iff. apply Nat.eqb_neq. exact Hne.
Qed.

Lemma live_in_cons_use : forall d r retlive u, In u (def_uses d) -> In u (live_in (d :: r) retlive).
Proof. intros. cbn [live_in]. apply in_or_app. left. assumption. Qed.

(* a list of operations *)
Lemma sim_defs : forall l st e retlive res,
  In RSP res ->
  (forall d i, In (VArg d i) l -> In (arg_reg i) res /\ regs st (arg_reg i) = nth i raw 0) ->
  (forall d j, In (VStk d j) l -> stk_ok st j) ->
  agree (live_in l retlive) st e ->
  alloc_ok_from res alloc l retlive = true ->
  exists st', exec (map (shift_instr delta) (map fst (flat_map emit2 l))) st = Running st'
    /\ agree retlive st' (veval w raw l e)
    /\ mem st' = mem st
    /\ (forall r, ~ In r (map snd (flat_map emit2 l)) -> regs st' r = regs st r)
    /\ (forall r, In r res -> regs st' r = regs st r).
Proof.
  induction l as [|d l IH]; intros st e retlive res Hrsp Harg Hstk Hag Hok.
  - exists st. cbn [flat_map map exec veval live_in] in *. repeat split; auto.
  - cbn [alloc_ok_from] in Hok. apply andb_true_iff in Hok. destruct Hok as [Hok Hrest].
    apply andb_true_iff in Hok. destruct Hok as [Hok Hint].
    apply andb_true_iff in Hok. destruct Hok as [Hres Htie].
    apply negb_true_iff in Hres. rewrite forallb_forall in Hint.
    assert (Hnres : ~ In (alloc (def_id d)) res).
    { intro Hin. apply memz_In in Hin. congruence. }
    assert (Hnrsp : alloc (def_id d) <> RSP) by (intro Heq; apply Hnres; rewrite Heq; exact Hrsp).
    assert (Hint' : forall v, In v (live_in l retlive) -> v <> def_id d -> alloc v <> alloc (def_id d)).
    { intros v Hin Hne Heq. specialize (Hint v Hin). apply orb_true_iff in Hint. destruct Hint as [Hint|Hint].
      - apply Nat.eqb_eq in Hint. contradiction.
      - apply negb_true_iff, Z.eqb_neq in Hint. contradiction. }
    cbn [flat_map veval]. set (val := vdef_val w raw e d).
    unfold emit2 at 1 3. cbv zeta.
    destruct (redundant (fst (assign_def w alloc d))) eqn:Hred.
    + (* dropped by RemoveRedundantDS_Mov: the state does not change *)
      cbn [app].
      assert (Hval : low w (regs st (alloc (def_id d))) = val).
      { destruct (redundant_assign d Hred) as [[d' [i [-> Heq]]] | [d' [s [-> Heq]]]].
        - exfalso. apply Hnres. cbn [def_id]. rewrite Heq. apply (Harg d' i). left. reflexivity.
        - subst val. cbn [def_id vdef_val]. rewrite Heq. apply Hag. apply live_in_cons_use. left. reflexivity. }
      destruct (IH st (vupd e (def_id d) val) retlive res) as [st' [He [Hag' [Hm [Hfr Hrs]]]]].
      * exact Hrsp.
      * intros d' i Hin. apply (Harg d' i). right. exact Hin.
      * intros d' j Hin. apply (Hstk d' j). right. exact Hin.
      * intros v Hin. destruct (Nat.eq_dec v (def_id d)) as [->|Hne].
        -- rewrite vupd_same. exact Hval.
        -- rewrite vupd_other by exact Hne. apply Hag. apply live_in_cons_other; assumption.
      * exact Hrest.
      * exists st'. repeat split; assumption.
    + (* executed *)
      cbn [app map exec].
      destruct (step_def d st e) as [st1 [Hs1 [Hv1 [Hf1 Hm1]]]].
      * intros u Hu. apply Hag. apply live_in_cons_use. exact Hu.
      * exact Htie.
      * intros d' i ->. apply (Harg d' i). left. reflexivity.
      * intros d' j ->. apply (Hstk d' j). left. reflexivity.
      * rewrite Hs1.
        destruct (IH st1 (vupd e (def_id d) val) retlive res) as [st' [He [Hag' [Hm [Hfr Hrs]]]]].
        -- exact Hrsp.
        -- intros d' i Hin. destruct (Harg d' i (or_intror Hin)) as [H1 H2]. split; [exact H1|].
           rewrite Hf1; [exact H2|]. intro Heq. apply Hnres. rewrite <- Heq. exact H1.
        -- intros d' j Hin. destruct (Hstk d' j (or_intror Hin)) as [H1 H2]. unfold stk_ok in *. cbv zeta in *.
           rewrite (Hf1 RSP) by (apply not_eq_sym; exact Hnrsp). rewrite Hm1. split; assumption.
        -- intros v Hin. destruct (Nat.eq_dec v (def_id d)) as [->|Hne].
           ++ rewrite vupd_same. exact Hv1.
           ++ rewrite vupd_other by exact Hne. rewrite Hf1 by (apply Hint'; assumption).
              apply Hag. apply live_in_cons_other; assumption.
        -- exact Hrest.
        -- exists st'. split; [exact He|]. split; [exact Hag'|]. split; [congruence|]. split.
           ++ intros r Hnin. cbn [map In] in Hnin. rewrite snd_assign_def in Hnin.
              rewrite Hfr by (intro Hin; apply Hnin; right; exact Hin).
              apply Hf1. intro Heq. apply Hnin. left. congruence.
           ++ intros r Hin. rewrite Hrs by exact Hin. apply Hf1. intro Heq. apply Hnres. rewrite <- Heq. exact Hin.
Qed.

End Sim.
