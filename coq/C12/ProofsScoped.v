(* C12/ProofsScoped.v -- all lookup forms of ScopedDict agree with "innermost
   scope that defines the key". *)
From Coq Require Import List Arith Bool ZArith.
From XV Require Import C12.Model.
Import ListNotations.

Lemma slookup_defined sc k :
  existsb (fun kv => Nat.eqb k (fst kv)) sc = true <-> slookup sc k <> None.
Proof.
  induction sc as [|[k' v] r IH]; simpl.
  - split; [discriminate|congruence].
  - destruct (Nat.eqb k k'); simpl; [split; [discriminate|reflexivity]|exact IH].
Qed.

Lemma getitem_innermost d k : sd_getitem d k = innermost d k.
Proof.
  induction d as [|sc ps IH]; simpl; [reflexivity|].
  destruct (existsb (fun kv => Nat.eqb k (fst kv)) sc) eqn:E.
  - apply slookup_defined in E. destruct (slookup sc k); [reflexivity|congruence].
  - destruct (slookup sc k) eqn:E'; [|exact IH].
    assert (H : slookup sc k <> None) by congruence. apply slookup_defined in H. congruence.
Qed.

Lemma get_getitem d k df :
  sd_get d k df = match sd_getitem d k with Some v => v | None => df end.
Proof.
  induction d as [|sc ps IH]; simpl; [reflexivity|].
  destruct (slookup sc k); [reflexivity|exact IH].
Qed.

Lemma contains_getitem d k : sd_contains d k = true <-> sd_getitem d k <> None.
Proof.
  induction d as [|sc ps IH]; simpl.
  - split; [discriminate|congruence].
  - destruct (slookup sc k); [split; [discriminate|reflexivity]|exact IH].
Qed.

Theorem scoped_consistent d k df :
  sd_getitem d k = innermost d k /\
  sd_get d k df = match innermost d k with Some v => v | None => df end /\
  (sd_contains d k = true <-> innermost d k <> None).
Proof.
  rewrite <- getitem_innermost. split; [reflexivity|]. split.
  - apply get_getitem.
  - apply contains_getitem.
Qed.

(* setitem binds in the current scope and shadows, parents untouched *)
Theorem scoped_set_get sc ps k v k' :
  innermost (sd_setitem (sc :: ps) k v) k' =
  if Nat.eqb k' k then Some v else innermost (sc :: ps) k'.
Proof.
  simpl. destruct (Nat.eqb k' k) eqn:E; simpl; reflexivity.
Qed.

(* The code before the fix (kept as the recorded refutation): a scope binding a
   key to Python's None made `get` disagree with `[]`. *)
Theorem scoped_old_get_refuted :
  exists d k, sd_getitem d k = Some None /\ sd_get_old d k None = Some 5%Z.
Proof. exists [[(0, None)]; [(0, Some 5%Z)]], 0. split; reflexivity. Qed.
