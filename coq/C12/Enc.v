(* C12/Enc.v -- encoders and exhaustive-sweep enumerators for the correspondence
   check of C12 (definitions only, evaluated by vm_compute in generated case files). *)
From Coq Require Import List Arith ZArith Bool.
From XV Require Import Base.Show C12.Model.
Import ListNotations.

Fixpoint seqs {A} (ops : list A) (n : nat) : list (list A) :=
  match n with
  | O => [[]]
  | S k => flat_map (fun o => map (cons o) (seqs ops k)) ops
  end.

Definition zopt (o : option nat) : Z := match o with Some x => Z.of_nat x | None => (-1)%Z end.

(* ---- worklist ---- *)
Definition enc_wl_out (o : wl_out) : sx :=
  match o with
  | ONone => I (-1) | OItem x => sN x | OIndexError => I (-2)
  | OBool b => I (if b then 11 else 10)
  end%Z.
Definition enc_wl (univ : list nat) (r : wl * list wl_out) : sx :=
  let '(s, outs) := r in
  L [L (map enc_wl_out outs); L (map (fun o => I (zopt o)) (stack s));
     L (map (fun x => I (zopt (lookup (wmap s) x))) univ)].
Definition wl_ops (univ : list nat) : list wl_op :=
  map WPush univ ++ [WPop] ++ map WRemove univ ++ [WBool].
Definition wl_sweep (univ : list nat) (prefix : list wl_op) (n : nat) : sx :=
  L (map (fun tl => enc_wl univ (wl_run wl_empty (prefix ++ tl))) (seqs (wl_ops univ) n)).
Definition wl_case (univ : list nat) (ops : list wl_op) : sx := enc_wl univ (wl_run wl_empty ops).

(* ---- scoped dict ---- *)
Definition enc_pyval (v : pyval) : sx := match v with None => L [] | Some z => L [I z] end.
Definition enc_sd_out (o : sd_out) : sx :=
  match o with
  | SNone => I (-1) | SVal v => enc_pyval v | SKeyError => I (-2)
  | SBool b => I (if b then 11 else 10)
  end%Z.
Definition sd_ops (keys : list nat) (vals dfs : list pyval) : list sd_op :=
  [SEnter; SExit]
  ++ flat_map (fun k => map (SSet k) vals) keys
  ++ flat_map (fun k => map (SGet k) dfs) keys
  ++ map SGetItem keys ++ map SContains keys.
Definition sd_sweep keys vals dfs (prefix : list sd_op) (n : nat) : sx :=
  L (map (fun tl => L (map enc_sd_out (sd_run [[]] (prefix ++ tl)))) (seqs (sd_ops keys vals dfs) n)).
Definition sd_case (ops : list sd_op) : sx := L (map enc_sd_out (sd_run [[]] ops)).

(* forest of scopes (several ScopedDict objects alive at once) *)
Definition sf_ops (scopes keys : list nat) (vals dfs : list pyval) : list sf_op :=
  [FNew 0]
  ++ flat_map (fun s => flat_map (fun k => map (FSet s k) vals) keys) scopes
  ++ flat_map (fun s => flat_map (fun k => map (FGet s k) dfs) keys) scopes
  ++ flat_map (fun s => map (FGetItem s) keys) scopes
  ++ flat_map (fun s => map (FContains s) keys) scopes.
Definition sf_sweep scopes keys vals dfs (prefix : list sf_op) (n : nat) : sx :=
  L (map (fun tl => L (map enc_sd_out (sf_run sf_init (prefix ++ tl)))) (seqs (sf_ops scopes keys vals dfs) n)).
Definition sf_case (ops : list sf_op) : sx := L (map enc_sd_out (sf_run sf_init ops)).

(* ---- union-find ---- *)
Definition enc_uf_out (o : uf_out) : sx :=
  match o with
  | UFNat n => sN n | UFBool b => I (if b then 11 else 10) | UFKeyError => I (-2)
  | UFFuel => I (-3) | UFList l => sLN l
  end%Z.
Definition enc_uf (r : uf * list uf_out) : sx :=
  let '(u, outs) := r in L [L (map enc_uf_out outs); sLN (parent u); sLN (count u)].
Definition pairs (l : list nat) : list (nat * nat) := flat_map (fun a => map (pair a) l) l.
Definition uf_ops (args : list nat) : list uf_op :=
  [UAdd] ++ map UFind args
  ++ map (fun p => UUnion (fst p) (snd p)) (pairs args)
  ++ map (fun p => UUnionLeft (fst p) (snd p)) (pairs args)
  ++ map (fun p => UConnected (fst p) (snd p)) (filter (fun p => Nat.leb (fst p) (snd p)) (pairs args))
  ++ [URoots].
Definition uf_sweep (n0 : nat) (args : list nat) (prefix : list uf_op) (n : nat) : sx :=
  L (map (fun tl => enc_uf (uf_run (uf_init n0) (prefix ++ tl))) (seqs (uf_ops args) n)).
Definition uf_case (n0 : nat) (ops : list uf_op) : sx := enc_uf (uf_run (uf_init n0) ops).
