(* C12/Model.v -- executable models of xdsl/utils/worklist.py, scoped_dict.py,
   disjoint_set.py.  Definitions only; proofs live in C12/Proofs*.v. *)
From Coq Require Import List Arith ZArith Bool.
Import ListNotations.

(* ------------------------------------------------------------------ *)
(* Python dict[int,int] as an association list (internal state only). *)
Definition dict := list (nat * nat).
Fixpoint lookup (m : dict) (k : nat) : option nat :=
  match m with
  | [] => None
  | (k', v) :: r => if Nat.eqb k k' then Some v else lookup r k
  end.
Fixpoint del (m : dict) (k : nat) : dict :=
  match m with
  | [] => []
  | (k', v) :: r => if Nat.eqb k k' then del r k else (k', v) :: del r k
  end.
Definition dset (m : dict) (k v : nat) : dict := (k, v) :: del m k.
Definition dmem (m : dict) (k : nat) : bool :=
  match lookup m k with Some _ => true | None => false end.

(* ------------------------------------------------------------------ *)
(* Worklist: _stack (index 0 = bottom, None = _MISSING) and _map.     *)
Record wl := { stack : list (option nat); wmap : dict }.
Definition wl_empty : wl := {| stack := []; wmap := [] |}.

(* while self._stack and self._stack[-1] is _MISSING: self._stack.pop() *)
Fixpoint strip (l : list (option nat)) : list (option nat) :=
  match l with
  | [] => []
  | x :: r =>
      match strip r with
      | [] => match x with None => [] | Some _ => [x] end
      | r' => x :: r'
      end
  end.

Fixpoint set_nth {A} (i : nat) (v : A) (l : list A) : list A :=
  match l, i with
  | [], _ => []
  | _ :: r, O => v :: r
  | x :: r, S i' => x :: set_nth i' v r
  end.

Definition wl_bool (s : wl) : wl * bool :=
  let st := strip (stack s) in
  ({| stack := st; wmap := wmap s |}, match st with [] => false | _ => true end).

Definition wl_push (s : wl) (x : nat) : wl :=
  if dmem (wmap s) x then s
  else {| stack := stack s ++ [Some x]; wmap := dset (wmap s) x (length (stack s)) |}.

(* pop: returns None for IndexError (stack is left empty, as in the code) *)
Definition wl_pop (s : wl) : wl * option nat :=
  let st := strip (stack s) in
  match last st None with
  | Some x => ({| stack := removelast st; wmap := del (wmap s) x |}, Some x)
  | None => ({| stack := []; wmap := wmap s |}, None)
  end.

Definition wl_remove (s : wl) (x : nat) : wl :=
  match lookup (wmap s) x with
  | Some i => {| stack := set_nth i None (stack s); wmap := del (wmap s) x |}
  | None => s
  end.

Inductive wl_op := WPush (x : nat) | WPop | WRemove (x : nat) | WBool.
(* observable output of one call: 0 = no value, Some x / IndexError for pop, bool *)
Inductive wl_out := ONone | OItem (x : nat) | OIndexError | OBool (b : bool).

Definition wl_step (s : wl) (o : wl_op) : wl * wl_out :=
  match o with
  | WPush x => (wl_push s x, ONone)
  | WRemove x => (wl_remove s x, ONone)
  | WBool => let '(s', b) := wl_bool s in (s', OBool b)
  | WPop => let '(s', r) := wl_pop s in
            (s', match r with Some x => OItem x | None => OIndexError end)
  end.

Fixpoint wl_run (s : wl) (ops : list wl_op) : wl * list wl_out :=
  match ops with
  | [] => (s, [])
  | o :: r => let '(s1, out) := wl_step s o in
              let '(s2, outs) := wl_run s1 r in (s2, out :: outs)
  end.

(* Abstract specification: a LIFO stack without duplicates (bottom first). *)
Definition aw := list nat.
Definition aw_step (l : aw) (o : wl_op) : aw * wl_out :=
  match o with
  | WPush x => (if existsb (Nat.eqb x) l then l else l ++ [x], ONone)
  | WRemove x => (filter (fun y => negb (Nat.eqb x y)) l, ONone)
  | WBool => (l, OBool (match l with [] => false | _ => true end))
  | WPop => match rev l with
            | [] => ([], OIndexError)
            | x :: _ => (removelast l, OItem x)
            end
  end.
Fixpoint aw_run (l : aw) (ops : list wl_op) : aw * list wl_out :=
  match ops with
  | [] => (l, [])
  | o :: r => let '(l1, out) := aw_step l o in
              let '(l2, outs) := aw_run l1 r in (l2, out :: outs)
  end.
Definition absl (st : list (option nat)) : aw :=
  flat_map (fun o => match o with Some x => [x] | None => [] end) st.

(* ------------------------------------------------------------------ *)
(* ScopedDict: a chain of scopes, innermost first.  A Python value is
   `option Z` (None = Python's None, which the API accepts as a value). *)
Definition pyval := option Z.
Definition scope := list (nat * pyval).
Fixpoint slookup (m : scope) (k : nat) : option pyval :=
  match m with
  | [] => None
  | (k', v) :: r => if Nat.eqb k k' then Some v else slookup r k
  end.
Definition sdict := list scope.   (* head = self, tail = parents *)

(* get(key, default) as in the (repaired) code: `if key in self._local_scope` *)
Fixpoint sd_get (d : sdict) (k : nat) (default : pyval) : pyval :=
  match d with
  | [] => default
  | sc :: parents =>
      match slookup sc k with
      | Some v => v
      | None => sd_get parents k default
      end
  end.
(* __getitem__: None = KeyError *)
Fixpoint sd_getitem (d : sdict) (k : nat) : option pyval :=
  match d with
  | [] => None
  | sc :: parents =>
      match slookup sc k with
      | Some v => Some v
      | None => sd_getitem parents k
      end
  end.
Fixpoint sd_contains (d : sdict) (k : nat) : bool :=
  match d with
  | [] => false
  | sc :: parents =>
      match slookup sc k with Some _ => true | None => sd_contains parents k end
  end.
Definition sd_setitem (d : sdict) (k : nat) (v : pyval) : sdict :=
  match d with
  | [] => []
  | sc :: parents => ((k, v) :: sc) :: parents
  end.

(* The code before the repair (`local = self._local_scope.get(key); if local is
   not None`), kept to state the refutation that motivated the fix. *)
Fixpoint sd_get_old (d : sdict) (k : nat) (default : pyval) : pyval :=
  match d with
  | [] => default
  | sc :: parents =>
      match slookup sc k with
      | Some (Some z) => Some z
      | _ => sd_get_old parents k default
      end
  end.

Inductive sd_op :=
| SEnter | SExit | SSet (k : nat) (v : pyval)
| SGet (k : nat) (d : pyval) | SGetItem (k : nat) | SContains (k : nat).
Inductive sd_out := SNone | SVal (v : pyval) | SKeyError | SBool (b : bool).
Definition sd_step (d : sdict) (o : sd_op) : sdict * sd_out :=
  match o with
  | SEnter => ([] :: d, SNone)
  | SExit => (match d with _ :: (p :: r) => p :: r | _ => d end, SNone)
  | SSet k v => (sd_setitem d k v, SNone)
  | SGet k df => (d, SVal (sd_get d k df))
  | SGetItem k => (d, match sd_getitem d k with Some v => SVal v | None => SKeyError end)
  | SContains k => (d, SBool (sd_contains d k))
  end.
Fixpoint sd_run (d : sdict) (ops : list sd_op) : list sd_out :=
  match ops with
  | [] => []
  | o :: r => let '(d1, out) := sd_step d o in out :: sd_run d1 r
  end.

(* Several ScopedDict objects alive at once: a forest of scopes, each with an optional
   parent (index of an OLDER scope).  Every lookup on scope i is the chain lookup above
   on the list of scopes from i up to its root. *)
Definition sforest := list (option nat * scope).
Fixpoint chain (fuel : nat) (t : sforest) (i : nat) : sdict :=
  match fuel with
  | O => []
  | S f =>
      match nth_error t i with
      | None => []
      | Some (par, sc) => sc :: match par with Some p => chain f t p | None => [] end
      end
  end.
Definition chain_of (t : sforest) (i : nat) : sdict := chain (length t) t i.
Fixpoint fset_scope (t : sforest) (i : nat) (k : nat) (v : pyval) : sforest :=
  match t, i with
  | [], _ => []
  | (par, sc) :: r, O => (par, (k, v) :: sc) :: r
  | x :: r, S i' => x :: fset_scope r i' k v
  end.
Inductive sf_op :=
| FNew (parent : nat)                       (* ScopedDict(parent=scopes[parent]) *)
| FSet (s k : nat) (v : pyval) | FGet (s k : nat) (d : pyval)
| FGetItem (s k : nat) | FContains (s k : nat).
(* scope indices out of range are clamped to the newest scope by the harness AND here *)
Definition clampi (t : sforest) (i : nat) : nat := Nat.min i (length t - 1).
Definition sf_step (t : sforest) (o : sf_op) : sforest * sd_out :=
  match o with
  | FNew p => (t ++ [(Some (clampi t p), [])], SNone)
  | FSet s k v => (fset_scope t (clampi t s) k v, SNone)
  | FGet s k df => (t, SVal (sd_get (chain_of t (clampi t s)) k df))
  | FGetItem s k => (t, match sd_getitem (chain_of t (clampi t s)) k with
                        | Some v => SVal v | None => SKeyError end)
  | FContains s k => (t, SBool (sd_contains (chain_of t (clampi t s)) k))
  end.
Fixpoint sf_run (t : sforest) (ops : list sf_op) : list sd_out :=
  match ops with
  | [] => []
  | o :: r => let '(t1, out) := sf_step t o in out :: sf_run t1 r
  end.
Definition sf_init : sforest := [(None, [])].

(* Specification: value bound in the innermost scope that defines the key. *)
Fixpoint innermost (d : sdict) (k : nat) : option pyval :=
  match d with
  | [] => None
  | sc :: parents => if existsb (fun kv => Nat.eqb k (fst kv)) sc
                     then slookup sc k else innermost parents k
  end.

(* ------------------------------------------------------------------ *)
(* IntDisjointSet: _parent and _count as lists indexed by element.    *)
Record uf := { parent : list nat; count : list nat }.
Definition uf_init (n : nat) : uf := {| parent := seq 0 n; count := repeat 1 n |}.
Definition par (p : list nat) (i : nat) : nat := nth i p i.

(* while self._parent[root] != root: root = self._parent[root]   (fuel-bounded) *)
Fixpoint find_root (fuel : nat) (p : list nat) (x : nat) : option nat :=
  if Nat.eqb (par p x) x then Some x
  else match fuel with
       | O => None
       | S f => find_root f p (par p x)
       end.
(* path compression loop *)
Fixpoint compress (fuel : nat) (p : list nat) (cur root : nat) : list nat :=
  if Nat.eqb cur root then p
  else match fuel with
       | O => p
       | S f => compress f (set_nth cur root p) (par p cur) root
       end.

Inductive uf_res (A : Type) := UOk (a : A) | UKeyError | UOutOfFuel.
Arguments UOk {A} a. Arguments UKeyError {A}. Arguments UOutOfFuel {A}.

Definition uf_find (u : uf) (x : nat) : uf * uf_res nat :=
  if Nat.leb (length (parent u)) x then (u, UKeyError)
  else match find_root (length (parent u)) (parent u) x with
       | None => (u, UOutOfFuel)
       | Some r => ({| parent := compress (length (parent u)) (parent u) x r; count := count u |}, UOk r)
       end.

Definition uf_add (u : uf) : uf * nat :=
  let n := length (parent u) in
  ({| parent := parent u ++ [n]; count := count u ++ [1] |}, n).

Definition uf_link (u : uf) (new_parent new_child total : nat) : uf :=
  {| parent := set_nth new_child new_parent (parent u);
     count := set_nth new_parent total (count u) |}.

Definition uf_union_left (u : uf) (a b : nat) : uf * uf_res bool :=
  match uf_find u a with
  | (u1, UOk ra) =>
      match uf_find u1 b with
      | (u2, UOk rb) =>
          if Nat.eqb ra rb then (u2, UOk false)
          else (uf_link u2 ra rb (nth ra (count u2) 0 + nth rb (count u2) 0), UOk true)
      | (u2, UKeyError) => (u2, UKeyError)
      | (u2, UOutOfFuel) => (u2, UOutOfFuel)
      end
  | (u1, UKeyError) => (u1, UKeyError)
  | (u1, UOutOfFuel) => (u1, UOutOfFuel)
  end.

Definition uf_union (u : uf) (a b : nat) : uf * uf_res bool :=
  match uf_find u a with
  | (u1, UOk ra) =>
      match uf_find u1 b with
      | (u2, UOk rb) =>
          if Nat.eqb ra rb then (u2, UOk false)
          else
            let ca := nth ra (count u2) 0 in
            let cb := nth rb (count u2) 0 in
            if Nat.leb cb ca then (uf_link u2 ra rb (ca + cb), UOk true)
            else (uf_link u2 rb ra (ca + cb), UOk true)
      | (u2, UKeyError) => (u2, UKeyError)
      | (u2, UOutOfFuel) => (u2, UOutOfFuel)
      end
  | (u1, UKeyError) => (u1, UKeyError)
  | (u1, UOutOfFuel) => (u1, UOutOfFuel)
  end.

Definition uf_connected (u : uf) (a b : nat) : uf * uf_res bool :=
  match uf_find u a with
  | (u1, UOk ra) =>
      match uf_find u1 b with
      | (u2, UOk rb) => (u2, UOk (Nat.eqb ra rb))
      | (u2, UKeyError) => (u2, UKeyError)
      | (u2, UOutOfFuel) => (u2, UOutOfFuel)
      end
  | (u1, UKeyError) => (u1, UKeyError)
  | (u1, UOutOfFuel) => (u1, UOutOfFuel)
  end.

Definition uf_roots (u : uf) : list nat :=
  filter (fun i => Nat.eqb (par (parent u) i) i) (seq 0 (length (parent u))).

Inductive uf_op := UAdd | UFind (x : nat) | UUnion (a b : nat) | UUnionLeft (a b : nat)
                 | UConnected (a b : nat) | URoots.
Inductive uf_out := UFNat (n : nat) | UFBool (b : bool) | UFKeyError | UFFuel | UFList (l : list nat).

Definition out_of_nat (r : uf_res nat) : uf_out :=
  match r with UOk n => UFNat n | UKeyError => UFKeyError | UOutOfFuel => UFFuel end.
Definition out_of_bool (r : uf_res bool) : uf_out :=
  match r with UOk b => UFBool b | UKeyError => UFKeyError | UOutOfFuel => UFFuel end.

Definition uf_step (u : uf) (o : uf_op) : uf * uf_out :=
  match o with
  | UAdd => let '(u', n) := uf_add u in (u', UFNat n)
  | UFind x => let '(u', r) := uf_find u x in (u', out_of_nat r)
  | UUnion a b => let '(u', r) := uf_union u a b in (u', out_of_bool r)
  | UUnionLeft a b => let '(u', r) := uf_union_left u a b in (u', out_of_bool r)
  | UConnected a b => let '(u', r) := uf_connected u a b in (u', out_of_bool r)
  | URoots => (u, UFList (uf_roots u))
  end.
Fixpoint uf_run (u : uf) (ops : list uf_op) : uf * list uf_out :=
  match ops with
  | [] => (u, [])
  | o :: r => let '(u1, out) := uf_step u o in
              let '(u2, outs) := uf_run u1 r in (u2, out :: outs)
  end.
