(* C12/ProofsWorklist.v -- the tombstone worklist refines a LIFO stack without
   duplicates, for every history. *)
From Coq Require Import List Arith Bool Lia Permutation.
From XV Require Import C12.Model.
Import ListNotations.

Fixpoint index_of (x : nat) (l : list (option nat)) : option nat :=
  match l with
  | [] => None
  | Some y :: r => if Nat.eqb x y then Some 0 else option_map S (index_of x r)
  | None :: r => option_map S (index_of x r)
  end.

Definition WInv (s : wl) : Prop :=
  NoDup (absl (stack s)) /\ forall x, lookup (wmap s) x = index_of x (stack s).

(* ---- dict lemmas ---- *)
Lemma lookup_del m k k' : lookup (del m k) k' = if Nat.eqb k k' then None else lookup m k'.
Proof.
  induction m as [|[a v] m IH]; simpl.
  - destruct (Nat.eqb k k'); reflexivity.
  - destruct (Nat.eqb k a) eqn:Hka.
    + apply Nat.eqb_eq in Hka; subst a. rewrite IH.
      destruct (Nat.eqb k k') eqn:Hkk; [reflexivity|].
      rewrite Nat.eqb_sym, Hkk. reflexivity.
    + simpl. rewrite IH. destruct (Nat.eqb k' a) eqn:Hk'a; [|reflexivity].
      apply Nat.eqb_eq in Hk'a; subst a. rewrite Hka. reflexivity.
Qed.

Lemma lookup_dset m k v k' : lookup (dset m k v) k' = if Nat.eqb k' k then Some v else lookup m k'.
Proof.
  unfold dset; simpl. destruct (Nat.eqb k' k) eqn:E; [reflexivity|].
  rewrite lookup_del, Nat.eqb_sym, E. reflexivity.
Qed.

Local Arguments dset : simpl never.
Local Arguments del : simpl never.
Local Arguments lookup : simpl never.

(* ---- index_of / absl ---- *)
Lemma index_of_none x l : index_of x l = None <-> ~ In x (absl l).
Proof.
  induction l as [|[y|] r IH]; simpl.
  - tauto.
  - destruct (Nat.eqb x y) eqn:E.
    + apply Nat.eqb_eq in E; subst. split; [discriminate|intros H; exfalso; apply H; auto].
    + apply Nat.eqb_neq in E. destruct (index_of x r); simpl.
      * split; [discriminate|]. intros H. exfalso. apply H. right. 
        destruct (in_dec Nat.eq_dec x (absl r)) as [hin|hnin]; [exact hin|]. apply IH in hnin. discriminate.
      * split; [|reflexivity]. intros _ [H|H]; [congruence|]. apply IH in H; auto.
  - destruct (index_of x r); simpl.
    + split; [discriminate|]. intros H. apply IH in H. discriminate.
    + split; [|reflexivity]. intros _. apply IH. reflexivity.
Qed.

Lemma absl_app a b : absl (a ++ b) = absl a ++ absl b.
Proof. unfold absl. apply flat_map_app. Qed.

Lemma index_of_app x l y :
  index_of x (l ++ [Some y]) =
  match index_of x l with
  | Some i => Some i
  | None => if Nat.eqb x y then Some (length l) else None
  end.
Proof.
  induction l as [|[z|] r IH]; simpl.
  - destruct (Nat.eqb x y); reflexivity.
  - destruct (Nat.eqb x z); [reflexivity|]. rewrite IH.
    destruct (index_of x r); simpl; [reflexivity|]. destruct (Nat.eqb x y); reflexivity.
  - rewrite IH. destruct (index_of x r); simpl; [reflexivity|]. destruct (Nat.eqb x y); reflexivity.
Qed.

(* ---- strip ---- *)
Lemma strip_absl l : absl (strip l) = absl l.
Proof.
  induction l as [|x r IH]; simpl; [reflexivity|].
  destruct (strip r) as [|a r'] eqn:E.
  - simpl in IH. destruct x as [y|]; simpl; rewrite <- IH; reflexivity.
  - destruct x as [y|]; simpl; simpl in IH; rewrite <- IH; reflexivity.
Qed.

Lemma strip_index x l : index_of x (strip l) = index_of x l.
Proof.
  induction l as [|o r IH]; simpl; [reflexivity|].
  destruct (strip r) as [|a r'] eqn:E.
  - simpl in IH. destruct o as [y|]; simpl; rewrite <- IH; simpl; reflexivity.
  - destruct o as [y|]; simpl; rewrite <- IH; reflexivity.
Qed.

Lemma strip_last_none l : last (strip l) None = None -> strip l = [].
Proof.
  induction l as [|o r IH]; simpl; [reflexivity|].
  destruct (strip r) as [|a r'] eqn:E.
  - destruct o; simpl; [discriminate|reflexivity].
  - intros H. assert (H' : last (a :: r') None = None) by exact H.
    apply IH in H'. discriminate.
Qed.

Lemma last_some_split (l : list (option nat)) x :
  last l None = Some x -> l = removelast l ++ [Some x].
Proof.
  intros H. destruct l as [|a r]; [discriminate|].
  assert (Hne : a :: r <> []) by discriminate.
  rewrite (app_removelast_last None Hne) at 1. rewrite H. reflexivity.
Qed.

Lemma filter_notin x l : ~ In x l -> filter (fun y => negb (Nat.eqb x y)) l = l.
Proof.
  induction l as [|a r IH]; simpl; [reflexivity|]. intros H.
  destruct (Nat.eqb x a) eqn:E.
  - apply Nat.eqb_eq in E. subst. exfalso. apply H. auto.
  - simpl. rewrite IH; [reflexivity|]. intros Hin. apply H. auto.
Qed.

(* ---- set_nth at the unique position of x ---- *)
Lemma set_nth_absl x l i :
  index_of x l = Some i -> NoDup (absl l) ->
  absl (set_nth i None l) = filter (fun y => negb (Nat.eqb x y)) (absl l).
Proof.
  revert i. induction l as [|[y|] r IH]; simpl; intros i Hi Hnd.
  - discriminate.
  - destruct (Nat.eqb x y) eqn:E.
    + injection Hi as <-. simpl. apply Nat.eqb_eq in E. subst y.
      inversion Hnd; subst. rewrite filter_notin; auto.
    + destruct (index_of x r) as [j|] eqn:Ej; [|discriminate]. simpl in Hi. injection Hi as <-.
      simpl. inversion Hnd; subst. rewrite (IH j); auto.
  - destruct (index_of x r) as [j|] eqn:Ej; [|discriminate]. simpl in Hi. injection Hi as <-.
    simpl. apply IH; auto.
Qed.

Lemma set_nth_index x l i y :
  index_of x l = Some i -> NoDup (absl l) ->
  index_of y (set_nth i None l) = if Nat.eqb x y then None else index_of y l.
Proof.
  revert i. induction l as [|[z|] r IH]; simpl; intros i Hi Hnd.
  - discriminate.
  - inversion Hnd as [|? ? Hnotin Hnd']; subst.
    destruct (Nat.eqb x z) eqn:E.
    + injection Hi as <-. simpl. apply Nat.eqb_eq in E. subst z.
      destruct (Nat.eqb x y) eqn:Exy.
      * apply Nat.eqb_eq in Exy. subst y. apply index_of_none in Hnotin. rewrite Hnotin. reflexivity.
      * rewrite Nat.eqb_sym, Exy. reflexivity.
    + destruct (index_of x r) as [j|] eqn:Ej; [|discriminate]. simpl in Hi. injection Hi as <-.
      simpl. rewrite (IH j); auto.
      destruct (Nat.eqb x y) eqn:Exy.
      * apply Nat.eqb_eq in Exy. subst y. rewrite E. reflexivity.
      * reflexivity.
  - destruct (index_of x r) as [j|] eqn:Ej; [|discriminate]. simpl in Hi. injection Hi as <-.
    simpl. rewrite (IH j); auto. destruct (Nat.eqb x y); reflexivity.
Qed.

Lemma existsb_absl x l : existsb (Nat.eqb x) l = true <-> In x l.
Proof.
  rewrite existsb_exists. split.
  - intros [y [Hy E]]. apply Nat.eqb_eq in E. subst. exact Hy.
  - intros H. exists x. split; [exact H|apply Nat.eqb_refl].
Qed.

Lemma NoDup_app_comm {A} (a b : list A) : NoDup (a ++ b) -> NoDup (b ++ a).
Proof. intros H. eapply Permutation_NoDup; [apply Permutation_app_comm|exact H]. Qed.

(* ---- one step ---- *)
Lemma wl_step_refines s o :
  WInv s ->
  WInv (fst (wl_step s o)) /\
  absl (stack (fst (wl_step s o))) = fst (aw_step (absl (stack s)) o) /\
  snd (wl_step s o) = snd (aw_step (absl (stack s)) o).
Proof.
  intros [Hnd Hmap]. unfold WInv. destruct o as [x| |x|]; simpl.
  - (* push *)
    unfold wl_push, dmem. rewrite Hmap.
    destruct (index_of x (stack s)) as [i|] eqn:Ei.
    + assert (Hin : In x (absl (stack s))).
      { destruct (in_dec Nat.eq_dec x (absl (stack s))) as [h|h]; [exact h|].
        apply index_of_none in h. congruence. }
      apply existsb_absl in Hin. rewrite Hin. repeat split; auto.
    + assert (Hnin : ~ In x (absl (stack s))) by (apply index_of_none; exact Ei).
      assert (Hex : existsb (Nat.eqb x) (absl (stack s)) = false).
      { destruct (existsb (Nat.eqb x) (absl (stack s))) eqn:E; [|reflexivity].
        apply existsb_absl in E. contradiction. }
      rewrite Hex. simpl. rewrite absl_app. simpl. repeat split; auto.
      * apply NoDup_app_comm. simpl. constructor; auto.
      * intros y. rewrite lookup_dset, index_of_app, Hmap.
        destruct (Nat.eqb y x) eqn:E.
        -- apply Nat.eqb_eq in E. subst y. rewrite Ei. reflexivity.
        -- destruct (index_of y (stack s)); reflexivity.
  - (* pop *)
    unfold wl_pop.
    destruct (last (strip (stack s)) None) as [x|] eqn:El.
    + pose proof (last_some_split _ _ El) as Hsplit.
      set (l' := removelast (strip (stack s))) in *.
      assert (Habs : absl (stack s) = absl l' ++ [x]).
      { rewrite <- strip_absl, Hsplit, absl_app. reflexivity. }
      simpl. rewrite Habs, rev_app_distr. simpl. rewrite removelast_last.
      assert (Hnd' : NoDup (absl l' ++ [x])) by (rewrite <- Habs; exact Hnd).
      apply NoDup_app_comm in Hnd'. simpl in Hnd'. inversion Hnd' as [|? ? Hnotin Hnd'']; subst.
      repeat split; auto.
      intros y. simpl. rewrite lookup_del, Hmap, <- strip_index, Hsplit, index_of_app.
      fold l'. destruct (Nat.eqb x y) eqn:E.
      * apply Nat.eqb_eq in E. subst y. apply index_of_none in Hnotin. rewrite Hnotin. reflexivity.
      * rewrite Nat.eqb_sym, E. destruct (index_of y l'); reflexivity.
    + apply strip_last_none in El.
      assert (Habs : absl (stack s) = []) by (rewrite <- strip_absl, El; reflexivity).
      simpl. rewrite Habs. simpl. repeat split; auto.
      * constructor.
      * intros y. simpl. rewrite Hmap, <- strip_index, El. reflexivity.
  - (* remove *)
    unfold wl_remove. rewrite Hmap.
    destruct (index_of x (stack s)) as [i|] eqn:Ei.
    + simpl. repeat split.
      * rewrite (set_nth_absl x _ i); auto. apply NoDup_filter. exact Hnd.
      * intros y. rewrite lookup_del, Hmap. rewrite (set_nth_index x _ i); auto.
      * apply set_nth_absl; auto.
    + apply index_of_none in Ei. rewrite filter_notin; auto.
  - (* bool *)
    unfold wl_bool. simpl. rewrite !strip_absl. split; [split|split].
    + exact Hnd.
    + intros y. rewrite strip_index. apply Hmap.
    + reflexivity.
    + f_equal. destruct (strip (stack s)) as [|a r] eqn:E.
      * rewrite <- strip_absl, E. reflexivity.
      * assert (Hl : last (strip (stack s)) None <> None).
        { intros H. apply strip_last_none in H. congruence. }
        destruct (last (strip (stack s)) None) as [x|] eqn:El; [|congruence].
        pose proof (last_some_split _ _ El) as Hs.
        rewrite <- strip_absl, Hs, absl_app. simpl.
        destruct (absl (removelast (strip (stack s)))); reflexivity.
Qed.

Lemma WInv_empty : WInv wl_empty.
Proof. split; [constructor|reflexivity]. Qed.

(* ---- every history ---- *)
Lemma wl_run_refines ops : forall s,
  WInv s ->
  WInv (fst (wl_run s ops)) /\
  absl (stack (fst (wl_run s ops))) = fst (aw_run (absl (stack s)) ops) /\
  snd (wl_run s ops) = snd (aw_run (absl (stack s)) ops).
Proof.
  induction ops as [|o r IH]; intros s Hs; simpl.
  - auto.
  - destruct (wl_step_refines s o Hs) as [H1 [H2 H3]].
    destruct (wl_step s o) as [s1 out] eqn:E1.
    destruct (aw_step (absl (stack s)) o) as [l1 out'] eqn:E2.
    simpl in *. subst l1 out'.
    destruct (IH s1 H1) as [H4 [H5 H6]].
    destruct (wl_run s1 r) as [s2 outs]. destruct (aw_run (absl (stack s1)) r) as [l2 outs'].
    simpl in *. subst. auto.
Qed.

Theorem worklist_refines_lifo_set ops :
  snd (wl_run wl_empty ops) = snd (aw_run [] ops) /\
  absl (stack (fst (wl_run wl_empty ops))) = fst (aw_run [] ops) /\
  NoDup (fst (aw_run [] ops)).
Proof.
  destruct (wl_run_refines ops wl_empty WInv_empty) as [[Hnd _] [H2 H3]].
  simpl in *. rewrite <- H2. auto.
Qed.

(* the abstract stack really is "most recently pushed item still present" *)
Lemma aw_pop_is_last l x l' : aw_step l WPop = (l', OItem x) -> l = l' ++ [x].
Proof.
  simpl. destruct (rev l) as [|y r] eqn:E; [discriminate|]. intros H. injection H as <- <-.
  assert (l <> []) by (intros ->; discriminate).
  rewrite (app_removelast_last 0 H) at 1. f_equal. f_equal.
  rewrite <- (rev_involutive l), E. simpl. apply last_last.
Qed.
