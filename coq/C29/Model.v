(* C29/Model.v -- executable models of the symbol lookup code.  Definitions only.

   Mirrors, statement by statement,
     xdsl/utils/symbol_table.py : get_name_if_symbol, SymbolTable.__init__ / lookup (cached table),
         SymbolTable.get_symbol_visibility, SymbolTable.get_nearest_symbol_table,
         SymbolTable.lookup_symbol_in, SymbolTable.lookup_nearest_symbol_from,
         _lookup_symbol_in_direct_children, _lookup_symbol_ref_in,
         SymbolTableCollection.{lookup_symbol_in, lookup_nearest_symbol_from, get_symbol_table}
     xdsl/traits.py : SymbolTable.lookup_symbol.

   IR.  An operation is `Op sym_name visibility is_symbol_table children`:
     sym_name        = get_name_if_symbol(op): the `sym_name` of an op that has SymbolOpInterface
                       (None for ops without the interface or without the attribute);
     visibility      = SymbolTable.get_symbol_visibility(op) (absent attribute = Public);
     is_symbol_table = op.has_trait(traits.SymbolTable);
     children        = the ops directly nested in the op, all regions / blocks in order
                       (for a symbol table: the ops of regions[0].blocks[0], its only block).
   Object identity: an op of the tree `t` is denoted by its path (child indices from the root);
   `op.parent_op()` is the path without its last index.  Paths that denote no op of `t` are outside
   the domain (they behave like an op without traits); every theorem assumes the start op exists.
   Python exceptions are explicit: `Raise AssertionError`, `Raise ValueError`, `Raise IndexError`. *)
From Coq Require Import List Arith Bool.
Import ListNotations.

Definition name := nat.
Inductive vis := Public | Private | Nested.
Inductive op : Type :=
  Op { sym_name : option name; visibility : vis; is_symbol_table : bool; children : list op }.
Definition path := list nat.

Inductive exc := AssertionError | ValueError | IndexError.
Inductive res (A : Type) := Val (a : A) | Raise (e : exc).
Arguments Val {A} a.
Arguments Raise {A} e.

(* a symbol argument: `str | StringAttr` (flat) or `SymbolRefAttr(root, nested)` *)
Inductive symarg := SFlat (n : name) | SRef (root : name) (nested : list name).

(* ------------------------------------------------------------------ tree access *)
Fixpoint get (t : op) (p : path) : option op :=
  match p with
  | [] => Some t
  | i :: p' => match nth_error (children t) i with Some c => get c p' | None => None end
  end.

(* op.has_trait(traits.SymbolTable) *)
Definition is_table_at (t : op) (p : path) : bool :=
  match get t p with Some o => is_symbol_table o | None => false end.

(* SymbolTable.get_symbol_visibility(op) is Visibility.PRIVATE *)
Definition vis_is_private (v : vis) : bool := match v with Private => true | _ => false end.
Definition is_private_at (t : op) (p : path) : bool :=
  match get t p with Some o => vis_is_private (visibility o) | None => false end.

(* get_name_if_symbol(op) == symbol_name *)
Definition has_name (o : op) (n : name) : bool :=
  match sym_name o with Some m => Nat.eqb m n | None => false end.

Fixpoint path_eqb (p q : path) : bool :=
  match p, q with
  | [], [] => true
  | a :: p', b :: q' => Nat.eqb a b && path_eqb p' q'
  | _, _ => false
  end.

(* ------------------------------------------------------------------ get_nearest_symbol_table
   op = from_op
   while op is not None:
       if op.has_trait(SymbolTable): return op
       op = op.parent_op()
   return None
   (the loop runs over the reversed path: dropping the head of `rp` = taking the parent) *)
Fixpoint nearest_up (t : op) (rp : list nat) : option path :=
  match get t (rev rp) with
  | None => None
  | Some o =>
      if is_symbol_table o then Some (rev rp)
      else match rp with [] => None | _ :: rp' => nearest_up t rp' end
  end.
Definition get_nearest_symbol_table (t : op) (from_op : path) : option path :=
  nearest_up t (rev from_op).

(* ------------------------------------------------------------------ _lookup_symbol_in_direct_children
   for op in block.ops: if get_name_if_symbol(op) == symbol_name: return op
   return None *)
Fixpoint first_named (n : name) (l : list op) (i : nat) : option nat :=
  match l with
  | [] => None
  | o :: r => if has_name o n then Some i else first_named n r (S i)
  end.
Definition lookup_direct (t : op) (q : path) (n : name) : option path :=
  match get t q with
  | None => None
  | Some o => match first_named n (children o) 0 with Some i => Some (q ++ [i]) | None => None end
  end.

(* ------------------------------------------------------------------ cached SymbolTable
   a Python dict name -> op (here: child index), insertion order kept, later keys overwrite *)
Definition dict := list (name * nat).
Fixpoint dict_set (d : dict) (k : name) (v : nat) : dict :=
  match d with
  | [] => [(k, v)]
  | (k', v') :: r => if Nat.eqb k' k then (k', v) :: r else (k', v') :: dict_set r k v
  end.
Fixpoint dict_get (d : dict) (k : name) : option nat :=
  match d with
  | [] => None
  | (k', v') :: r => if Nat.eqb k' k then Some v' else dict_get r k
  end.
(* for op in block.ops: if (name := get_name_if_symbol(op)) is not None: self._symbol_table[name] = op *)
Fixpoint table_fill (l : list op) (i : nat) (d : dict) : dict :=
  match l with
  | [] => d
  | o :: r => table_fill r (S i) (match sym_name o with Some n => dict_set d n i | None => d end)
  end.
(* SymbolTable.__init__(symbol_table_op) *)
Definition symtab_init (t : op) (q : path) : res dict :=
  match get t q with
  | Some o => if is_symbol_table o then Val (table_fill (children o) 0 []) else Raise AssertionError
  | None => Raise AssertionError
  end.
(* SymbolTable.lookup(name) of the table built for the op at q *)
Definition symtab_lookup (q : path) (d : dict) (n : name) : option path :=
  match dict_get d n with Some i => Some (q ++ [i]) | None => None end.

(* ------------------------------------------------------------------ _lookup_symbol_ref_in
   Parameterised, as in the Python, by the callback `lookup_symbol(op, name)`; the callback may
   carry state S (the collection's cache) and may raise; the state is returned in every case. *)
Section RefIn.
  Context {S : Type}.
  Variable t : op.
  Variable lookup_symbol : S -> path -> name -> S * res (option path).

  (* for nested_reference in symbol.nested_references.data: ... *)
  Fixpoint ref_nested (s : S) (symbol_op : path) (symbols : list path) (nested : list name)
    : S * res (option (list path)) :=
    match nested with
    | [] => (s, Val (Some symbols))
    | m :: rest =>
        if negb (is_table_at t symbol_op) then (s, Val None)
        else match lookup_symbol s symbol_op m with
             | (s', Raise e) => (s', Raise e)
             | (s', Val None) => (s', Val None)
             | (s', Val (Some o')) =>
                 if is_private_at t o' then (s', Val None)
                 else ref_nested s' o' (symbols ++ [o']) rest
             end
    end.

  Definition lookup_symbol_ref_in (s : S) (q : path) (root : name) (nested : list name)
    : S * res (option (list path)) :=
    match lookup_symbol s q root with
    | (s', Raise e) => (s', Raise e)
    | (s', Val None) => (s', Val None)
    | (s', Val (Some o)) => ref_nested s' o [o] nested
    end.
End RefIn.

(* symbols[-1] *)
Definition last_symbol (l : list path) : res (option path) :=
  match rev l with x :: _ => Val (Some x) | [] => Raise IndexError end.

(* ------------------------------------------------------------------ SymbolTable.lookup_symbol_in (static) *)
Definition direct_cb (t : op) (s : unit) (q : path) (n : name) : unit * res (option path) :=
  (s, Val (lookup_direct t q n)).

(* all_symbols=True *)
Definition lookup_symbol_in_all (t : op) (q : path) (sym : symarg) : res (option (list path)) :=
  if negb (is_table_at t q) then Raise AssertionError
  else match sym with
       | SFlat n => Val (match lookup_direct t q n with Some o => Some [o] | None => None end)
       | SRef root nested => snd (lookup_symbol_ref_in t (direct_cb t) tt q root nested)
       end.
(* all_symbols=False *)
Definition lookup_symbol_in (t : op) (q : path) (sym : symarg) : res (option path) :=
  if negb (is_table_at t q) then Raise AssertionError
  else match sym with
       | SFlat n => Val (lookup_direct t q n)
       | SRef root nested =>
           match snd (lookup_symbol_ref_in t (direct_cb t) tt q root nested) with
           | Raise e => Raise e
           | Val None => Val None
           | Val (Some symbols) => last_symbol symbols
           end
       end.

(* SymbolTable.lookup_nearest_symbol_from (static) *)
Definition lookup_nearest_symbol_from (t : op) (from_op : path) (sym : symarg) : res (option path) :=
  match get_nearest_symbol_table t from_op with
  | None => Val None
  | Some q => lookup_symbol_in t q sym
  end.

(* ------------------------------------------------------------------ SymbolTableCollection
   _symbol_tables : dict[Operation, SymbolTable], keyed by op identity (= path) *)
Definition coll := list (path * dict).
Fixpoint coll_find (c : coll) (q : path) : option dict :=
  match c with
  | [] => None
  | (q', d) :: r => if path_eqb q' q then Some d else coll_find r q
  end.
(* get_symbol_table(op) *)
Definition get_symbol_table (t : op) (c : coll) (q : path) : coll * res dict :=
  match coll_find c q with
  | Some d => (c, Val d)
  | None => match symtab_init t q with
            | Val d => (c ++ [(q, d)], Val d)
            | Raise e => (c, Raise e)
            end
  end.
(* lambda symbol_table_op, name: self.get_symbol_table(symbol_table_op).lookup(name) *)
Definition coll_cb (t : op) (c : coll) (q : path) (n : name) : coll * res (option path) :=
  match get_symbol_table t c q with
  | (c', Raise e) => (c', Raise e)
  | (c', Val d) => (c', Val (symtab_lookup q d n))
  end.

Definition coll_lookup_symbol_in_all (t : op) (c : coll) (q : path) (sym : symarg)
  : coll * res (option (list path)) :=
  match sym with
  | SFlat n => match coll_cb t c q n with
               | (c', Raise e) => (c', Raise e)
               | (c', Val r) => (c', Val (match r with Some o => Some [o] | None => None end))
               end
  | SRef root nested => lookup_symbol_ref_in t (coll_cb t) c q root nested
  end.
Definition coll_lookup_symbol_in (t : op) (c : coll) (q : path) (sym : symarg)
  : coll * res (option path) :=
  match sym with
  | SFlat n => coll_cb t c q n
  | SRef root nested =>
      match lookup_symbol_ref_in t (coll_cb t) c q root nested with
      | (c', Raise e) => (c', Raise e)
      | (c', Val None) => (c', Val None)
      | (c', Val (Some symbols)) => (c', last_symbol symbols)
      end
  end.
Definition coll_lookup_nearest_symbol_from (t : op) (c : coll) (from_op : path) (sym : symarg)
  : coll * res (option path) :=
  match get_nearest_symbol_table t from_op with
  | None => (c, Val None)
  | Some q => coll_lookup_symbol_in t c q sym
  end.

(* ------------------------------------------------------------------ traits.SymbolTable.lookup_symbol
   anchor = op
   while anchor is not None and not anchor.has_trait(SymbolTable): anchor = anchor.parent_op()
   if anchor is None: raise ValueError
   if isinstance(name, str | StringAttr): name = SymbolRefAttr(name)
   for o in anchor.regions[0].block.ops:
       if o has SymbolOpInterface and its name == name.root_reference:
           if not name.nested_references: return o
           nested_root, *nested_references = name.nested_references.data
           return SymbolTable.lookup_symbol(o, SymbolRefAttr(nested_root, nested_references))
   return None
   The recursion is on the list of nested references. *)
Fixpoint traits_anchor (t : op) (rp : list nat) : option path :=
  match get t (rev rp) with
  | None => None
  | Some o =>
      if is_symbol_table o then Some (rev rp)
      else match rp with [] => None | _ :: rp' => traits_anchor t rp' end
  end.
Fixpoint traits_lookup (t : op) (nested : list name) (from_op : path) (root : name) : res (option path) :=
  match traits_anchor t (rev from_op) with
  | None => Raise ValueError
  | Some anchor =>
      match get t anchor with
      | None => Raise ValueError
      | Some a =>
          match first_named root (children a) 0 with
          | None => Val None
          | Some i =>
              match nested with
              | [] => Val (Some (anchor ++ [i]))
              | nested_root :: nested_references =>
                  traits_lookup t nested_references (anchor ++ [i]) nested_root
              end
          end
      end
  end.
Definition traits_lookup_symbol (t : op) (from_op : path) (sym : symarg) : res (option path) :=
  match sym with
  | SFlat n => traits_lookup t [] from_op n
  | SRef root nested => traits_lookup t nested from_op root
  end.

(* ------------------------------------------------------------------ the repair proposed in
   build/proposed_fixes/C29-1.diff: a nested component is looked up only inside a symbol table and
   a private symbol reached through nesting is refused (the loop of _lookup_symbol_ref_in). *)
Fixpoint traits_fixed_nested (t : op) (o : path) (nested : list name) : option path :=
  match nested with
  | [] => Some o
  | m :: rest =>
      if negb (is_table_at t o) then None
      else match lookup_direct t o m with
           | None => None
           | Some o' => if is_private_at t o' then None else traits_fixed_nested t o' rest
           end
  end.
Definition traits_lookup_symbol_fixed (t : op) (from_op : path) (sym : symarg) : res (option path) :=
  match traits_anchor t (rev from_op) with
  | None => Raise ValueError
  | Some anchor =>
      let '(root, nested) := match sym with SFlat n => (n, []) | SRef r ns => (r, ns) end in
      match lookup_direct t anchor root with
      | None => Val None
      | Some o => Val (traits_fixed_nested t o nested)
      end
  end.
