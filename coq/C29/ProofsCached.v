(* C29/ProofsCached.v -- the cached SymbolTable (dict built by __init__) and the
   SymbolTableCollection agree with the direct lookup whenever symbol names are unique per table;
   in general the cached table returns the LAST op with the name, the direct lookup the FIRST. *)
From Coq Require Import List Arith Bool Lia.
From XV Require Import C29.Model C29.Proofs.
Import ListNotations.

(* position (offset by i) of the last child named n *)
Fixpoint last_named (n : name) (l : list op) (i : nat) : option nat :=
  match l with
  | [] => None
  | o :: r => match last_named n r (S i) with
              | Some j => Some j
              | None => if has_name o n then Some i else None
              end
  end.

(* Spec of "last": child i carries the name and no later child does *)
Definition last_child_named (o : op) (n : name) (i : nat) : Prop :=
  (exists c, nth_error (children o) i = Some c /\ named c n) /\
  (forall j c, i < j -> nth_error (children o) j = Some c -> ~ named c n).

Lemma dict_get_set : forall d k v k',
  dict_get (dict_set d k v) k' = if Nat.eqb k k' then Some v else dict_get d k'.
Proof.
  induction d as [|[k0 v0] r IH]; intros k v k'; cbn [dict_set dict_get].
  - reflexivity.
  - destruct (Nat.eqb k0 k) eqn:E0; cbn [dict_get].
    + apply Nat.eqb_eq in E0. subst k0. destruct (Nat.eqb k k'); reflexivity.
    + rewrite IH. destruct (Nat.eqb k0 k') eqn:E1; [|reflexivity].
      apply Nat.eqb_eq in E1. subst k0. rewrite Nat.eqb_sym, E0. reflexivity.
Qed.

Lemma table_fill_get : forall n l i d,
  dict_get (table_fill l i d) n =
  match last_named n l i with Some j => Some j | None => dict_get d n end.
Proof.
  intros n l. induction l as [|o r IH]; intros i d; cbn [table_fill last_named]; [reflexivity|].
  rewrite IH. destruct (last_named n r (S i)) as [j|]; [reflexivity|].
  unfold has_name. destruct (sym_name o) as [m|]; [|reflexivity].
  rewrite dict_get_set. destruct (Nat.eqb m n); reflexivity.
Qed.

Lemma last_named_absent : forall n l k, ~ In n (sym_names l) -> last_named n l k = None.
Proof.
  intros n l. induction l as [|o r IH]; intros k Hnin; [reflexivity|].
  cbn [last_named]. unfold sym_names in Hnin. cbn [flat_map] in Hnin.
  rewrite IH by (intro H; apply Hnin; apply in_or_app; right; exact H).
  unfold has_name. destruct (sym_name o) as [m|]; [|reflexivity].
  destruct (Nat.eqb m n) eqn:E; [|reflexivity].
  apply Nat.eqb_eq in E. subst m. exfalso. apply Hnin. left. reflexivity.
Qed.

Lemma last_first_nodup : forall n l k, NoDup (sym_names l) -> last_named n l k = first_named n l k.
Proof.
  intros n l. induction l as [|o r IH]; intros k Hnd; [reflexivity|].
  cbn [last_named first_named].
  assert (Hnd' : NoDup (sym_names r)).
  { unfold sym_names in Hnd. cbn [flat_map] in Hnd. destruct (sym_name o).
    - cbn in Hnd. inversion Hnd. assumption.
    - exact Hnd. }
  destruct (has_name o n) eqn:E.
  - rewrite last_named_absent; [reflexivity|].
    apply has_name_iff in E. unfold named in E. unfold sym_names in Hnd. cbn [flat_map] in Hnd.
    rewrite E in Hnd. cbn in Hnd. inversion Hnd. assumption.
  - rewrite (IH (S k) Hnd'). destruct (first_named n r (S k)); reflexivity.
Qed.

Lemma last_named_some : forall n l k i,
  last_named n l k = Some i ->
  exists j, i = k + j /\ (exists c, nth_error l j = Some c /\ named c n) /\
            (forall j' c, j < j' -> nth_error l j' = Some c -> ~ named c n).
Proof.
  intros n l. induction l as [|o r IH]; intros k i H; cbn [last_named] in H; [discriminate|].
  destruct (last_named n r (S k)) as [j0|] eqn:E.
  - inversion H; subst j0. destruct (IH _ _ E) as [j [Hi [[c [Hc Hn]] Hmax]]].
    exists (S j). split; [lia|]. split; [exists c; split; assumption|].
    intros j' c' Hlt Hj'. destruct j' as [|j']; [lia|]. cbn in Hj'. apply (Hmax j' c'); [lia | exact Hj'].
  - destruct (has_name o n) eqn:En; [|discriminate]. inversion H; subst.
    exists 0. split; [lia|]. split; [exists o; split; [reflexivity | apply has_name_iff; exact En]|].
    intros j' c' Hlt Hj' Hn'. destruct j' as [|j']; [lia|]. cbn in Hj'.
    assert (Hin : In n (sym_names r)) by (apply (in_sym_names r j' c' n Hj' Hn')).
    clear - E Hin. revert E Hin. generalize (S i). induction r as [|x r IHr]; intros k E Hin; [destruct Hin|].
    cbn [last_named] in E. destruct (last_named n r (S k)) eqn:E'; [discriminate|].
    unfold sym_names in Hin. cbn [flat_map] in Hin. apply in_app_or in Hin. destruct Hin as [Hin | Hin].
    + unfold has_name in E. destruct (sym_name x) as [m|]; [|destruct Hin].
      destruct Hin as [Hm | []]. subst m. rewrite Nat.eqb_refl in E. discriminate.
    + apply (IHr (S k) E' Hin).
Qed.

(* every tree: SymbolTable(op).lookup(n) is the LAST child named n (later dict keys overwrite) *)
Theorem cached_table_last : forall t q o n, get t q = Some o -> is_symbol_table o = true ->
  exists d, symtab_init t q = Val d /\
    forall r, symtab_lookup q d n = Some r <-> exists i, last_child_named o n i /\ r = q ++ [i].
Proof.
  intros t q o n Hg Ht. unfold symtab_init. rewrite Hg, Ht. eexists. split; [reflexivity|].
  intro r. unfold symtab_lookup. rewrite table_fill_get. cbn [dict_get].
  destruct (last_named n (children o) 0) as [j|] eqn:E.
  - destruct (last_named_some _ _ _ _ E) as [j0 [Hj [Hex Hmax]]]. cbn in Hj. subst j0.
    split.
    + intro H. inversion H; subst. exists j. split; [split; assumption | reflexivity].
    + intros [i [[[c [Hc Hn]] Hmax'] Hr]]. subst r. destruct Hex as [c0 [Hc0 Hn0]].
      destruct (Nat.lt_trichotomy i j) as [Hlt | [Heq | Hlt]].
      * exfalso. apply (Hmax' j c0 Hlt Hc0 Hn0).
      * subst. reflexivity.
      * exfalso. apply (Hmax i c Hlt Hc Hn).
  - split; [discriminate|]. intros [i [[[c [Hc Hn]] _] _]]. exfalso.
    assert (Hin : In n (sym_names (children o))) by (apply (in_sym_names _ i c n Hc Hn)).
    clear - E Hin. revert E Hin. generalize 0. induction (children o) as [|x r IHr]; intros k E Hin; [destruct Hin|].
    cbn [last_named] in E. destruct (last_named n r (S k)) eqn:E'; [discriminate|].
    unfold sym_names in Hin. cbn [flat_map] in Hin. apply in_app_or in Hin. destruct Hin as [Hin | Hin].
    + unfold has_name in E. destruct (sym_name x) as [m|]; [|destruct Hin].
      destruct Hin as [Hm | []]. subst m. rewrite Nat.eqb_refl in E. discriminate.
    + apply (IHr (S k) E' Hin).
Qed.

(* unique names in the table: the cached table answers exactly like the direct scan *)
Theorem cached_table_agrees : forall t q o n, get t q = Some o -> is_symbol_table o = true ->
  NoDup (sym_names (children o)) ->
  exists d, symtab_init t q = Val d /\ symtab_lookup q d n = lookup_direct t q n.
Proof.
  intros t q o n Hg Ht Hnd. unfold symtab_init, lookup_direct, symtab_lookup. rewrite Hg, Ht.
  eexists. split; [reflexivity|]. rewrite table_fill_get. cbn [dict_get].
  rewrite (last_first_nodup n (children o) 0 Hnd).
  destruct (first_named n (children o) 0); reflexivity.
Qed.

(* duplicate names (rejected by traits.SymbolTable.verify): the two lookups differ *)
Definition dup_tree : op :=
  Op None Public true [Op (Some 0) Public false []; Op (Some 0) Public false []].
Lemma cached_duplicates_differ :
  exists t q n d, symtab_init t q = Val d /\ lookup_direct t q n = Some [0] /\
                  symtab_lookup q d n = Some [1].
Proof. exists dup_tree, [], 0. eexists. vm_compute. repeat split. Qed.

(* =================================================================== SymbolTableCollection *)
Lemma path_eqb_eq : forall p q, path_eqb p q = true <-> p = q.
Proof.
  induction p as [|a p IH]; intros [|b q]; cbn; try (split; [discriminate | intro H; discriminate]).
  - split; reflexivity.
  - rewrite andb_true_iff, Nat.eqb_eq, IH. split; [intros [H1 H2]; subst; reflexivity|].
    intro H; inversion H; split; reflexivity.
Qed.

(* every cached table is the one __init__ builds for that op (nothing mutates the IR in between) *)
Definition coll_ok (t : op) (c : coll) : Prop :=
  forall q d, coll_find c q = Some d -> symtab_init t q = Val d.

Lemma coll_ok_nil : forall t, coll_ok t [].
Proof. intros t q d H. discriminate. Qed.

Lemma coll_find_app : forall c q d q',
  coll_find (c ++ [(q, d)]) q' =
  match coll_find c q' with Some x => Some x | None => if path_eqb q q' then Some d else None end.
Proof.
  induction c as [|[q0 d0] r IH]; intros q d q'; cbn [app coll_find]; [reflexivity|].
  destruct (path_eqb q0 q'); [reflexivity | apply IH].
Qed.

Lemma get_symbol_table_ok : forall t c q, coll_ok t c ->
  exists c', coll_ok t c' /\ get_symbol_table t c q = (c', symtab_init t q).
Proof.
  intros t c q Hok. unfold get_symbol_table. destruct (coll_find c q) as [d|] eqn:Ef.
  - exists c. split; [exact Hok|]. rewrite (Hok q d Ef). reflexivity.
  - destruct (symtab_init t q) as [d|e] eqn:Ei.
    + exists (c ++ [(q, d)]). split; [|reflexivity]. intros q' d' H. rewrite coll_find_app in H.
      destruct (coll_find c q') as [x|] eqn:Ef'.
      * inversion H; subst. apply (Hok q' d' Ef').
      * destruct (path_eqb q q') eqn:Ep; [|discriminate]. apply path_eqb_eq in Ep. subst q'.
        inversion H; subst. exact Ei.
    + exists c. split; [exact Hok | reflexivity].
Qed.

Definition direct_or_assert (t : op) (q : path) (n : name) : res (option path) :=
  if is_table_at t q then Val (lookup_direct t q n) else Raise AssertionError.

Lemma coll_cb_ok : forall t c q n, coll_ok t c -> unique_names t ->
  exists c', coll_ok t c' /\ coll_cb t c q n = (c', direct_or_assert t q n).
Proof.
  intros t c q n Hok Hu. unfold coll_cb.
  destruct (get_symbol_table_ok t c q Hok) as [c' [Hok' Heq]]. rewrite Heq.
  exists c'. split; [exact Hok'|]. unfold direct_or_assert, is_table_at.
  destruct (get t q) as [o|] eqn:Hg.
  - destruct (is_symbol_table o) eqn:Ht.
    + destruct (cached_table_agrees t q o n Hg Ht (Hu q o Hg Ht)) as [d [Hd Hl]].
      rewrite Hd, Hl. reflexivity.
    + unfold symtab_init. rewrite Hg, Ht. reflexivity.
  - unfold symtab_init. rewrite Hg. reflexivity.
Qed.

Lemma ref_nested_coll : forall t, unique_names t -> forall nested c cur acc, coll_ok t c ->
  exists c', coll_ok t c' /\
    ref_nested t (coll_cb t) c cur acc nested = (c', snd (ref_nested t (direct_cb t) tt cur acc nested)).
Proof.
  intros t Hu nested. induction nested as [|m ms IH]; intros c cur acc Hok; cbn [ref_nested].
  - exists c. split; [exact Hok | reflexivity].
  - destruct (is_table_at t cur) eqn:Et; cbn [negb].
    2:{ exists c. split; [exact Hok | reflexivity]. }
    destruct (coll_cb_ok t c cur m Hok Hu) as [c1 [Hok1 Heq]]. rewrite Heq, direct_cb_eq.
    unfold direct_or_assert. rewrite Et. destruct (lookup_direct t cur m) as [o'|]; cbv beta iota.
    + destruct (is_private_at t o').
      * exists c1. split; [exact Hok1 | reflexivity].
      * apply (IH c1 o' (acc ++ [o']) Hok1).
    + exists c1. split; [exact Hok1 | reflexivity].
Qed.

Lemma ref_in_coll : forall t c q root nested, unique_names t -> coll_ok t c ->
  exists c', coll_ok t c' /\
    lookup_symbol_ref_in t (coll_cb t) c q root nested =
    (c', if is_table_at t q then snd (lookup_symbol_ref_in t (direct_cb t) tt q root nested)
         else Raise AssertionError).
Proof.
  intros t c q root nested Hu Hok. unfold lookup_symbol_ref_in.
  destruct (coll_cb_ok t c q root Hok Hu) as [c1 [Hok1 Heq]]. rewrite Heq, direct_cb_eq.
  unfold direct_or_assert. destruct (is_table_at t q).
  - destruct (lookup_direct t q root) as [o|]; cbv beta iota.
    + apply (ref_nested_coll t Hu nested c1 o [o] Hok1).
    + exists c1. split; [exact Hok1 | reflexivity].
  - exists c1. split; [exact Hok1 | reflexivity].
Qed.

(* SymbolTableCollection.lookup_symbol_in = SymbolTable.lookup_symbol_in, and the cache stays valid
   (so any sequence of lookups through one collection agrees with the direct lookups) *)
Theorem coll_lookup_symbol_in_agrees : forall t c q sym, unique_names t -> coll_ok t c ->
  exists c', coll_ok t c' /\ coll_lookup_symbol_in t c q sym = (c', lookup_symbol_in t q sym).
Proof.
  intros t c q sym Hu Hok. unfold coll_lookup_symbol_in, lookup_symbol_in. destruct sym as [n | root nested].
  - destruct (coll_cb_ok t c q n Hok Hu) as [c1 [Hok1 Heq]]. exists c1. split; [exact Hok1|].
    rewrite Heq. unfold direct_or_assert. destruct (is_table_at t q); reflexivity.
  - destruct (ref_in_coll t c q root nested Hu Hok) as [c1 [Hok1 Heq]]. exists c1. split; [exact Hok1|].
    rewrite Heq. destruct (is_table_at t q); cbn [negb]; [|reflexivity].
    destruct (snd (lookup_symbol_ref_in t (direct_cb t) tt q root nested)) as [[l|]|e]; reflexivity.
Qed.

Theorem coll_lookup_symbol_in_all_agrees : forall t c q sym, unique_names t -> coll_ok t c ->
  exists c', coll_ok t c' /\ coll_lookup_symbol_in_all t c q sym = (c', lookup_symbol_in_all t q sym).
Proof.
  intros t c q sym Hu Hok. unfold coll_lookup_symbol_in_all, lookup_symbol_in_all. destruct sym as [n | root nested].
  - destruct (coll_cb_ok t c q n Hok Hu) as [c1 [Hok1 Heq]]. exists c1. split; [exact Hok1|].
    rewrite Heq. unfold direct_or_assert. destruct (is_table_at t q); reflexivity.
  - destruct (ref_in_coll t c q root nested Hu Hok) as [c1 [Hok1 Heq]]. exists c1. split; [exact Hok1|].
    rewrite Heq. destruct (is_table_at t q); reflexivity.
Qed.

Theorem coll_lookup_nearest_agrees : forall t c p sym, unique_names t -> coll_ok t c ->
  exists c', coll_ok t c' /\
    coll_lookup_nearest_symbol_from t c p sym = (c', lookup_nearest_symbol_from t p sym).
Proof.
  intros t c p sym Hu Hok. unfold coll_lookup_nearest_symbol_from, lookup_nearest_symbol_from.
  destruct (get_nearest_symbol_table t p) as [q|].
  - apply coll_lookup_symbol_in_agrees; assumption.
  - exists c. split; [exact Hok | reflexivity].
Qed.

(* with duplicate names the collection differs from the direct lookup *)
Lemma coll_duplicates_differ :
  exists t q sym, snd (coll_lookup_symbol_in t [] q sym) <> lookup_symbol_in t q sym.
Proof. exists dup_tree, [], (SFlat 0). vm_compute. discriminate. Qed.
