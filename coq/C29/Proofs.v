(* C29/Proofs.v -- Spec (the property's resolution rule) and the proofs about the
   xdsl.utils.symbol_table functions (direct lookup).  Cached tables: ProofsCached.v;
   traits.SymbolTable.lookup_symbol: ProofsTraits.v. *)
From Coq Require Import List Arith Bool Lia.
From XV Require Import C29.Model.
Import ListNotations.

(* =================================================================== Spec *)
(* "the operation with that name": child number i of o carries the name, no earlier child does
   (with unique names per table -- every verified module -- it is the only one, see
   first_child_named_unique below). *)
Definition named (o : op) (n : name) : Prop := sym_name o = Some n.
Definition first_child_named (o : op) (n : name) (i : nat) : Prop :=
  (exists c, nth_error (children o) i = Some c /\ named c n) /\
  (forall j c, j < i -> nth_error (children o) j = Some c -> ~ named c n).

Definition is_prefix (q p : path) : Prop := exists s, p = q ++ s.
Definition table_at (t : op) (q : path) : Prop :=
  exists o, get t q = Some o /\ is_symbol_table o = true.
(* nearest enclosing symbol table of the op at p (the op itself counts): the longest prefix of p
   that denotes a symbol table *)
Definition nearest_table (t : op) (p q : path) : Prop :=
  table_at t q /\ is_prefix q p /\
  (forall q', is_prefix q' p -> table_at t q' -> length q' <= length q).

(* each further component is resolved inside the previous result, which must be a symbol table;
   a private symbol reached this way is refused *)
Inductive resolve_nested (t : op) : path -> list name -> path -> Prop :=
| RN_done : forall c, resolve_nested t c [] c
| RN_step : forall c o m ms i c' r,
    get t c = Some o -> is_symbol_table o = true ->
    first_child_named o m i ->
    get t (c ++ [i]) = Some c' -> visibility c' <> Private ->
    resolve_nested t (c ++ [i]) ms r ->
    resolve_nested t c (m :: ms) r.

(* resolution of root::nested inside the symbol table q *)
Definition resolve_in (t : op) (q : path) (root : name) (nested : list name) (r : path) : Prop :=
  exists o i, get t q = Some o /\ is_symbol_table o = true /\
              first_child_named o root i /\ resolve_nested t (q ++ [i]) nested r.

Definition sym_root (s : symarg) : name := match s with SFlat n => n | SRef n _ => n end.
Definition sym_nested (s : symarg) : list name := match s with SFlat _ => [] | SRef _ ms => ms end.

(* lookup of `sym` from the op at p designates the op at r *)
Definition resolve_from (t : op) (p : path) (sym : symarg) (r : path) : Prop :=
  exists q, nearest_table t p q /\ resolve_in t q (sym_root sym) (sym_nested sym) r.

(* unique symbol names per table (what traits.SymbolTable.verify enforces, restricted to symbols) *)
Definition sym_names (l : list op) : list name :=
  flat_map (fun o => match sym_name o with Some n => [n] | None => [] end) l.
Definition unique_names (t : op) : Prop :=
  forall q o, get t q = Some o -> is_symbol_table o = true -> NoDup (sym_names (children o)).

(* =================================================================== basic lemmas *)
Lemma has_name_iff : forall o n, has_name o n = true <-> named o n.
Proof.
  intros o n. unfold has_name, named. destruct (sym_name o) as [m|].
  - rewrite Nat.eqb_eq. split; intro H; [subst; reflexivity | congruence].
  - split; intro H; discriminate.
Qed.

Lemma has_name_false : forall o n, has_name o n = false <-> ~ named o n.
Proof.
  intros o n. rewrite <- has_name_iff. destruct (has_name o n); split; intro H; congruence.
Qed.

(* first_named returns k + (the first position of a child named n) *)
Lemma first_named_some : forall n l k i,
  first_named n l k = Some i ->
  exists j, i = k + j /\ (exists c, nth_error l j = Some c /\ named c n) /\
            (forall j' c, j' < j -> nth_error l j' = Some c -> ~ named c n).
Proof.
  intros n l. induction l as [|o r IH]; intros k i H; cbn in H; [discriminate|].
  destruct (has_name o n) eqn:E.
  - inversion H; subst. exists 0. split; [lia|]. split.
    + exists o. split; [reflexivity|]. apply has_name_iff; exact E.
    + intros j' c Hlt. lia.
  - apply IH in H. destruct H as [j [Hi [[c [Hc Hn]] Hmin]]].
    exists (S j). split; [lia|]. split.
    + exists c. split; assumption.
    + intros j' c' Hlt Hnth. destruct j' as [|j'].
      * cbn in Hnth. inversion Hnth; subst. apply has_name_false; exact E.
      * cbn in Hnth. apply (Hmin j' c'); [lia | exact Hnth].
Qed.

Lemma first_named_none : forall n l k,
  first_named n l k = None -> forall j c, nth_error l j = Some c -> ~ named c n.
Proof.
  intros n l. induction l as [|o r IH]; intros k H j c Hnth.
  - destruct j; discriminate.
  - cbn in H. destruct (has_name o n) eqn:E; [discriminate|].
    destruct j as [|j]; cbn in Hnth.
    + inversion Hnth; subst. apply has_name_false; exact E.
    + apply (IH _ H j c Hnth).
Qed.

Lemma first_child_named_fun : forall o n i j,
  first_child_named o n i -> first_child_named o n j -> i = j.
Proof.
  intros o n i j [[c [Hc Hn]] Hmin] [[c' [Hc' Hn']] Hmin'].
  destruct (Nat.lt_trichotomy i j) as [H|[H|H]]; [|exact H|].
  - exfalso. apply (Hmin' i c H Hc Hn).
  - exfalso. apply (Hmin j c' H Hc' Hn').
Qed.

Lemma first_named_spec : forall o n i,
  first_named n (children o) 0 = Some i <-> first_child_named o n i.
Proof.
  intros o n i. split.
  - intro H. apply first_named_some in H. destruct H as [j [Hi [Hex Hmin]]].
    cbn in Hi. subst. split; assumption.
  - intro H. destruct (first_named n (children o) 0) as [i'|] eqn:E.
    + f_equal. apply (first_child_named_fun o n); [|exact H].
      apply first_named_some in E. destruct E as [j [Hi [Hex Hmin]]]. cbn in Hi. subst.
      split; assumption.
    + exfalso. destruct H as [[c [Hc Hn]] _]. apply (first_named_none _ _ _ E i c Hc Hn).
Qed.

Lemma first_named_none_spec : forall o n,
  first_named n (children o) 0 = None <-> (forall i, ~ first_child_named o n i).
Proof.
  intros o n. split.
  - intros H i Hi. apply first_named_spec in Hi. congruence.
  - intro H. destruct (first_named n (children o) 0) as [i|] eqn:E; [|reflexivity].
    exfalso. apply (H i). apply first_named_spec. exact E.
Qed.

(* ------------------------------------------------------------------ get / paths *)
Lemma get_app : forall p t s, get t (p ++ s) = match get t p with Some o => get o s | None => None end.
Proof.
  induction p as [|i p IH]; intros t s; cbn; [reflexivity|].
  destruct (nth_error (children t) i); [apply IH | reflexivity].
Qed.

Lemma get_snoc : forall t p i o, get t p = Some o -> get t (p ++ [i]) = nth_error (children o) i.
Proof.
  intros t p i o H. rewrite get_app, H. cbn. destruct (nth_error (children o) i); reflexivity.
Qed.

Lemma get_prefix_some : forall t p s o, get t (p ++ s) = Some o -> exists o', get t p = Some o'.
Proof.
  intros t p s o H. rewrite get_app in H. destruct (get t p) as [o'|]; [eauto | discriminate].
Qed.

Lemma is_prefix_refl : forall p, is_prefix p p.
Proof. intro p. exists []. symmetry. apply app_nil_r. Qed.

Lemma is_prefix_snoc : forall q p a, is_prefix q (p ++ [a]) -> q = p ++ [a] \/ is_prefix q p.
Proof.
  intros q p a [s Hs]. destruct s as [|b s' _] using rev_ind.
  - rewrite app_nil_r in Hs. left. symmetry. exact Hs.
  - rewrite app_assoc in Hs. apply app_inj_tail in Hs. destruct Hs as [Hp _].
    right. exists s'. exact Hp.
Qed.

Lemma is_prefix_snoc_r : forall q p a, is_prefix q p -> is_prefix q (p ++ [a]).
Proof. intros q p a [s Hs]. exists (s ++ [a]). subst. rewrite app_assoc. reflexivity. Qed.

Lemma is_prefix_length : forall q p, is_prefix q p -> length q <= length p.
Proof. intros q p [s Hs]. subst. rewrite app_length. lia. Qed.

Lemma is_prefix_same_length : forall q q' p,
  is_prefix q p -> is_prefix q' p -> length q = length q' -> q = q'.
Proof.
  intros q q' p [s Hs] [s' Hs'] Hlen. subst p.
  assert (H : firstn (length q) (q ++ s) = firstn (length q) (q' ++ s')) by (rewrite Hs'; reflexivity).
  rewrite firstn_app, Nat.sub_diag, firstn_all, firstn_O, app_nil_r in H.
  rewrite Hlen, firstn_app, Nat.sub_diag, firstn_all, firstn_O, app_nil_r in H. exact H.
Qed.

Lemma nearest_table_fun : forall t p q q', nearest_table t p q -> nearest_table t p q' -> q = q'.
Proof.
  intros t p q q' [Ht [Hp Hmax]] [Ht' [Hp' Hmax']].
  apply (is_prefix_same_length q q' p Hp Hp').
  apply Nat.le_antisymm; [apply Hmax' | apply Hmax]; assumption.
Qed.

(* =================================================================== get_nearest_symbol_table *)
Lemma nearest_up_eq : forall t rp,
  nearest_up t rp =
  match get t (rev rp) with
  | None => None
  | Some o => if is_symbol_table o then Some (rev rp)
              else match rp with [] => None | _ :: rp' => nearest_up t rp' end
  end.
Proof. intros t [|a rp]; reflexivity. Qed.

Lemma table_at_self_nearest : forall t p, table_at t p -> nearest_table t p p.
Proof.
  intros t p Ht. split; [exact Ht|]. split; [apply is_prefix_refl|].
  intros q' Hq' _. apply is_prefix_length. exact Hq'.
Qed.

Lemma not_table_at : forall t p o, get t p = Some o -> is_symbol_table o = false -> ~ table_at t p.
Proof. intros t p o Hg Hf [o' [Hg' Ht]]. congruence. Qed.

Lemma nearest_up_some : forall t rp q, nearest_up t rp = Some q -> nearest_table t (rev rp) q.
Proof.
  intros t rp. induction rp as [|a rp IH]; intros q H; rewrite nearest_up_eq in H.
  - destruct (get t (rev [])) as [o|] eqn:Hg; [|discriminate].
    destruct (is_symbol_table o) eqn:Et; [|discriminate].
    inversion H; subst. apply table_at_self_nearest. exists o. split; assumption.
  - destruct (get t (rev (a :: rp))) as [o|] eqn:Hg; [|discriminate].
    destruct (is_symbol_table o) eqn:Et.
    + inversion H; subst. apply table_at_self_nearest. exists o. split; assumption.
    + apply IH in H. destruct H as [Ht [Hp Hmax]]. cbn [rev] in *.
      split; [exact Ht|]. split; [apply is_prefix_snoc_r; exact Hp|].
      intros q' Hq' Htq'. apply is_prefix_snoc in Hq'. destruct Hq' as [Heq | Hq'].
      * subst q'. exfalso. apply (not_table_at _ _ _ Hg Et Htq').
      * apply Hmax; assumption.
Qed.

Lemma nearest_up_none : forall t rp o, get t (rev rp) = Some o -> nearest_up t rp = None ->
  forall q', is_prefix q' (rev rp) -> ~ table_at t q'.
Proof.
  intros t rp. induction rp as [|a rp IH]; intros o Hg H q' Hq'; rewrite nearest_up_eq, Hg in H.
  - destruct (is_symbol_table o) eqn:Et; [discriminate|].
    apply is_prefix_length in Hq'. cbn in Hq'. destruct q'; [|cbn in Hq'; lia].
    apply (not_table_at _ _ _ Hg Et).
  - destruct (is_symbol_table o) eqn:Et; [discriminate|]. cbn [rev] in *.
    apply is_prefix_snoc in Hq'. destruct Hq' as [Heq | Hq'].
    + subst q'. apply (not_table_at _ _ _ Hg Et).
    + destruct (get_prefix_some _ _ _ _ Hg) as [o' Ho']. apply (IH o' Ho' H q' Hq').
Qed.

Lemma get_nearest_spec : forall t p o q, get t p = Some o ->
  (get_nearest_symbol_table t p = Some q <-> nearest_table t p q).
Proof.
  intros t p o q Hg. unfold get_nearest_symbol_table. split.
  - intro H. apply nearest_up_some in H. rewrite rev_involutive in H. exact H.
  - intro H. destruct (nearest_up t (rev p)) as [q0|] eqn:E.
    + apply nearest_up_some in E. rewrite rev_involutive in E.
      f_equal. apply (nearest_table_fun t p); assumption.
    + exfalso. destruct H as [Ht [Hp _]].
      apply (nearest_up_none t (rev p) o) with (q' := q); rewrite ?rev_involutive; assumption.
Qed.

Lemma get_nearest_none : forall t p o, get t p = Some o ->
  (get_nearest_symbol_table t p = None <-> forall q, ~ nearest_table t p q).
Proof.
  intros t p o Hg. split.
  - intros H q Hq. apply (get_nearest_spec t p o q Hg) in Hq. congruence.
  - intro H. destruct (get_nearest_symbol_table t p) as [q|] eqn:E; [|reflexivity].
    exfalso. apply (H q). apply (get_nearest_spec t p o q Hg). exact E.
Qed.

Lemma traits_anchor_eq : forall t rp, traits_anchor t rp = nearest_up t rp.
Proof.
  intros t rp. induction rp as [|a rp IH]; cbn [traits_anchor nearest_up].
  - reflexivity.
  - rewrite IH. reflexivity.
Qed.

(* =================================================================== direct lookups *)
Lemma is_table_at_iff : forall t c, is_table_at t c = true <-> table_at t c.
Proof.
  intros t c. unfold is_table_at, table_at. destruct (get t c) as [o|].
  - split; [intro H; exists o; split; [reflexivity | exact H] | intros [o' [Ho' Ht]]; congruence].
  - split; [discriminate | intros [o' [Ho' _]]; discriminate].
Qed.

Lemma lookup_direct_some : forall t q n r,
  lookup_direct t q n = Some r <->
  exists o i, get t q = Some o /\ first_child_named o n i /\ r = q ++ [i].
Proof.
  intros t q n r. unfold lookup_direct. split.
  - intro H. destruct (get t q) as [o|]; [|discriminate].
    destruct (first_named n (children o) 0) as [i|] eqn:E; [|discriminate].
    inversion H; subst. exists o, i. split; [reflexivity|]. split; [|reflexivity].
    apply first_named_spec. exact E.
  - intros [o [i [Hg [Hf Hr]]]]. rewrite Hg. apply first_named_spec in Hf. rewrite Hf. subst. reflexivity.
Qed.

Lemma lookup_direct_none : forall t q n o, get t q = Some o ->
  (lookup_direct t q n = None <-> forall i, ~ first_child_named o n i).
Proof.
  intros t q n o Hg. unfold lookup_direct. rewrite Hg. rewrite <- first_named_none_spec.
  destruct (first_named n (children o) 0); split; intro H; congruence.
Qed.

Lemma first_child_get : forall t c o m i, get t c = Some o -> first_child_named o m i ->
  exists c', get t (c ++ [i]) = Some c' /\ named c' m.
Proof.
  intros t c o m i Hg [[c' [Hc' Hn]] _]. exists c'. split; [|exact Hn].
  rewrite (get_snoc _ _ _ _ Hg). exact Hc'.
Qed.

Lemma is_private_at_false : forall t p o, get t p = Some o ->
  (is_private_at t p = false <-> visibility o <> Private).
Proof.
  intros t p o Hg. unfold is_private_at. rewrite Hg.
  destruct (visibility o); cbn; split; intro H; congruence.
Qed.

(* the list of ops resolved by the successive nested components *)
Inductive chain (t : op) : path -> list name -> list path -> Prop :=
| CH_done : forall c, chain t c [] []
| CH_step : forall c o m ms i c' rs,
    get t c = Some o -> is_symbol_table o = true ->
    first_child_named o m i ->
    get t (c ++ [i]) = Some c' -> visibility c' <> Private ->
    chain t (c ++ [i]) ms rs ->
    chain t c (m :: ms) ((c ++ [i]) :: rs).

Lemma last_cons_default : forall (rs : list path) (x y : path), last (x :: rs) y = last rs x.
Proof.
  induction rs as [|z rs IH]; intros x y; [reflexivity|].
  change (last (x :: z :: rs) y) with (last (z :: rs) y).
  rewrite (IH z y). change (last (z :: rs) x) with (last (z :: rs) x).
  symmetry. destruct rs as [|w rs]; [reflexivity|]. rewrite (IH z x). reflexivity.
Qed.

Lemma chain_resolve : forall t c ms rs, chain t c ms rs -> resolve_nested t c ms (last rs c).
Proof.
  intros t c ms rs H. induction H as [c | c o m ms i c' rs Hg Ht Hf Hg' Hv Hch IH].
  - apply RN_done.
  - rewrite last_cons_default.
    apply (RN_step t c o m ms i c' _ Hg Ht Hf Hg' Hv). exact IH.
Qed.

Lemma resolve_chain : forall t c ms r, resolve_nested t c ms r ->
  exists rs, chain t c ms rs /\ last rs c = r.
Proof.
  intros t c ms r H. induction H as [c | c o m ms i c' r Hg Ht Hf Hg' Hv Hrn [rs [Hch Hl]]].
  - exists []. split; [apply CH_done | reflexivity].
  - exists ((c ++ [i]) :: rs). split; [apply (CH_step t c o m ms i c' rs); assumption|].
    rewrite last_cons_default. exact Hl.
Qed.

Lemma chain_fun : forall t c ms rs rs', chain t c ms rs -> chain t c ms rs' -> rs = rs'.
Proof.
  intros t c ms rs rs' H. revert rs'.
  induction H as [c | c o m ms i c' rs Hg Ht Hf Hg' Hv Hch IH]; intros rs' H'.
  - inversion H'. reflexivity.
  - inversion H' as [| c0 o0 m0 ms0 i0 c0' rs0 Hg0 Ht0 Hf0 Hg0' Hv0 Hch0]; subst.
    assert (o0 = o) by congruence. subst o0.
    assert (i0 = i) by (apply (first_child_named_fun o m); assumption). subst i0.
    f_equal. apply IH. exact Hch0.
Qed.

Lemma direct_cb_eq : forall t s q n, direct_cb t s q n = (s, Val (lookup_direct t q n)).
Proof. reflexivity. Qed.

Lemma ref_nested_direct : forall t nested c acc,
  (exists rs, chain t c nested rs /\
     ref_nested t (direct_cb t) tt c acc nested = (tt, Val (Some (acc ++ rs))))
  \/ ((forall rs, ~ chain t c nested rs) /\
     ref_nested t (direct_cb t) tt c acc nested = (tt, Val None)).
Proof.
  intros t nested. induction nested as [|m ms IH]; intros c acc.
  - left. exists []. split; [apply CH_done|]. cbn. rewrite app_nil_r. reflexivity.
  - cbn [ref_nested]. destruct (is_table_at t c) eqn:Et; cbn [negb].
    2:{ right. split; [|reflexivity]. intros rs Hch.
        inversion Hch as [| c0 o0 m0 ms0 i0 c0' rs0 Hg0 Ht0 Hf0 Hg0' Hv0 Hch0]; subst.
        assert (table_at t c) as Hta by (exists o0; split; assumption).
        apply is_table_at_iff in Hta. congruence. }
    apply is_table_at_iff in Et. destruct Et as [o [Hg Ht]].
    rewrite direct_cb_eq. destruct (lookup_direct t c m) as [o'|] eqn:El; cbv beta iota.
    + apply lookup_direct_some in El. destruct El as [o1 [i [Hg1 [Hf Ho']]]].
      assert (o1 = o) by congruence. subst o1 o'.
      destruct (first_child_get t c o m i Hg Hf) as [c' [Hgc' _]].
      destruct (is_private_at t (c ++ [i])) eqn:Ep.
      * right. split; [|reflexivity]. intros rs Hch.
        inversion Hch as [| c0 o0 m0 ms0 i0 c0' rs0 Hg0 Ht0 Hf0 Hg0' Hv0 Hch0]; subst.
        assert (o0 = o) by congruence. subst o0.
        assert (i0 = i) by (apply (first_child_named_fun o m); assumption). subst i0.
        apply (is_private_at_false t _ _ Hg0') in Hv0. congruence.
      * apply (is_private_at_false t _ _ Hgc') in Ep.
        destruct (IH (c ++ [i]) (acc ++ [c ++ [i]])) as [[rs [Hch Heq]] | [Hno Heq]].
        -- left. exists ((c ++ [i]) :: rs). split.
           ++ apply (CH_step t c o m ms i c' rs); assumption.
           ++ eapply eq_trans; [exact Heq|]. rewrite <- app_assoc. reflexivity.
        -- right. split; [|exact Heq]. intros rs Hch.
           inversion Hch as [| c0 o0 m0 ms0 i0 c0' rs0 Hg0 Ht0 Hf0 Hg0' Hv0 Hch0]; subst.
           assert (o0 = o) by congruence. subst o0.
           assert (i0 = i) by (apply (first_child_named_fun o m); assumption). subst i0.
           apply (Hno rs0 Hch0).
    + right. split; [|reflexivity]. intros rs Hch.
      inversion Hch as [| c0 o0 m0 ms0 i0 c0' rs0 Hg0 Ht0 Hf0 Hg0' Hv0 Hch0]; subst.
      assert (o0 = o) by congruence. subst o0.
      destruct (lookup_direct_none t c m o Hg) as [Hnone _]. apply (Hnone El i0 Hf0).
Qed.

Lemma ref_in_direct : forall t q root nested o, get t q = Some o ->
  (exists i rs, first_child_named o root i /\ chain t (q ++ [i]) nested rs /\
      lookup_symbol_ref_in t (direct_cb t) tt q root nested = (tt, Val (Some ((q ++ [i]) :: rs))))
  \/ ((forall i rs, first_child_named o root i -> ~ chain t (q ++ [i]) nested rs) /\
      lookup_symbol_ref_in t (direct_cb t) tt q root nested = (tt, Val None)).
Proof.
  intros t q root nested o Hg. unfold lookup_symbol_ref_in. rewrite direct_cb_eq.
  destruct (lookup_direct t q root) as [o'|] eqn:El; cbv beta iota.
  - apply lookup_direct_some in El. destruct El as [o1 [i [Hg1 [Hf Ho']]]].
    assert (o1 = o) by congruence. subst o1 o'.
    destruct (ref_nested_direct t nested (q ++ [i]) [q ++ [i]]) as [[rs [Hch Heq]] | [Hno Heq]].
    + left. exists i, rs. split; [exact Hf|]. split; [exact Hch|]. exact Heq.
    + right. split; [|exact Heq]. intros i' rs Hf' Hch.
      assert (i' = i) by (apply (first_child_named_fun o root); assumption). subst i'.
      apply (Hno rs Hch).
  - right. split; [|reflexivity]. intros i rs Hf _.
    destruct (lookup_direct_none t q root o Hg) as [Hnone _]. apply (Hnone El i Hf).
Qed.

Lemma last_symbol_cons : forall rs x, last_symbol (x :: rs) = Val (Some (last rs x)).
Proof.
  intros rs. induction rs as [|y rs' _] using rev_ind; intro x; [reflexivity|].
  unfold last_symbol. rewrite app_comm_cons, rev_app_distr. cbn [rev app].
  rewrite last_last. reflexivity.
Qed.

Lemma resolve_nested_nil_inv : forall t c r, resolve_nested t c [] r -> r = c.
Proof. intros t c r H. inversion H. reflexivity. Qed.

(* SymbolTable.lookup_symbol_in: AssertionError on a non-table, otherwise exactly the Spec *)
Theorem lookup_symbol_in_spec : forall t q o sym, get t q = Some o ->
  (is_symbol_table o = false -> lookup_symbol_in t q sym = Raise AssertionError) /\
  (is_symbol_table o = true -> exists x, lookup_symbol_in t q sym = Val x /\
      forall r, x = Some r <-> resolve_in t q (sym_root sym) (sym_nested sym) r).
Proof.
  intros t q o sym Hg. unfold lookup_symbol_in, is_table_at. rewrite Hg. split; intro Ht; rewrite Ht; cbn [negb].
  - reflexivity.
  - destruct sym as [n | root nested]; cbn [sym_root sym_nested].
    + exists (lookup_direct t q n). split; [reflexivity|]. intro r. rewrite lookup_direct_some. split.
      * intros [o1 [i [Hg1 [Hf Hr]]]]. assert (o1 = o) by congruence. subst o1 r.
        exists o, i. repeat split; try assumption; try apply Hf. apply RN_done.
      * intros [o1 [i [Hg1 [Ht1 [Hf Hrn]]]]]. apply resolve_nested_nil_inv in Hrn.
        exists o1, i. repeat split; try assumption; apply Hf.
    + destruct (ref_in_direct t q root nested o Hg) as [[i [rs [Hf [Hch Heq]]]] | [Hno Heq]];
        rewrite Heq; cbn [snd].
      * rewrite last_symbol_cons. exists (Some (last rs (q ++ [i]))). split; [reflexivity|].
        intro r. split.
        -- intro Hr. inversion Hr; subst. exists o, i. repeat split; try assumption; try apply Hf.
           apply chain_resolve. exact Hch.
        -- intros [o1 [i1 [Hg1 [Ht1 [Hf1 Hrn]]]]]. assert (o1 = o) by congruence. subst o1.
           assert (i1 = i) by (apply (first_child_named_fun o root); assumption). subst i1.
           apply resolve_chain in Hrn. destruct Hrn as [rs' [Hch' Hl]].
           rewrite (chain_fun _ _ _ _ _ Hch Hch'). rewrite Hl. reflexivity.
      * exists None. split; [reflexivity|]. intro r. split; [discriminate|].
        intros [o1 [i1 [Hg1 [Ht1 [Hf1 Hrn]]]]]. assert (o1 = o) by congruence. subst o1.
        apply resolve_chain in Hrn. destruct Hrn as [rs' [Hch' _]].
        exfalso. apply (Hno i1 rs' Hf1 Hch').
Qed.

Lemma resolve_in_fun : forall t q root nested r r',
  resolve_in t q root nested r -> resolve_in t q root nested r' -> r = r'.
Proof.
  intros t q root nested r r' H H'.
  destruct H as [o [i [Hg [Ht [Hf Hrn]]]]].
  destruct (lookup_symbol_in_spec t q o (SRef root nested) Hg) as [_ Hs].
  destruct (Hs Ht) as [x [_ Hx]]. cbn [sym_root sym_nested] in Hx.
  assert (x = Some r) by (apply Hx; exists o, i; repeat split; try assumption; apply Hf).
  assert (x = Some r') by (apply Hx; exact H'). congruence.
Qed.

(* SymbolTable.lookup_nearest_symbol_from = the Spec, every tree, every start op, every reference *)
Theorem lookup_nearest_spec : forall t p o sym, get t p = Some o ->
  exists x, lookup_nearest_symbol_from t p sym = Val x /\
            forall r, x = Some r <-> resolve_from t p sym r.
Proof.
  intros t p o sym Hg. unfold lookup_nearest_symbol_from.
  destruct (get_nearest_symbol_table t p) as [q|] eqn:En.
  - apply (get_nearest_spec t p o q Hg) in En.
    destruct En as [[oq [Hgq Htq]] Hrest].
    destruct (lookup_symbol_in_spec t q oq sym Hgq) as [_ Hs]. destruct (Hs Htq) as [x [Hx Hr]].
    exists x. split; [exact Hx|]. intro r. rewrite Hr. split.
    + intro H. exists q. split; [|exact H]. split; [exists oq; split; assumption | exact Hrest].
    + intros [q' [Hn' H]].
      assert (q' = q).
      { apply (nearest_table_fun t p); [exact Hn'|]. split; [exists oq; split; assumption | exact Hrest]. }
      subst q'. exact H.
  - exists None. split; [reflexivity|]. intro r. split; [discriminate|].
    intros [q [Hn _]]. exfalso.
    destruct (get_nearest_none t p o Hg) as [Hnone _]. apply (Hnone En q Hn).
Qed.

Theorem resolve_from_fun : forall t p sym r r',
  resolve_from t p sym r -> resolve_from t p sym r' -> r = r'.
Proof.
  intros t p sym r r' [q [Hn H]] [q' [Hn' H']].
  assert (q' = q) by (apply (nearest_table_fun t p); assumption). subst q'.
  apply (resolve_in_fun t q _ _ r r' H H').
Qed.

(* ------------------------------------------------------------------ all_symbols=True *)
Lemma chain_prefixes : forall t c ms rs, chain t c ms rs ->
  length rs = length ms /\
  forall k r, nth_error rs k = Some r -> resolve_nested t c (firstn (S k) ms) r.
Proof.
  intros t c ms rs H. induction H as [c | c o m ms i c' rs Hg Ht Hf Hg' Hv Hch [IHl IHn]].
  - split; [reflexivity|]. intros k r Hk. destruct k; discriminate.
  - split; [cbn; f_equal; exact IHl|]. intros k r Hk. destruct k as [|k]; cbn in Hk.
    + inversion Hk; subst. cbn [firstn].
      apply (RN_step t c o m [] i c' _ Hg Ht Hf Hg' Hv). apply RN_done.
    + change (firstn (S (S k)) (m :: ms)) with (m :: firstn (S k) ms).
      apply (RN_step t c o m _ i c' _ Hg Ht Hf Hg' Hv). apply IHn. exact Hk.
Qed.

Theorem lookup_symbol_in_all_spec : forall t q o sym, get t q = Some o -> is_symbol_table o = true ->
  exists x, lookup_symbol_in_all t q sym = Val x /\
    (x = None <-> lookup_symbol_in t q sym = Val None) /\
    (forall l, x = Some l ->
       length l = S (length (sym_nested sym)) /\
       (exists r, lookup_symbol_in t q sym = Val (Some r) /\ last l [] = r) /\
       forall k r, nth_error l k = Some r ->
                   resolve_in t q (sym_root sym) (firstn k (sym_nested sym)) r).
Proof.
  intros t q o sym Hg Ht. unfold lookup_symbol_in_all, lookup_symbol_in, is_table_at.
  rewrite Hg, Ht. cbn [negb]. destruct sym as [n | root nested]; cbn [sym_root sym_nested].
  - destruct (lookup_direct t q n) as [r|] eqn:El.
    + exists (Some [r]). split; [reflexivity|]. split; [split; discriminate|].
      intros l Hl. inversion Hl; subst. split; [reflexivity|].
      split; [exists r; split; reflexivity|].
      intros k r' Hk. destruct k as [|k]; [|destruct k; discriminate]. cbn in Hk. inversion Hk; subst.
      apply lookup_direct_some in El. destruct El as [o1 [i [Hg1 [Hf Hr]]]].
      assert (o1 = o) by congruence. subst o1 r'.
      exists o, i. repeat split; try assumption; try apply Hf. cbn. apply RN_done.
    + exists None. split; [reflexivity|]. split; [split; reflexivity|]. intros l Hl. discriminate.
  - destruct (ref_in_direct t q root nested o Hg) as [[i [rs [Hf [Hch Heq]]]] | [Hno Heq]];
      rewrite Heq; cbn [snd].
    + exists (Some ((q ++ [i]) :: rs)). split; [reflexivity|].
      rewrite last_symbol_cons. split; [split; discriminate|].
      intros l Hl. inversion Hl; subst l. destruct (chain_prefixes _ _ _ _ Hch) as [Hlen Hpre].
      split; [cbn; f_equal; exact Hlen|].
      split; [exists (last rs (q ++ [i])); split; [reflexivity | apply last_cons_default]|].
      intros k r Hk. exists o, i. repeat split; try assumption; try apply Hf.
      destruct k as [|k]; cbn in Hk.
      * inversion Hk; subst. cbn. apply RN_done.
      * apply Hpre. exact Hk.
    + exists None. split; [reflexivity|]. split; [split; reflexivity|]. intros l Hl. discriminate.
Qed.

(* ------------------------------------------------------------------ unique names: "first" = "the" *)
Lemma in_sym_names : forall l j b n, nth_error l j = Some b -> named b n -> In n (sym_names l).
Proof.
  induction l as [|x r IH]; intros j b n Hj Hn; [destruct j; discriminate|].
  unfold sym_names. cbn [flat_map]. apply in_or_app. destruct j as [|j]; cbn in Hj.
  - inversion Hj; subst. left. unfold named in Hn. rewrite Hn. left. reflexivity.
  - right. apply (IH j b n Hj Hn).
Qed.

Lemma nodup_names_inj : forall l i j a b n, NoDup (sym_names l) ->
  nth_error l i = Some a -> nth_error l j = Some b -> named a n -> named b n -> i = j.
Proof.
  induction l as [|x r IH]; intros i j a b n Hnd Hi Hj Ha Hb; [destruct i; discriminate|].
  assert (Hnd' : NoDup (sym_names r)).
  { unfold sym_names in Hnd. cbn [flat_map] in Hnd. destruct (sym_name x).
    - cbn in Hnd. inversion Hnd. assumption.
    - exact Hnd. }
  destruct i as [|i], j as [|j]; cbn in Hi, Hj.
  - reflexivity.
  - exfalso. inversion Hi; subst. unfold sym_names in Hnd. cbn [flat_map] in Hnd.
    unfold named in Ha. rewrite Ha in Hnd. cbn in Hnd. inversion Hnd as [|? ? Hnin _]; subst.
    apply Hnin. apply (in_sym_names r j b n Hj Hb).
  - exfalso. inversion Hj; subst. unfold sym_names in Hnd. cbn [flat_map] in Hnd.
    unfold named in Hb. rewrite Hb in Hnd. cbn in Hnd. inversion Hnd as [|? ? Hnin _]; subst.
    apply Hnin. apply (in_sym_names r i a n Hi Ha).
  - f_equal. apply (IH i j a b n Hnd' Hi Hj Ha Hb).
Qed.

Theorem first_child_named_unique : forall o n i, NoDup (sym_names (children o)) ->
  (first_child_named o n i <-> exists c, nth_error (children o) i = Some c /\ named c n).
Proof.
  intros o n i Hnd. split; [intros [H _]; exact H|].
  intros [c [Hc Hn]]. split; [exists c; split; assumption|].
  intros j c' Hlt Hj Hn'.
  assert (j = i) by (apply (nodup_names_inj (children o) j i c' c n); assumption). lia.
Qed.
