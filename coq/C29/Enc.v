(* C29/Enc.v -- encoders of model results into Base/Show.v `sx`, literal helpers taking Z
   (case files are written in Z_scope) and the enumerators of the exhaustive sweeps.  No proofs. *)
From Coq Require Import List Arith ZArith Bool.
From XV Require Import Base.Show C29.Model.
Import ListNotations.

(* ------------------------------------------------------------------ literals *)
Definition zname (z : Z) : option name := if (z <? 0)%Z then None else Some (Z.to_nat z).
Definition zvis (z : Z) : vis := if (z =? 1)%Z then Private else if (z =? 2)%Z then Nested else Public.
(* mkop name(-1 = none) visibility(0 public, 1 private, 2 nested) is_symbol_table children *)
Definition mkop (n v : Z) (b : bool) (kids : list op) : op := Op (zname n) (zvis v) b kids.
Definition zpath (l : list Z) : path := map Z.to_nat l.
Definition zflat (n : Z) : symarg := SFlat (Z.to_nat n).
Definition zref (n : Z) (l : list Z) : symarg := SRef (Z.to_nat n) (map Z.to_nat l).

(* ------------------------------------------------------------------ identity = pre-order index *)
Fixpoint size (o : op) : nat :=
  match o with
  | Op _ _ _ kids => S ((fix sum (l : list op) : nat :=
                           match l with [] => 0 | c :: r => size c + sum r end) kids)
  end.
Fixpoint pre_idx (t : op) (p : path) : nat :=
  match p with
  | [] => 0
  | i :: p' =>
      match nth_error (children t) i with
      | Some c => S (fold_right (fun k acc => size k + acc) 0 (firstn i (children t))) + pre_idx c p'
      | None => 0
      end
  end.

(* ------------------------------------------------------------------ results *)
Definition exc_code (e : exc) : Z :=
  match e with AssertionError => 6 | ValueError => 3 | IndexError => 5 end%Z.
Definition enc_res {A} (f : A -> sx) (r : res A) : sx :=
  match r with Val a => f a | Raise e => L [I (-1)%Z; I (exc_code e)] end.
Definition enc_op (t : op) (p : path) : sx := sN (pre_idx t p).
Definition enc_oop (t : op) (o : option path) : sx := sOpt (enc_op t) o.
Definition enc_olist (t : op) (o : option (list path)) : sx :=
  sOpt (fun l => L (map (enc_op t) l)) o.

Definition sym_root_of (s : symarg) : name := match s with SFlat n => n | SRef n _ => n end.

(* one query: every lookup entry point from the op at p with the reference s
   [0] get_nearest_symbol_table            [1] SymbolTable.lookup_nearest_symbol_from
   [2] SymbolTable.lookup_symbol_in        [3] SymbolTable.lookup_symbol_in(all_symbols=True)
   [4] one SymbolTableCollection: lookup_nearest_symbol_from, lookup_symbol_in,
       lookup_symbol_in(all_symbols=True) in sequence, then the ops that own a cached table
   [5] SymbolTable(op).lookup(root)
   [6] traits.SymbolTable.lookup_symbol: the unchanged code (fixed = false) or the code as repaired
       by build/proposed_fixes/C29-1.diff (fixed = true; the harness selects the variant by
       replaying the two known-finding witnesses on the implementation) *)
Definition c29_query (fixed : bool) (t : op) (p : path) (s : symarg) : sx :=
  let '(c1, a) := coll_lookup_nearest_symbol_from t [] p s in
  let '(c2, b) := coll_lookup_symbol_in t c1 p s in
  let '(c3, d) := coll_lookup_symbol_in_all t c2 p s in
  L [ enc_oop t (get_nearest_symbol_table t p);
      enc_res (enc_oop t) (lookup_nearest_symbol_from t p s);
      enc_res (enc_oop t) (lookup_symbol_in t p s);
      enc_res (enc_olist t) (lookup_symbol_in_all t p s);
      L [ enc_res (enc_oop t) a; enc_res (enc_oop t) b; enc_res (enc_olist t) d;
          L (map (fun e => enc_op t (fst e)) c3) ];
      enc_res (enc_oop t)
        (match symtab_init t p with
         | Val tbl => Val (symtab_lookup p tbl (sym_root_of s))
         | Raise e => Raise e
         end);
      enc_res (enc_oop t)
        (if fixed then traits_lookup_symbol_fixed t p s else traits_lookup_symbol t p s) ].
Definition c29_q (fixed : bool) (t : op) (p : list Z) (s : symarg) : sx :=
  c29_query fixed t (zpath p) s.

(* ------------------------------------------------------------------ exhaustive sweeps
   A shape is an unlabelled ordered tree; labels are assigned in pre-order.  The sweep fixes the
   labels of the first nodes (`pre`) and enumerates all assignments of `labels` to the remaining
   `k` nodes in lexicographic (itertools.product) order; for each tree all start ops in pre-order,
   for each start op all references `refs`, in order. *)
Inductive shape := Sh (kids : list shape).
Definition label := (Z * Z * bool)%type.
Definition dummy : op := Op None Public false [].
Fixpoint build (s : shape) (ls : list label) : op * list label :=
  match s with
  | Sh kids =>
      match ls with
      | [] => (dummy, [])
      | (n, v, b) :: ls' =>
          let '(ks, rest) :=
            (fix go (kids : list shape) (ls : list label) : list op * list label :=
               match kids with
               | [] => ([], ls)
               | k :: kr => let '(o, ls1) := build k ls in
                            let '(os, ls2) := go kr ls1 in (o :: os, ls2)
               end) kids ls' in
          (mkop n v b ks, rest)
      end
  end.
Fixpoint paths (o : op) : list path :=
  match o with
  | Op _ _ _ kids =>
      [] :: (fix go (l : list op) (i : nat) : list path :=
               match l with [] => [] | c :: r => map (cons i) (paths c) ++ go r (S i) end) kids 0
  end.
Fixpoint label_lists (labels : list label) (k : nat) : list (list label) :=
  match k with
  | O => [[]]
  | S k' => flat_map (fun l => map (cons l) (label_lists labels k')) labels
  end.
Definition c29_sweep (fixed : bool) (s : shape) (pre : list label) (labels : list label) (k : nat)
                     (refs : list symarg) : sx :=
  L (flat_map (fun ls =>
       let t := fst (build s (pre ++ ls)) in
       flat_map (fun p => map (fun r => c29_query fixed t p r) refs) (paths t))
     (label_lists labels k)).
(* several prefixes in one shard (fewer coqc start-ups): the concatenation of the sweeps *)
Definition sx_items (s : sx) : list sx := match s with L l => l | I _ => [] end.
Definition c29_sweep_multi (fixed : bool) (s : shape) (pres : list (list label)) (labels : list label)
                           (k : nat) (refs : list symarg) : sx :=
  L (flat_map (fun pre => sx_items (c29_sweep fixed s pre labels k refs)) pres).
