(* C29/ProofsTraits.v -- traits.SymbolTable.lookup_symbol against the Spec of Proofs.v:
   refuted in general (two witnesses), complete (finds every designated op), equal to the Spec
   for references that only traverse symbol tables and only name non-private nested symbols;
   the repaired function (build/proposed_fixes/C29-1.diff) equals the Spec for everything. *)
From Coq Require Import List Arith Bool Lia.
From XV Require Import C29.Model C29.Proofs.
Import ListNotations.

(* hypothesis of the partial theorem: walking the nested components from the op at c, every
   component is looked up inside a symbol table and names a non-private symbol *)
Inductive ref_guard (t : op) : path -> list name -> Prop :=
| G_nil : forall c, ref_guard t c []
| G_cons : forall c o m ms, get t c = Some o -> is_symbol_table o = true ->
    (forall i c', first_child_named o m i -> get t (c ++ [i]) = Some c' ->
        visibility c' <> Private /\ ref_guard t (c ++ [i]) ms) ->
    ref_guard t c (m :: ms).
Definition traits_guard (t : op) (p : path) (sym : symarg) : Prop :=
  forall q o i, nearest_table t p q -> get t q = Some o ->
                first_child_named o (sym_root sym) i -> ref_guard t (q ++ [i]) (sym_nested sym).

Lemma traits_lookup_eq : forall t nested p root,
  traits_lookup t nested p root =
  match traits_anchor t (rev p) with
  | None => Raise ValueError
  | Some anchor =>
      match get t anchor with
      | None => Raise ValueError
      | Some a =>
          match first_named root (children a) 0 with
          | None => Val None
          | Some i => match nested with
                      | [] => Val (Some (anchor ++ [i]))
                      | m :: ms => traits_lookup t ms (anchor ++ [i]) m
                      end
          end
      end
  end.
Proof. intros t [|m ms] p root; reflexivity. Qed.

Lemma anchor_is_nearest : forall t p, traits_anchor t (rev p) = get_nearest_symbol_table t p.
Proof. intros t p. apply traits_anchor_eq. Qed.

Lemma anchor_of_table : forall t c o, get t c = Some o -> is_symbol_table o = true ->
  traits_anchor t (rev c) = Some c.
Proof.
  intros t c o Hg Ht. rewrite anchor_is_nearest. apply (get_nearest_spec t c o c Hg).
  apply table_at_self_nearest. exists o. split; assumption.
Qed.

Lemma traits_lookup_symbol_eq : forall t p sym,
  traits_lookup_symbol t p sym = traits_lookup t (sym_nested sym) p (sym_root sym).
Proof. intros t p [n | root nested]; reflexivity. Qed.

(* ------------------------------------------------------------------ completeness (no hypothesis) *)
Lemma traits_nested_complete : forall t ms c m r,
  resolve_nested t c (m :: ms) r -> traits_lookup t ms c m = Val (Some r).
Proof.
  intros t ms. induction ms as [|m' ms' IH]; intros c m r H;
    inversion H as [| c0 o m0 ms0 i c' r0 Hg Ht Hf Hg' Hv Hrn]; subst;
    rewrite traits_lookup_eq, (anchor_of_table t c o Hg Ht), Hg;
    apply first_named_spec in Hf; rewrite Hf.
  - apply resolve_nested_nil_inv in Hrn. subst. reflexivity.
  - apply IH. exact Hrn.
Qed.

Theorem traits_complete : forall t p o0 sym r, get t p = Some o0 ->
  resolve_from t p sym r -> traits_lookup_symbol t p sym = Val (Some r).
Proof.
  intros t p o0 sym r Hp0 [q [Hn [o [i [Hg [Ht [Hf Hrn]]]]]]].
  rewrite traits_lookup_symbol_eq, traits_lookup_eq, anchor_is_nearest.
  apply (get_nearest_spec t p o0 q Hp0) in Hn. rewrite Hn, Hg.
  apply first_named_spec in Hf. rewrite Hf.
  destruct (sym_nested sym) as [|m ms].
  - apply resolve_nested_nil_inv in Hrn. subst. reflexivity.
  - apply traits_nested_complete. exact Hrn.
Qed.

(* ------------------------------------------------------------------ equality under the guard *)
Lemma traits_nested_guard : forall t ms c o m, get t c = Some o -> is_symbol_table o = true ->
  (forall i c', first_child_named o m i -> get t (c ++ [i]) = Some c' ->
      visibility c' <> Private /\ ref_guard t (c ++ [i]) ms) ->
  exists x, traits_lookup t ms c m = Val x /\
            forall r, x = Some r <-> resolve_nested t c (m :: ms) r.
Proof.
  intros t ms. induction ms as [|m' ms' IH]; intros c o m Hg Ht Hguard;
    rewrite traits_lookup_eq, (anchor_of_table t c o Hg Ht), Hg;
    destruct (first_named m (children o) 0) as [i|] eqn:Ef.
  - apply first_named_spec in Ef. destruct (first_child_get t c o m i Hg Ef) as [c' [Hg' _]].
    destruct (Hguard i c' Ef Hg') as [Hv _].
    exists (Some (c ++ [i])). split; [reflexivity|]. intro r. split.
    + intro H. inversion H; subst. apply (RN_step t c o m [] i c' _ Hg Ht Ef Hg' Hv). apply RN_done.
    + intro H. inversion H as [| c0 o1 m0 ms0 i1 c1 r0 Hg1 Ht1 Hf1 Hg1' Hv1 Hrn]; subst.
      assert (o1 = o) by congruence. subst o1.
      assert (i1 = i) by (apply (first_child_named_fun o m); assumption). subst i1.
      apply resolve_nested_nil_inv in Hrn. subst. reflexivity.
  - exists None. split; [reflexivity|]. intro r. split; [discriminate|].
    intro H. inversion H as [| c0 o1 m0 ms0 i1 c1 r0 Hg1 Ht1 Hf1 Hg1' Hv1 Hrn]; subst.
    assert (o1 = o) by congruence. subst o1. apply first_named_spec in Hf1. congruence.
  - apply first_named_spec in Ef. destruct (first_child_get t c o m i Hg Ef) as [c' [Hg' _]].
    destruct (Hguard i c' Ef Hg') as [Hv Hrg].
    inversion Hrg as [| c0 o2 m0 ms0 Hg2 Ht2 Hguard2]; subst.
    destruct (IH (c ++ [i]) o2 m' Hg2 Ht2 Hguard2) as [x [Hx Hr]].
    exists x. split; [exact Hx|]. intro r. rewrite Hr. split.
    + intro H. apply (RN_step t c o m _ i c' _ Hg Ht Ef Hg' Hv). exact H.
    + intro H. inversion H as [| c0 o1 m0 ms0 i1 c1 r0 Hg1 Ht1 Hf1 Hg1' Hv1 Hrn]; subst.
      assert (o1 = o) by congruence. subst o1.
      assert (i1 = i) by (apply (first_child_named_fun o m); assumption). subst i1. exact Hrn.
  - exists None. split; [reflexivity|]. intro r. split; [discriminate|].
    intro H. inversion H as [| c0 o1 m0 ms0 i1 c1 r0 Hg1 Ht1 Hf1 Hg1' Hv1 Hrn]; subst.
    assert (o1 = o) by congruence. subst o1. apply first_named_spec in Hf1. congruence.
Qed.

(* the common shape of both "= Spec" theorems: ValueError exactly when there is no enclosing
   symbol table, otherwise a value that is Some r exactly for the designated op r *)
Definition agrees_with_spec (t : op) (p : path) (sym : symarg) (result : res (option path)) : Prop :=
  ((forall q, ~ nearest_table t p q) /\ result = Raise ValueError) \/
  ((exists q, nearest_table t p q) /\
   exists x, result = Val x /\ forall r, x = Some r <-> resolve_from t p sym r).

Theorem traits_partial : forall t p o0 sym, get t p = Some o0 -> traits_guard t p sym ->
  agrees_with_spec t p sym (traits_lookup_symbol t p sym).
Proof.
  intros t p o0 sym Hp0 Hguard. unfold agrees_with_spec.
  rewrite traits_lookup_symbol_eq, traits_lookup_eq, anchor_is_nearest.
  destruct (get_nearest_symbol_table t p) as [q|] eqn:En.
  2:{ left. split; [|reflexivity]. apply (get_nearest_none t p o0 Hp0). exact En. }
  right. apply (get_nearest_spec t p o0 q Hp0) in En. split; [exists q; exact En|].
  destruct En as [[oq [Hgq Htq]] Hrest].
  assert (Hn : nearest_table t p q) by (split; [exists oq; split; assumption | exact Hrest]).
  assert (Hfrom : forall r, resolve_from t p sym r <-> resolve_in t q (sym_root sym) (sym_nested sym) r).
  { intro r. split.
    - intros [q' [Hn' H]]. assert (q' = q) by (apply (nearest_table_fun t p); assumption). subst. exact H.
    - intro H. exists q. split; assumption. }
  rewrite Hgq. destruct (first_named (sym_root sym) (children oq) 0) as [i|] eqn:Ef.
  - apply first_named_spec in Ef. specialize (Hguard q oq i Hn Hgq Ef).
    destruct (sym_nested sym) as [|m ms] eqn:Ens.
    + exists (Some (q ++ [i])). split; [reflexivity|]. intro r. rewrite Hfrom. split.
      * intro H. inversion H; subst. exists oq, i. repeat split; try assumption; try apply Ef. apply RN_done.
      * intros [o1 [i1 [Hg1 [Ht1 [Hf1 Hrn]]]]]. assert (o1 = oq) by congruence. subst o1.
        assert (i1 = i) by (apply (first_child_named_fun oq (sym_root sym)); assumption). subst i1.
        apply resolve_nested_nil_inv in Hrn. subst. reflexivity.
    + inversion Hguard as [| c0 o2 m0 ms0 Hg2 Ht2 Hguard2]; subst.
      destruct (traits_nested_guard t ms (q ++ [i]) o2 m Hg2 Ht2 Hguard2) as [x [Hx Hr]].
      exists x. split; [exact Hx|]. intro r. rewrite Hr, Hfrom. split.
      * intro H. exists oq, i. repeat split; try assumption; apply Ef.
      * intros [o1 [i1 [Hg1 [Ht1 [Hf1 Hrn]]]]]. assert (o1 = oq) by congruence. subst o1.
        assert (i1 = i) by (apply (first_child_named_fun oq (sym_root sym)); assumption). subst i1.
        exact Hrn.
  - exists None. split; [reflexivity|]. intro r. rewrite Hfrom. split; [discriminate|].
    intros [o1 [i1 [Hg1 [Ht1 [Hf1 Hrn]]]]]. assert (o1 = oq) by congruence. subst o1.
    apply first_named_spec in Hf1. congruence.
Qed.

(* flat references (str, StringAttr, SymbolRefAttr without nested part) always satisfy the guard *)
Theorem traits_flat : forall t p o0 sym, get t p = Some o0 -> sym_nested sym = [] ->
  agrees_with_spec t p sym (traits_lookup_symbol t p sym).
Proof.
  intros t p o0 sym Hp0 Hnil. apply (traits_partial t p o0 sym Hp0).
  intros q o i _ _ _. rewrite Hnil. apply G_nil.
Qed.

(* ------------------------------------------------------------------ refutation witnesses *)
(* module { func @0 ; func @1 }: @0::@1 -- @0 is not a symbol table, the lookup climbs back to the
   module and returns the top-level @1 *)
Definition wit_nontable : op :=
  Op None Public true [Op (Some 0) Public false []; Op (Some 1) Public false []].
(* module { module @0 { func private @1 } }: @0::@1 returns the private symbol *)
Definition wit_private : op :=
  Op None Public true [Op (Some 0) Public true [Op (Some 1) Private false []]].

Lemma refute_by_direct : forall t p o0 sym r, get t p = Some o0 ->
  lookup_nearest_symbol_from t p sym = Val None -> ~ resolve_from t p sym r.
Proof.
  intros t p o0 sym r Hp0 Hl H. destruct (lookup_nearest_spec t p o0 sym Hp0) as [x [Hx Hr]].
  apply Hr in H. congruence.
Qed.

Theorem traits_refuted_nontable : exists t p o0 sym r,
  get t p = Some o0 /\ traits_lookup_symbol t p sym = Val (Some r) /\ ~ resolve_from t p sym r.
Proof.
  exists wit_nontable, [], wit_nontable, (SRef 0 [1]), [1].
  split; [reflexivity|]. split; [vm_compute; reflexivity|].
  apply (refute_by_direct _ _ wit_nontable); vm_compute; reflexivity.
Qed.

Theorem traits_refuted_private : exists t p o0 sym r,
  get t p = Some o0 /\ traits_lookup_symbol t p sym = Val (Some r) /\ ~ resolve_from t p sym r /\
  is_private_at t r = true.
Proof.
  exists wit_private, [], wit_private, (SRef 0 [1]), [0; 0].
  split; [reflexivity|]. split; [vm_compute; reflexivity|]. split; [|vm_compute; reflexivity].
  apply (refute_by_direct _ _ wit_private); vm_compute; reflexivity.
Qed.

(* the guard is satisfiable by a genuinely nested reference that resolves *)
Definition wit_ok : op :=
  Op None Public true
     [Op (Some 0) Public true [Op (Some 1) Nested true [Op (Some 2) Public false []]]].
Lemma wit_ok_first : forall o n i, first_named n (children o) 0 = Some i -> first_child_named o n i.
Proof. intros o n i H. apply first_named_spec. exact H. Qed.

(* ------------------------------------------------------------------ the repaired function *)
Lemma fixed_nested_spec : forall t ms c r,
  traits_fixed_nested t c ms = Some r <-> resolve_nested t c ms r.
Proof.
  intros t ms. induction ms as [|m ms IH]; intros c r; cbn [traits_fixed_nested].
  - split.
    + intro H. inversion H; subst. apply RN_done.
    + intro H. apply resolve_nested_nil_inv in H. subst. reflexivity.
  - split.
    + intro H. destruct (is_table_at t c) eqn:Et; cbn [negb] in H; [|discriminate].
      apply is_table_at_iff in Et. destruct Et as [o [Hg Ht]].
      destruct (lookup_direct t c m) as [o'|] eqn:El; [|discriminate].
      apply lookup_direct_some in El. destruct El as [o1 [i [Hg1 [Hf Ho']]]].
      assert (o1 = o) by congruence. subst o1 o'.
      destruct (first_child_get t c o m i Hg Hf) as [c' [Hg' _]].
      destruct (is_private_at t (c ++ [i])) eqn:Ep; [discriminate|].
      apply (is_private_at_false t _ _ Hg') in Ep. apply IH in H.
      apply (RN_step t c o m ms i c' r Hg Ht Hf Hg' Ep H).
    + intro H. inversion H as [| c0 o m0 ms0 i c' r0 Hg Ht Hf Hg' Hv Hrn]; subst.
      assert (Et : is_table_at t c = true) by (apply is_table_at_iff; exists o; split; assumption).
      rewrite Et. cbn [negb].
      assert (El : lookup_direct t c m = Some (c ++ [i])).
      { apply lookup_direct_some. exists o, i. repeat split; try assumption; apply Hf. }
      rewrite El. apply (is_private_at_false t _ _ Hg') in Hv. rewrite Hv. apply IH. exact Hrn.
Qed.

Theorem traits_fixed_agrees : forall t p o0 sym, get t p = Some o0 ->
  agrees_with_spec t p sym (traits_lookup_symbol_fixed t p sym).
Proof.
  intros t p o0 sym Hp0. unfold agrees_with_spec, traits_lookup_symbol_fixed.
  rewrite anchor_is_nearest.
  destruct (get_nearest_symbol_table t p) as [q|] eqn:En.
  2:{ left. split; [|reflexivity]. apply (get_nearest_none t p o0 Hp0). exact En. }
  right. apply (get_nearest_spec t p o0 q Hp0) in En. split; [exists q; exact En|].
  assert (Hn := En). destruct En as [[oq [Hgq Htq]] Hrest].
  assert (Hfrom : forall r, resolve_from t p sym r <-> resolve_in t q (sym_root sym) (sym_nested sym) r).
  { intro r. split.
    - intros [q' [Hn' H]]. assert (q' = q) by (apply (nearest_table_fun t p); assumption). subst. exact H.
    - intro H. exists q. split; assumption. }
  replace (match sym with SFlat n => (n, []) | SRef r ns => (r, ns) end)
    with (sym_root sym, sym_nested sym) by (destruct sym; reflexivity).
  destruct (lookup_direct t q (sym_root sym)) as [o'|] eqn:El.
  - apply lookup_direct_some in El. destruct El as [o1 [i [Hg1 [Hf Ho']]]].
    assert (o1 = oq) by congruence. subst o1 o'.
    exists (traits_fixed_nested t (q ++ [i]) (sym_nested sym)). split; [reflexivity|].
    intro r. rewrite fixed_nested_spec, Hfrom. split.
    + intro H. exists oq, i. repeat split; try assumption; apply Hf.
    + intros [o1 [i1 [Hg2 [Ht2 [Hf2 Hrn]]]]]. assert (o1 = oq) by congruence. subst o1.
      assert (i1 = i) by (apply (first_child_named_fun oq (sym_root sym)); assumption). subst i1.
      exact Hrn.
  - exists None. split; [reflexivity|]. intro r. rewrite Hfrom. split; [discriminate|].
    intros [o1 [i1 [Hg2 [Ht2 [Hf2 Hrn]]]]]. assert (o1 = oq) by congruence. subst o1.
    destruct (lookup_direct_none t q (sym_root sym) oq Hgq) as [Hnone _]. exfalso. apply (Hnone El i1 Hf2).
Qed.

(* ------------------------------------------------------------------ a decision procedure for the guard
   (used to show the hypothesis of traits_partial satisfiable on concrete trees) *)
Fixpoint ref_guardb (t : op) (c : path) (ms : list name) : bool :=
  match ms with
  | [] => true
  | m :: ms' =>
      is_table_at t c &&
      match lookup_direct t c m with
      | None => true
      | Some c' => negb (is_private_at t c') && ref_guardb t c' ms'
      end
  end.
Definition traits_guardb (t : op) (p : path) (sym : symarg) : bool :=
  match get_nearest_symbol_table t p with
  | None => true
  | Some q => match lookup_direct t q (sym_root sym) with
              | None => true
              | Some c => ref_guardb t c (sym_nested sym)
              end
  end.

Lemma ref_guardb_sound : forall t ms c, ref_guardb t c ms = true -> ref_guard t c ms.
Proof.
  intros t ms. induction ms as [|m ms IH]; intros c H; [apply G_nil|].
  cbn [ref_guardb] in H. apply andb_true_iff in H. destruct H as [Et H].
  apply is_table_at_iff in Et. destruct Et as [o [Hg Ht]].
  apply (G_cons t c o m ms Hg Ht). intros i c' Hf Hg'.
  assert (El : lookup_direct t c m = Some (c ++ [i])).
  { apply lookup_direct_some. exists o, i. repeat split; try assumption; apply Hf. }
  rewrite El in H. apply andb_true_iff in H. destruct H as [Hp Hrest].
  apply negb_true_iff in Hp. apply (is_private_at_false t _ _ Hg') in Hp.
  split; [exact Hp | apply IH; exact Hrest].
Qed.

Lemma traits_guardb_sound : forall t p o0 sym, get t p = Some o0 ->
  traits_guardb t p sym = true -> traits_guard t p sym.
Proof.
  intros t p o0 sym Hp0 H q o i Hn Hg Hf. unfold traits_guardb in H.
  apply (get_nearest_spec t p o0 q Hp0) in Hn. rewrite Hn in H.
  assert (El : lookup_direct t q (sym_root sym) = Some (q ++ [i])).
  { apply lookup_direct_some. exists o, i. repeat split; try assumption; apply Hf. }
  rewrite El in H. apply ref_guardb_sound. exact H.
Qed.

(* non-vacuity: @0::@1::@2 from the innermost function of wit_ok satisfies the guard and resolves *)
Lemma guard_satisfiable :
  traits_guard wit_ok [] (SRef 0 [1; 2]) /\
  traits_lookup_symbol wit_ok [] (SRef 0 [1; 2]) = Val (Some [0; 0; 0]) /\
  lookup_nearest_symbol_from wit_ok [] (SRef 0 [1; 2]) = Val (Some [0; 0; 0]).
Proof.
  split; [apply (traits_guardb_sound _ _ wit_ok); vm_compute; reflexivity|].
  split; vm_compute; reflexivity.
Qed.
