(* C07/Regex.v -- regular expressions over code points, a step-counting BACKTRACKING matcher in the
   exploration order of CPython's `sre` (greedy repetition first, alternatives left to right), and the
   cost analyser `cost_bound`.  Definitions only; the soundness proofs are in C07/RegexProofs.v.

   Code points are `Z`.  A character class is a decidable predicate given as data:
   a negation flag, a list of inclusive ranges, and a list of named Unicode classes (\w \d \s
   without re.ASCII) that are resolved through an oracle `U` (sampled from CPython by the harness). *)
From Coq Require Import ZArith List Bool Arith.
Import ListNotations.

Inductive named := UWord | UDigit | USpace.

Record cset := CS { cs_neg : bool; cs_ranges : list (Z * Z); cs_named : list named }.

Inductive regex :=
| Eps                       (* empty pattern *)
| Chr (c : cset)            (* one code point of the class *)
| Cat (a b : regex)         (* ab *)
| Alt (a b : regex)         (* a|b, a tried first; `a?` is Alt a Eps *)
| Star (a : regex)          (* greedy a*; `a+` is Cat a (Star a) *)
| EndA.                     (* `$` without re.MULTILINE: at the end, or before a final newline *)

(* match outcome: rest of the input after the match | no match | fuel exhausted (never happens, see
   RegexProofs.bt_match_no_fuel) *)
Inductive mres := MSome (rest : list Z) | MNone | MFuel.
Definition res := (nat * mres)%type.         (* steps, outcome *)

Definition in_range (x : Z) (r : Z * Z) : bool := (fst r <=? x)%Z && (x <=? snd r)%Z.

Section Matcher.
Variable U : named -> Z -> bool.

Definition mem (c : cset) (x : Z) : bool :=
  xorb (cs_neg c) (existsb (in_range x) (cs_ranges c) || existsb (fun n => U n x) (cs_named c)).

(* Continuation-passing backtracking matcher.  `bt r s k` tries the ways `r` can match a prefix of `s`
   in sre's priority order and calls `k` on the remaining input of each, until `k` does not fail.
   Steps: 1 per character test, 1 per alternation, 1 per loop iteration, 1 per anchor test. *)
Fixpoint bt (r : regex) (s : list Z) (k : list Z -> res) {struct r} : res :=
  match r with
  | Eps => k s
  | Chr c =>
      match s with
      | x :: s' => if mem c x then let '(d, o) := k s' in (S d, o) else (1, MNone)
      | [] => (1, MNone)
      end
  | Cat a b => bt a s (fun s' => bt b s' k)
  | Alt a b =>
      let '(da, oa) := bt a s k in
      match oa with
      | MNone => let '(db, ob) := bt b s k in (S (da + db), ob)
      | _ => (S da, oa)
      end
  | Star a =>
      (fix loop (fuel : nat) (s : list Z) {struct fuel} : res :=
         match fuel with
         | O => (0, MFuel)
         | S f =>
             (* one more iteration of the body first (greedy); an iteration that consumed nothing
                does not loop again (sre's empty-match guard) *)
             let '(da, oa) := bt a s (fun s' => if length s' <? length s then loop f s' else k s') in
             match oa with
             | MNone => let '(dk, ok) := k s in (S (da + dk), ok)
             | _ => (S da, oa)
             end
         end) (S (length s)) s
  | EndA =>
      match s with
      | [] => let '(d, o) := k s in (S d, o)
      | [x] => if (x =? 10)%Z then let '(d, o) := k s in (S d, o) else (1, MNone)
      | _ => (1, MNone)
      end
  end.

Definition accept : list Z -> res := fun s => (0, MSome s).
Definition at_end : list Z -> res := fun s => match s with [] => (1, MSome s) | _ => (1, MNone) end.

(* pattern.match(text, pos): `s` is the input from `pos` on *)
Definition bt_match (r : regex) (s : list Z) : res := bt r s accept.
(* the form used in the statement of cost_bound_sound: match at index i of s *)
Definition bt_match_at (r : regex) (s : list Z) (i : nat) : res := bt_match r (skipn i s).
(* pattern.fullmatch(text) *)
Definition bt_fullmatch (r : regex) (s : list Z) : res := bt r s at_end.
(* pattern.search(text): leftmost start; returns (steps, Some (start offset)) *)
Fixpoint bt_search (r : regex) (s : list Z) (off : nat) : nat * option nat :=
  let '(d, o) := bt_match r s in
  match o with
  | MNone => match s with
             | [] => (d, None)
             | _ :: s' => let '(d', o') := bt_search r s' (S off) in (d + d', o')
             end
  | _ => (d, Some off)
  end.
Definition steps (x : res) : nat := fst x.

End Matcher.

(* -------------------------------------------------------------------------------------------- *)
(* Cost analyser.

   Class 1 (an): built from Eps, Chr, Cat, Alt, EndA freely, and Star a ONLY in a position where
   the rest of the pattern after the star cannot fail (everything after it is nullable up to the
   end of the pattern; examples: a class star alone, c0 c-star, the fractional-suffix pattern, the
   whitespace/comment pattern), the body a being itself of class 1 in such a position.  A star
   followed by something that can fail (the nested-plus string pattern, a-star a-star b) is rejected.

   Class 2 (delimited): q1 B-star q2 with single-character delimiters q1, q2 and a body B that is a
   star-free, non-nullable pattern of Chr/Cat/Alt whose alternatives have pairwise disjoint
   first-character classes at every Alt, and whose first characters are disjoint from q2
   (the repaired string-literal pattern).  The body may NOT be plus- or star-quantified. *)

Record info := Info { iC : nat; iF : nat; iN : nat; iInf : bool }.

Fixpoint an (r : regex) (kinf : bool) : option info :=
  match r with
  | Eps => Some (Info 0 0 1 kinf)
  | Chr _ => Some (Info 1 1 1 false)
  | EndA => Some (Info 0 1 1 false)
  | Cat a b =>
      match an b kinf with
      | None => None
      | Some ib =>
          match an a (iInf ib) with
          | None => None
          | Some ia =>
              Some (Info (Nat.max (iC ia) (iC ib)) (iF ia + iN ia * iF ib + iF ib)
                         (iN ia * iN ib + iN ib) (iInf ia))
          end
      end
  | Alt a b =>
      match an a kinf, an b kinf with
      | Some ia, Some ib =>
          Some (Info (Nat.max (iC ia) (iC ib)) (1 + iF ia + iF ib) (iN ia + iN ib)
                     (iInf ia || iInf ib))
      | _, _ => None
      end
  | Star a =>
      if kinf then
        match an a true with
        | Some ia => Some (Info (iC ia + iF ia + 1) (iF ia + 1) 1 true)
        | None => None
        end
      else None
  end.

(* syntactic class membership used by class 2 *)
Definition plain (c : cset) : bool := match cs_named c with [] => true | _ => false end.
Definition ranges_disjoint (a b : list (Z * Z)) : bool :=
  forallb (fun ra => forallb (fun rb => (snd ra <? fst rb)%Z || (snd rb <? fst ra)%Z) b) a.
Definition range_within (r : Z * Z) (l : list (Z * Z)) : bool :=
  existsb (fun q => (fst q <=? fst r)%Z && (snd r <=? snd q)%Z) l.
(* sound (incomplete) disjointness test of two classes *)
Definition cdisj (a b : cset) : bool :=
  plain a && plain b &&
  match cs_neg a, cs_neg b with
  | false, false => ranges_disjoint (cs_ranges a) (cs_ranges b)
  | false, true => forallb (fun r => range_within r (cs_ranges b)) (cs_ranges a)
  | true, false => forallb (fun r => range_within r (cs_ranges a)) (cs_ranges b)
  | true, true => false
  end.

(* first-character classes of a star-free non-nullable pattern *)
Fixpoint firsts (r : regex) : list cset :=
  match r with
  | Chr c => [c]
  | Cat a _ => firsts a
  | Alt a b => firsts a ++ firsts b
  | _ => []
  end.
Definition all_disj (l1 l2 : list cset) : bool :=
  forallb (fun a => forallb (fun b => cdisj a b) l2) l1.

(* deterministic star-free non-nullable bodies *)
Fixpoint det (r : regex) : bool :=
  match r with
  | Chr _ => true
  | Cat a b => det a && det b
  | Alt a b => det a && det b && all_disj (firsts a) (firsts b)
  | _ => false
  end.
(* bound on the steps one attempt of a det body takes, excluding its continuation *)
Fixpoint dsize (r : regex) : nat :=
  match r with
  | Chr _ => 1
  | Cat a b => dsize a + dsize b
  | Alt a b => 1 + dsize a + dsize b
  | _ => 0
  end.

Definition delimited (r : regex) : option nat :=
  match r with
  | Cat (Chr q1) (Cat (Star B) (Chr q2)) =>
      if det B && all_disj (firsts B) [q2] then Some (dsize B + 4) else None
  | _ => None
  end.

(* Class 3 (unrolled): q1 N-star (S N-star)-star q2 -- the unrolled-loop form of a delimited literal
   (normal-star (special normal-star)-star): N a single class, S a deterministic star-free pattern of one
   or two sequence items, and each N, the first characters of S, and q2 pairwise disjoint. *)
Definition unroll_body (b : regex) : option (regex * cset) :=
  match b with
  | Cat a (Star (Chr n)) => Some (a, n)
  | Cat a1 (Cat a2 (Star (Chr n))) => Some (Cat a1 a2, n)
  | _ => None
  end.
Definition unrolled (r : regex) : option nat :=
  match r with
  | Cat (Chr q1) (Cat (Star (Chr n0)) (Cat (Star B) (Chr q2))) =>
      match unroll_body B with
      | Some (sp, n) =>
          if det sp && all_disj (firsts sp) [q2] && all_disj (firsts sp) [n] && cdisj n q2 &&
             all_disj (firsts sp) [n0] && cdisj n0 q2
          then Some (dsize sp + 8) else None
      | None => None
      end
  | _ => None
  end.

(* cost_bound r = Some (k, prompt):
     a successful match consuming m code points costs at most k*(m+1) steps,
     a failing match on n remaining code points at most k*(n+1) steps,
     and if prompt = true a failing match costs at most k steps (it fails without scanning). *)
Definition cost_bound (r : regex) : option (nat * bool) :=
  match an r true with
  | Some i => Some (iC i + iF i, true)
  | None =>
      match delimited r with
      | Some k => Some (k, false)
      | None => match unrolled r with Some k => Some (k, false) | None => None end
      end
  end.
