(* C07/Current.v -- the three configurations the theorems talk about (definitions only).
     cur_cfg      what /repo's working tree contains NOW: regexes and code-shape switches regenerated
                  from the source by the translator on every run (Gen/C07_regexes.v)
     pinned_cfg   the pinned tree as first modelled (recorded: all switches off, the nested-plus
                  string-literal pattern); the `_refuted` theorems keep their witnesses against it
     repaired_cfg the pinned tree with the five proposed repairs (build/proposed_fixes/C07-*.diff)
   and the oracle instantiated with CPython's Unicode tables (regenerated on every run). *)
From Coq Require Import ZArith List Bool.
From XV Require Import C07.Regex C07.Model Gen.C07_regexes.
Import ListNotations.

Definition cur_cfg : config :=
  Config r_ws r_bare_suffix r_suffix_id r_string r_hex r_digits r_frac r_name r_name_suffix
         cur_fx_ascii_digit cur_fx_int_guard cur_fx_label_validate cur_fx_label_redef cur_fx_utf8_kind.

Definition pinned_cfg : config :=
  Config r_ws r_bare_suffix r_suffix_id r_pinned_string r_hex r_digits r_frac r_name r_name_suffix
         false false false false false.

Definition repaired_cfg : config :=
  Config r_ws r_bare_suffix r_suffix_id r_proposed_string r_hex r_digits r_frac r_name r_name_suffix
         true true true true true.

(* membership in a table of inclusive ranges, ASCII part first *)
Definition in_table (t : list (Z * Z) * list (Z * Z)) (x : Z) : bool :=
  if (x <? 128)%Z then existsb (in_range x) (fst t) else existsb (in_range x) (snd t).

Definition cpy_named (n : named) (x : Z) : bool :=
  match n with
  | UWord => in_table tbl_word x
  | UDigit => in_table tbl_decimal x
  | USpace => in_table tbl_space x
  end.
(* unicodedata.decimal: every maximal run of decimal digits starts with a zero digit (checked by the
   generator over all code points) *)
Definition cpy_decval (x : Z) : Z :=
  match find (in_range x) (if (x <? 128)%Z then fst tbl_decimal else snd tbl_decimal) with
  | Some r => ((x - fst r) mod 10)%Z
  | None => 0%Z
  end.
Definition cpy : oracle :=
  Oracle (in_table tbl_alpha) (in_table tbl_numeric) (in_table tbl_decimal) cpy_decval cpy_named.

(* conditions under which the general theorems of C07/Proofs.v apply to a configuration *)
Definition cb_k (r : regex) : nat := match cost_bound r with Some (k, _) => k | None => 0 end.
Definition cb_ok (r : regex) : bool := match cost_bound r with Some _ => true | None => false end.
Definition cb_prompt (r : regex) : bool := match cost_bound r with Some (_, p) => p | None => false end.

Definition cost_regexes (cfg : config) : list regex :=
  [rx_ws cfg; rx_bare_suffix cfg; rx_suffix_id cfg; rx_string cfg; rx_hex cfg; rx_digits cfg; rx_frac cfg].
Definition kmax (cfg : config) : nat := fold_right Nat.max 0 (map cb_k (cost_regexes cfg)).
(* the constant of the linear bound on lexing steps *)
Definition Kof (cfg : config) : nat := 4 * kmax cfg + 1.
(* every lexer regex is accepted by the analyser; those whose failure is not fatal fail promptly *)
(* a successful string-literal match consumes at least the opening quote *)
Definition starts_chr (r : regex) : bool :=
  match r with Cat (Chr _) _ => true | Chr _ => true | _ => false end.
Definition progress_ok (cfg : config) : bool := starts_chr (rx_string cfg).
Definition rx_ok (cfg : config) : bool :=
  progress_ok cfg && forallb cb_ok (cost_regexes cfg) &&
  forallb cb_prompt [rx_ws cfg; rx_bare_suffix cfg; rx_hex cfg; rx_digits cfg; rx_frac cfg].
