(* C07/Model.v -- executable model (definitions only) of
     xdsl/utils/mlir_lexer.py  MLIRLexer.lex and the literal conversions get_int_value / get_float_value,
     xdsl/parser/core.py       the block-label / SSA-name registration paths
                               (_parse_block, _get_block_from_name, parse_optional_successor,
                                _register_ssa_definition, the block scope of parse_optional_region),
     xdsl/ir/core.py           name_hint setter / extract_valid_name / is_default_block_name.
   Every regular expression is a parameter (record `config`); the current ones are generated from the
   source by harness/translate/regex2coq.py into Gen/C07_regexes.v.  Unicode predicates of CPython
   (str.isalpha, str.isnumeric, str.isdecimal, the named regex classes) are an `oracle` parameter.
   A Python exception is an explicit outcome: ParseErr (a diagnostic) or Internal k
   (ValueError / KeyError / ... escaping), never a default value. *)
From Coq Require Import ZArith List Bool Arith.
From XV Require Import C07.Regex.
Import ListNotations.

(* ---------------------------------------------------------------------------------------------- *)
(* parameters *)

Record oracle := Oracle {
  o_alpha : Z -> bool;          (* str.isalpha   *)
  o_numeric : Z -> bool;        (* str.isnumeric *)
  o_decimal : Z -> bool;        (* str.isdecimal : what int()/float() accept as a digit *)
  o_decval : Z -> Z;            (* unicodedata.decimal *)
  o_named : named -> Z -> bool  (* \w \d \s of `re` on str patterns without re.ASCII *)
}.

Record config := Config {
  rx_ws : regex;            (* MLIRLexer._whitespace_regex *)
  rx_bare_suffix : regex;   (* MLIRLexer.bare_identifier_suffix_regex *)
  rx_suffix_id : regex;     (* MLIRLexer._suffix_id *)
  rx_string : regex;        (* MLIRLexer._unescaped_characters_regex *)
  rx_hex : regex;           (* MLIRLexer._hexdigits_star_regex *)
  rx_digits : regex;        (* MLIRLexer._digits_star_regex *)
  rx_frac : regex;          (* MLIRLexer._fractional_suffix_regex *)
  rx_name : regex;          (* ir.core._VALUE_NAME_PATTERN *)
  rx_name_suffix : regex;   (* ir.core._VALUE_NAME_SUFFIX_PATTERN *)
  (* switches describing the code; `false` everywhere = the pinned tree *)
  fx_ascii_digit : bool;    (* lex(): number branch tests an ASCII digit instead of str.isnumeric *)
  fx_int_guard : bool;      (* get_int_value/get_float_value: a failing int()/float() is a ParseError *)
  fx_label_validate : bool; (* parser: a block name hint is only set when Block.is_valid_name(name) *)
  fx_label_redef : bool;    (* parser: _parse_block records the definition span (redefinition -> ParseError) *)
  fx_utf8_kind : bool       (* lexer: an escaped literal is STRING_LIT iff its payload decodes as UTF-8
                               (false: iff the payload is ASCII, the pinned tree) *)
}.

Inductive ikind := ValueError | KeyError | IndexError | AssertionError | TypeError.

(* ---------------------------------------------------------------------------------------------- *)
(* lexer *)

(* token kinds = index in list(MLIRTokenKind) *)
Definition K_EOF := 0%Z.    Definition K_BARE := 1%Z.   Definition K_AT := 2%Z.
Definition K_HASH := 3%Z.   Definition K_PERCENT := 4%Z. Definition K_CARET := 5%Z.
Definition K_EXCL := 6%Z.   Definition K_FLOAT := 7%Z.  Definition K_INT := 8%Z.
Definition K_STR := 9%Z.    Definition K_BYTES := 10%Z.
Definition K_ARROW := 11%Z. Definition K_ELLIPSIS := 14%Z. Definition K_L_BRACE := 17%Z.
Definition K_MINUS := 21%Z. Definition K_FMB := 30%Z.   Definition K_FME := 31%Z.

(* single_char_punctuation of lex(): character -> kind *)
Definition single_punct : list (Z * Z) :=
  [(58, 12); (44, 13); (40, 18); (41, 25); (125, 24); (91, 19); (93, 26); (60, 20); (62, 16);
   (61, 15); (43, 22); (47, 27); (42, 28); (63, 23); (124, 29)]%Z.
Fixpoint assoc (x : Z) (l : list (Z * Z)) : option Z :=
  match l with [] => None | (a, b) :: r => if (a =? x)%Z then Some b else assoc x r end.

Definition state := (nat * list Z)%type.     (* lexer.pos, input[pos:] *)

Inductive cres := CSome (st : state) | CNone | CFuel.
(* _consume_regex: pattern.match(content, pos); on a match pos := match.end() *)
Definition consume (U : named -> Z -> bool) (r : regex) (st : state) : nat * cres :=
  let '(pos, rest) := st in
  let '(d, o) := bt_match U r rest in
  match o with
  | MSome rest' => (d, CSome (pos + (length rest - length rest'), rest'))
  | MNone => (d, CNone)
  | MFuel => (d, CFuel)
  end.

Inductive tres :=
| TOk (kind : Z) (start stop : nat) (st : state)
| TErr (start stop : nat)         (* ParseError with that span *)
| TFuel.

Definition is_hex (c : Z) : bool :=
  ((48 <=? c) && (c <=? 57) || (97 <=? c) && (c <=? 102) || (65 <=? c) && (c <=? 70))%Z.
Definition hexval (c : Z) : Z :=
  (if c <=? 57 then c - 48 else if c <=? 70 then c - 55 else c - 87)%Z.
Definition is_ascii_digit (c : Z) : bool := ((48 <=? c) && (c <=? 57))%Z.

(* StringLiteral.bytes_contents(...).isascii() on the text between the quotes.
   None = ParseError (incomplete / invalid escape), Some b = b is isascii() of the decoded bytes. *)
Fixpoint bytes_ascii (l : list Z) : option bool :=
  match l with
  | [] => Some true
  | c :: rest =>
      if (c =? 92)%Z then
        match rest with
        | [] => None
        | c1 :: rest1 =>
            if ((c1 =? 110) || (c1 =? 116) || (c1 =? 92) || (c1 =? 34))%Z then bytes_ascii rest1
            else match rest1 with
                 | c2 :: rest2 =>
                     if is_hex c1 && is_hex c2 then
                       match bytes_ascii rest2 with
                       | Some b => Some (b && (hexval c1 * 16 + hexval c2 <? 128)%Z)
                       | None => None
                       end
                     else None
                 | [] => None
                 end
        end
      else match bytes_ascii rest with
           | Some b => Some (b && (c <? 128)%Z)
           | None => None
           end
  end.

(* StringLiteral.bytes_contents: the decoded bytes, None = ParseError (incomplete / invalid escape) *)
Definition utf8_encode (c : Z) : list Z :=
  (if c <? 128 then [c]
   else if c <? 2048 then [192 + c / 64; 128 + c mod 64]
   else if c <? 65536 then [224 + c / 4096; 128 + (c / 64) mod 64; 128 + c mod 64]
   else [240 + c / 262144; 128 + (c / 4096) mod 64; 128 + (c / 64) mod 64; 128 + c mod 64])%Z.
Fixpoint bytes_of (l : list Z) : option (list Z) :=
  match l with
  | [] => Some []
  | c :: rest =>
      if (c =? 92)%Z then
        match rest with
        | [] => None
        | c1 :: rest1 =>
            if (c1 =? 110)%Z then option_map (cons 10%Z) (bytes_of rest1)
            else if (c1 =? 116)%Z then option_map (cons 9%Z) (bytes_of rest1)
            else if (c1 =? 92)%Z then option_map (cons 92%Z) (bytes_of rest1)
            else if (c1 =? 34)%Z then option_map (cons 34%Z) (bytes_of rest1)
            else match rest1 with
                 | c2 :: rest2 =>
                     if is_hex c1 && is_hex c2
                     then option_map (cons (hexval c1 * 16 + hexval c2)%Z) (bytes_of rest2)
                     else None
                 | [] => None
                 end
        end
      else option_map (app (utf8_encode c)) (bytes_of rest)
  end.
(* bytes.decode() succeeds: CPython's strict UTF-8 (no overlong forms, no surrogates, at most U+10FFFF) *)
Definition is_cont (b : Z) : bool := ((128 <=? b) && (b <=? 191))%Z.
Fixpoint utf8_valid (l : list Z) : bool :=
  match l with
  | [] => true
  | b :: r =>
      if (b <? 128)%Z then utf8_valid r
      else if ((194 <=? b) && (b <=? 223))%Z then
        match r with c1 :: r1 => is_cont c1 && utf8_valid r1 | _ => false end
      else if ((224 <=? b) && (b <=? 239))%Z then
        match r with
        | c1 :: c2 :: r2 =>
            (if (b =? 224)%Z then ((160 <=? c1) && (c1 <=? 191))%Z
             else if (b =? 237)%Z then ((128 <=? c1) && (c1 <=? 159))%Z
             else is_cont c1) && is_cont c2 && utf8_valid r2
        | _ => false
        end
      else if ((240 <=? b) && (b <=? 244))%Z then
        match r with
        | c1 :: c2 :: c3 :: r3 =>
            (if (b =? 240)%Z then ((144 <=? c1) && (c1 <=? 191))%Z
             else if (b =? 244)%Z then ((128 <=? c1) && (c1 <=? 143))%Z
             else is_cont c1) && is_cont c2 && is_cont c3 && utf8_valid r3
        | _ => false
        end
      else false
  end.

(* the kind of an escaped literal with the given text between the quotes; None = ParseError *)
Definition string_kind (cfg : config) (body : list Z) : option Z :=
  if fx_utf8_kind cfg then
    match bytes_of body with
    | None => None
    | Some bs => Some (if utf8_valid bs then K_STR else K_BYTES)
    end
  else
    match bytes_ascii body with
    | None => None
    | Some true => Some K_STR
    | Some false => Some K_BYTES
    end.

(* _lex_string_literal(start_pos): `q` = input[start_pos:], which begins with the quote;
   `cur` = lexer.pos when it is called (only used for the error span) *)
Definition lex_string (U : named -> Z -> bool) (cfg : config) (start : nat) (q : list Z) (cur : nat)
  : nat * tres :=
  let '(d, o) := consume U (rx_string cfg) (start, q) in
  match o with
  | CFuel => (d, TFuel)
  | CNone => (d, TErr start cur)
  | CSome (stop, rest') =>
      let text := firstn (stop - start) q in
      let body := removelast (tl text) in
      if (length text =? 2) && forallb (Z.eqb 34) text then (d, TOk K_STR start stop (stop, rest'))
      else if negb (existsb (Z.eqb 92) text) then (d, TOk K_STR start stop (stop, rest'))
      else match string_kind cfg body with
           | None => (d, TErr start stop)
           | Some k => (d, TOk k start stop (stop, rest'))
           end
  end.

Definition lex_bare (U : named -> Z -> bool) (cfg : config) (kind : Z) (start : nat) (st : state)
  : nat * tres :=
  let '(d, o) := consume U (rx_bare_suffix cfg) st in
  match o with
  | CFuel => (d, TFuel)
  | CNone => (d, TOk kind start (fst st) st)
  | CSome st' => (d, TOk kind start (fst st') st')
  end.

(* _lex_number, decimal case: digits*, then the optional fractional suffix *)
Definition lex_decimal (U : named -> Z -> bool) (cfg : config) (start : nat) (st : state) : nat * tres :=
  let '(d1, o1) := consume U (rx_digits cfg) st in
  match o1 with
  | CFuel => (d1, TFuel)
  | _ =>
      let st2 := match o1 with CSome s2 => s2 | _ => st end in
      let '(d2, o2) := consume U (rx_frac cfg) st2 in
      match o2 with
      | CFuel => (d1 + d2, TFuel)
      | CSome st3 => (d1 + d2, TOk K_FLOAT start (fst st3) st3)
      | CNone => (d1 + d2, TOk K_INT start (fst st2) st2)
      end
  end.

(* _lex_number: `c` is the first digit (already consumed), st = (pos, input[pos:]) *)
Definition lex_number (U : named -> Z -> bool) (cfg : config) (c : Z) (start : nat) (st : state)
  : nat * tres :=
  let '(p2, rest2) := st in
  match rest2 with
  | x :: h :: rest4 =>
      if ((c =? 48) && (x =? 120))%Z && is_hex h then
        (* _consume_chars(2) skips the x and the first hex digit *)
        let st4 := (p2 + 2, rest4) in
        let '(d, o) := consume U (rx_hex cfg) st4 in
        match o with
        | CFuel => (d, TFuel)
        | CNone => (d, TOk K_INT start (fst st4) st4)
        | CSome st' => (d, TOk K_INT start (fst st') st')
        end
      else lex_decimal U cfg start st
  | _ => lex_decimal U cfg start st
  end.

(* MLIRLexer.lex() after _consume_whitespace(): p1 = start_pos, rest1 = input[start_pos:].
   Steps: 1 for the dispatch + the steps of the regexes used. *)
Definition lex_dispatch (O : oracle) (cfg : config) (p1 : nat) (rest1 : list Z) : nat * tres :=
  let U := o_named O in
  match rest1 with
  | [] => (1, TOk K_EOF p1 (S p1) (S p1, []))
  | c :: rest2 =>
      let p2 := S p1 in
      let add (x : nat * tres) := (S (fst x), snd x) in
      if o_alpha O c || (c =? 95)%Z then add (lex_bare U cfg K_BARE p1 (p2, rest2))
      else match assoc c single_punct with
      | Some k => add (0, TOk k p1 p2 (p2, rest2))
      | None =>
      if (c =? 46)%Z then
        (* `...`: _get_chars(2) must be ".." *)
        match rest2 with
        | c2 :: c3 :: rest4 =>
            if ((c2 =? 46) && (c3 =? 46))%Z then add (0, TOk K_ELLIPSIS p1 (p2 + 2) (p2 + 2, rest4))
            else add (0, TErr p1 (S p1))
        | _ => add (0, TErr p1 (S p1))
        end
      else if (c =? 45)%Z then
        match rest2 with
        | c2 :: rest3 =>
            if (c2 =? 62)%Z then add (0, TOk K_ARROW p1 (S p2) (S p2, rest3))
            else add (0, TOk K_MINUS p1 p2 (p2, rest2))
        | [] => add (0, TOk K_MINUS p1 p2 (p2, rest2))
        end
      else if (c =? 123)%Z then
        match rest2 with
        | c2 :: c3 :: rest4 =>
            if ((c2 =? 45) && (c3 =? 35))%Z then add (0, TOk K_FMB p1 (p2 + 2) (p2 + 2, rest4))
            else add (0, TOk K_L_BRACE p1 p2 (p2, rest2))
        | _ => add (0, TOk K_L_BRACE p1 p2 (p2, rest2))
        end
      else if (c =? 35)%Z &&
              match rest2 with c2 :: c3 :: _ => ((c2 =? 45) && (c3 =? 125))%Z | _ => false end then
        add (0, TOk K_FME p1 (p2 + 2) (p2 + 2, skipn 2 rest2))
      else if (c =? 64)%Z then
        (* _lex_at_ident *)
        match rest2 with
        | [] => add (0, TErr p1 (S p1))
        | c2 :: rest3 =>
            if o_alpha O c2 || (c2 =? 95)%Z then add (lex_bare U cfg K_AT p1 (S p2, rest3))
            else if (c2 =? 34)%Z then
              let r := lex_string U cfg p2 rest2 (S p2) in
              match snd r with
              | TOk _ _ stop st' => add (fst r, TOk K_AT p1 stop st')
              | other => add (fst r, other)
              end
            else add (0, TErr p1 (S p2))
        end
      else if ((c =? 35) || (c =? 33) || (c =? 94) || (c =? 37))%Z then
        (* _lex_prefixed_ident *)
        let kind := (if c =? 35 then K_HASH else if c =? 33 then K_EXCL
                     else if c =? 94 then K_CARET else K_PERCENT)%Z in
        let '(d, o) := consume U (rx_suffix_id cfg) (p2, rest2) in
        match o with
        | CFuel => add (d, TFuel)
        | CNone => add (d, TErr p1 p2)
        | CSome st' => add (d, TOk kind p1 (fst st') st')
        end
      else if (c =? 34)%Z then add (lex_string U cfg p1 rest1 p2)
      else if (if fx_ascii_digit cfg then is_ascii_digit c else o_numeric O c) then
        add (lex_number U cfg c p1 (p2, rest2))
      else add (0, TErr p1 (S p1))
      end
  end.

(* MLIRLexer.lex(): one token *)
Definition lex_token (O : oracle) (cfg : config) (st : state) : nat * tres :=
  let '(d0, ows) := consume (o_named O) (rx_ws cfg) st in
  match ows with
  | CFuel => (d0, TFuel)
  | CSome (p1, rest1) => let x := lex_dispatch O cfg p1 rest1 in (d0 + fst x, snd x)
  | CNone => let x := lex_dispatch O cfg (fst st) (snd st) in (d0 + fst x, snd x)
  end.

(* ---------------------------------------------------------------------------------------------- *)
(* literal conversion, as the parser does on every literal token it consumes
   (MLIRTokenKind.get_int_value / get_float_value) *)

Inductive lit := LNone | LInt (z : Z) | LFloat.
Inductive conv := VOk (v : lit) | VParseErr | VInternal (k : ikind).

Definition int_max_str_digits : Z := 4300.   (* sys.get_int_max_str_digits() default *)

Fixpoint digits_value (val : Z -> Z) (base : Z) (acc : Z) (l : list Z) : Z :=
  match l with [] => acc | c :: r => digits_value val base (acc * base + val c)%Z r end.

(* int(text, 10) restricted to the texts the lexer produces (no sign, underscore, blank) *)
Definition int10 (O : oracle) (text : list Z) : option Z :=
  match text with
  | [] => None
  | _ => if forallb (o_decimal O) text && (Z.of_nat (length text) <=? int_max_str_digits)%Z
         then Some (digits_value (o_decval O) 10 0 text) else None
  end.
(* int(text, 16) for text = 0x.. / 0X.. *)
Definition int16 (text : list Z) : option Z :=
  match text with
  | _ :: _ :: (_ :: _) as ds => if forallb is_hex ds then Some (digits_value hexval 16 0 ds) else None
  | _ => None
  end.

Definition fail_conv (cfg : config) : conv :=
  if fx_int_guard cfg then VParseErr else VInternal ValueError.

Definition convert (O : oracle) (cfg : config) (kind : Z) (text : list Z) : conv :=
  if (kind =? K_INT)%Z then
    let hexp := match text with a :: b :: _ => (a =? 48)%Z && ((b =? 120) || (b =? 88))%Z | _ => false end in
    match (if hexp then int16 text else int10 O text) with
    | Some z => VOk (LInt z)
    | None => fail_conv cfg
    end
  else if (kind =? K_FLOAT)%Z then
    (* float(text): text = d0 [0-9]* . [0-9]* exponent?  -- accepted iff d0 is a decimal digit *)
    match text with
    | c :: _ => if o_decimal O c then VOk LFloat else fail_conv cfg
    | [] => fail_conv cfg
    end
  else VOk LNone.

(* ---------------------------------------------------------------------------------------------- *)
(* the whole token stream *)

Inductive item := Item (kind : Z) (start stop : nat) (v : lit).
Inductive outcome := Done | ParseErr (start stop : nat) | Internal (k : ikind) | OutOfFuel.

Fixpoint lex_all (O : oracle) (cfg : config) (input : list Z) (fuel : nat) (st : state)
  : nat * (list item * outcome) :=
  match fuel with
  | O => (0, ([], OutOfFuel))
  | S f =>
      let '(d, t) := lex_token O cfg st in
      match t with
      | TFuel => (d, ([], OutOfFuel))
      | TErr a b => (d, ([], ParseErr a b))
      | TOk kind start stop st' =>
          match convert O cfg kind (firstn (stop - start) (skipn start input)) with
          | VInternal k => (d, ([], Internal k))
          | VParseErr => (d, ([], ParseErr start stop))
          | VOk v =>
              if (kind =? K_EOF)%Z then (d, ([Item kind start stop v], Done))
              else let '(d', (l, o)) := lex_all O cfg input f st' in
                   (d + d', (Item kind start stop v :: l, o))
          end
      end
  end.

Definition lex (O : oracle) (cfg : config) (s : list Z) : nat * (list item * outcome) :=
  lex_all O cfg s (S (length s)) (0, s).
Definition lex_steps (O : oracle) (cfg : config) (s : list Z) : nat := fst (lex O cfg s).
Definition lex_outcome (O : oracle) (cfg : config) (s : list Z) : outcome := snd (snd (lex O cfg s)).

(* ---------------------------------------------------------------------------------------------- *)
(* block labels and SSA names in the parser *)

Definition name := list Z.
Fixpoint name_eqb (a b : name) : bool :=
  match a, b with
  | [], [] => true
  | x :: a', y :: b' => (x =? y)%Z && name_eqb a' b'
  | _, _ => false
  end.

(* IRWithName.is_valid_name / extract_valid_name *)
Definition valid_name (U : named -> Z -> bool) (cfg : config) (n : name) : bool :=
  match snd (bt_fullmatch U (rx_name cfg) n) with MSome _ => true | _ => false end.
(* Some hint | None = ValueError *)
Definition extract_valid_name (U : named -> Z -> bool) (cfg : config) (n : name) : option name :=
  if valid_name U cfg n then
    match snd (bt_search U (rx_name_suffix cfg) n 0) with
    | Some off => Some (firstn off n)
    | None => Some n
    end
  else None.
(* Block.is_default_block_name: "bb" followed by at least one digit, digits only
   (str.isdigit restricted to the ASCII names the lexer produces) *)
Definition is_default_block_name (n : name) : bool :=
  match n with
  | 98%Z :: 98%Z :: (_ :: _) as ds => forallb is_ascii_digit ds
  | _ => false
  end.

(* parser state: blocks : name -> (block id, definition seen?), forward_block_references : keys,
   ssa_values : keys; a stack of saved (blocks, forward refs, ssa_values) for enclosing regions *)
Record scope := Scope { sc_blocks : list (name * (nat * bool)); sc_fwd : list name }.
Record pstate := PState { ps_cur : scope; ps_ssa : list name; ps_stack : list (scope * list name);
                          ps_next : nat; ps_hints : list (nat * option name) }.
Definition pinit : pstate := PState (Scope [] []) [] [] 0 [].

Fixpoint lookup (n : name) (l : list (name * (nat * bool))) : option (nat * bool) :=
  match l with [] => None | (m, v) :: r => if name_eqb m n then Some v else lookup n r end.
Fixpoint update (n : name) (v : nat * bool) (l : list (name * (nat * bool))) : list (name * (nat * bool)) :=
  match l with
  | [] => [(n, v)]
  | (m, w) :: r => if name_eqb m n then (m, v) :: r else (m, w) :: update n v r
  end.
Definition mem_name (n : name) (l : list name) : bool := existsb (name_eqb n) l.
Fixpoint remove_name (n : name) (l : list name) : list name :=
  match l with [] => [] | m :: r => if name_eqb m n then remove_name n r else m :: remove_name n r end.

Inductive event :=
| ESucc (n : name)      (* parse_optional_successor on ^n *)
| EGet (n : name)       (* _get_block_from_name on ^n *)
| EDef (n : name)       (* _parse_block on the label ^n: *)
| ESsa (n : name)       (* _register_ssa_definition of %n (one fresh value) *)
| EOpen                 (* parse_optional_region: `{` *)
| EClose.               (* ... `}` *)

Inductive presult := POk (st : pstate) | PParseErr | PInternal (k : ikind).

(* block.name_hint = name ; returns the updated hint table or the ValueError *)
Definition set_hint (U : named -> Z -> bool) (cfg : config) (st : pstate) (b : nat) (n : name)
  : option (list (nat * option name)) :=
  match extract_valid_name U cfg n with
  | Some h => Some ((b, Some h) :: ps_hints st)
  | None => None
  end.

Definition with_cur (st : pstate) (sc : scope) (next : nat) (hints : list (nat * option name)) : pstate :=
  PState sc (ps_ssa st) (ps_stack st) next hints.

(* the shared body of parse_optional_successor / _get_block_from_name *)
Definition forward_ref (U : named -> Z -> bool) (cfg : config) (st : pstate) (n : name) (guarded : bool)
  : presult :=
  let sc := ps_cur st in
  match lookup n (sc_blocks sc) with
  | Some _ => POk st
  | None =>
      let fwd := if mem_name n (sc_fwd sc) then sc_fwd sc else n :: sc_fwd sc in
      let b := ps_next st in
      let want := negb (is_default_block_name n) &&
                  (if guarded || fx_label_validate cfg then valid_name U cfg n else true) in
      let sc' := Scope (update n (b, false) (sc_blocks sc)) fwd in
      if want then
        match set_hint U cfg st b n with
        | Some hints => POk (with_cur st sc' (S b) hints)
        | None => PInternal ValueError
        end
      else POk (with_cur st sc' (S b) (ps_hints st))
  end.

Definition step (U : named -> Z -> bool) (cfg : config) (st : pstate) (e : event) : presult :=
  let sc := ps_cur st in
  match e with
  | ESucc n => forward_ref U cfg st n false
  | EGet n => forward_ref U cfg st n true
  | EDef n =>
      (* _parse_block *)
      let r :=
        match lookup n (sc_blocks sc) with
        | None => inl (ps_next st, S (ps_next st), Scope (update n (ps_next st, true) (sc_blocks sc)) (sc_fwd sc))
        | Some (b, true) => inr PParseErr                      (* re-declaration of block *)
        | Some (b, false) =>
            if mem_name n (sc_fwd sc) then
              inl (b, ps_next st,
                   Scope (if fx_label_redef cfg then update n (b, true) (sc_blocks sc) else sc_blocks sc)
                         (remove_name n (sc_fwd sc)))
            else inr (PInternal KeyError)                       (* forward_block_references.pop(name) *)
        end in
      match r with
      | inr x => x
      | inl (b, next, sc') =>
          if negb (is_default_block_name n) &&
             (if fx_label_validate cfg then valid_name U cfg n else true) then
            match set_hint U cfg st b n with
            | Some hints => POk (with_cur st sc' next hints)
            | None => PInternal ValueError
            end
          else POk (with_cur st sc' next (ps_hints st))
      end
  | ESsa n =>
      (* _register_ssa_definition: duplicate -> ParseError; hint only if is_valid_name *)
      if mem_name n (ps_ssa st) then PParseErr
      else
        let v := ps_next st in
        let hints := if valid_name U cfg n
                     then match extract_valid_name U cfg n with
                          | Some h => (v, Some h) :: ps_hints st
                          | None => ps_hints st
                          end
                     else ps_hints st in
        POk (PState sc (n :: ps_ssa st) (ps_stack st) (S v) hints)
  | EOpen =>
      POk (PState (Scope [] []) (ps_ssa st) ((sc, ps_ssa st) :: ps_stack st) (ps_next st) (ps_hints st))
  | EClose =>
      match ps_stack st with
      | [] => PParseErr
      | (osc, ossa) :: stk =>
          match sc_fwd sc with
          | [] => POk (PState osc ossa stk (ps_next st) (ps_hints st))
          | _ => PParseErr              (* region ends with missing block declarations *)
          end
      end
  end.

Fixpoint run (U : named -> Z -> bool) (cfg : config) (st : pstate) (es : list event) : presult :=
  match es with
  | [] => POk st
  | e :: r => match step U cfg st e with POk st' => run U cfg st' r | x => x end
  end.
