(* C07/ProofsLabels.v -- the block-label / SSA-name registration model never raises an internal error
     labels_no_internal_general : with validated hints and recorded definitions, for EVERY event sequence
     labels_no_internal_partial : for any code shape, if every name is a valid hint and no block name is
                                  defined twice. *)
From Coq Require Import ZArith List Bool Arith Lia.
From XV Require Import C07.Regex C07.Model.
Import ListNotations.

Lemma name_eqb_eq : forall a b, name_eqb a b = true <-> a = b.
Proof.
  induction a as [|x a IH]; intros [|y b]; cbn; split; intro H; try discriminate; try reflexivity.
  - apply andb_true_iff in H. destruct H as [H1 H2]. apply Z.eqb_eq in H1. apply IH in H2. subst. reflexivity.
  - injection H as -> ->. apply andb_true_iff. split; [apply Z.eqb_refl|apply IH; reflexivity].
Qed.
Lemma name_eqb_refl : forall a, name_eqb a a = true.
Proof. intro a. apply name_eqb_eq. reflexivity. Qed.
Lemma name_eqb_neq : forall a b, a <> b -> name_eqb a b = false.
Proof. intros a b H. destruct (name_eqb a b) eqn:E; [apply name_eqb_eq in E; contradiction|reflexivity]. Qed.

Lemma lookup_update_same : forall n v l, lookup n (update n v l) = Some v.
Proof.
  intros n v l. induction l as [|[m w] r IH]; cbn.
  - rewrite name_eqb_refl. reflexivity.
  - destruct (name_eqb m n) eqn:E; cbn; rewrite E; [reflexivity|exact IH].
Qed.
Lemma lookup_update_other : forall n m v l, m <> n -> lookup m (update n v l) = lookup m l.
Proof.
  intros n m v l Hne. induction l as [|[m' w] r IH]; cbn.
  - rewrite (name_eqb_neq n m); [reflexivity|congruence].
  - destruct (name_eqb m' n) eqn:E; cbn.
    + apply name_eqb_eq in E. subst m'. rewrite (name_eqb_neq n m); [reflexivity|congruence].
    + destruct (name_eqb m' m); [reflexivity|exact IH].
Qed.
Lemma mem_name_In : forall n l, mem_name n l = true <-> In n l.
Proof.
  intros n l. unfold mem_name. rewrite existsb_exists. split.
  - intros (x & Hin & He). apply name_eqb_eq in He. subst. exact Hin.
  - intro H. exists n. split; [exact H|apply name_eqb_refl].
Qed.
Lemma In_remove_other : forall n m l, m <> n -> In m l -> In m (remove_name n l).
Proof.
  intros n m l Hne. induction l as [|x r IH]; cbn; [tauto|].
  intros [->|H].
  - rewrite (name_eqb_neq m n Hne). left. reflexivity.
  - destruct (name_eqb x n); [apply IH; exact H|right; apply IH; exact H].
Qed.

Lemma NoDup_app_r : forall (A : Type) (l l' : list A), NoDup (l ++ l') -> NoDup l'.
Proof. intros A l l'. induction l as [|x l IH]; cbn; intro H; [exact H|]. inversion H; subst. apply IH. assumption. Qed.

Section Labels.
Variable U : named -> Z -> bool.
Variable cfg : config.

Lemma set_hint_valid : forall st b n, valid_name U cfg n = true -> set_hint U cfg st b n <> None.
Proof.
  intros st b n Hv. unfold set_hint, extract_valid_name. rewrite Hv.
  destruct (snd (bt_search U (rx_name_suffix cfg) n 0)); discriminate.
Qed.

(* D = block names defined so far; a forward-declared block is still awaited or already defined *)
Definition inv_scope (D : list name) (sc : scope) : Prop :=
  forall n b, lookup n (sc_blocks sc) = Some (b, false) -> In n (sc_fwd sc) \/ In n D.
Definition inv (D : list name) (st : pstate) : Prop :=
  inv_scope D (ps_cur st) /\ Forall (fun p => inv_scope D (fst p)) (ps_stack st).

Lemma inv_scope_mono : forall D D' sc, incl D D' -> inv_scope D sc -> inv_scope D' sc.
Proof. intros D D' sc Hi H n b Hl. destruct (H n b Hl); [left|right; apply Hi]; assumption. Qed.
Lemma inv_mono : forall D D' st, incl D D' -> inv D st -> inv D' st.
Proof.
  intros D D' st Hi [H1 H2]. split; [apply (inv_scope_mono D D' _ Hi H1)|].
  eapply Forall_impl; [|exact H2]. intros p Hp. apply (inv_scope_mono D D' _ Hi Hp).
Qed.

Lemma forward_ref_inv : forall D st n g st', inv D st -> forward_ref U cfg st n g = POk st' -> inv D st'.
Proof.
  intros D st n g st' [Hc Hs] H. unfold forward_ref in H.
  destruct (lookup n (sc_blocks (ps_cur st))) as [v|] eqn:El; [injection H as <-; split; assumption|].
  set (fwd := if mem_name n (sc_fwd (ps_cur st)) then sc_fwd (ps_cur st) else n :: sc_fwd (ps_cur st)) in *.
  assert (Hfwd : In n fwd /\ incl (sc_fwd (ps_cur st)) fwd).
  { unfold fwd. destruct (mem_name n (sc_fwd (ps_cur st))) eqn:Em.
    - split; [apply mem_name_In; exact Em|apply incl_refl].
    - split; [left; reflexivity|apply incl_tl, incl_refl]. }
  assert (Hnew : inv_scope D (Scope (update n (ps_next st, false) (sc_blocks (ps_cur st))) fwd)).
  { intros m b Hl. cbn [sc_blocks sc_fwd] in *. destruct (list_eq_dec Z.eq_dec m n) as [->|Hne].
    - left. exact (proj1 Hfwd).
    - rewrite (lookup_update_other n m _ _ Hne) in Hl. destruct (Hc m b Hl); [left; apply (proj2 Hfwd)|right]; assumption. }
  destruct (negb (is_default_block_name n) &&
            (if g || fx_label_validate cfg then valid_name U cfg n else true)).
  - destruct (set_hint U cfg st (ps_next st) n); [|discriminate]. injection H as <-. split; [exact Hnew|exact Hs].
  - injection H as <-. split; [exact Hnew|exact Hs].
Qed.

Definition def_names (es : list event) : list name :=
  flat_map (fun e => match e with EDef n => [n] | _ => [] end) es.
Definition ev_names (es : list event) : list name :=
  flat_map (fun e => match e with ESucc n | EGet n | EDef n | ESsa n => [n] | _ => [] end) es.
Definition nextD (D : list name) (e : event) : list name :=
  if fx_label_redef cfg then D else def_names [e] ++ D.

Lemma incl_nextD : forall D e, incl D (nextD D e).
Proof. intros D e. unfold nextD. destruct (fx_label_redef cfg); [apply incl_refl|apply incl_appr, incl_refl]. Qed.

(* one step: no internal error, and the invariant is kept *)
Lemma step_ok : forall D st e,
  inv D st ->
  (fx_label_validate cfg = true \/ forall n, In n (ev_names [e]) -> valid_name U cfg n = true) ->
  (forall n, e = EDef n -> ~ In n D) ->
  match step U cfg st e with
  | POk st' => inv (nextD D e) st'
  | PParseErr => True
  | PInternal _ => False
  end.
Proof.
  intros D st e Hinv Hval Hdef.
  pose proof (inv_mono D (nextD D e) st (incl_nextD D e) Hinv) as Hinv'.
  destruct e as [n|n|n|n| |]; cbn [step].
  - (* ESucc *)
    destruct (forward_ref U cfg st n false) as [st'| |k] eqn:E.
    + apply (forward_ref_inv _ st n false st' Hinv' E).
    + exact I.
    + unfold forward_ref in E. destruct (lookup n (sc_blocks (ps_cur st))); [discriminate|].
      cbn [orb] in E.
      destruct (negb (is_default_block_name n) && (if fx_label_validate cfg then valid_name U cfg n else true)) eqn:Ew;
        [|discriminate].
      assert (Hv : valid_name U cfg n = true).
      { destruct Hval as [Hf|Hn]; [|apply Hn; cbn; tauto].
        rewrite Hf in Ew. apply andb_true_iff in Ew. tauto. }
      pose proof (set_hint_valid st (ps_next st) n Hv).
      destruct (set_hint U cfg st (ps_next st) n); [discriminate|congruence].
  - (* EGet *)
    destruct (forward_ref U cfg st n true) as [st'| |k] eqn:E.
    + apply (forward_ref_inv _ st n true st' Hinv' E).
    + exact I.
    + unfold forward_ref in E. destruct (lookup n (sc_blocks (ps_cur st))); [discriminate|].
      cbn [orb] in E.
      destruct (negb (is_default_block_name n) && valid_name U cfg n) eqn:Ew; [|discriminate].
      apply andb_true_iff in Ew. destruct Ew as [_ Hv].
      pose proof (set_hint_valid st (ps_next st) n Hv).
      destruct (set_hint U cfg st (ps_next st) n); [discriminate|congruence].
  - (* EDef *)
    destruct Hinv as [Hc Hs]. destruct Hinv' as [Hc' Hs'].
    assert (Hhint : forall b next sc',
              inv_scope (nextD D (EDef n)) sc' ->
              match (if negb (is_default_block_name n) &&
                        (if fx_label_validate cfg then valid_name U cfg n else true)
                     then match set_hint U cfg st b n with
                          | Some hints => POk (with_cur st sc' next hints)
                          | None => PInternal ValueError
                          end
                     else POk (with_cur st sc' next (ps_hints st))) with
              | POk st' => inv (nextD D (EDef n)) st'
              | PParseErr => True
              | PInternal _ => False
              end).
    { intros b next sc' Hsc'.
      destruct (negb (is_default_block_name n) && (if fx_label_validate cfg then valid_name U cfg n else true)) eqn:Ew.
      - assert (Hv : valid_name U cfg n = true).
        { destruct Hval as [Hf|Hn]; [|apply Hn; cbn; tauto].
          rewrite Hf in Ew. apply andb_true_iff in Ew. tauto. }
        pose proof (set_hint_valid st b n Hv). destruct (set_hint U cfg st b n); [|congruence].
        split; [exact Hsc'|exact Hs'].
      - split; [exact Hsc'|exact Hs']. }
    destruct (lookup n (sc_blocks (ps_cur st))) as [[b [|]]|] eqn:El.
    + exact I.
    + destruct (mem_name n (sc_fwd (ps_cur st))) eqn:Em.
      * apply Hhint. intros m b' Hl. cbn [sc_blocks sc_fwd] in *.
        unfold nextD in *. cbn [def_names flat_map app] in *.
        destruct (fx_label_redef cfg).
        -- destruct (list_eq_dec Z.eq_dec m n) as [->|Hne].
           ++ rewrite lookup_update_same in Hl. discriminate.
           ++ rewrite (lookup_update_other n m _ _ Hne) in Hl.
              destruct (Hc m b' Hl) as [Hf|Hd]; [left; apply In_remove_other; assumption|right; exact Hd].
        -- destruct (list_eq_dec Z.eq_dec m n) as [->|Hne]; [right; left; reflexivity|].
           destruct (Hc m b' Hl) as [Hf|Hd]; [left; apply In_remove_other; assumption|right; right; exact Hd].
      * (* forward-declared and no longer awaited: it would have been defined before *)
        destruct (Hc n b El) as [Hf|Hd].
        -- apply mem_name_In in Hf. congruence.
        -- exact (Hdef n eq_refl Hd).
    + apply Hhint. intros m b' Hl. cbn [sc_blocks sc_fwd] in *.
      destruct (list_eq_dec Z.eq_dec m n) as [->|Hne].
      * rewrite lookup_update_same in Hl. discriminate.
      * rewrite (lookup_update_other n m _ _ Hne) in Hl.
        destruct (Hc' m b' Hl) as [Hf|Hd]; [left; exact Hf|right; exact Hd].
  - (* ESsa *)
    destruct (mem_name n (ps_ssa st)); [exact I|].
    destruct Hinv' as [Hc' Hs']. split; [exact Hc'|exact Hs'].
  - (* EOpen *)
    destruct Hinv' as [Hc' Hs']. split.
    + intros m b Hl. cbn in Hl. discriminate.
    + constructor; [exact Hc'|exact Hs'].
  - (* EClose *)
    destruct Hinv' as [Hc' Hs'].
    destruct (ps_stack st) as [|[osc ossa] stk]; [exact I|].
    destruct (sc_fwd (ps_cur st)); [|exact I].
    inversion Hs' as [|p l Hp Hl]; subst. split; [exact Hp|exact Hl].
Qed.

Lemma inv_init : inv [] pinit.
Proof. split; [intros n b H; cbn in H; discriminate|constructor]. Qed.

(* with validated hints and recorded definitions: EVERY event sequence *)
Theorem labels_no_internal_general :
  fx_label_validate cfg = true -> fx_label_redef cfg = true ->
  forall es k, run U cfg pinit es <> PInternal k.
Proof.
  intros Hv Hr es.
  assert (H : forall es st, inv [] st -> forall k, run U cfg st es <> PInternal k).
  { induction es0 as [|e r IH]; intros st Hi k; [cbn; discriminate|].
    cbn [run]. pose proof (step_ok [] st e Hi (or_introl Hv) (fun n _ Hin => Hin)) as Hs.
    destruct (step U cfg st e) as [st'| |k0]; [|discriminate|destruct Hs].
    apply IH. unfold nextD in Hs. rewrite Hr in Hs. exact Hs. }
  apply H. apply inv_init.
Qed.

(* any code shape: every name is a valid hint and no block name is defined twice *)
Theorem labels_no_internal_partial :
  forall es, (forall n, In n (ev_names es) -> valid_name U cfg n = true) -> NoDup (def_names es) ->
  forall k, run U cfg pinit es <> PInternal k.
Proof.
  assert (H : forall es D st, inv D st ->
            (forall n, In n (ev_names es) -> valid_name U cfg n = true) ->
            NoDup (def_names es) -> (forall n, In n (def_names es) -> ~ In n D) ->
            forall k, run U cfg st es <> PInternal k).
  { induction es as [|e r IH]; intros D st Hi Hv Hnd Hdis k; [cbn; discriminate|].
    cbn [run].
    assert (Hv1 : forall n, In n (ev_names [e]) -> valid_name U cfg n = true).
    { intros n Hn. apply Hv. unfold ev_names in *. cbn [flat_map] in *. rewrite app_nil_r in Hn.
      apply in_or_app. left. exact Hn. }
    assert (Hd1 : forall n, e = EDef n -> ~ In n D).
    { intros n -> . apply Hdis. cbn. left. reflexivity. }
    pose proof (step_ok D st e Hi (or_intror Hv1) Hd1) as Hs.
    destruct (step U cfg st e) as [st'| |k0]; [|discriminate|destruct Hs].
    assert (Hsplit : def_names (e :: r) = def_names [e] ++ def_names r).
    { unfold def_names. cbn [flat_map]. rewrite app_nil_r. reflexivity. }
    rewrite Hsplit in Hnd, Hdis.
    apply (IH (nextD D e) st' Hs).
    - intros n Hn. apply Hv. unfold ev_names in *. cbn [flat_map]. apply in_or_app. right. exact Hn.
    - apply (NoDup_app_r _ _ _ Hnd).
    - intros n Hn Hin. unfold nextD in Hin. destruct (fx_label_redef cfg).
      + apply (Hdis n); [apply in_or_app; right; exact Hn|exact Hin].
      + apply in_app_or in Hin. destruct Hin as [Hin|Hin].
        * (* n defined by e and again later: contradicts NoDup *)
          clear - Hnd Hn Hin. induction (def_names [e]) as [|x l IHl]; [destruct Hin|].
          cbn in Hnd. inversion Hnd as [|? ? Hx Hl]; subst. destruct Hin as [->|Hin].
          -- apply Hx. apply in_or_app. right. exact Hn.
          -- apply IHl; assumption.
        * apply (Hdis n); [apply in_or_app; right; exact Hn|exact Hin]. }
  intros es Hv Hnd k. apply (H es [] pinit inv_init Hv Hnd). intros n _ Hin. exact Hin.
Qed.

End Labels.
