(* C07/ProofsInst.v -- the general theorems instantiated for the repaired configuration, and the
   recorded refutations / partial statements for the pinned configuration (vm_compute witnesses). *)
From Coq Require Import ZArith List Bool Arith Lia.
From XV Require Import C07.Regex C07.RegexProofs C07.Model C07.Current C07.Proofs C07.ProofsLabels C07.ProofsText.
From XV Require Import Gen.C07_regexes.
Import ListNotations.

(* ---------------------------------------------------------------------------- repaired *)
Lemma rx_ok_repaired : rx_ok repaired_cfg = true.
Proof. vm_compute. reflexivity. Qed.
Lemma progress_ok_repaired : progress_ok repaired_cfg = true.
Proof. vm_compute. reflexivity. Qed.

Theorem lex_linear_repaired : forall O s, lex_steps O repaired_cfg s <= Kof repaired_cfg * (length s + 1).
Proof. intros O s. exact (lex_linear_general O repaired_cfg rx_ok_repaired s). Qed.
Theorem lex_total_repaired : forall O s, no_internal (lex_outcome O repaired_cfg s).
Proof. intros O s. exact (lex_total_general O repaired_cfg progress_ok_repaired eq_refl s). Qed.
Theorem labels_no_internal_repaired : forall U es k, run U repaired_cfg pinit es <> PInternal k.
Proof. intros U es k. exact (labels_no_internal_general U repaired_cfg eq_refl eq_refl es k). Qed.

(* ---------------------------------------------------------------------------- pinned: refuted *)
(* a double quote followed by n letters a: an unterminated string literal *)
Definition w_unterminated (n : nat) : list Z := 34%Z :: repeat 97%Z n.
(* the generic operation test.op with the attribute dictionary {a = <lit>} and type () -> () *)
Definition w_attr (lit : list Z) : list Z :=
  ([34;116;101;115;116;46;111;112;34;40;41;32;123;97;32;61;32] ++ lit ++
   [125;32;58;32;40;41;32;45;62;32;40;41])%Z.

Theorem lex_linear_pinned_refuted :
  exists s, Kof repaired_cfg * (length s + 1) < lex_steps cpy pinned_cfg s.
Proof.
  exists (w_unterminated 12). apply Nat.ltb_lt. vm_compute. reflexivity.
Qed.

(* step counts of the pinned string pattern on quote a^n for n = 4, 6, 8, 10, 12: times 4 per two
   characters; the proposed pattern on the same inputs: plus 10 per two characters *)
Lemma pinned_string_growth :
  map (fun n => N.of_nat (fst (bt_match cpy_named r_pinned_string (w_unterminated n)))) [4; 6; 8; 10; 12]
    = [111; 447; 1791; 7167; 28671]%N /\
  map (fun n => N.of_nat (fst (bt_match cpy_named r_proposed_string (w_unterminated n)))) [4; 6; 8; 10; 12]
    = [26; 36; 46; 56; 66]%N.
Proof. vm_compute. split; reflexivity. Qed.

Theorem lex_total_pinned_refuted :
  lex_outcome cpy pinned_cfg (w_attr [178%Z]) = Internal ValueError /\
  lex_outcome cpy pinned_cfg (w_attr (repeat 49%Z (Z.to_nat 4301))) = Internal ValueError.
Proof. split; vm_compute; reflexivity. Qed.

Theorem labels_pinned_refuted :
  run cpy_named pinned_cfg pinit [EOpen; EDef [52; 50]%Z] = PInternal ValueError /\
  run cpy_named pinned_cfg pinit [EOpen; ESucc [97%Z]; EDef [97%Z]; EDef [97%Z]] = PInternal KeyError.
Proof. split; vm_compute; reflexivity. Qed.

(* ---------------------------------------------------------------------------- pinned: partial *)
(* inputs without a double quote never reach the string-literal pattern: replacing it changes nothing *)
Theorem lex_linear_partial_general : forall O cfg r, rx_ok (set_string cfg r) = true ->
  forall s, quote_free s -> lex_steps O cfg s <= Kof (set_string cfg r) * (length s + 1).
Proof.
  intros O cfg r Hok s Hq. unfold lex_steps, lex.
  rewrite <- (lex_all_nostring O cfg r s (S (length s)) 0 s Hq).
  exact (lex_linear_general O (set_string cfg r) Hok s).
Qed.

Lemma rx_ok_pinned_fixed_string : rx_ok (set_string pinned_cfg r_proposed_string) = true.
Proof. vm_compute. reflexivity. Qed.
Lemma K_pinned_fixed_string : Kof (set_string pinned_cfg r_proposed_string) = Kof repaired_cfg.
Proof. vm_compute. reflexivity. Qed.

Theorem lex_linear_pinned_partial : forall O s, quote_free s ->
  lex_steps O pinned_cfg s <= Kof repaired_cfg * (length s + 1).
Proof.
  intros O s Hq. rewrite <- K_pinned_fixed_string.
  exact (lex_linear_partial_general O pinned_cfg r_proposed_string rx_ok_pinned_fixed_string s Hq).
Qed.

Lemma progress_ok_pinned : progress_ok pinned_cfg = true.
Proof. vm_compute. reflexivity. Qed.

Theorem lex_total_pinned_partial : forall O s, (forall c, In c s -> o_numeric O c = false) ->
  no_internal (lex_outcome O pinned_cfg s).
Proof. intros O s H. exact (lex_total_partial O pinned_cfg progress_ok_pinned s H). Qed.

(* stronger partial statement: numeric characters are ASCII digits, at most 4300 code points *)
Lemma pinned_digits_class : class_star (rx_digits pinned_cfg) = Some (CS false [(48, 57)%Z] []).
Proof. reflexivity. Qed.
Lemma pinned_hex_class : class_star (rx_hex pinned_cfg) = Some (CS false [(48, 57); (97, 102); (65, 70)]%Z []).
Proof. reflexivity. Qed.
Lemma digits_class_ascii : forall U x, Regex.mem U (CS false [(48, 57)%Z] []) x = true -> is_ascii_digit x = true.
Proof.
  intros U x H. unfold Regex.mem, in_range in H. cbn in H. unfold is_ascii_digit.
  destruct (48 <=? x)%Z, (x <=? 57)%Z; cbn in *; congruence.
Qed.
Lemma hex_class_hex : forall U x,
  Regex.mem U (CS false [(48, 57); (97, 102); (65, 70)]%Z []) x = true -> is_hex x = true.
Proof.
  intros U x H. unfold Regex.mem, in_range in H. cbn in H. unfold is_hex.
  destruct (48 <=? x)%Z, (x <=? 57)%Z, (97 <=? x)%Z, (x <=? 102)%Z, (65 <=? x)%Z, (x <=? 70)%Z; cbn in *; congruence.
Qed.

Theorem lex_total_pinned_partial_strong : forall O s,
  (forall x, is_ascii_digit x = true -> o_decimal O x = true) ->
  (forall x, In x s -> o_numeric O x = true -> is_ascii_digit x = true) ->
  (Z.of_nat (length s) <= 4300)%Z ->
  no_internal (lex_outcome O pinned_cfg s).
Proof.
  intros O s Hasc Hch Hlen.
  exact (lex_total_ascii_digits O pinned_cfg _ _ pinned_digits_class pinned_hex_class Hasc
           (digits_class_ascii (o_named O)) (hex_class_hex (o_named O)) progress_ok_pinned s Hch Hlen).
Qed.

(* the hypotheses of the partial statements are satisfiable by non-trivial inputs *)
Example partial_hypotheses_satisfiable :
  let s := [37; 120; 32; 61; 32; 97; 114; 105; 116; 104; 46; 97; 100; 100; 32; 37; 97; 44; 32; 37; 98]%Z in
  forallb (fun c => negb (c =? 34)%Z && negb (o_numeric cpy c)) s = true /\
  lex_outcome cpy pinned_cfg s = Done /\ length (fst (snd (lex cpy pinned_cfg s))) = 7.
Proof. vm_compute. repeat split; reflexivity. Qed.
(* %0 = arith.constant 42 : i32 -- digits present, all ASCII; and the oracle hypothesis holds of CPython's tables *)
Example strong_partial_hypotheses_satisfiable :
  let s := [37; 48; 32; 61; 32; 97; 114; 105; 116; 104; 46; 99; 111; 110; 115; 116; 97; 110; 116; 32; 52; 50;
            32; 58; 32; 105; 51; 50]%Z in
  forallb (fun c => negb (o_numeric cpy c) || is_ascii_digit c) s = true /\
  forallb (fun c => o_decimal cpy c) [48; 49; 50; 51; 52; 53; 54; 55; 56; 57]%Z = true /\
  lex_outcome cpy pinned_cfg s = Done /\ existsb (o_numeric cpy) s = true.
Proof. vm_compute. repeat split; reflexivity. Qed.
