(* C07/ProofsText.v -- what the text of a numeric literal token looks like, and the resulting partial
   form of C07_lex_total for code WITHOUT the repairs:
     if every code point of the input that passes the lexer's digit test is an ASCII digit, and the
     input has at most 4300 code points, lexing + literal conversion never ends in an internal error.
   Needs: positions are conserved (position + remaining length = input length), the token text is the
   consumed prefix, and a class-star pattern consumes only characters of its class. *)
From Coq Require Import ZArith List Bool Arith Lia.
From XV Require Import C07.Regex C07.RegexProofs C07.Model C07.Current C07.Proofs.
Import ListNotations.

(* a class star: what `[0-9]*` and `[0-9a-fA-F]*` translate to *)
Definition class_star (r : regex) : option cset :=
  match r with Star (Chr c) => Some c | _ => None end.

Section Text.
Variable O : oracle.
Variable cfg : config.
Notation U := (o_named O).

(* ---------------------------------------------------------------------------------------------- *)
(* a class star consumes a prefix made of characters of the class *)

Lemma class_star_loop : forall c fuel s d sf, length s < fuel ->
  star_loop U (Chr c) accept fuel s = (d, MSome sf) ->
  exists pre, s = pre ++ sf /\ Forall (fun x => Regex.mem U c x = true) pre.
Proof.
  intros c. induction fuel as [|f IHf]; intros s d sf Hlt H; [lia|].
  assert (Hstop : bt U (Chr c) s (cont_of U (Chr c) accept f s) = (1, MNone) ->
                  exists pre, s = pre ++ sf /\ Forall (fun x => Regex.mem U c x = true) pre).
  { intro Hb. rewrite (loop_fail U (Chr c) accept f s 1 0 (MSome s) Hb eq_refl) in H.
    injection H as _ <-. exists []. split; [reflexivity|constructor]. }
  destruct s as [|x t]; [apply Hstop; apply chr_nil|].
  destruct (Regex.mem U c x) eqn:Em; [|apply Hstop; apply chr_miss; exact Em].
  assert (Hc : cont_of U (Chr c) accept f (x :: t) t = star_loop U (Chr c) accept f t).
  { unfold cont_of. replace (length t <? length (x :: t)) with true; [reflexivity|].
    symmetry. apply Nat.ltb_lt. cbn. lia. }
  destruct (star_loop U (Chr c) accept f t) as [d1 o1] eqn:El.
  pose proof (chr_hit U c x t (cont_of U (Chr c) accept f (x :: t)) d1 o1 Em Hc) as Hb.
  destruct o1 as [sf1| |].
  - rewrite (loop_succ U (Chr c) accept f (x :: t) _ _ Hb ltac:(discriminate)) in H. injection H as _ <-.
    destruct (IHf t d1 sf1 ltac:(cbn in Hlt; lia) El) as (pre & -> & Hpre).
    exists (x :: pre). split; [reflexivity|constructor; assumption].
  - rewrite (loop_fail U (Chr c) accept f (x :: t) _ 0 (MSome (x :: t)) Hb eq_refl) in H.
    injection H as _ <-. exists []. split; [reflexivity|constructor].
  - rewrite (loop_succ U (Chr c) accept f (x :: t) _ _ Hb ltac:(discriminate)) in H. discriminate.
Qed.

Lemma consume_class_star : forall r c pos rest d pos' rest', class_star r = Some c ->
  consume U r (pos, rest) = (d, CSome (pos', rest')) ->
  exists pre, rest = pre ++ rest' /\ Forall (fun x => Regex.mem U c x = true) pre.
Proof.
  intros r c pos rest d pos' rest' Hr H. destruct r as [| | | |a|]; try discriminate.
  destruct a as [|c0| | | |]; try discriminate. injection Hr as ->.
  unfold consume, bt_match in H. rewrite bt_star in H.
  destruct (star_loop U (Chr c) accept (S (length rest)) rest) as [d0 o] eqn:E.
  destruct o as [sf| |]; try discriminate. injection H as _ _ <-.
  apply (class_star_loop c (S (length rest)) rest d0 sf ltac:(lia) E).
Qed.

(* ---------------------------------------------------------------------------------------------- *)
(* positions are conserved *)

Lemma consume_cons : forall r pos rest d pos' rest',
  consume U r (pos, rest) = (d, CSome (pos', rest')) -> pos' + length rest' = pos + length rest.
Proof.
  intros r pos rest d pos' rest' H. pose proof (consume_some O r pos rest d pos' rest' H) as Hl.
  unfold consume in H. destruct (bt_match U r rest) as [d0 o]. destruct o as [sf| |]; try discriminate.
  injection H as _ <- <-. lia.
Qed.

Definition tcons (N : nat) (x : nat * tres) : Prop :=
  match snd x with
  | TOk k a b (p', rest') => k = K_EOF \/ (p' + length rest' = N /\ b = p')
  | _ => True
  end.

Definition tcons1 (N : nat) (x : nat * tres) : Prop :=
  match snd x with
  | TOk k a b (p', rest') => p' + length rest' = N /\ b = p'
  | _ => True
  end.

Lemma lex_bare_cons : forall kind start pos rest,
  tcons1 (pos + length rest) (lex_bare U cfg kind start (pos, rest)).
Proof.
  intros. unfold lex_bare. destruct (consume U (rx_bare_suffix cfg) (pos, rest)) as [d o] eqn:E.
  destruct o as [[pos' rest']| |]; unfold tcons1; cbn [fst snd]; try exact I.
  - split; [apply (consume_cons _ _ _ _ _ _ E)|reflexivity].
  - split; reflexivity.
Qed.

Lemma lex_string_cons : forall start q cur, tcons1 (start + length q) (lex_string U cfg start q cur).
Proof.
  intros start q cur. unfold lex_string.
  destruct (consume U (rx_string cfg) (start, q)) as [d o] eqn:E.
  destruct o as [[stop sf]| |]; unfold tcons1; cbn [fst snd]; try exact I.
  pose proof (consume_cons _ _ _ _ _ _ E) as Hc.
  destruct ((length (firstn (stop - start) q) =? 2) && forallb (Z.eqb 34) (firstn (stop - start) q));
    [cbn; split; [exact Hc|reflexivity]|].
  destruct (negb (existsb (Z.eqb 92) (firstn (stop - start) q))); [cbn; split; [exact Hc|reflexivity]|].
  destruct (string_kind cfg (removelast (tl (firstn (stop - start) q)))) as [k0|]; cbn; try exact I.
  split; [exact Hc|reflexivity].
Qed.

Lemma lex_decimal_cons : forall start pos rest,
  tcons1 (pos + length rest) (lex_decimal U cfg start (pos, rest)).
Proof.
  intros. unfold lex_decimal.
  destruct (consume U (rx_digits cfg) (pos, rest)) as [d1 o1] eqn:E1.
  destruct o1 as [[pos2 rest2]| |]; [| |unfold tcons1; cbn; exact I].
  - pose proof (consume_cons _ _ _ _ _ _ E1) as H1.
    destruct (consume U (rx_frac cfg) (pos2, rest2)) as [d2 o2] eqn:E2.
    destruct o2 as [[pos3 rest3]| |]; unfold tcons1; cbn [fst snd]; try exact I.
    + pose proof (consume_cons _ _ _ _ _ _ E2). split; [lia|reflexivity].
    + split; [exact H1|reflexivity].
  - destruct (consume U (rx_frac cfg) (pos, rest)) as [d2 o2] eqn:E2.
    destruct o2 as [[pos3 rest3]| |]; unfold tcons1; cbn [fst snd]; try exact I.
    + split; [apply (consume_cons _ _ _ _ _ _ E2)|reflexivity].
    + split; reflexivity.
Qed.

Lemma lex_number_cons : forall c start pos rest,
  tcons1 (pos + length rest) (lex_number U cfg c start (pos, rest)).
Proof.
  intros c start pos rest. unfold lex_number.
  destruct rest as [|x [|h rest4]]; try apply lex_decimal_cons.
  destruct ((c =? 48)%Z && (x =? 120)%Z && is_hex h); [|apply lex_decimal_cons].
  destruct (consume U (rx_hex cfg) (pos + 2, rest4)) as [d o] eqn:E.
  destruct o as [[pos' rest']| |]; unfold tcons1; cbn [fst snd length]; try exact I.
  - pose proof (consume_cons _ _ _ _ _ _ E). split; [lia|reflexivity].
  - split; [lia|reflexivity].
Qed.

Lemma tcons_S : forall N x, tcons1 N x -> tcons N (S (fst x), snd x).
Proof.
  intros N [d t] H. unfold tcons, tcons1 in *. cbn [fst snd] in *.
  destruct t as [k a b [p r]| |]; try exact I. right. exact H.
Qed.

Lemma lex_dispatch_cons : forall p1 rest1, tcons (p1 + length rest1) (lex_dispatch O cfg p1 rest1).
Proof.
  intros p1 rest1. unfold lex_dispatch. destruct rest1 as [|c rest2]; [unfold tcons; cbn; left; reflexivity|].
  cbv zeta.
  assert (HN : S p1 + length rest2 = p1 + length (c :: rest2)) by (cbn; lia).
  destruct (o_alpha O c || (c =? 95)%Z).
  { rewrite <- HN. apply tcons_S. apply lex_bare_cons. }
  destruct (assoc c single_punct) as [k|]; [unfold tcons; cbn; right; split; [lia|reflexivity]|].
  destruct (c =? 46)%Z.
  { destruct rest2 as [|c2 [|c3 rest4]]; try (unfold tcons; cbn; exact I).
    destruct ((c2 =? 46) && (c3 =? 46))%Z; unfold tcons; cbn; [right; split; [lia|reflexivity]|exact I]. }
  destruct (c =? 45)%Z.
  { destruct rest2 as [|c2 rest3]; [unfold tcons; cbn; right; split; [lia|reflexivity]|].
    destruct (c2 =? 62)%Z; unfold tcons; cbn; right; split; try reflexivity; lia. }
  destruct (c =? 123)%Z.
  { destruct rest2 as [|c2 [|c3 rest4]]; try (unfold tcons; cbn; right; split; [lia|reflexivity]).
    destruct ((c2 =? 45) && (c3 =? 35))%Z; unfold tcons; cbn; right; split; try reflexivity; lia. }
  destruct ((c =? 35)%Z && match rest2 with c2 :: c3 :: _ => ((c2 =? 45) && (c3 =? 125))%Z | _ => false end) eqn:Em.
  { unfold tcons. cbn [fst snd]. right. split; [|reflexivity].
    destruct rest2 as [|c2 [|c3 rest4]]; try (rewrite andb_false_r in Em; discriminate). cbn. lia. }
  destruct (c =? 64)%Z.
  { destruct rest2 as [|c2 rest3]; [unfold tcons; cbn; exact I|].
    destruct (o_alpha O c2 || (c2 =? 95)%Z).
    { replace (p1 + length (c :: c2 :: rest3)) with (S (S p1) + length rest3) by (cbn; lia).
      apply tcons_S. apply lex_bare_cons. }
    destruct (c2 =? 34)%Z; [|unfold tcons; cbn; exact I].
    pose proof (lex_string_cons (S p1) (c2 :: rest3) (S (S p1))) as Hs.
    destruct (lex_string U cfg (S p1) (c2 :: rest3) (S (S p1))) as [d0 t].
    unfold tcons, tcons1 in *. cbn [fst snd] in *.
    destruct t as [k0 a0 b0 [p0 r0]|a0 b0|]; cbn [fst snd]; try exact I.
    right. cbn [length] in *. split; [lia|exact (proj2 Hs)]. }
  destruct ((c =? 35) || (c =? 33) || (c =? 94) || (c =? 37))%Z.
  { destruct (consume U (rx_suffix_id cfg) (S p1, rest2)) as [d0 o] eqn:E.
    destruct o as [[p0 r0]| |]; unfold tcons; cbn [fst snd]; try exact I.
    right. pose proof (consume_cons _ _ _ _ _ _ E). cbn [length]. split; [lia|reflexivity]. }
  destruct (c =? 34)%Z.
  { replace (p1 + length (c :: rest2)) with (p1 + length (c :: rest2)) by reflexivity.
    apply tcons_S. apply lex_string_cons. }
  destruct (if fx_ascii_digit cfg then is_ascii_digit c else o_numeric O c).
  { rewrite <- HN. apply tcons_S. apply lex_number_cons. }
  unfold tcons. cbn. exact I.
Qed.

Lemma lex_token_cons_aux : forall pos rest, tcons (pos + length rest) (lex_token O cfg (pos, rest)).
Proof.
  intros pos rest. unfold lex_token.
  destruct (consume U (rx_ws cfg) (pos, rest)) as [d0 ows] eqn:E0.
  destruct ows as [[p1 rest1]| |]; [| |unfold tcons; cbn; exact I].
  - rewrite <- (consume_cons _ _ _ _ _ _ E0). pose proof (lex_dispatch_cons p1 rest1) as H.
    destruct (lex_dispatch O cfg p1 rest1) as [d t]. exact H.
  - cbn [fst snd]. pose proof (lex_dispatch_cons pos rest) as H.
    destruct (lex_dispatch O cfg pos rest) as [d t]. exact H.
Qed.

Lemma lex_token_split : forall pos rest, exists p1 rest1,
  is_suffix rest1 rest /\ p1 + length rest1 = pos + length rest /\
  (snd (lex_token O cfg (pos, rest)) = snd (lex_dispatch O cfg p1 rest1) \/
   snd (lex_token O cfg (pos, rest)) = TFuel).
Proof.
  intros pos rest. unfold lex_token.
  destruct (consume U (rx_ws cfg) (pos, rest)) as [d0 ows] eqn:E0.
  destruct ows as [[p1 rest1]| |].
  - exists p1, rest1. split; [apply (consume_suffix O _ _ _ _ _ _ E0)|].
    split; [apply (consume_cons _ _ _ _ _ _ E0)|]. left. reflexivity.
  - exists pos, rest. split; [apply is_suffix_refl|]. split; [reflexivity|]. left. reflexivity.
  - exists pos, rest. split; [apply is_suffix_refl|]. split; [reflexivity|]. right. reflexivity.
Qed.

(* ---------------------------------------------------------------------------------------------- *)
(* the numeric branch: what it consumes *)

Variables (dc hc : cset).
Hypothesis Hdc : class_star (rx_digits cfg) = Some dc.
Hypothesis Hhc : class_star (rx_hex cfg) = Some hc.

Definition num_shape (c kind : Z) (pre : list Z) : Prop :=
  kind = K_FLOAT \/
  (kind = K_INT /\
   (Forall (fun x => Regex.mem U dc x = true) pre \/
    (c = 48%Z /\ exists h hp, pre = 120%Z :: h :: hp /\ is_hex h = true /\
                              Forall (fun x => Regex.mem U hc x = true) hp))).

Lemma lex_decimal_shape : forall c start pos rest d kind a b p' rest',
  lex_decimal U cfg start (pos, rest) = (d, TOk kind a b (p', rest')) ->
  a = start /\ exists pre, rest = pre ++ rest' /\ num_shape c kind pre.
Proof.
  intros c start pos rest d kind a b p' rest' H. unfold lex_decimal in H.
  destruct (consume U (rx_digits cfg) (pos, rest)) as [d1 o1] eqn:E1.
  destruct o1 as [[pos2 rest2]| |]; [| |discriminate].
  - destruct (consume_class_star _ dc _ _ _ _ _ Hdc E1) as (dpre & -> & Hd).
    destruct (consume U (rx_frac cfg) (pos2, rest2)) as [d2 o2] eqn:E2.
    destruct o2 as [[pos3 rest3]| |]; [| |discriminate].
    + injection H as _ <- <- _ _ <-. split; [reflexivity|].
      destruct (consume_suffix O _ _ _ _ _ _ E2) as [fpre ->].
      exists (dpre ++ fpre). split; [rewrite app_assoc; reflexivity|]. left. reflexivity.
    + injection H as _ <- <- _ _ <-. split; [reflexivity|].
      exists dpre. split; [reflexivity|]. right. split; [reflexivity|]. left. exact Hd.
  - destruct (consume U (rx_frac cfg) (pos, rest)) as [d2 o2] eqn:E2.
    destruct o2 as [[pos3 rest3]| |]; [| |discriminate].
    + injection H as _ <- <- _ _ <-. split; [reflexivity|].
      destruct (consume_suffix O _ _ _ _ _ _ E2) as [fpre ->].
      exists fpre. split; [reflexivity|]. left. reflexivity.
    + injection H as _ <- <- _ _ <-. split; [reflexivity|].
      exists []. split; [reflexivity|]. right. split; [reflexivity|]. left. constructor.
Qed.

Lemma lex_number_shape : forall c start pos rest d kind a b p' rest',
  lex_number U cfg c start (pos, rest) = (d, TOk kind a b (p', rest')) ->
  a = start /\ exists pre, rest = pre ++ rest' /\ num_shape c kind pre.
Proof.
  intros c start pos rest d kind a b p' rest' H. unfold lex_number in H.
  destruct rest as [|x [|h rest4]]; try (apply (lex_decimal_shape c _ _ _ _ _ _ _ _ _ H)).
  destruct ((c =? 48)%Z && (x =? 120)%Z && is_hex h) eqn:Ec; [|apply (lex_decimal_shape c _ _ _ _ _ _ _ _ _ H)].
  apply andb_true_iff in Ec. destruct Ec as [Ec Hh]. apply andb_true_iff in Ec. destruct Ec as [Hc Hx].
  apply Z.eqb_eq in Hc. apply Z.eqb_eq in Hx. subst c x.
  destruct (consume U (rx_hex cfg) (pos + 2, rest4)) as [d0 o] eqn:E.
  destruct o as [[pos' rest'']| |]; [| |discriminate].
  - injection H as _ <- <- _ _ <-. split; [reflexivity|].
    destruct (consume_class_star _ hc _ _ _ _ _ Hhc E) as (hp & -> & Hhp).
    exists (120%Z :: h :: hp). split; [reflexivity|]. right. split; [reflexivity|]. right.
    split; [reflexivity|]. exists h, hp. repeat split; assumption.
  - injection H as _ <- <- _ _ <-. split; [reflexivity|].
    exists [120%Z; h]. split; [reflexivity|]. right. split; [reflexivity|]. right.
    split; [reflexivity|]. exists h, []. repeat split; [exact Hh|constructor].
Qed.

(* ---------------------------------------------------------------------------------------------- *)
(* conversion of such a text succeeds *)

Hypothesis Hasc : forall x, is_ascii_digit x = true -> o_decimal O x = true.
Hypothesis Hdcd : forall x, Regex.mem U dc x = true -> is_ascii_digit x = true.
Hypothesis Hhcx : forall x, Regex.mem U hc x = true -> is_hex x = true.

Lemma convert_num_ok : forall c kind pre, is_ascii_digit c = true -> num_shape c kind pre ->
  (Z.of_nat (length (c :: pre)) <= int_max_str_digits)%Z ->
  exists v, convert O cfg kind (c :: pre) = VOk v.
Proof.
  intros c kind pre Hc Hs Hl. unfold convert. destruct Hs as [->|[-> Hs]].
  - cbn. rewrite (Hasc c Hc). eexists. reflexivity.
  - replace (K_INT =? K_INT)%Z with true by reflexivity.
    destruct Hs as [Hd|(-> & h & hp & -> & Hh & Hhp)].
    + assert (Hall : forallb (o_decimal O) (c :: pre) = true).
      { cbn. rewrite (Hasc c Hc). cbn. apply forallb_forall. intros x Hx.
        rewrite Forall_forall in Hd. apply Hasc, Hdcd, Hd, Hx. }
      assert (Hhex : match c :: pre with
                     | a :: b :: _ => ((a =? 48) && ((b =? 120) || (b =? 88)))%Z
                     | _ => false end = false).
      { destruct pre as [|x t]; [reflexivity|].
        assert (Hx : is_ascii_digit x = true) by (rewrite Forall_forall in Hd; apply Hdcd, Hd; left; reflexivity).
        unfold is_ascii_digit in Hx. apply andb_true_iff in Hx.
        replace (x =? 120)%Z with false by (symmetry; apply Z.eqb_neq; lia).
        replace (x =? 88)%Z with false by (symmetry; apply Z.eqb_neq; lia).
        apply andb_false_r. }
      rewrite Hhex. unfold int10. rewrite Hall.
      replace (Z.of_nat (length (c :: pre)) <=? int_max_str_digits)%Z with true
        by (symmetry; apply Z.leb_le; exact Hl).
      cbn [andb]. eexists. reflexivity.
    + cbn -[int16]. unfold int16.
      assert (Hall : forallb is_hex (h :: hp) = true).
      { cbn. rewrite Hh. cbn. apply forallb_forall. intros x Hx. rewrite Forall_forall in Hhp. apply Hhcx, Hhp, Hx. }
      rewrite Hall. eexists. reflexivity.
Qed.

(* ---------------------------------------------------------------------------------------------- *)
(* the whole stream *)

Lemma skipn_suffix : forall (l s : list Z) p, is_suffix l s -> p + length l = length s -> skipn p s = l.
Proof.
  intros l s p [pre ->] H. rewrite app_length in H. assert (p = length pre) by lia. subst p.
  rewrite skipn_app, skipn_all, Nat.sub_diag. reflexivity.
Qed.

Lemma lex_all_ascii_digits : forall input,
  (forall x, In x input -> digit_test O cfg x = true -> is_ascii_digit x = true) ->
  (Z.of_nat (length input) <= int_max_str_digits)%Z ->
  forall fuel pos rest, is_suffix rest input -> pos + length rest = length input ->
  forall k, snd (snd (lex_all O cfg input fuel (pos, rest))) <> Internal k.
Proof.
  intros input Hch Hlen. induction fuel as [|f IHf]; intros pos rest Hsuf Hpos k; [cbn; discriminate|].
  cbn [lex_all].
  destruct (lex_token_split pos rest) as (p1 & rest1 & Hs1 & Hp1 & Htok).
  pose proof (lex_token_suf O cfg pos rest) as Hsf. pose proof (lex_token_cons_aux pos rest) as Hcs.
  destruct (lex_token O cfg (pos, rest)) as [d t]. cbn [snd] in *.
  destruct t as [kind a b [p' rest']|a b|]; try (cbn; discriminate).
  unfold tsuf in Hsf. cbn [snd] in Hsf.
  assert (Hconv : exists v, convert O cfg kind (firstn (b - a) (skipn a input)) = VOk v).
  { destruct Htok as [Htok|Htok]; [|discriminate].
    destruct (lex_dispatch_cases O cfg p1 rest1) as [Hk|(c & rest2 & -> & Hdt & Hnum)].
    - unfold tkind in Hk. rewrite <- Htok in Hk. destruct Hk as [Hk1 Hk2].
      exists LNone. apply convert_nonlit; assumption.
    - rewrite Hnum in Htok.
      destruct (lex_number U cfg c p1 (S p1, rest2)) as [dn tn] eqn:En. cbn [snd] in Htok. subst tn.
      destruct (lex_number_shape c p1 (S p1) rest2 dn kind a b p' rest' En) as (-> & pre & -> & Hshape).
      pose proof (lex_number_cons c p1 (S p1) (pre ++ rest')) as Hc1. rewrite En in Hc1.
      unfold tcons1 in Hc1. cbn [snd] in Hc1. destruct Hc1 as [Hc1 ->].
      assert (Hsk : skipn p1 input = c :: pre ++ rest').
      { apply skipn_suffix; [apply (is_suffix_trans _ _ _ Hs1 Hsuf)|lia]. }
      rewrite Hsk.
      assert (Hba : p' - p1 = S (length pre)).
      { cbn [length] in *. rewrite app_length in *. lia. }
      rewrite Hba. cbn [firstn]. rewrite firstn_app, firstn_all, Nat.sub_diag. cbn [firstn]. rewrite app_nil_r.
      assert (Hcin : In c input).
      { apply (is_suffix_In _ _ _ (is_suffix_trans _ _ _ Hs1 Hsuf)). left. reflexivity. }
      apply convert_num_ok; [apply Hch; assumption|exact Hshape|].
      assert (length (c :: pre) <= length input).
      { pose proof (is_suffix_len _ _ (is_suffix_trans _ _ _ Hs1 Hsuf)) as Hl.
        cbn [length] in *. rewrite app_length in Hl. lia. }
      lia. }
  destruct Hconv as (v & ->).
  destruct (kind =? K_EOF)%Z eqn:Ek; [cbn; discriminate|].
  destruct Hcs as [->|[Hcs _]]; [cbn in Ek; discriminate|].
  specialize (IHf p' rest' (is_suffix_trans _ _ _ Hsf Hsuf) ltac:(lia) k).
  destruct (lex_all O cfg input f (p', rest')) as [d' [l o]]. cbn [fst snd] in *. exact IHf.
Qed.

(* partial form of C07_lex_total for code without the repairs *)
Theorem lex_total_ascii_digits : progress_ok cfg = true -> forall s,
  (forall x, In x s -> digit_test O cfg x = true -> is_ascii_digit x = true) ->
  (Z.of_nat (length s) <= int_max_str_digits)%Z ->
  no_internal (lex_outcome O cfg s).
Proof.
  intros Hp s Hch Hlen. unfold lex_outcome, lex.
  pose proof (proj1 (lex_all_outcome O cfg Hp s (S (length s)) 0 s ltac:(lia))) as Hf.
  pose proof (lex_all_ascii_digits s Hch Hlen (S (length s)) 0 s (is_suffix_refl s) eq_refl) as Hi.
  destruct (snd (snd (lex_all O cfg s (S (length s)) (0, s)))); cbn; try exact I.
  - exact (Hi k eq_refl).
  - exact (Hf eq_refl).
Qed.

End Text.
