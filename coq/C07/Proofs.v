(* C07/Proofs.v -- theorems about the lexer model of C07/Model.v, for every configuration:
     lex_no_fuel          the fuel of `lex` always suffices (any regexes)
     lex_linear_general   rx_ok cfg  ->  lex_steps O cfg s <= Kof cfg * (length s + 1)
     lex_total_general    fx_int_guard cfg  ->  no Internal / OutOfFuel outcome
   Spec side: `no_internal` below is the statement "fails only with diagnostics" on the model's
   outcome type; the step bound is a plain inequality on `lex_steps`. *)
From Coq Require Import ZArith List Bool Arith Lia.
From XV Require Import C07.Regex C07.RegexProofs C07.Model C07.Current.
Import ListNotations.

Definition no_internal (o : outcome) : Prop :=
  match o with Done | ParseErr _ _ => True | Internal _ | OutOfFuel => False end.

Section Lex.
Variable O : oracle.
Variable cfg : config.
Notation U := (o_named O).

(* ------------------------------------------------------------------------------------------ *)
(* consume *)

Lemma consume_some : forall r pos rest d pos' rest',
  consume U r (pos, rest) = (d, CSome (pos', rest')) -> length rest' <= length rest.
Proof.
  intros r pos rest d pos' rest' H. unfold consume in H.
  destruct (bt_match U r rest) as [d0 o] eqn:E. destruct o as [sf| |]; try discriminate.
  injection H as _ _ <-. apply (bt_match_len U r rest sf). rewrite E. reflexivity.
Qed.

Lemma consume_fuel : forall r st d, consume U r st <> (d, CFuel).
Proof.
  intros r [pos rest] d H. unfold consume in H.
  destruct (bt_match U r rest) as [d0 o] eqn:E. destruct o as [sf| |]; try discriminate.
  apply (bt_match_no_fuel U r rest). rewrite E. reflexivity.
Qed.

Lemma consume_cost : forall r k p M pos rest d o,
  cost_bound r = Some (k, p) -> k <= M -> consume U r (pos, rest) = (d, o) ->
  match o with
  | CSome (_, rest') => d + M * length rest' <= M * length rest + M
  | CNone => d <= M * length rest + M /\ (p = true -> d <= M)
  | CFuel => False
  end.
Proof.
  intros r k p M pos rest d o Hc Hk H. unfold consume in H.
  destruct (bt_match U r rest) as [d0 o0] eqn:E.
  destruct (cost_bound_sound U r k p Hc rest d0 o0 E) as (Hnf & Hs & Hn).
  destruct o0 as [sf| |].
  - injection H as <- <-. destruct (Hs sf eq_refl) as [Hl Hd].
    assert (k * (length rest - length sf + 1) <= M * (length rest - length sf + 1))
      by (apply Nat.mul_le_mono_r; exact Hk).
    assert (M * (length rest - length sf + 1) + M * length sf = M * length rest + M).
    { rewrite <- Nat.mul_add_distr_l. replace (length rest - length sf + 1 + length sf) with (S (length rest)) by lia.
      rewrite Nat.mul_succ_r. reflexivity. }
    lia.
  - injection H as <- <-. destruct (Hn eq_refl) as [Hd Hp].
    assert (k * (length rest + 1) <= M * (length rest + 1)) by (apply Nat.mul_le_mono_r; exact Hk).
    rewrite Nat.mul_add_distr_l, Nat.mul_1_r in H. split; [lia|]. intro Hpt. specialize (Hp Hpt). lia.
  - congruence.
Qed.

(* ------------------------------------------------------------------------------------------ *)
(* the conditions on the configuration, unpacked *)

Definition bounded (r : regex) (M : nat) (prompt : bool) : Prop :=
  exists k p, cost_bound r = Some (k, p) /\ k <= M /\ (prompt = true -> p = true).

Lemma cb_ok_bounded : forall r M, cb_ok r = true -> cb_k r <= M -> bounded r M false.
Proof.
  intros r M Hok Hk. unfold bounded, cb_ok, cb_k in *. destruct (cost_bound r) as [[k p]|]; [|discriminate].
  exists k, p. split; [reflexivity|]. split; [exact Hk|discriminate].
Qed.
Lemma cb_prompt_bounded : forall r M, cb_prompt r = true -> cb_k r <= M -> bounded r M true.
Proof.
  intros r M Hok Hk. unfold bounded, cb_prompt, cb_k in *. destruct (cost_bound r) as [[k p]|]; [|discriminate].
  exists k, p. split; [reflexivity|]. split; [exact Hk|intros _; exact Hok].
Qed.

Record ok_cfg (M : nat) : Prop := {
  ok_ws : bounded (rx_ws cfg) M true;
  ok_bare : bounded (rx_bare_suffix cfg) M true;
  ok_suffix : bounded (rx_suffix_id cfg) M false;
  ok_string : bounded (rx_string cfg) M false;
  ok_hex : bounded (rx_hex cfg) M true;
  ok_digits : bounded (rx_digits cfg) M true;
  ok_frac : bounded (rx_frac cfg) M true
}.

Lemma rx_ok_unpack : rx_ok cfg = true -> ok_cfg (kmax cfg).
Proof.
  intro H. unfold rx_ok in H. apply andb_true_iff in H. destruct H as [H1 H2].
  apply andb_true_iff in H1. destruct H1 as [_ H1].
  unfold cost_regexes in H1. cbn [forallb] in H1, H2.
  repeat (apply andb_true_iff in H1; destruct H1 as [? H1]).
  repeat (apply andb_true_iff in H2; destruct H2 as [? H2]).
  assert (Hk : forall r, In r (cost_regexes cfg) -> cb_k r <= kmax cfg).
  { intros r Hin. unfold kmax. induction (cost_regexes cfg) as [|x l IH]; [destruct Hin|].
    cbn [map fold_right]. destruct Hin as [->|Hin]; [lia|]. specialize (IH Hin). lia. }
  unfold cost_regexes in Hk.
  constructor.
  - apply cb_prompt_bounded; [assumption|apply Hk; cbn; tauto].
  - apply cb_prompt_bounded; [assumption|apply Hk; cbn; tauto].
  - apply cb_ok_bounded; [assumption|apply Hk; cbn; tauto].
  - apply cb_ok_bounded; [assumption|apply Hk; cbn; tauto].
  - apply cb_prompt_bounded; [assumption|apply Hk; cbn; tauto].
  - apply cb_prompt_bounded; [assumption|apply Hk; cbn; tauto].
  - apply cb_prompt_bounded; [assumption|apply Hk; cbn; tauto].
Qed.

(* consume on a bounded regex, in potential form *)
Lemma consume_bounded : forall r M pr pos rest d o, bounded r M pr -> consume U r (pos, rest) = (d, o) ->
  match o with
  | CSome (_, rest') => d + M * length rest' <= M * length rest + M /\ length rest' <= length rest
  | CNone => d <= M * length rest + M /\ (pr = true -> d <= M)
  | CFuel => False
  end.
Proof.
  intros r M pr pos rest d o (k & p & Hc & Hk & Hp) H.
  pose proof (consume_cost r k p M pos rest d o Hc Hk H) as Hcost.
  destruct o as [[pos' rest']| |].
  - split; [exact Hcost|]. apply (consume_some r pos rest d pos' rest' H).
  - destruct Hcost as [Ha Hb]. split; [exact Ha|]. intro Hpr. apply Hb. apply Hp. exact Hpr.
  - exact Hcost.
Qed.

(* ------------------------------------------------------------------------------------------ *)
(* cost of one token.  tcost M c n (d, t): d is paid for by the consumed input plus c*M + e *)

Definition tcost (M c e : nat) (rest : list Z) (x : nat * tres) : Prop :=
  match snd x with
  | TOk _ _ _ (_, rest') => fst x + M * length rest' <= M * length rest + c * M + e /\ length rest' <= length rest
  | TErr _ _ => fst x <= M * length rest + c * M + e
  | TFuel => False
  end.

Variable M : nat.
Hypothesis Hok : ok_cfg M.

Lemma lex_bare_cost : forall kind start pos rest, tcost M 1 0 rest (lex_bare U cfg kind start (pos, rest)).
Proof.
  intros kind start pos rest. unfold lex_bare.
  destruct (consume U (rx_bare_suffix cfg) (pos, rest)) as [d o] eqn:E.
  pose proof (consume_bounded _ M true pos rest d o (ok_bare M Hok) E) as H.
  destruct o as [[pos' rest']| |]; unfold tcost; cbn [fst snd].
  - lia.
  - destruct H as [_ H]. specialize (H eq_refl). lia.
  - exact H.
Qed.

Lemma lex_string_cost : forall start q cur, tcost M 1 0 q (lex_string U cfg start q cur).
Proof.
  intros start q cur. unfold lex_string.
  destruct (consume U (rx_string cfg) (start, q)) as [d o] eqn:E.
  pose proof (consume_bounded _ M false start q d o (ok_string M Hok) E) as H.
  destruct o as [[pos' rest']| |]; unfold tcost; cbn [fst snd].
  - destruct ((length (firstn (pos' - start) q) =? 2) && forallb (Z.eqb 34) (firstn (pos' - start) q));
      [cbn [fst snd]; lia|].
    destruct (negb (existsb (Z.eqb 92) (firstn (pos' - start) q))); [cbn [fst snd]; lia|].
    destruct (string_kind cfg (removelast (tl (firstn (pos' - start) q)))) as [k0|]; cbn [fst snd]; lia.
  - lia.
  - exact H.
Qed.

Lemma lex_decimal_cost : forall start pos rest, tcost M 2 0 rest (lex_decimal U cfg start (pos, rest)).
Proof.
  intros start pos rest. unfold lex_decimal.
  destruct (consume U (rx_digits cfg) (pos, rest)) as [d1 o1] eqn:E1.
  pose proof (consume_bounded _ M true pos rest d1 o1 (ok_digits M Hok) E1) as H1.
  destruct o1 as [[pos2 rest2]| |].
  - destruct (consume U (rx_frac cfg) (pos2, rest2)) as [d2 o2] eqn:E2.
    pose proof (consume_bounded _ M true pos2 rest2 d2 o2 (ok_frac M Hok) E2) as H2.
    destruct o2 as [[pos3 rest3]| |]; unfold tcost; cbn [fst snd].
    + lia.
    + destruct H2 as [_ H2]. specialize (H2 eq_refl). lia.
    + exact H2.
  - destruct H1 as [_ H1]. specialize (H1 eq_refl).
    destruct (consume U (rx_frac cfg) (pos, rest)) as [d2 o2] eqn:E2.
    pose proof (consume_bounded _ M true pos rest d2 o2 (ok_frac M Hok) E2) as H2.
    destruct o2 as [[pos3 rest3]| |]; unfold tcost; cbn [fst snd].
    + lia.
    + destruct H2 as [_ H2]. specialize (H2 eq_refl). lia.
    + exact H2.
  - destruct H1.
Qed.

Lemma lex_number_cost : forall c start pos rest, tcost M 2 0 rest (lex_number U cfg c start (pos, rest)).
Proof.
  intros c start pos rest. unfold lex_number.
  destruct rest as [|x [|h rest4]]; try apply lex_decimal_cost.
  destruct ((c =? 48)%Z && (x =? 120)%Z && is_hex h); [|apply lex_decimal_cost].
  destruct (consume U (rx_hex cfg) (pos + 2, rest4)) as [d o] eqn:E.
  pose proof (consume_bounded _ M true (pos + 2) rest4 d o (ok_hex M Hok) E) as H.
  destruct o as [[pos' rest']| |]; unfold tcost; cbn [fst snd length].
  - rewrite !Nat.mul_succ_r. lia.
  - destruct H as [_ H]. specialize (H eq_refl). rewrite !Nat.mul_succ_r. lia.
  - exact H.
Qed.

(* a sub-lexer run on a suffix `sub` of rest1, plus the dispatch step *)
Lemma tcost_sub : forall c rest1 sub x,
  tcost M c 0 sub x -> M * length sub + c * M <= M * length rest1 + M -> length sub <= length rest1 ->
  tcost M 1 1 rest1 (S (fst x), snd x).
Proof.
  intros c rest1 sub [d t] Hx Hs Hls. unfold tcost in *. cbn [fst snd] in *.
  destruct t as [kind a b [pos' rest']| |]; [|lia|exact Hx].
  destruct Hx as [Hx Hlx]. split; lia.
Qed.
Lemma tcost_const_ok : forall kind a b pos' rest' rest1,
  M * length rest' + M <= M * length rest1 + M -> length rest' <= length rest1 ->
  tcost M 1 1 rest1 (1, TOk kind a b (pos', rest')).
Proof. intros. unfold tcost. cbn [fst snd]. split; lia. Qed.
Lemma tcost_const_err : forall a b rest1, tcost M 1 1 rest1 (1, TErr a b).
Proof. intros. unfold tcost. cbn [fst snd]. lia. Qed.

Lemma mul_cons : forall (x : Z) l, M * length (x :: l) = M * length l + M.
Proof. intros. cbn [length]. rewrite Nat.mul_succ_r. reflexivity. Qed.

Lemma lex_dispatch_cost : forall p1 rest1, tcost M 1 1 rest1 (lex_dispatch O cfg p1 rest1).
Proof.
  intros p1 rest1. unfold lex_dispatch.
  destruct rest1 as [|c rest2].
  { unfold tcost. cbn [fst snd length]. lia. }
  pose proof (mul_cons c rest2) as Hc.
  assert (Hl2 : length rest2 <= length (c :: rest2)) by (cbn; lia).
  cbv zeta.
  destruct (o_alpha O c || (c =? 95)%Z).
  { apply (tcost_sub 1 _ rest2); [apply lex_bare_cost|lia|exact Hl2]. }
  destruct (assoc c single_punct) as [k|].
  { cbn [fst snd]. apply tcost_const_ok; lia. }
  destruct (c =? 46)%Z.
  { destruct rest2 as [|c2 [|c3 rest4]]; cbn [fst snd]; try apply tcost_const_err.
    destruct ((c2 =? 46) && (c3 =? 46))%Z; cbn [fst snd]; [|apply tcost_const_err].
    apply tcost_const_ok; cbn [length] in *; lia. }
  destruct (c =? 45)%Z.
  { destruct rest2 as [|c2 rest3]; cbn [fst snd]; [apply tcost_const_ok; lia|].
    destruct (c2 =? 62)%Z; cbn [fst snd]; apply tcost_const_ok; cbn [length] in *; lia. }
  destruct (c =? 123)%Z.
  { destruct rest2 as [|c2 [|c3 rest4]]; cbn [fst snd]; try (apply tcost_const_ok; lia).
    destruct ((c2 =? 45) && (c3 =? 35))%Z; cbn [fst snd]; apply tcost_const_ok; cbn [length] in *; lia. }
  destruct ((c =? 35)%Z && match rest2 with c2 :: c3 :: _ => ((c2 =? 45) && (c3 =? 125))%Z | _ => false end).
  { cbn [fst snd]. apply tcost_const_ok.
    - assert (length (skipn 2 rest2) <= length rest2) by (rewrite skipn_length; lia).
      assert (M * length (skipn 2 rest2) <= M * length rest2) by (apply Nat.mul_le_mono_l; assumption). lia.
    - rewrite skipn_length. cbn [length]. lia. }
  destruct (c =? 64)%Z.
  { destruct rest2 as [|c2 rest3]; cbn [fst snd]; [apply tcost_const_err|].
    pose proof (mul_cons c2 rest3) as Hc2.
    destruct (o_alpha O c2 || (c2 =? 95)%Z).
    { apply (tcost_sub 1 _ rest3); [apply lex_bare_cost|lia|cbn [length]; lia]. }
    destruct (c2 =? 34)%Z; [|cbn [fst snd]; apply tcost_const_err].
    pose proof (lex_string_cost (S p1) (c2 :: rest3) (S (S p1))) as Hs.
    destruct (lex_string U cfg (S p1) (c2 :: rest3) (S (S p1))) as [d t]. cbn [fst snd] in *.
    destruct t as [kind a b st'|a b|]; cbn [fst snd].
    - apply (tcost_sub 1 _ (c2 :: rest3) (d, TOk K_AT p1 b st')); [exact Hs|lia|cbn [length]; lia].
    - apply (tcost_sub 1 _ (c2 :: rest3) (d, TErr a b)); [exact Hs|lia|cbn [length]; lia].
    - destruct Hs. }
  destruct ((c =? 35) || (c =? 33) || (c =? 94) || (c =? 37))%Z.
  { destruct (consume U (rx_suffix_id cfg) (S p1, rest2)) as [d o] eqn:E.
    pose proof (consume_bounded _ M false (S p1) rest2 d o (ok_suffix M Hok) E) as H.
    destruct o as [[pos' rest']| |]; unfold tcost; cbn [fst snd].
    - split; lia.
    - lia.
    - exact H. }
  destruct (c =? 34)%Z.
  { apply (tcost_sub 1 _ (c :: rest2)); [apply lex_string_cost|lia|lia]. }
  destruct (if fx_ascii_digit cfg then is_ascii_digit c else o_numeric O c).
  { apply (tcost_sub 2 _ rest2); [apply lex_number_cost|lia|exact Hl2]. }
  cbn [fst snd]. apply tcost_const_err.
Qed.

Lemma lex_token_cost : forall pos rest, tcost M 2 1 rest (lex_token O cfg (pos, rest)).
Proof.
  intros pos rest. unfold lex_token.
  destruct (consume U (rx_ws cfg) (pos, rest)) as [d0 ows] eqn:E0.
  pose proof (consume_bounded _ M true pos rest d0 ows (ok_ws M Hok) E0) as H0.
  destruct ows as [[p1 rest1]| |]; [| |destruct H0].
  - destruct H0 as [H0 Hl0]. pose proof (lex_dispatch_cost p1 rest1) as Hd.
    destruct (lex_dispatch O cfg p1 rest1) as [d t]. unfold tcost in *. cbn [fst snd] in *.
    destruct t as [kind a b [pos' rest']| |]; [|lia|exact Hd].
    destruct Hd as [Hd Hld]. split; lia.
  - destruct H0 as [_ H0]. specialize (H0 eq_refl). cbn [fst snd].
    pose proof (lex_dispatch_cost pos rest) as Hd.
    destruct (lex_dispatch O cfg pos rest) as [d t]. unfold tcost in *. cbn [fst snd] in *.
    destruct t as [kind a b [pos' rest']| |]; [|lia|exact Hd].
    destruct Hd as [Hd Hld]. split; lia.
Qed.

End Lex.

(* ------------------------------------------------------------------------------------------ *)
(* progress of one token (no condition on the regexes except that a string match is non-empty) *)

Section Progress.
Variable O : oracle.
Variable cfg : config.
Notation U := (o_named O).

(* the token leaves at most / strictly less input, and is not a fuel failure *)
Definition tlen (rest : list Z) (x : nat * tres) : Prop :=
  match snd x with TOk _ _ _ (_, rest') => length rest' <= length rest | TErr _ _ => True | TFuel => False end.
Definition tlen_strict (rest : list Z) (x : nat * tres) : Prop :=
  match snd x with TOk _ _ _ (_, rest') => length rest' < length rest | TErr _ _ => True | TFuel => False end.

Lemma lex_bare_len : forall kind start pos rest, tlen rest (lex_bare U cfg kind start (pos, rest)).
Proof.
  intros. unfold lex_bare. destruct (consume U (rx_bare_suffix cfg) (pos, rest)) as [d o] eqn:E.
  destruct o as [[pos' rest']| |]; unfold tlen; cbn [fst snd].
  - apply (consume_some O _ _ _ _ _ _ E).
  - lia.
  - exact (consume_fuel O _ _ _ E).
Qed.

Lemma starts_chr_strict : forall r s d sf, starts_chr r = true -> bt_match U r s = (d, MSome sf) ->
  length sf < length s.
Proof.
  intros r s d sf Hr H. unfold bt_match in H.
  destruct r as [|c|a b|a b|a|]; try discriminate.
  - destruct s as [|x t]; [rewrite chr_nil in H; discriminate|].
    destruct (Regex.mem U c x) eqn:Em.
    + rewrite (chr_hit U c x t accept 0 (MSome t) Em eq_refl) in H. injection H as _ <-. cbn. lia.
    + rewrite (chr_miss U c x t accept Em) in H. discriminate.
  - destruct a as [|c|a1 a2|a1 a2|a1|]; try discriminate.
    change (bt U (Cat (Chr c) b) s accept) with (bt U (Chr c) s (fun s' => bt U b s' accept)) in H.
    destruct s as [|x t]; [rewrite chr_nil in H; discriminate|].
    destruct (Regex.mem U c x) eqn:Em.
    + rewrite (chr_hit U c x t _ _ _ Em (pair_eta _)) in H. injection H as _ H.
      pose proof (bt_match_len U b t sf H). cbn. lia.
    + rewrite (chr_miss U c x t _ Em) in H. discriminate.
Qed.

Lemma lex_string_len : forall start q cur, progress_ok cfg = true ->
  tlen_strict q (lex_string U cfg start q cur).
Proof.
  intros start q cur Hp. unfold lex_string.
  destruct (consume U (rx_string cfg) (start, q)) as [d o] eqn:E.
  destruct o as [[stop sf]| |]; unfold tlen_strict; cbn [fst snd]; [|exact I|exact (consume_fuel O _ _ _ E)].
  assert (Hl : length sf < length q).
  { unfold consume in E. destruct (bt_match U (rx_string cfg) q) as [d0 o0] eqn:Eb.
    destruct o0 as [sf0| |]; try discriminate. injection E as _ _ <-.
    apply (starts_chr_strict _ _ _ _ Hp Eb). }
  destruct ((length (firstn (stop - start) q) =? 2) && forallb (Z.eqb 34) (firstn (stop - start) q));
    [cbn; exact Hl|].
  destruct (negb (existsb (Z.eqb 92) (firstn (stop - start) q))); [cbn; exact Hl|].
  destruct (string_kind cfg (removelast (tl (firstn (stop - start) q)))) as [k0|]; cbn; try exact Hl; exact I.
Qed.

Lemma lex_decimal_len : forall start pos rest, tlen rest (lex_decimal U cfg start (pos, rest)).
Proof.
  intros. unfold lex_decimal.
  destruct (consume U (rx_digits cfg) (pos, rest)) as [d1 o1] eqn:E1.
  destruct o1 as [[pos2 rest2]| |]; [| |exact (consume_fuel O _ _ _ E1)].
  - pose proof (consume_some O _ _ _ _ _ _ E1) as H1.
    destruct (consume U (rx_frac cfg) (pos2, rest2)) as [d2 o2] eqn:E2.
    destruct o2 as [[pos3 rest3]| |]; unfold tlen; cbn [fst snd].
    + pose proof (consume_some O _ _ _ _ _ _ E2). lia.
    + lia.
    + exact (consume_fuel O _ _ _ E2).
  - destruct (consume U (rx_frac cfg) (pos, rest)) as [d2 o2] eqn:E2.
    destruct o2 as [[pos3 rest3]| |]; unfold tlen; cbn [fst snd].
    + apply (consume_some O _ _ _ _ _ _ E2).
    + lia.
    + exact (consume_fuel O _ _ _ E2).
Qed.

Lemma lex_number_len : forall c start pos rest, tlen rest (lex_number U cfg c start (pos, rest)).
Proof.
  intros c start pos rest. unfold lex_number.
  destruct rest as [|x [|h rest4]]; try apply lex_decimal_len.
  destruct ((c =? 48)%Z && (x =? 120)%Z && is_hex h); [|apply lex_decimal_len].
  destruct (consume U (rx_hex cfg) (pos + 2, rest4)) as [d o] eqn:E.
  destruct o as [[pos' rest']| |]; unfold tlen; cbn [fst snd length].
  - pose proof (consume_some O _ _ _ _ _ _ E). lia.
  - lia.
  - exact (consume_fuel O _ _ _ E).
Qed.

Lemma tlen_S : forall rest1 sub x, tlen sub x -> length sub < length rest1 ->
  tlen_strict rest1 (S (fst x), snd x).
Proof.
  intros rest1 sub [d t] H Hl. unfold tlen, tlen_strict in *. cbn [fst snd] in *.
  destruct t as [k a b [p r]| |]; try exact H. lia.
Qed.

Lemma lex_dispatch_strict : progress_ok cfg = true -> forall p1 c rest2,
  tlen_strict (c :: rest2) (lex_dispatch O cfg p1 (c :: rest2)).
Proof.
  intros Hp p1 c rest2. unfold lex_dispatch. cbv zeta.
  assert (Hl2 : length rest2 < length (c :: rest2)) by (cbn; lia).
  destruct (o_alpha O c || (c =? 95)%Z); [apply (tlen_S _ rest2); [apply lex_bare_len|exact Hl2]|].
  destruct (assoc c single_punct) as [k|]; [unfold tlen_strict; cbn; lia|].
  destruct (c =? 46)%Z.
  { destruct rest2 as [|c2 [|c3 rest4]]; try (unfold tlen_strict; cbn; exact I).
    destruct ((c2 =? 46) && (c3 =? 46))%Z; unfold tlen_strict; cbn; [lia|exact I]. }
  destruct (c =? 45)%Z.
  { destruct rest2 as [|c2 rest3]; [unfold tlen_strict; cbn; lia|].
    destruct (c2 =? 62)%Z; unfold tlen_strict; cbn; lia. }
  destruct (c =? 123)%Z.
  { destruct rest2 as [|c2 [|c3 rest4]]; try (unfold tlen_strict; cbn; lia).
    destruct ((c2 =? 45) && (c3 =? 35))%Z; unfold tlen_strict; cbn; lia. }
  destruct ((c =? 35)%Z && match rest2 with c2 :: c3 :: _ => ((c2 =? 45) && (c3 =? 125))%Z | _ => false end).
  { unfold tlen_strict. cbn [fst snd]. rewrite skipn_length. cbn [length]. lia. }
  destruct (c =? 64)%Z.
  { destruct rest2 as [|c2 rest3]; [unfold tlen_strict; cbn; exact I|].
    destruct (o_alpha O c2 || (c2 =? 95)%Z).
    { apply (tlen_S _ rest3); [apply lex_bare_len|cbn; lia]. }
    destruct (c2 =? 34)%Z; [|unfold tlen_strict; cbn; exact I].
    pose proof (lex_string_len (S p1) (c2 :: rest3) (S (S p1)) Hp) as Hs.
    destruct (lex_string U cfg (S p1) (c2 :: rest3) (S (S p1))) as [d0 t].
    unfold tlen_strict in *. cbn [fst snd] in *.
    destruct t as [k0 a0 b0 [p0 r0]|a0 b0|]; cbn [fst snd]; try exact Hs. cbn [length] in *. lia. }
  destruct ((c =? 35) || (c =? 33) || (c =? 94) || (c =? 37))%Z.
  { destruct (consume U (rx_suffix_id cfg) (S p1, rest2)) as [d0 o] eqn:E.
    destruct o as [[p0 r0]| |]; unfold tlen_strict; cbn [fst snd].
    - pose proof (consume_some O _ _ _ _ _ _ E). cbn [length]. lia.
    - exact I.
    - exact (consume_fuel O _ _ _ E). }
  destruct (c =? 34)%Z.
  { pose proof (lex_string_len p1 (c :: rest2) (S p1) Hp) as Hs.
    destruct (lex_string U cfg p1 (c :: rest2) (S p1)) as [d0 t].
    unfold tlen_strict in *. cbn [fst snd] in *. exact Hs. }
  destruct (if fx_ascii_digit cfg then is_ascii_digit c else o_numeric O c).
  { apply (tlen_S _ rest2); [apply lex_number_len|exact Hl2]. }
  unfold tlen_strict. cbn. exact I.
Qed.

(* a token other than EOF consumes at least one code point; no token is a fuel failure *)
Lemma lex_token_progress : progress_ok cfg = true -> forall pos rest,
  match snd (lex_token O cfg (pos, rest)) with
  | TOk kind _ _ (_, rest') => kind = K_EOF \/ length rest' < length rest
  | TErr _ _ => True
  | TFuel => False
  end.
Proof.
  intros Hp pos rest. unfold lex_token.
  assert (Hd : forall p1 rest1, length rest1 <= length rest ->
     match snd (lex_dispatch O cfg p1 rest1) with
     | TOk kind _ _ (_, rest') => kind = K_EOF \/ length rest' < length rest
     | TErr _ _ => True
     | TFuel => False
     end).
  { intros p1 rest1 Hl. destruct rest1 as [|c rest2]; [cbn; left; reflexivity|].
    pose proof (lex_dispatch_strict Hp p1 c rest2) as Hs. unfold tlen_strict in Hs.
    destruct (snd (lex_dispatch O cfg p1 (c :: rest2))) as [k a b [p r]| |]; try exact Hs. right. lia. }
  destruct (consume U (rx_ws cfg) (pos, rest)) as [d0 ows] eqn:E0.
  destruct ows as [[p1 rest1]| |]; cbn [fst snd].
  - apply Hd. apply (consume_some O _ _ _ _ _ _ E0).
  - apply Hd. lia.
  - exact (consume_fuel O _ _ _ E0).
Qed.

End Progress.

(* ------------------------------------------------------------------------------------------ *)
(* the whole token stream *)

Section Whole.
Variable O : oracle.
Variable cfg : config.

Lemma convert_guard : fx_int_guard cfg = true -> forall kind text k, convert O cfg kind text <> VInternal k.
Proof.
  intros Hg kind text k. unfold convert, fail_conv. rewrite Hg.
  destruct (kind =? K_INT)%Z.
  - destruct (if match text with a :: b :: _ => ((a =? 48) && ((b =? 120) || (b =? 88)))%Z | _ => false end
              then int16 text else int10 O text); discriminate.
  - destruct (kind =? K_FLOAT)%Z; [|discriminate].
    destruct text as [|c t]; [discriminate|]. destruct (o_decimal O c); discriminate.
Qed.

Lemma lex_all_outcome : progress_ok cfg = true -> forall input fuel pos rest, length rest < fuel ->
  snd (snd (lex_all O cfg input fuel (pos, rest))) <> OutOfFuel /\
  (fx_int_guard cfg = true -> forall k, snd (snd (lex_all O cfg input fuel (pos, rest))) <> Internal k).
Proof.
  intros Hp input. induction fuel as [|f IHf]; intros pos rest Hlt; [lia|].
  cbn [lex_all]. pose proof (lex_token_progress O cfg Hp pos rest) as Hpr.
  destruct (lex_token O cfg (pos, rest)) as [d t]. cbn [snd] in Hpr.
  destruct t as [kind a b [pos' rest']|a b|]; [|cbn; split; [discriminate|intros _ k; discriminate]|destruct Hpr].
  destruct (convert O cfg kind (firstn (b - a) (skipn a input))) as [v| |k0] eqn:Ec.
  - destruct (kind =? K_EOF)%Z eqn:Ek; [cbn; split; [discriminate|intros _ k; discriminate]|].
    destruct Hpr as [->|Hl]; [cbn in Ek; discriminate|].
    specialize (IHf pos' rest' ltac:(lia)).
    destruct (lex_all O cfg input f (pos', rest')) as [d' [l o]]. cbn [fst snd] in *. exact IHf.
  - cbn. split; [discriminate|intros _ k; discriminate].
  - cbn. split; [discriminate|]. intros Hg k. exfalso. exact (convert_guard Hg _ _ _ Ec).
Qed.

Lemma lex_all_cost : forall M, ok_cfg cfg M -> progress_ok cfg = true ->
  forall input fuel pos rest, length rest < fuel ->
  fst (lex_all O cfg input fuel (pos, rest)) <= M * length rest + (2 * M + 1) * (length rest + 1).
Proof.
  intros M Hok Hp input. induction fuel as [|f IHf]; intros pos rest Hlt; [lia|].
  cbn [lex_all]. pose proof (lex_token_progress O cfg Hp pos rest) as Hpr.
  pose proof (lex_token_cost O cfg M Hok pos rest) as Hc. unfold tcost in Hc.
  destruct (lex_token O cfg (pos, rest)) as [d t]. cbn [fst snd] in Hpr, Hc.
  assert (Hb : 2 * M + 1 <= (2 * M + 1) * (length rest + 1))
    by (rewrite <- (Nat.mul_1_r (2 * M + 1)) at 1; apply Nat.mul_le_mono_l; lia).
  destruct t as [kind a b [pos' rest']|a b|]; [|cbn [fst]; lia|destruct Hpr].
  destruct Hc as [Hc Hl].
  assert (Hm : M * length rest' <= M * length rest) by (apply Nat.mul_le_mono_l; exact Hl).
  destruct (convert O cfg kind (firstn (b - a) (skipn a input))) as [v| |k0]; try (cbn [fst]; lia).
  destruct (kind =? K_EOF)%Z eqn:Ek; [cbn [fst]; lia|].
  destruct Hpr as [->|Hl']; [cbn in Ek; discriminate|].
  specialize (IHf pos' rest' ltac:(lia)).
  destruct (lex_all O cfg input f (pos', rest')) as [d' [l o]]. cbn [fst snd] in *.
  assert ((2 * M + 1) * (length rest' + 1) + (2 * M + 1) <= (2 * M + 1) * (length rest + 1)).
  { rewrite <- Nat.mul_succ_r. apply Nat.mul_le_mono_l. lia. }
  lia.
Qed.

(* C07_lex_linear for any configuration accepted by the analyser *)
Theorem lex_linear_general : rx_ok cfg = true ->
  forall s, lex_steps O cfg s <= Kof cfg * (length s + 1).
Proof.
  intros Hrx s. unfold lex_steps, lex.
  pose proof (rx_ok_unpack cfg Hrx) as Hok.
  assert (Hp : progress_ok cfg = true).
  { unfold rx_ok in Hrx. apply andb_true_iff in Hrx. destruct Hrx as [Hrx _].
    apply andb_true_iff in Hrx. tauto. }
  pose proof (lex_all_cost (kmax cfg) Hok Hp s (S (length s)) 0 s ltac:(lia)) as H.
  unfold Kof.
  assert (kmax cfg * length s <= kmax cfg * (length s + 1)) by (apply Nat.mul_le_mono_l; lia).
  replace ((4 * kmax cfg + 1) * (length s + 1))
    with (kmax cfg * (length s + 1) + (2 * kmax cfg + 1) * (length s + 1) + kmax cfg * (length s + 1)) by lia.
  lia.
Qed.

(* the fuel of `lex` suffices *)
Theorem lex_no_fuel : progress_ok cfg = true -> forall s, lex_outcome O cfg s <> OutOfFuel.
Proof.
  intros Hp s. unfold lex_outcome, lex.
  apply (lex_all_outcome Hp s (S (length s)) 0 s ltac:(lia)).
Qed.

(* C07_lex_total for any configuration whose literal conversion is guarded *)
Theorem lex_total_general : progress_ok cfg = true -> fx_int_guard cfg = true ->
  forall s, no_internal (lex_outcome O cfg s).
Proof.
  intros Hp Hg s. unfold lex_outcome, lex.
  destruct (lex_all_outcome Hp s (S (length s)) 0 s ltac:(lia)) as [Hf Hi].
  specialize (Hi Hg).
  destruct (snd (snd (lex_all O cfg s (S (length s)) (0, s)))); cbn; try exact I.
  - exact (Hi k eq_refl).
  - exact (Hf eq_refl).
Qed.

End Whole.

(* ------------------------------------------------------------------------------------------ *)
(* what a token leaves is a suffix of what it was given; consequences for restricted inputs *)

Section Suffix.
Variable O : oracle.
Variable cfg : config.
Notation U := (o_named O).

Definition tsuf (rest : list Z) (x : nat * tres) : Prop :=
  match snd x with TOk _ _ _ (_, rest') => is_suffix rest' rest | _ => True end.

Lemma consume_suffix : forall r pos rest d pos' rest',
  consume U r (pos, rest) = (d, CSome (pos', rest')) -> is_suffix rest' rest.
Proof.
  intros r pos rest d pos' rest' H. unfold consume in H.
  destruct (bt_match U r rest) as [d0 o] eqn:E. destruct o as [sf| |]; try discriminate.
  injection H as _ _ <-. apply (bt_match_suffix U r rest sf). rewrite E. reflexivity.
Qed.

Lemma lex_bare_suf : forall kind start pos rest, tsuf rest (lex_bare U cfg kind start (pos, rest)).
Proof.
  intros. unfold lex_bare. destruct (consume U (rx_bare_suffix cfg) (pos, rest)) as [d o] eqn:E.
  destruct o as [[pos' rest']| |]; unfold tsuf; cbn [fst snd]; try exact I.
  - apply (consume_suffix _ _ _ _ _ _ E).
  - apply is_suffix_refl.
Qed.

Lemma lex_string_suf : forall start q cur, tsuf q (lex_string U cfg start q cur).
Proof.
  intros start q cur. unfold lex_string.
  destruct (consume U (rx_string cfg) (start, q)) as [d o] eqn:E.
  destruct o as [[stop sf]| |]; unfold tsuf; cbn [fst snd]; try exact I.
  pose proof (consume_suffix _ _ _ _ _ _ E) as Hs.
  destruct ((length (firstn (stop - start) q) =? 2) && forallb (Z.eqb 34) (firstn (stop - start) q));
    [cbn; exact Hs|].
  destruct (negb (existsb (Z.eqb 92) (firstn (stop - start) q))); [cbn; exact Hs|].
  destruct (string_kind cfg (removelast (tl (firstn (stop - start) q)))) as [k0|]; cbn; try exact Hs; exact I.
Qed.

Lemma lex_decimal_suf : forall start pos rest, tsuf rest (lex_decimal U cfg start (pos, rest)).
Proof.
  intros. unfold lex_decimal.
  destruct (consume U (rx_digits cfg) (pos, rest)) as [d1 o1] eqn:E1.
  destruct o1 as [[pos2 rest2]| |]; [| |unfold tsuf; cbn; exact I].
  - pose proof (consume_suffix _ _ _ _ _ _ E1) as H1.
    destruct (consume U (rx_frac cfg) (pos2, rest2)) as [d2 o2] eqn:E2.
    destruct o2 as [[pos3 rest3]| |]; unfold tsuf; cbn [fst snd]; try exact I; try exact H1.
    apply (is_suffix_trans _ _ _ (consume_suffix _ _ _ _ _ _ E2) H1).
  - destruct (consume U (rx_frac cfg) (pos, rest)) as [d2 o2] eqn:E2.
    destruct o2 as [[pos3 rest3]| |]; unfold tsuf; cbn [fst snd]; try exact I.
    + apply (consume_suffix _ _ _ _ _ _ E2).
    + apply is_suffix_refl.
Qed.

Lemma lex_number_suf : forall c start pos rest, tsuf rest (lex_number U cfg c start (pos, rest)).
Proof.
  intros c start pos rest. unfold lex_number.
  destruct rest as [|x [|h rest4]]; try apply lex_decimal_suf.
  destruct ((c =? 48)%Z && (x =? 120)%Z && is_hex h); [|apply lex_decimal_suf].
  destruct (consume U (rx_hex cfg) (pos + 2, rest4)) as [d o] eqn:E.
  destruct o as [[pos' rest']| |]; unfold tsuf; cbn [fst snd]; try exact I.
  - apply is_suffix_cons, is_suffix_cons. apply (consume_suffix _ _ _ _ _ _ E).
  - exists [x; h]. reflexivity.
Qed.

Lemma tsuf_S : forall rest1 sub x, tsuf sub x -> is_suffix sub rest1 -> tsuf rest1 (S (fst x), snd x).
Proof.
  intros rest1 sub [d t] H Hl. unfold tsuf in *. cbn [fst snd] in *.
  destruct t as [k a b [p r]| |]; try exact I. apply (is_suffix_trans _ _ _ H Hl).
Qed.

Lemma lex_dispatch_suf : forall p1 rest1, tsuf rest1 (lex_dispatch O cfg p1 rest1).
Proof.
  intros p1 rest1. unfold lex_dispatch. destruct rest1 as [|c rest2]; [unfold tsuf; cbn; apply is_suffix_refl|].
  cbv zeta.
  assert (Hl2 : is_suffix rest2 (c :: rest2)) by (exists [c]; reflexivity).
  destruct (o_alpha O c || (c =? 95)%Z); [apply (tsuf_S _ rest2); [apply lex_bare_suf|exact Hl2]|].
  destruct (assoc c single_punct) as [k|]; [unfold tsuf; cbn; exact Hl2|].
  destruct (c =? 46)%Z.
  { destruct rest2 as [|c2 [|c3 rest4]]; try (unfold tsuf; cbn; exact I).
    destruct ((c2 =? 46) && (c3 =? 46))%Z; unfold tsuf; cbn; [exists [c; c2; c3]; reflexivity|exact I]. }
  destruct (c =? 45)%Z.
  { destruct rest2 as [|c2 rest3]; [unfold tsuf; cbn; exact Hl2|].
    destruct (c2 =? 62)%Z; unfold tsuf; cbn; [exists [c; c2]; reflexivity|exact Hl2]. }
  destruct (c =? 123)%Z.
  { destruct rest2 as [|c2 [|c3 rest4]]; try (unfold tsuf; cbn; exact Hl2).
    destruct ((c2 =? 45) && (c3 =? 35))%Z; unfold tsuf; cbn; [exists [c; c2; c3]; reflexivity|exact Hl2]. }
  destruct ((c =? 35)%Z && match rest2 with c2 :: c3 :: _ => ((c2 =? 45) && (c3 =? 125))%Z | _ => false end).
  { unfold tsuf. cbn [fst snd]. exists (c :: firstn 2 rest2). cbn [app]. rewrite firstn_skipn. reflexivity. }
  destruct (c =? 64)%Z.
  { destruct rest2 as [|c2 rest3]; [unfold tsuf; cbn; exact I|].
    destruct (o_alpha O c2 || (c2 =? 95)%Z).
    { apply (tsuf_S _ rest3); [apply lex_bare_suf|exists [c; c2]; reflexivity]. }
    destruct (c2 =? 34)%Z; [|unfold tsuf; cbn; exact I].
    pose proof (lex_string_suf (S p1) (c2 :: rest3) (S (S p1))) as Hs.
    destruct (lex_string U cfg (S p1) (c2 :: rest3) (S (S p1))) as [d0 t].
    unfold tsuf in *. cbn [fst snd] in *.
    destruct t as [k0 a0 b0 [p0 r0]|a0 b0|]; cbn [fst snd]; try exact I.
    apply (is_suffix_trans _ _ _ Hs Hl2). }
  destruct ((c =? 35) || (c =? 33) || (c =? 94) || (c =? 37))%Z.
  { destruct (consume U (rx_suffix_id cfg) (S p1, rest2)) as [d0 o] eqn:E.
    destruct o as [[p0 r0]| |]; unfold tsuf; cbn [fst snd]; try exact I.
    apply (is_suffix_trans _ _ _ (consume_suffix _ _ _ _ _ _ E) Hl2). }
  destruct (c =? 34)%Z.
  { pose proof (lex_string_suf p1 (c :: rest2) (S p1)) as Hs.
    destruct (lex_string U cfg p1 (c :: rest2) (S p1)) as [d0 t].
    unfold tsuf in *. cbn [fst snd] in *. exact Hs. }
  destruct (if fx_ascii_digit cfg then is_ascii_digit c else o_numeric O c).
  { apply (tsuf_S _ rest2); [apply lex_number_suf|exact Hl2]. }
  unfold tsuf. cbn. exact I.
Qed.

Lemma ws_suffix : forall pos rest d p1 rest1,
  consume U (rx_ws cfg) (pos, rest) = (d, CSome (p1, rest1)) -> is_suffix rest1 rest.
Proof. intros. eapply consume_suffix; eassumption. Qed.

Lemma lex_token_suf : forall pos rest, tsuf rest (lex_token O cfg (pos, rest)).
Proof.
  intros pos rest. unfold lex_token.
  destruct (consume U (rx_ws cfg) (pos, rest)) as [d0 ows] eqn:E0.
  destruct ows as [[p1 rest1]| |]; [| |unfold tsuf; cbn; exact I].
  - pose proof (lex_dispatch_suf p1 rest1) as Hd. pose proof (consume_suffix _ _ _ _ _ _ E0) as H0.
    destruct (lex_dispatch O cfg p1 rest1) as [d t]. unfold tsuf in *. cbn [fst snd] in *.
    destruct t as [k a b [p r]| |]; try exact I. apply (is_suffix_trans _ _ _ Hd H0).
  - cbn [fst snd]. pose proof (lex_dispatch_suf pos rest) as Hd.
    destruct (lex_dispatch O cfg pos rest) as [d t]. unfold tsuf in *. cbn [fst snd] in *. exact Hd.
Qed.

(* ---- inputs without a double quote never use the string-literal pattern ---- *)

Definition set_string (r : regex) : config :=
  Config (rx_ws cfg) (rx_bare_suffix cfg) (rx_suffix_id cfg) r (rx_hex cfg) (rx_digits cfg) (rx_frac cfg)
         (rx_name cfg) (rx_name_suffix cfg)
         (fx_ascii_digit cfg) (fx_int_guard cfg) (fx_label_validate cfg) (fx_label_redef cfg) (fx_utf8_kind cfg).

Definition quote_free (l : list Z) : Prop := forall c, In c l -> c <> 34%Z.

Lemma lex_dispatch_nostring : forall r p1 rest1, quote_free rest1 ->
  lex_dispatch O (set_string r) p1 rest1 = lex_dispatch O cfg p1 rest1.
Proof.
  intros r p1 rest1 Hq. destruct rest1 as [|c rest2]; [reflexivity|].
  assert (Hc : (c =? 34)%Z = false) by (apply Z.eqb_neq; apply Hq; left; reflexivity).
  unfold lex_dispatch, lex_bare, lex_number, lex_decimal.
  cbn [set_string rx_ws rx_bare_suffix rx_suffix_id rx_hex rx_digits rx_frac fx_ascii_digit].
  rewrite Hc. destruct rest2 as [|c2 rest3]; [reflexivity|].
  assert (Hc2 : (c2 =? 34)%Z = false) by (apply Z.eqb_neq; apply Hq; right; left; reflexivity).
  rewrite Hc2. reflexivity.
Qed.

Lemma quote_free_suffix : forall l s, is_suffix l s -> quote_free s -> quote_free l.
Proof. intros l s Hs Hq c Hin. apply Hq. apply (is_suffix_In _ _ _ Hs Hin). Qed.

Lemma lex_token_nostring : forall r pos rest, quote_free rest ->
  lex_token O (set_string r) (pos, rest) = lex_token O cfg (pos, rest).
Proof.
  intros r pos rest Hq. unfold lex_token. cbn [set_string rx_ws].
  destruct (consume U (rx_ws cfg) (pos, rest)) as [d0 ows] eqn:E0.
  destruct ows as [[p1 rest1]| |]; [| |reflexivity].
  - rewrite lex_dispatch_nostring; [reflexivity|].
    apply (quote_free_suffix _ _ (consume_suffix _ _ _ _ _ _ E0) Hq).
  - cbn [fst snd]. rewrite lex_dispatch_nostring; [reflexivity|exact Hq].
Qed.

Lemma lex_all_nostring : forall r input fuel pos rest, quote_free rest ->
  lex_all O (set_string r) input fuel (pos, rest) = lex_all O cfg input fuel (pos, rest).
Proof.
  intros r input. induction fuel as [|f IHf]; intros pos rest Hq; [reflexivity|].
  cbn [lex_all]. rewrite (lex_token_nostring r pos rest Hq).
  pose proof (lex_token_suf pos rest) as Hs.
  destruct (lex_token O cfg (pos, rest)) as [d t]. unfold tsuf in Hs. cbn [snd] in Hs.
  destruct t as [kind a b [pos' rest']|a b|]; try reflexivity.
  change (convert O (set_string r) kind (firstn (b - a) (skipn a input)))
    with (convert O cfg kind (firstn (b - a) (skipn a input))).
  destruct (convert O cfg kind (firstn (b - a) (skipn a input))); try reflexivity.
  destruct (kind =? K_EOF)%Z; [reflexivity|].
  rewrite (IHf pos' rest' (quote_free_suffix _ _ Hs Hq)). reflexivity.
Qed.

(* ---- inputs none of whose code points passes the lexer's digit test have no numeric literal ---- *)

Definition digit_test (c : Z) : bool := if fx_ascii_digit cfg then is_ascii_digit c else o_numeric O c.
Definition digit_free (l : list Z) : Prop := forall c, In c l -> digit_test c = false.

Definition tkind (x : nat * tres) : Prop :=
  match snd x with TOk k _ _ _ => k <> K_INT /\ k <> K_FLOAT | _ => True end.

Lemma assoc_kind : forall c k, assoc c single_punct = Some k -> k <> K_INT /\ k <> K_FLOAT.
Proof.
  intros c k. unfold single_punct, K_INT, K_FLOAT. cbn [assoc].
  repeat (match goal with |- context [if ?x then _ else _] => destruct x end;
          [intro H; injection H as <-; split; discriminate|]).
  discriminate.
Qed.

(* a token is not a numeric literal unless it comes from the number branch *)
Lemma lex_dispatch_cases : forall p1 rest1,
  tkind (lex_dispatch O cfg p1 rest1) \/
  (exists c rest2, rest1 = c :: rest2 /\ digit_test c = true /\
     snd (lex_dispatch O cfg p1 rest1) = snd (lex_number U cfg c p1 (S p1, rest2))).
Proof.
  intros p1 rest1. unfold lex_dispatch. destruct rest1 as [|c rest2]; [left; unfold tkind; cbn; split; discriminate|].
  cbv zeta.
  assert (Hbare : forall k s st, k <> K_INT /\ k <> K_FLOAT -> tkind (S (fst (lex_bare U cfg k s st)), snd (lex_bare U cfg k s st))).
  { intros k s st Hk. unfold lex_bare. destruct (consume U (rx_bare_suffix cfg) st) as [d o].
    destruct o; unfold tkind; cbn; try exact I; exact Hk. }
  assert (Hstr : forall s q cur, match snd (lex_string U cfg s q cur) with
                                  | TOk k _ _ _ => k = K_STR \/ k = K_BYTES | _ => True end).
  { intros s q cur. unfold lex_string. destruct (consume U (rx_string cfg) (s, q)) as [d o].
    destruct o as [[stop sf]| |]; cbn; try exact I.
    repeat match goal with |- context [if ?x then _ else _] => destruct x end; cbn; try (left; reflexivity).
    unfold string_kind. destruct (fx_utf8_kind cfg).
    - destruct (bytes_of _) as [bs|]; cbn; [|exact I]. destruct (utf8_valid bs); [left|right]; reflexivity.
    - destruct (bytes_ascii _) as [[|]|]; cbn; try exact I; [left|right]; reflexivity. }
  destruct (o_alpha O c || (c =? 95)%Z); [left; apply Hbare; split; discriminate|].
  destruct (assoc c single_punct) as [k|] eqn:Ea; [left; unfold tkind; cbn; apply (assoc_kind c k Ea)|].
  destruct (c =? 46)%Z.
  { left. destruct rest2 as [|c2 [|c3 rest4]]; try (unfold tkind; cbn; exact I).
    destruct ((c2 =? 46) && (c3 =? 46))%Z; unfold tkind; cbn; [split; discriminate|exact I]. }
  destruct (c =? 45)%Z.
  { left. destruct rest2 as [|c2 rest3]; [unfold tkind; cbn; split; discriminate|].
    destruct (c2 =? 62)%Z; unfold tkind; cbn; split; discriminate. }
  destruct (c =? 123)%Z.
  { left. destruct rest2 as [|c2 [|c3 rest4]]; try (unfold tkind; cbn; split; discriminate).
    destruct ((c2 =? 45) && (c3 =? 35))%Z; unfold tkind; cbn; split; discriminate. }
  destruct ((c =? 35)%Z && match rest2 with c2 :: c3 :: _ => ((c2 =? 45) && (c3 =? 125))%Z | _ => false end).
  { left. unfold tkind. cbn. split; discriminate. }
  destruct (c =? 64)%Z.
  { left. destruct rest2 as [|c2 rest3]; [unfold tkind; cbn; exact I|].
    destruct (o_alpha O c2 || (c2 =? 95)%Z); [apply Hbare; split; discriminate|].
    destruct (c2 =? 34)%Z; [|unfold tkind; cbn; exact I].
    destruct (lex_string U cfg (S p1) (c2 :: rest3) (S (S p1))) as [d0 t].
    destruct t as [k0 a0 b0 st0|a0 b0|]; unfold tkind; cbn; try exact I. split; discriminate. }
  destruct ((c =? 35) || (c =? 33) || (c =? 94) || (c =? 37))%Z.
  { left. destruct (consume U (rx_suffix_id cfg) (S p1, rest2)) as [d0 o].
    destruct o as [[p0 r0]| |]; unfold tkind; cbn; try exact I.
    destruct (c =? 35)%Z; [split; discriminate|]. destruct (c =? 33)%Z; [split; discriminate|].
    destruct (c =? 94)%Z; split; discriminate. }
  destruct (c =? 34)%Z.
  { left. pose proof (Hstr p1 (c :: rest2) (S p1)) as Hs.
    destruct (lex_string U cfg p1 (c :: rest2) (S p1)) as [d0 t]. cbn [snd] in Hs.
    destruct t as [k0 a0 b0 st0|a0 b0|]; unfold tkind; cbn; try exact I.
    destruct Hs as [->| ->]; split; discriminate. }
  fold (digit_test c). destruct (digit_test c) eqn:Ed.
  - right. exists c, rest2. split; [reflexivity|]. split; [exact Ed|]. reflexivity.
  - left. unfold tkind. cbn. exact I.
Qed.

Lemma lex_dispatch_kind : forall p1 rest1,
  match rest1 with c :: _ => digit_test c = false | [] => True end ->
  tkind (lex_dispatch O cfg p1 rest1).
Proof.
  intros p1 rest1 Hd. destruct (lex_dispatch_cases p1 rest1) as [H|(c & rest2 & -> & Hc & _)]; [exact H|].
  rewrite Hd in Hc. discriminate.
Qed.

Lemma lex_token_kind : forall pos rest, digit_free rest -> tkind (lex_token O cfg (pos, rest)).
Proof.
  intros pos rest Hdf. unfold lex_token.
  destruct (consume U (rx_ws cfg) (pos, rest)) as [d0 ows] eqn:E0.
  assert (Hh : forall l, is_suffix l rest -> match l with c :: _ => digit_test c = false | [] => True end).
  { intros l Hs. destruct l as [|c t]; [exact I|]. apply Hdf. apply (is_suffix_In _ _ _ Hs). left. reflexivity. }
  destruct ows as [[p1 rest1]| |]; [| |unfold tkind; cbn; exact I].
  - pose proof (lex_dispatch_kind p1 rest1 (Hh _ (consume_suffix _ _ _ _ _ _ E0))) as Hk.
    destruct (lex_dispatch O cfg p1 rest1) as [d t]. unfold tkind in *. cbn [fst snd] in *. exact Hk.
  - cbn [fst snd]. pose proof (lex_dispatch_kind pos rest (Hh _ (is_suffix_refl _))) as Hk.
    destruct (lex_dispatch O cfg pos rest) as [d t]. unfold tkind in *. cbn [fst snd] in *. exact Hk.
Qed.

Lemma convert_nonlit : forall kind text, kind <> K_INT -> kind <> K_FLOAT -> convert O cfg kind text = VOk LNone.
Proof.
  intros kind text H1 H2. unfold convert.
  apply Z.eqb_neq in H1. apply Z.eqb_neq in H2. rewrite H1, H2. reflexivity.
Qed.

Lemma lex_all_digit_free : forall input fuel pos rest, digit_free rest ->
  forall k, snd (snd (lex_all O cfg input fuel (pos, rest))) <> Internal k.
Proof.
  intros input. induction fuel as [|f IHf]; intros pos rest Hdf k; [cbn; discriminate|].
  cbn [lex_all]. pose proof (lex_token_kind pos rest Hdf) as Hk. pose proof (lex_token_suf pos rest) as Hs.
  destruct (lex_token O cfg (pos, rest)) as [d t]. unfold tkind, tsuf in *. cbn [snd] in *.
  destruct t as [kind a b [pos' rest']|a b|]; try (cbn; discriminate).
  destruct Hk as [Hk1 Hk2]. rewrite (convert_nonlit kind _ Hk1 Hk2).
  destruct (kind =? K_EOF)%Z; [cbn; discriminate|].
  assert (Hdf' : digit_free rest') by (intros c Hin; apply Hdf; apply (is_suffix_In _ _ _ Hs Hin)).
  specialize (IHf pos' rest' Hdf' k).
  destruct (lex_all O cfg input f (pos', rest')) as [d' [l o]]. cbn [fst snd] in *. exact IHf.
Qed.

(* the partial form of C07_lex_total for the unrepaired code: inputs on which the lexer's digit test
   never fires have no numeric literal and therefore no failing conversion *)
Theorem lex_total_partial : progress_ok cfg = true ->
  forall s, digit_free s -> no_internal (lex_outcome O cfg s).
Proof.
  intros Hp s Hdf. unfold lex_outcome, lex.
  pose proof (proj1 (lex_all_outcome O cfg Hp s (S (length s)) 0 s ltac:(lia))) as Hf.
  pose proof (lex_all_digit_free s (S (length s)) 0 s Hdf) as Hi.
  destruct (snd (snd (lex_all O cfg s (S (length s)) (0, s)))); cbn; try exact I.
  - exact (Hi k eq_refl).
  - exact (Hf eq_refl).
Qed.

End Suffix.
