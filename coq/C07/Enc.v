(* C07/Enc.v -- encoders of model results into Base/Show.v `sx` for the correspondence check. *)
From Coq Require Import ZArith List Bool Arith.
From XV Require Import Base.Show C07.Regex C07.Model C07.Current Gen.C07_regexes.
Import ListNotations.

Definition ikind_code (k : ikind) : Z :=
  match k with ValueError => 3 | KeyError => 4 | IndexError => 5 | AssertionError => 6 | TypeError => 7 end.
Definition enc_lit (v : lit) : sx :=
  match v with LNone => L [] | LInt z => L [I z] | LFloat => L [L []] end.
Definition enc_item (it : item) : sx :=
  let '(Item k a b v) := it in L [I k; sN a; sN b; enc_lit v].
Definition enc_outcome (o : outcome) : sx :=
  match o with
  | Done => L [I 0]
  | ParseErr a b => L [I 1; sN a; sN b]
  | Internal k => L [I (ikind_code k)]
  | OutOfFuel => L [I (-3)]
  end.

(* token stream of the current source's lexer model *)
Definition c07_lex (s : list Z) : sx :=
  let '(_, (items, o)) := lex cpy cur_cfg s in L [L (map enc_item items); enc_outcome o].
Definition c07_steps (s : list Z) : sx := sN (lex_steps cpy cur_cfg s).

(* the translated regexes under the backtracking matcher: end offset of pattern.match(s) or -1, steps *)
Definition all_regexes : list regex :=
  [r_ws; r_bare; r_bare_suffix; r_suffix_id; r_string; r_hex; r_digits; r_frac; r_name; r_name_suffix;
   r_pinned_string; r_proposed_string].
Definition c07_rx (i : nat) (s : list Z) : sx :=
  let '(d, o) := bt_match cpy_named (nth i all_regexes Eps) s in
  match o with
  | MSome rest => L [I (Z.of_nat (length s - length rest)); sN d]
  | MNone => L [I (-1); sN d]
  | MFuel => L [I (-3); sN d]
  end.
Definition c07_rx_steps (i : nat) (s : list Z) : sx :=
  sN (fst (bt_match cpy_named (nth i all_regexes Eps) s)).
(* IRWithName.extract_valid_name: [] = ValueError, [hint] otherwise *)
Definition c07_extract (s : list Z) : sx := sOpt sLZ (extract_valid_name cpy_named cur_cfg s).

Definition enc_presult (r : presult) : sx :=
  match r with
  | POk _ => L [I 0]
  | PParseErr => L [I 1]
  | PInternal k => L [I (ikind_code k)]
  end.
Definition c07_run (es : list event) : sx := enc_presult (run cpy_named cur_cfg pinit es).
(* _get_block_from_name on a fresh parser: result class and the hint given to the new block *)
Definition c07_getblock (n : name) : sx :=
  match step cpy_named cur_cfg pinit (EGet n) with
  | POk st => L [I 0; match ps_hints st with (_, Some h) :: _ => L [sLZ h] | _ => L [] end]
  | PParseErr => L [I 1]
  | PInternal k => L [I (ikind_code k)]
  end.

(* status of the current source, used by the generator to decide what Gen/C07_current.v can state *)
Definition c07_probe : sx :=
  L [ L (map (fun r => L [sB (cb_ok r); sN (cb_k r); sB (cb_prompt r)]) (cost_regexes cur_cfg));
      sB (rx_ok cur_cfg); sN (Kof cur_cfg);
      L [sB cur_fx_ascii_digit; sB cur_fx_int_guard; sB cur_fx_label_validate; sB cur_fx_label_redef];
      sB (rx_ok repaired_cfg); sN (Kof repaired_cfg); sB (rx_ok pinned_cfg); sN (Kof pinned_cfg) ].

Definition c07_rx_end (i : nat) (s : list Z) : sx :=
  match c07_rx i s with L (e :: _) => L [e] | x => x end.
