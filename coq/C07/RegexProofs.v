(* C07/RegexProofs.v -- soundness of the cost analyser of C07/Regex.v:
     cost_bound r = Some (k, p)  ->  the backtracking matcher takes at most k*(consumed+1) steps on
     a successful match, at most k*(remaining+1) on a failing one (k if p = true), for every input. *)
From Coq Require Import ZArith List Bool Arith Lia.
From XV Require Import C07.Regex.
Import ListNotations.

Section Proofs.
Variable U : named -> Z -> bool.

Notation bt := (Regex.bt U).
Notation mem := (Regex.mem U).

(* the loop of `Star`, named *)
Definition star_loop (a : regex) (k : list Z -> res) : nat -> list Z -> res :=
  fix loop (fuel : nat) (s : list Z) {struct fuel} : res :=
  match fuel with
  | O => (0, MFuel)
  | S f =>
      let '(da, oa) := bt a s (fun s' => if length s' <? length s then loop f s' else k s') in
      match oa with
      | MNone => let '(dk, ok) := k s in (S (da + dk), ok)
      | _ => (S da, oa)
      end
  end.
Definition cont_of (a : regex) (k : list Z -> res) (f : nat) (s : list Z) : list Z -> res :=
  fun s' => if length s' <? length s then star_loop a k f s' else k s'.

Lemma bt_star : forall a s k, bt (Star a) s k = star_loop a k (S (length s)) s.
Proof. reflexivity. Qed.

(* equational unfolding lemmas *)
Lemma loop_succ : forall a k f s d o, bt a s (cont_of a k f s) = (d, o) -> o <> MNone ->
  star_loop a k (S f) s = (S d, o).
Proof.
  intros a k f s d o H Hne. change (star_loop a k (S f) s) with
    (let '(da, oa) := bt a s (cont_of a k f s) in
     match oa with MNone => let '(dk, ok) := k s in (S (da + dk), ok) | _ => (S da, oa) end).
  rewrite H. destruct o; try reflexivity. congruence.
Qed.
Lemma loop_fail : forall a k f s d dk ok, bt a s (cont_of a k f s) = (d, MNone) -> k s = (dk, ok) ->
  star_loop a k (S f) s = (S (d + dk), ok).
Proof.
  intros a k f s d dk ok H Hk. change (star_loop a k (S f) s) with
    (let '(da, oa) := bt a s (cont_of a k f s) in
     match oa with MNone => let '(dk, ok) := k s in (S (da + dk), ok) | _ => (S da, oa) end).
  rewrite H, Hk. reflexivity.
Qed.
Lemma alt_succ : forall a b s k d o, bt a s k = (d, o) -> o <> MNone -> bt (Alt a b) s k = (S d, o).
Proof. intros a b s k d o H Hne. cbn [Regex.bt]. rewrite H. destruct o; try reflexivity. congruence. Qed.
Lemma alt_fail : forall a b s k da db ob, bt a s k = (da, MNone) -> bt b s k = (db, ob) ->
  bt (Alt a b) s k = (S (da + db), ob).
Proof. intros a b s k da db ob H Hb. cbn [Regex.bt]. rewrite H, Hb. reflexivity. Qed.
Lemma chr_hit : forall c x s k d o, mem c x = true -> k s = (d, o) -> bt (Chr c) (x :: s) k = (S d, o).
Proof. intros c x s k d o Hm Hk. cbn [Regex.bt]. rewrite Hm, Hk. reflexivity. Qed.
Lemma chr_miss : forall c x s k, mem c x = false -> bt (Chr c) (x :: s) k = (1, MNone).
Proof. intros c x s k Hm. cbn [Regex.bt]. rewrite Hm. reflexivity. Qed.
Lemma chr_nil : forall c k, bt (Chr c) [] k = (1, MNone).
Proof. reflexivity. Qed.
Lemma pair_eta : forall (p : res), p = (fst p, snd p).
Proof. intros [a b]. reflexivity. Qed.

(* ------------------------------------------------------------------------------------------ *)
(* Class 1 *)

Definition po (Fk : nat) (k : list Z -> res) := forall s, snd (k s) = MNone -> fst (k s) <= Fk.
Definition inf (k : list Z -> res) := forall s, snd (k s) <> MNone.

Definition concl (C F N Fk : nat) (r : regex) (s : list Z) (k : list Z -> res) : Prop :=
  (exists s1 d, length s1 <= length s /\ snd (k s1) <> MNone /\
                bt r s k = (d + fst (k s1), snd (k s1)) /\
                d <= C * (length s - length s1) + F + N * Fk)
  \/ (exists d, bt r s k = (d, MNone) /\ d <= F + N * Fk).

Lemma mul_max_split : forall a b x y, a * x + b * y <= Nat.max a b * (x + y).
Proof.
  intros a b x y. rewrite Nat.mul_add_distr_l.
  apply Nat.add_le_mono; apply Nat.mul_le_mono_r; lia.
Qed.

(* a zero-width test that passes control to k after one step (EndA at the end, used twice) *)
Lemma pass_concl : forall r s k Fk, po Fk k -> bt r s k = (S (fst (k s)), snd (k s)) ->
  concl 0 1 1 Fk r s k.
Proof.
  intros r s k Fk Hpo Heq. unfold concl. destruct (snd (k s)) eqn:Es.
  - left. exists s, 1. rewrite Es. repeat split; [lia|congruence|exact Heq|lia].
  - right. exists (S (fst (k s))). split; [exact Heq|]. specialize (Hpo s Es). lia.
  - left. exists s, 1. rewrite Es. repeat split; [lia|congruence|exact Heq|lia].
Qed.

Lemma an_sound : forall r kinf i, an r kinf = Some i ->
  forall Fk k, po Fk k -> (kinf = true -> inf k) ->
  forall s, concl (iC i) (iF i) (iN i) Fk r s k /\ (iInf i = true -> snd (bt r s k) <> MNone).
Proof.
  induction r as [|c|a IHa b IHb|a IHa b IHb|a IHa|]; intros kinf i Han Fk k Hpo Hinf s.
  - (* Eps *)
    cbn in Han. injection Han as <-. cbn [iC iF iN iInf]. unfold concl.
    change (bt Eps s k) with (k s).
    split; [|intro Hk; apply (Hinf Hk)].
    destruct (snd (k s)) eqn:Es.
    + left. exists s, 0. rewrite Es. repeat split; [lia|congruence|rewrite <- Es; apply pair_eta|lia].
    + right. exists (fst (k s)). split; [rewrite <- Es; apply pair_eta|]. specialize (Hpo s Es). lia.
    + left. exists s, 0. rewrite Es. repeat split; [lia|congruence|rewrite <- Es; apply pair_eta|lia].
  - (* Chr *)
    cbn in Han. injection Han as <-. cbn [iC iF iN iInf]. unfold concl.
    split.
    2:{ discriminate. }
    destruct s as [|x s']; [right; exists 1; split; [apply chr_nil|lia]|].
    destruct (mem c x) eqn:Em; [|right; exists 1; split; [apply chr_miss; exact Em|lia]].
    rewrite (chr_hit c x s' k (fst (k s')) (snd (k s')) Em (pair_eta _)).
    destruct (snd (k s')) eqn:Es.
    + left. exists s', 1. rewrite Es. cbn [length]. repeat split; [lia|congruence|lia].
    + right. exists (S (fst (k s'))). split; [reflexivity|]. specialize (Hpo s' Es). lia.
    + left. exists s', 1. rewrite Es. cbn [length]. repeat split; [lia|congruence|lia].
  - (* Cat *)
    cbn [an] in Han. destruct (an b kinf) as [ib|] eqn:Eb; [|discriminate].
    destruct (an a (iInf ib)) as [ia|] eqn:Ea; [|discriminate].
    injection Han as <-. cbn [iC iF iN iInf]. unfold concl.
    pose (kb := fun s' => bt b s' k).
    assert (Hb : forall s', concl (iC ib) (iF ib) (iN ib) Fk b s' k /\
                            (iInf ib = true -> snd (bt b s' k) <> MNone))
      by (intro s'; apply (IHb kinf ib Eb Fk k Hpo Hinf s')).
    assert (Hpob : po (iF ib + iN ib * Fk) kb).
    { intros s' Hn. unfold kb in *. destruct (Hb s') as [[Hl|Hr] _].
      - destruct Hl as (s1 & d & _ & Hne & Heq & _). rewrite Heq in Hn. cbn in Hn. contradiction.
      - destruct Hr as (d & Heq & Hd). rewrite Heq. cbn. exact Hd. }
    assert (Hinfb : iInf ib = true -> inf kb).
    { intros Hi s'. apply (proj2 (Hb s') Hi). }
    destruct (IHa (iInf ib) ia Ea _ kb Hpob Hinfb s) as [Hca Hia].
    change (bt (Cat a b) s k) with (bt a s kb).
    split; [|exact Hia].
    destruct Hca as [Hl|Hr].
    + destruct Hl as (s1 & da & Hlen1 & Hne1 & Heq1 & Hda).
      destruct (Hb s1) as [[Hl2|Hr2] _].
      * destruct Hl2 as (s2 & db & Hlen2 & Hne2 & Heq2 & Hdb).
        left. exists s2, (da + db).
        assert (Hkb : kb s1 = (db + fst (k s2), snd (k s2))) by exact Heq2.
        rewrite Hkb in Heq1. cbn [fst snd] in Heq1.
        repeat split; [lia|exact Hne2|rewrite Heq1; f_equal; lia|].
        pose proof (mul_max_split (iC ia) (iC ib) (length s - length s1) (length s1 - length s2)) as Hm.
        replace (length s - length s1 + (length s1 - length s2)) with (length s - length s2) in Hm by lia.
        rewrite Nat.mul_add_distr_l in Hda. rewrite Nat.mul_assoc in Hda.
        rewrite Nat.mul_add_distr_r. lia.
      * destruct Hr2 as (d & Heq2 & _).
        assert (Hkb : kb s1 = (d, MNone)) by exact Heq2.
        rewrite Hkb in Hne1. cbn in Hne1. congruence.
    + destruct Hr as (d & Heq & Hd). right. exists d. split; [exact Heq|].
      rewrite Nat.mul_add_distr_l in Hd. rewrite Nat.mul_assoc in Hd.
      rewrite Nat.mul_add_distr_r. lia.
  - (* Alt *)
    cbn [an] in Han. destruct (an a kinf) as [ia|] eqn:Ea; [|discriminate].
    destruct (an b kinf) as [ib|] eqn:Eb; [|discriminate].
    injection Han as <-. cbn [iC iF iN iInf]. unfold concl.
    destruct (IHa kinf ia Ea Fk k Hpo Hinf s) as [Hca Hia].
    destruct (IHb kinf ib Eb Fk k Hpo Hinf s) as [Hcb Hib].
    destruct Hca as [Hl|Hr].
    + destruct Hl as (s1 & d & Hlen & Hne1 & Heq & Hd).
      rewrite (alt_succ a b s k _ _ Heq Hne1). split.
      * left. exists s1, (S d). repeat split; [lia|exact Hne1|].
        assert (iC ia * (length s - length s1) <= Nat.max (iC ia) (iC ib) * (length s - length s1))
          by (apply Nat.mul_le_mono_r; lia).
        rewrite Nat.mul_add_distr_r. lia.
      * intros _. exact Hne1.
    + destruct Hr as (da & Heqa & Hda).
      destruct Hcb as [Hl2|Hr2].
      * destruct Hl2 as (s1 & d & Hlen & Hne1 & Heq & Hd).
        rewrite (alt_fail a b s k _ _ _ Heqa Heq). split.
        -- left. exists s1, (S (da + d)). repeat split; [lia|exact Hne1|f_equal; lia|].
           assert (iC ib * (length s - length s1) <= Nat.max (iC ia) (iC ib) * (length s - length s1))
             by (apply Nat.mul_le_mono_r; lia).
           rewrite Nat.mul_add_distr_r. lia.
        -- intros _. exact Hne1.
      * destruct Hr2 as (db & Heqb & Hdb).
        rewrite (alt_fail a b s k _ _ _ Heqa Heqb). split.
        -- right. exists (S (da + db)). split; [reflexivity|]. rewrite Nat.mul_add_distr_r. lia.
        -- intro Hi. apply Bool.orb_true_iff in Hi. destruct Hi as [Hi|Hi].
           ++ specialize (Hia Hi). rewrite Heqa in Hia. cbn in Hia. congruence.
           ++ specialize (Hib Hi). rewrite Heqb in Hib. cbn in Hib. congruence.
  - (* Star *)
    cbn [an] in Han. destruct kinf; [|discriminate].
    destruct (an a true) as [ia|] eqn:Ea; [|discriminate].
    injection Han as <-. cbn [iC iF iN iInf]. unfold concl.
    pose proof (Hinf eq_refl) as Hk.
    assert (Hloop : forall fuel s, length s < fuel ->
              exists s1 d, length s1 <= length s /\
                star_loop a k fuel s = (d + fst (k s1), snd (k s1)) /\
                d <= (iC ia + iF ia + 1) * (length s - length s1) + (iF ia + 1)).
    { induction fuel as [|f IHf]; intros s0 Hlt; [lia|].
      assert (Hcinf : inf (cont_of a k f s0)).
      { intros s'. unfold cont_of. destruct (length s' <? length s0) eqn:El.
        - apply Nat.ltb_lt in El. destruct (IHf s' ltac:(lia)) as (s1 & d & _ & Heq & _).
          rewrite Heq. cbn. apply Hk.
        - apply Hk. }
      assert (Hcpo : po 0 (cont_of a k f s0)).
      { intros s' Hn. exfalso. exact (Hcinf s' Hn). }
      destruct (IHa true ia Ea 0 (cont_of a k f s0) Hcpo (fun _ => Hcinf) s0) as [[Hl|Hr] _].
      - destruct Hl as (s1 & d & Hlen & Hne & Heq & Hd).
        rewrite (loop_succ a k f s0 _ _ Heq Hne).
        unfold cont_of. destruct (length s1 <? length s0) eqn:El.
        + apply Nat.ltb_lt in El. destruct (IHf s1 ltac:(lia)) as (s2 & d2 & Hlen2 & Heq2 & Hd2).
          rewrite Heq2. cbn [fst snd]. exists s2, (S (d + d2)). repeat split; [lia|f_equal; lia|].
          replace (length s0 - length s2) with ((length s0 - length s1) + (length s1 - length s2)) by lia.
          rewrite Nat.mul_add_distr_l.
          assert (Hx : (iC ia + iF ia + 1) * (length s0 - length s1) =
                       iC ia * (length s0 - length s1) + (iF ia + 1) * (length s0 - length s1)) by lia.
          assert (iF ia + 1 <= (iF ia + 1) * (length s0 - length s1))
            by (rewrite <- (Nat.mul_1_r (iF ia + 1)) at 1; apply Nat.mul_le_mono_l; lia).
          lia.
        + apply Nat.ltb_ge in El. exists s1, (S d). repeat split; [lia|].
          replace (length s0 - length s1) with 0 in * by lia. lia.
      - destruct Hr as (d & Heq & Hd).
        rewrite (loop_fail a k f s0 d _ _ Heq (pair_eta (k s0))).
        exists s0, (S d). split; [lia|]. split; [reflexivity|lia]. }
    rewrite bt_star.
    destruct (Hloop (S (length s)) s ltac:(lia)) as (s1 & d & Hlen & Heq & Hd).
    split.
    + left. exists s1, d. repeat split; [exact Hlen|apply Hk|exact Heq|lia].
    + intros _. rewrite Heq. cbn. apply Hk.
  - (* EndA *)
    cbn in Han. injection Han as <-. cbn [iC iF iN iInf].
    split; [|discriminate].
    destruct s as [|x [|y t]].
    + apply pass_concl; [exact Hpo|]. cbn [Regex.bt]. destruct (k []); reflexivity.
    + destruct (x =? 10)%Z eqn:Ex.
      * apply pass_concl; [exact Hpo|]. cbn [Regex.bt]. rewrite Ex. destruct (k [x]); reflexivity.
      * right. exists 1. split; [cbn [Regex.bt]; rewrite Ex; reflexivity|lia].
    + right. exists 1. split; [reflexivity|lia].
Qed.

Lemma accept_inf : inf accept. Proof. intros s. cbn. discriminate. Qed.
Lemma accept_po : po 0 accept. Proof. intros s H. cbn in H. discriminate. Qed.

(* ------------------------------------------------------------------------------------------ *)
(* Class 2 *)

Lemma existsb_in_range : forall x l, existsb (in_range x) l = true ->
  exists r, In r l /\ (fst r <= x <= snd r)%Z.
Proof.
  intros x l H. apply existsb_exists in H. destruct H as (r & Hin & Hr).
  exists r. split; [exact Hin|]. unfold in_range in Hr. apply andb_true_iff in Hr. lia.
Qed.
Lemma in_range_existsb : forall x q l, In q l -> (fst q <= x <= snd q)%Z -> existsb (in_range x) l = true.
Proof.
  intros x q l Hq Hx. apply existsb_exists. exists q. split; [exact Hq|].
  unfold in_range. apply andb_true_iff. lia.
Qed.

Lemma cdisj_sound : forall a b x, cdisj a b = true -> mem a x = true -> mem b x = false.
Proof.
  intros a b x Hd Ha. unfold cdisj in Hd.
  apply andb_true_iff in Hd. destruct Hd as [Hp Hd]. apply andb_true_iff in Hp. destruct Hp as [Hpa Hpb].
  unfold plain in Hpa, Hpb. unfold Regex.mem in *.
  destruct (cs_named a); [|discriminate]. destruct (cs_named b); [|discriminate].
  cbn [existsb] in *. rewrite orb_false_r in *.
  destruct (cs_neg a), (cs_neg b); try discriminate;
    rewrite ?xorb_false_l, ?xorb_true_l in *.
  - (* a negated, b plain *)
    apply negb_true_iff in Ha.
    destruct (existsb (in_range x) (cs_ranges b)) eqn:Eb; [|reflexivity].
    apply existsb_in_range in Eb. destruct Eb as (r & Hin & Hr).
    rewrite forallb_forall in Hd. specialize (Hd r Hin). unfold range_within in Hd.
    apply existsb_exists in Hd. destruct Hd as (q & Hq & Hw). apply andb_true_iff in Hw.
    rewrite (in_range_existsb x q _ Hq ltac:(lia)) in Ha. discriminate.
  - (* a plain, b negated *)
    apply negb_false_iff.
    apply existsb_in_range in Ha. destruct Ha as (r & Hin & Hr).
    rewrite forallb_forall in Hd. specialize (Hd r Hin). unfold range_within in Hd.
    apply existsb_exists in Hd. destruct Hd as (q & Hq & Hw). apply andb_true_iff in Hw.
    apply (in_range_existsb x q _ Hq ltac:(lia)).
  - (* both plain *)
    destruct (existsb (in_range x) (cs_ranges b)) eqn:Eb; [|reflexivity].
    apply existsb_in_range in Ha. destruct Ha as (ra & Hina & Hra).
    apply existsb_in_range in Eb. destruct Eb as (rb & Hinb & Hrb).
    unfold ranges_disjoint in Hd. rewrite forallb_forall in Hd. specialize (Hd ra Hina).
    rewrite forallb_forall in Hd. specialize (Hd rb Hinb). apply orb_true_iff in Hd. lia.
Qed.

Definition headin (fs : list cset) (s : list Z) : bool :=
  match s with x :: _ => existsb (fun c => mem c x) fs | [] => false end.

Lemma headin_app : forall f1 f2 s, headin (f1 ++ f2) s = headin f1 s || headin f2 s.
Proof. intros f1 f2 [|x t]; cbn; [reflexivity|apply existsb_app]. Qed.

Lemma all_disj_headin : forall f1 f2 s, all_disj f1 f2 = true -> headin f1 s = true -> headin f2 s = false.
Proof.
  intros f1 f2 [|x t] Hd H1; [reflexivity|]. cbn in *.
  apply existsb_exists in H1. destruct H1 as (c1 & Hin1 & Hm1).
  destruct (existsb (fun c => mem c x) f2) eqn:E2; [|reflexivity].
  apply existsb_exists in E2. destruct E2 as (c2 & Hin2 & Hm2).
  unfold all_disj in Hd. rewrite forallb_forall in Hd. specialize (Hd c1 Hin1).
  rewrite forallb_forall in Hd. specialize (Hd c2 Hin2).
  rewrite (cdisj_sound c1 c2 x Hd Hm1) in Hm2. discriminate.
Qed.

Lemma det_sound : forall B, det B = true -> forall s k,
  (headin (firsts B) s = false -> exists d, bt B s k = (d, MNone) /\ d <= dsize B)
  /\ ((exists s1 d, length s1 < length s /\ headin (firsts B) s = true /\
         bt B s k = (d + fst (k s1), snd (k s1)) /\ d <= dsize B)
      \/ (exists d, bt B s k = (d, MNone) /\ d <= dsize B)).
Proof.
  induction B as [|c|a IHa b IHb|a IHa b IHb|a IHa|]; intros Hdet s k; try discriminate.
  - (* Chr *)
    cbn [firsts dsize]. destruct s as [|x t].
    + split; [intros _; exists 1; split; [apply chr_nil|lia]|right; exists 1; split; [apply chr_nil|lia]].
    + cbn [headin existsb]. rewrite orb_false_r. destruct (mem c x) eqn:Em.
      * split; [discriminate|]. left. exists t, 1.
        rewrite (chr_hit c x t k _ _ Em (pair_eta _)). cbn [length]. repeat split; lia.
      * rewrite (chr_miss c x t k Em).
        split; [intros _; exists 1; split; [reflexivity|lia]|right; exists 1; split; [reflexivity|lia]].
  - (* Cat *)
    cbn [det] in Hdet. apply andb_true_iff in Hdet. destruct Hdet as [Hda Hdb].
    cbn [firsts dsize]. pose (kb := fun s' => bt b s' k).
    change (bt (Cat a b) s k) with (bt a s kb).
    destruct (IHa Hda s kb) as [Ha1 Ha2]. split.
    + intro Hh. destruct (Ha1 Hh) as (d & Heq & Hd). exists d. split; [exact Heq|lia].
    + destruct Ha2 as [Hl|Hr].
      * destruct Hl as (s1 & d & Hlen & Hh & Heq & Hd).
        destruct (IHb Hdb s1 k) as [_ [Hl2|Hr2]].
        -- destruct Hl2 as (s2 & d2 & Hlen2 & _ & Heq2 & Hd2). left. exists s2, (d + d2).
           assert (Hkb : kb s1 = (d2 + fst (k s2), snd (k s2))) by exact Heq2.
           rewrite Hkb in Heq. cbn [fst snd] in Heq.
           repeat split; [lia|exact Hh|rewrite Heq; f_equal; lia|lia].
        -- destruct Hr2 as (d2 & Heq2 & Hd2). right. exists (d + d2).
           assert (Hkb : kb s1 = (d2, MNone)) by exact Heq2.
           rewrite Hkb in Heq. cbn [fst snd] in Heq. split; [exact Heq|lia].
      * destruct Hr as (d & Heq & Hd). right. exists d. split; [exact Heq|lia].
  - (* Alt *)
    cbn [det] in Hdet. apply andb_true_iff in Hdet. destruct Hdet as [Hdab Hdisj].
    apply andb_true_iff in Hdab. destruct Hdab as [Hda Hdb].
    cbn [firsts dsize]. rewrite headin_app.
    destruct (IHa Hda s k) as [Ha1 Ha2]. destruct (IHb Hdb s k) as [Hb1 Hb2].
    split.
    + intro Hh. apply orb_false_iff in Hh. destruct Hh as [Hha Hhb].
      destruct (Ha1 Hha) as (da & Heqa & Hda'). destruct (Hb1 Hhb) as (db & Heqb & Hdb').
      rewrite (alt_fail a b s k _ _ _ Heqa Heqb). exists (S (da + db)). split; [reflexivity|lia].
    + destruct Ha2 as [Hl|Hr].
      * destruct Hl as (s1 & d & Hlen & Hh & Heq & Hd).
        destruct (snd (k s1)) eqn:Es.
        -- left. exists s1, (S d). rewrite Hh.
           rewrite (alt_succ a b s k _ _ Heq ltac:(discriminate)), Es.
           repeat split; lia.
        -- pose proof (all_disj_headin _ _ s Hdisj Hh) as Hhb.
           destruct (Hb1 Hhb) as (db & Heqb & Hdb').
           rewrite (alt_fail a b s k _ _ _ Heq Heqb).
           left. exists s1, (S (d + db)). rewrite Hh, Es. repeat split; [lia|f_equal; lia|lia].
        -- left. exists s1, (S d). rewrite Hh.
           rewrite (alt_succ a b s k _ _ Heq ltac:(discriminate)), Es.
           repeat split; lia.
      * destruct Hr as (da & Heqa & Hda').
        destruct Hb2 as [Hl2|Hr2].
        -- destruct Hl2 as (s1 & d & Hlen & Hh & Heq & Hd).
           rewrite (alt_fail a b s k _ _ _ Heqa Heq).
           left. exists s1, (S (da + d)). rewrite Hh, orb_true_r.
           repeat split; [lia|f_equal; lia|lia].
        -- destruct Hr2 as (db & Heqb & Hdb').
           rewrite (alt_fail a b s k _ _ _ Heqa Heqb). right. exists (S (da + db)).
           split; [reflexivity|lia].
Qed.

Definition kq (q2 : cset) : list Z -> res := fun s' => bt (Chr q2) s' accept.

Lemma kq_cases : forall q2 s0,
  (exists x t, s0 = x :: t /\ mem q2 x = true /\ kq q2 s0 = (1, MSome t)) \/ kq q2 s0 = (1, MNone).
Proof.
  intros q2 [|x t]; [right; reflexivity|]. unfold kq. destruct (mem q2 x) eqn:Em.
  - left. exists x, t. repeat split; [exact Em|]. apply (chr_hit q2 x t accept 0 (MSome t) Em eq_refl).
  - right. apply chr_miss. exact Em.
Qed.

Lemma delimited_loop : forall B q2, det B = true -> all_disj (firsts B) [q2] = true ->
  forall fuel s, length s < fuel ->
  forall d o, star_loop B (kq q2) fuel s = (d, o) ->
  o <> MFuel /\
  (forall sf, o = MSome sf -> length sf < length s /\ d <= (dsize B + 3) * (length s - length sf)) /\
  (o = MNone -> d <= (dsize B + 3) * length s + (dsize B + 2)).
Proof.
  intros B q2 Hdet Hdisj. induction fuel as [|f IHf]; intros s Hlt d0 o0 Hrun; [lia|].
  destruct (det_sound B Hdet s (cont_of B (kq q2) f s)) as [_ [Hl|Hr]].
  - destruct Hl as (s1 & d & Hlen & Hh & Heq & Hd).
    assert (Hc : cont_of B (kq q2) f s s1 = star_loop B (kq q2) f s1).
    { unfold cont_of. replace (length s1 <? length s) with true; [reflexivity|].
      symmetry. apply Nat.ltb_lt. lia. }
    rewrite Hc in Heq.
    destruct (star_loop B (kq q2) f s1) as [d' o'] eqn:El'. cbn [fst snd] in Heq.
    destruct (IHf s1 ltac:(lia) d' o' El') as (Hnf & Hs & Hn).
    destruct o' as [sf| |].
    + rewrite (loop_succ B (kq q2) f s _ _ Heq ltac:(discriminate)) in Hrun.
      injection Hrun as <- <-.
      split; [discriminate|]. split; [|discriminate].
      intros sf0 Hsf. injection Hsf as <-. destruct (Hs sf eq_refl) as [Hl1 Hd1]. split; [lia|].
      replace (length s - length sf) with ((length s - length s1) + (length s1 - length sf)) by lia.
      rewrite Nat.mul_add_distr_l.
      assert (dsize B + 3 <= (dsize B + 3) * (length s - length s1))
        by (rewrite <- (Nat.mul_1_r (dsize B + 3)) at 1; apply Nat.mul_le_mono_l; lia).
      lia.
    + (* the rest of the loop failed: the closing delimiter cannot match here *)
      assert (Hq : kq q2 s = (1, MNone)).
      { destruct (kq_cases q2 s) as [(x & t & -> & Hm & _)|Hq]; [|exact Hq].
        pose proof (all_disj_headin _ [q2] (x :: t) Hdisj Hh) as Hc'. cbn in Hc'.
        rewrite Hm in Hc'. discriminate. }
      rewrite (loop_fail B (kq q2) f s _ _ _ Heq Hq) in Hrun. injection Hrun as <- <-.
      split; [discriminate|]. split; [discriminate|]. intros _.
      specialize (Hn eq_refl).
      assert ((dsize B + 3) * length s1 + (dsize B + 3) <= (dsize B + 3) * length s).
      { rewrite <- Nat.mul_succ_r. apply Nat.mul_le_mono_l. lia. }
      lia.
    + exfalso. apply Hnf. reflexivity.
  - destruct Hr as (d & Heq & Hd).
    destruct (kq_cases q2 s) as [(x & t & -> & Hm & Hq)|Hq];
      rewrite (loop_fail B (kq q2) f _ _ _ _ Heq Hq) in Hrun; injection Hrun as <- <-.
    + split; [discriminate|]. split; [|discriminate].
      intros sf Hsf. injection Hsf as <-. cbn [length]. split; [lia|].
      replace (S (length t) - length t) with 1 by lia. lia.
    + split; [discriminate|]. split; [discriminate|]. intros _. lia.
Qed.

Lemma delimited_sound : forall r k, delimited r = Some k -> forall s d o,
  bt_match U r s = (d, o) ->
  o <> MFuel /\
  (forall sf, o = MSome sf -> length sf <= length s /\ d <= k * (length s - length sf + 1)) /\
  (o = MNone -> d <= k * (length s + 1)).
Proof.
  intros r k Hr s d0 o0 Hrun. unfold delimited in Hr.
  destruct r as [|c|a b|a b|a|]; try discriminate.
  destruct a as [|q1|a1 a2|a1 a2|a1|]; try discriminate.
  destruct b as [|c|b1 b2|b1 b2|b1|]; try discriminate.
  destruct b1 as [|c|b11 b12|b11 b12|B|]; try discriminate.
  destruct b2 as [|q2|b21 b22|b21 b22|b21|]; try discriminate.
  destruct (det B && all_disj (firsts B) [q2]) eqn:E; [|discriminate].
  injection Hr as <-. apply andb_true_iff in E. destruct E as [Hdet Hdisj].
  unfold bt_match in Hrun.
  change (bt (Cat (Chr q1) (Cat (Star B) (Chr q2))) s accept)
    with (bt (Chr q1) s (fun s' => star_loop B (kq q2) (S (length s')) s')) in Hrun.
  destruct s as [|x t].
  { rewrite chr_nil in Hrun. injection Hrun as <- <-.
    split; [discriminate|]. split; [discriminate|]. intros _. lia. }
  destruct (mem q1 x) eqn:Em.
  2:{ rewrite (chr_miss _ _ _ _ Em) in Hrun. injection Hrun as <- <-.
      split; [discriminate|]. split; [discriminate|]. intros _. lia. }
  destruct (star_loop B (kq q2) (S (length t)) t) as [d o] eqn:El.
  rewrite (chr_hit q1 x t (fun s' => star_loop B (kq q2) (S (length s')) s') d o Em El) in Hrun.
  injection Hrun as <- <-.
  destruct (delimited_loop B q2 Hdet Hdisj (S (length t)) t ltac:(lia) d o El) as (Hnf & Hs & Hn).
  split; [exact Hnf|]. split.
  - intros sf Hsf. destruct (Hs sf Hsf) as [Hl Hd]. cbn [length]. split; [lia|].
    assert ((dsize B + 3) * (length t - length sf) <= (dsize B + 4) * (length t - length sf))
      by (apply Nat.mul_le_mono_r; lia).
    replace (S (length t) - length sf + 1) with ((length t - length sf) + 2) by lia.
    rewrite Nat.mul_add_distr_l. lia.
  - intros Ho. specialize (Hn Ho). cbn [length].
    assert ((dsize B + 3) * length t <= (dsize B + 4) * length t) by (apply Nat.mul_le_mono_r; lia).
    replace (S (length t) + 1) with (length t + 2) by lia. rewrite Nat.mul_add_distr_l. lia.
Qed.

(* ------------------------------------------------------------------------------------------ *)
(* Class 3: the unrolled loop  q1 N* (S N* )* q2 *)

Lemma unroll_body_eq : forall b sp n, unroll_body b = Some (sp, n) ->
  forall s k, bt b s k = bt sp s (fun s1 => bt (Star (Chr n)) s1 k).
Proof.
  intros b sp n H s k. unfold unroll_body in H.
  destruct b as [|c|a r|a r|a|]; try discriminate.
  destruct r as [|c|a2 r2|a2 r2|x|]; try discriminate.
  - destruct r2 as [|c|a3 r3|a3 r3|x|]; try discriminate.
    destruct x as [|c|? ?|? ?|?|]; try discriminate.
    injection H as <- <-. reflexivity.
  - destruct x as [|c|? ?|? ?|?|]; try discriminate.
    injection H as <- <-. reflexivity.
Qed.

(* what the continuation of a class star must satisfy: linear success, linear failure,
   and a prompt failure whenever the next character is still in the class X *)
Definition kspec (C a b c0 : nat) (X : cset) (k : list Z -> res) (s : list Z) : Prop :=
  snd (k s) <> MFuel /\
  (forall sf, snd (k s) = MSome sf -> length sf <= length s /\ fst (k s) <= C * (length s - length sf) + a) /\
  (snd (k s) = MNone -> fst (k s) <= C * length s + b) /\
  (headin [X] s = true -> snd (k s) = MNone /\ fst (k s) <= c0).

Lemma ns_loop : forall C a b c0 X k, c0 + 2 <= C ->
  forall fuel s, length s < fuel ->
  (forall s', length s' <= length s -> kspec C a b c0 X k s') ->
  forall d o, star_loop (Chr X) k fuel s = (d, o) ->
  o <> MFuel /\
  (forall sf, o = MSome sf -> length sf <= length s /\ d <= C * (length s - length sf) + a + 2) /\
  (o = MNone -> d <= C * length s + b + 2).
Proof.
  intros C a b c0 X k HC. induction fuel as [|f IHf]; intros s Hlt Hk d o Hrun; [lia|].
  destruct (Hk s (le_n _)) as (Hnf & Hs & Hn & Hh).
  assert (Hstop : bt (Chr X) s (cont_of (Chr X) k f s) = (1, MNone) ->
     o <> MFuel /\
     (forall sf, o = MSome sf -> length sf <= length s /\ d <= C * (length s - length sf) + a + 2) /\
     (o = MNone -> d <= C * length s + b + 2)).
  { intro Hb. rewrite (loop_fail (Chr X) k f s 1 _ _ Hb (pair_eta (k s))) in Hrun. injection Hrun as <- <-.
    split; [exact Hnf|]. split.
    - intros sf Hsf. destruct (Hs sf Hsf) as [Hl Hd]. split; [exact Hl|lia].
    - intro Ho. specialize (Hn Ho). lia. }
  destruct s as [|x t]; [apply Hstop; apply chr_nil|].
  destruct (mem X x) eqn:Em; [|apply Hstop; apply chr_miss; exact Em].
  assert (Hc : cont_of (Chr X) k f (x :: t) t = star_loop (Chr X) k f t).
  { unfold cont_of. replace (length t <? length (x :: t)) with true; [reflexivity|].
    symmetry. apply Nat.ltb_lt. cbn. lia. }
  destruct (star_loop (Chr X) k f t) as [d1 o1] eqn:El.
  assert (Hk' : forall s', length s' <= length t -> kspec C a b c0 X k s')
    by (intros s' Hs'; apply Hk; cbn; lia).
  destruct (IHf t ltac:(cbn in Hlt; lia) Hk' d1 o1 El) as (Hnf1 & Hs1 & Hn1).
  pose proof (chr_hit X x t (cont_of (Chr X) k f (x :: t)) d1 o1 Em Hc) as Hb.
  assert (Hmul : C * length (x :: t) = C * length t + C) by (cbn [length]; rewrite Nat.mul_succ_r; reflexivity).
  destruct o1 as [sf1| |].
  - rewrite (loop_succ (Chr X) k f (x :: t) _ _ Hb ltac:(discriminate)) in Hrun. injection Hrun as <- <-.
    split; [discriminate|]. split; [|discriminate].
    intros sf Hsf. injection Hsf as <-. destruct (Hs1 sf1 eq_refl) as [Hl1 Hd1]. cbn [length]. split; [lia|].
    replace (S (length t) - length sf1) with (S (length t - length sf1)) by lia.
    rewrite Nat.mul_succ_r. lia.
  - assert (Hhd : headin [X] (x :: t) = true) by (cbn; rewrite Em; reflexivity).
    destruct (Hh Hhd) as [Hko Hkd].
    rewrite (loop_fail (Chr X) k f (x :: t) _ _ _ Hb (pair_eta _)) in Hrun. injection Hrun as <- <-.
    rewrite Hko. split; [discriminate|]. split; [discriminate|]. intros _.
    specialize (Hn1 eq_refl). lia.
  - exfalso. apply Hnf1. reflexivity.
Qed.

Section Unrolled.
Variables (sp : regex) (n q2 : cset) (body : regex).
Hypothesis Hbody : forall s k, bt body s k = bt sp s (fun s1 => bt (Star (Chr n)) s1 k).
Hypothesis Hdet : det sp = true.
Hypothesis Hq : all_disj (firsts sp) [q2] = true.
Hypothesis Hn : all_disj (firsts sp) [n] = true.
Hypothesis Hnq : cdisj n q2 = true.

Let C := dsize sp + 5.
Let c0 := dsize sp + 3.

Lemma kq_fails_on : forall X s, cdisj X q2 = true -> headin [X] s = true -> kq q2 s = (1, MNone).
Proof.
  intros X s Hd Hh. destruct s as [|x t]; [discriminate|]. cbn in Hh. rewrite orb_false_r in Hh.
  unfold kq. apply chr_miss. apply (cdisj_sound X q2 x Hd Hh).
Qed.

Lemma not_first_of : forall X s, all_disj (firsts sp) [X] = true -> headin [X] s = true ->
  headin (firsts sp) s = false.
Proof.
  intros X s Hd Hh. destruct (headin (firsts sp) s) eqn:E; [|reflexivity].
  rewrite (all_disj_headin _ _ s Hd E) in Hh. discriminate.
Qed.

(* the next character is in a class disjoint from S's first characters and from q2: the loop stops at once *)
Lemma loop_prompt : forall X, all_disj (firsts sp) [X] = true -> cdisj X q2 = true ->
  forall f s, headin [X] s = true ->
  exists d, star_loop body (kq q2) (S f) s = (d, MNone) /\ d <= c0.
Proof.
  intros X HX HXq f s Hh.
  destruct (det_sound sp Hdet s (fun s1 => bt (Star (Chr n)) s1 (cont_of body (kq q2) f s))) as [Hd1 _].
  destruct (Hd1 (not_first_of X s HX Hh)) as (dS & Hb & HdS). rewrite <- Hbody in Hb.
  rewrite (loop_fail body (kq q2) f s dS _ _ Hb (kq_fails_on X s HXq Hh)).
  exists (S (dS + 1)). split; [reflexivity|unfold c0; lia].
Qed.

Lemma unrolled_loop_n : forall fuel s, length s < fuel -> kspec C 0 C c0 n (star_loop body (kq q2) fuel) s.
Proof.
  induction fuel as [|f IHf]; intros s Hlt; [lia|].
  unfold kspec.
  set (cont := cont_of body (kq q2) f s).
  assert (Hcont : forall s', length s' < length s -> cont s' = star_loop body (kq q2) f s').
  { intros s' Hl. unfold cont, cont_of. replace (length s' <? length s) with true; [reflexivity|].
    symmetry. apply Nat.ltb_lt. exact Hl. }
  assert (Hprompt : headin [n] s = true ->
            snd (star_loop body (kq q2) (S f) s) = MNone /\ fst (star_loop body (kq q2) (S f) s) <= c0).
  { intro Hh. destruct (loop_prompt n Hn Hnq f s Hh) as (d & -> & Hd). split; [reflexivity|exact Hd]. }
  destruct (det_sound sp Hdet s (fun s1 => bt (Star (Chr n)) s1 cont)) as [_ [Hl|Hr]].
  - destruct Hl as (s1 & dS & Hlen & Hh & Hb & HdS). rewrite <- Hbody in Hb.
    assert (Hks : forall s', length s' <= length s1 -> kspec C 0 C c0 n cont s').
    { intros s' Hs'. unfold kspec. rewrite (Hcont s' ltac:(lia)). apply (IHf s'). lia. }
    rewrite bt_star in Hb.
    destruct (star_loop (Chr n) cont (S (length s1)) s1) as [d1 o1] eqn:E1. cbn [fst snd] in Hb.
    destruct (ns_loop C 0 C c0 n cont ltac:(unfold C, c0; lia) (S (length s1)) s1 ltac:(lia) Hks d1 o1 E1)
      as (Hnf1 & Hs1 & Hn1).
    assert (HC1 : C <= C * (length s - length s1))
      by (rewrite <- (Nat.mul_1_r C) at 1; apply Nat.mul_le_mono_l; lia).
    assert (Hsplit : forall x, x <= length s1 ->
               C * (length s - x) = C * (length s - length s1) + C * (length s1 - x)).
    { intros x Hx. rewrite <- Nat.mul_add_distr_l. f_equal. lia. }
    destruct o1 as [sf1| |].
    + rewrite (loop_succ body (kq q2) f s _ _ Hb ltac:(discriminate)). cbn [fst snd].
      split; [discriminate|]. split.
      * intros sf Hsf. injection Hsf as <-. destruct (Hs1 sf1 eq_refl) as [Hl1 Hd1]. split; [lia|].
        rewrite (Hsplit (length sf1) Hl1). unfold C in *. lia.
      * split; [discriminate|]. intro Hh'. exfalso.
        rewrite (not_first_of n s Hn Hh') in Hh. discriminate.
    + assert (Hk : kq q2 s = (1, MNone)).
      { destruct (kq_cases q2 s) as [(x & t & -> & Hm & _)|Hk]; [|exact Hk].
        pose proof (all_disj_headin _ [q2] (x :: t) Hq Hh) as Hc'. cbn in Hc'. rewrite Hm in Hc'. discriminate. }
      rewrite (loop_fail body (kq q2) f s _ _ _ Hb Hk). cbn [fst snd].
      split; [discriminate|]. split; [discriminate|]. split.
      * intros _. specialize (Hn1 eq_refl).
        assert (C * length s1 + C <= C * length s).
        { rewrite <- Nat.mul_succ_r. apply Nat.mul_le_mono_l. lia. }
        unfold C in *. lia.
      * intro Hh'. exfalso. rewrite (not_first_of n s Hn Hh') in Hh. discriminate.
    + exfalso. apply Hnf1. reflexivity.
  - destruct Hr as (dS & Hb & HdS). rewrite <- Hbody in Hb.
    destruct (kq_cases q2 s) as [(x & t & -> & Hm & Hk)|Hk];
      rewrite (loop_fail body (kq q2) f _ dS _ _ Hb Hk); cbn [fst snd].
    + split; [discriminate|]. split.
      * intros sf Hsf. injection Hsf as <-. cbn [length]. split; [lia|].
        replace (S (length t) - length t) with 1 by lia. unfold C. lia.
      * split; [discriminate|]. intro Hh. exfalso.
        rewrite (kq_fails_on n (x :: t) Hnq Hh) in Hk. discriminate.
    + split; [discriminate|]. split; [discriminate|]. split; [unfold C; lia|].
      intros _. split; [reflexivity|unfold c0; lia].
Qed.

Lemma unrolled_loop_X : forall X, all_disj (firsts sp) [X] = true -> cdisj X q2 = true ->
  forall fuel s, length s < fuel -> kspec C 0 C c0 X (star_loop body (kq q2) fuel) s.
Proof.
  intros X HX HXq fuel s Hlt. destruct (unrolled_loop_n fuel s Hlt) as (H1 & H2 & H3 & _).
  split; [exact H1|]. split; [exact H2|]. split; [exact H3|].
  intro Hh. destruct fuel as [|f]; [lia|].
  destruct (loop_prompt X HX HXq f s Hh) as (d & -> & Hd). split; [reflexivity|exact Hd].
Qed.

End Unrolled.

Lemma unrolled_sound : forall r k, unrolled r = Some k -> forall s d o,
  bt_match U r s = (d, o) ->
  o <> MFuel /\
  (forall sf, o = MSome sf -> length sf <= length s /\ d <= k * (length s - length sf + 1)) /\
  (o = MNone -> d <= k * (length s + 1)).
Proof.
  intros r k Hr s d0 o0 Hrun. unfold unrolled in Hr.
  destruct r as [|c|a b|a b|a|]; try discriminate.
  destruct a as [|q1|a1 a2|a1 a2|a1|]; try discriminate.
  destruct b as [|c|b1 b2|b1 b2|b1|]; try discriminate.
  destruct b1 as [|c|b11 b12|b11 b12|b11|]; try discriminate.
  destruct b11 as [|n0|? ?|? ?|?|]; try discriminate.
  destruct b2 as [|c|b21 b22|b21 b22|b21|]; try discriminate.
  destruct b21 as [|c|? ?|? ?|B|]; try discriminate.
  destruct b22 as [|q2|? ?|? ?|?|]; try discriminate.
  destruct (unroll_body B) as [[sp n]|] eqn:Eu; [|discriminate].

  destruct (det sp && all_disj (firsts sp) [q2] && all_disj (firsts sp) [n] && cdisj n q2 &&
            all_disj (firsts sp) [n0] && cdisj n0 q2) eqn:E; [|discriminate].
  injection Hr as <-.
  repeat (apply andb_true_iff in E; destruct E as [E ?]).
  rename E into Hdet.
  pose proof (unroll_body_eq B sp n Eu) as Hbody.
  set (C := dsize sp + 5). set (c0 := dsize sp + 3).
  set (ktop := fun s'' => star_loop B (kq q2) (S (length s'')) s'').
  unfold bt_match in Hrun.
  change (bt (Cat (Chr q1) (Cat (Star (Chr n0)) (Cat (Star B) (Chr q2)))) s accept)
    with (bt (Chr q1) s (fun s' => star_loop (Chr n0) ktop (S (length s')) s')) in Hrun.
  destruct s as [|x t].
  { rewrite chr_nil in Hrun. injection Hrun as <- <-.
    split; [discriminate|]. split; [discriminate|]. intros _. lia. }
  destruct (mem q1 x) eqn:Em.
  2:{ rewrite (chr_miss _ _ _ _ Em) in Hrun. injection Hrun as <- <-.
      split; [discriminate|]. split; [discriminate|]. intros _. lia. }
  destruct (star_loop (Chr n0) ktop (S (length t)) t) as [d o] eqn:El.
  rewrite (chr_hit q1 x t (fun s' => star_loop (Chr n0) ktop (S (length s')) s') d o Em El) in Hrun.
  injection Hrun as <- <-.
  assert (Hks : forall s', length s' <= length t -> kspec C 0 C c0 n0 ktop s').
  { intros s' _. unfold ktop.
    apply (unrolled_loop_X sp n q2 B Hbody Hdet ltac:(assumption) ltac:(assumption) ltac:(assumption)
             n0 ltac:(assumption) ltac:(assumption) (S (length s')) s'). lia. }
  destruct (ns_loop C 0 C c0 n0 ktop ltac:(unfold C, c0; lia) (S (length t)) t ltac:(lia) Hks d o El)
    as (Hnf & Hs & Hn).
  split; [exact Hnf|]. split.
  - intros sf Hsf. destruct (Hs sf Hsf) as [Hl Hd]. cbn [length]. split; [lia|].
    assert (C * (length t - length sf) <= (dsize sp + 8) * (length t - length sf))
      by (apply Nat.mul_le_mono_r; unfold C; lia).
    replace (S (length t) - length sf + 1) with ((length t - length sf) + 2) by lia.
    rewrite Nat.mul_add_distr_l. unfold C in *. lia.
  - intros Ho. specialize (Hn Ho). cbn [length].
    assert (C * length t <= (dsize sp + 8) * length t) by (apply Nat.mul_le_mono_r; unfold C; lia).
    replace (S (length t) + 1) with (length t + 2) by lia. rewrite Nat.mul_add_distr_l. unfold C in *. lia.
Qed.



(* ------------------------------------------------------------------------------------------ *)
(* The certified analyser *)

Theorem cost_bound_sound : forall r k p, cost_bound r = Some (k, p) -> forall s d o,
  bt_match U r s = (d, o) ->
  o <> MFuel /\
  (forall sf, o = MSome sf -> length sf <= length s /\ d <= k * (length s - length sf + 1)) /\
  (o = MNone -> d <= k * (length s + 1) /\ (p = true -> d <= k)).
Proof.
  intros r k p Hc s d0 o0 Hrun. unfold cost_bound in Hc.
  destruct (an r true) as [i|] eqn:Ean.
  - injection Hc as <- <-.
    destruct (an_sound r true i Ean 0 accept accept_po (fun _ => accept_inf) s) as [Hcl _].
    unfold bt_match in Hrun. destruct Hcl as [Hl|Hr].
    + destruct Hl as (s1 & d & Hlen & _ & Heq & Hd). rewrite Heq in Hrun. cbn [accept fst snd] in Hrun.
      injection Hrun as <- <-.
      split; [discriminate|]. split; [|discriminate].
      intros sf Hsf. injection Hsf as <-. split; [exact Hlen|].
      assert (iC i * (length s - length s1) <= (iC i + iF i) * (length s - length s1))
        by (apply Nat.mul_le_mono_r; lia).
      rewrite Nat.mul_add_distr_l. lia.
    + destruct Hr as (d & Heq & Hd). rewrite Heq in Hrun. injection Hrun as <- <-.
      split; [discriminate|]. split; [discriminate|]. intros _. split; [|intros _; lia].
      rewrite Nat.mul_add_distr_l. lia.
  - destruct (delimited r) as [k'|] eqn:Ed.
    + injection Hc as <- <-.
      destruct (delimited_sound r k' Ed s d0 o0 Hrun) as (Hnf & Hs & Hn).
      split; [exact Hnf|]. split; [exact Hs|]. intros Ho. split; [exact (Hn Ho)|discriminate].
    + destruct (unrolled r) as [k'|] eqn:Eu; [|discriminate]. injection Hc as <- <-.
      destruct (unrolled_sound r k' Eu s d0 o0 Hrun) as (Hnf & Hs & Hn).
      split; [exact Hnf|]. split; [exact Hs|]. intros Ho. split; [exact (Hn Ho)|discriminate].
Qed.

(* the statement in the form of DESIGN.md section 8.C07 *)
Corollary cost_bound_linear : forall r k p, cost_bound r = Some (k, p) -> forall s i,
  steps (bt_match_at U r s i) <= k * (length s - i + 1).
Proof.
  intros r k p Hc s i. unfold bt_match_at, steps.
  destruct (bt_match U r (skipn i s)) as [d o] eqn:Er. cbn [fst].
  destruct (cost_bound_sound r k p Hc (skipn i s) d o Er) as (Hnf & Hs & Hn).
  rewrite skipn_length in Hs, Hn.
  destruct o as [sf| |].
  - destruct (Hs sf eq_refl) as [Hl Hd].
    assert (k * (length s - i - length sf + 1) <= k * (length s - i + 1)) by (apply Nat.mul_le_mono_l; lia).
    lia.
  - apply (Hn eq_refl).
  - congruence.
Qed.


(* ------------------------------------------------------------------------------------------ *)
(* The fuel of the star loop always suffices, for EVERY regex (analysable or not). *)

Lemma bt_no_fuel : forall r s k, (forall s', snd (k s') <> MFuel) -> snd (bt r s k) <> MFuel.
Proof.
  induction r as [|c|a IHa b IHb|a IHa b IHb|a IHa|]; intros s k Hk.
  - apply Hk.
  - destruct s as [|x t]; [cbn; discriminate|]. destruct (mem c x) eqn:Em.
    + rewrite (chr_hit c x t k _ _ Em (pair_eta _)). apply Hk.
    + rewrite (chr_miss c x t k Em). cbn. discriminate.
  - change (bt (Cat a b) s k) with (bt a s (fun s' => bt b s' k)).
    apply IHa. intro s'. apply IHb. exact Hk.
  - destruct (bt a s k) as [da oa] eqn:Ea. destruct (bt b s k) as [db ob] eqn:Eb.
    pose proof (IHa s k Hk) as Ha. pose proof (IHb s k Hk) as Hb. rewrite Ea in Ha. rewrite Eb in Hb.
    destruct oa as [sf| |].
    + rewrite (alt_succ a b s k _ _ Ea ltac:(discriminate)). cbn. discriminate.
    + rewrite (alt_fail a b s k _ _ _ Ea Eb). exact Hb.
    + cbn in Ha. congruence.
  - rewrite bt_star.
    assert (Hloop : forall fuel s0, length s0 < fuel -> snd (star_loop a k fuel s0) <> MFuel).
    { induction fuel as [|f IHf]; intros s0 Hlt; [lia|].
      assert (Hc : forall s', snd (cont_of a k f s0 s') <> MFuel).
      { intro s'. unfold cont_of. destruct (length s' <? length s0) eqn:El.
        - apply Nat.ltb_lt in El. apply IHf. lia.
        - apply Hk. }
      pose proof (IHa s0 _ Hc) as Ha.
      destruct (bt a s0 (cont_of a k f s0)) as [d o] eqn:Eb. cbn [snd] in Ha.
      destruct o as [sf| |].
      - rewrite (loop_succ a k f s0 _ _ Eb ltac:(discriminate)). cbn. discriminate.
      - rewrite (loop_fail a k f s0 _ _ _ Eb (pair_eta _)). apply Hk.
      - congruence. }
    apply Hloop. lia.
  - destruct s as [|x [|y t]].
    + cbn [Regex.bt]. pose proof (Hk []) as H. destruct (k []). exact H.
    + cbn [Regex.bt]. destruct (x =? 10)%Z; [|cbn; discriminate].
      pose proof (Hk [x]) as H. destruct (k [x]). exact H.
    + cbn. discriminate.
Qed.

Corollary bt_match_no_fuel : forall r s, snd (bt_match U r s) <> MFuel.
Proof. intros r s. apply bt_no_fuel. intro s'. cbn. discriminate. Qed.

(* a match leaves a suffix no longer than the input (for every regex) *)
Lemma bt_len : forall r s k n, (forall s' sf, length s' <= n -> snd (k s') = MSome sf -> length sf <= n) ->
  length s <= n -> forall sf, snd (bt r s k) = MSome sf -> length sf <= n.
Proof.
  induction r as [|c|a IHa b IHb|a IHa b IHb|a IHa|]; intros s k n Hk Hs sf Hr.
  - exact (Hk s sf Hs Hr).
  - destruct s as [|x t]; [cbn in Hr; discriminate|]. destruct (mem c x) eqn:Em.
    + rewrite (chr_hit c x t k _ _ Em (pair_eta _)) in Hr. cbn [snd length] in *.
      apply (Hk t sf); [lia|exact Hr].
    + rewrite (chr_miss c x t k Em) in Hr. cbn in Hr. discriminate.
  - change (bt (Cat a b) s k) with (bt a s (fun s' => bt b s' k)) in Hr.
    apply (IHa s (fun s' => bt b s' k) n) with (sf := sf); [|exact Hs|exact Hr].
    intros s' sf' Hs' Hr'. apply (IHb s' k n Hk Hs' sf' Hr').
  - destruct (bt a s k) as [da oa] eqn:Ea. destruct (bt b s k) as [db ob] eqn:Eb.
    destruct oa as [sf0| |].
    + rewrite (alt_succ a b s k _ _ Ea ltac:(discriminate)) in Hr. cbn in Hr.
      apply (IHa s k n Hk Hs sf). rewrite Ea. exact Hr.
    + rewrite (alt_fail a b s k _ _ _ Ea Eb) in Hr. cbn in Hr.
      apply (IHb s k n Hk Hs sf). rewrite Eb. exact Hr.
    + rewrite (alt_succ a b s k _ _ Ea ltac:(discriminate)) in Hr. cbn in Hr. discriminate.
  - rewrite bt_star in Hr.
    assert (Hloop : forall fuel s0 sf0, length s0 <= n -> snd (star_loop a k fuel s0) = MSome sf0 ->
                    length sf0 <= n).
    { induction fuel as [|f IHf]; intros s0 sf0 Hs0 Hr0; [cbn in Hr0; discriminate|].
      assert (Hc : forall s' sf', length s' <= n -> snd (cont_of a k f s0 s') = MSome sf' -> length sf' <= n).
      { intros s' sf' Hs' Hr'. unfold cont_of in Hr'. destruct (length s' <? length s0).
        - apply (IHf s' sf' Hs' Hr').
        - apply (Hk s' sf' Hs' Hr'). }
      destruct (bt a s0 (cont_of a k f s0)) as [d o] eqn:Eb.
      destruct o as [sf1| |].
      - rewrite (loop_succ a k f s0 _ _ Eb ltac:(discriminate)) in Hr0. cbn in Hr0.
        apply (IHa s0 (cont_of a k f s0) n Hc Hs0 sf0). rewrite Eb. exact Hr0.
      - rewrite (loop_fail a k f s0 _ _ _ Eb (pair_eta _)) in Hr0. cbn in Hr0.
        apply (Hk s0 sf0 Hs0 Hr0).
      - rewrite (loop_succ a k f s0 _ _ Eb ltac:(discriminate)) in Hr0. cbn in Hr0. discriminate. }
    apply (Hloop _ s sf Hs Hr).
  - destruct s as [|x [|y t]].
    + cbn [Regex.bt] in Hr. apply (Hk [] sf Hs). destruct (k []). exact Hr.
    + cbn [Regex.bt] in Hr. destruct (x =? 10)%Z; [|cbn in Hr; discriminate].
      apply (Hk [x] sf Hs). destruct (k [x]). exact Hr.
    + cbn in Hr. discriminate.
Qed.

Corollary bt_match_len : forall r s sf, snd (bt_match U r s) = MSome sf -> length sf <= length s.
Proof.
  intros r s sf H. apply (bt_len r s accept (length s)) with (sf := sf); [|lia|exact H].
  intros s' sf' Hs' Hr'. cbn in Hr'. injection Hr' as <-. exact Hs'.
Qed.


(* the rest of the input after a match is a suffix of the input (for every regex) *)
Definition is_suffix (l s : list Z) : Prop := exists pre, s = pre ++ l.
Lemma is_suffix_refl : forall s, is_suffix s s.
Proof. intro s. exists []. reflexivity. Qed.
Lemma is_suffix_tail : forall x t s, is_suffix (x :: t) s -> is_suffix t s.
Proof. intros x t s [pre ->]. exists (pre ++ [x]). rewrite <- app_assoc. reflexivity. Qed.
Lemma is_suffix_trans : forall a b c, is_suffix a b -> is_suffix b c -> is_suffix a c.
Proof. intros a b c [p ->] [q ->]. exists (q ++ p). rewrite app_assoc. reflexivity. Qed.
Lemma is_suffix_cons : forall x l s, is_suffix l s -> is_suffix l (x :: s).
Proof. intros x l s [pre ->]. exists (x :: pre). reflexivity. Qed.
Lemma is_suffix_len : forall l s, is_suffix l s -> length l <= length s.
Proof. intros l s [pre ->]. rewrite app_length. lia. Qed.
Lemma is_suffix_In : forall l s x, is_suffix l s -> In x l -> In x s.
Proof. intros l s x [pre ->] H. apply in_or_app. right. exact H. Qed.

Lemma bt_closed : forall (P : list Z -> Prop), (forall x t, P (x :: t) -> P t) ->
  forall r s k, (forall s' sf, P s' -> snd (k s') = MSome sf -> P sf) ->
  P s -> forall sf, snd (bt r s k) = MSome sf -> P sf.
Proof.
  intros P Ptl.
  induction r as [|c|a IHa b IHb|a IHa b IHb|a IHa|]; intros s k Hk Hs sf Hr.
  - exact (Hk s sf Hs Hr).
  - destruct s as [|x t]; [cbn in Hr; discriminate|]. destruct (mem c x) eqn:Em.
    + rewrite (chr_hit c x t k _ _ Em (pair_eta _)) in Hr. cbn [snd] in Hr.
      apply (Hk t sf); [apply (Ptl x t Hs)|exact Hr].
    + rewrite (chr_miss c x t k Em) in Hr. cbn in Hr. discriminate.
  - change (bt (Cat a b) s k) with (bt a s (fun s' => bt b s' k)) in Hr.
    apply (IHa s (fun s' => bt b s' k)) with (sf := sf); [|exact Hs|exact Hr].
    intros s' sf' Hs' Hr'. apply (IHb s' k Hk Hs' sf' Hr').
  - destruct (bt a s k) as [da oa] eqn:Ea. destruct (bt b s k) as [db ob] eqn:Eb.
    destruct oa as [sf0| |].
    + rewrite (alt_succ a b s k _ _ Ea ltac:(discriminate)) in Hr. cbn in Hr.
      apply (IHa s k Hk Hs sf). rewrite Ea. exact Hr.
    + rewrite (alt_fail a b s k _ _ _ Ea Eb) in Hr. cbn in Hr.
      apply (IHb s k Hk Hs sf). rewrite Eb. exact Hr.
    + rewrite (alt_succ a b s k _ _ Ea ltac:(discriminate)) in Hr. cbn in Hr. discriminate.
  - rewrite bt_star in Hr.
    assert (Hloop : forall fuel s0 sf0, P s0 -> snd (star_loop a k fuel s0) = MSome sf0 -> P sf0).
    { induction fuel as [|f IHf]; intros s0 sf0 Hs0 Hr0; [cbn in Hr0; discriminate|].
      assert (Hc : forall s' sf', P s' -> snd (cont_of a k f s0 s') = MSome sf' -> P sf').
      { intros s' sf' Hs' Hr'. unfold cont_of in Hr'. destruct (length s' <? length s0).
        - apply (IHf s' sf' Hs' Hr').
        - apply (Hk s' sf' Hs' Hr'). }
      destruct (bt a s0 (cont_of a k f s0)) as [d o] eqn:Eb.
      destruct o as [sf1| |].
      - rewrite (loop_succ a k f s0 _ _ Eb ltac:(discriminate)) in Hr0. cbn in Hr0.
        apply (IHa s0 (cont_of a k f s0) Hc Hs0 sf0). rewrite Eb. exact Hr0.
      - rewrite (loop_fail a k f s0 _ _ _ Eb (pair_eta _)) in Hr0. cbn in Hr0.
        apply (Hk s0 sf0 Hs0 Hr0).
      - rewrite (loop_succ a k f s0 _ _ Eb ltac:(discriminate)) in Hr0. cbn in Hr0. discriminate. }
    apply (Hloop _ s sf Hs Hr).
  - destruct s as [|x [|y t]].
    + cbn [Regex.bt] in Hr. apply (Hk [] sf Hs). destruct (k []). exact Hr.
    + cbn [Regex.bt] in Hr. destruct (x =? 10)%Z; [|cbn in Hr; discriminate].
      apply (Hk [x] sf Hs). destruct (k [x]). exact Hr.
    + cbn in Hr. discriminate.
Qed.

Corollary bt_match_suffix : forall r s sf, snd (bt_match U r s) = MSome sf -> is_suffix sf s.
Proof.
  intros r s sf H.
  apply (bt_closed (fun l => is_suffix l s) (fun x t => is_suffix_tail x t s) r s accept) with (sf := sf);
    [|apply is_suffix_refl|exact H].
  intros s' sf' Hs' Hr'. cbn in Hr'. injection Hr' as <-. exact Hs'.
Qed.

End Proofs.
