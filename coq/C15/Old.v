(* C15/Old.v -- the definitions py2coq generated from xdsl/interpreters/arith.py BEFORE the repairs
   4351108 (shli), 6674019 (shrsi), 2cae97b (divsi/remsi/floordivsi), e4f2eb2 (cmpi eq/ne/signed),
   copied verbatim from coq/Gen/C15_arith.v of the snapshot tree (suffix _old).  Definitions only;
   used by ProofsOld.v to keep the refutations of the pre-repair code on record
   (known_findings.d/C15.json: fixed entries). *)
From Coq Require Import ZArith Bool.
From XV Require Import C15.Py.
Local Open Scope Z_scope.
Local Open Scope bool_scope.
Local Open Scope py_scope.

Definition run_cmpi_old (pred w a0 a1 : Z) : option Z :=
  match pred with
  | 0 => (Some (Z.b2z (a0 =? a1)))
  | 1 => (Some (Z.b2z (negb (a0 =? a1))))
  | 2 => (Some (Z.b2z (a0 <? a1)))
  | 3 => (Some (Z.b2z (a0 <=? a1)))
  | 4 => (Some (Z.b2z (a1 <? a0)))
  | 5 => (Some (Z.b2z (a1 <=? a0)))
  | 6 => (Some (Z.b2z (a0 <? a1)))
  | 7 => (Some (Z.b2z (a0 <=? a1)))
  | 8 => (Some (Z.b2z (a1 <? a0)))
  | 9 => (Some (Z.b2z (a1 <=? a0)))
  | _ => (None)
  end.

Definition run_shli_old (w a0 a1 : Z) : option Z :=
  let lhs := a0 in
  let rhs := a1 in
  if 0 <=? rhs then
  py_lshift lhs rhs
  else None.

Definition run_shrsi_old (w a0 a1 : Z) : option Z :=
  let lhs := a0 in
  let rhs := a1 in
  if 0 <=? rhs then
  py_rshift lhs rhs
  else None.

Definition run_divsi_old (w a0 a1 : Z) : option Z :=
  let lhs := a0 in
  let rhs := a1 in
  if negb (rhs =? 0) then
  let? div := py_floordiv (Z.abs lhs) (Z.abs rhs) in
  if negb (Bool.eqb (0 <? lhs) (0 <? rhs)) then
  let div := - div in
  Some div
  else
  Some div
  else None.

Definition run_remsi_old (w a0 a1 : Z) : option Z :=
  let lhs := a0 in
  let rhs := a1 in
  if negb (rhs =? 0) then
  let? div := py_floordiv (Z.abs lhs) (Z.abs rhs) in
  if negb (Bool.eqb (0 <? lhs) (0 <? rhs)) then
  let div := - div in
  Some (lhs - (div * rhs))
  else
  Some (lhs - (div * rhs))
  else None.

Definition run_floordivsi_old (w a0 a1 : Z) : option Z :=
  let lhs := a0 in
  let rhs := a1 in
  if negb (rhs =? 0) then
  py_floordiv lhs rhs
  else None.
