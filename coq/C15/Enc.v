(* C15/Enc.v -- encoders and exhaustive-sweep enumerators for the correspondence check of C15
   (definitions only, evaluated by vm_compute in generated case files). *)
From Coq Require Import ZArith List Bool.
From XV Require Import Base.Show C15.Py C15.Model.
Import ListNotations.
Local Open Scope Z_scope.

Definition enc_oz (o : option Z) : sx := match o with None => L [] | Some z => L [I z] end.
Definition enc_ozz (o : option (Z * Z)) : sx :=
  match o with None => L [] | Some (a, b) => L [I a; I b] end.

Definition enc_res (r : res (list Z)) : sx :=
  match r with
  | Ok vs => L [I 0; sLZ vs]
  | Raise => L [I 1]
  | OutOfFuel => L [I 2]
  end.

(* all representatives of the signless range of width w, ascending: -2^(w-1) .. 2^w - 1 *)
Definition zrange (lo : Z) (n : nat) : list Z := map (fun i => lo + Z.of_nat i) (seq 0 n).
Definition signless_reps (w : Z) : list Z := zrange (- 2 ^ (w - 1)) (Z.to_nat (2 ^ w + 2 ^ (w - 1))).

(* every operand pair of a binary function, row-major in signless_reps order *)
Definition sweep2 (f : Z -> Z -> Z -> option Z) (w : Z) : sx :=
  L (flat_map (fun a => map (fun b => enc_oz (f w a b)) (signless_reps w)) (signless_reps w)).

Definition sweep1 (f : Z -> Z -> option Z) (w : Z) : sx :=
  L (map (fun a => enc_oz (f a w)) (zrange (- 2 ^ w - 1) (Z.to_nat (3 * 2 ^ w + 3)))).

Definition sweep_cast (f : Z -> Z -> Z -> option Z) (w_in w_out : Z) : sx :=
  L (map (fun a => enc_oz (f w_in w_out a)) (signless_reps w_in)).

Definition sx_concat (l : list sx) : sx :=
  L (flat_map (fun s => match s with L x => x | I _ => [] end) l).

Definition prog_case (fuel : Z) (funcs : list (list block)) (args : list Z) : sx :=
  enc_res (call funcs (Z.to_nat fuel) 0 args).
