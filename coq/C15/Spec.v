(* C15/Spec.v -- MLIR semantics of the arith integer operations on bit-vectors of any
   width w >= 1, written on *bit patterns* (the unsigned number 0 <= u < 2^w that has
   exactly those bits).  Independent of the xDSL code; nothing here is generated.
   Definitions only.

   A run-time value of the xDSL interpreter is a Python int x that *represents* the bit
   pattern  wrap w x = x mod 2^w.   xDSL stores a signless constant by its signed
   representative (255 : i8 is stored as -1, true : i1 as -1): `canon`.  The interpreter's
   own helpers (xdsl.utils.comparisons) accept every representative in the "signless
   range" [-2^(w-1), 2^w): `signless`.                                               *)
From Coq Require Import ZArith Bool.
Local Open Scope Z_scope.

Definition wrap (w x : Z) : Z := x mod 2 ^ w.                     (* bit pattern of x *)
Definition sgn (w u : Z) : Z := if u <? 2 ^ (w - 1) then u else u - 2 ^ w.
                                                  (* two's-complement value of pattern u *)
Definition canon (w x : Z) : Prop := - 2 ^ (w - 1) <= x < 2 ^ (w - 1).
Definition signless (w x : Z) : Prop := - 2 ^ (w - 1) <= x < 2 ^ w.
Definition anyrep (w x : Z) : Prop := True.

(* ---- binary operations: result pattern as a function of the operand patterns ---- *)
Definition spec_addi (w ua ub : Z) : Z := wrap w (ua + ub).
Definition spec_subi (w ua ub : Z) : Z := wrap w (ua - ub).
Definition spec_muli (w ua ub : Z) : Z := wrap w (ua * ub).
Definition spec_andi (w ua ub : Z) : Z := Z.land ua ub.
Definition spec_ori  (w ua ub : Z) : Z := Z.lor ua ub.
Definition spec_xori (w ua ub : Z) : Z := Z.lxor ua ub.
Definition spec_shli (w ua ub : Z) : Z := wrap w (ua * 2 ^ ub).
Definition spec_shrui (w ua ub : Z) : Z := ua / 2 ^ ub.
Definition spec_shrsi (w ua ub : Z) : Z := wrap w (sgn w ua / 2 ^ ub).      (* floor: arithmetic shift *)
Definition spec_divsi (w ua ub : Z) : Z := wrap w (Z.quot (sgn w ua) (sgn w ub)).   (* round to zero *)
Definition spec_remsi (w ua ub : Z) : Z := wrap w (Z.rem (sgn w ua) (sgn w ub)).    (* sign of dividend *)
Definition spec_floordivsi (w ua ub : Z) : Z := wrap w (sgn w ua / sgn w ub).      (* round to -inf *)
Definition spec_divui (w ua ub : Z) : Z := ua / ub.
Definition spec_remui (w ua ub : Z) : Z := ua mod ub.

(* ---- where MLIR defines the result (otherwise poison / undefined behaviour) ---- *)
Definition always (w ua ub : Z) : Prop := True.
Definition shift_defined (w ua ub : Z) : Prop := ub < w.
Definition sdiv_defined (w ua ub : Z) : Prop :=
  sgn w ub <> 0 /\ ~ (sgn w ua = - 2 ^ (w - 1) /\ sgn w ub = -1).
Definition udiv_defined (w ua ub : Z) : Prop := ub <> 0.

(* ---- cmpi: predicate numbering of the arith dialect ---- *)
Definition spec_cmpi (pred w ua ub : Z) : option bool :=
  match pred with
  | 0 => Some (ua =? ub)                      (* eq  *)
  | 1 => Some (negb (ua =? ub))               (* ne  *)
  | 2 => Some (sgn w ua <? sgn w ub)          (* slt *)
  | 3 => Some (sgn w ua <=? sgn w ub)         (* sle *)
  | 4 => Some (sgn w ub <? sgn w ua)          (* sgt *)
  | 5 => Some (sgn w ub <=? sgn w ua)         (* sge *)
  | 6 => Some (ua <? ub)                      (* ult *)
  | 7 => Some (ua <=? ub)                     (* ule *)
  | 8 => Some (ub <? ua)                      (* ugt *)
  | 9 => Some (ub <=? ua)                     (* uge *)
  | _ => None
  end.

(* ---- casts ---- *)
Definition spec_trunc (w_in w_out ua : Z) : Z := wrap w_out ua.
Definition spec_sext (w_in w_out ua : Z) : Z := wrap w_out (sgn w_in ua).
Definition spec_zext (w_in w_out ua : Z) : Z := ua.
Definition spec_index_cast (w_in w_out ua : Z) : Z :=
  if w_out <? w_in then spec_trunc w_in w_out ua
  else if w_in <? w_out then spec_sext w_in w_out ua else ua.

(* ---- the shape of every per-operation theorem ----
   `run` is the function generated from the interpreter's source (coq/Gen/C15_arith.v):
   for every width, for all operand representatives in `dom` on which MLIR defines the
   result, the interpreter does not raise, its result lies in `rng` of the type, and its
   bit pattern is the one MLIR prescribes for the operands' bit patterns.            *)
Definition binop_ok (dom rng : Z -> Z -> Prop) (run : Z -> Z -> Z -> option Z)
    (spec : Z -> Z -> Z -> Z) (defined : Z -> Z -> Z -> Prop) : Prop :=
  forall w a b, 1 <= w -> dom w a -> dom w b -> defined w (wrap w a) (wrap w b) ->
  exists r, run w a b = Some r /\ rng w r /\ wrap w r = spec w (wrap w a) (wrap w b).

(* cmpi: the result is an i1; its bit pattern is 1 for true *)
Definition cmpi_ok (dom : Z -> Z -> Prop) (rng : Z -> Z -> Prop)
    (run : Z -> Z -> Z -> Z -> option Z) (pred : Z) : Prop :=
  forall w a b, 1 <= w -> dom w a -> dom w b ->
  exists r t, run pred w a b = Some r /\ spec_cmpi pred w (wrap w a) (wrap w b) = Some t /\
              rng 1 r /\ wrap 1 r = Z.b2z t.

Definition cast_ok (dom rng : Z -> Z -> Prop) (run : Z -> Z -> Z -> option Z)
    (spec : Z -> Z -> Z -> Z) : Prop :=
  forall w_in w_out a, 1 <= w_in -> 1 <= w_out -> dom w_in a ->
  exists r, run w_in w_out a = Some r /\ rng w_out r /\
            wrap w_out r = spec w_in w_out (wrap w_in a).
