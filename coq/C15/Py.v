(* C15/Py.v -- the fixed prelude every py2coq-generated file (coq/Gen/C15_*.v) imports.
   Definitions only.  Python ints are Z; a Python expression that can raise is an
   `option` (None = "an exception was raised"); the operators of Python that can raise
   on integers are given here once, with CPython's semantics:
     a // b, a % b   raise ZeroDivisionError when b = 0, otherwise floor division /
                     remainder with the sign of the divisor  (= Z.div / Z.modulo)
     a << n, a >> n  raise ValueError when n < 0             (= Z.shiftl / Z.shiftr)
   Everything else the translator emits (+ - * & | ^ ~ abs min max comparisons) is
   total on Z and is written with the Coq standard library function directly. *)
From Coq Require Import ZArith Bool.
Local Open Scope Z_scope.

Definition bind {A B : Type} (o : option A) (f : A -> option B) : option B :=
  match o with Some a => f a | None => None end.

Declare Scope py_scope.
Delimit Scope py_scope with py.
Notation "'let?' x ':=' e 'in' k" := (bind e (fun x => k))
  (at level 200, x name, e at level 200, k at level 200, right associativity) : py_scope.

Definition py_floordiv (a b : Z) : option Z := if b =? 0 then None else Some (a / b).
Definition py_mod (a b : Z) : option Z := if b =? 0 then None else Some (a mod b).
Definition py_lshift (a n : Z) : option Z := if n <? 0 then None else Some (Z.shiftl a n).
Definition py_rshift (a n : Z) : option Z := if n <? 0 then None else Some (Z.shiftr a n).
