(* C15/Model.v -- executable model of the interpreter's control part for integer programs:
   Interpreter.run_ssacfg_region / _run_op (xdsl/interpreter.py), ScfFunctions.run_if / run_for,
   CfFunctions.run_br / run_cond_br, FuncFunctions.run_return / run_call / call_func.
   The arithmetic is NOT modelled here: every arith op calls the definition GENERATED from
   xdsl/interpreters/arith.py (coq/Gen/C15_arith.v).   Definitions only, no proofs.

   SSA values are numbers (Z, unique per module; Z rather than nat only so that the generated
   case files parse quickly); the environment is a newest-first association
   list, which is what the chain of ScopedDict scopes amounts to for lookups (innermost scope
   first); leaving a region drops everything it bound (`self._ctx = initial_scope`).
   Python exceptions are the result `Raise` (never a default value); `OutOfFuel` is the
   model's own bound on block transitions / region nesting.                                  *)
From Coq Require Import ZArith List Bool.
From XV Require Import C15.Py Gen.C15_comparisons Gen.C15_arith.
Import ListNotations.
Local Open Scope Z_scope.

Inductive binop := Addi | Subi | Muli | Andi | Ori | Xori | Shli | Shrsi | Divsi | Remsi | Floordivsi.

Definition run_binop (k : binop) : Z -> Z -> Z -> option Z :=
  match k with
  | Addi => run_addi | Subi => run_subi | Muli => run_muli
  | Andi => run_andi | Ori => run_ori | Xori => run_xori
  | Shli => run_shli | Shrsi => run_shrsi
  | Divsi => run_divsi | Remsi => run_remsi | Floordivsi => run_floordivsi
  end.

(* terminators: func.return and scf.yield both return the operand values *)
Inductive term :=
| TRet (vs : list Z)
| TBr (target : Z) (args : list Z)                                  (* cf.br *)
| TCondBr (c : Z) (bt : Z) (argt : list Z) (be : Z) (arge : list Z).   (* cf.cond_br *)

Inductive op :=
| OConst (res : Z) (v : Z)                              (* arith.constant: the stored int *)
| OBin (res : Z) (k : binop) (w : Z) (a b : Z)
| OCmpi (res : Z) (pred w : Z) (a b : Z)
| OCast (res : Z) (w_in w_out : Z) (a : Z)            (* arith.index_cast *)
| OIf (ress : list Z) (c : Z) (thn els : list block)  (* scf.if *)
| OFor (ress : list Z) (lb ub step : Z) (inits : list Z) (body : list block)   (* scf.for *)
| OCall (ress : list Z) (callee : Z) (args : list Z)                       (* func.call *)
with block := Blk (bargs : list Z) (ops : list op) (t : term).

Inductive res (A : Type) := Ok (a : A) | Raise | OutOfFuel.
Arguments Ok {A} a. Arguments Raise {A}. Arguments OutOfFuel {A}.

Definition env := list (Z * Z).

Fixpoint lookup (e : env) (v : Z) : option Z :=
  match e with
  | [] => None
  | (k, x) :: r => if k =? v then Some x else lookup r v
  end.

Fixpoint lookups (e : env) (vs : list Z) : option (list Z) :=
  match vs with
  | [] => Some []
  | v :: r => match lookup e v, lookups e r with
              | Some x, Some xs => Some (x :: xs)
              | _, _ => None          (* KeyError *)
              end
  end.

(* set_values(zip(names, values)): zip stops at the shorter list *)
Fixpoint bind_all (names : list Z) (vals : list Z) (e : env) : env :=
  match names, vals with
  | n :: ns, v :: vs => bind_all ns vs ((n, v) :: e)
  | _, _ => e
  end.

(* _run_op: the number of values an implementation returns must be the op's result count *)
Definition set_results (ress : list Z) (vals : list Z) (e : env) : res env :=
  if Nat.eqb (length ress) (length vals) then Ok (bind_all ress vals e) else Raise.

(* len(range(lb, ub, step)); step = 0 is a ValueError *)
Definition range_len (lb ub step : Z) : option Z :=
  if step =? 0 then None
  else if 0 <? step then Some (Z.max 0 ((ub - lb + step - 1) / step))
  else Some (Z.max 0 ((lb - ub - step - 1) / (- step))).

Definition lift1 (o : option Z) (r : Z) (e : env) : res env :=
  match o with Some v => Ok ((r, v) :: e) | None => Raise end.

Section Run.
  Variable funcs : list (list block).      (* func.func bodies, by index *)

  (* run_ssacfg_region; `fuel` bounds (region nesting depth + block transitions) *)
  Fixpoint run_region (fuel : nat) (e : env) (blocks : list block) (args : list Z) : res (list Z) :=
    match fuel with
    | O => OutOfFuel
    | S f =>
      match blocks with
      | [] => Ok []                                              (* `if not region.blocks` *)
      | b0 :: _ =>
        (fix run_block (bfuel : nat) (e : env) (b : block) (args : list Z) {struct bfuel} : res (list Z) :=
           match bfuel with
           | O => OutOfFuel
           | S bf =>
             let '(Blk bargs ops t) := b in
             let e1 := bind_all bargs args e in
             let run_ops :=
               (fix run_ops (ops : list op) (e : env) {struct ops} : res env :=
                  match ops with
                  | [] => Ok e
                  | o :: rest =>
                    let r :=
                      match o with
                      | OConst r v => Ok ((r, v) :: e)
                      | OBin r k w a b =>
                          match lookups e [a; b] with
                          | Some [x; y] => lift1 (run_binop k w x y) r e
                          | _ => Raise
                          end
                      | OCmpi r p w a b =>
                          match lookups e [a; b] with
                          | Some [x; y] => lift1 (run_cmpi p w x y) r e
                          | _ => Raise
                          end
                      | OCast r wi wo a =>
                          match lookup e a with
                          | Some x => lift1 (run_index_cast wi wo x) r e
                          | None => Raise
                          end
                      | OIf ress c thn els =>
                          match lookup e c with
                          | Some cv =>
                              match run_region f e (if cv =? 0 then els else thn) [] with
                              | Ok vals => set_results ress vals e
                              | Raise => Raise
                              | OutOfFuel => OutOfFuel
                              end
                          | None => Raise
                          end
                      | OFor ress lb ub step inits body =>
                          match lookups e [lb; ub; step], lookups e inits with
                          | Some [l; u; s], Some iv =>
                              match range_len l u s with
                              | None => Raise
                              | Some n =>
                                  let loop :=
                                    (fix loop (k : nat) (i : Z) (acc : list Z) {struct k} : res (list Z) :=
                                       match k with
                                       | O => Ok acc
                                       | S k' =>
                                           match run_region f e body (i :: acc) with
                                           | Ok acc' => loop k' (i + s) acc'
                                           | x => x
                                           end
                                       end) in
                                  match loop (Z.to_nat n) l iv with
                                  | Ok vals => set_results ress vals e
                                  | Raise => Raise
                                  | OutOfFuel => OutOfFuel
                                  end
                              end
                          | _, _ => Raise
                          end
                      | OCall ress callee args =>
                          match lookups e args, nth_error funcs (Z.to_nat callee) with
                          | Some av, Some body =>
                              match run_region f e body av with
                              | Ok vals => set_results ress vals e
                              | Raise => Raise
                              | OutOfFuel => OutOfFuel
                              end
                          | _, _ => Raise
                          end
                      end in
                    match r with
                    | Ok e' => run_ops rest e'
                    | Raise => Raise
                    | OutOfFuel => OutOfFuel
                    end
                  end) in
             match run_ops ops e1 with
             | Ok e2 =>
                 match t with
                 | TRet vs => match lookups e2 vs with Some xs => Ok xs | None => Raise end
                 | TBr tgt vs =>
                     match lookups e2 vs, nth_error blocks (Z.to_nat tgt) with
                     | Some xs, Some nb => run_block bf e2 nb xs
                     | _, _ => Raise
                     end
                 | TCondBr c bt at_ be ae =>
                     match lookup e2 c with
                     | Some cv =>
                         let '(tgt, vs) := if cv =? 0 then (be, ae) else (bt, at_) in
                         match lookups e2 vs, nth_error blocks (Z.to_nat tgt) with
                         | Some xs, Some nb => run_block bf e2 nb xs
                         | _, _ => Raise
                         end
                     | None => Raise
                     end
                 end
             | Raise => Raise
             | OutOfFuel => OutOfFuel
             end
           end) f e b0 args
      end
    end.

  (* interpreter.call_op(<func #i>, args) *)
  Definition call (fuel : nat) (i : Z) (args : list Z) : res (list Z) :=
    match nth_error funcs (Z.to_nat i) with
    | Some body => run_region fuel [] body args
    | None => Raise
    end.
End Run.
