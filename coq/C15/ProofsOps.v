(* C15/ProofsOps.v -- theorems about the GENERATED definitions (coq/Gen/C15_*.v) that hold at
   full strength on the current tree: the helpers of xdsl.utils.comparisons and the operations
   whose interpreter implementation normalises operands and result.  One lemma per operation,
   so that a source change that breaks one operation names it. *)
From Coq Require Import ZArith Bool Lia ZifyBool.
From XV Require Import C15.Py C15.Spec Gen.C15_comparisons Gen.C15_arith C15.ProofsBase.
Local Open Scope Z_scope.

(* ------------------------------------------------------------------ xdsl.utils.comparisons *)
Lemma to_unsigned_range : forall w x, 0 <= w ->
  exists r, to_unsigned x w = Some r /\ 0 <= r < 2 ^ w /\ r = wrap w x.
Proof. intros. rewrite to_unsigned_eval by lia. eexists; split; [reflexivity|]. split; [apply wrap_range; lia | reflexivity]. Qed.

Lemma to_signed_range : forall w x, 1 <= w ->
  exists r, to_signed x w = Some r /\ canon w r /\ wrap w r = wrap w x.
Proof.
  intros. rewrite to_signed_eval by lia. eexists; split; [reflexivity|]. split.
  - apply sgn_wrap_canon; lia.
  - rewrite wrap_sgn, wrap_wrap by lia. reflexivity.
Qed.

Lemma signed_unsigned_inverse : forall w x, 1 <= w ->
  (canon w x -> exists u, to_unsigned x w = Some u /\ to_signed u w = Some x) /\
  (0 <= x < 2 ^ w -> exists s, to_signed x w = Some s /\ to_unsigned s w = Some x).
Proof.
  intros w x Hw. split; intros Hx.
  - rewrite to_unsigned_eval by lia. eexists; split; [reflexivity|].
    rewrite to_signed_eval, wrap_wrap by lia. f_equal. apply canon_sgn_wrap; assumption.
  - rewrite to_signed_eval by lia. eexists; split; [reflexivity|].
    rewrite to_unsigned_eval by lia. f_equal. rewrite wrap_sgn, wrap_wrap by lia. apply wrap_small; lia.
Qed.

(* both normalisations are the identity on every representative already in their range *)
Lemma normalisation_idempotent : forall w x, 1 <= w ->
  (canon w x -> to_signed x w = Some x) /\ (0 <= x < 2 ^ w -> to_unsigned x w = Some x).
Proof.
  intros w x Hw; split; intros Hx.
  - rewrite to_signed_eval by lia. f_equal. apply canon_sgn_wrap; assumption.
  - rewrite to_unsigned_eval by lia. f_equal. apply wrap_small; lia.
Qed.

Lemma value_ranges : forall w, 1 <= w ->
  unsigned_upper_bound w = Some (2 ^ w) /\
  signed_lower_bound w = Some (- 2 ^ (w - 1)) /\
  signed_upper_bound w = Some (2 ^ (w - 1)) /\
  unsigned_value_range w = Some (0, 2 ^ w) /\
  signed_value_range w = Some (- 2 ^ (w - 1), 2 ^ (w - 1)) /\
  signless_value_range w = Some (- 2 ^ (w - 1), 2 ^ w).
Proof.
  intros w Hw. unfold unsigned_value_range, signed_value_range, signless_value_range.
  rewrite unsigned_upper_bound_eval, signed_lower_bound_eval, signed_upper_bound_eval by lia.
  repeat split; reflexivity.
Qed.

(* a negative width makes every helper raise (ValueError: negative shift count) *)
Lemma negative_width_raises : forall w x, w < 0 -> to_unsigned x w = None /\ to_signed x w = None.
Proof.
  intros w x Hw. unfold to_unsigned, to_signed, unsigned_upper_bound, py_lshift.
  destruct (w <? 0) eqn:E; [split; reflexivity | lia].
Qed.

(* ------------------------------------------------------------------ ring and bitwise operations *)
Ltac norm_binop :=
  intros w a b Hw _ _ _; py_eval; eexists; split; [reflexivity|]; split;
  [apply sgn_wrap_canon; lia | rewrite wrap_sgn, wrap_wrap by lia].

Lemma addi_ok : binop_ok anyrep canon run_addi spec_addi always.
Proof.
  unfold run_addi. norm_binop. unfold spec_addi.
  rewrite wrap_add, !wrap_sgn, !wrap_wrap by lia. reflexivity.
Qed.

Lemma subi_ok : binop_ok anyrep canon run_subi spec_subi always.
Proof.
  unfold run_subi. norm_binop. unfold spec_subi.
  rewrite wrap_sub, !wrap_sgn, !wrap_wrap by lia. reflexivity.
Qed.

Lemma muli_ok : binop_ok anyrep canon run_muli spec_muli always.
Proof.
  unfold run_muli. norm_binop. unfold spec_muli.
  rewrite wrap_mul, !wrap_sgn, !wrap_wrap by lia. reflexivity.
Qed.

Lemma andi_ok : binop_ok anyrep canon run_andi spec_andi always.
Proof.
  unfold run_andi. norm_binop. unfold spec_andi.
  rewrite wrap_land, !wrap_sgn, !wrap_wrap by lia. reflexivity.
Qed.

Lemma ori_ok : binop_ok anyrep canon run_ori spec_ori always.
Proof.
  unfold run_ori. norm_binop. unfold spec_ori.
  rewrite wrap_lor, !wrap_sgn, !wrap_wrap by lia. reflexivity.
Qed.

Lemma xori_ok : binop_ok anyrep canon run_xori spec_xori always.
Proof.
  unfold run_xori. norm_binop. unfold spec_xori.
  rewrite wrap_lxor, !wrap_sgn, !wrap_wrap by lia. reflexivity.
Qed.

(* ------------------------------------------------------------------ index_cast *)
(* narrowing truncates, widening sign-extends, equal widths pass the value through; the
   result is canonical whenever the widths differ (any representative accepted) *)
Lemma index_cast_ok_signless : cast_ok signless signless run_index_cast spec_index_cast.
Proof.
  intros w_in w_out a Hi Ho Ha. unfold run_index_cast, spec_index_cast. cbv zeta.
  destruct (w_out <? w_in) eqn:E1; [|destruct (w_in <? w_out) eqn:E2].
  - py_eval. eexists; split; [reflexivity|]. split.
    + apply canon_signless; [lia|]. apply sgn_wrap_canon; lia.
    + rewrite wrap_sgn, wrap_wrap by lia. unfold spec_trunc. rewrite wrap_trunc by lia. reflexivity.
  - py_eval. eexists; split; [reflexivity|]. split.
    + apply canon_signless; [lia|]. apply (canon_widen w_in w_out); [lia|]. apply sgn_wrap_canon; lia.
    + unfold spec_sext. reflexivity.
  - assert (w_in = w_out) as -> by lia. eexists; split; [reflexivity|]. split; [assumption | reflexivity].
Qed.

Lemma index_cast_ok_canon : cast_ok canon canon run_index_cast spec_index_cast.
Proof.
  intros w_in w_out a Hi Ho Ha. unfold run_index_cast, spec_index_cast. cbv zeta.
  destruct (w_out <? w_in) eqn:E1; [|destruct (w_in <? w_out) eqn:E2].
  - py_eval. eexists; split; [reflexivity|]. split.
    + apply sgn_wrap_canon; lia.
    + rewrite wrap_sgn, wrap_wrap by lia. unfold spec_trunc. rewrite wrap_trunc by lia. reflexivity.
  - py_eval. eexists; split; [reflexivity|]. split.
    + apply (canon_widen w_in w_out); [lia|]. apply sgn_wrap_canon; lia.
    + unfold spec_sext. reflexivity.
  - assert (w_in = w_out) as -> by lia. eexists; split; [reflexivity|]. split; [assumption | reflexivity].
Qed.

(* ------------------------------------------------------------------ pure arithmetic used by the
   signed division family and the arithmetic shift (nothing generated is mentioned here; the
   per-operation lemmas are in ProofsFindings.v on the current tree) *)
Lemma div_bounds d x : 1 <= d ->
  (0 <= x -> 0 <= x / d <= x) /\ (x < 0 -> x <= x / d < 0).
Proof.
  intros Hd. pose proof (Z.div_mod x d ltac:(lia)). pose proof (Z.mod_pos_bound x d ltac:(lia)).
  split; intros; nia.
Qed.

Lemma div_half d x : 2 <= d -> 0 <= x -> 2 * (x / d) <= x.
Proof.
  intros Hd Hx. pose proof (Z.div_mod x d ltac:(lia)). pose proof (Z.mod_pos_bound x d ltac:(lia)).
  assert (0 <= x / d) by (apply Z.div_pos; lia). nia.
Qed.


Lemma shr_canon w a b : 1 <= w -> canon w a -> 0 <= b -> canon w (a / 2 ^ b).
Proof.
  intros Hw Ha Hb. pose proof (pow2_pos b Hb). destruct (div_bounds (2 ^ b) a ltac:(lia)) as [Hp Hn].
  unfold canon in *. pose proof (pow2_pos (w - 1) ltac:(lia)).
  destruct (Z_lt_dec a 0); [specialize (Hn ltac:(lia)) | specialize (Hp ltac:(lia))]; lia.
Qed.

(* the sign-and-magnitude computation of run_divsi / run_remsi is truncated division *)
Lemma signed_div_quot a b : b <> 0 ->
  (if negb (Bool.eqb (0 <? a) (0 <? b)) then - (Z.abs a / Z.abs b) else Z.abs a / Z.abs b) = Z.quot a b.
Proof.
  intros Hb. destruct (Z_lt_dec 0 a) as [Ha|Ha]; destruct (Z_lt_dec 0 b) as [Hb'|Hb'].
  - replace (0 <? a) with true by lia. replace (0 <? b) with true by lia. cbn.
    rewrite !Z.abs_eq by lia. symmetry. apply Z.quot_div_nonneg; lia.
  - replace (0 <? a) with true by lia. replace (0 <? b) with false by lia. cbn.
    rewrite Z.abs_eq, Z.abs_neq by lia.
    rewrite <- (Z.opp_involutive b) at 2. rewrite Z.quot_opp_r by lia. f_equal.
    symmetry. apply Z.quot_div_nonneg; lia.
  - replace (0 <? a) with false by lia. replace (0 <? b) with true by lia. cbn.
    rewrite Z.abs_neq, Z.abs_eq by lia.
    rewrite <- (Z.opp_involutive a) at 2. rewrite Z.quot_opp_l by lia. f_equal.
    symmetry. apply Z.quot_div_nonneg; lia.
  - replace (0 <? a) with false by lia. replace (0 <? b) with false by lia. cbn.
    rewrite !Z.abs_neq by lia.
    rewrite <- (Z.opp_involutive a) at 2. rewrite <- (Z.opp_involutive b) at 2.
    rewrite Z.quot_opp_opp by lia. symmetry. apply Z.quot_div_nonneg; lia.
Qed.

Lemma quot_canon w a b : 1 <= w -> canon w a -> canon w b -> b <> 0 ->
  ~ (a = - 2 ^ (w - 1) /\ b = -1) -> canon w (Z.quot a b).
Proof.
  intros Hw Ha Hb Hb0 Hov. rewrite <- (signed_div_quot a b Hb0).
  pose proof (pow2_pos (w - 1) ltac:(lia)) as HH. unfold canon in *.
  assert (Hd : 1 <= Z.abs b) by lia.
  destruct (div_bounds (Z.abs b) (Z.abs a) Hd) as [Hp _]. specialize (Hp ltac:(lia)).
  destruct (Z.eq_dec (Z.abs b) 1) as [Hb1|Hb1].
  - rewrite Hb1 in *. rewrite Z.div_1_r in *.
    destruct (negb (Bool.eqb (0 <? a) (0 <? b))) eqn:E; lia.
  - pose proof (div_half (Z.abs b) (Z.abs a) ltac:(lia) ltac:(lia)).
    destruct (negb (Bool.eqb (0 <? a) (0 <? b))); lia.
Qed.

Lemma sdiv_defined_canon w a b : 1 <= w -> canon w a -> canon w b ->
  sdiv_defined w (wrap w a) (wrap w b) -> b <> 0 /\ ~ (a = - 2 ^ (w - 1) /\ b = -1).
Proof. intros Hw Ha Hb [H1 H2]. rewrite !canon_sgn_wrap in * by assumption. split; assumption. Qed.



Lemma floordiv_canon w a b : 1 <= w -> canon w a -> canon w b -> b <> 0 ->
  ~ (a = - 2 ^ (w - 1) /\ b = -1) -> canon w (a / b).
Proof.
  intros Hw Ha Hb Hb0 Hov. pose proof (pow2_pos (w - 1) ltac:(lia)) as HH. unfold canon in *.
  destruct (Z_lt_dec 0 b) as [Hpb|Hnb].
  - destruct (div_bounds b a ltac:(lia)) as [Hp Hn].
    destruct (Z_lt_dec a 0); [specialize (Hn ltac:(lia)) | specialize (Hp ltac:(lia))]; lia.
  - rewrite <- (Z.div_opp_opp a b) by lia.
    destruct (div_bounds (- b) (- a) ltac:(lia)) as [Hp Hn].
    destruct (Z_lt_dec (- a) 0); [specialize (Hn ltac:(lia)); lia|]. specialize (Hp ltac:(lia)).
    destruct (Z.eq_dec (- b) 1) as [Hb1|Hb1].
    + rewrite Hb1 in *. rewrite Z.div_1_r in *. lia.
    + pose proof (div_half (- b) (- a) ltac:(lia) ltac:(lia)). lia.
Qed.


(* division by zero raises instead of returning a value (MLIR: undefined behaviour) *)
Lemma division_by_zero_raises : forall w a, 1 <= w ->
  run_divsi w a 0 = None /\ run_remsi w a 0 = None /\ run_floordivsi w a 0 = None.
Proof.
  intros w a Hw. unfold run_divsi, run_remsi, run_floordivsi. cbv zeta. py_eval.
  rewrite ?sgn_wrap_0 by lia. repeat split; reflexivity.
Qed.

(* ------------------------------------------------------------------ cmpi helpers *)
Lemma canon_eqb w a b : 1 <= w -> canon w a -> canon w b -> (wrap w a =? wrap w b) = (a =? b).
Proof.
  intros Hw Ha Hb. destruct (Z.eqb_spec a b) as [->|Hne]; [apply Z.eqb_refl|].
  apply Z.eqb_neq. intros E. apply Hne.
  rewrite <- (canon_sgn_wrap w a), <- (canon_sgn_wrap w b) by assumption. rewrite E. reflexivity.
Qed.

Lemma b2z_i1 c : signless 1 (Z.b2z c) /\ wrap 1 (Z.b2z c) = Z.b2z c.
Proof. destruct c; vm_compute; repeat split; discriminate. Qed.


(* an unknown predicate number raises *)
Lemma cmpi_unknown_predicate_raises : forall p w a b, (p < 0 \/ 9 < p) -> run_cmpi p w a b = None.
Proof.
  intros p w a b Hp. unfold run_cmpi.
  repeat match goal with |- bind ?o _ = None => destruct o; cbn [bind]; [|reflexivity] end.
  destruct p as [|p|p]; [lia| |reflexivity].
  do 4 (destruct p as [p|p|]; try reflexivity; try lia).
Qed.

(* ------------------------------------------------------------------ operations repaired in /repo
   (commits 4351108 6674019 2cae97b e4f2eb2): full statements, every accepted representative in,
   canonical result out *)
(* ================================================================== BEGIN shli (fixed by C15-1) *)
Lemma shli_ok : binop_ok signless canon run_shli spec_shli shift_defined.
Proof.
  intros w a b Hw _ Hb Hd. unfold shift_defined in Hd.
  destruct (small_pattern_nonneg w b Hw Hb Hd) as [Hb0 Hbw].
  unfold run_shli. cbv zeta. destruct (0 <=? b) eqn:E; [|lia]. py_eval.
  eexists; split; [reflexivity|]. split; [apply sgn_wrap_canon; lia|].
  rewrite wrap_sgn, wrap_wrap by lia. unfold spec_shli. rewrite Hbw.
  rewrite (wrap_mul w a (2 ^ b)), (wrap_mul w (wrap w a) (2 ^ b)), wrap_wrap by lia. reflexivity.
Qed.
(* Theorem C15_shli : binop_ok signless canon run_shli spec_shli shift_defined.  Proof. exact shli_ok. Qed. *)
(* ================================================================== END shli *)

(* ================================================================== BEGIN shrsi (fixed by C15-2) *)
Lemma shrsi_ok : binop_ok signless canon run_shrsi spec_shrsi shift_defined.
Proof.
  intros w a b Hw _ Hb Hd. unfold shift_defined in Hd.
  destruct (small_pattern_nonneg w b Hw Hb Hd) as [Hb0 Hbw].
  unfold run_shrsi. cbv zeta. destruct (0 <=? b) eqn:E; [|lia]. py_eval.
  eexists; split; [reflexivity|]. unfold spec_shrsi. rewrite Hbw.
  split; [|reflexivity]. apply shr_canon; [lia | apply sgn_wrap_canon; lia | lia].
Qed.
(* Theorem C15_shrsi : binop_ok signless canon run_shrsi spec_shrsi shift_defined.  Proof. exact shrsi_ok. Qed. *)
(* ================================================================== END shrsi *)

(* ================================================================== BEGIN divsi (fixed by C15-3) *)
Lemma divsi_ok : binop_ok signless canon run_divsi spec_divsi sdiv_defined.
Proof.
  intros w a b Hw _ _ [Hb0 Hov].
  pose proof (sgn_wrap_canon w a Hw) as Ha. pose proof (sgn_wrap_canon w b Hw) as Hb.
  unfold run_divsi. cbv zeta. py_eval.
  set (x := sgn w (wrap w a)) in *. set (y := sgn w (wrap w b)) in *.
  destruct (negb (y =? 0)) eqn:E; [|lia]. py_eval.
  pose proof (signed_div_quot x y Hb0) as Hq. unfold spec_divsi. fold x y.
  exists (Z.quot x y). split; [|split; [apply quot_canon; assumption | reflexivity]].
  destruct (negb (Bool.eqb (0 <? x) (0 <? y))); rewrite <- Hq; reflexivity.
Qed.
(* Theorem C15_divsi : binop_ok signless canon run_divsi spec_divsi sdiv_defined.  Proof. exact divsi_ok. Qed. *)
(* ================================================================== END divsi *)

(* ================================================================== BEGIN remsi (fixed by C15-3) *)
Lemma rem_canon w x y : 1 <= w -> canon w x -> canon w y -> y <> 0 -> canon w (Z.rem x y).
Proof.
  intros Hw Hx Hy Hy0. pose proof (pow2_pos (w - 1) ltac:(lia)). unfold canon in *.
  destruct (Z_le_dec 0 x) as [Hpa|Hna]; destruct (Z_lt_dec 0 y).
  - pose proof (Z.rem_bound_pos x y ltac:(lia) ltac:(lia)). lia.
  - pose proof (Z.rem_bound_pos x (- y) ltac:(lia) ltac:(lia)) as Hbd.
    rewrite Z.rem_opp_r in Hbd by lia. lia.
  - pose proof (Z.rem_bound_pos (- x) y ltac:(lia) ltac:(lia)) as Hbd.
    rewrite Z.rem_opp_l in Hbd by lia. lia.
  - pose proof (Z.rem_bound_pos (- x) (- y) ltac:(lia) ltac:(lia)) as Hbd.
    rewrite Z.rem_opp_r, Z.rem_opp_l in Hbd by lia. lia.
Qed.

Lemma remsi_ok : binop_ok signless canon run_remsi spec_remsi sdiv_defined.
Proof.
  intros w a b Hw _ _ [Hb0 Hov].
  pose proof (sgn_wrap_canon w a Hw) as Ha. pose proof (sgn_wrap_canon w b Hw) as Hb.
  unfold run_remsi. cbv zeta. py_eval.
  set (x := sgn w (wrap w a)) in *. set (y := sgn w (wrap w b)) in *.
  destruct (negb (y =? 0)) eqn:E; [|lia]. py_eval.
  pose proof (signed_div_quot x y Hb0) as Hq. unfold spec_remsi. fold x y.
  exists (Z.rem x y). split; [|split; [apply rem_canon; assumption | reflexivity]].
  pose proof (Z.quot_rem' x y) as Hr.
  destruct (negb (Bool.eqb (0 <? x) (0 <? y))); f_equal; rewrite Hq; lia.
Qed.
(* Theorem C15_remsi : binop_ok signless canon run_remsi spec_remsi sdiv_defined.  Proof. exact remsi_ok. Qed. *)
(* ================================================================== END remsi *)

(* ================================================================== BEGIN floordivsi (fixed by C15-3) *)
Lemma floordivsi_ok : binop_ok signless canon run_floordivsi spec_floordivsi sdiv_defined.
Proof.
  intros w a b Hw _ _ [Hb0 Hov].
  pose proof (sgn_wrap_canon w a Hw) as Ha. pose proof (sgn_wrap_canon w b Hw) as Hb.
  unfold run_floordivsi. cbv zeta. py_eval.
  set (x := sgn w (wrap w a)) in *. set (y := sgn w (wrap w b)) in *.
  destruct (negb (y =? 0)) eqn:E; [|lia]. py_eval.
  unfold spec_floordivsi. fold x y.
  eexists; split; [reflexivity|]. split; [apply floordiv_canon; assumption | reflexivity].
Qed.
(* Theorem C15_floordivsi : binop_ok signless canon run_floordivsi spec_floordivsi sdiv_defined.  Proof. exact floordivsi_ok. Qed. *)
(* ================================================================== END floordivsi *)

(* ================================================================== BEGIN cmpi-signless (fixed by C15-4) *)
Lemma wrap_eqb_sgn w u v : 1 <= w -> 0 <= u < 2 ^ w -> 0 <= v < 2 ^ w -> (sgn w u =? sgn w v) = (u =? v).
Proof.
  intros Hw Hu Hv. pose proof (pow2_half w Hw). unfold sgn.
  destruct (u <? 2 ^ (w - 1)) eqn:E1, (v <? 2 ^ (w - 1)) eqn:E2; lia.
Qed.

Ltac cmpi_full :=
  intros w a b Hw _ _; unfold run_cmpi, spec_cmpi; py_eval; cbv beta iota;
  pose proof (wrap_range w a ltac:(lia)); pose proof (wrap_range w b ltac:(lia));
  rewrite <- ?(wrap_eqb_sgn w (wrap w a) (wrap w b)) by lia;
  eexists; eexists; split; [reflexivity|]; split; [reflexivity|]; apply b2z_i1.

Lemma cmpi_eq_ok : cmpi_ok signless signless run_cmpi 0.  Proof. cmpi_full. Qed.
Lemma cmpi_ne_ok : cmpi_ok signless signless run_cmpi 1.  Proof. cmpi_full. Qed.
Lemma cmpi_slt_ok : cmpi_ok signless signless run_cmpi 2. Proof. cmpi_full. Qed.
Lemma cmpi_sle_ok : cmpi_ok signless signless run_cmpi 3. Proof. cmpi_full. Qed.
Lemma cmpi_sgt_ok : cmpi_ok signless signless run_cmpi 4. Proof. cmpi_full. Qed.
Lemma cmpi_sge_ok : cmpi_ok signless signless run_cmpi 5. Proof. cmpi_full. Qed.
(* replaces C15_cmpi_eq_ne_signed_refuted / _partial in Props/C15.v:
   Theorem C15_cmpi_eq_ne_signed :
     cmpi_ok signless signless run_cmpi 0 /\ cmpi_ok signless signless run_cmpi 1 /\ cmpi_ok signless signless run_cmpi 2 /\
     cmpi_ok signless signless run_cmpi 3 /\ cmpi_ok signless signless run_cmpi 4 /\ cmpi_ok signless signless run_cmpi 5.
   Proof. exact (conj cmpi_eq_ok (conj cmpi_ne_ok (conj cmpi_slt_ok (conj cmpi_sle_ok (conj cmpi_sgt_ok cmpi_sge_ok))))). Qed.
   C15_cmpi_result_not_canonical stays true (cmpi still returns True = 1) but is harmless once every consumer
   normalises; C15_cmpi_of_cmpi_refuted must be deleted (its witness no longer holds). *)
(* ================================================================== END cmpi-signless *)
