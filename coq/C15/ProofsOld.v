(* C15/ProofsOld.v -- recorded refutations of the PRE-REPAIR interpreter code (C15/Old.v), the
   witnesses of the fixed entries of known_findings.d/C15.json.  Each is the negation-witness of the
   statement now proved about the current code in ProofsOps.v. *)
From Coq Require Import ZArith Bool Lia.
From XV Require Import C15.Py C15.Spec C15.Old.
Local Open Scope Z_scope.

Ltac witness :=
  repeat split;
  try reflexivity;
  try (unfold canon, signless, shift_defined, sdiv_defined; cbn; lia);
  try (vm_compute; first [reflexivity | discriminate | intros; discriminate]).

(* 100 << 2 : i8 = 400 was returned unwrapped *)
Lemma shli_old_refuted :
  exists w a b r, 1 <= w /\ canon w a /\ canon w b /\ shift_defined w (wrap w a) (wrap w b) /\
                  run_shli_old w a b = Some r /\ ~ signless w r.
Proof. exists 8, 100, 2, 400. witness. Qed.

Definition binop_old_refuted (run : Z -> Z -> Z -> option Z) (spec : Z -> Z -> Z -> Z)
    (defined : Z -> Z -> Z -> Prop) : Prop :=
  exists w a b r, 1 <= w /\ signless w a /\ signless w b /\ defined w (wrap w a) (wrap w b) /\
                  run w a b = Some r /\ wrap w r <> spec w (wrap w a) (wrap w b).

(* operands were not normalised: 255 = 0xFF : i8 was treated as +255 *)
Lemma shrsi_old_refuted : binop_old_refuted run_shrsi_old spec_shrsi shift_defined.
Proof. exists 8, 255, 1, 127. witness. Qed.
Lemma divsi_old_refuted : binop_old_refuted run_divsi_old spec_divsi sdiv_defined.
Proof. exists 8, 255, 2, 127. witness. Qed.
Lemma remsi_old_refuted : binop_old_refuted run_remsi_old spec_remsi sdiv_defined.
Proof. exists 8, 255, 2, 1. witness. Qed.
Lemma floordivsi_old_refuted : binop_old_refuted run_floordivsi_old spec_floordivsi sdiv_defined.
Proof. exists 8, 255, 2, 127. witness. Qed.

(* eq/ne/slt/sle/sgt/sge compared representatives; and (3 < 5) == true was false because cmpi
   returns True = 1 while the canonical i1 true is -1 *)
Definition cmpi_old_refuted_on (pred : Z) : Prop :=
  exists w a b r t, 1 <= w /\ signless w a /\ signless w b /\ run_cmpi_old pred w a b = Some r /\
                    spec_cmpi pred w (wrap w a) (wrap w b) = Some t /\ wrap 1 r <> Z.b2z t.
Lemma cmpi_old_refuted :
  cmpi_old_refuted_on 0 /\ cmpi_old_refuted_on 1 /\ cmpi_old_refuted_on 2 /\
  cmpi_old_refuted_on 3 /\ cmpi_old_refuted_on 4 /\ cmpi_old_refuted_on 5.
Proof.
  repeat split.
  - exists 8, 255, (-1), 0, true. witness.
  - exists 8, 255, (-1), 1, false. witness.
  - exists 8, 255, 0, 0, true. witness.
  - exists 8, 255, 0, 0, true. witness.
  - exists 8, 255, 0, 1, false. witness.
  - exists 8, 255, 0, 1, false. witness.
Qed.

Lemma cmpi_of_cmpi_old_refuted :
  exists a b r r2, canon 8 a /\ canon 8 b /\ run_cmpi_old 2 8 a b = Some r /\ canon 1 (-1) /\
                   wrap 1 r = wrap 1 (-1) /\ run_cmpi_old 0 1 r (-1) = Some r2 /\ wrap 1 r2 = 0.
Proof. exists 3, 5, 1, 0. witness. Qed.
