(* C15/ProofsFindings.v -- operations whose implementation on the CURRENT tree refutes the
   full-strength statement: a `_refuted` witness (checked by vm_compute on the generated
   definition) and the strongest `_partial` statement that does hold.
   Current content: cmpi ult/ule/ugt/uge only (known finding C15-kf-2; the repair
   build/proposed_fixes/C15-5 contradicts a pinned test and is not applied).  The blocks for shli,
   shrsi, divsi, remsi, floordivsi and cmpi eq/ne/signed were flipped to full theorems in
   ProofsOps.v after the repairs 4351108 6674019 2cae97b e4f2eb2; their old refutations live on as
   statements about the previous definitions in C15/Old.v / ProofsOld.v.
   To flip cmpi-unsigned after a repair: delete its block, append block cmpi-unsigned of
   C15/ProofsFixed.v.disabled to ProofsOps.v, swap the theorems in Props/C15.v. *)
From Coq Require Import ZArith Bool Lia ZifyBool.
From XV Require Import C15.Py C15.Spec Gen.C15_comparisons Gen.C15_arith C15.ProofsBase C15.ProofsOps.
Local Open Scope Z_scope.

Ltac witness :=
  repeat split;
  try reflexivity;
  try (unfold canon, signless, shift_defined, sdiv_defined; cbn; lia);
  try (vm_compute; first [reflexivity | discriminate | intros; discriminate]).

Definition cmpi_refuted_on (dom : Z -> Z -> Prop) (pred : Z) : Prop :=
  exists w a b r t, 1 <= w /\ dom w a /\ dom w b /\ run_cmpi pred w a b = Some r /\
                    spec_cmpi pred w (wrap w a) (wrap w b) = Some t /\ wrap 1 r <> Z.b2z t.






(* ================================================================== BEGIN cmpi-unsigned (unfixed) *)
(* ult/ule/ugt/uge compare the Python ints, i.e. they are the SIGNED comparisons on canonical
   operands: -1 (= 0xFF) `ult` 1 is reported true *)
Lemma cmpi_ult_refuted : cmpi_refuted_on canon 6. Proof. exists 8, (-1), 1, 1, false. witness. Qed.
Lemma cmpi_ule_refuted : cmpi_refuted_on canon 7. Proof. exists 8, (-1), 1, 1, false. witness. Qed.
Lemma cmpi_ugt_refuted : cmpi_refuted_on canon 8. Proof. exists 8, (-1), 1, 0, true. witness. Qed.
Lemma cmpi_uge_refuted : cmpi_refuted_on canon 9. Proof. exists 8, (-1), 1, 0, true. witness. Qed.

(* they are right exactly when signed and unsigned order agree: operands of the same sign *)
Definition cmpi_ok_same_sign (pred : Z) : Prop :=
  forall w a b, 1 <= w -> canon w a -> canon w b -> (a < 0 <-> b < 0) ->
  exists r t, run_cmpi pred w a b = Some r /\ spec_cmpi pred w (wrap w a) (wrap w b) = Some t /\
              signless 1 r /\ wrap 1 r = Z.b2z t.

Lemma wrap_canon_cases w a : 1 <= w -> canon w a ->
  (0 <= a /\ wrap w a = a) \/ (a < 0 /\ wrap w a = a + 2 ^ w).
Proof.
  intros Hw [Hlo Hhi]. pose proof (pow2_half w Hw). pose proof (pow2_pos (w - 1) ltac:(lia)).
  destruct (Z_lt_dec a 0); [right | left]; split; try lia.
  - unfold wrap. symmetry. apply (Z.mod_unique a (2 ^ w) (-1)); lia.
  - apply wrap_small; lia.
Qed.

Ltac cmpi_same_sign :=
  intros w a b Hw Ha Hb Hs; unfold run_cmpi, spec_cmpi; py_eval; cbv beta iota;
  destruct (wrap_canon_cases w a Hw Ha) as [[? ->]|[? ->]];
  destruct (wrap_canon_cases w b Hw Hb) as [[? ->]|[? ->]]; try lia;
  eexists; eexists; (split; [reflexivity|]); (split; [reflexivity|]);
  match goal with |- signless 1 (Z.b2z ?c) /\ wrap 1 (Z.b2z ?c) = Z.b2z ?d =>
    replace d with c by lia; apply b2z_i1 end.

Lemma cmpi_ult_partial : cmpi_ok_same_sign 6. Proof. cmpi_same_sign. Qed.
Lemma cmpi_ule_partial : cmpi_ok_same_sign 7. Proof. cmpi_same_sign. Qed.
Lemma cmpi_ugt_partial : cmpi_ok_same_sign 8. Proof. cmpi_same_sign. Qed.
Lemma cmpi_uge_partial : cmpi_ok_same_sign 9. Proof. cmpi_same_sign. Qed.
(* ================================================================== END cmpi-unsigned *)

(* cmpi still returns Python True = 1 where the canonical i1 `true` (what arith.constant true evaluates
   to) is -1.  Since commit e4f2eb2 every consumer normalises its operands, so this is no longer
   observable; kept as a statement of fact about the representation. *)
Lemma cmpi_result_not_canonical :
  exists w a b r, 1 <= w /\ canon w a /\ canon w b /\ run_cmpi 2 w a b = Some r /\ ~ canon 1 r.
Proof. exists 8, 3, 5, 1. witness. Qed.
