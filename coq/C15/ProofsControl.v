(* C15/ProofsControl.v -- the one arithmetic fact the control model relies on: the number of
   iterations the model of scf.for performs (`range_len`, mirroring Python's range(lb, ub, step))
   is MLIR's trip count for a positive step: iteration k (value lb + k*step) runs exactly when
   lb + k*step < ub (signed).  The rest of C15/Model.v is tied to the interpreter by the
   correspondence check only. *)
From Coq Require Import ZArith Bool Lia ZifyBool.
From XV Require Import C15.Py C15.Model.
Local Open Scope Z_scope.

Lemma range_len_trip_count : forall lb ub step, 0 < step ->
  exists n, range_len lb ub step = Some n /\ 0 <= n /\
            forall k, 0 <= k -> (k < n <-> lb + k * step < ub).
Proof.
  intros lb ub step Hs. unfold range_len.
  destruct (step =? 0) eqn:E0; [lia|]. destruct (0 <? step) eqn:E1; [|lia].
  eexists; split; [reflexivity|]. split; [lia|]. intros k Hk.
  set (q := (ub - lb + step - 1) / step).
  pose proof (Z.div_mod (ub - lb + step - 1) step ltac:(lia)) as Hdm.
  pose proof (Z.mod_pos_bound (ub - lb + step - 1) step Hs) as Hmb. fold q in Hdm.
  split; intros H.
  - assert (k < q) by lia. nia.
  - destruct (Z_lt_dec k q); [lia|]. exfalso. nia.
Qed.

Lemma range_len_zero_step_raises : forall lb ub, range_len lb ub 0 = None.
Proof. reflexivity. Qed.
