(* C15/ProofsBase.v -- arithmetic of wrap/sgn (Spec.v) and evaluation lemmas for the
   GENERATED helper functions of xdsl.utils.comparisons and xdsl.interpreters.arith
   (coq/Gen/C15_comparisons.v, coq/Gen/C15_arith.v).  The lemmas `*_eval` are the only
   places that unfold generated helper definitions; every per-op proof goes through them. *)
From Coq Require Import ZArith Bool Lia ZifyBool.
From XV Require Import C15.Py C15.Spec Gen.C15_comparisons Gen.C15_arith.
Local Open Scope Z_scope.

(* ------------------------------------------------------------------ powers of two *)
Lemma pow2_pos w : 0 <= w -> 0 < 2 ^ w.
Proof. intros; apply Z.pow_pos_nonneg; lia. Qed.

Lemma pow2_half w : 1 <= w -> 2 ^ w = 2 * 2 ^ (w - 1).
Proof. intros. replace w with (Z.succ (w - 1)) at 1 by lia. rewrite Z.pow_succ_r; lia. Qed.

Lemma pow2_ge w : 1 <= w -> w <= 2 ^ (w - 1).
Proof.
  intros H. assert (w - 1 < 2 ^ (w - 1)) by (apply Z.pow_gt_lin_r; lia). lia.
Qed.

Lemma pow2_mono a b : 0 <= a <= b -> 2 ^ a <= 2 ^ b.
Proof. intros; apply Z.pow_le_mono_r; lia. Qed.

(* ------------------------------------------------------------------ wrap / sgn *)
Lemma wrap_range w x : 0 <= w -> 0 <= wrap w x < 2 ^ w.
Proof. intros; unfold wrap; apply Z.mod_pos_bound, pow2_pos; lia. Qed.

Lemma wrap_small w x : 0 <= x < 2 ^ w -> wrap w x = x.
Proof. intros; unfold wrap; apply Z.mod_small; lia. Qed.

Lemma wrap_wrap w x : 0 <= w -> wrap w (wrap w x) = wrap w x.
Proof. intros; unfold wrap; apply Z.mod_mod. pose proof (pow2_pos w); lia. Qed.

Lemma wrap_shift w x k : 0 <= w -> wrap w (x + k * 2 ^ w) = wrap w x.
Proof. intros; unfold wrap; apply Z_mod_plus_full. Qed.

Lemma wrap_eq_shift w x y k : 0 <= w -> x = y + k * 2 ^ w -> wrap w x = wrap w y.
Proof. intros ? ->; apply wrap_shift; lia. Qed.

Lemma wrap_decomp w x : 0 <= w -> exists k, x = wrap w x + k * 2 ^ w.
Proof.
  intros. exists (x / 2 ^ w). unfold wrap.
  pose proof (Z.div_mod x (2 ^ w)). pose proof (pow2_pos w). lia.
Qed.

Lemma sgn_shift w u : exists k, sgn w u = u + k * 2 ^ w.
Proof. unfold sgn; destruct (u <? 2 ^ (w - 1)); [exists 0 | exists (-1)]; lia. Qed.

Lemma wrap_sgn w u : 0 <= w -> wrap w (sgn w u) = wrap w u.
Proof. intros; destruct (sgn_shift w u) as [k ->]; apply wrap_shift; lia. Qed.

Lemma sgn_canon w u : 1 <= w -> 0 <= u < 2 ^ w -> canon w (sgn w u).
Proof. intros Hw Hu. pose proof (pow2_half w Hw). unfold sgn, canon. destruct (u <? 2 ^ (w - 1)) eqn:E; lia. Qed.

Lemma sgn_wrap_canon w x : 1 <= w -> canon w (sgn w (wrap w x)).
Proof. intros; apply sgn_canon; [lia | apply wrap_range; lia]. Qed.

Lemma canon_sgn_wrap w x : 1 <= w -> canon w x -> sgn w (wrap w x) = x.
Proof.
  intros Hw [Hlo Hhi]. pose proof (pow2_half w Hw). pose proof (pow2_pos (w - 1)).
  unfold sgn. destruct (Z_lt_dec x 0) as [Hn | Hp].
  - assert (E : wrap w x = x + 2 ^ w).
    { unfold wrap. symmetry. apply (Z.mod_unique x (2 ^ w) (-1)); lia. }
    rewrite E. destruct (x + 2 ^ w <? 2 ^ (w - 1)) eqn:F; lia.
  - rewrite wrap_small by lia. destruct (x <? 2 ^ (w - 1)) eqn:F; lia.
Qed.

Lemma sgn_wrap_0 w : 1 <= w -> sgn w (wrap w 0) = 0.
Proof.
  intros Hw. unfold wrap. rewrite Z.mod_0_l by (pose proof (pow2_pos w); lia).
  unfold sgn. pose proof (pow2_pos (w - 1)). destruct (0 <? 2 ^ (w - 1)) eqn:E; lia.
Qed.

Lemma canon_signless w x : 1 <= w -> canon w x -> signless w x.
Proof. intros Hw [? ?]. pose proof (pow2_half w Hw). pose proof (pow2_pos (w - 1)). unfold signless; lia. Qed.

Lemma wrap_add w x y : 0 <= w -> wrap w (x + y) = wrap w (wrap w x + wrap w y).
Proof. intros; unfold wrap; apply Z.add_mod. pose proof (pow2_pos w); lia. Qed.

Lemma wrap_sub w x y : 0 <= w -> wrap w (x - y) = wrap w (wrap w x - wrap w y).
Proof. intros; unfold wrap; apply Zminus_mod. Qed.

Lemma wrap_mul w x y : 0 <= w -> wrap w (x * y) = wrap w (wrap w x * wrap w y).
Proof. intros; unfold wrap; apply Z.mul_mod. pose proof (pow2_pos w); lia. Qed.

Lemma wrap_land_ones w x : 0 <= w -> wrap w x = Z.land x (Z.ones w).
Proof. intros; unfold wrap; symmetry; apply Z.land_ones; lia. Qed.

Lemma wrap_land w x y : 0 <= w -> wrap w (Z.land x y) = Z.land (wrap w x) (wrap w y).
Proof.
  intros. rewrite !wrap_land_ones by lia. apply Z.bits_inj'; intros n Hn.
  rewrite !Z.land_spec. destruct (Z.testbit x n), (Z.testbit y n), (Z.testbit (Z.ones w) n); reflexivity.
Qed.

Lemma wrap_lor w x y : 0 <= w -> wrap w (Z.lor x y) = Z.lor (wrap w x) (wrap w y).
Proof.
  intros. rewrite !wrap_land_ones by lia. apply Z.bits_inj'; intros n Hn.
  rewrite !Z.land_spec, !Z.lor_spec, !Z.land_spec.
  destruct (Z.testbit x n), (Z.testbit y n), (Z.testbit (Z.ones w) n); reflexivity.
Qed.

Lemma wrap_lxor w x y : 0 <= w -> wrap w (Z.lxor x y) = Z.lxor (wrap w x) (wrap w y).
Proof.
  intros. rewrite !wrap_land_ones by lia. apply Z.bits_inj'; intros n Hn.
  rewrite !Z.land_spec, !Z.lxor_spec, !Z.land_spec.
  destruct (Z.testbit x n), (Z.testbit y n), (Z.testbit (Z.ones w) n); reflexivity.
Qed.

Lemma wrap_trunc w1 w2 x : 0 <= w2 <= w1 -> wrap w2 (wrap w1 x) = wrap w2 x.
Proof.
  intros. destruct (wrap_decomp w1 x) as [k Hk]; [lia|].
  symmetry. apply (wrap_eq_shift w2 x (wrap w1 x) (k * 2 ^ (w1 - w2))); [lia|].
  rewrite <- Z.mul_assoc, <- Z.pow_add_r by lia. replace (w1 - w2 + w2) with w1 by lia. exact Hk.
Qed.

Lemma canon_widen w1 w2 x : 1 <= w1 <= w2 -> canon w1 x -> canon w2 x.
Proof. intros H [? ?]. pose proof (pow2_mono (w1 - 1) (w2 - 1)). unfold canon. lia. Qed.

(* a negative canonical shift amount denotes a pattern >= width *)
Lemma small_pattern_nonneg w b : 1 <= w -> signless w b -> wrap w b < w -> 0 <= b < w /\ wrap w b = b.
Proof.
  intros Hw [Hlo Hhi] Hb. pose proof (pow2_half w Hw). pose proof (pow2_ge w Hw).
  destruct (Z_lt_dec b 0) as [Hn|Hp].
  - assert (E : wrap w b = b + 2 ^ w) by (unfold wrap; symmetry; apply (Z.mod_unique b (2 ^ w) (-1)); lia). lia.
  - rewrite wrap_small in * by lia. lia.
Qed.

(* ------------------------------------------------------------------ bit tests used by _truncate/_sign_extend *)
Lemma land_pow2 t k : 0 <= k -> Z.land t (2 ^ k) = if Z.testbit t k then 2 ^ k else 0.
Proof.
  intros Hk. apply Z.bits_inj'; intros n Hn. rewrite Z.land_spec, Z.pow2_bits_eqb by lia.
  destruct (Z.eqb_spec k n) as [->|Hne].
  - destruct (Z.testbit t n) eqn:E; [rewrite Z.pow2_bits_true by lia | rewrite Z.bits_0]; reflexivity.
  - rewrite andb_false_r. destruct (Z.testbit t k); [rewrite Z.pow2_bits_false by lia | rewrite Z.bits_0]; reflexivity.
Qed.

Lemma testbit_top w u : 1 <= w -> 0 <= u < 2 ^ w -> Z.testbit u (w - 1) = negb (u <? 2 ^ (w - 1)).
Proof.
  intros Hw Hu. pose proof (pow2_half w Hw). pose proof (pow2_pos (w - 1)).
  destruct (u <? 2 ^ (w - 1)) eqn:E; cbn [negb].
  - destruct (Z.eq_dec u 0) as [->|]; [apply Z.bits_0|].
    apply Z.bits_above_log2; [lia|]. apply Z.log2_lt_pow2; lia.
  - apply Z.testbit_true; [lia|].
    assert (u / 2 ^ (w - 1) = 1) as ->; [|reflexivity].
    symmetry. apply (Z.div_unique u (2 ^ (w - 1)) 1 (u - 2 ^ (w - 1))); lia.
Qed.

Lemma mod_half_split w x : 1 <= w ->
  wrap w x = wrap (w - 1) x + (if Z.testbit (wrap w x) (w - 1) then 2 ^ (w - 1) else 0).
Proof.
  intros Hw. pose proof (pow2_half w Hw). pose proof (pow2_pos (w - 1)).
  pose proof (wrap_range w x). rewrite testbit_top by lia.
  rewrite <- (wrap_trunc w (w - 1) x) by lia.
  set (u := wrap w x) in *. destruct (u <? 2 ^ (w - 1)) eqn:E; cbn [negb].
  - rewrite wrap_small; lia.
  - assert (wrap (w - 1) u = u - 2 ^ (w - 1)); [|lia].
    unfold wrap. symmetry. apply (Z.mod_unique u (2 ^ (w - 1)) 1); lia.
Qed.

(* ------------------------------------------------------------------ generated helpers, evaluated *)
Lemma bind_some {A B} (a : A) (f : A -> option B) : bind (Some a) f = f a.
Proof. reflexivity. Qed.

Lemma py_lshift_eval a n : 0 <= n -> py_lshift a n = Some (a * 2 ^ n).
Proof. intros; unfold py_lshift. destruct (n <? 0) eqn:E; [lia|]. rewrite Z.shiftl_mul_pow2 by lia. reflexivity. Qed.

Lemma py_rshift_eval a n : 0 <= n -> py_rshift a n = Some (a / 2 ^ n).
Proof. intros; unfold py_rshift. destruct (n <? 0) eqn:E; [lia|]. rewrite Z.shiftr_div_pow2 by lia. reflexivity. Qed.

Lemma py_mod_eval a b : b <> 0 -> py_mod a b = Some (a mod b).
Proof. intros; unfold py_mod. destruct (b =? 0) eqn:E; [lia|reflexivity]. Qed.

Lemma py_floordiv_eval a b : b <> 0 -> py_floordiv a b = Some (a / b).
Proof. intros; unfold py_floordiv. destruct (b =? 0) eqn:E; [lia|reflexivity]. Qed.

Lemma unsigned_upper_bound_eval w : 0 <= w -> unsigned_upper_bound w = Some (2 ^ w).
Proof. intros; unfold unsigned_upper_bound. rewrite py_lshift_eval by lia. f_equal; lia. Qed.

Lemma signed_lower_bound_eval w : 1 <= w -> signed_lower_bound w = Some (- 2 ^ (w - 1)).
Proof.
  intros; unfold signed_lower_bound. rewrite py_lshift_eval, bind_some by lia.
  rewrite Z.shiftr_div_pow2 by lia. rewrite (pow2_half w) by lia. f_equal. f_equal.
  replace (1 * (2 * 2 ^ (w - 1))) with (2 ^ (w - 1) * 2 ^ 1) by lia. apply Z.div_mul. lia.
Qed.

Lemma signed_upper_bound_eval w : 1 <= w -> signed_upper_bound w = Some (2 ^ (w - 1)).
Proof.
  intros; unfold signed_upper_bound. rewrite Z.max_l by lia. rewrite py_lshift_eval by lia. f_equal; lia.
Qed.

Lemma to_unsigned_eval x w : 0 <= w -> to_unsigned x w = Some (wrap w x).
Proof.
  intros; unfold to_unsigned. rewrite unsigned_upper_bound_eval, bind_some by lia.
  pose proof (pow2_pos w). rewrite py_mod_eval by lia. f_equal.
  unfold wrap. rewrite <- (Z_mod_plus_full x 1 (2 ^ w)). f_equal; lia.
Qed.

Lemma to_signed_eval x w : 1 <= w -> to_signed x w = Some (sgn w (wrap w x)).
Proof.
  intros Hw; unfold to_signed. rewrite unsigned_upper_bound_eval, bind_some by lia.
  pose proof (pow2_pos w). pose proof (pow2_half w Hw). pose proof (pow2_pos (w - 1)).
  cbv zeta. rewrite py_mod_eval, bind_some by lia. f_equal.
  rewrite Z.shiftr_div_pow2 by lia.
  assert (Hh : 2 ^ w / 2 ^ 1 = 2 ^ (w - 1)).
  { rewrite H0. replace (2 * 2 ^ (w - 1)) with (2 ^ (w - 1) * 2 ^ 1) by lia. apply Z.div_mul; lia. }
  rewrite Hh. pose proof (wrap_range w x).
  destruct (wrap_decomp w x) as [k Hk]; [lia|]. set (u := wrap w x) in *.
  unfold sgn. destruct (u <? 2 ^ (w - 1)) eqn:E.
  - assert ((x + 2 ^ (w - 1)) mod 2 ^ w = u + 2 ^ (w - 1)); [|lia].
    symmetry. apply (Z.mod_unique _ _ k); lia.
  - assert ((x + 2 ^ (w - 1)) mod 2 ^ w = u + 2 ^ (w - 1) - 2 ^ w); [|lia].
    symmetry. apply (Z.mod_unique _ _ (k + 1)); lia.
Qed.

Lemma truncate_eval x w : 1 <= w -> truncate x w = Some (sgn w (wrap w x)).
Proof.
  intros Hw. unfold truncate.
  repeat first [rewrite py_lshift_eval by lia | rewrite bind_some | progress cbv zeta]. rewrite !Z.mul_1_l.
  replace (2 ^ w - 1) with (Z.ones w) by (rewrite Z.ones_equiv; lia).
  rewrite <- wrap_land_ones by lia. pose proof (wrap_range w x). set (u := wrap w x) in *.
  rewrite land_pow2 by lia. rewrite testbit_top by lia. pose proof (pow2_pos (w - 1)).
  unfold sgn. destruct (u <? 2 ^ (w - 1)) eqn:E; cbn [negb].
  - rewrite Z.eqb_refl. reflexivity.
  - destruct (2 ^ (w - 1) =? 0) eqn:F; [lia|]. reflexivity.
Qed.

Lemma sign_extend_eval x w : 1 <= w -> sign_extend x w = Some (sgn w (wrap w x)).
Proof.
  intros Hw. unfold sign_extend. rewrite py_lshift_eval, bind_some by lia. rewrite Z.mul_1_l.
  f_equal. replace (2 ^ (w - 1) - 1) with (Z.ones (w - 1)) by (rewrite Z.ones_equiv; lia).
  rewrite <- wrap_land_ones by lia. rewrite land_pow2 by lia.
  pose proof (mod_half_split w x Hw) as Hs. pose proof (wrap_range w x).
  assert (Hb : Z.testbit x (w - 1) = Z.testbit (wrap w x) (w - 1)).
  { unfold wrap. rewrite Z.mod_pow2_bits_low by lia. reflexivity. }
  rewrite Hb. pose proof (pow2_half w Hw). rewrite testbit_top in * by lia.
  unfold sgn. destruct (wrap w x <? 2 ^ (w - 1)) eqn:E; cbn [negb] in *; lia.
Qed.

(* evaluation tactic for the straight-line generated bodies *)
Ltac py_eval :=
  repeat first
    [ rewrite bind_some
    | rewrite to_signed_eval by lia
    | rewrite to_unsigned_eval by lia
    | rewrite truncate_eval by lia
    | rewrite sign_extend_eval by lia
    | rewrite py_lshift_eval by lia
    | rewrite py_rshift_eval by lia
    | rewrite py_floordiv_eval by lia
    | rewrite py_mod_eval by lia
    | progress cbv zeta ].
