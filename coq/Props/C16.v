(* Props/C16.v -- property C16: control-flow and loop lowerings preserve program results.
   ONLY theorem statements closed by `exact` (+ Examples by vm_compute).
   Every kernel is over an ARBITRARY loop body `body : Z -> st -> st` (induction variable, carried
   state incl. effect log).  Spec: `for_rel` (top of C16/ProofsFor.v): iterate while iv < ub, adding
   step -- MLIR scf.for, which is also what convert-scf-to-cf emits.  `for_sem` is its closed
   trip-count form; `for_fuel` the fuelled while loop defined for any step. *)
From Coq Require Import ZArith List Bool.
From XV Require Import C16.Model C16.ProofsFor C16.ProofsLoops C16.ProofsLicm C16.ProofsMore.
Import ListNotations.
Local Open Scope Z_scope.

(* ---------------------------------------------------------------- reference semantics *)
Theorem C16_for_sem_spec : forall st (body : Z -> st -> st) lb ub step s, 0 < step ->
  for_rel st body ub step lb s (for_sem st body lb ub step s)
  /\ (forall s', for_rel st body ub step lb s s' -> s' = for_sem st body lb ub step s).
Proof. exact for_sem_spec. Qed.
Print Assumptions C16_for_sem_spec.

Theorem C16_for_fuel_enough : forall st (body : Z -> st -> st) fuel lb ub step s, 0 < step ->
  (Z.to_nat (trip lb ub step) < fuel)%nat ->
  for_fuel st body fuel lb ub step s = Some (for_sem st body lb ub step s).
Proof. exact for_fuel_enough. Qed.
Print Assumptions C16_for_fuel_enough.

(* ---------------------------------------------------------------- convert-scf-to-cf *)
Theorem C16_for_lowering : forall st (body : Z -> st -> st) (thenf elsef : st -> st) lb ub step cond iv0 s fuel,
  0 < step -> (2 * Z.to_nat (trip lb ub step) + 3 <= fuel)%nat ->
  cfg_run st body thenf elsef lb ub step cond fuel lower_for 0%nat iv0 s
  = RDone st (for_sem st body lb ub step s).
Proof. exact for_lowering. Qed.
Print Assumptions C16_for_lowering.

Theorem C16_for_lowering_nonpositive_step_diverges :
  forall st (body : Z -> st -> st) (thenf elsef : st -> st) lb ub step cond fuel iv0 s,
  step <= 0 -> lb < ub ->
  cfg_run st body thenf elsef lb ub step cond fuel lower_for 0%nat iv0 s = RFuel st.
Proof. exact for_lowering_nonpositive_step_diverges. Qed.
Print Assumptions C16_for_lowering_nonpositive_step_diverges.

Theorem C16_if_lowering : forall st (body : Z -> st -> st) (thenf elsef : st -> st) lb ub step cond
  has_else has_results iv0 s fuel, (5 <= fuel)%nat ->
  cfg_run st body thenf elsef lb ub step cond fuel (lower_if has_else has_results) 0%nat iv0 s
  = RDone st (if_sem st thenf elsef cond has_else s).
Proof. exact if_lowering. Qed.
Print Assumptions C16_if_lowering.

(* ---------------------------------------------------------------- scf-for-loop-range-folding *)
Theorem C16_fold_add : forall st (body : Z -> st -> st) c lb ub step s,
  for_sem st (fun iv => body (iv + c)) lb ub step s = for_sem st body (lb + c) (ub + c) step s.
Proof. exact fold_add. Qed.
Print Assumptions C16_fold_add.

Theorem C16_fold_mul : forall st (body : Z -> st -> st) c lb ub step s, 0 < step -> 0 < c ->
  for_sem st (fun iv => body (iv * c)) lb ub step s = for_sem st body (lb * c) (ub * c) (step * c) s.
Proof. exact fold_mul. Qed.
Print Assumptions C16_fold_mul.

(* the pass's fixpoint loop over the whole use chain; hypothesis: every multiplier it folds is > 0 *)
Theorem C16_fold_pass_partial : forall st ls (body : Z -> st -> st) lb ub step s, 0 < step ->
  (forall l, In l (fold_prefix ls) -> l_kind l = FMul -> 0 < l_c l) ->
  let '((lb', ub', step'), _) := fold_pass ls (lb, ub, step) 0 in
  0 < step' /\
  for_sem st (fun iv => body (apply_chain (fold_prefix ls) iv)) lb ub step s
  = for_sem st body lb' ub' step' s.
Proof. exact fold_pass_correct. Qed.
Print Assumptions C16_fold_pass_partial.

(* multiplier 0: fails under the cmpi-slt semantics AND raises under Python range: a finding *)
Theorem C16_fold_mul_refuted : exists lb ub step c, 0 < step /\ c = 0 /\
  forall fuel, for_fuel (list Z) log_body (S fuel) (lb * c) (ub * c) (step * c) []
               <> Some (for_sem (list Z) (fun iv => log_body (iv * c)) lb ub step []).
Proof. exact fold_mul_zero_refuted. Qed.
Print Assumptions C16_fold_mul_refuted.

Theorem C16_fold_mul_zero_range_raises : forall lb ub step, py_range (lb * 0) (ub * 0) (step * 0) = None.
Proof. exact fold_mul_zero_range_raises. Qed.
Print Assumptions C16_fold_mul_zero_range_raises.

(* multiplier < 0: fails under the cmpi-slt semantics only (semantics-dependent note, not a finding) *)
Theorem C16_fold_mul_negative_refuted : exists lb ub step c, 0 < step /\ c < 0 /\
  forall fuel, for_fuel (list Z) log_body (S fuel) (lb * c) (ub * c) (step * c) []
               <> Some (for_sem (list Z) (fun iv => log_body (iv * c)) lb ub step []).
Proof. exact fold_mul_negative_refuted. Qed.
Print Assumptions C16_fold_mul_negative_refuted.

Theorem C16_fold_mul_negative_range_ok : forall st (body : Z -> st -> st) c lb ub step s, 0 < step -> c < 0 ->
  exists ivs, py_range (lb * c) (ub * c) (step * c) = Some ivs /\
              unroll_sem st body ivs s = for_sem st (fun iv => body (iv * c)) lb ub step s.
Proof. exact fold_mul_negative_range_ok. Qed.
Print Assumptions C16_fold_mul_negative_range_ok.

(* ---------------------------------------------------------------- scf-for-loop-flatten *)
(* current code (after fix commits 1ebef56 and 51aee64): FULL strength -- every outer bound, every
   inner range (empty and negative ones included), no divisibility hypothesis.  The remaining hypotheses
   are "steps > 0" (valid scf.for) and, for the fused variant, K | S which the pass checks itself. *)
Theorem C16_flatten : forall st (b : st -> st) ou os il iu is_ s, 0 < os -> 0 < is_ ->
  for_sem st (fun _ => b) 0 (unused_new_ub ou os il iu is_) os s
  = for_sem st (fun _ s1 => for_sem st (fun _ => b) il iu is_ s1) 0 ou os s.
Proof. exact flatten_unused_correct. Qed.
Print Assumptions C16_flatten.

Theorem C16_flatten_used : forall st (body : Z -> st -> st) consts ol ou S K s,
  0 < K -> 0 < S -> S mod K = 0 ->
  for_sem st body ol (used_new_ub consts ol ou S) K s
  = for_sem st (fun o s1 => for_sem st (fun i => body (o + i)) 0 S K s1) ol ou S s.
Proof. exact flatten_used_correct. Qed.
Print Assumptions C16_flatten_used.

(* recorded refutations of the code before the repairs (known_findings.d/C16.json: fixed) *)
Theorem C16_flatten_old_refuted : exists ou os il iu is_, 0 < os /\ 0 < is_ /\
  flat_unused_old Z Z.succ 0 ou os il iu is_ 0 <> nest_unused Z Z.succ 0 ou os il iu is_ 0.
Proof. exact flatten_unused_old_refuted. Qed.
Print Assumptions C16_flatten_old_refuted.

Theorem C16_flatten_old_negative_range_refuted : exists ou os il iu is_,
  0 < os /\ 0 < is_ /\ (iu - il) mod is_ = 0 /\ ou mod os = 0 /\
  flat_unused_old Z Z.succ 0 ou os il iu is_ 0 <> nest_unused Z Z.succ 0 ou os il iu is_ 0.
Proof. exact flatten_unused_old_negative_refuted. Qed.
Print Assumptions C16_flatten_old_negative_range_refuted.

Theorem C16_flatten_used_old_refuted : exists ol ou S K, 0 < K /\ 0 < S /\ S mod K = 0 /\
  flat_used (list Z) log_body ol ou K [] <> nest_used (list Z) log_body ol ou S K [].
Proof. exact flatten_used_old_refuted. Qed.
Print Assumptions C16_flatten_used_old_refuted.

(* ---------------------------------------------------------------- scf-for-loop-unroll *)
Theorem C16_unroll : forall st (body : Z -> st -> st) lb ub step s, 0 < step ->
  exists ivs, py_range lb ub step = Some ivs /\
              unroll_sem st body ivs s = for_sem st body lb ub step s.
Proof. exact unroll_correct. Qed.
Print Assumptions C16_unroll.

Theorem C16_unroll_step_zero_raises : forall lb ub, py_range lb ub 0 = None.
Proof. exact unroll_step_zero_raises. Qed.
Print Assumptions C16_unroll_step_zero_raises.

Theorem C16_unroll_negative_step_differs : exists lb ub step, step < 0 /\
  py_range lb ub step = Some [2; 1] /\ for_fuel (list Z) log_body 1 lb ub step [] = Some [].
Proof. exact unroll_negative_step_differs. Qed.
Print Assumptions C16_unroll_negative_step_differs.

(* several loop-carried values: the state is a tuple and scf.yield is the SIMULTANEOUS assignment
   `yield_sim`; C16_unroll above is over an arbitrary state type, hence in particular over tuples:
   stated here for a body that ends in an arbitrary selector `sel` (permutations, rotations, mixes). *)
Theorem C16_unroll_tuple : forall (f : Z -> list Z -> Z) (sel : list Z) lb ub step (vals : list Z), 0 < step ->
  exists ivs, py_range lb ub step = Some ivs /\
    unroll_sem (list Z) (fun iv v => yield_sim sel v (f iv v)) ivs vals
    = for_sem (list Z) (fun iv v => yield_sim sel v (f iv v)) lb ub step vals.
Proof. exact (fun f sel => unroll_correct (list Z) (fun iv v => yield_sim sel v (f iv v))). Qed.
Print Assumptions C16_unroll_tuple.

(* a swap `yield %b, %a` exchanges the values; overwriting one position after the other would not *)
Example C16_yield_simultaneous :
  yield_sim [1; 0] [5; 7] 0 = [7; 5] /\ yield_seq [1; 0] [5; 7] 0 = [7; 7]
  /\ yield_sim [1; 2; 0] [1; 2; 3] 0 = [2; 3; 1] /\ yield_sim [1; -1] [5; 7] 9 = [7; 9]
  /\ for_sem (list Z) (fun iv v => yield_sim [1; 0] v 0) 0 3 1 [5; 7] = [7; 5].
Proof. vm_compute. repeat split. Qed.

(* ---------------------------------------------------------------- licm *)
Theorem C16_licm : forall st (body_v : Z -> Z -> st -> st) n v iv step s,
  licm_hoisted st body_v n (Some v) iv step s = licm_orig st body_v n (Some v) iv step s.
Proof. exact licm_commutes. Qed.
Print Assumptions C16_licm.

Theorem C16_licm_partial : forall st (body_v : Z -> Z -> st -> st) n opv iv step s,
  (opv <> None \/ (0 < n)%nat) ->
  licm_hoisted st body_v n opv iv step s = licm_orig st body_v n opv iv step s.
Proof. exact licm_partial. Qed.
Print Assumptions C16_licm_partial.

Theorem C16_licm_zero_trip_refuted : forall st (body_v : Z -> Z -> st -> st) iv step s,
  licm_orig st body_v 0 None iv step s = Some s /\ licm_hoisted st body_v 0 None iv step s = None.
Proof. exact licm_zero_trip_refuted. Qed.
Print Assumptions C16_licm_zero_trip_refuted.

(* the trait table read by the pass declares trapping ops hoistable *)
Theorem C16_licm_hoistable_refuted : exists k rc a b,
  hoistable_kind k rc = true /\ (forall c, rc = Some c -> b = c) /\ op_eval k a b = None.
Proof. exact hoistable_refuted. Qed.
Print Assumptions C16_licm_hoistable_refuted.

Theorem C16_licm_hoistable_partial : forall k rc a b,
  declared_pure_division k = false ->
  hoistable_kind k rc = true -> (forall c, rc = Some c -> b = c) -> op_eval k a b <> None.
Proof. exact hoistable_partial. Qed.
Print Assumptions C16_licm_hoistable_partial.

Theorem C16_licm_pass_terminates : forall ops, exists r, licm_pass ops = Some r.
Proof. exact licm_pass_terminates. Qed.
Print Assumptions C16_licm_pass_terminates.

Theorem C16_licm_pass_sound : forall ops r, licm_pass ops = Some r -> sound_seq ops r.
Proof. exact licm_pass_sound. Qed.
Print Assumptions C16_licm_pass_sound.

(* ---------------------------------------------------------------- lower-affine (expressions) *)
Theorem C16_affine_mod_refuted : exists e dims,
  aff_eval e dims [] = Some 3 /\ lower_eval e dims [] = Some (-1).
Proof. exact affine_mod_refuted. Qed.
Print Assumptions C16_affine_mod_refuted.

Theorem C16_affine_lowering_partial : forall e dims syms, mods_nonneg e dims syms ->
  lower_eval e dims syms = aff_eval e dims syms.
Proof. exact affine_lowering_partial. Qed.
Print Assumptions C16_affine_lowering_partial.

(* ---------------------------------------------------------------- convert-scf-to-cf: scf.index_switch *)
(* SwitchLowering casts the index argument to i32 before cf.switch: correct whenever the argument
   survives the cast (in particular for every value in the signed 32-bit range) ... *)
Theorem C16_switch_lowering : forall st (casef : nat -> st -> st) cases arg s fuel,
  trunc32 arg = arg -> (3 <= fuel)%nat ->
  sw_run st casef fuel (lower_switch cases) arg 0%nat s = RDone st (switch_sem st casef cases arg s).
Proof. exact switch_lowering. Qed.
Print Assumptions C16_switch_lowering.

Theorem C16_trunc32_small : forall z, -2147483648 <= z < 2147483648 -> trunc32 z = z.
Proof. exact trunc32_small. Qed.
Print Assumptions C16_trunc32_small.

(* ... and wrong for an index that does not fit: 2^32 + 1 takes `case 1` instead of the default *)
Theorem C16_switch_lowering_refuted : exists cases arg,
  sw_run (list nat) (fun i s => i :: s) 3 (lower_switch cases) arg 0%nat []
  <> RDone _ (switch_sem (list nat) (fun i s => i :: s) cases arg []).
Proof. exact switch_lowering_refuted. Qed.
Print Assumptions C16_switch_lowering_refuted.

(* ---------------------------------------------------------------- control-flow-hoist *)
Theorem C16_cfh : forall st (thenk elsek : Z -> st -> st) a b c s,
  cfh_hoisted st thenk elsek (Some a) (Some b) c s = cfh_orig st thenk elsek (Some a) (Some b) c s.
Proof. exact cfh_commutes. Qed.
Print Assumptions C16_cfh.

Theorem C16_cfh_refuted : forall st (thenk elsek : Z -> st -> st) b s,
  cfh_orig st thenk elsek None (Some b) false s = Some (elsek b s)
  /\ cfh_hoisted st thenk elsek None (Some b) false s = None.
Proof. exact cfh_refuted. Qed.
Print Assumptions C16_cfh_refuted.

(* the pass decides with the same trait table as licm: same refutation (remsi & co. declared Pure) *)
Theorem C16_cfh_pass_refuted : exists then_ops else_ops a b,
  cfh_pass then_ops else_ops = true /\ op_eval (fst (hd (KAddi, None) then_ops)) a b = None.
Proof. exact cfh_pass_refuted. Qed.
Print Assumptions C16_cfh_pass_refuted.

Theorem C16_cfh_pass_partial : forall then_ops else_ops o a b,
  cfh_pass then_ops else_ops = true -> In o (then_ops ++ else_ops) ->
  declared_pure_division (fst o) = false -> (forall c, snd o = Some c -> b = c) ->
  op_eval (fst o) a b <> None.
Proof. exact cfh_pass_partial. Qed.
Print Assumptions C16_cfh_pass_partial.

(* ---------------------------------------------------------------- lower-affine: for / load / store *)
(* LowerAffineFor accepts exactly one closed result per bound map; the scf.for bounds it emits are the
   affine bounds (mod caveat of C16_affine_lowering_partial); the loop itself is then `for_sem` *)
Theorem C16_affine_for_lowering : forall lb ub step l u,
  mods_nonneg lb [] [] -> mods_nonneg ub [] [] ->
  lower_affine_for [lb] [ub] step = LFor l u step -> affine_for_bounds lb ub = Some (l, u).
Proof. exact lower_affine_for_correct. Qed.
Print Assumptions C16_affine_for_lowering.

(* affine.load / affine.store: every emitted index equals the affine map's result *)
Theorem C16_affine_index_lowering : forall results dims,
  Forall (fun e => mods_nonneg e dims []) results ->
  lower_index_map results dims = affine_index_map results dims.
Proof. exact lower_index_map_correct. Qed.
Print Assumptions C16_affine_index_lowering.

(* ---------------------------------------------------------------- frontend-desymrefy (single block) *)
(* the update the pass forwards to a fetch (nearest preceding update of the symbol) holds exactly the
   content of the symbol's cell when the fetch executes *)
Theorem C16_desymref_last_write : forall s r ops cur c,
  fetch_reads s r ops cur = Some c -> last_write_before s r ops cur = c.
Proof. exact last_write_is_cell_content. Qed.
Print Assumptions C16_desymref_last_write.

(* store/load forwarding on a single block in SSA form (wf_block) preserves the value of every remaining
   op, for every meaning of the ops (usef), outside values (outv) and initial cell contents (init);
   `forward` is the reference result that the real pass is compared with on every generated block *)
Theorem C16_desymref_forward : forall (outv : nat -> Z) (usef : nat -> list Z -> Z) (init : nat -> Z) ops sy fe ue,
  wf_block ops [] = true ->
  sym_run outv usef init (forward ops [] []) sy fe ue = sym_run outv usef init ops sy fe ue.
Proof. exact forward_preserves_block. Qed.
Print Assumptions C16_desymref_forward.

(* blocks that also use symbols of an ENCLOSING scope (not declared in the block; `decl` = the declared
   ones): only the first unforwardable fetch and the last update of such a symbol survive; the values
   computed and the final content of every enclosing-scope cell are preserved *)
Theorem C16_desymref_forward2 : forall (outv : nat -> Z) (usef : nat -> list Z -> Z) (init : nat -> Z)
    decl ops sy fe ue, wf_block ops [] = true ->
  sym_run outv usef init (forward2 decl ops [] []) sy fe ue = sym_run outv usef init ops sy fe ue
  /\ (forall s, existsb (Nat.eqb s) decl = false ->
        sym_cell init (sym_final outv usef init (forward2 decl ops [] []) sy fe ue) s
        = sym_cell init (sym_final outv usef init ops sy fe ue) s).
Proof. exact forward2_preserves_block. Qed.
Print Assumptions C16_desymref_forward2.

(* ---------------------------------------------------------------- non-vacuity / witnesses *)
(* zero-trip and negative ranges are covered by for_sem (no hypothesis lb < ub anywhere above) *)
Example C16_zero_trip : for_sem (list Z) log_body 5 5 1 [] = [] /\ for_sem (list Z) log_body 3 (-4) 2 [] = []
  /\ for_sem (list Z) log_body (-3) 4 3 [] = [3; 0; -3].
Proof. vm_compute. repeat split. Qed.
(* the flatten witness of DESIGN section 11: outer 0..3 step 2, inner 0..5 step 2: 6 becomes 3 *)
Example C16_flatten_witness :
  nest_unused Z Z.succ 0 3 2 0 5 2 0 = 6 /\ flat_unused_old Z Z.succ 0 3 2 0 5 2 0 = 3
  /\ flat_unused Z Z.succ 3 2 0 5 2 0 = 6 /\ unused_new_ub 3 2 0 5 2 = 12
  /\ flat_unused Z Z.succ (-2) 1 5 0 1 0 = 0.
Proof. vm_compute. repeat split. Qed.
Example C16_flatten_used_witness :
  nest_used (list Z) log_body 0 3 2 1 [] = [3; 2; 1; 0] /\ flat_used (list Z) log_body 0 3 1 [] = [2; 1; 0]
  /\ used_new_ub true 0 3 2 = 4 /\ flat_used (list Z) log_body 0 (used_new_ub true 0 3 2) 1 [] = [3; 2; 1; 0].
Proof. vm_compute. repeat split. Qed.
(* the hypotheses of the partial theorems are satisfiable by loops that actually run *)
Example C16_flatten_nonvacuous :
  nest_unused Z Z.succ 0 4 2 1 7 3 0 = 4 /\ flat_unused Z Z.succ 4 2 1 7 3 0 = 4
  /\ nest_used (list Z) log_body 1 9 4 2 [] = flat_used (list Z) log_body 1 9 2 []
  /\ flat_used (list Z) log_body 1 9 2 [] = [7; 5; 3; 1].
Proof. vm_compute. repeat split. Qed.
Example C16_fold_nonvacuous :
  fold_pass [mkLink 1 FAdd true 2; mkLink 1 FMul true 3; mkLink 2 FAdd true 1] (0, 4, 1) 0 = ((6, 18, 3), 2%nat)
  /\ for_sem (list Z) log_body 6 18 3 [] = [15; 12; 9; 6].
Proof. vm_compute. split; reflexivity. Qed.
Example C16_lowering_nonvacuous :
  cfg_run (list Z) log_body (fun s => s) (fun s => s) 1 8 3 false 20 lower_for 0%nat 0 [] = RDone _ [7; 4; 1].
Proof. vm_compute. reflexivity. Qed.
Example C16_licm_nonvacuous :
  licm_pass [mkBop KMuli OOut OOut None; mkBop KAddi (OOp 0) OLoop None; mkBop KRemsi (OOp 0) OOut None;
             mkBop KDivsi OOut OOut None; mkBop KSubi (OOp 2) OOut (Some 4)] = Some [0; 2; 4]%nat.
Proof. vm_compute. reflexivity. Qed.
Example C16_switch_nonvacuous :
  sw_run (list nat) (fun i s => i :: s) 3 (lower_switch [5; 1; 7]) 1 0%nat [] = RDone _ [1%nat]
  /\ sw_run (list nat) (fun i s => i :: s) 3 (lower_switch [5; 1; 7]) 2 0%nat [] = RDone _ [3%nat]
  /\ sw_run (list nat) (fun i s => i :: s) 3 (lower_switch [1]) 4294967297 0%nat [] = RDone _ [0%nat]
  /\ switch_sem (list nat) (fun i s => i :: s) [1] 4294967297 [] = [1%nat].
Proof. vm_compute. repeat split. Qed.
(* declare a; a = x; t0 = fetch a; a = y; t1 = fetch a; use(t0, t1): both fetches are forwarded *)
Example C16_desymref_nonvacuous :
  prune_definitions 40 [SDeclare 0; SUpdate 0 (VOut 7); SFetch 0 0; SUpdate 0 (VOut 8); SFetch 0 1;
                        SUse 1 [VFetch 0; VFetch 1]] = DOk [SUse 1 [VOut 7; VOut 8]]
  /\ forward [SDeclare 0; SUpdate 0 (VOut 7); SFetch 0 0; SUpdate 0 (VOut 8); SFetch 0 1;
              SUse 1 [VFetch 0; VFetch 1]] [] [] = [SUse 1 [VOut 7; VOut 8]].
Proof. vm_compute. split; reflexivity. Qed.
