(* Props/C18.v -- property C18: pass pipeline specifications round-trip through text.
   ONLY theorem statements closed by `exact` (+ Examples).
   Model: C18/Model.v = xdsl/utils/arg_spec.py and PassPipeline.parse_spec AFTER the fix commits
   433c5e1 (string escaping, \HH escapes), fdc8560 (exponent floats printed with a `.`, inf/-inf/nan
   accepted for float-typed options), c048b77 (string-literal errors are ArgSpecParseError).
   Floats are an abstract type F with the CPython oracles fparse = float(text), fstr = str(x), feq,
   ifeq, universally quantified here; `value_ok` assumes float(printed text) = x for the floats that occur.
   Specs (C18/ProofsLex.v, ProofsParse.v, ProofsPass.v, ProofsTotal.v, ProofsWitness.v):
     name_okb t     the text is identifier characters and lexes as ONE IDENT token
     value_ok v     bool: always; int: at most 4300 decimal digits; str: ANY characters except a lone
                    surrogate (str_okb); float f: the printed text float_text (str f) is matched
                    entirely by the NUMBER regex, contains `.`, and float(text) = f  -- this excludes
                    exactly inf, -inf, nan
     spec_ok sp     pass name and option names name_okb, option names distinct, all values value_ok
     conv_ok v t    v has field type t and is not an empty tuple of a Union type / a 1-tuple whose
                    element alone has type t (both print like another value)
     rt_equal       field by field: the same value, or the default when value == default
     acceptable e   ArgSpecParseError | ValueError (int literal of more than 4300 digits); i.e. NOT
                    reading past EOF / assertion / out of fuel, and no other exception kind *)
From Coq Require Import ZArith List Bool.
From XV Require Import C18.Model C18.ProofsLex C18.ProofsParse C18.ProofsTotal C18.ProofsPass C18.ProofsWitness.
Import ListNotations.
Local Open Scope Z_scope.

(* ---- lexer: the fuel suffices, the stream ends once (EOF or the lexical error), tokens partition the input *)
Theorem C18_lex_total : forall s, well_terminated (lex s).
Proof. exact lex_well_terminated. Qed.
Print Assumptions C18_lex_total.

Theorem C18_lex_partition : forall s, last (lex s) TEOF = TEOF -> toks_text (lex s) = s.
Proof. exact (fun s => lexed_partition s (lex s) (lexed_lex s)). Qed.
Print Assumptions C18_lex_partition.

(* ---- round trip of one ArgSpec and of a pipeline, for every printable spec *)
Theorem C18_spec_roundtrip : forall F (fparse : str -> F) (fstr : F -> str) (sp : spec F),
  spec_ok F fparse fstr sp -> parse_pipeline F fparse (print_spec F fstr sp) = Ok [sp].
Proof. exact spec_roundtrip. Qed.
Print Assumptions C18_spec_roundtrip.

Theorem C18_pipeline_roundtrip : forall F (fparse : str -> F) (fstr : F -> str) (sps : list (spec F)),
  Forall (spec_ok F fparse fstr) sps -> parse_pipeline F fparse (print_pipeline F fstr sps) = Ok sps.
Proof. exact pipeline_roundtrip. Qed.
Print Assumptions C18_pipeline_roundtrip.

(* ---- round trip of a pass: PassPipeline.parse_spec({c.name: c}, str(p.pipeline_pass_spec())) *)
Theorem C18_roundtrip : forall F (fparse : str -> F) (fstr : F -> str) (feq : F -> F -> bool)
    (ifeq : Z -> F -> bool) (c : pass_class F) (vals : list (pval F)),
  class_ok F c -> vals_ok F fparse fstr (cfields F c) vals ->
  exists vals',
    pipeline_from_text F fparse [c] (print_spec F fstr (pass_spec F feq ifeq c vals)) = Ok [(cname F c, vals')]
    /\ rt_equal F feq ifeq (cfields F c) vals vals'.
Proof. exact pass_roundtrip. Qed.
Print Assumptions C18_roundtrip.

(* ---- a pipeline of passes: every position is instantiated from its own spec -- the same class
        may occur several times with different option values; position i of the result belongs to
        pass i of the input *)
Theorem C18_pass_pipeline_roundtrip : forall F (fparse : str -> F) (fstr : F -> str) (feq : F -> F -> bool)
    (ifeq : Z -> F -> bool) (reg : list (pass_class F)) (ps : list (pass_class F * list (pval F))),
  Forall (inst_ok F fparse fstr reg) ps ->
  exists out,
    pipeline_from_text F fparse reg (print_pipeline F fstr (map (inst_spec F feq ifeq) ps)) = Ok out
    /\ Forall2 (fun cv o => fst o = cname F (fst cv) /\ rt_equal F feq ifeq (cfields F (fst cv)) (snd cv) (snd o))
               ps out.
Proof. exact pass_pipeline_roundtrip. Qed.
Print Assumptions C18_pass_pipeline_roundtrip.

(* a non-finite float of a float-typed option: written inf/-inf/nan, read as that string, converted
   by float(...); before fdc8560 the conversion was a ValueError *)
Theorem C18_convert_non_finite : forall F (fparse : str -> F) s, is_non_finite_text s = true ->
  convert_arg F fparse [VStr s] TyFloat = Ok (PScalar (VFloat (fparse s)))
  /\ convert_arg F fparse [VStr s] (TyUnion [TyFloat; TyNone]) = Ok (PScalar (VFloat (fparse s)))
  /\ convert_arg F fparse [VStr s] (TyTupleVar TyFloat) = Ok (PTuple [VFloat (fparse s)])
  /\ convert_arg_old F [VStr s] TyFloat = Err EValue.
Proof. exact convert_non_finite. Qed.
Print Assumptions C18_convert_non_finite.

(* ---- what remains excluded is really excluded (the statement without value_ok / conv_ok is false) *)
Theorem C18_roundtrip_refuted : forall F (fparse : str -> F) (fstr : F -> str),
  exists sp : spec F, spec_names_ok sp /\ parse_pipeline F fparse (print_spec F fstr sp) <> Ok [sp].
Proof. exact roundtrip_refuted. Qed.
Print Assumptions C18_roundtrip_refuted.

Theorem C18_roundtrip_refuted_surrogate : forall F (fparse : str -> F) (fstr : F -> str),
  parse_pipeline F fparse (print_spec F fstr (one_option (VStr [55296]))) = Err EArgSpec.
Proof. exact surrogate_fails. Qed.
Print Assumptions C18_roundtrip_refuted_surrogate.

Theorem C18_roundtrip_refuted_non_finite : forall F (fparse : str -> F) (fstr : F -> str) f,
  fstr f = s_inf ->
  parse_pipeline F fparse (print_spec F fstr (one_option (VFloat f))) = Ok [one_option (VStr s_inf)].
Proof. exact non_finite_reads_as_string. Qed.
Print Assumptions C18_roundtrip_refuted_non_finite.

Theorem C18_convert_refuted_str_union : forall F (fparse : str -> F),
  convert_arg F fparse [VStr s_inf] (TyUnion [TyFloat; TyStr]) = Ok (PScalar (VStr s_inf)).
Proof. exact non_finite_in_str_union. Qed.
Print Assumptions C18_convert_refuted_str_union.

(* an empty tuple of `tuple[int, ...] | None` has the field type but converts back to None *)
Theorem C18_convert_refuted : forall F (fparse : str -> F), exists (t : ty) (v : pval F),
  (match v with PTuple l => isa_tuple F l t = true | _ => False end)
  /\ convert_arg F fparse (arg_list F v) t <> Ok v.
Proof. exact convert_refuted. Qed.
Print Assumptions C18_convert_refuted.

(* ---- recorded refutations of the code before the fixes (known_findings.d/C18.json: fixed) *)
Theorem C18_print_old_refuted_quote : forall F (fparse : str -> F) (fstr : F -> str),
  parse_pipeline F fparse (print_spec_old F fstr (one_option (VStr [120; 34; 121]))) = Err EArgSpec.
Proof. exact old_quote_fails. Qed.
Print Assumptions C18_print_old_refuted_quote.

Theorem C18_print_old_refuted_backslash : forall F (fparse : str -> F) (fstr : F -> str),
  parse_pipeline F fparse (print_spec_old F fstr (one_option (VStr [98; 92; 115]))) = Err EArgSpec.
Proof. exact old_backslash_fails. Qed.
Print Assumptions C18_print_old_refuted_backslash.

Theorem C18_print_old_refuted_float_exp : forall F (fparse : str -> F) (fstr : F -> str) f,
  fstr f = t_1e22 ->
  parse_pipeline F fparse (print_spec_old F fstr (one_option (VFloat f))) = Err EArgSpec.
Proof. exact old_float_exp_fails. Qed.
Print Assumptions C18_print_old_refuted_float_exp.

Theorem C18_print_old_refuted_float_small : forall F (fparse : str -> F) (fstr : F -> str) f,
  fstr f = t_1em05 ->
  parse_pipeline F fparse (print_spec_old F fstr (one_option (VFloat f))) = Ok [one_option (VStr t_1em05)].
Proof. exact old_float_small_is_string. Qed.
Print Assumptions C18_print_old_refuted_float_small.

(* ---- parsing any string: specs, the pipeline parse error, or the ValueError of an over-long int; never stuck *)
Theorem C18_parse_total : forall F (fparse : str -> F) (s : str),
  match parse_pipeline F fparse s with Ok _ => True | Err e => acceptable e end.
Proof. exact parse_total. Qed.
Print Assumptions C18_parse_total.

Theorem C18_parse_total_short : forall F (fparse : str -> F) (s : str),
  Z.of_nat (length s) <= max_str_digits ->
  match parse_pipeline F fparse s with Ok _ => True | Err e => e = EArgSpec end.
Proof. exact parse_total_short. Qed.
Print Assumptions C18_parse_total_short.

(* ---- non-vacuity *)
(* a spec with a string holding quote, backslash, \n, \r, \f, \v, tab, non-ASCII, and the floats
   1.5e+22 and 1e+22 is printable and parses back *)
Example C18_spec_ok_satisfiable :
  spec_ok str ex_fparse idf ex_spec
  /\ parse_pipeline str ex_fparse (print_spec str idf ex_spec) = Ok [ex_spec].
Proof. split; [exact ex_spec_ok|vm_compute; reflexivity]. Qed.
Print Assumptions C18_spec_ok_satisfiable.

Example C18_pass_ok_satisfiable :
  class_ok str ex_class /\ vals_ok str idf idf (cfields str ex_class) ex_vals
  /\ pipeline_from_text str idf [ex_class]
       (print_spec str idf (pass_spec str (fun a b => str_eqb a b) (fun _ _ => false) ex_class ex_vals))
     = Ok [([112], ex_vals)].
Proof. split; [exact (proj1 ex_class_ok)|split; [exact (proj2 ex_class_ok)|vm_compute; reflexivity]]. Qed.
Print Assumptions C18_pass_ok_satisfiable.

(* escapes: \r is now the pipeline parse error; \HH escapes decode as UTF-8; overlong forms are rejected;
   1e+22 is printed 1.0e+22 and parses back *)
Example C18_escape_witnesses : forall F (fparse : str -> F),
  parse_pipeline F fparse [112; 123; 97; 61; 34; 92; 114; 34; 125] = Err EArgSpec
  /\ parse_pipeline F fparse
       [112; 123; 97; 61; 34; 92; 99; 51; 92; 97; 57; 92; 101; 50; 92; 56; 50; 92; 97; 99; 92; 52; 49; 34; 125]
     = Ok [one_option (VStr [233; 8364; 65])]
  /\ parse_pipeline F fparse [112; 123; 97; 61; 34; 92; 99; 48; 92; 56; 48; 34; 125] = Err EArgSpec.
Proof.
  intros F fparse. split; [apply escape_r_is_argspec_error|split; [apply hex_escapes_decode_utf8|apply overlong_rejected]].
Qed.
Print Assumptions C18_escape_witnesses.

Example C18_float_exp_now_ok : forall F (fparse : str -> F) (fstr : F -> str) f,
  fstr f = t_1e22 -> fparse t_1_0e22 = f ->
  parse_pipeline F fparse (print_spec F fstr (one_option (VFloat f))) = Ok [one_option (VFloat f)].
Proof. exact new_float_exp_ok. Qed.
Print Assumptions C18_float_exp_now_ok.
