(* Props/C13.v -- property C13: dead-code elimination removes only unobservable code.
   ONLY theorem statements closed by `exact`.  Model: C13/Model.v (region_dce, liveness, delete_dead
   = dd_region/ddc_region, dce_pass, dce_pass_iter).  Specs (C13/Proofs.v): `visited_r` (operations
   reached by the propagation: reachable blocks, recursively through regions), `live` (least fixed
   point of: intrinsically live, or used by a live op), `rin out r rg` (rg is r or a region of an
   operation all of whose enclosing operations remain in `out`), `kin L r rg` (the same w.r.t. the
   live set L used by delete_dead), `complete` (no trivially dead op, every block reachable);
   C13/ProofsSem.v: `run` (big-step semantics of a region-free CFG with memory and effect log). *)
From Coq Require Import List Arith.
From XV Require Import C24.Model C24.ProofsPO C13.Model C13.Proofs C13.ProofsIter C13.ProofsGreedy C13.ProofsSem.
Import ListNotations.

(* the `while changed` loop ends within its fuel (the live set strictly grows) and region_dce is total *)
Theorem C13_terminates : forall r,
  (exists st, liveness r = Some st /\ ls_err st = false) /\ exists r' ch, region_dce r = Some (r', ch).
Proof. exact terminates. Qed.
Print Assumptions C13_terminates.

(* the computed live set is the least fixed point of the liveness rules *)
Theorem C13_liveness_is_lfp : forall r st,
  NoDup (ids (walk_region r)) -> liveness r = Some st ->
  forall o, In o (walk_region r) -> (lives (ls_live st) o = true <-> live r o).
Proof. exact liveness_lfp. Qed.
Print Assumptions C13_liveness_is_lfp.

(* an operation that disappears although its block is reachable and all its enclosing operations
   remain is not a terminator, not a symbol, has only result-only effects (would_be_trivially_dead)
   and every user of its results disappears too *)
Theorem C13_only_removable : forall r r' ch,
  NoDup (ids (walk_region r)) -> region_dce r = Some (r', ch) ->
  forall rg bi b o, rin (ids (walk_region r')) r rg -> nth_error rg bi = Some b -> In o (b_ops b) ->
    ~ In (o_id o) (ids (walk_region r')) ->
    ~ reach (cfg_of rg) bi \/
    (would_be_trivially_dead o = true /\
     forall u, In u (walk_region r) -> uses u o -> ~ In (o_id u) (ids (walk_region r'))).
Proof. exact only_removable. Qed.
Print Assumptions C13_only_removable.

Theorem C13_output_subset : forall r r' ch,
  region_dce r = Some (r', ch) -> incl (ids (walk_region r')) (ids (walk_region r)).
Proof. exact output_subset. Qed.
Print Assumptions C13_output_subset.

(* delete_dead keeps a block of a kept region only if it is reachable, and keeps every reachable
   block that contains a terminator: unreachable blocks are removed, only unreachable blocks are *)
Theorem C13_unreachable_blocks_removed : forall r r' ch,
  NoDup (ids (walk_region r)) -> region_dce r = Some (r', ch) ->
  exists L, r' = dd_region L r /\ ch = ddc_region L r /\
    forall rg, kin L r rg -> forall bi b, nth_error rg bi = Some b ->
      (keep_blk L bi b -> reach (cfg_of rg) bi) /\
      (reach (cfg_of rg) bi -> (exists t, In t (b_ops b) /\ o_term t = true) -> keep_blk L bi b).
Proof. exact blocks_kept_iff_reachable. Qed.
Print Assumptions C13_unreachable_blocks_removed.

(* ONE run (the dce pass as it is) can leave a trivially dead operation: refuted by two witnesses *)
Theorem C13_complete_refuted :
  leaves_trivially_dead witness_nested_use /\ leaves_trivially_dead witness_unreachable_effect.
Proof. exact complete_refuted. Qed.
Print Assumptions C13_complete_refuted.

(* strongest statements that hold: a run that reports no change is complete ... *)
Theorem C13_complete_partial : forall r r',
  NoDup (ids (walk_region r)) -> region_dce r = Some (r', false) -> r' = r /\ complete r.
Proof. exact complete_if_unchanged. Qed.
Print Assumptions C13_complete_partial.

(* ... hence region_dce iterated until it reports no change (the proposed repair) is complete *)
Theorem C13_complete_iterated : forall fuel r r'',
  NoDup (ids (walk_region r)) -> dce_iter fuel r = Some r'' -> complete r''.
Proof. exact dce_iter_complete. Qed.
Print Assumptions C13_complete_iterated.

(* the repaired pass (model dce_pass_iter, fuel = number of ops and blocks) terminates: every run that
   reports a change deletes an operation or a block *)
Theorem C13_iterated_total : forall r, NoDup (ids (walk_region r)) ->
  exists r'', dce_pass_iter r = Some r'' /\ complete r''.
Proof. exact dce_pass_iter_total. Qed.
Print Assumptions C13_iterated_total.

(* trivially-dead removal of the greedy driver: it terminates, proceeds in rounds (`grounds`), the
   result has no trivially dead operation, and a round removes only operations that are trivially
   dead at that moment (unused results, would_be_trivially_dead) or nested in one *)
Theorem C13_greedy_total_complete : forall r,
  exists r', greedy_dce r = Some r' /\ grounds r r' /\
             forall o, In o (walk_region r') -> is_trivially_dead (walk_region r') o = false.
Proof. exact greedy_total. Qed.
Print Assumptions C13_greedy_total_complete.

Theorem C13_greedy_only_removable : forall all r i,
  In i (ids (walk_region r)) -> ~ In i (ids (walk_region (gd_region all r))) ->
  exists p, In p (walk_region r) /\ is_trivially_dead all p = true /\ In i (ids (walk_op p)).
Proof. exact gd_round_sound. Qed.
Print Assumptions C13_greedy_only_removable.

(* the hypothesis of C13_complete_partial is satisfiable, and the iteration reaches it *)
Example C13_iterated_nonvacuous :
  dce_pass_iter witness_nested_use = Some [Blk 0 [] [Op 4 [] [] [] [] true false None false]] /\
  dce_pass_iter witness_unreachable_effect = Some [Blk 0 [] [Op 4 [] [] [] [] true false None false]].
Proof. exact iter_removes_witnesses. Qed.

(* same results, memory and effect log before and after region_dce, for every region-free CFG,
   every uninterpreted operation semantics in which would_be_trivially_dead operations always
   succeed without touching memory or log, every initial environment and memory *)
Theorem C13_semantics : forall (val mem event : Type)
  (sem : op -> list val -> mem -> option (list val * mem * list event))
  (tsem : op -> list val -> mem -> option (tres val * mem * list event)),
  (forall o vs m, would_be_trivially_dead o = true -> exists rs, sem o vs m = Some (rs, m, [])) ->
  forall r r' ch,
    NoDup (ids (walk_region r)) -> NoDup (map b_id r) ->
    (forall o, In o (walk_region r) -> o_regs o = []) ->
    (forall b pre t post, In b r -> b_ops b = pre ++ t :: post -> o_term t = true -> post = []) ->
    region_dce r = Some (r', ch) ->
    forall e m res, run val mem event sem tsem r e m res <-> run val mem event sem tsem r' e m res.
Proof. exact semantics_preserved. Qed.
Print Assumptions C13_semantics.

(* the hypotheses of C13_semantics are satisfiable by a program that runs and loses an op *)
Example C13_semantics_nonvacuous :
  (forall o vs m, would_be_trivially_dead o = true -> exists rs, ex_sem o vs m = Some (rs, m, [])) /\
  region_dce ex_prog = Some ([Blk 0 [] [Op 1 [1] [] [] [] false false (Some [EWrite]) false;
                                        Op 2 [] [1] [] [] true false None false]], true) /\
  run nat nat nat ex_sem ex_tsem ex_prog (fun _ => 0) 0 ([7], 1, [1]).
Proof. exact semantics_nonvacuous. Qed.
