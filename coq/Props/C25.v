(* Props/C25.v -- property C25: the liveness data-flow analysis computes its specified fixpoint
   under any schedule.  ONLY theorem statements closed by `exact`.
   Spec: `Live P v` (top of C25/Proofs.v): v is an operand of an op that is not trivially dead
   (`removable = false`: side effects, terminators such as func.return of public and private
   functions, symbol ops), or an operand of an op one of whose results is Live.
   Model: C25/Model.v (`solve P ord choose`: both load orders `ord` of DeadCodeAnalysis and
   LivenessAnalysis; `choose k w` = which member of worklist w is popped at step k, arbitrary). *)
From Coq Require Import List Arith Bool.
From XV Require Import C25.Model C25.Proofs.
Import ListNotations.

(* the solver loop terminates within |ops| + |results| pops, for every program, load order and
   pop choice; it stops with an empty worklist *)
Theorem C25_terminates : forall (P : list op) ord choose,
  exists s, solve P ord choose = Some s /\ wl s = [].
Proof. exact solve_terminates. Qed.
Print Assumptions C25_terminates.

(* the final lattice is exactly backward reachability, whatever was popped when *)
Theorem C25_sound_complete : forall (P : list op) ord choose s,
  solve P ord choose = Some s -> forall v, live s v = true <-> Live P v.
Proof. exact solve_sound_complete. Qed.
Print Assumptions C25_sound_complete.

(* ... also when the loop is given any other amount of fuel and happens to finish *)
Theorem C25_sound_complete_any_fuel : forall (P : list op) ord choose fuel s,
  run P fuel choose 0 (initialize P ord) = Some s -> forall v, live s v = true <-> Live P v.
Proof. exact run_sound_complete. Qed.
Print Assumptions C25_sound_complete_any_fuel.

(* hence the result depends neither on the schedule nor on the load order of the two analyses *)
Theorem C25_schedule_independent : forall (P : list op) ord1 ord2 choose1 choose2 s1 s2,
  solve P ord1 choose1 = Some s1 -> solve P ord2 choose2 = Some s2 -> forall v, live s1 v = live s2 v.
Proof. exact solve_schedule_independent. Qed.
Print Assumptions C25_schedule_independent.

(* every step of the loop (any member popped) strictly decreases
   |worklist| + number of result slots whose lattice is still dead: a lattice flips at most once and
   each flip enqueues at most one item per result slot it occupies *)
Theorem C25_step_decreases : forall (P : list op) s j d,
  good P all s -> j < length (wl s) ->
  let s' := visit P (nth j (wl s) d) (set_wl (remove_nth j (wl s)) s) in
  good P all s' /\ S (pot P s') <= pot P s.
Proof. exact good_step. Qed.
Print Assumptions C25_step_decreases.

(* on termination the event log contains no value twice as flipped, and the flipped values are
   exactly the live ones: every lattice changes at most once, whatever the schedule *)
Theorem C25_flips_once : forall (P : list op) ord choose s, solve P ord choose = Some s ->
  NoDup (flips (log s)) /\ forall v, In v (flips (log s)) <-> live s v = true.
Proof. exact solve_flips_once. Qed.
Print Assumptions C25_flips_once.

(* non-vacuity: a private function  %2 = const; %3 = addi %1,%2; %4 = addi %3,%3 (dead chain, used only
   by the dead pure op producing %10); store %3 -> %0[%2]; %5 = load; %6 = call(%5); %7,%8 = pure(%6);
   %9 = read(%8); write(%9); %10 = pure(%4); return %7.   FIFO, LIFO and a mixed schedule, both load
   orders, give: everything live except %4 and %10. *)
Definition ex_prog : list op :=
  [ {| results := [2]; operands := []; removable := true |};
    {| results := [3]; operands := [1; 2]; removable := true |};
    {| results := [4]; operands := [3; 3]; removable := true |};
    {| results := []; operands := [3; 0; 2]; removable := false |};
    {| results := [5]; operands := [0; 2]; removable := true |};
    {| results := [6]; operands := [5]; removable := false |};
    {| results := [7; 8]; operands := [6]; removable := true |};
    {| results := [9]; operands := [8]; removable := true |};
    {| results := []; operands := [9]; removable := false |};
    {| results := [10]; operands := [4]; removable := true |};
    {| results := []; operands := [7]; removable := false |} ].
Definition final_live (ord : load_order) (choose : nat -> list item -> nat) : option (list bool) :=
  match solve ex_prog ord choose with Some s => Some (map (live s) (seq 0 11)) | None => None end.
Example C25_nonvacuous :
  let expect := Some [true; true; true; true; false; true; true; true; true; true; false] in
  final_live DcaFirst (fun _ _ => 0) = expect /\ final_live LivFirst (fun _ _ => 0) = expect
  /\ final_live DcaFirst (fun _ w => length w - 1) = expect
  /\ final_live LivFirst (fun _ w => length w - 1) = expect
  /\ final_live LivFirst (fun k w => 7 * k + length w) = expect.
Proof. vm_compute. repeat split; reflexivity. Qed.
Print Assumptions C25_nonvacuous.
