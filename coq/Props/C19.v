(* Props/C19.v -- property C19: register allocation never gives one register to two live values.
   ONLY theorem statements closed by `exact`/`eapply` of lemmas proved in C19/Proofs*.v.

   Model: C19/Model.v (RegisterStack, ValueAllocator, HasRegisterConstraints.allocate_registers,
   BlockNaiveAllocator.allocate_block, RISC-V zero rule, allocate_func, riscv_scf.for).
   Spec (C19/ProofsSpec.v, readable in a minute): a block is `sl : list sop`; a program point is a
   split sl = p ++ s; `live s v` = some operation of s reads v and none defines it; `wf_prog` = SSA;
   `io_ok` = an in/out operand dies at its in/out use (documented contract of HasRegisterConstraints);
   `forced_ok` = the registers the INPUT forces (pre-assigned, propagated through in/out ties) do not
   themselves clash; `input_ok` = zero is neither allocatable nor pre-assigned, pool >= 0.
   The model is that of /repo after the repairs d11e3b9 (RegisterStack.push / exclude_register) and
   26a8b63 (allocate_func excludes every pre-assigned register); the code before them is kept as
   `allocate_func_old` for the two recorded refutations.
   The theorems are for the straight-line fragment (`map Simple sl`), any size, any pool, any
   pre-assignment; `zr` = RISC-V zero rule on/off (off = x86). *)
From Coq Require Import ZArith List Bool.
From XV Require Import C19.Model C19.ProofsSpec C19.ProofsAlloc C19.ProofsOp C19.ProofsStep C19.ProofsMain
                       C19.ProofsFunc C19.ProofsRefute C19.ProofsLoop C19.ProofsLoop2 C19.ProofsLoopEx C19.ProofsLoopSem C19.Enc.
Import ListNotations.
Local Open Scope Z_scope.

(* The allocator invariant, at every point of the backward walk: once the operations of the suffix s
   are processed, every value live before s has a register and that register is NOT available. *)
Theorem C19_allocator_invariant : forall zr pool allow pre sl,
  input_ok zr pool (mkFunc pre (map Simple sl)) -> wf_prog sl -> io_ok sl ->
  forall p s a, sl = p ++ s ->
  allocate_sops (mk_cfg zr (mkFunc pre (map Simple sl))) s (init_state pool allow (mkFunc pre (map Simple sl))) = Ok a ->
  (forall v, live s v -> exists r, ty a v = Some r /\ ~ In r (available (stk a)))
  /\ NoDup (available (stk a)).
Proof. intros zr pool allow pre sl Hin Hwf Hio. exact (func_invariant zr pool allow pre sl Hin Hwf Hio). Qed.
Print Assumptions C19_allocator_invariant.

(* No interference: two different values live at the same program point hold the same register only
   if both are known constants zero sitting in the hard-wired zero register. *)
Theorem C19_no_interference : forall zr pool allow pre sl af,
  input_ok zr pool (mkFunc pre (map Simple sl)) -> wf_prog sl -> io_ok sl ->
  forced_ok (ty0 (mkFunc pre (map Simple sl))) sl ->
  allocate_func zr pool allow (mkFunc pre (map Simple sl)) = Ok af ->
  forall p s v1 v2 r, sl = p ++ s -> live s v1 -> live s v2 -> v1 <> v2 ->
  ty af v1 = Some r -> ty af v2 = Some r ->
  zr = true /\ r = 0 /\ In v1 (zero_consts sl) /\ In v2 (zero_consts sl).
Proof.
  intros zr pool allow pre sl af Hin Hwf Hio Hf Hrun.
  exact (func_no_interference zr pool allow pre sl Hin Hwf Hio af Hrun Hf).
Qed.
Print Assumptions C19_no_interference.

(* ... and no result (even a dead one) is written into the register of a value live after the op. *)
Theorem C19_no_clobber : forall zr pool allow pre sl af,
  input_ok zr pool (mkFunc pre (map Simple sl)) -> wf_prog sl -> io_ok sl ->
  forced_ok (ty0 (mkFunc pre (map Simple sl))) sl ->
  allocate_func zr pool allow (mkFunc pre (map Simple sl)) = Ok af ->
  forall p o s d v r, sl = p ++ o :: s -> In d (defs o) -> live s v -> d <> v ->
  ty af d = Some r -> ty af v = Some r ->
  zr = true /\ r = 0 /\ In d (zero_consts sl) /\ In v (zero_consts sl).
Proof.
  intros zr pool allow pre sl af Hin Hwf Hio Hf Hrun.
  exact (func_no_clobber zr pool allow pre sl Hin Hwf Hio af Hrun Hf).
Qed.
Print Assumptions C19_no_clobber.

(* Without any assumption on the input's own ties/pre-assignments: whatever sharing there is, is
   confined to registers that the input itself pre-assigned (or to `zero`): registers handed out
   from the pool never clash with anything. *)
Theorem C19_interference_confined : forall zr pool allow pre sl af,
  input_ok zr pool (mkFunc pre (map Simple sl)) -> wf_prog sl -> io_ok sl ->
  allocate_func zr pool allow (mkFunc pre (map Simple sl)) = Ok af ->
  (forall p s v1 v2 r, sl = p ++ s -> live s v1 -> live s v2 -> v1 <> v2 ->
     ty af v1 = Some r -> ty af v2 = Some r ->
     (exists w, ty0 (mkFunc pre (map Simple sl)) w = Some r) \/ (zr = true /\ r = 0))
  /\ (forall p o s d v r, sl = p ++ o :: s -> In d (defs o) -> live s v -> d <> v ->
     ty af d = Some r -> ty af v = Some r ->
     (exists w, ty0 (mkFunc pre (map Simple sl)) w = Some r) \/ (zr = true /\ r = 0)).
Proof.
  intros zr pool allow pre sl af Hin Hwf Hio Hrun. split.
  - exact (func_confined zr pool allow pre sl Hin Hwf Hio af Hrun).
  - exact (func_def_confined zr pool allow pre sl Hin Hwf Hio af Hrun).
Qed.
Print Assumptions C19_interference_confined.

(* Pre-assigned registers are kept. *)
Theorem C19_preallocated_respected : forall zr pool allow pre sl af,
  input_ok zr pool (mkFunc pre (map Simple sl)) -> wf_prog sl -> io_ok sl ->
  allocate_func zr pool allow (mkFunc pre (map Simple sl)) = Ok af ->
  forall v r, ty0 (mkFunc pre (map Simple sl)) v = Some r -> ty af v = Some r.
Proof.
  intros zr pool allow pre sl af Hin Hwf Hio Hrun.
  exact (func_preallocated zr pool allow pre sl Hin Hwf Hio af Hrun).
Qed.
Print Assumptions C19_preallocated_respected.

(* Reserved registers are respected: a value that was unallocated in the input gets a register of the
   pool handed to the allocator, or an infinite one if allowed, or `zero` if it is a constant 0, or a
   register the input pre-assigned (through an in/out tie) -- never anything else (sp, ra, s-registers...). *)
Theorem C19_reserved_respected : forall zr pool allow pre sl af,
  input_ok zr pool (mkFunc pre (map Simple sl)) -> wf_prog sl -> io_ok sl ->
  allocate_func zr pool allow (mkFunc pre (map Simple sl)) = Ok af ->
  forall v r, ty af v = Some r -> ty0 (mkFunc pre (map Simple sl)) v = None ->
  In r pool \/ (r < 0 /\ allow = true) \/ (zr = true /\ r = 0 /\ In v (zero_consts sl))
  \/ (exists w, ty0 (mkFunc pre (map Simple sl)) w = Some r).
Proof.
  intros zr pool allow pre sl af Hin Hwf Hio Hrun.
  exact (func_reserved zr pool allow pre sl Hin Hwf Hio af Hrun).
Qed.
Print Assumptions C19_reserved_respected.

(* Every live value and every result has a register; in/out operand and result share one. *)
Theorem C19_allocated_and_tied : forall zr pool allow pre sl af,
  input_ok zr pool (mkFunc pre (map Simple sl)) -> wf_prog sl -> io_ok sl ->
  allocate_func zr pool allow (mkFunc pre (map Simple sl)) = Ok af ->
  (forall p s v, sl = p ++ s -> live s v -> exists r, ty af v = Some r)
  /\ (forall p o s d, sl = p ++ o :: s -> In d (defs o) -> exists r, ty af d = Some r)
  /\ (forall o x y, In o sl -> In (x, y) (s_io o) -> ty af x = ty af y /\ ty af x <> None).
Proof.
  intros zr pool allow pre sl af Hin Hwf Hio Hrun. split; [|split].
  - exact (func_live_allocated zr pool allow pre sl Hin Hwf Hio af Hrun).
  - exact (func_defs_allocated zr pool allow pre sl Hin Hwf Hio af Hrun).
  - exact (func_ties zr pool allow pre sl Hin Hwf Hio af Hrun).
Qed.
Print Assumptions C19_allocated_and_tied.

(* Semantics: run the allocated code on a register machine (reads of `zero` give 0, writes to it are
   discarded, operands read before results are written) and the SSA program on an environment, with
   arbitrary (uninterpreted) operation functions `fop`, constants 0 and moves as such: every operation
   -- in particular the final return -- reads the same operand values in both runs. *)
Theorem C19_semantics : forall zr pool allow pre sl af,
  input_ok zr pool (mkFunc pre (map Simple sl)) -> wf_prog sl -> io_ok sl ->
  forced_ok (ty0 (mkFunc pre (map Simple sl))) sl ->
  allocate_func zr pool allow (mkFunc pre (map Simple sl)) = Ok af ->
  forall (data : Type) (dzero : data) (fop : nat -> nat -> list data -> data)
         (env0 : value -> data) (rf0 : Z -> data),
  (forall v, live sl v -> read_reg data dzero zr (asg_of af) rf0 v = env0 v) ->
  forall p o s, sl = p ++ o :: s -> forall v, In v (uses o) ->
    read_reg data dzero zr (asg_of af) (exec_regs data dzero fop zr (asg_of af) 0 p rf0) v
    = exec_ssa data dzero fop 0 p env0 v.
Proof.
  intros zr pool allow pre sl af Hin Hwf Hio Hf Hrun data dzero fop env0 rf0 Hinit.
  exact (func_semantics zr pool allow pre sl Hin Hwf Hio af Hrun Hf data dzero fop env0 rf0 Hinit).
Qed.
Print Assumptions C19_semantics.

(* Recorded refutations of the allocator BEFORE the repairs (known_findings.d/C19.json: fixed): on
   inputs satisfying every hypothesis above, the faithful model of the old code put two live values
   into one register; the repaired model separates them / fails explicitly. *)
Theorem C19_infinite_preassigned_old_refuted :
  exists zr pool allow pre sl af p s v1 v2 r,
    let fn := mkFunc pre (map Simple sl) in
    input_ok zr pool fn /\ wf_prog sl /\ io_ok sl /\ forced_ok (ty0 fn) sl
    /\ allocate_func_old zr pool allow pre sl = Ok af
    /\ sl = p ++ s /\ live s v1 /\ live s v2 /\ v1 <> v2
    /\ ty af v1 = Some r /\ ty af v2 = Some r /\ r <> 0
    /\ match allocate_func zr pool allow fn with
       | Ok af' => ty af' v1 <> ty af' v2 | Err _ => False end.
Proof. exact infinite_preassigned_old_refuted. Qed.
Print Assumptions C19_infinite_preassigned_old_refuted.

Theorem C19_unexcluded_preassigned_old_refuted :
  exists zr pool allow pre sl af p s v1 v2 r,
    let fn := mkFunc pre (map Simple sl) in
    input_ok zr pool fn /\ wf_prog sl /\ io_ok sl /\ forced_ok (ty0 fn) sl
    /\ allocate_func_old zr pool allow pre sl = Ok af
    /\ sl = p ++ s /\ live s v1 /\ live s v2 /\ v1 <> v2
    /\ ty af v1 = Some r /\ ty af v2 = Some r /\ r <> 0
    /\ allocate_func zr pool allow fn = Err OutOfRegisters.
Proof. exact unexcluded_preassigned_old_refuted. Qed.
Print Assumptions C19_unexcluded_preassigned_old_refuted.

(* The hypotheses are satisfiable by a non-trivial program (zero constant, pre-assigned a0 that is in
   the pool and gets excluded, a register reused by two consecutive values). *)
Theorem C19_hypotheses_satisfiable :
  exists zr pool allow pre sl af,
    let fn := mkFunc pre (map Simple sl) in
    input_ok zr pool fn /\ wf_prog sl /\ io_ok sl /\ forced_ok (ty0 fn) sl
    /\ allocate_func zr pool allow fn = Ok af
    /\ ty af 0%nat = Some 0 /\ ty af 1%nat = Some 10
    /\ ty af 2%nat = ty af 3%nat /\ ty af 2%nat = Some 5.
Proof. exact hypotheses_satisfiable. Qed.
Print Assumptions C19_hypotheses_satisfiable.

(* OutOfRegisters is an explicit result, not a silent wrong answer: three values live together,
   two registers, no infinite registers. *)
Example C19_out_of_registers :
  allocate_func true [6; 5] false
    (mkFunc [None; None; None; None]
       [S_ [] [0%nat] [] KOther true; S_ [] [1%nat] [] KOther true; S_ [] [2%nat] [] KOther true;
        S_ [0%nat; 1%nat; 2%nat] [3%nat] [] KOther true; S_ [3%nat] [] [] KOther true])
  = Err OutOfRegisters.
Proof. vm_compute. reflexivity. Qed.

(* The riscv_scf.for model on the loop of tests/filecheck/.../generic.mlir style input reproduces the
   registers the real pass prints (zero, t2, t3, t0 | result t0 | iv t1, carried t0 | t4, t4, t0). *)
Example C19_for_example :
  match allocate_func true [17; 16; 15; 14; 13; 12; 11; 10; 31; 30; 29; 28; 7; 6; 5] false
    (mkFunc (repeat None 10)
       [S_ [] [0%nat] [] KZero true; S_ [] [1%nat] [] KOther true; S_ [] [2%nat] [] KOther true;
        S_ [] [3%nat] [] KOther true;
        F_ 0%nat 1%nat (Some 2%nat) [3%nat] [4%nat] [5%nat; 6%nat]
           [B_ [] [7%nat] [] KOther true; B_ [6%nat; 7%nat] [8%nat] [] KOther true;
            B_ [8%nat; 8%nat] [9%nat] [] KOther true] [9%nat];
        S_ [4%nat] [] [] KOther true]) with
  | Ok af => map (ty af) (seq 0 10)
             = [Some 0; Some 7; Some 28; Some 5; Some 5; Some 6; Some 5; Some 29; Some 29; Some 5]
  | Err _ => False
  end.
Proof. vm_compute. reflexivity. Qed.

(* ------------------------------------------------------------------------------------------------ *)
(* riscv_scf.for: PARTIAL results.  The end-to-end no-interference theorem for functions with a loop is
   not finished; proved are the three pieces below, each for arbitrary programs, stated with their exact
   hypotheses.  `Inv c t0 FR L E M a` (C19/ProofsAlloc.v) is the allocator invariant: the registers of
   the values in L are not available, two of them share a register only if the typing t0 pre-assigns it,
   or it is zero, or the pair is exempt by E; values outside M still have their t0 type.

   (1) allocating the loop-carried groups (block_arg, iter operand, yield operand, result) preserves the
       invariant, PROVIDED the groups do not overlap (NoDup (concat gs)), the block argument, the iter
       operand and the yield operand of every group are so far untouched and unallocated in the input
       (the iter operand dies at the loop: it is used by nothing processed before; the yield operand is a
       body value, not the induction variable and not an outer value), and the result is unallocated
       in the input.  These hypotheses exclude the shape of the recorded finding C19-kf-3 (yield of the
       induction variable), see C19_loop_yield_iv_refuted below. *)
Theorem C19_loop_groups_partial : forall c t0 (FR : value -> Z -> Prop) gs0, NoDup (concat gs0) ->
  forall (L M : value -> Prop) gs pre acc a a',
    gs0 = pre ++ gs ->
    Inv c t0 FR (setof L acc) (Eg gs0) (setof M acc) a ->
    (forall g, In g gs -> exists b it y r_, g = [b; it; y; r_] /\ NoDup g
        /\ ~ M b /\ ~ M it /\ ~ M y /\ t0 b = None /\ t0 it = None /\ t0 y = None /\ t0 r_ = None
        /\ (L r_ \/ ~ M r_) /\ ~ In r_ (zconsts c)
        /\ (forall u w r, In u g -> In w g -> FR u r -> FR w r)
        /\ (forall u, In u g -> ~ In u acc)) ->
    NoDup (concat gs) ->
    fold_res allocate_values_same_reg gs a = Ok a' ->
    Inv c t0 FR (setof L (acc ++ concat gs)) (Eg gs0) (setof M (acc ++ concat gs)) a' /\ mono a a'
    /\ (forall g, In g gs -> exists R, forall u, In u g -> ty a' u = Some R)
    /\ (forall w, ~ In w (concat gs) -> ty a' w = ty a w).
Proof. intros c t0 FR gs0 Hnd. exact (groups_phase c t0 FR gs0 Hnd). Qed.
Print Assumptions C19_loop_groups_partial.

(* (2) reserving registers that are not available (the loop-carried ones) preserves the invariant *)
Theorem C19_loop_reserve_partial : forall c t0 (FR : value -> Z -> Prop) (L : value -> Prop) E (M : value -> Prop) a regs,
  Inv c t0 FR L E M a ->
  (forall r, In r regs -> ~ In r (available (stk a)) /\ (r < 0 -> - r - 1 < next_inf (stk a))) ->
  Inv c t0 FR L E M (set_stk a (fold_left (fun s r => reserve_register r s) regs (stk a))).
Proof. exact reserve_inv. Qed.
Print Assumptions C19_loop_reserve_partial.

(* (3) the walk over a segment q of a block l (the loop body inside the virtual straight-line block
       pre ++ H :: body ++ Y :: post, where the pseudo-operations H / Y stand for the loop header and the
       back edge and make live-ins, induction variable and yield operands live throughout the body),
       started from ANY state that satisfies the invariant at the point below the segment -- in
       particular one with reserved registers -- re-establishes it at every point of the segment;
       t0 may be the typing in which the members of the loop-carried groups count as pre-assigned. *)
Theorem C19_loop_body_partial : forall c t0 (FR : value -> Z -> Prop),
  (forall v r, t0 v = Some r -> FR v r) ->
  forall l, wf_prog l -> io_ok l ->
  (forall o' x y, In o' l -> In (x, y) (s_io o') -> ~ In y (zconsts c)) ->
  (forall o' x y, In o' l -> In (x, y) (s_io o') -> forall r, (FR x r -> FR y r) /\ (FR y r -> FR x r)) ->
  forall q s0 p a0 a, l = p ++ q ++ s0 ->
    Inv c t0 FR (live s0) Enone (ment s0) a0 -> (forall v, live s0 v -> exists r, ty a0 v = Some r) ->
    allocate_sops c q a0 = Ok a ->
    Inv c t0 FR (live (q ++ s0)) Enone (ment (q ++ s0)) a
    /\ (forall v, live (q ++ s0) v -> exists r, ty a v = Some r) /\ mono a0 a.
Proof. intros c t0 FR Hpre l Hwf Hio Hnz Htie. exact (walk_from c t0 FR Hpre l Hwf Hio Hnz Htie). Qed.
Print Assumptions C19_loop_body_partial.

(* Recorded finding C19-kf-3 (found through the C22 pipeline check, C22-kf-7): a riscv_scf.for that
   yields its own induction variable -- `scf.for %i ... iter_args(%acc = %init) { yield %i }`, valid IR
   produced by xDSL's own lowering -- is allocated without error and the induction variable (value 5),
   the iter operand (3), the carried block argument (6) and the result (4) all get t0: the loop header's
   `mv iv <- lb` overwrites the carried value, the increment of iv overwrites the yielded one. *)
Example C19_loop_yield_iv_refuted :
  match allocate_func true [17; 16; 15; 14; 13; 12; 11; 10; 31; 30; 29; 28; 7; 6; 5] false
    (mkFunc (repeat None 7)
       [S_ [] [0%nat] [] KZero true; S_ [] [1%nat] [] KOther true; S_ [] [2%nat] [] KOther true;
        S_ [2%nat] [3%nat] [] KMv true;
        F_ 0%nat 1%nat None [3%nat] [4%nat] [5%nat; 6%nat] [] [5%nat];
        S_ [4%nat] [] [] KOther true]) with
  | Ok af => ty af 3%nat = Some 5 /\ ty af 5%nat = Some 5 /\ ty af 4%nat = Some 5
  | Err _ => False
  end.
Proof. vm_compute. repeat split; reflexivity. Qed.

(* (4) once the groups are allocated and their registers reserved, the invariant also holds for the typing
       `rebased` in which the group members gv count as pre-assigned their registers (this is what lets the
       body walk (3) treat the carried block arguments like pre-assigned values). *)
Theorem C19_loop_rebase_partial : forall c t0 (FR FR' : value -> Z -> Prop) gv a (L : value -> Prop) E (M : value -> Prop),
  Inv c t0 FR L E M a ->
  (forall v, In v gv -> M v) ->
  (forall v, In v gv -> exists R, ty a v = Some R /\ is_reserved R (stk a) = true) ->
  (zero_rule c = true -> forall v, In v gv -> ty a v <> Some 0) ->
  (forall v r, FR v r -> FR' v r) ->
  (forall v r, L v -> ty a v = Some r -> (exists w, In w gv /\ ty a w = Some r) -> FR' v r) ->
  Inv c (rebased t0 gv a) FR' L E M a.
Proof. exact rebase. Qed.
Print Assumptions C19_loop_rebase_partial.

(* ------------------------------------------------------------------------------------------------ *)
(* riscv_scf.for, END TO END: a function  pre ; riscv_scf.for f ; post  with one loop (one nesting level)
   and no pre-assigned register.  Liveness is the straight-line liveness of the virtual block
       virt pre f post = pre ++ H :: body ++ Y :: post          (C19/ProofsLoop2.v)
   whose pseudo-operation H (loop header) reads lb, ub, step, ties each iter operand to its carried block
   argument and defines the induction variable, and whose pseudo-operation Y (back edge / exit) reads the
   induction variable, the body's live-ins, ub and step -- so all of these are live throughout the body,
   which is the fixed point of loop liveness over the back edge -- and ties each yield operand to its result.
   `tconn` = connected by in/out ties, the H / Y ties and the back-edge ties (block argument ~ yield operand).
   Hypotheses: SSA and the in/out contract on the virtual block (this includes: an iter operand dies at the
   loop, (b)); the loop-carried groups do not overlap, (a); values of the body are not used after the loop;
   the induction variable, the live-ins and lb/ub/step are not members of a loop-carried group (so every
   yield operand is a value of its own -- (c); this excludes `yield %iv`, the recorded finding C19-kf-3);
   values tied into one register are never live together (the satisfiability of the input's own ties).
   Conclusion: after a successful allocate_func every value live at any point -- before, inside (at every
   body point, at the loop start and at the loop end) or after the loop -- has a register, and two different
   values live at the same point share a register only if it is `zero` (with the zero rule). *)
Theorem C19_no_interference_loop : forall zr pool allow types pre f post iv cb af,
  (zr = true -> ~ In 0 pool) -> (forall r, In r pool -> 0 <= r) ->
  (forall v, ty0 (mkFunc types (map Simple pre ++ For f :: map Simple post)) v = None) ->
  f_bargs f = iv :: cb ->
  wf_prog (virt pre f post) -> io_ok (virt pre f post) ->
  (forall o x y, In o (virt pre f post) -> In (x, y) (s_io o) ->
     ~ In y (zconsts (mk_cfg zr (mkFunc types (map Simple pre ++ For f :: map Simple post))))) ->
  length (f_iters f) = length cb /\ length (f_iters f) = length (f_yield f) /\ length (f_iters f) = length (f_res f) ->
  NoDup (concat (groups f)) ->
  (forall v, In v (iv :: cb) \/ defined_in (f_body f) v -> ~ used_in post v) ->
  ~ In iv (concat (groups f)) ->
  (forall v, In v (live_ins_body f) -> ~ In v (concat (groups f)) /\ v <> iv) ->
  (forall v, In v (f_lb f :: f_ub f :: step_list f) -> ~ In v (concat (groups f)) /\ v <> iv) ->
  (forall p s, virt pre f post = p ++ s -> forall v1 v2, live s v1 -> live s v2 -> v1 <> v2 ->
     tconn pre f post v1 v2 -> False) ->
  allocate_func zr pool allow (mkFunc types (map Simple pre ++ For f :: map Simple post)) = Ok af ->
  forall p s, virt pre f post = p ++ s ->
    (forall v, live s v -> exists r, ty af v = Some r)
    /\ (forall v1 v2 r, live s v1 -> live s v2 -> v1 <> v2 -> ty af v1 = Some r -> ty af v2 = Some r ->
          zr = true /\ r = 0).
Proof. exact func_loop_no_interference. Qed.
Print Assumptions C19_no_interference_loop.

(* The hypotheses of C19_no_interference_loop are satisfiable by a loop that carries a value:
     %0 = li ; %1 = li ; %2 = li ; %3 = mv %2
     %4 = riscv_scf.for %5 = %0 to %1 iter_args(%6 = %3) { %7 = add %6, %5 ; yield %7 } ; return %4
   every hypothesis is checked, allocation succeeds (iter operand, carried block argument, yield operand and
   result share t0, the induction variable is in t1) and the theorem gives freedom from interference at
   every point. *)
Theorem C19_loop_hypotheses_satisfiable :
  exists zr pool allow types pre f post af,
    allocate_func zr pool allow (mkFunc types (map Simple pre ++ For f :: map Simple post)) = Ok af
    /\ f_iters f <> []
    /\ ty af 3%nat = Some 5 /\ ty af 6%nat = Some 5 /\ ty af 7%nat = Some 5 /\ ty af 4%nat = Some 5
    /\ ty af 5%nat = Some 6
    /\ forall p s, virt pre f post = p ++ s ->
         (forall v, live s v -> exists r, ty af v = Some r)
         /\ (forall v1 v2 r, live s v1 -> live s v2 -> v1 <> v2 -> ty af v1 = Some r -> ty af v2 = Some r ->
               zr = true /\ r = 0).
Proof. exact loop_hypotheses_satisfiable. Qed.
Print Assumptions C19_loop_hypotheses_satisfiable.

(* ... and no result of an operation before, inside or after the loop is written into the register of a
   value that is live after that operation; the loop header's write of the induction variable clobbers
   nothing live in the body (same hypotheses, plus: a value is not written while a value tied to it is live). *)
Theorem C19_no_clobber_loop : forall zr pool allow types pre f post iv cb af,
  (zr = true -> ~ In 0 pool) -> (forall r, In r pool -> 0 <= r) ->
  (forall v, ty0 (mkFunc types (map Simple pre ++ For f :: map Simple post)) v = None) ->
  f_bargs f = iv :: cb ->
  wf_prog (virt pre f post) -> io_ok (virt pre f post) ->
  (forall o x y, In o (virt pre f post) -> In (x, y) (s_io o) ->
     ~ In y (zconsts (mk_cfg zr (mkFunc types (map Simple pre ++ For f :: map Simple post))))) ->
  length (f_iters f) = length cb /\ length (f_iters f) = length (f_yield f) /\ length (f_iters f) = length (f_res f) ->
  NoDup (concat (groups f)) ->
  (forall v, In v (iv :: cb) \/ defined_in (f_body f) v -> ~ used_in post v) ->
  ~ In iv (concat (groups f)) ->
  (forall v, In v (live_ins_body f) -> ~ In v (concat (groups f)) /\ v <> iv) ->
  (forall v, In v (f_lb f :: f_ub f :: step_list f) -> ~ In v (concat (groups f)) /\ v <> iv) ->
  (forall p s, virt pre f post = p ++ s -> forall v1 v2, live s v1 -> live s v2 -> v1 <> v2 ->
     tconn pre f post v1 v2 -> False) ->
  (forall p o s, virt pre f post = p ++ o :: s -> forall d v, In d (defs o) -> live s v -> d <> v ->
     tconn pre f post d v -> False) ->
  allocate_func zr pool allow (mkFunc types (map Simple pre ++ For f :: map Simple post)) = Ok af ->
  (forall l1 o l2 rest, (pre = l1 ++ o :: l2 /\ rest = l2 ++ Hop f :: f_body f ++ Yop f :: post)
                        \/ (f_body f = l1 ++ o :: l2 /\ rest = l2 ++ Yop f :: post)
                        \/ (post = l1 ++ o :: l2 /\ rest = l2) ->
     forall d v r, In d (defs o) -> live rest v -> d <> v -> ty af d = Some r -> ty af v = Some r ->
       zr = true /\ r = 0)
  /\ (forall v r, live (f_body f ++ Yop f :: post) v -> v <> iv -> ty af iv = Some r -> ty af v = Some r ->
       zr = true /\ r = 0).
Proof. exact func_loop_no_clobber. Qed.
Print Assumptions C19_no_clobber_loop.

(* its extra hypothesis holds for the example of C19_loop_hypotheses_satisfiable as well *)
Theorem C19_loop_clobber_hypothesis_satisfiable :
  forall p o s, virt ex_pre ex_f ex_post = p ++ o :: s -> forall d v, In d (defs o) -> live s v -> d <> v ->
    tconn ex_pre ex_f ex_post d v -> False.
Proof. exact loop_clobber_hypotheses_satisfiable. Qed.
Print Assumptions C19_loop_clobber_hypothesis_satisfiable.

(* The live-ins computed by the model of _live_ins_per_block contain every outer value the body reads (or
   yields): so the pseudo-operation Y of the virtual block keeps exactly the right values live over the back
   edge, i.e. the straight-line liveness of `virt` is the loop's liveness fixed point. *)
Theorem C19_loop_live_ins_complete : forall f v,
  (used_in (f_body f) v \/ In v (f_yield f)) -> ~ defined_in (f_body f) v -> ~ In v (f_bargs f) ->
  In v (live_ins_body f).
Proof. exact live_ins_complete. Qed.
Print Assumptions C19_loop_live_ins_complete.

(* Semantics of one loop iteration (the induction step for every trip count): under the hypotheses of
   C19_no_interference_loop / C19_no_clobber_loop, with the registers assigned by allocate_func, running the
   loop body on the register machine and on the SSA environment from states that agree on everything live
   at the top of the body yields states that agree on everything live at the end of the body: the induction
   variable, the body's live-ins, ub/step, the yield operands (= the next carried values, = the results) and
   every value live after the loop; operation functions are uninterpreted. *)
Theorem C19_semantics_loop_iteration : forall zr pool allow types pre f post iv cb af,
  (zr = true -> ~ In 0 pool) -> (forall r, In r pool -> 0 <= r) ->
  (forall v, ty0 (mkFunc types (map Simple pre ++ For f :: map Simple post)) v = None) ->
  f_bargs f = iv :: cb ->
  wf_prog (virt pre f post) -> io_ok (virt pre f post) ->
  (forall o x y, In o (virt pre f post) -> In (x, y) (s_io o) ->
     ~ In y (zconsts (mk_cfg zr (mkFunc types (map Simple pre ++ For f :: map Simple post))))) ->
  length (f_iters f) = length cb /\ length (f_iters f) = length (f_yield f) /\ length (f_iters f) = length (f_res f) ->
  NoDup (concat (groups f)) ->
  (forall v, In v (iv :: cb) \/ defined_in (f_body f) v -> ~ used_in post v) ->
  ~ In iv (concat (groups f)) ->
  (forall v, In v (live_ins_body f) -> ~ In v (concat (groups f)) /\ v <> iv) ->
  (forall v, In v (f_lb f :: f_ub f :: step_list f) -> ~ In v (concat (groups f)) /\ v <> iv) ->
  (forall p s, virt pre f post = p ++ s -> forall v1 v2, live s v1 -> live s v2 -> v1 <> v2 ->
     tconn pre f post v1 v2 -> False) ->
  (forall p o s, virt pre f post = p ++ o :: s -> forall d v, In d (defs o) -> live s v -> d <> v ->
     tconn pre f post d v -> False) ->
  allocate_func zr pool allow (mkFunc types (map Simple pre ++ For f :: map Simple post)) = Ok af ->
  forall (data : Type) (dzero : data) (fop : nat -> nat -> list data -> data) (env : value -> data) (rf : Z -> data),
    (forall v, live (f_body f ++ Yop f :: post) v -> read_reg data dzero zr (asg_of af) rf v = env v) ->
    (forall v, In v (zero_consts (pre ++ [Hop f])) -> env v = dzero) ->
    (forall v, live (Yop f :: post) v ->
       read_reg data dzero zr (asg_of af)
         (exec_regs data dzero fop zr (asg_of af) (length (pre ++ [Hop f])) (f_body f) rf) v
       = exec_ssa data dzero fop (length (pre ++ [Hop f])) (f_body f) env v)
    /\ (forall v, In v (zero_consts ((pre ++ [Hop f]) ++ f_body f)) ->
          exec_ssa data dzero fop (length (pre ++ [Hop f])) (f_body f) env v = dzero).
Proof. exact func_loop_iteration. Qed.
Print Assumptions C19_semantics_loop_iteration.

(* Semantics of the WHOLE loop, for every trip count n (induction on n over the iteration step above):
   SSA semantics `ssa_loop` of riscv_scf.for -- induction variable := lb, carried := iter operands; n times:
   body, then induction variable := ivnext iv step, carried := yielded values; finally results := carried --
   against the lowered loop on the register machine `regs_loop` -- mv iv <- lb ; (body ; iv <- ivnext iv step)^n,
   the carried values and results staying in their registers (no moves: that is what the lowering emits).
   If the two states agree on everything live before the loop, they agree on everything live after it, the
   loop results included; operation functions and the induction-variable update are uninterpreted.
   (C19/ProofsLoopSem.v: ssa_loop, regs_loop.) *)
Theorem C19_semantics_loop : forall zr pool allow types pre f post iv cb af,
  (zr = true -> ~ In 0 pool) -> (forall r, In r pool -> 0 <= r) ->
  (forall v, ty0 (mkFunc types (map Simple pre ++ For f :: map Simple post)) v = None) ->
  f_bargs f = iv :: cb ->
  wf_prog (virt pre f post) -> io_ok (virt pre f post) ->
  (forall o x y, In o (virt pre f post) -> In (x, y) (s_io o) ->
     ~ In y (zconsts (mk_cfg zr (mkFunc types (map Simple pre ++ For f :: map Simple post))))) ->
  length (f_iters f) = length cb /\ length (f_iters f) = length (f_yield f) /\ length (f_iters f) = length (f_res f) ->
  NoDup (concat (groups f)) ->
  (forall v, In v (iv :: cb) \/ defined_in (f_body f) v -> ~ used_in post v) ->
  ~ In iv (concat (groups f)) ->
  (forall v, In v (live_ins_body f) -> ~ In v (concat (groups f)) /\ v <> iv) ->
  (forall v, In v (f_lb f :: f_ub f :: step_list f) -> ~ In v (concat (groups f)) /\ v <> iv) ->
  (forall p s, virt pre f post = p ++ s -> forall v1 v2, live s v1 -> live s v2 -> v1 <> v2 ->
     tconn pre f post v1 v2 -> False) ->
  (forall p o s, virt pre f post = p ++ o :: s -> forall d v, In d (defs o) -> live s v -> d <> v ->
     tconn pre f post d v -> False) ->
  allocate_func zr pool allow (mkFunc types (map Simple pre ++ For f :: map Simple post)) = Ok af ->
  forall (data : Type) (dzero : data) (fop : nat -> nat -> list data -> data) (ivnext : data -> data -> data)
         (n : nat) (env : value -> data) (rf : Z -> data),
    (forall v, live (Hop f :: f_body f ++ Yop f :: post) v -> read_reg data dzero zr (asg_of af) rf v = env v) ->
    (forall v, In v (zero_consts (pre ++ [Hop f])) -> env v = dzero) ->
    forall v, live post v ->
      read_reg data dzero zr (asg_of af) (regs_loop data dzero fop ivnext zr (asg_of af) pre f iv n rf) v
      = ssa_loop data dzero fop ivnext pre f iv cb n env v.
Proof. exact func_loop_semantics. Qed.
Print Assumptions C19_semantics_loop.

(* ... and it applies to the example loop: for every trip count the returned value %4 is the same *)
Theorem C19_semantics_loop_example :
  exists af, allocate_func true [7; 6; 5] false ex_fn = Ok af /\
  forall (data : Type) (dzero : data) (fop : nat -> nat -> list data -> data) (ivnext : data -> data -> data)
         (n : nat) (env : value -> data) (rf : Z -> data),
    (forall v, live (Hop ex_f :: f_body ex_f ++ Yop ex_f :: ex_post) v -> read_reg data dzero true (asg_of af) rf v = env v) ->
    (forall v, In v (zero_consts (ex_pre ++ [Hop ex_f])) -> env v = dzero) ->
    read_reg data dzero true (asg_of af) (regs_loop data dzero fop ivnext true (asg_of af) ex_pre ex_f 5%nat n rf) 4%nat
    = ssa_loop data dzero fop ivnext ex_pre ex_f 5%nat [6%nat] n env 4%nat.
Proof. exact loop_semantics_example. Qed.
Print Assumptions C19_semantics_loop_example.
