(* Props/C02.v -- property C02: cloning yields an independent equivalent copy and leaves other IR untouched.
   ONLY theorem statements closed by `exact` (+ Examples evaluated by vm_compute).
   Model: C02/Model.v -- IR trees with explicit identities (operations, values, blocks: one counter per
   class), the world = list of detached top-level items + counters, use lists derived from the world;
   clone_without_regions, clone_op (Operation.clone), clone_into (Region.clone_into incl. Region.insert_block
   and the zip remap; cfg_original = the code as it is, cfg_fixed = remap over the new blocks only,
   cfg_fixed2 = additionally IndexError for an out-of-range index; cfg_repo = the working tree),
   clone_into_api (the call with its possible exception), region_clone, apply_edit(s).
   Spec (C02/ProofsBase.v, C02/Proofs.v, C02/ProofsFrame.v):
     iso_op co fv fb x y     y is x with every value id replaced by fv and every block id by fb; names,
                             attribute payloads, result/argument payloads equal; co=false: no operands
     iso_via w w' vm0 bm0 vm bm lv lb
                             the returned mappers send the values lv / blocks lb defined inside the source
                             injectively to objects created by this call and agree with the caller's
                             mappers (identity when not mentioned) everywhere else
     fresh_ids w w' io lv lb the copy's operations/values/blocks were created by this call, each once
     scoped_op D env x       every successor is a block of an enclosing region or not cloned at all
     into_ok                 destination = old blocks (same order) with the copy at the index
     wf w                    every object of the world was created before the world's counters
     dv_* / db_* / ido_*     values / blocks defined inside a tree, operation ids
     uses sel v items        derived use list of value (sel=true) / block (sel=false) v *)
From Coq Require Import List ZArith Bool Permutation.
From XV Require Import C02.Model C02.ProofsBase C02.Proofs C02.ProofsWalk C02.ProofsFrame C02.ProofsCor C02.ProofsRefute C02.ProofsClobber.
Import ListNotations.
Local Open Scope Z_scope.

(* Operation.clone of ANY tree whose values/blocks are defined once and whose successors are scoped:
   forward references, self uses, graph regions, values and blocks of enclosing IR, pre-seeded mappers.
   The copy is a new detached item; it is the source renamed by the returned mappers. *)
Theorem C02_clone_iso : forall w x vm0 bm0 co,
  NoDup (dv_op x) -> NoDup (db_op x) -> scoped_op (db_op x) [] x ->
  exists y, let r := clone_op w x vm0 bm0 co in
    r_new r = Some y /\ items (r_world r) = items w ++ [IOp y] /\
    iso_op co (get (r_vm r)) (get (r_bm r)) x y /\
    iso_via w (r_world r) vm0 bm0 (r_vm r) (r_bm r) (dv_op x) (db_op x) /\
    fresh_ids w (r_world r) (ido_op y) (dv_op y) (db_op y).
Proof. exact clone_op_correct. Qed.
Print Assumptions C02_clone_iso.

(* every object of the copy is new and is not an object of any item of the world *)
Theorem C02_clone_fresh : forall w x vm0 bm0 co,
  wf w -> NoDup (dv_op x) -> NoDup (db_op x) -> scoped_op (db_op x) [] x ->
  exists y, r_new (clone_op w x vm0 bm0 co) = Some y /\
    fresh_ids w (r_world (clone_op w x vm0 bm0 co)) (ido_op y) (dv_op y) (db_op y) /\
    forall it, In it (items w) ->
      (forall i, In i (ido_op y) -> ~ In i (ido_item it)) /\
      (forall b, In b (db_op y) -> ~ In b (ab_item it)) /\
      (forall v, In v (dv_op y) -> ~ In v (dv_item it)).
Proof. exact clone_op_fresh. Qed.
Print Assumptions C02_clone_fresh.

(* frame: every pre-existing item is unchanged; every use list is the old one plus the copy's slots;
   the copy uses no value defined in the source; an old outside value is used by the copy exactly at
   the operand positions where the source uses it *)
Theorem C02_clone_frame : forall w x vm0 bm0,
  NoDup (dv_op x) -> NoDup (db_op x) -> scoped_op (db_op x) [] x ->
  (forall v, In v (dv_op x) -> v < w_nval w) ->
  exists y, let r := clone_op w x vm0 bm0 true in
    r_new r = Some y /\ items (r_world r) = items w ++ [IOp y] /\
    (forall sel v, uses sel v (items (r_world r)) = uses sel v (items w) ++ uses_op sel v y) /\
    ((forall u, ~ In u (dv_op x) -> ~ In (get vm0 u) (dv_op x)) ->
       forall v, In v (dv_op x) -> uses_op true v y = []) /\
    (vm0 = [] -> forall v, v < w_nval w -> ~ In v (dv_op x) ->
       map snd (uses_op true v y) = map snd (uses_op true v x)).
Proof. exact clone_op_frame. Qed.
Print Assumptions C02_clone_frame.

(* successors that are not scoped (IR rejected by Operation.verify) are NOT mapped: refuted *)
Theorem C02_clone_unscoped_successor_refuted :
  NoDup (dv_op w3_op) /\ NoDup (db_op w3_op) /\ ~ scoped_op (db_op w3_op) [] w3_op /\
  forall y, r_new (clone_op w3 w3_op [] [] true) = Some y ->
    ~ iso_op true (get (r_vm (clone_op w3 w3_op [] [] true))) (get (r_bm (clone_op w3 w3_op [] [] true))) w3_op y.
Proof. exact clone_unscoped_successor_refuted. Qed.
Print Assumptions C02_clone_unscoped_successor_refuted.

(* Region.clone_into, the code as it is: REFUTED for a non-empty destination with operations before
   the insertion point (witness W1: one pre-existing block, insert_index 1) ... *)
Theorem C02_clone_into_refuted :
  exists w src j d idx,
    wf w /\ nth_error (items w) j = Some (IReg d) /\ NoDup (dv_blocks src) /\ NoDup (db_region src) /\
    scoped_region src /\ 0 <= resolve_index idx d <= blocks_len d /\
    exists r, clone_into cfg_original w src j idx [] [] true = Some r /\
              ~ into_ok w src j d (resolve_index idx d) [] [] true r.
Proof. exact clone_into_refuted. Qed.
Print Assumptions C02_clone_into_refuted.

(* ... in particular for the DEFAULT call clone_into(dest) (insert_index=None = at the end) *)
Theorem C02_clone_into_default_index_refuted :
  exists r, clone_into cfg_original w1 w1_src 2 None [] [] true = Some r /\
            ~ into_ok w1 w1_src 2 w1_dest (resolve_index None w1_dest) [] [] true r.
Proof. exact clone_into_default_index_refuted. Qed.
Print Assumptions C02_clone_into_default_index_refuted.

(* the failing class, positively: WHENEVER an operation precedes the insertion point (o1 = its operands)
   and its operands differ from the mapped operands of the first source operation, that pre-existing
   operation is overwritten and the statement fails (W1 is an instance) *)
Theorem C02_clone_into_original_clobbers : forall w src j d idx vm0 bm0 r o1 Wp s1 Ws,
  nth_error (items w) j = Some (IReg d) ->
  0 <= resolve_index idx d <= blocks_len d ->
  walk_blocks (bfirstn (Z.to_nat (resolve_index idx d)) d) = o1 :: Wp ->
  walk_blocks src = s1 :: Ws ->
  clone_into cfg_original w src j idx vm0 bm0 true = Some r ->
  map (get (r_vm r)) s1 <> o1 ->
  ~ into_ok w src j d (resolve_index idx d) vm0 bm0 true r.
Proof. exact clone_into_original_clobbers. Qed.
Print Assumptions C02_clone_into_original_clobbers.

(* the strongest statement that holds of the code as it is: no operation precedes the insertion point
   in the destination's walk (e.g. index 0, or an empty destination), or operands are not cloned *)
Theorem C02_clone_into_partial : forall w src j d idx vm0 bm0 co,
  nth_error (items w) j = Some (IReg d) ->
  NoDup (dv_blocks src) -> NoDup (db_region src) -> scoped_region src ->
  0 <= resolve_index idx d <= blocks_len d ->
  (co = false \/ walk_blocks (bfirstn (Z.to_nat (resolve_index idx d)) d) = []) ->
  exists r, clone_into cfg_original w src j idx vm0 bm0 co = Some r /\
            into_ok w src j d (resolve_index idx d) vm0 bm0 co r.
Proof. exact clone_into_partial. Qed.
Print Assumptions C02_clone_into_partial.

Theorem C02_clone_into_index0_iso : forall w src j d vm0 bm0 co,
  nth_error (items w) j = Some (IReg d) ->
  NoDup (dv_blocks src) -> NoDup (db_region src) -> scoped_region src ->
  exists r, clone_into cfg_original w src j (Some 0) vm0 bm0 co = Some r /\
            into_ok w src j d 0 vm0 bm0 co r.
Proof. exact clone_into_index0. Qed.
Print Assumptions C02_clone_into_index0_iso.

Theorem C02_clone_into_empty_dest_iso : forall w src j idx vm0 bm0 co,
  nth_error (items w) j = Some (IReg BNil) -> (idx = None \/ idx = Some 0) ->
  NoDup (dv_blocks src) -> NoDup (db_region src) -> scoped_region src ->
  exists r, clone_into cfg_original w src j idx vm0 bm0 co = Some r /\
            into_ok w src j BNil 0 vm0 bm0 co r.
Proof. exact clone_into_empty_dest. Qed.
Print Assumptions C02_clone_into_empty_dest_iso.

(* the repaired remap (walk the new blocks only): the FULL statement, any destination, any index in range *)
Theorem C02_clone_into_fixed : forall w src j d idx vm0 bm0 co,
  nth_error (items w) j = Some (IReg d) ->
  NoDup (dv_blocks src) -> NoDup (db_region src) -> scoped_region src ->
  0 <= resolve_index idx d <= blocks_len d ->
  exists r, clone_into cfg_fixed w src j idx vm0 bm0 co = Some r /\
            into_ok w src j d (resolve_index idx d) vm0 bm0 co r.
Proof. exact clone_into_fixed. Qed.
Print Assumptions C02_clone_into_fixed.

(* frame of clone_into (either configuration, under the respective hypothesis): the destination keeps
   its blocks, use lists gain exactly the slots of the new blocks, the source's values gain no use *)
Theorem C02_clone_into_frame : forall c w src j d idx vm0 bm0,
  nth_error (items w) j = Some (IReg d) ->
  NoDup (dv_blocks src) -> NoDup (db_region src) -> scoped_region src ->
  0 <= resolve_index idx d <= blocks_len d ->
  (remap_new_only c = true \/ walk_blocks (bfirstn (Z.to_nat (resolve_index idx d)) d) = []) ->
  (forall v, In v (dv_blocks src) -> v < w_nval w) ->
  exists r nb, clone_into c w src j idx vm0 bm0 true = Some r /\
    items (r_world r) =
      replace_item j (IReg (blocks_app (bfirstn (Z.to_nat (resolve_index idx d)) d)
                              (blocks_app nb (bskipn (Z.to_nat (resolve_index idx d)) d)))) (items w) /\
    (forall sel v, Permutation (uses sel v (items (r_world r))) (uses sel v (items w) ++ uses_blocks sel v nb)) /\
    ((forall u, ~ In u (dv_blocks src) -> ~ In (get vm0 u) (dv_blocks src)) ->
       forall v, In v (dv_blocks src) -> uses_blocks true v nb = []) /\
    (vm0 = [] -> forall v, v < w_nval w -> ~ In v (dv_blocks src) ->
       map snd (uses_blocks true v nb) = map snd (uses_blocks true v src)).
Proof. exact clone_into_frame. Qed.
Print Assumptions C02_clone_into_frame.

(* an insert_index outside 0 .. len: Region.insert_block silently does nothing, so (in BOTH
   configurations) the destination gets no new block and the populated copies stay detached *)
Theorem C02_clone_into_out_of_range_detached : forall c w src j d idx vm0 bm0 co,
  nth_error (items w) j = Some (IReg d) ->
  (resolve_index idx d < 0 \/ blocks_len d < resolve_index idx d) ->
  exists r nb d', clone_into c w src j idx vm0 bm0 co = Some r /\
    items (r_world r) = replace_item j (IReg d') (items w) ++ orphans nb /\
    bids d' = bids d /\ length (bids nb) = length (bids src).
Proof. exact clone_into_out_of_range. Qed.
Print Assumptions C02_clone_into_out_of_range_detached.

(* the optional second repair (clone_into raises IndexError for such an index, before anything is
   created) and its harmlessness for an index in range *)
Theorem C02_clone_into_checked_rejects : forall c w src j d i vm0 bm0 co,
  reject_bad_index c = true -> nth_error (items w) j = Some (IReg d) -> (i < 0 \/ blocks_len d < i) ->
  clone_into_api c w src j (Some i) vm0 bm0 co = RaiseIndexError.
Proof. exact clone_into_api_rejects. Qed.
Print Assumptions C02_clone_into_checked_rejects.

Theorem C02_clone_into_checked_in_range : forall c w src j d idx vm0 bm0 co,
  nth_error (items w) j = Some (IReg d) -> 0 <= resolve_index idx d <= blocks_len d ->
  clone_into_api c w src j idx vm0 bm0 co =
  match clone_into c w src j idx vm0 bm0 co with Some r => Done r | None => NotARegion end.
Proof. exact clone_into_api_in_range. Qed.
Print Assumptions C02_clone_into_checked_in_range.

(* Region.clone (always into a new empty region): holds for the code as it is *)
Theorem C02_region_clone : forall c w src,
  NoDup (dv_blocks src) -> NoDup (db_region src) -> scoped_region src ->
  exists r nb, region_clone c w src = Some r /\
    items (r_world r) = items w ++ [IReg nb] /\
    iso_blocks true (get (r_vm r)) (get (r_bm r)) src nb /\
    fresh_ids w (r_world r) (ido_blocks nb) (dv_blocks nb) (db_region nb).
Proof. exact region_clone_correct. Qed.
Print Assumptions C02_region_clone.

(* Operation.clone_without_regions of an op that does not use its own results *)
Theorem C02_clone_without_regions : forall w i n os rs a ss g vm0 bm0,
  (forall v, In v os -> ~ In v (map fst rs)) -> NoDup (map fst rs) ->
  let r := clone_without_regions w (Op i n os rs a ss g) vm0 bm0 true in
  exists rs',
    r_new r = Some (Op (w_nop w) n (map (get (r_vm r)) os) rs' a (map (get bm0) ss) (empty_regs g)) /\
    items (r_world r) = items w ++ [IOp (Op (w_nop w) n (map (get (r_vm r)) os) rs' a (map (get bm0) ss) (empty_regs g))] /\
    map fst rs' = map (get (r_vm r)) (map fst rs) /\ map snd rs' = map snd rs /\
    maps_fresh (get (r_vm r)) (map fst rs) (w_nval w) (w_nval (r_world r)) /\
    (forall v, ~ In v (map fst rs) -> get (r_vm r) v = get vm0 v) /\ r_bm r = bm0.
Proof. exact cwr_correct. Qed.
Print Assumptions C02_clone_without_regions.

(* ... and refuted for an op that uses its own result: the copy uses the SOURCE's result (Operation.clone does not) *)
Theorem C02_clone_without_regions_self_use_refuted :
  r_new (clone_without_regions w2 w2_op [] [] true) = Some (Op 2 1 [1] [(2, 0)] 0 [] GNil) /\
  uses true 1 (items (r_world (clone_without_regions w2 w2_op [] [] true))) = [(1, 0); (2, 0)] /\
  r_new (clone_op w2 w2_op [] [] true) = Some (Op 2 1 [2] [(2, 0)] 0 [] GNil).
Proof. exact cwr_self_use_refuted. Qed.
Print Assumptions C02_clone_without_regions_self_use_refuted.

(* independence: any history of edits addressed to objects that did not exist in w (all objects of a
   copy, and whatever is created later) leaves every item of w exactly as it was ... *)
Theorem C02_independent : forall w es rest,
  wf w -> Forall (targets_new w) es -> apply_edits es (items w ++ rest) = items w ++ apply_edits es rest.
Proof. exact edits_independent. Qed.
Print Assumptions C02_independent.

(* ... and vice versa: an edit addressed to an object of w does not change a copy made in w *)
Theorem C02_independent_rev : forall w w' e its y,
  fresh_ids w w' (ido_op y) (dv_op y) (db_op y) -> targets_old w e ->
  apply_edit e (its ++ [IOp y]) = apply_edit e its ++ [IOp y].
Proof. exact edit_independent_rev. Qed.
Print Assumptions C02_independent_rev.

(* ModulePass.apply_to_clone = clone, then a history on the copy: the original items are unchanged *)
Theorem C02_apply_to_clone : forall w x es,
  wf w -> NoDup (dv_op x) -> NoDup (db_op x) -> scoped_op (db_op x) [] x ->
  Forall (targets_new w) es ->
  exists rest, apply_edits es (items (r_world (clone_op w x [] [] true))) = items w ++ rest.
Proof. exact apply_to_clone_frame. Qed.
Print Assumptions C02_apply_to_clone.

(* ---- witnesses evaluated by the kernel ---- *)
(* W1 under the code as it is: the PRE-EXISTING user is rewritten, the last cloned op has no operands *)
Example C02_w1_original :
  option_map (fun r => nth_error (items (r_world r)) 2) (clone_into cfg_original w1 w1_src 2 (Some 1) [] [] true) =
  Some (Some (IReg
    (BCons (Blk 2 [] (OCons (Op 4 1 [6; 1] [(5, 0)] 0 [] GNil) ONil))
    (BCons (Blk 3 [(6, 0)] (OCons (Op 5 1 [7] [(7, 0)] 0 [] GNil) (OCons (Op 6 1 [] [] 0 [] GNil) ONil))) BNil)))).
Proof. vm_compute. reflexivity. Qed.
(* W1 under the repaired remap *)
Example C02_w1_fixed :
  option_map (fun r => nth_error (items (r_world r)) 2) (clone_into cfg_fixed w1 w1_src 2 (Some 1) [] [] true) =
  Some (Some (IReg
    (BCons (Blk 2 [] (OCons (Op 4 1 [2] [(5, 0)] 0 [] GNil) ONil))
    (BCons (Blk 3 [(6, 0)] (OCons (Op 5 1 [6; 1] [(7, 0)] 0 [] GNil) (OCons (Op 6 1 [7] [] 0 [] GNil) ONil))) BNil)))).
Proof. vm_compute. reflexivity. Qed.
(* the hypotheses of the positive theorems are satisfiable by non-trivial IR (use before def, self use,
   nested multi-block region with forward and backward branches, outside value and block) *)
Example C02_nonvacuous : wf w4 /\ NoDup (dv_op w4_op) /\ NoDup (db_op w4_op) /\ scoped_op (db_op w4_op) [] w4_op.
Proof. exact w4_hyps. Qed.
(* ... and the hypothesis of the partial theorem by a NON-EMPTY destination (index 0) *)
Example C02_partial_nonvacuous :
  walk_blocks (bfirstn (Z.to_nat (resolve_index (Some 0) w1_dest)) w1_dest) = [] /\ w1_dest <> BNil.
Proof. split; [vm_compute; reflexivity | discriminate]. Qed.
