(* Props/C26.v -- property C26: affine expression algebra preserves values.
   ONLY theorem statements closed by `exact` (+ Examples by vm_compute).
   Spec: `eval` / `eval_kind` of C26/Model.v -- the value (or the exception) an expression
   evaluates to under an assignment `d` of dimensions and `s` of symbols; `//` = Z.div,
   `%` = Z.modulo, ceildiv a b = -((-a)/b) as the code computes it.  `do x <- r; k` is the
   exception monad: the first raising sub-evaluation wins, left to right, as in Python.
   All statements are for EVERY expression tree (including trees built with the raw
   AffineBinaryOpExpr constructor) and EVERY assignment, of any length. *)
From Coq Require Import ZArith List.
From XV Require Import C26.Model Gen.C26_Arith C26.ProofsGen C26.ProofsAlg C26.ProofsSimplify C26.ProofsSimplifyTotal C26.ProofsParse.
Import ListNotations.
Local Open Scope Z_scope.

(* ---- the arithmetic arms of `eval` and `_try_fold_constant`, translated from the source on every
   run (coq/Gen/C26_Arith.v), are the model's *)
Theorem C26_arms_from_source : forall k a b,
  gen_eval_kind k a b = eval_kind k a b /\ gen_fold_kind k a b = fold_kind k a b.
Proof. exact gen_arms_are_model. Qed.
Print Assumptions C26_arms_from_source.

(* ---- constructors: a + b, a * b, a // b, a.ceil_div(b), a % b *)
Theorem C26_add_eval : forall a b d s,
  eval (add a b) d s = (do x <- eval a d s; do y <- eval b d s; Ok (x + y)).
Proof. exact add_eval. Qed.
Print Assumptions C26_add_eval.

Theorem C26_mul_eval : forall a b e d s, mul a b = Ok e ->
  eval e d s = (do x <- eval a d s; do y <- eval b d s; Ok (x * y)).
Proof. exact mul_eval. Qed.
Print Assumptions C26_mul_eval.

(* __mul__ raises (NotImplementedError) exactly when neither operand is a constant *)
Theorem C26_mul_defined_iff : forall a b,
  (exists e, mul a b = Ok e) <-> (is_const a = true \/ is_const b = true).
Proof. exact mul_raises_iff. Qed.
Print Assumptions C26_mul_defined_iff.

Theorem C26_floordiv_eval : forall a b e d s, floordiv a b = Ok e ->
  eval e d s = (do x <- eval a d s; do y <- eval b d s; eval_kind FloorDiv x y).
Proof. exact (divlike_eval FloorDiv). Qed.
Print Assumptions C26_floordiv_eval.

Theorem C26_ceildiv_eval : forall a b e d s, ceildiv a b = Ok e ->
  eval e d s = (do x <- eval a d s; do y <- eval b d s; eval_kind CeilDiv x y).
Proof. exact (divlike_eval CeilDiv). Qed.
Print Assumptions C26_ceildiv_eval.

Theorem C26_mod_eval : forall a b e d s, mod_ a b = Ok e ->
  eval e d s = (do x <- eval a d s; do y <- eval b d s; eval_kind Mod x y).
Proof. exact (divlike_eval Mod). Qed.
Print Assumptions C26_mod_eval.

(* by a non-zero (in particular positive) constant the three constructors never raise *)
Theorem C26_divlike_const_defined : forall k a c, c <> 0 -> exists e, divlike k a (Const c) = Ok e.
Proof. exact divlike_pos_total. Qed.
Print Assumptions C26_divlike_const_defined.

(* AffineExpr.binary(kind, lhs, rhs), whenever it returns, evaluates like the raw node *)
Theorem C26_binary_eval : forall k a b e d s, binary k a b = Ok e ->
  eval e d s = eval (Bin k a b) d s.
Proof. exact binary_eval_bin. Qed.
Print Assumptions C26_binary_eval.

(* ---- unary minus, subtraction *)
Theorem C26_neg_eval : forall e d s, eval (neg e) d s = (do a <- eval e d s; Ok (- a)).
Proof. exact neg_eval. Qed.
Print Assumptions C26_neg_eval.

Theorem C26_sub_eval : forall a b d s,
  eval (sub a b) d s = (do x <- eval a d s; do y <- eval b d s; Ok (x - y)).
Proof. exact sub_eval. Qed.
Print Assumptions C26_sub_eval.

(* `int - expr` is not an operation the property lists; recorded for the evidence notes:
   as coded it yields expr - int; the proposed repair yields int - expr. *)
Theorem C26_rsub_as_coded_refuted :
  exists e c d s v, eval e d s = Ok v /\ eval (rsub_as_coded e c) d s <> Ok (c - v).
Proof. exact rsub_as_coded_refuted. Qed.
Print Assumptions C26_rsub_as_coded_refuted.

Theorem C26_rsub_fixed_eval : forall e c d s,
  eval (rsub_fixed e c) d s = (do a <- eval e d s; Ok (c - a)).
Proof. exact rsub_fixed_eval. Qed.
Print Assumptions C26_rsub_fixed_eval.

(* ---- replace_dims_and_symbols: the substitution lemma.
   subst_env vals env = vals ++ skipn (length vals) env: replaced positions take the value of
   their replacement, positions beyond the replacement list keep their own value. *)
Theorem C26_replace_eval : forall e nd ns e' d s vd vs,
  replace e nd ns = Ok e' ->
  Forall2 (fun x v => eval x d s = Ok v) nd vd ->
  Forall2 (fun x v => eval x d s = Ok v) ns vs ->
  eval e' d s = eval e (subst_env vd d) (subst_env vs s).
Proof. exact replace_eval. Qed.
Print Assumptions C26_replace_eval.

(* ---- compose: expression with map, map with map *)
Theorem C26_compose_eval : forall e m e' d s vals,
  compose_expr e m = Ok e' ->
  Forall2 (fun r v => eval r d s = Ok v) (results m) vals ->
  eval e' d s = eval e (subst_env vals d) s.
Proof. exact compose_expr_eval. Qed.
Print Assumptions C26_compose_eval.

(* m1.compose(m2): m2 is evaluated on d and on the symbols after m1's (skipn), then m1 on those
   values and on m1's own symbols.  Hypothesis: m2 mentions only its declared symbols. *)
Theorem C26_map_compose_eval : forall m1 m2 m d s vals,
  map_compose m1 m2 = Ok m ->
  Forall (syms_below (num_syms m2)) (results m2) ->
  Forall2 (fun r v => eval r d (skipn (num_syms m1) s) = Ok v) (results m2) vals ->
  num_dims m = num_dims m2 /\ num_syms m = (num_syms m1 + num_syms m2)%nat /\
  Forall2 (fun r' r => eval r' d s = eval r (subst_env vals d) s) (results m) (results m1).
Proof. exact map_compose_eval. Qed.
Print Assumptions C26_map_compose_eval.

(* ---- simplify (SimpleAffineExprFlattener): whenever it returns, on every assignment with the
   declared numbers of dimensions and symbols, the value is unchanged.  (It returns only for pure
   affine expressions with positive constant divisors: everything else raises in the code.) *)
Theorem C26_simplify_eval : forall nd ns d s, length d = nd -> length s = ns ->
  forall e e', simplify nd ns e = Ok e' -> eval e' d s = eval e d s.
Proof. exact simplify_eval. Qed.
Print Assumptions C26_simplify_eval.

(* ... and it does return (raises nothing) on every expression that is `flattenable` (top of
   C26/ProofsSimplifyTotal.v): positions in range, products with the constant on the right,
   mod/floordiv/ceildiv by positive constants *)
Theorem C26_simplify_total : forall nd ns e, flattenable nd ns e -> exists e', simplify nd ns e = Ok e'.
Proof. exact simplify_total. Qed.
Print Assumptions C26_simplify_total.

(* ---- print / parse at token level: str_toks e is the token sequence of str(e); followed by any
   tokens that do not start with a binary operator (`)`, `,`, end of input ...) the parser returns
   a tree of the same value and leaves those tokens untouched; the default fuel suffices. *)
Theorem C26_print_parse : forall nd ns e rest e' rest',
  tok_prec (hd_error rest) = -1 ->
  parse_expr nd ns (str_toks e ++ rest) = Ok (e', rest') ->
  rest' = rest /\ forall d s, eval e' d s = eval e d s.
Proof. exact print_parse. Qed.
Print Assumptions C26_print_parse.

(* ... and it does return for every expression of the space that is pure affine with non-zero
   constant divisors (`parseable`, top of the last part of C26/ProofsParse.v) *)
Theorem C26_print_parse_total : forall nd ns e rest,
  parseable nd ns e -> tok_prec (hd_error rest) = -1 ->
  exists e', parse_expr nd ns (str_toks e ++ rest) = Ok (e', rest) /\
             forall d s, eval e' d s = eval e d s.
Proof. exact print_parse_total. Qed.
Print Assumptions C26_print_parse_total.

(* ---- non-vacuity *)
(* the three examples of the flattener's docstring *)
Example C26_simplify_examples :
  let d0 := Dim 0 in let d1 := Dim 1 in
  simplify 2 0 (sub (sub (add (add d0 (mul_const d1 3)) d0) (mul_const d1 2)) d0)
    = Ok (Bin Add d0 d1)
  /\ (do m <- mod_ d0 (Const 4); do m2 <- mod_ (add (sub d0 m) (Const 4)) (Const 4); simplify 2 0 m2)
    = Ok (Const 0)
  /\ (do q <- floordiv (add (add (mul_const d0 3) (mul_const d1 2)) d0) (Const 2); simplify 2 0 (add q d1))
    = Ok (Bin Add (Bin Mul d0 (Const 2)) (Bin Mul d1 (Const 2))).
Proof. vm_compute. repeat split; reflexivity. Qed.

(* a mod and a floordiv sharing one local identifier, and a ceildiv *)
Example C26_simplify_locals :
  (do m <- mod_ (Dim 0) (Const 4); do q <- floordiv (Dim 0) (Const 4);
   do c <- ceildiv (add (Dim 0) (Sym 0)) (Const 2); simplify 1 1 (add (add m q) c))
  = Ok (Bin Add (Bin Add (Dim 0) (Bin Mul (Bin FloorDiv (Dim 0) (Const 4)) (Const (-3))))
                (Bin CeilDiv (Bin Add (Dim 0) (Sym 0)) (Const 2))).
Proof. vm_compute. reflexivity. Qed.

Example C26_print_parse_example :
  let e := Bin Mod (Bin Add (Bin Mul (Dim 0) (Const 2)) (Const (-6))) (Const 5) in
  parse_expr 1 1 (str_toks e ++ [TRParen]) = Ok (e, [TRParen])
  /\ parse_expr 2 0 [TId (IdDim 0); TMinus; TId (IdDim 1); TStar; TInt 2; TPlus; TInt 1]
     = Ok (Bin Add (Bin Add (Dim 0) (Bin Mul (Dim 1) (Const (-2)))) (Const 1), []).
Proof. vm_compute. split; reflexivity. Qed.

Example C26_constructors_example :
  add (add (Dim 0) (Const 2)) (Const 3) = Bin Add (Dim 0) (Const 5)
  /\ mul (add (Dim 0) (Sym 0)) (Const 3) = Ok (Bin Add (Bin Mul (Dim 0) (Const 3)) (Bin Mul (Sym 0) (Const 3)))
  /\ mul (Dim 0) (Dim 1) = Raise NotImpl
  /\ mod_ (Const 5) (Const 0) = Raise ZeroDiv
  /\ ceildiv (Const (-7)) (Const 2) = Ok (Const (-3))
  /\ eval (rsub_as_coded (Dim 0) 3) [10] [] = Ok 7.
Proof. vm_compute. repeat split; reflexivity. Qed.
