(* Props/C08.v -- property C08: attribute equality and hashing form a consistent value semantics.
   ONLY theorem statements closed by `exact`, each followed by Print Assumptions.
   Model: C08/Model.v (`eqb`, `hkey`/`hash` = the unchanged tree; `eqb_fix`, `hkey_fix`/`hash_fix` =
   the tree with the proposed repair C08-1 of FloatData.__eq__/__hash__).
   `obs a` is everything observable of an attribute (class, parameters, payloads, float payloads as
   binary64 bit patterns); `relax` additionally forgets the sign of zeros and the payload of NaNs. *)
From Coq Require Import List ZArith Bool.
From XV Require Import C08.Model C08.Proofs.
Import ListNotations.
Local Open Scope Z_scope.

(* `==` on attributes is reflexive, symmetric and transitive, for every attribute tree. *)
Theorem C08_equivalence :
  (forall a, eqb a a = true) /\
  (forall a b, eqb a b = eqb b a) /\
  (forall a b c, eqb a b = true -> eqb b c = true -> eqb a c = true).
Proof. exact eqb_equivalence. Qed.
Print Assumptions C08_equivalence.

(* Two attributes built from the same parameters (identical up to the identity of the Python float
   objects the constructors allocate) are equal. *)
Theorem C08_same_params_equal : forall a b, obs a = obs b -> eqb a b = true.
Proof. exact same_params_equal. Qed.
Print Assumptions C08_same_params_equal.

(* FULL STATEMENT "observably different payloads are unequal" is refuted by the unchanged tree:
   +0.0 / -0.0 (a NaN-free pair), and two NaNs with different payload bits. *)
Theorem C08_observable_refuted :
  (exists a b, obs a <> obs b /\ eqb a b = true /\ nan_free a = true /\ nan_free b = true) /\
  (exists a b, obs a <> obs b /\ eqb a b = true /\ relax a <> a).
Proof. exact observable_refuted. Qed.
Print Assumptions C08_observable_refuted.

(* Strongest statement that holds: `==` is EXACTLY equality of the coarser observable `relax`
   (so attributes differing in anything but zero sign / NaN payload / float identity are unequal). *)
Theorem C08_observable_partial : forall a b, eqb a b = true <-> relax a = relax b.
Proof. exact eqb_iff_relax. Qed.
Print Assumptions C08_observable_partial.

(* ... in particular the full statement holds on attributes without zero or NaN float leaves. *)
Theorem C08_observable_partial_special_free : forall a b,
  special_free a = true -> special_free b = true -> obs a <> obs b -> eqb a b = false.
Proof. exact observable_partial_special_free. Qed.
Print Assumptions C08_observable_partial_special_free.

(* FULL STATEMENT "equal attributes have equal hashes" is refuted by the unchanged tree, for ANY
   CPython hash functions in which distinct live objects have distinct identity hashes: two NaN
   FloatData with the same bits held in two float objects are == but hash differently. *)
Theorem C08_hash_consistent_refuted :
  forall (hash_buf : list Z -> Z) (hash_id : Z -> Z) (hash_tuple hash_fset : list Z -> Z),
  (forall i j, hash_id i = hash_id j -> i = j) ->
  exists a b, eqb a b = true /\ obs a = obs b /\
              hash hash_buf hash_id hash_tuple hash_fset a <> hash hash_buf hash_id hash_tuple hash_fset b.
Proof. exact hash_consistent_refuted. Qed.
Print Assumptions C08_hash_consistent_refuted.

(* Strongest statement that holds, for arbitrary CPython hash functions: equal attributes whose
   corresponding NaN leaves are the same float object have equal hashes ... *)
Theorem C08_hash_consistent_partial :
  forall (hash_buf : list Z -> Z) (hash_id : Z -> Z) (hash_tuple hash_fset : list Z -> Z) a b,
  eqb a b = true -> nan_objs_agree a b = true ->
  hash hash_buf hash_id hash_tuple hash_fset a = hash hash_buf hash_id hash_tuple hash_fset b.
Proof. exact hash_consistent_partial. Qed.
Print Assumptions C08_hash_consistent_partial.

(* ... in particular all equal NaN-free attributes (signed zeros included). *)
Theorem C08_hash_consistent_partial_nan_free :
  forall (hash_buf : list Z -> Z) (hash_id : Z -> Z) (hash_tuple hash_fset : list Z -> Z) a b,
  nan_free a = true -> eqb a b = true ->
  hash hash_buf hash_id hash_tuple hash_fset a = hash hash_buf hash_id hash_tuple hash_fset b.
Proof. exact hash_consistent_nan_free. Qed.
Print Assumptions C08_hash_consistent_partial_nan_free.

(* With the proposed repair C08-1 (compare / hash the packed binary64 pattern) the FULL statements hold:
   `==` is exactly equality of observables (hence an equivalence), and equal attributes hash equal. *)
Theorem C08_fix_observable : forall a b, eqb_fix a b = true <-> obs a = obs b.
Proof. exact eqb_fix_iff_obs. Qed.
Print Assumptions C08_fix_observable.

Theorem C08_fix_equivalence :
  (forall a, eqb_fix a a = true) /\
  (forall a b, eqb_fix a b = eqb_fix b a) /\
  (forall a b c, eqb_fix a b = true -> eqb_fix b c = true -> eqb_fix a c = true).
Proof. exact eqb_fix_equivalence. Qed.
Print Assumptions C08_fix_equivalence.

Theorem C08_fix_hash_consistent :
  forall (hash_buf : list Z -> Z) (hash_id : Z -> Z) (hash_tuple hash_fset : list Z -> Z) a b,
  eqb_fix a b = true ->
  hash_fix hash_buf hash_id hash_tuple hash_fset a = hash_fix hash_buf hash_id hash_tuple hash_fset b.
Proof. exact hash_fix_consistent. Qed.
Print Assumptions C08_fix_hash_consistent.

(* CSE key (OperationInfo), for ARBITRARY attribute ==/hash (`aeq`/`akey`: instantiate with eqb/hkey for
   the unchanged tree, eqb_fix/hkey_fix with repair C08-1), arbitrary CPython hash functions and
   arbitrary region-equivalence test: an equal key implies an equal hash, a key equals itself, and an
   equal key pins down name, attributes, properties, result types, operands and region equivalence. *)
Theorem C08_opinfo_consistent :
  forall (hash_buf : list Z -> Z) (hash_id : Z -> Z) (hash_tuple hash_fset : list Z -> Z)
         (R : Type) (req : R -> R -> bool) (aeq : pyval -> pyval -> bool) (akey : pyval -> hk) (a b : opinfo R),
  oi_eq R req aeq akey hash_buf hash_id hash_tuple hash_fset a b = EqTrue ->
  oi_hash R akey hash_buf hash_id hash_tuple hash_fset a = oi_hash R akey hash_buf hash_id hash_tuple hash_fset b.
Proof. exact opinfo_consistent. Qed.
Print Assumptions C08_opinfo_consistent.

Theorem C08_opinfo_refl :
  forall (hash_buf : list Z -> Z) (hash_id : Z -> Z) (hash_tuple hash_fset : list Z -> Z)
         (R : Type) (req : R -> R -> bool) (a : opinfo R),
  (forall r, req r r = true) -> oi_eq R req eqb hkey hash_buf hash_id hash_tuple hash_fset a a = EqTrue.
Proof. exact opinfo_refl_cur. Qed.
Print Assumptions C08_opinfo_refl.

Theorem C08_opinfo_eq_sound :
  forall (hash_buf : list Z -> Z) (hash_id : Z -> Z) (hash_tuple hash_fset : list Z -> Z)
         (R : Type) (req : R -> R -> bool) (a b : opinfo R),
  oi_eq R req eqb hkey hash_buf hash_id hash_tuple hash_fset a b = EqTrue ->
  oi_name R a = oi_name R b /\ map relax (oi_attrs R a) = map relax (oi_attrs R b) /\
  map relax (oi_props R a) = map relax (oi_props R b) /\ oi_operands R a = oi_operands R b /\
  map relax (oi_results R a) = map relax (oi_results R b) /\
  regions_all R req (oi_regions R a) (oi_regions R b) = EqTrue.
Proof. exact opinfo_eq_sound_cur. Qed.
Print Assumptions C08_opinfo_eq_sound.

(* IntegerAttr normalisation: two signless IntegerAttr of width w > 0 built from in-range integers
   store the same value iff the integers have the same w-bit pattern (255 : i8 == -1 : i8). *)
Theorem C08_integer_attr_signless_bits : forall w v1 v2,
  0 < w -> in_range Signless w v1 = true -> in_range Signless w v2 = true ->
  exists n1 n2,
    integer_attr_value Signless w v1 false = Some n1 /\
    integer_attr_value Signless w v2 false = Some n2 /\
    n1 mod 2 ^ w = v1 mod 2 ^ w /\
    (n1 = n2 <-> v1 mod 2 ^ w = v2 mod 2 ^ w).
Proof. exact integer_attr_signless_bits. Qed.
Print Assumptions C08_integer_attr_signless_bits.

(* "Parsed from the same text in different Contexts are equal" is refuted for unregistered
   attributes/types: the harness observes that two Contexts create two distinct subclass objects of
   UnregisteredAttr for the same name (known finding C08-kf-4); in the model, distinct class objects with
   identical parameters are never equal (and hash alike). *)
Theorem C08_two_contexts_refuted : forall c1 c2 ps,
  c1 <> c2 -> eqb (VParam c1 ps) (VParam c2 ps) = false /\ hkey (VParam c1 ps) = hkey (VParam c2 ps).
Proof. exact distinct_class_objects_unequal. Qed.
Print Assumptions C08_two_contexts_refuted.

(* ---- Examples (vm_compute): non-vacuity and the replayed witnesses ---- *)
(* FloatAttr(0.0, f64) == FloatAttr(-0.0, f64) (known finding C08-kf-1), hash keys equal *)
Example C08_ex_signed_zero :
  eqb (w_float 0 1) (w_float NEG_ZERO 2) = true /\ hkey (w_float 0 1) = hkey (w_float NEG_ZERO 2) /\
  eqb_fix (w_float 0 1) (w_float NEG_ZERO 2) = false.
Proof. vm_compute. repeat split; reflexivity. Qed.
(* NaNs of different payload compare equal (C08-kf-2) and their hash keys differ (C08-kf-3) *)
Example C08_ex_nan :
  eqb (w_float CANON_NAN 1) (w_float NAN_PAYLOAD_1 2) = true /\
  hkey (w_float CANON_NAN 1) <> hkey (w_float CANON_NAN 2) /\
  nan_objs_agree (w_float CANON_NAN 1) (w_float CANON_NAN 1) = true /\
  eqb_fix (w_float CANON_NAN 1) (w_float NAN_PAYLOAD_1 2) = false /\
  hkey_fix (w_float CANON_NAN 1) = hkey_fix (w_float CANON_NAN 2).
Proof. vm_compute. repeat split; try reflexivity. discriminate. Qed.
(* the hypotheses of the partial theorems are satisfiable by non-trivial attributes *)
Example C08_ex_partial_hyps :
  special_free (w_float 4607182418800017408 1) = true /\      (* 1.0 *)
  nan_free (w_float NEG_ZERO 1) = true /\
  eqb (w_float 4607182418800017408 1) (w_float 4607182418800017408 2) = true.
Proof. vm_compute. repeat split; reflexivity. Qed.
(* IntegerAttr(255, i8) == IntegerAttr(-1, i8); 256 : i8 is rejected *)
Example C08_ex_integer :
  mk_integer_attr Signless 8 255 false = mk_integer_attr Signless 8 (-1) false /\
  mk_integer_attr Signless 8 255 false <> None /\
  integer_attr_value Signless 8 256 false = None /\
  integer_attr_value Unsigned 8 255 false = Some 255.
Proof. vm_compute. repeat split; try reflexivity. discriminate. Qed.
(* exact CPython hashes: hash(-1) = -2, hash(2**61-1) = 0, hash(1.0) = 1, hash(0.5) = 2**60,
   hash(-0.0) = 0, hash(inf) = 314159; str and bytes share the buffer hash; hash("") = hash({}) = hash(0) = 0 *)
Example C08_ex_hashes :
  py_hash_int (-1) = -2 /\ py_hash_int (2^61 - 1) = 0 /\
  py_hash_float 4607182418800017408 = 1 /\ py_hash_float 4602678819172646912 = 2^60 /\
  py_hash_float NEG_ZERO = 0 /\ py_hash_float 9218868437227405312 = 314159 /\
  hkey (VData 5 (VStr [97])) = hkey (VData 6 (VBytes [97])) /\
  hkey (VData 5 (VStr [])) = hkey (VData 7 (VUnord UDict [])) /\ hkey (VData 5 (VStr [])) = hkey (VData 1 (VInt 0)).
Proof. vm_compute. repeat split; reflexivity. Qed.
