(* Props/C06.v -- property C06: builtin attributes and types round-trip bit-exactly through text.
   ONLY theorem statements closed by `exact` (+ Examples by vm_compute).
   Model: C06/Model.v (text = list of code points, bytes = list of integers; CPython's float
   formatting / scanning / struct packing are function arguments of the float kernels).
   Specs a reader needs: `is_byte b := 0 <= b < 256`, `is_scalar` (a Unicode scalar value: no surrogate),
   `is_bare_id` (a letter or underscore followed by letters, digits, `_`, `$`, `.`), `in_range` (value_range of comparisons.py),
   `float_hyps` (Model.v: the pointwise CPython facts H1-H4), `elem_rt`, `payload_fits`, `splat_exact`
   (C06/ProofsNum.v, three one-line definitions). *)
From Coq Require Import ZArith List Bool String.
From XV Require Import C06.Model C06.ProofsText C06.ProofsNum C06.ProofsWit.
Import ListNotations.
Local Open Scope Z_scope.

(* ---- (1) integers ------------------------------------------------------------------- *)

(* f"{n:d}" / f"{n:X}" read back by int(text, 10) / int(text, 16): all n >= 0, both bases *)
Theorem C06_digits_rt : forall base up n, 2 <= base <= 16 -> 0 <= n ->
  nat_digits base up n <> [] /\
  Forall (fun c => exists d, 0 <= d < base /\ c = digit_char up d) (nat_digits base up n) /\
  int_of_digits base (nat_digits base up n) = Some n.
Proof. exact nat_digits_spec. Qed.
Print Assumptions C06_digits_rt.

(* the value an IntegerAttr stores: defined exactly for in-range values, same residue mod 2^w, in the
   signed range for signless/signed types, the value itself for unsigned types, and a normal form *)
Theorem C06_int_normal_form : forall w s v v', 0 <= w ->
  integer_attr (TInteger w s) v = Ok v' ->
  in_range s w v = true /\ in_range s w v' = true /\ v' mod 2 ^ w = v mod 2 ^ w /\
  (s <> Unsigned -> signed_lower_bound w <= v' < signed_upper_bound w) /\
  (s = Unsigned -> v' = v) /\
  normalized_value s w v' = Some v'.
Proof. exact integer_attr_spec. Qed.
Print Assumptions C06_int_normal_form.

Theorem C06_int_constructible : forall w s v, in_range s w v = true -> 0 <= w ->
  exists v', integer_attr (TInteger w s) v = Ok v'.
Proof. exact integer_attr_total. Qed.
Print Assumptions C06_int_constructible.

(* every integer attribute -- index or any width w >= 0, signless / signed / unsigned, every value the
   constructor accepts -- prints (`true`/`false` for i1, decimal `v : type` otherwise) to text that lexes and
   parses back to the same type and the same stored value *)
Theorem C06_int_rt : forall ty v v', ity_ok ty ->
  integer_attr ty v = Ok v' -> integer_attr_roundtrip ty v' = Ok (ty, v').
Proof. exact int_attr_roundtrip_ok. Qed.
Print Assumptions C06_int_rt.

(* ---- (2) bytes ---------------------------------------------------------------------- *)

(* unescape (escape bs) = bs for ALL byte strings *)
Theorem C06_bytes_rt : forall bs, Forall is_byte bs -> unescape (flat_map escape_byte bs) = Ok bs.
Proof. exact unescape_escape. Qed.
Print Assumptions C06_bytes_rt.

(* the string-literal regex matches exactly the printed literal, whatever follows it *)
Theorem C06_bytes_lex : forall bs rest, Forall is_byte bs ->
  scan_body (flat_map escape_byte bs ++ 34 :: rest) = Some (flat_map escape_byte bs, rest).
Proof. exact scan_body_escape. Qed.
Print Assumptions C06_bytes_lex.

(* unchanged tree: a BytesAttr comes back as a StringAttr exactly when its payload is ASCII *)
Theorem C06_bytes_attr_rt_char : forall bs, Forall is_byte bs ->
  bytes_attr_roundtrip false bs = Ok (if is_ascii_list bs then AString bs else ABytes bs).
Proof. exact bytes_attr_roundtrip_char. Qed.
Print Assumptions C06_bytes_attr_rt_char.

Theorem C06_bytes_attr_rt_partial : forall bs, Forall is_byte bs -> is_ascii_list bs = false ->
  bytes_attr_roundtrip false bs = Ok (ABytes bs).
Proof. exact bytes_attr_rt_partial. Qed.
Print Assumptions C06_bytes_attr_rt_partial.

Theorem C06_bytes_attr_rt_refuted :
  exists bs, Forall is_byte bs /\ bytes_attr_roundtrip false bs <> Ok (ABytes bs).
Proof. exact bytes_attr_rt_refuted. Qed.
Print Assumptions C06_bytes_attr_rt_refuted.

(* ---- (3) strings -------------------------------------------------------------------- *)

(* UTF-8: decode (encode s) = s, and every surrogate-free string is encodable *)
Theorem C06_utf8_rt : forall s bs, utf8_enc s = Some bs -> utf8_dec bs = Some s.
Proof. exact utf8_roundtrip. Qed.
Print Assumptions C06_utf8_rt.

Theorem C06_utf8_total : forall s, forallb is_scalar s = true -> exists bs, utf8_enc s = Some bs.
Proof. exact utf8_enc_total. Qed.
Print Assumptions C06_utf8_total.

(* print (encode, escape), lex (regex, STRING_LIT/BYTES_LIT classification), parse (unescape, decode):
   the exact outcome for every surrogate-free string, on the unchanged tree (fixed = false) and with the
   proposed lexer repair (fixed = true) *)
Theorem C06_string_rt_char : forall fixed s, forallb is_scalar s = true ->
  exists bs, utf8_enc s = Some bs /\
  string_attr_roundtrip fixed s = Ok (if fixed || is_ascii_list s then AString s else ABytes bs).
Proof. exact string_attr_roundtrip_char. Qed.
Print Assumptions C06_string_rt_char.

Theorem C06_string_rt_partial : forall s, forallb is_scalar s = true -> is_ascii_list s = true ->
  string_attr_roundtrip false s = Ok (AString s).
Proof. exact string_rt_partial. Qed.
Print Assumptions C06_string_rt_partial.

Theorem C06_string_rt_refuted :
  exists s, forallb is_scalar s = true /\ string_attr_roundtrip false s <> Ok (AString s).
Proof. exact string_rt_refuted. Qed.
Print Assumptions C06_string_rt_refuted.

(* the failing class is exactly: some code point >= 128 *)
Theorem C06_string_rt_refuted_class : forall s, forallb is_scalar s = true -> is_ascii_list s = false ->
  exists bs, utf8_enc s = Some bs /\ string_attr_roundtrip false s = Ok (ABytes bs).
Proof. exact string_rt_refuted_class. Qed.
Print Assumptions C06_string_rt_refuted_class.

Theorem C06_string_rt_fixed : forall s, forallb is_scalar s = true ->
  string_attr_roundtrip true s = Ok (AString s).
Proof. exact string_rt_fixed. Qed.
Print Assumptions C06_string_rt_fixed.

(* ---- (6) identifier-or-string: symbol references and dictionary keys ---------------- *)

(* a name is printed bare exactly when it matches the bare-identifier grammar *)
Theorem C06_ident_bare_iff : forall n, forallb is_scalar n = true ->
  (print_id_or_str n = Ok n <-> is_bare_id n = true).
Proof. exact print_id_or_str_bare_iff. Qed.
Print Assumptions C06_ident_bare_iff.

(* @root::@n1::@n2 : all surrogate-free names, any nesting depth, with and without the lexer repair *)
Theorem C06_symbolref_rt : forall fixed root ns,
  forallb is_scalar root = true -> forallb (forallb is_scalar) ns = true ->
  symref_roundtrip fixed root ns = Ok (root, ns).
Proof. exact symref_roundtrip_ok. Qed.
Print Assumptions C06_symbolref_rt.

(* dictionary keys (followed by anything that does not extend an identifier, e.g. " = ..."):
   exact outcome; ParseError on the unchanged tree exactly for quoted keys with a non-ASCII character *)
Theorem C06_dict_rt_char : forall fixed k rest, forallb is_scalar k = true -> ends_id rest ->
  dict_key_roundtrip fixed k rest =
  if is_bare_id k || fixed || is_ascii_list k then Ok k else Raise E_PARSE.
Proof. exact dict_key_roundtrip_char. Qed.
Print Assumptions C06_dict_rt_char.

Theorem C06_dict_rt_partial : forall k rest, forallb is_scalar k = true -> ends_id rest ->
  is_bare_id k = true \/ is_ascii_list k = true -> dict_key_roundtrip false k rest = Ok k.
Proof. exact dict_key_rt_partial. Qed.
Print Assumptions C06_dict_rt_partial.

Theorem C06_dict_rt_refuted : exists k rest, forallb is_scalar k = true /\ ends_id rest /\
  dict_key_roundtrip false k rest = Raise E_PARSE.
Proof. exact dict_key_rt_refuted. Qed.
Print Assumptions C06_dict_rt_refuted.

Theorem C06_dict_rt_fixed : forall k rest, forallb is_scalar k = true -> ends_id rest ->
  dict_key_roundtrip true k rest = Ok k.
Proof. exact dict_key_rt_fixed. Qed.
Print Assumptions C06_dict_rt_fixed.

(* ---- (4) floats --------------------------------------------------------------------- *)

(* For ANY behaviour of the CPython oracles, any float type (kind F32 / F64 / repr-printed, any size, any name
   that is a bare identifier) and any FloatAttr payload x of it (x = unpack (pack x), binary64 bits): if the
   pointwise facts `float_hyps` hold at x, then print_float's text followed by ` : type` lexes and parses back
   to exactly the bits x.  Covers NaN with any payload and +-inf (hex of the packed bits), +-0 and finite values
   in the %.5e form, the %.9g / %.17g / repr forms, and the hexadecimal fallback. *)
Theorem C06_float_rt : forall pack unpack fmt5e fmt9g fmt17g repr_ scan of_int ty x,
  fty_ok ty -> float_attr pack unpack ty x = x ->
  float_hyps pack unpack fmt5e fmt9g fmt17g repr_ scan ty x = true ->
  float_attr_roundtrip pack unpack fmt5e fmt9g fmt17g repr_ scan of_int ty x = Ok x.
Proof. exact float_roundtrip_ok. Qed.
Print Assumptions C06_float_rt.

(* ---- (5) dense elements and dense arrays -------------------------------------------- *)

(* any element type, shape (product = element count), list / splat / hex-string form: the attribute
   round-trips when every element on its own does, fits its byte width, and the splat test is exact *)
Theorem C06_dense_rt_partial : forall pack unpack fmt5e fmt9g fmt17g repr_ scan of_int hexfix splatfix e shape ps sz,
  elem_size e = Ok sz -> 0 < sz ->
  prod shape = Z.of_nat (List.length ps) -> Forall (fun d => 0 <= d) shape ->
  Forall (elem_rt pack unpack fmt5e fmt9g fmt17g repr_ scan of_int hexfix e) ps ->
  Forall (payload_fits e sz) ps -> splat_exact unpack splatfix e ps ->
  dense_roundtrip pack unpack fmt5e fmt9g fmt17g repr_ scan of_int hexfix splatfix e shape ps = Ok ps.
Proof. exact dense_roundtrip_ok. Qed.
Print Assumptions C06_dense_rt_partial.

(* integer / index elements: full statement (every width with a struct format, i.e. w <= 64) *)
Theorem C06_dense_int_rt : forall pack unpack fmt5e fmt9g fmt17g repr_ scan of_int hexfix splatfix ty shape ps sz,
  int_size ty = Ok sz ->
  prod shape = Z.of_nat (List.length ps) -> Forall (fun d => 0 <= d) shape ->
  Forall (int_payload_ok ty) ps ->
  dense_roundtrip pack unpack fmt5e fmt9g fmt17g repr_ scan of_int hexfix splatfix (EI ty) shape ps = Ok ps.
Proof. exact dense_int_roundtrip_ok. Qed.
Print Assumptions C06_dense_int_rt.

(* unchanged tree: a float element printed in hexadecimal is read back as float(int) ... *)
Theorem C06_dense_rt_refuted : exists pack unpack f5 f9 f17 fr scan ofint ty shape ps,
  prod shape = Z.of_nat (List.length ps) /\ Forall (fun d => 0 <= d) shape /\
  Forall (fun p => pack ty (unpack ty p) = p /\
                   float_hyps pack unpack f5 f9 f17 fr scan ty (unpack ty p) = true /\
                   float_attr_roundtrip pack unpack f5 f9 f17 fr scan ofint ty (unpack ty p) = Ok (unpack ty p)) ps /\
  dense_roundtrip pack unpack f5 f9 f17 fr scan ofint false false (EF ty) shape ps = Ok [1325367296; 1065353216] /\
  ps = [2143289344; 1065353216].
Proof. exact dense_rt_refuted. Qed.
Print Assumptions C06_dense_rt_refuted.

(* ... and a tensor mixing +0.0 and -0.0 is printed as a splat *)
Theorem C06_dense_splat_refuted : exists pack unpack f5 f9 f17 fr scan ofint ty shape ps,
  prod shape = Z.of_nat (List.length ps) /\ Forall (fun d => 0 <= d) shape /\
  Forall (fun p => pack ty (unpack ty p) = p /\
                   float_hyps pack unpack f5 f9 f17 fr scan ty (unpack ty p) = true /\
                   float_attr_roundtrip pack unpack f5 f9 f17 fr scan ofint ty (unpack ty p) = Ok (unpack ty p)) ps /\
  print_dense pack unpack f5 f9 f17 fr scan false (EF ty) shape ps = Ok (DSplat (str "0.000000e+00")) /\
  dense_roundtrip pack unpack f5 f9 f17 fr scan ofint false false (EF ty) shape ps = Ok [0; 0] /\
  ps = [0; 2147483648].
Proof. exact dense_splat_refuted. Qed.
Print Assumptions C06_dense_splat_refuted.

Theorem C06_densearray_rt_partial : forall pack unpack fmt5e fmt9g fmt17g repr_ scan hexfix e ps,
  Forall (fun p => parse_array_elem pack unpack scan hexfix e
                     (print_elem pack unpack fmt5e fmt9g fmt17g repr_ scan e (elem_value unpack e p)) = Ok p) ps ->
  densearray_roundtrip pack unpack fmt5e fmt9g fmt17g repr_ scan hexfix e ps = Ok ps.
Proof. exact densearray_roundtrip_ok. Qed.
Print Assumptions C06_densearray_rt_partial.

Theorem C06_densearray_int_rt : forall pack unpack fmt5e fmt9g fmt17g repr_ scan hexfix w s ps,
  Forall (int_payload_ok (TInteger w s)) ps ->
  densearray_roundtrip pack unpack fmt5e fmt9g fmt17g repr_ scan hexfix (EI (TInteger w s)) ps = Ok ps.
Proof. exact densearray_int_roundtrip_ok. Qed.
Print Assumptions C06_densearray_int_rt.

Theorem C06_densearray_rt_refuted : exists pack unpack f5 f9 f17 fr scan ofint ty ps,
  Forall (fun p => pack ty (unpack ty p) = p /\
                   float_hyps pack unpack f5 f9 f17 fr scan ty (unpack ty p) = true /\
                   float_attr_roundtrip pack unpack f5 f9 f17 fr scan ofint ty (unpack ty p) = Ok (unpack ty p)) ps /\
  densearray_roundtrip pack unpack f5 f9 f17 fr scan false (EF ty) ps = Raise E_PARSE /\
  ps = [2143289344; 1065353216].
Proof. exact densearray_rt_refuted. Qed.
Print Assumptions C06_densearray_rt_refuted.

(* with the proposed repairs C06-2/3/4 (hexfix = splatfix = true): float dense attributes and dense arrays
   round-trip bit for bit; only the decimal forms still rest on the CPython facts (`elem_rt` of those elements) *)
Theorem C06_dense_float_rt_fixed : forall pack unpack fmt5e fmt9g fmt17g repr_ scan of_int ty shape ps,
  0 < fsize ty ->
  prod shape = Z.of_nat (List.length ps) -> Forall (fun d => 0 <= d) shape ->
  Forall (fun p => 0 <= p < 2 ^ (8 * fsize ty) /\ pack ty (unpack ty p) = p /\
                   (hex_printed pack unpack fmt5e fmt9g fmt17g scan ty p \/
                    elem_rt pack unpack fmt5e fmt9g fmt17g repr_ scan of_int true (EF ty) p)) ps ->
  dense_roundtrip pack unpack fmt5e fmt9g fmt17g repr_ scan of_int true true (EF ty) shape ps = Ok ps.
Proof. exact dense_float_roundtrip_fixed. Qed.
Print Assumptions C06_dense_float_rt_fixed.

Theorem C06_densearray_float_rt_fixed : forall pack unpack fmt5e fmt9g fmt17g repr_ scan (of_int : Z -> res Z) ty ps,
  0 < fsize ty ->
  Forall (fun p => 0 <= p < 2 ^ (8 * fsize ty) /\ pack ty (unpack ty p) = p /\
                   (hex_printed pack unpack fmt5e fmt9g fmt17g scan ty p \/
                    parse_array_elem pack unpack scan true (EF ty)
                      (print_elem pack unpack fmt5e fmt9g fmt17g repr_ scan (EF ty) (elem_value unpack (EF ty) p)) = Ok p)) ps ->
  densearray_roundtrip pack unpack fmt5e fmt9g fmt17g repr_ scan true (EF ty) ps = Ok ps.
Proof. exact densearray_float_roundtrip_fixed. Qed.
Print Assumptions C06_densearray_float_rt_fixed.

Example C06_fixed_witnesses :
  dense_roundtrip w_pack w_unpack w_5e w_9g w_17g w_repr w_scan w_ofint true true (EF f32ty) [2] [2143289344; 1065353216]
    = Ok [2143289344; 1065353216] /\
  dense_roundtrip w_pack w_unpack w_5e w_9g w_17g w_repr w_scan w_ofint true true (EF f32ty) [2] [0; 2147483648]
    = Ok [0; 2147483648] /\
  dense_roundtrip w_pack w_unpack w_5e w_9g w_17g w_repr w_scan w_ofint true true (EF f32ty) [2] [2143289344; 2143289344]
    = Ok [2143289344; 2143289344] /\
  densearray_roundtrip w_pack w_unpack w_5e w_9g w_17g w_repr w_scan true (EF f32ty) [2143289344; 1065353216]
    = Ok [2143289344; 1065353216].
Proof. exact witnesses_fixed. Qed.

(* ---- non-vacuity --------------------------------------------------------------------- *)

Example C06_int_nonvacuous :
  integer_attr (TInteger 8 Signless) 255 = Ok (-1) /\
  print_integer_attr (TInteger 8 Signless) (-1) = str "-1 : i8" /\
  integer_attr_roundtrip (TInteger 8 Signless) (-1) = Ok (TInteger 8 Signless, -1) /\
  integer_attr_roundtrip (TInteger 1 Signless) (-1) = Ok (TInteger 1 Signless, -1) /\
  integer_attr_roundtrip (TInteger 128 Unsigned) (2 ^ 128 - 1) = Ok (TInteger 128 Unsigned, 2 ^ 128 - 1).
Proof. vm_compute. repeat split; reflexivity. Qed.

Example C06_text_nonvacuous :
  print_bytes_literal [0; 34; 92; 255; 65] = 34 :: str "\00\22\\\FFA" ++ [34] /\
  bytes_attr_roundtrip false [255] = Ok (ABytes [255]) /\
  string_attr_roundtrip false (str "a b") = Ok (AString (str "a b")) /\
  string_attr_roundtrip true [97; 34; 233; 128512] = Ok (AString [97; 34; 233; 128512]) /\
  symref_roundtrip false [233] [str "a b"; str "c.d"] = Ok ([233], [str "a b"; str "c.d"]) /\
  print_symref [233] [str "a b"; str "c.d"] = Ok (64 :: 34 :: str "\C3\A9" ++ 34 :: str "::@" ++ 34 :: str "a b" ++ 34 :: str "::@c.d").
Proof. vm_compute. repeat split; reflexivity. Qed.

(* the hypotheses of C06_float_rt and C06_dense_rt_partial are satisfiable (CPython's values at 1.0 / -0.0 : f32) *)
Example C06_float_nonvacuous :
  float_hyps w_pack w_unpack w_5e w_9g w_17g w_repr w_scan f32ty one64 = true /\
  float_attr w_pack w_unpack f32ty one64 = one64 /\
  print_float w_pack w_unpack w_5e w_9g w_17g w_repr w_scan f32ty one64 = str "1.000000e+00" /\
  print_float w_pack w_unpack w_5e w_9g w_17g w_repr w_scan f32ty nan64 = str "0x7fc00000" /\
  float_attr_roundtrip w_pack w_unpack w_5e w_9g w_17g w_repr w_scan w_ofint f32ty nan64 = Ok nan64 /\
  float_attr_roundtrip w_pack w_unpack w_5e w_9g w_17g w_repr w_scan w_ofint f32ty negz64 = Ok negz64 /\
  dense_roundtrip w_pack w_unpack w_5e w_9g w_17g w_repr w_scan w_ofint false false (EF f32ty) [2] [1065353216; 2147483648]
    = Ok [1065353216; 2147483648].
Proof. vm_compute. repeat split; reflexivity. Qed.
