(* Props/C22.v -- property C22: RISC-V canonicalization never changes results; prologue/epilogue keeps callee state.
   ONLY theorem statements closed by `exact` (+ vm_compute Examples).
   Specs: C22/Proofs.v (`valid_node`, `env_ok`, `sound_outcome`, `miscompiles`), C22/ProofsMore.v
   (`canon_sound_statement`, `all_fixed`), C22/ProofsFrame.v (`body_ok`, `regs_in_range`); semantics in C22/Model.v.
   `ver0` = the unchanged tree; a version with all five flags set = the tree with build/proposed_fixes/C22-1..5. *)
From Coq Require Import ZArith List Bool.
From XV Require Import C22.Model C22.Proofs C22.ProofsPat C22.ProofsMore C22.ProofsFrame.
Import ListNotations.
Local Open Scope Z_scope.

(* ---- canonicalization kernel ------------------------------------------------------------------------------- *)

(* The statement of the property for a code version (ProofsMore.v): for EVERY modelled pattern, matched op,
   preceding definitions, register values and memory: the pattern does not raise, and if it rewrites then the
   replacement defines the same 32-bit value / does the same store, leaves the memory equal, defines only fresh
   values and consists of encodable ops.  Full strength for the repaired code: *)
Theorem C22_canon_sound_repaired : forall vr, all_fixed vr -> canon_sound_statement vr.
Proof. exact canon_sound_fixed. Qed.
Print Assumptions C22_canon_sound_repaired.

(* ... and it is FALSE for the unchanged tree: *)
Theorem C22_canon_sound_refuted : ~ canon_sound_statement ver0.
Proof. exact canon_sound_refuted. Qed.
Print Assumptions C22_canon_sound_refuted.

(* Strongest statement that holds for ANY version, in particular the unchanged tree: whenever a pattern rewrites,
   and the rewrite is not one of the two value-changing ones singled out by `miscompiles` (ShiftbyZero on
   bclri/bexti/binvi/bseti; float load/store *WithKnownOffset with a combined offset outside si12), the result is
   preserved and the new ops are encodable.  (A raising pattern is `Raise`, for which sound_outcome says nothing.) *)
Theorem C22_canon_sound_partial :
  forall (memT : Type) (ld : memT -> memkind -> Z -> Z) (st : memT -> memkind -> Z -> Z -> memT)
         (vr : ver) (rpre : list node) (uses : Z -> Z) (e : env) (m : memT) (nx : Z),
    env_ok rpre e -> Forall valid_node rpre -> Forall (ids_below nx) rpre ->
    forall (p : pat) (n : node), valid_node n -> ids_below nx n ->
    miscompiles vr p rpre n = false ->
    sound_outcome memT ld st e m n nx (apply_pat vr rpre uses n nx p).
Proof. exact pat_sound. Qed.
Print Assumptions C22_canon_sound_partial.

(* the hypothesis is satisfiable on a rewriting case of the unchanged tree: add %x, (li 5) ==> addi %x, 5 *)
Example C22_partial_nonvacuous :
  miscompiles ver0 AddImmediates [mkN 1 (-1) (OLi 5); mkN 0 (-1) (OArg false)] (mkN 2 (-1) (OBin Add 0 1)) = false
  /\ apply_pat ver0 [mkN 1 (-1) (OLi 5); mkN 0 (-1) (OArg false)] (fun _ => 1) (mkN 2 (-1) (OBin Add 0 1)) 3
       AddImmediates = Rew [mkN 3 (-1) (OImm Addi 0 5)] (Some 3) None.
Proof. vm_compute. split; reflexivity. Qed.

(* with the repairs no modelled pattern raises on verified input *)
Theorem C22_canon_no_raise_repaired : forall vr rpre uses n nx p c,
  all_fixed vr -> Forall valid_node rpre -> valid_node n -> apply_pat vr rpre uses n nx p <> Raise c.
Proof. exact no_raise_fixed. Qed.
Print Assumptions C22_canon_no_raise_repaired.

(* the same for what the greedy applier does at an op (first acting pattern of the op's trait tuple) *)
Theorem C22_canon_op_sound_repaired : forall vr, all_fixed vr ->
  forall (memT : Type) (ld : memT -> memkind -> Z -> Z) (st : memT -> memkind -> Z -> Z -> memT)
         (rpre : list node) (uses : Z -> Z) (e : env) (m : memT) (nx : Z) (n : node),
    env_ok rpre e -> Forall valid_node rpre -> Forall (ids_below nx) rpre ->
    valid_node n -> ids_below nx n ->
    (forall c, canon_op vr rpre uses n nx <> Raise c) /\
    sound_outcome memT ld st e m n nx (canon_op vr rpre uses n nx).
Proof. exact canon_op_sound_fixed. Qed.
Print Assumptions C22_canon_op_sound_repaired.

(* one refutation per defect class of the unchanged tree (witnesses = known_findings.d/C22.json) *)
(* kf-1  add %x, (li 5000): AddImmediates builds addi with a 13-bit immediate -> VerifyException (code 2) *)
Theorem C22_addi_range_refuted :
  apply_pat ver0 [mkN 1 (-1) (OLi 5000); mkN 0 (-1) (OArg false)] (fun _ => 1) (mkN 2 (-1) (OBin Add 0 1)) 3
    AddImmediates = Raise 2
  /\ apply_pat ver0 [mkN 1 (-1) (OLi (-2048)); mkN 0 (-1) (OArg false)] (fun _ => 1) (mkN 2 (-1) (OBin Sub 0 1)) 3
       SubImmediates = Raise 2.
Proof. exact (conj w1_raises w1b_raises). Qed.
Print Assumptions C22_addi_range_refuted.

(* kf-2  folded constants are not truncated to 32 bits: 65536*65536, 2<<31, -1 & ~(1<<31), -2^31 + -1 *)
Theorem C22_li_fold_refuted :
  apply_pat ver0 [mkN 1 (-1) (OLi 65536); mkN 0 (-1) (OArg false)] (fun _ => 1) (mkN 2 (-1) (OBin Mul 1 1)) 3
    MultiplyImmediates = Raise 2
  /\ apply_pat ver0 [mkN 1 (-1) (OLi 2); mkN 0 (-1) (OArg false)] (fun _ => 1) (mkN 2 (-1) (OSh Slli 1 31)) 3
       ShiftConstantFolding = Raise 2
  /\ apply_pat ver0 [mkN 1 (-1) (OLi (-1)); mkN 0 (-1) (OArg false)] (fun _ => 1) (mkN 2 (-1) (OSh Bclri 1 31)) 3
       ShiftConstantFolding = Raise 2
  /\ apply_pat ver0 [mkN 1 (-1) (OLi (-2147483648)); mkN 0 (-1) (OArg false)] (fun _ => 1)
       (mkN 2 (-1) (OImm Addi 1 (-1))) 3 AddImmediateConstant = Raise 2.
Proof. exact (conj w2_raises (conj w2b_raises (conj w2c_raises w2d_raises))). Qed.
Print Assumptions C22_li_fold_refuted.

(* kf-3  bexti %x, 0 ==> mv %x: for x = 2 the op computes 0, the replacement 2 *)
Theorem C22_shift_by_zero_refuted :
  ~ sound_outcome unit ld0 st0 (fun _ => 2) tt (mkN 2 (-1) (OSh Bexti 0 0)) 3
      (apply_pat ver0 [mkN 0 (-1) (OArg false)] (fun _ => 1) (mkN 2 (-1) (OSh Bexti 0 0)) 3 ShiftbyZero).
Proof. exact w3_unsound. Qed.
Print Assumptions C22_shift_by_zero_refuted.

(* kf-4  flw (addi %x, 2047), 2047 ==> flw %x, -2 (address x-2 instead of x+4094); lw (addi %x,2047), 1 raises *)
Theorem C22_mem_offset_refuted :
  ~ sound_outcome unit ld0 st0 w4_env tt w4_n 3
      (apply_pat ver0 w4_rpre (fun _ => 1) w4_n 3 LoadFloatWordWithKnownOffset)
  /\ apply_pat ver0 w4_rpre (fun _ => 1) (mkN 2 (-1) (OLoad MW 1 1)) 3 LoadWordWithKnownOffset = Raise 2.
Proof. exact (conj w4_unsound w4b_raises). Qed.
Print Assumptions C22_mem_offset_refuted.

(* kf-5  and/xor of two distinct constant zeros: the second rewriter.replace hits the erased op -> ValueError (3) *)
Theorem C22_double_replace_refuted :
  apply_pat ver0 w5_rpre (fun _ => 1) (mkN 3 (-1) (OBin And 1 2)) 4 BitwiseAndByZero = Raise 3
  /\ apply_pat ver0 w5_rpre (fun _ => 1) (mkN 3 (-1) (OBin Xor 1 2)) 4 BitwiseXorByZero = Raise 3.
Proof. exact (conj w5_raises w5b_raises). Qed.
Print Assumptions C22_double_replace_refuted.

(* whole-pass witnesses on the model of the unchanged tree: canonicalize aborts / changes a value *)
Example C22_pass_aborts_on_li_5000 :
  canonicalize ver0 (mkP [mkN 0 (-1) (OArg false); mkN 1 (-1) (OLi 5000); mkN 2 (-1) (OBin Add 0 1)] [2])
  = Raised 2 (pat_code AddImmediates).
Proof. vm_compute. reflexivity. Qed.
Example C22_pass_repaired_keeps_add :
  canonicalize ver_fixed (mkP [mkN 0 (-1) (OArg false); mkN 1 (-1) (OLi 5000); mkN 2 (-1) (OBin Add 0 1)] [2])
  = Done (mkP [mkN 0 (-1) (OArg false); mkN 1 (-1) (OLi 5000); mkN 2 (-1) (OBin Add 0 1)] [2]).
Proof. vm_compute. reflexivity. Qed.

(* ---- prologue / epilogue kernel ---------------------------------------------------------------------------- *)

(* For every list `written` of result registers, any xlen, flen >= 0 with a frame that fits the address space,
   every body that hands back sp and the frame bytes unchanged and writes no callee-saved register the pass did
   not see, and every entry state with sp in [0,2^32) and the saved registers within their slot width:
   after  prologue; body; epilogue  sp and every callee-saved register (s0-s11, fs0-fs11) have their entry values. *)
Theorem C22_sp_restored :
  forall xlen flen, 0 <= xlen -> 0 <= flen -> forall written,
    stack_size xlen flen (used_callee_saved written) <= M32 ->
    forall body, body_ok xlen flen body (used_callee_saved written) ->
    forall s0, regs_in_range xlen flen s0 (used_callee_saved written) ->
    xr (exec_instrs xlen flen (epilogue xlen flen (used_callee_saved written))
          (body (exec_instrs xlen flen (prologue xlen flen (used_callee_saved written)) s0))) SP = xr s0 SP.
Proof. exact sp_restored. Qed.
Print Assumptions C22_sp_restored.

Theorem C22_callee_saved :
  forall xlen flen, 0 <= xlen -> 0 <= flen -> forall written,
    stack_size xlen flen (used_callee_saved written) <= M32 ->
    forall body, body_ok xlen flen body (used_callee_saved written) ->
    (forall s r, is_callee_saved r = true -> ~ In r (used_callee_saved written) -> getr (body s) r = getr s r) ->
    forall s0, regs_in_range xlen flen s0 (used_callee_saved written) ->
    forall r, is_callee_saved r = true ->
    getr (exec_instrs xlen flen (epilogue xlen flen (used_callee_saved written))
            (body (exec_instrs xlen flen (prologue xlen flen (used_callee_saved written)) s0))) r = getr s0 r.
Proof. exact callee_saved_preserved. Qed.
Print Assumptions C22_callee_saved.

(* the pass' register set: duplicate-free, only callee-saved registers, and every written callee-saved one *)
Theorem C22_used_callee_saved_spec : forall written,
  NoDup (used_callee_saved written) /\
  Forall (fun r => is_callee_saved r = true) (used_callee_saved written) /\
  (forall r, In r written -> is_callee_saved r = true -> In r (used_callee_saved written)).
Proof. exact used_callee_saved_spec. Qed.
Print Assumptions C22_used_callee_saved_spec.

(* with the pass defaults xlen = 4, flen = 8 the sp adjustment is at most 144: encodable as a 12-bit immediate,
   and the frame-size hypothesis of the two theorems above always holds *)
Theorem C22_frame_size_bound : forall written, 0 <= stack_size 4 8 (used_callee_saved written) <= 144.
Proof. exact frame_size_bound. Qed.
Print Assumptions C22_frame_size_bound.

(* non-vacuity: s1 (x9) written twice, fs0, a0 (not callee-saved): frame = addi sp,-12; sw s1,0; fsd fs0,4 *)
Example C22_frame_example :
  frame_code 4 8 (used_callee_saved [(false, 9); (false, 10); (true, 8); (false, 9)])
  = ([IAddiSp (-12); ISave (false, 9) 0; ISave (true, 8) 4],
     [IRestore (false, 9) 0; IRestore (true, 8) 4; IAddiSp 12]).
Proof. vm_compute. reflexivity. Qed.
