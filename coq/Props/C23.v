(* Props/C23.v -- property C23: the LLVM backend emits LLVM IR with the source semantics.
   ONLY theorem statements closed by `exact` (+ Examples by computation).

   Objects:  Gen/C23_tables.v   the backend's tables, regenerated from /repo on every run
             C23/Model.v        the code around the tables (binop_flags, conv_icmp, conv_instr, conv_func, k_build)
             C23/Sem.v          sem_d (LLVM dialect, value level)  and  sem_i (LLVM IR, bit-pattern level)
             C23/ProofsTables.v spec_flags / spec_cast_flags: the flags a source op carries (MLIR definition)
             C23/ProofsPhi.v    run_ba (block arguments) and run_phi (phi nodes, LLVM's multi-entry rule)
   `None` = poison / undefined behaviour; all widths w >= 1, all bit patterns. *)
From Coq Require Import ZArith List String Bool.
From XV Require Import C15.Spec Gen.C23_tables C23.Model C23.Sem C23.ProofsBits C23.ProofsTables C23.ProofsPhi C23.Whole C23.ProofsWhole C23.ProofsLit.
Import ListNotations.
Local Open Scope Z_scope.

(* the bit-pattern semantics of the 13 integer instructions equals the value semantics of the dialect ops, with
   every flag combination, defined or not *)
Theorem C23_sem_ir_eq_dialect : forall w, 1 <= w -> forall op f a b, 0 <= a < 2 ^ w -> 0 <= b < 2 ^ w ->
  sem_i op f w a b = sem_d op f w a b.
Proof. exact sem_eq. Qed.
Print Assumptions C23_sem_ir_eq_dialect.

(* every integer entry of _BINARY_OP_MAP: the llvmlite method emits the opcode of the SAME operation, the flag list
   built by _convert_binop is accepted by LLVM on that opcode and is exactly the source's flag set, and the emitted
   instruction computes what the source op prescribes for all operands (poison where and only where the source is) *)
Theorem C23_binop_table_sound :
  forall cls meth, In (cls, meth) binary_op_map ->
  forall name d, op_name cls = Some name -> dialect_bin name = Some d ->
  forall o, sb_class o = cls -> ovf_valid o ->
  exists opc fl,
    binop_opcode cls = Ok opc /\ binop_flags o = Ok fl /\ llvm_bin opc = Some d /\
    flags_ok (llvm_allowed d) fl = true /\ flags_of_list fl = spec_flags d o /\
    same_set fl (spec_flag_names d o) /\
    forall w a b, 1 <= w -> 0 <= a < 2 ^ w -> 0 <= b < 2 ^ w ->
      sem_i d (flags_of_list fl) w a b = sem_d d (spec_flags d o) w a b.
Proof. exact binop_table_sound. Qed.
Print Assumptions C23_binop_table_sound.

(* ... and convert_op binds the result to that instruction with the operands in source order *)
Theorem C23_binop_instr :
  forall cls meth, In (cls, meth) binary_op_map ->
  forall o, sb_class o = cls -> forall opc fl, binop_opcode cls = Ok opc -> binop_flags o = Ok fl ->
  forall vm r t a b x y, vm_get vm a = Ok x -> vm_get vm b = Ok y ->
  conv_instr vm (DBin r o t a b) = Ok (Some (IBin r opc fl t x y), vm_set vm r (IVar r)).
Proof. exact conv_binop_instr. Qed.
Print Assumptions C23_binop_instr.

(* float entries: same operation kind, fast-math flags forwarded verbatim, all of them known to LLVM *)
Theorem C23_fbinop_table_sound :
  forall cls meth, In (cls, meth) binary_op_map ->
  forall name k, op_name cls = Some name -> dialect_fbin name = Some k ->
  forall o, sb_class o = cls ->
  exists opc, binop_opcode cls = Ok opc /\ llvm_fbin opc = Some k /\ binop_flags o = Ok (sb_fastmath o).
Proof. exact fbinop_table_sound. Qed.
Print Assumptions C23_fbinop_table_sound.
Theorem C23_fastmath_flags_known : forall s, In s fastmath_flags -> has s fastmath_names = true.
Proof. exact fastmath_flags_known. Qed.
Print Assumptions C23_fastmath_flags_known.
Theorem C23_binop_table_classified :
  forall cls meth, In (cls, meth) binary_op_map ->
  exists name, op_name cls = Some name /\ (dialect_bin name <> None \/ dialect_fbin name <> None).
Proof. exact binop_table_classified. Qed.
Print Assumptions C23_binop_table_classified.

(* the flag set forwarded equals the flag set of the source op (named separately; part of the statement above) *)
Theorem C23_flags_preserved :
  forall cls meth, In (cls, meth) binary_op_map ->
  forall name d, op_name cls = Some name -> dialect_bin name = Some d ->
  forall o, sb_class o = cls -> ovf_valid o ->
  exists fl, binop_flags o = Ok fl /\ same_set fl (spec_flag_names d o) /\ flags_of_list fl = spec_flags d o.
Proof. exact flags_preserved. Qed.
Print Assumptions C23_flags_preserved.

(* all ten icmp predicates (MLIR numbering): from_int -> _ICMP_PRED_MAP -> icmp_signed/unsigned -> llvmlite's _CMP_MAP
   yields the mnemonic of that predicate, whose bit-level meaning is the dialect's, for all widths and operands *)
Theorem C23_icmp_table_sound :
  forall pred, 0 <= pred <= 9 ->
  exists mn, conv_icmp pred = Ok mn /\ icmp_mnemonic pred = Some mn /\
    forall w a b, 1 <= w -> 0 <= a < 2 ^ w -> 0 <= b < 2 ^ w ->
      sem_i_icmp mn w a b = sem_d_icmp pred w a b.
Proof. exact icmp_table_sound. Qed.
Print Assumptions C23_icmp_table_sound.
Theorem C23_icmp_instr :
  forall pred mn, conv_icmp pred = Ok mn ->
  forall vm r t a b x y, vm_get vm a = Ok x -> vm_get vm b = Ok y ->
  conv_instr vm (DIcmp r pred t a b) = Ok (Some (IIcmp r mn t x y), vm_set vm r (IVar r)).
Proof. exact conv_icmp_instr. Qed.
Print Assumptions C23_icmp_instr.
Theorem C23_icmp_out_of_range : forall pred, 10 <= pred -> conv_icmp pred = Err E_Index.
Proof. exact icmp_out_of_range. Qed.
Print Assumptions C23_icmp_out_of_range.

(* trunc / zext / sext: same opcode, flags (nsw nuw / nneg) preserved, same result for all widths *)
Theorem C23_cast_table_sound :
  forall cls opc, In (cls, opc) cast_op_names ->
  forall name c, op_name cls = Some name -> dialect_cast name = Some c ->
  forall o, sc_class o = cls -> cast_ovf_valid o ->
  exists fl,
    cast_opcode cls = Ok opc /\ cast_flags o = Ok fl /\ llvm_cast opc = Some c /\
    flags_ok (llvm_cast_allowed c) fl = true /\ flags_of_list fl = spec_cast_flags c o /\
    forall w w2 a, 1 <= w -> 1 <= w2 -> (c = Trunc -> w2 < w) -> (c = SExt -> w < w2) -> 0 <= a < 2 ^ w ->
      sem_i_cast c (flags_of_list fl) w w2 a = sem_d_cast c (spec_cast_flags c o) w w2 a.
Proof. exact cast_table_sound. Qed.
Print Assumptions C23_cast_table_sound.
(* every cast op (also ptrtoint inttoptr bitcast fpext sitofp, which have no semantics in Sem.v) maps to the
   LLVM opcode of its own name *)
Theorem C23_cast_names_identity :
  forall cls opc, In (cls, opc) cast_op_names -> op_name cls = Some ("llvm." ++ opc)%string.
Proof. exact cast_names_identity. Qed.
Print Assumptions C23_cast_names_identity.

(* fcmp: the 14 real predicates map to the LLVM condition code with the same truth table over {<, =, >, unordered};
   with the unrepaired code the two constant predicates make the backend raise instead *)
Theorem C23_fcmp_table_sound :
  forall pred, 0 <= pred <= 15 -> (fcmp_strips_underscore = true \/ 1 <= pred <= 14) ->
  exists cc, conv_fcmp pred = Ok cc /\ forall o, sem_i_fcmp cc o = sem_d_fcmp pred o.
Proof. exact fcmp_table_sound. Qed.
Print Assumptions C23_fcmp_table_sound.
Theorem C23_fcmp_false_true_refuted :
  fcmp_strips_underscore = false -> conv_fcmp 0 = Err E_Value /\ conv_fcmp 15 = Err E_Value.
Proof. exact fcmp_false_true_refuted. Qed.
Print Assumptions C23_fcmp_false_true_refuted.

(* every arithmetic / cast op class registered in the dialect has a table entry, and icmp fcmp select br cond_br
   alloca load store return constant have a dispatch arm; the tables name registered classes only *)
Theorem C23_table_total : forall e, In e dialect_ops -> total_check e = true.
Proof. exact table_total. Qed.
Print Assumptions C23_table_total.
Theorem C23_tables_name_dialect_ops :
  (forall cls m, In (cls, m) binary_op_map -> has_key cls dialect_ops = true) /\
  (forall cls m, In (cls, m) cast_op_names -> has_key cls dialect_ops = true).
Proof. exact tables_name_dialect_ops. Qed.
Print Assumptions C23_tables_name_dialect_ops.

(* PHI CONSTRUCTION.  For every CFG, every conversion order that visits each block once, every abstract state
   space / operand evaluation / block-body semantics, every start block, state and fuel: the machine that reads the
   phi table built by the backend's add_incoming calls computes exactly what the block-argument machine computes --
   for the unrepaired construction under the hypothesis that a cond_br naming one block twice passes the same
   operands on both edges, for the repaired one (select) unconditionally. *)
Theorem C23_phi_block_args :
  forall (St : Type) eval assign body fixed f order pt,
  k_build fixed f order = Ok pt -> wf f -> (fixed = false -> no_conflict f) ->
  NoDup order -> (forall i, (i < List.length f)%nat -> In i order) ->
  forall fuel cur st,
    run_phi St eval assign body f pt fuel cur st = run_ba St eval assign body f fuel cur st.
Proof. exact phi_block_args. Qed.
Print Assumptions C23_phi_block_args.
(* without that hypothesis the unrepaired construction is wrong: the phi it builds is invalid LLVM IR *)
Theorem C23_phi_multi_edge_refuted :
  exists f pt st, k_build false f (seq 0 (List.length f)) = Ok pt /\ wf f /\
    c_run_ba f 3 0 st = ORet 5 /\ c_run_phi f pt 3 0 st = OStuck.
Proof. exact phi_multi_edge_refuted. Qed.
Print Assumptions C23_phi_multi_edge_refuted.
(* LLVM's structural rule: each phi has one entry per CFG edge into its block, labelled with the edge's source *)
Theorem C23_phi_one_entry_per_edge :
  forall fixed f order pt, k_build fixed f order = Ok pt -> wf f ->
  forall d (k : nat), (k < k_nargs f d)%nat ->
  map snd (pt_get pt d (Z.of_nat k)) = flat_map (edges_to f d) order.
Proof. exact phi_one_entry_per_edge. Qed.
Print Assumptions C23_phi_one_entry_per_edge.

(* WHOLE FUNCTION (integer fragment: constants, the 13 binary ops with flags, icmp, trunc/zext/sext, select, return,
   br / cond_br with block arguments incl. the repaired same-successor case).  Machines in C23/Whole.v:
   run_src = block arguments + sem_d;  run_tgt = per block the instructions conv_instr emits (generated tables),
   executed with sem_i, blocks entered through the phi table k_build builds (LLVM's rule).  tr_prog translates block
   by block under the complete val_map; whole_okb is the decidable well-formedness (one definition per id, every op
   translated, branch targets / operand counts, conversion order visits every block once; for unrepaired code also:
   equal operands on a double edge).  For every such function, every input and every fuel: if the source does not get
   stuck (operand of the wrong type / not yet defined, op outside the fragment) the target computes the SAME outcome:
   the returned bit pattern, poison/UB exactly when the source executes it, out-of-fuel alike.
   (That conv_func's output is this translation -- selects materialised as instructions -- is checked on every
   generated case by coq/C23/Enc.v:whole_agrees, not proved.) *)
Theorem C23_whole_function_sim : forall f T, tr_prog f = Ok T -> whole_okb f = true ->
  forall fuel inputs,
    let e0 := combine (map fst (d_args (nth 0 f ddflt))) inputs in
    run_src f fuel 0 e0 <> WStuck -> run_tgt T fuel 0 e0 = run_src f fuel 0 e0.
Proof. exact whole_function_sim. Qed.
Print Assumptions C23_whole_function_sim.
(* the same from any block and any pair of related environments, with the hypotheses spelled out as propositions *)
Theorem C23_whole_sim_general : forall f V pt,
  vm_ok V f -> tr_ok V f ->
  k_build condbr_same_block_special_case (tr_kfunc V f) (block_order f) = Ok pt ->
  wf (tr_kfunc V f) -> (condbr_same_block_special_case = false -> no_conflict (tr_kfunc V f)) ->
  NoDup (block_order f) -> (forall i, (i < List.length (tr_kfunc V f))%nat -> In i (block_order f)) ->
  forall fuel cur ed ei, Rel V ed ei -> run_src f fuel cur ed <> WStuck ->
  run_tgt (mkT (tr_bodies V f) (tr_kfunc V f) pt) fuel cur ei = run_src f fuel cur ed.
Proof. exact whole_sim. Qed.
Print Assumptions C23_whole_sim_general.
(* ... and for the LITERAL output of conv_func, executed by run_lit (phis as listed in each block): whenever that output
   is the block-wise translation itself (lit_matches: same instruction lists, terminators and phi entries -- i.e. no
   select had to be materialised for a double edge with differing operands; decided per generated case by
   coq/C23/Enc.v:lit_matchesb), the IR function conv_func produced computes what the dialect function computes *)
Theorem C23_conv_func_sim : forall f bs T, conv_func f = Ok bs -> tr_prog f = Ok T -> lit_matches bs T ->
  whole_okb f = true ->
  forall fuel inputs,
    let e0 := combine (map fst (d_args (nth 0 f ddflt))) inputs in
    run_src f fuel 0 e0 <> WStuck -> run_lit bs fuel 0 e0 = run_src f fuel 0 e0.
Proof. exact conv_func_sim. Qed.
Print Assumptions C23_conv_func_sim.
(* the same as TRANSLATION VALIDATION: both hypotheses are computable checks (lit_matchesb reflects lit_matches) *)
Theorem C23_conv_func_validated : forall f bs T, conv_func f = Ok bs -> tr_prog f = Ok T ->
  lit_matchesb bs T = true -> whole_okb f = true ->
  forall fuel inputs,
    let e0 := combine (map fst (d_args (nth 0 f ddflt))) inputs in
    run_src f fuel 0 e0 <> WStuck -> run_lit bs fuel 0 e0 = run_src f fuel 0 e0.
Proof. exact conv_func_validated. Qed.
Print Assumptions C23_conv_func_validated.
(* ... and for EVERY function of the fragment, the repaired same-successor cond_br included: the validator lit_okb
   also accepts bodies followed by materialised `select` instructions with fresh negative ids whose results are the
   phi entries standing for the kernel's `KSel c a b` (LitOK in C23/ProofsLit.v; lit_okb reflects it).  run_lit
   executes those selects as ordinary instructions.  (Here `select` reads its condition and only the chosen operand.) *)
Theorem C23_conv_func_validated_all : forall f bs T, conv_func f = Ok bs -> tr_prog f = Ok T ->
  lit_okb bs T = true -> whole_okb f = true ->
  forall fuel inputs,
    let e0 := combine (map fst (d_args (nth 0 f ddflt))) inputs in
    run_src f fuel 0 e0 <> WStuck -> run_lit bs fuel 0 e0 = run_src f fuel 0 e0.
Proof. exact conv_func_validated_all. Qed.
Print Assumptions C23_conv_func_validated_all.
Theorem C23_lit_sel_sim : forall bs T S, LitOK bs T S -> wf (t_k T) ->
  forall fuel cur el ea, Agree el ea -> run_tgt T fuel cur ea <> WStuck ->
  run_lit bs fuel cur el = run_tgt T fuel cur ea.
Proof. exact lit_sel_sim. Qed.
Print Assumptions C23_lit_sel_sim.
Theorem C23_lit_sim : forall bs T, lit_matches bs T -> wf (t_k T) ->
  forall fuel cur e, run_lit bs fuel cur e = run_tgt T fuel cur e.
Proof. exact lit_sim. Qed.
Print Assumptions C23_lit_sim.

(* one operation: the instruction conv_instr emits does to a related environment what the source op does *)
Theorem C23_instr_sim : forall V ed ei i p, V_id V -> Rel V ed ei -> def_ok V i -> conv_instr V i = Ok p ->
  instr_goal V ei (fst p) (exec_d ed i).
Proof. exact instr_sim. Qed.
Print Assumptions C23_instr_sim.

(* non-vacuity *)
Example C23_ex_whole_ok : whole_okb ex_func = true.
Proof. exact ex_func_ok. Qed.
Example C23_ex_whole_runs : exists T, tr_prog ex_func = Ok T /\
  run_src ex_func 10 0 (ex_env [100; 100; 1]) = WRet 101 /\ run_tgt T 10 0 (ex_env [100; 100; 1]) = WRet 101 /\
  run_src ex_func 10 0 (ex_env [5; 200; 0]) = WRet 201 /\ run_tgt T 10 0 (ex_env [5; 200; 0]) = WRet 201 /\
  run_src ex_func 10 0 (ex_env [127; 3; 1]) = WPoison /\ run_tgt T 10 0 (ex_env [127; 3; 1]) = WPoison /\
  run_src ex_func 3 0 (ex_env [1; 250; 1]) = WFuel /\ run_tgt T 3 0 (ex_env [1; 250; 1]) = WFuel.
Proof. exact ex_func_runs. Qed.

Example C23_ex_add_nsw_poison : sem_i Add (mkF true false false false false) 8 100 100 = None /\
                                 sem_i Add no_flags 8 100 100 = Some 200.
Proof. split; reflexivity. Qed.
Example C23_ex_sdiv : sem_i SDiv no_flags 8 156 3 = Some 223 /\ sem_d SDiv no_flags 8 156 3 = Some 223 /\
                      sem_i SDiv no_flags 8 128 255 = None.
Proof. repeat split; reflexivity. Qed.
Example C23_ex_icmp_negative_index_wraps : conv_icmp (-1) = Ok "uge"%string.
Proof. reflexivity. Qed.
Example C23_ex_no_conflict_satisfiable : wf multi_edge_same /\ no_conflict multi_edge_same /\
  exists pt, k_build false multi_edge_same (seq 0 2) = Ok pt /\
             c_run_phi multi_edge_same pt 3 0 [(10, 5); (11, 7); (12, 1)] = ORet 5.
Proof. exact no_conflict_satisfiable. Qed.
Example C23_ex_phi_multi_edge_fixed :
  exists pt, k_build true multi_edge (seq 0 2) = Ok pt /\
    c_run_phi multi_edge pt 3 0 [(10, 5); (11, 7); (12, 1)] = ORet 5 /\
    c_run_phi multi_edge pt 3 0 [(10, 5); (11, 7); (12, 0)] = ORet 7.
Proof. exact phi_multi_edge_fixed. Qed.
Example C23_ex_validator_accepts_selects :
  match conv_func ex_func, tr_prog ex_func with
  | Ok bs, Ok T => lit_okb bs T = true /\ lit_matchesb bs T = false /\ S_of bs T 0 = [(-1, 8, IVar 3, IVar 1, IVar 2)] /\
                   run_lit bs 10 0 (ex_env [5; 200; 0]) = WRet 201 /\ run_lit bs 10 0 (ex_env [127; 3; 1]) = WPoison
  | _, _ => False
  end.
Proof. vm_compute. repeat split; reflexivity. Qed.
