(* Props/C24.v -- property C24: dominance and post-order traversal match their
   graph definitions.  ONLY theorem statements closed by `exact`.
   Specs: `path`, `reachable`, `dom_spec` (top of C24/ProofsDom.v: every path from
   the entry 0 to b contains a) and `reach` (top of C24/ProofsPO.v). *)
From Coq Require Import List Arith.
From XV Require Import C24.Model C24.ProofsDom C24.ProofsPO.
Import ListNotations.

(* the `while changed` loop of DominanceInfo.__init__ terminates (fuel never exhausted) *)
Theorem C24_dominance_terminates : forall g, wf_cfg g -> exists d, dominance g = Some d.
Proof. exact dominance_terminates. Qed.
Print Assumptions C24_dominance_terminates.

(* A dominates reachable B exactly when every entry->B path passes through A,
   for every CFG (self-loops, multi-edges, unreachable blocks anywhere). *)
Theorem C24_dominates_iff : forall g d a b, wf_cfg g -> dominance g = Some d ->
  reachable g b -> a < length g -> (dominates d a b = true <-> dom_spec g a b).
Proof. exact dominates_iff. Qed.
Print Assumptions C24_dominates_iff.

Theorem C24_dominates_refl : forall g d b, wf_cfg g -> dominance g = Some d ->
  b < length g -> dominates d b b = true.
Proof. exact dominates_refl. Qed.
Print Assumptions C24_dominates_refl.

Theorem C24_strictly_dominates_iff : forall g d a b, wf_cfg g -> dominance g = Some d ->
  reachable g b -> a < length g ->
  (strictly_dominates d a b = true <-> (a <> b /\ dom_spec g a b)).
Proof. exact strictly_dominates_iff. Qed.
Print Assumptions C24_strictly_dominates_iff.

(* post-order: terminates; every reachable block exactly once, nothing else, entry last *)
Theorem C24_post_order_terminates : forall g, exists l, post_order g = Some l.
Proof. exact post_order_terminates. Qed.
Print Assumptions C24_post_order_terminates.

Theorem C24_post_order_spec : forall g l, post_order g = Some l ->
  NoDup l /\ (forall b, In b l <-> reach g b) /\ last l 0 = 0 /\ l <> [].
Proof. exact post_order_spec_general. Qed.
Print Assumptions C24_post_order_spec.

(* recorded refutations of the code before the two repairs (known_findings.json: fixed) *)
Theorem C24_dominance_old_refuted : exists g d a b,
  wf_cfg g /\ dominance_old g = Some d /\ reachable g b /\ dom_spec g a b /\ dominates d a b = false.
Proof. exact dominance_old_refuted. Qed.
Print Assumptions C24_dominance_old_refuted.

Theorem C24_post_order_old_refuted : exists g l,
  wf_cfg g /\ post_order_old g = Some l /\ ~ NoDup l.
Proof. exact post_order_old_refuted. Qed.
Print Assumptions C24_post_order_old_refuted.

(* non-vacuity: a diamond with a back edge, an unreachable block feeding the join *)
Example C24_nonvacuous :
  dominance [[1;2];[3];[3];[0;3];[3]] =
    Some [[true;false;false;false;false];[true;true;false;false;false];
          [true;false;true;false;false];[true;false;false;true;false];
          [true;true;true;true;true]]
  /\ post_order [[1;2];[3];[3];[0;3];[3]] = Some [3;1;2;0].
Proof. vm_compute. split; reflexivity. Qed.
