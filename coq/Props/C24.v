(* Props/C24.v -- temporary: filled when C24/ProofsDom.v and ProofsPO.v land *)
From Coq Require Import List Arith.
From XV Require Import C24.Model.
Import ListNotations.
Example C24_nonvacuous_diamond :
  dominance [[1;2];[3];[3];[]] =
  Some [[true;false;false;false];[true;true;false;false];[true;false;true;false];[true;false;false;true]].
Proof. vm_compute. reflexivity. Qed.
