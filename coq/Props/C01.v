(* Props/C01.v -- property C01: IR edits keep the op/block/region tree and the use-def chains
   consistent.  ONLY theorem statements closed by `exact` (+ Print Assumptions).

   `WF` (C01/Spec.v) is the property's statement on the model heap.  `step`/`run` (C01/Model.v)
   are the modelled public API calls (55 constructors of `call`).

   PROVED (WF-preservation of a non-raising call, for every state and every argument; 46 of the 55
   constructors = `proved_call`, assembled in C01_step_preserves / C01_history):
     creation      Operation.create, Block(ops, arg_types), Region(blocks), Builder.create_block
     use lists     Operation.operands setter, Operation.successors setter, OpOperands.__setitem__,
                   OpSuccessors.__setitem__ (any index; code after fix f198beb), SSAValue.replace_all_uses_with,
                   replace_uses_with_if, SSAValue.erase, PatternRewriter.replace_all_uses_with / replace_uses_with_if
                   (IRWithUses.add_use / remove_use as pointer lemmas against the invariant Uabs)
     block args    Block.insert_arg, Block.erase_arg, PatternRewriter.insert_block_argument / erase_block_argument,
                   Rewriter.replace_value_with_new_type (PatternRewriter.replace_value_with_new_type)
     ops in blocks Block.insert_op_after, insert_op_before, add_op, add_ops, insert_ops_before, insert_ops_after,
                   detach_op, Operation.detach, Rewriter.insert_op (and PatternRewriter.insert)
     blocks in regions  Region.add_block, insert_block_before, insert_block_after, insert_block (lists of any
                   length), Rewriter.insert_block, Region.detach_block (block or index), Region.move_blocks,
                   move_blocks_before, Rewriter.inline_region, Rewriter.move_region_contents_to_new_regions
     regions in ops Operation.add_region, detach_region (region or index; code after fix 9351131)
     erase         Operation.erase, Block.erase_op, Rewriter.erase_op (PatternRewriter.erase): for an operation
                   without regions, and for an operation with an arbitrary nested tree of regions under the
                   hypothesis that every node of that tree (the nodes the erase marks) is live (`tree_live`;
                   for Block.erase_op / Rewriter.erase_op stated on the state after the detach)
     replace       Rewriter.replace_op, PatternRewriter.replace (replace_op / replace_matched_op) -- ONLY for a
                   replaced operation WITHOUT regions (hypothesis in args_live)
   Each constructor carries the liveness precondition `args_live` ("erased objects are not used again").
   The history theorem carries the invariant Inv = WF /\ parents_ok; parents_ok (parent pointers of live
   nodes name allocated ids) is an auxiliary fact needed by the creation calls.

   NOT PROVED (9 constructors; covered only by the lock-step correspondence with the real code +
   evaluation of the proved-sound checker wf_b on the model after every call of every generated history):
     Block.erase, Region.erase_block (block / index), Region.erase,
     public drop_all_references (op / block / region), Block.split_before, Rewriter.inline_block;
     also replace_op / PatternRewriter.replace of an operation WITH regions. *)
From Coq Require Import ZArith List Bool PArith FMapPositive.
From XV Require Import C01.Model C01.Spec C01.ProofsWfb C01.ProofsFrame C01.ProofsUses C01.ProofsOperands
  C01.ProofsRauw C01.ProofsSetOperands C01.ProofsSetSuccessors C01.ProofsDll C01.ProofsOps C01.ProofsBlocks
  C01.ProofsOpRegions C01.ProofsMove C01.ProofsOpLists C01.ProofsBlockLists C01.ProofsArgs C01.ProofsCreate C01.ProofsInv C01.ProofsErase C01.ProofsReplaceType C01.ProofsReplaceOp C01.ProofsHistory C01.ProofsDemo.
Import ListNotations.
Local Open Scope Z_scope.

(* the boolean checker evaluated by the harness on model states is sound for WF *)
Theorem C01_wf_b_sound : forall s, wf_b s = true -> WF s.
Proof. exact wf_b_sound. Qed.
Print Assumptions C01_wf_b_sound.

(* the empty heap is well formed *)
Theorem C01_wf_init : WF empty_state.
Proof. exact empty_WF. Qed.
Print Assumptions C01_wf_init.

(* IRWithUses.remove_use / add_use: pure pointer lemmas against the use-list invariant Uabs
   relative to an abstract slot relation S (ProofsUses.v) *)
Theorem C01_remove_use_preserves : forall s s' S h o i u r,
  Uabs s S -> S h o i u -> remove_use h u s = (s', Ok r) ->
  Uabs s' (minus_use S u) /\ s_ops s' = s_ops s /\ (forall x, use_info s' x = use_info s x).
Proof. exact remove_use_Uabs. Qed.
Print Assumptions C01_remove_use_preserves.

Theorem C01_add_use_preserves : forall s s' S h o i u r,
  Uabs s S -> (forall h' o' i', ~ S h' o' i' u) -> use_info s u = Some (o, i) ->
  add_use h u s = (s', Ok r) ->
  Uabs s' (plus_use S h o i u) /\ s_ops s' = s_ops s /\ (forall x, use_info s' x = use_info s x).
Proof. exact add_use_Uabs. Qed.
Print Assumptions C01_add_use_preserves.

(* the five use clauses of WF are exactly Uabs for the slots of the live ops *)
Theorem C01_use_clauses_iff : forall s,
  (WF_vuses s /\ WF_buses s /\ WF_operands s /\ WF_successors s /\ WF_disjoint s) <->
  (Uabs s (real_slot s) /\ lens_ok s).
Proof. exact use_clauses_iff. Qed.
Print Assumptions C01_use_clauses_iff.

(* one theorem per proved mutator *)
Theorem C01_operands_setitem_preserves : forall s s' o idx v r,
  WF s -> op_live s o -> operands_setitem o idx v s = (s', Ok r) -> WF s'.
Proof. exact operands_setitem_WF. Qed.
Print Assumptions C01_operands_setitem_preserves.

Theorem C01_set_operands_preserves : forall s s' o new r,
  WF s -> op_live s o -> set_operands o new s = (s', Ok r) -> WF s'.
Proof. exact set_operands_WF. Qed.
Print Assumptions C01_set_operands_preserves.

Theorem C01_successors_setitem_preserves : forall s s' o idx b r,
  WF s -> op_live s o -> successors_setitem o idx b s = (s', Ok r) -> WF s'.
Proof. exact successors_setitem_WF. Qed.
Print Assumptions C01_successors_setitem_preserves.

Theorem C01_replace_all_uses_with_preserves : forall s s' v w r,
  WF s -> replace_all_uses_with v w s = (s', Ok r) -> WF s'.
Proof. exact replace_all_uses_with_WF. Qed.
Print Assumptions C01_replace_all_uses_with_preserves.

Theorem C01_replace_uses_with_if_preserves : forall s s' v w sel r,
  WF s -> replace_uses_with_if v w sel s = (s', Ok r) -> WF s'.
Proof. exact replace_uses_with_if_WF. Qed.
Print Assumptions C01_replace_uses_with_if_preserves.

Theorem C01_value_erase_preserves : forall s s' v safe r,
  WF s -> value_erase v safe s = (s', Ok r) -> WF s'.
Proof. exact value_erase_WF. Qed.
Print Assumptions C01_value_erase_preserves.

Theorem C01_pr_replace_all_uses_with_preserves : forall s s' v w safe r,
  WF s -> pr_replace_all_uses_with v w safe s = (s', Ok r) -> WF s'.
Proof. exact pr_replace_all_uses_with_WF. Qed.
Print Assumptions C01_pr_replace_all_uses_with_preserves.

Theorem C01_insert_op_after_preserves : forall s s' b new ex r,
  WF s -> blk_live s b -> op_live s ex -> insert_op_after b new ex s = (s', Ok r) -> WF s'.
Proof. exact insert_op_after_WF. Qed.
Print Assumptions C01_insert_op_after_preserves.

Theorem C01_insert_op_before_preserves : forall s s' b new ex r,
  WF s -> blk_live s b -> op_live s ex -> insert_op_before b new ex s = (s', Ok r) -> WF s'.
Proof. exact insert_op_before_WF. Qed.
Print Assumptions C01_insert_op_before_preserves.

Theorem C01_add_op_preserves : forall s s' b o r,
  WF s -> blk_live s b -> op_live s o -> add_op b o s = (s', Ok r) -> WF s'.
Proof. exact add_op_WF. Qed.
Print Assumptions C01_add_op_preserves.

Theorem C01_detach_op_preserves : forall s s' b o r,
  WF s -> blk_live s b -> op_live s o -> detach_op b o s = (s', Ok r) -> WF s'.
Proof. exact detach_op_WF. Qed.
Print Assumptions C01_detach_op_preserves.

Theorem C01_detach_block_preserves : forall s s' r b res,
  WF s -> reg_live s r -> blk_live s b -> detach_block r b s = (s', Ok res) -> WF s'.
Proof. exact detach_block_WF. Qed.
Print Assumptions C01_detach_block_preserves.

Theorem C01_detach_block_idx_preserves : forall s s' r idx res,
  WF s -> reg_live s r -> detach_block_idx r idx s = (s', Ok res) -> WF s'.
Proof. exact detach_block_idx_WF. Qed.
Print Assumptions C01_detach_block_idx_preserves.

(* the block-list insertions are proved for a single block (Region.add_block(b),
   Region.insert_block_before(b, target), Rewriter.insert_block(b, point)) *)
Theorem C01_add_block_single_preserves : forall s s' r b res,
  WF s -> reg_live s r -> blk_live s b -> add_block r [b] s = (s', Ok res) -> WF s'.
Proof. exact add_block1_WF. Qed.
Print Assumptions C01_add_block_single_preserves.

Theorem C01_insert_block_before_single_preserves : forall s s' r b target res,
  WF s -> reg_live s r -> blk_live s b -> blk_live s target ->
  insert_block_before r [b] target s = (s', Ok res) -> WF s'.
Proof. exact insert_block_before1_WF. Qed.
Print Assumptions C01_insert_block_before_single_preserves.

Theorem C01_set_successors_preserves : forall s s' o new r,
  WF s -> op_live s o -> set_successors o new s = (s', Ok r) -> WF s'.
Proof. exact set_successors_WF. Qed.
Print Assumptions C01_set_successors_preserves.

Theorem C01_add_region_preserves : forall s s' o r res,
  WF s -> add_region o r s = (s', Ok res) -> WF s'.
Proof. exact add_region_WF_gen. Qed.
Print Assumptions C01_add_region_preserves.

Theorem C01_detach_region_preserves : forall s s' o r res,
  WF s -> detach_region o r s = (s', Ok res) -> WF s'.
Proof. exact detach_region_WF_gen. Qed.
Print Assumptions C01_detach_region_preserves.

Theorem C01_detach_region_idx_preserves : forall s s' o idx res,
  WF s -> op_live s o -> detach_region_idx o idx s = (s', Ok res) -> WF s'.
Proof. exact detach_region_idx_WF. Qed.
Print Assumptions C01_detach_region_idx_preserves.

Theorem C01_move_blocks_preserves : forall s s' self region r,
  WF s -> reg_live s self -> reg_live s region -> move_blocks self region s = (s', Ok r) -> WF s'.
Proof. exact move_blocks_WF. Qed.
Print Assumptions C01_move_blocks_preserves.

Theorem C01_move_blocks_before_preserves : forall s s' self target region tx r,
  WF s -> reg_live s self ->
  PM.find target (s_blocks s) = Some tx -> b_erased tx = false -> b_parent tx = Some region -> reg_live s region ->
  move_blocks_before self target s = (s', Ok r) -> WF s'.
Proof. exact move_blocks_before_WF. Qed.
Print Assumptions C01_move_blocks_before_preserves.

Theorem C01_add_ops_preserves : forall ops s s' b r,
  WF s -> blk_live s b -> (forall o, In o ops -> op_live s o) -> add_ops b ops s = (s', Ok r) -> WF s'.
Proof. exact add_ops_WF. Qed.
Print Assumptions C01_add_ops_preserves.

Theorem C01_insert_ops_before_preserves : forall ops s s' b ex r,
  WF s -> blk_live s b -> op_live s ex -> insert_ops_before b ops ex s = (s', Ok r) -> WF s'.
Proof. exact insert_ops_before_WF. Qed.
Print Assumptions C01_insert_ops_before_preserves.

Theorem C01_insert_ops_after_preserves : forall ops s s' b ex r,
  WF s -> blk_live s b -> op_live s ex -> (forall o, In o ops -> op_live s o) ->
  insert_ops_after b ops ex s = (s', Ok r) -> WF s'.
Proof. exact insert_ops_after_WF. Qed.
Print Assumptions C01_insert_ops_after_preserves.

Theorem C01_rw_insert_op_preserves : forall ops s s' b ib r,
  WF s -> blk_live s b -> (forall o, In o ops -> op_live s o) -> (forall e, ib = Some e -> op_live s e) ->
  rw_insert_op ops b ib s = (s', Ok r) -> WF s'.
Proof. exact rw_insert_op_WF. Qed.
Print Assumptions C01_rw_insert_op_preserves.

(* block lists of any length *)
Theorem C01_add_block_preserves : forall blocks s s' r res,
  WF s -> reg_live s r -> (forall b, In b blocks -> blk_live s b) -> add_block r blocks s = (s', Ok res) -> WF s'.
Proof. exact add_block_WF. Qed.
Print Assumptions C01_add_block_preserves.

Theorem C01_insert_block_before_preserves : forall blocks s s' r target res,
  WF s -> reg_live s r -> blk_live s target -> (forall b, In b blocks -> blk_live s b) ->
  insert_block_before r blocks target s = (s', Ok res) -> WF s'.
Proof. exact insert_block_before_WF. Qed.
Print Assumptions C01_insert_block_before_preserves.

Theorem C01_insert_block_after_preserves : forall blocks s s' r target res,
  WF s -> reg_live s r -> blk_live s target ->
  (forall tr r', PM.find target (s_blocks s) = Some tr -> b_parent tr = Some r' -> reg_live s r') ->
  (forall b, In b blocks -> blk_live s b) ->
  insert_block_after r blocks target s = (s', Ok res) -> WF s'.
Proof. exact insert_block_after_WF. Qed.
Print Assumptions C01_insert_block_after_preserves.

Theorem C01_insert_block_preserves : forall blocks s s' r index res,
  WF s -> reg_live s r -> (forall b, In b blocks -> blk_live s b) -> insert_block r blocks index s = (s', Ok res) -> WF s'.
Proof. exact insert_block_WF. Qed.
Print Assumptions C01_insert_block_preserves.

Theorem C01_rw_insert_block_preserves : forall blocks s s' r ib res,
  WF s -> reg_live s r -> (forall b, In b blocks -> blk_live s b) -> (forall t, ib = Some t -> blk_live s t) ->
  rw_insert_block blocks r ib s = (s', Ok res) -> WF s'.
Proof. exact rw_insert_block_WF. Qed.
Print Assumptions C01_rw_insert_block_preserves.

Theorem C01_insert_arg_preserves : forall s s' b index v,
  WF s -> blk_live s b -> insert_arg b index s = (s', Ok v) -> WF s'.
Proof. exact insert_arg_WF. Qed.
Print Assumptions C01_insert_arg_preserves.

(* erasing an argument that has already been erased removes a different argument: val_live is needed *)
Theorem C01_erase_arg_preserves : forall s s' b arg safe r,
  WF s -> blk_live s b -> val_live s arg -> erase_arg b arg safe s = (s', Ok r) -> WF s'.
Proof. exact erase_arg_WF. Qed.
Print Assumptions C01_erase_arg_preserves.

Theorem C01_pr_erase_block_argument_preserves : forall s s' arg safe r,
  WF s -> val_live s arg ->
  (forall vr b i, PM.find arg (s_values s) = Some vr -> v_kind vr = KArg b i -> blk_live s b) ->
  pr_erase_block_argument arg safe s = (s', Ok r) -> WF s'.
Proof. exact pr_erase_block_argument_WF. Qed.
Print Assumptions C01_pr_erase_block_argument_preserves.

Theorem C01_replace_value_with_new_type_preserves : forall s s' val v,
  WF s -> val_live s val -> rw_replace_value_with_new_type val s = (s', Ok v) -> WF s'.
Proof. exact rw_replace_value_with_new_type_WF. Qed.
Print Assumptions C01_replace_value_with_new_type_preserves.

(* successful erase of an operation WITHOUT regions (detach + drop_all_references + erase of every result) *)
Theorem C01_op_erase_noregions_preserves : forall s s' o x safe r,
  WF s -> PM.find o (s_ops s) = Some x -> o_erased x = false -> o_regions x = [] ->
  op_erase o safe true s = (s', Ok r) -> WF s'.
Proof. exact op_erase_noregions_WF. Qed.
Print Assumptions C01_op_erase_noregions_preserves.

Theorem C01_erase_op_noregions_preserves : forall s s' b o x safe r,
  WF s -> blk_live s b -> PM.find o (s_ops s) = Some x -> o_erased x = false -> o_regions x = [] ->
  erase_op b o safe s = (s', Ok r) -> WF s'.
Proof. exact erase_op_noregions_WF. Qed.
Print Assumptions C01_erase_op_noregions_preserves.

Theorem C01_rw_erase_op_noregions_preserves : forall s s' o x safe r,
  WF s -> PM.find o (s_ops s) = Some x -> o_erased x = false -> o_regions x = [] ->
  (forall b, o_parent x = Some b -> blk_live s b) ->
  rw_erase_op o safe s = (s', Ok r) -> WF s'.
Proof. exact rw_erase_op_noregions_WF. Qed.
Print Assumptions C01_rw_erase_op_noregions_preserves.

(* successful erase of an operation WITH an arbitrary nested tree of regions: every node collected by
   the erase walk (collect_op: the nodes the erase marks erased) must be live *)
Theorem C01_op_erase_tree_preserves : forall s s' o safe r,
  WF s -> all_live s (collect_op (fuel_of s) s o) -> op_erase o safe true s = (s', Ok r) -> WF s'.
Proof. exact op_erase_tree_WF. Qed.
Print Assumptions C01_op_erase_tree_preserves.

Theorem C01_erase_op_tree_preserves : forall s s' b o safe r,
  WF s -> blk_live s b -> op_live s o ->
  (forall s1 r1, detach_op b o s = (s1, Ok r1) -> all_live s1 (collect_op (fuel_of s1) s1 o)) ->
  erase_op b o safe s = (s', Ok r) -> WF s'.
Proof. exact erase_op_tree_WF. Qed.
Print Assumptions C01_erase_op_tree_preserves.

Theorem C01_rw_erase_op_tree_preserves : forall s s' o safe r,
  WF s -> op_live s o ->
  (forall x b, PM.find o (s_ops s) = Some x -> o_parent x = Some b ->
     blk_live s b /\ forall s1 r1, detach_op b o s = (s1, Ok r1) -> all_live s1 (collect_op (fuel_of s1) s1 o)) ->
  (forall x, PM.find o (s_ops s) = Some x -> o_parent x = None -> all_live s (collect_op (fuel_of s) s o)) ->
  rw_erase_op o safe s = (s', Ok r) -> WF s'.
Proof. exact rw_erase_op_tree_WF. Qed.
Print Assumptions C01_rw_erase_op_tree_preserves.

(* Rewriter.replace_op / PatternRewriter.replace of an operation WITHOUT regions by new operations and
   new results (insert the new ops, replace the results' uses, erase the old op) *)
Theorem C01_replace_op_preserves : forall s s' o new_ops new_results safe r,
  WF s -> parents_ok s -> op_noreg s o ->
  (forall x b, PM.find o (s_ops s) = Some x -> o_parent x = Some b -> blk_live s b) ->
  (forall n, In n new_ops -> op_live s n) ->
  rw_replace_op o new_ops new_results safe s = (s', Ok r) -> WF s' /\ parents_ok s'.
Proof. exact rw_replace_op_inv. Qed.
Print Assumptions C01_replace_op_preserves.

Theorem C01_pr_replace_preserves : forall s s' o new_ops new_results safe r,
  WF s -> parents_ok s -> op_noreg s o ->
  (forall x b, PM.find o (s_ops s) = Some x -> o_parent x = Some b -> blk_live s b) ->
  (forall n, In n new_ops -> op_live s n) ->
  pr_replace o new_ops new_results safe s = (s', Ok r) -> WF s' /\ parents_ok s'.
Proof. exact pr_replace_inv. Qed.
Print Assumptions C01_pr_replace_preserves.

(* creation.  WF alone does not exclude a live node whose parent field names an id that is not
   allocated yet; the creation calls therefore need the auxiliary invariant `parents_ok` (parent
   pointers of live nodes are below the allocation counters), which every proved call preserves *)
Theorem C01_block_new_preserves : forall s s' ops nargs b,
  WF s -> parents_ok s -> (forall o, In o ops -> op_live s o) ->
  block_new ops nargs s = (s', Ok b) -> WF s' /\ parents_ok s'.
Proof. exact block_new_inv. Qed.
Print Assumptions C01_block_new_preserves.

Theorem C01_region_new_preserves : forall s s' blocks r,
  WF s -> parents_ok s -> (forall b, In b blocks -> blk_live s b) ->
  region_new blocks s = (s', Ok r) -> WF s' /\ parents_ok s'.
Proof. exact region_new_inv. Qed.
Print Assumptions C01_region_new_preserves.

Theorem C01_op_create_preserves : forall s s' operands nres succs regions o,
  WF s -> parents_ok s -> op_create operands nres succs regions s = (s', Ok o) -> WF s' /\ parents_ok s'.
Proof. exact op_create_inv. Qed.
Print Assumptions C01_op_create_preserves.

(* the invariant carried through histories, and its initial validity *)
Theorem C01_inv_init : Inv empty_state.
Proof. exact empty_Inv. Qed.
Print Assumptions C01_inv_init.

(* every proved call constructor, as a step of the API machine (Inv s = WF s /\ parents_ok s) *)
Theorem C01_step_preserves : forall s c p,
  Inv s -> proved_call c = true -> args_live s c -> snd (step s c) = Ok p -> Inv (fst (step s c)).
Proof. exact step_preserves. Qed.
Print Assumptions C01_step_preserves.

(* histories: every finite sequence of proved calls on live arguments none of which raises keeps
   the invariant, hence WF; in particular from the empty heap (creation calls included) *)
Theorem C01_history : forall cs s, Inv s -> clean s cs -> Inv (run cs s).
Proof. exact history_preserves. Qed.
Print Assumptions C01_history.

Theorem C01_history_from_empty : forall cs, clean empty_state cs -> WF (run cs empty_state).
Proof. exact history_from_empty. Qed.
Print Assumptions C01_history_from_empty.

(* recorded refutations of the code BEFORE the two repairs (known_findings.d/C01.json: fixed) *)
Theorem C01_setitem_negative_old_refuted :
  WF w_setitem /\ op_live w_setitem 1%positive /\
  snd (operands_setitem_old 1%positive (-1) 1%positive w_setitem) = Ok tt /\
  ~ WF (fst (operands_setitem_old 1%positive (-1) 1%positive w_setitem)).
Proof. exact setitem_negative_old_refuted. Qed.
Print Assumptions C01_setitem_negative_old_refuted.

Theorem C01_detach_region_negative_old_refuted :
  WF w_detach_region /\ op_live w_detach_region 1%positive /\
  snd (detach_region_idx_old 1%positive (-1) w_detach_region) = Ok 2%positive /\
  ~ WF (fst (detach_region_idx_old 1%positive (-1) w_detach_region)).
Proof. exact detach_region_negative_old_refuted. Qed.
Print Assumptions C01_detach_region_negative_old_refuted.

(* raising calls that leave a partial mutation behind (known findings C01-kf-4, -5, -6):
   "calls that raise are skipped" is refuted for these shapes *)
Theorem C01_raise_add_block_refuted :
  WF w_add_block /\ snd (step w_add_block (CAddBlock 2%positive [1%positive; 2%positive])) = Raise ValueError /\
  ~ WF (fst (step w_add_block (CAddBlock 2%positive [1%positive; 2%positive]))).
Proof. exact raise_add_block_refuted. Qed.
Print Assumptions C01_raise_add_block_refuted.

Theorem C01_raise_erase_refuted :
  WF w_erase /\ snd (step w_erase (COpErase 2%positive true)) = Raise ValueError /\
  ~ WF (fst (step w_erase (COpErase 2%positive true))).
Proof. exact raise_erase_refuted. Qed.
Print Assumptions C01_raise_erase_refuted.

Theorem C01_raise_erase_arg_refuted :
  WF w_erase_arg /\ snd (step w_erase_arg (CEraseArg 1%positive 1%positive true)) = Raise ValueError /\
  ~ WF (fst (step w_erase_arg (CEraseArg 1%positive 1%positive true))).
Proof. exact raise_erase_arg_refuted. Qed.
Print Assumptions C01_raise_erase_arg_refuted.

(* non-vacuity: a 3-block, 7-op, multi-use state satisfies WF; a 12-call history over many
   constructors runs on it without raising, every intermediate state passing wf_b; and the
   hypothesis `clean` of C01_history is satisfiable by a 9-call history *)
Theorem C01_nonvacuous :
  WF demo_state /\ all_ok demo_history demo_state = true /\ WF (run demo_history demo_state).
Proof. exact demo_nonvacuous. Qed.
Print Assumptions C01_nonvacuous.

Theorem C01_history_hypothesis_satisfiable : clean demo_state demo_clean.
Proof. exact demo_clean_ok. Qed.
Print Assumptions C01_history_hypothesis_satisfiable.

(* 27 calls (18 creation/insertion calls building the demo state + 9 edits) form a clean history
   from the empty heap *)
Theorem C01_history_from_empty_satisfiable : clean empty_state (demo_build ++ demo_clean).
Proof. exact demo_from_empty_ok. Qed.
Print Assumptions C01_history_from_empty_satisfiable.

(* the tree version of the erase theorem is not vacuous: a 5-call clean history from the empty heap
   that erases an operation holding a region with a block (one argument) and a nested operation *)
Theorem C01_erase_tree_satisfiable : clean empty_state demo_tree /\ wf_b (run demo_tree empty_state) = true.
Proof. exact demo_tree_ok. Qed.
Print Assumptions C01_erase_tree_satisfiable.

Example C01_setitem_negative_fixed :
  snd (operands_setitem 1%positive (-1) 1%positive w_setitem) = Ok tt /\
  wf_b (fst (operands_setitem 1%positive (-1) 1%positive w_setitem)) = true.
Proof. exact setitem_negative_fixed_witness. Qed.
Print Assumptions C01_setitem_negative_fixed.
