(* Props/C10.v -- property C10: IRDL operation verification matches the operation definition.
   ONLY theorem statements closed by `exact` (+ Examples by vm_compute).
   Spec (top of C10/Proofs.v): size_ok / same_sizes / segmentation / split_sizes / shape / norm;
   (C10/ProofsVerify.v): sat / all_sat / arg_pairs / region_pairs / named_pairs / single_ok /
   present_ok / seg_for / op_valid; preconditions attr_disciplined / same_nonvacuous / consistent.
   Model (C10/Model.v): verify_variadic_size, acc_index, irdl_op_arg_definition,
   irdl_build_arg_list, init_option, opdef_verify, irdl_op_init.
   `version` (Model.v) says which of the two proposed repairs the modelled code contains:
   v_pinned = neither (the pinned tree), v_repaired = both.  The harness selects the version by
   running the real code on the two known-finding witnesses and the correspondence check validates
   the selected variant; every theorem below is stated for the versions it holds for. *)
From Coq Require Import ZArith List Bool.
From XV Require Import C10.Model C10.Proofs C10.ProofsAcc C10.ProofsVerify.
Import ListNotations.
Local Open Scope Z_scope.

(* ---- segment sizes: no option / SameVariadic*Size  (every version) ------------------------
   For every definition list for which the class can be defined, every argument count: the size
   verification accepts exactly when the list can be split into the declared segments. *)
Theorem C10_verify_sizes_iff : forall v opt defs n attr,
  opt <> AttrSized -> well_defined v opt defs ->
  (verify_variadic_size v opt defs n attr = Ok tt <-> exists sizes, segmentation opt defs n sizes).
Proof. exact verify_sizes_iff. Qed.
Print Assumptions C10_verify_sizes_iff.

(* ... and that split is unique (so the accessors have no choice) *)
Theorem C10_segmentation_unique : forall v opt defs n s1 s2,
  opt <> AttrSized -> well_defined v opt defs ->
  segmentation opt defs n s1 -> segmentation opt defs n s2 -> s1 = s2.
Proof. exact segmentation_unique. Qed.
Print Assumptions C10_segmentation_unique.

(* ---- segment sizes: AttrSized*Segments --------------------------------------------------
   REFUTED on the faithful model of the pinned code (fix_attr_sum = false): the sum of the sizes is
   never compared with the number of arguments, and negative sizes of variadic definitions are
   accepted. *)
Theorem C10_verify_sizes_attr_refuted : forall v, fix_attr_sum v = false -> exists defs n sizes,
  verify_variadic_size v AttrSized defs n (Dense true sizes) = Ok tt /\
  ~ segmentation AttrSized defs n sizes.
Proof. exact attr_size_refuted_sum. Qed.
Print Assumptions C10_verify_sizes_attr_refuted.

Theorem C10_verify_sizes_attr_refuted_negative : forall v, fix_attr_sum v = false ->
  exists defs n sizes,
  verify_variadic_size v AttrSized defs n (Dense true sizes) = Ok tt /\ zsum sizes = n /\
  ~ segmentation AttrSized defs n sizes.
Proof. exact attr_size_refuted_negative. Qed.
Print Assumptions C10_verify_sizes_attr_refuted_negative.

(* what the attr-sized path checks, exactly (size_chk false = nothing about variadic sizes;
   nothing about n unless repaired) *)
Theorem C10_verify_sizes_attr_exact : forall fx defs attr n,
  verify_variadic_attr_size fx attr defs n = Ok tt <->
  exists sizes, attr = Dense true sizes /\ Forall2 (size_chk fx) defs sizes /\
                (fx = true -> zsum sizes = n).
Proof. exact attr_size_exact. Qed.
Print Assumptions C10_verify_sizes_attr_exact.

(* PARTIAL (every version): with the two missing conditions as hypotheses the statement holds;
   every valid operation is accepted unconditionally *)
Theorem C10_verify_sizes_attr_partial : forall v defs n sizes,
  Forall (fun s => 0 <= s) sizes -> zsum sizes = n ->
  (verify_variadic_size v AttrSized defs n (Dense true sizes) = Ok tt <->
   segmentation AttrSized defs n sizes).
Proof. exact attr_size_iff_partial. Qed.
Print Assumptions C10_verify_sizes_attr_partial.

Theorem C10_verify_sizes_attr_complete : forall v defs n sizes,
  segmentation AttrSized defs n sizes ->
  verify_variadic_size v AttrSized defs n (Dense true sizes) = Ok tt.
Proof. exact attr_size_complete. Qed.
Print Assumptions C10_verify_sizes_attr_complete.

(* FULL statement for the repaired code (C10-1.diff: reject negative sizes, compare the sum) *)
Theorem C10_verify_sizes_attr_repaired_iff : forall defs attr n,
  verify_variadic_attr_size true attr defs n = Ok tt <->
  exists sizes, attr = Dense true sizes /\ segmentation AttrSized defs n sizes.
Proof. exact attr_size_repaired_iff. Qed.
Print Assumptions C10_verify_sizes_attr_repaired_iff.

(* ---- accessors --------------------------------------------------------------------------
   Whenever `sizes` is a segmentation of the argument list (for attr-sized: the recorded one),
   the i-th generated accessor returns exactly the i-th segment, in the shape of its definition
   (one value / None-or-value / sequence); the segments concatenate to the argument list and have
   the declared sizes.  Python negative indices and slice clamping are part of the model.
   same_nonvacuous v opt defs := opt = SameSize -> fix_same_novar v = false -> 0 < num_variadics defs
   (a hypothesis for the pinned code only; vacuous after C10-2.diff). *)
Theorem C10_accessors : forall T v opt defs accs attr (args : list T) sizes,
  irdl_op_arg_definition v opt defs = Ok accs ->
  segmentation opt defs (len args) sizes ->
  (opt = AttrSized -> exists b, attr = Dense b sizes) ->
  same_nonvacuous v opt defs ->
  map (fun a => acc_index a attr args) accs
  = map (fun p => Ok (shape (fst p) (snd p))) (combine defs (split_sizes sizes args)).
Proof. exact accessors_spec. Qed.
Print Assumptions C10_accessors.

Theorem C10_accessors_partition : forall T opt defs (args : list T) sizes,
  segmentation opt defs (len args) sizes ->
  concat (split_sizes sizes args) = args /\ map len (split_sizes sizes args) = sizes.
Proof. exact accessors_partition. Qed.
Print Assumptions C10_accessors_partition.

(* REFUTED for the pinned code: (1) an attr-sized operation that verifies but whose accessor
   results do not partition the operands; (2) SameVariadic*Size on a construct without any variadic
   definition: the operation is valid, every accessor (hence verification) raises ZeroDivisionError *)
Theorem C10_accessors_attr_refuted : forall v, fix_attr_sum v = false ->
  exists defs sizes accs (args : list Z),
  irdl_op_arg_definition v AttrSized defs = Ok accs /\
  verify_variadic_size v AttrSized defs (len args) (Dense true sizes) = Ok tt /\
  concat (map (fun r => match r with Ok a => accres_list a | Raise _ => [] end)
              (map (fun a => acc_index a (Dense true sizes) args) accs)) <> args.
Proof. exact attr_accessors_refuted. Qed.
Print Assumptions C10_accessors_attr_refuted.

Theorem C10_same_size_no_variadic_refuted : forall v, fix_same_novar v = false ->
  exists defs accs (args : list Z) sizes,
  irdl_op_arg_definition v SameSize defs = Ok accs /\
  segmentation SameSize defs (len args) sizes /\
  map (fun a => acc_index a Missing args) accs
  = [Raise ZeroDivisionError; Raise ZeroDivisionError].
Proof. exact same_size_no_variadic_refuted. Qed.
Print Assumptions C10_same_size_no_variadic_refuted.

(* ---- the generated constructor (one list) -----------------------------------------------
   If irdl_build_arg_list and the option handling of irdl_op_init succeed, the flattened list
   with the recorded sizes is a segmentation, size verification accepts it, and the accessors
   return the constructor's arguments (None -> nothing, a value -> itself, a sequence -> itself). *)
Theorem C10_built_construct_verifies :
  forall T v opt defs (args : list (barg T)) flat sizes given attr accs,
  irdl_build_arg_list defs args = Ok (flat, sizes) ->
  init_option opt defs sizes given = Ok attr ->
  irdl_op_arg_definition v opt defs = Ok accs ->
  same_nonvacuous v opt defs ->
  segmentation opt defs (len flat) sizes /\
  (opt = AttrSized -> attr = Dense true sizes) /\
  verify_variadic_size v opt defs (len flat) attr = Ok tt /\
  map (fun a => acc_index a attr flat) accs
  = map (fun p => Ok (shape (fst p) (snd p))) (combine defs (map norm args)).
Proof. exact built_construct_verifies. Qed.
Print Assumptions C10_built_construct_verifies.

(* ---- OpDef.verify as a whole ------------------------------------------------------------
   Threading the ConstraintContext through all checks is the same as the existence of ONE
   assignment of the constraint variables satisfying every (constraint, value) pair.
   The value universe A holds attributes AND ints (of_int / as_int in Model.v), the keys of the
   assignment cover attribute variables (VarConstraint) AND integer variables (IntVarConstraint:
   segment lengths through RangeOf(..).of_length(..), IntAttr payloads through IntAttr.constr(..));
   a variable is bound on its first occurrence -- whatever the value, 0 included -- and compared on
   every later one. *)
Theorem C10_constraint_threading_iff :
  forall A A_eqb, (forall a b : A, A_eqb a b = true <-> a = b) ->
  forall base ps, consistent A base (map fst ps) ->
  ((exists ctx', verify_pairs A A_eqb ps [] = Ok ctx') <-> exists sg, all_sat A sg ps).
Proof. exact verify_pairs_iff. Qed.
Print Assumptions C10_constraint_threading_iff.

(* OpDef.verify accepts exactly the valid operations (op_valid: the four lists split into the
   declared segments, single-block regions, required properties/attributes present, no undeclared
   property, and all pieces, segment LENGTHS, properties and attributes satisfy their constraints
   under one assignment of the attribute and integer variables: op_pairs lists, for a
   variadic/optional segment with a length constraint, the pair (length constraint, of_int (len seg))
   before its elements, and for an IntAttr-constrained property the pair (int constraint, payload)).  PARTIAL for the pinned code: op_disciplined (attr-sized size vectors are
   non-negative and sum to the list length) and def_nonvacuous (a same-size option comes with a
   variadic definition) exclude the two refuted cases and are vacuous for the repaired code;
   def_consistent: all uses of a variable carry the same base constraint. *)
Theorem C10_verify_iff :
  forall A A_eqb, (forall a b : A, A_eqb a b = true <-> a = b) ->
  forall v of_int as_int d x o,
  get_accessors A v d = Ok x -> op_disciplined A v d o -> def_nonvacuous A v d -> def_consistent A d ->
  (opdef_verify A A_eqb v of_int as_int d x o = Ok tt <-> op_valid A of_int as_int d o).
Proof. exact opdef_verify_iff. Qed.
Print Assumptions C10_verify_iff.

(* FULL statement once both repairs are in the code *)
Theorem C10_verify_iff_repaired :
  forall A A_eqb, (forall a b : A, A_eqb a b = true <-> a = b) ->
  forall of_int as_int d x o,
  get_accessors A v_repaired d = Ok x -> def_consistent A d ->
  (opdef_verify A A_eqb v_repaired of_int as_int d x o = Ok tt <-> op_valid A of_int as_int d o).
Proof. exact opdef_verify_iff_repaired. Qed.
Print Assumptions C10_verify_iff_repaired.

(* Operations built by the generated constructor: every accessor returns the constructor's
   argument, and verification succeeds exactly when those arguments satisfy the constraints
   (no size condition is left: the constructor's output always segments correctly). *)
Theorem C10_built_verifies :
  forall A A_eqb, (forall a b : A, A_eqb a b = true <-> a = b) ->
  forall v of_int as_int d x b o,
  get_accessors A v d = Ok x -> irdl_op_init A d b = Ok o ->
  def_nonvacuous A v d -> same_nonvacuous v (d_sucopt A d) (d_succs A d) -> def_consistent A d ->
  run (x_operands x) (o_opseg A o) (o_operands A o)
    = expected (map (akind A) (d_operands A d)) (map norm (b_operands A b)) /\
  run (x_results x) (o_resseg A o) (o_results A o)
    = expected (map (akind A) (d_results A d)) (map norm (b_results A b)) /\
  run (x_regions x) (o_regseg A o) (o_regions A o)
    = expected (map (rkind A) (d_regions A d)) (map norm (b_regions A b)) /\
  run (x_succs x) (o_sucseg A o) (o_succs A o) = expected (d_succs A d) (map norm (b_succs A b)) /\
  (opdef_verify A A_eqb v of_int as_int d x o = Ok tt <->
   single_ok A (d_regions A d) (map norm (b_regions A b)) /\
   present_ok A of_int as_int (d_props A d) (b_props A b) /\ b_extra_prop A b = false /\
   present_ok A of_int as_int (d_attrs A d) (b_attrs A b) /\
   exists sg, all_sat A sg (built_pairs A of_int as_int d b)).
Proof. exact built_op_verifies. Qed.
Print Assumptions C10_built_verifies.

(* ---- non-vacuity / witnesses by computation -----------------------------------------------
   ex_def / ex_op_p (end of C10/ProofsVerify.v): operands = variadic V0 in {1,2} of length N + single
   V0 in {1,2}, attr-sized; one optional result V0; two same-size variadic successors; a required
   IntAttr property whose payload is N;
   ex_op_p seg res p: three operands of type 2, operandSegmentSizes = seg, result types res,
   property value p (1000 + k = IntAttr(k)); ex_op seg res = ex_op_p seg res 1002 *)
Example C10_nonvacuous :
  define_and_verify Z Z.eqb v_pinned zof_int zas_int ex_def (ex_op [2; 1] [2]) = Ok tt /\           (* valid *)
  define_and_verify Z Z.eqb v_pinned zof_int zas_int ex_def (ex_op [2; 1] [1]) = Raise VerifyException /\  (* V0 inconsistent *)
  define_and_verify Z Z.eqb v_pinned zof_int zas_int ex_def (ex_op [2; 1] [2; 2]) = Raise VerifyException /\ (* two results *)
  define_and_verify Z Z.eqb v_pinned zof_int zas_int ex_def (ex_op_p [1; 1] [2] 1001) = Ok tt /\          (* DEFECT: sum 2 <> 3 operands *)
  define_and_verify Z Z.eqb v_pinned zof_int zas_int ex_def (ex_op [-1; 1] [2]) = Ok tt /\         (* DEFECT: negative size *)
  define_and_verify Z Z.eqb v_pinned zof_int zas_int ex_def (ex_op [5; 1] [2]) = Raise IndexError /\ (* DEFECT: crash *)
  define_and_verify Z Z.eqb v_repaired zof_int zas_int ex_def (ex_op [2; 1] [2]) = Ok tt /\
  define_and_verify Z Z.eqb v_repaired zof_int zas_int ex_def (ex_op [1; 1] [2]) = Raise VerifyException /\
  define_and_verify Z Z.eqb v_repaired zof_int zas_int ex_def (ex_op [-1; 1] [2]) = Raise VerifyException /\
  define_and_verify Z Z.eqb v_repaired zof_int zas_int ex_def (ex_op [5; 1] [2]) = Raise VerifyException.
Proof. vm_compute. repeat split; reflexivity. Qed.

(* integer variables: ex_len_def = three attr-sized variadic operand segments sharing the length
   variable N; equal lengths (0 included) verify, (0,0,3) and (0,1,1) -- a variable bound to 0 is
   bound -- do not; ex_def's IntAttr property shares N with the length of its variadic operand *)
Example C10_int_variables :
  define_and_verify Z Z.eqb v_repaired zof_int zas_int ex_len_def (ex_len_op [2; 2; 2]) = Ok tt /\
  define_and_verify Z Z.eqb v_repaired zof_int zas_int ex_len_def (ex_len_op [0; 0; 0]) = Ok tt /\
  define_and_verify Z Z.eqb v_repaired zof_int zas_int ex_len_def (ex_len_op [0; 0; 3]) = Raise VerifyException /\
  define_and_verify Z Z.eqb v_repaired zof_int zas_int ex_len_def (ex_len_op [0; 1; 1]) = Raise VerifyException /\
  define_and_verify Z Z.eqb v_repaired zof_int zas_int ex_len_def (ex_len_op [1; 1; 2]) = Raise VerifyException /\
  define_and_verify Z Z.eqb v_repaired zof_int zas_int ex_def (ex_op_p [2; 1] [2] 1002) = Ok tt /\
  define_and_verify Z Z.eqb v_repaired zof_int zas_int ex_def (ex_op_p [2; 1] [2] 1000) = Raise VerifyException /\
  define_and_verify Z Z.eqb v_repaired zof_int zas_int ex_def (ex_op_p [2; 1] [2] 2) = Raise VerifyException.
Proof. vm_compute. repeat split; reflexivity. Qed.

(* the hypotheses of C10_verify_iff are satisfiable by a non-trivial operation (any version) *)
Example C10_hypotheses_satisfiable : forall v,
  op_disciplined Z v ex_def (ex_op [2; 1] [2]) /\ def_nonvacuous Z v ex_def /\
  def_consistent Z ex_def /\ same_nonvacuous v (d_sucopt Z ex_def) (d_succs Z ex_def).
Proof. exact ex_hypotheses. Qed.
