(* Props/C03.v -- property C03: structural equivalence holds exactly for isomorphic IR.
   ONLY theorem statements closed by `exact`.

   Model: C03/Model.v (`se_op/se_block/se_region cf a b` = a.is_structurally_equivalent(b) with a
   fresh context; `cfg_repo` = the configuration of /repo's working tree).
   Spec (top of C03/ProofsSpec.v): `iso_op rt a b` = there is a bijection Rv between the values
   defined inside a and inside b and a bijection Rb between their blocks such that `m_op` holds:
   every op agrees on name, attributes, properties, operands (inside -> related by Rv, outside ->
   the identical value, outside on both sides), results (related; types equal when rt = true),
   successors (same rule with Rb), nested regions; every block on argument types.  rt = true is the
   property's statement.
   Side conditions that appear below:
     wf_op a        identities are unique inside a (NoDup of defined values and of blocks) and every
                    nested op's parent field is its enclosing block (true of every real IR tree)
     dpu_top_op a   defs precede uses: in walk order every operand defined inside a is defined
                    before its use (block args/blocks of enclosing regions count as earlier)
     ext_ok_op a b  an operand/successor of a that is outside a is also outside b
     rt_eq_op a b   positionally corresponding ops have equal result types
     detached a b   a.parent is None or b.parent is None *)
From Coq Require Import List Arith Bool.
From XV Require Import C03.Model C03.ProofsSpec C03.ProofsSound C03.ProofsComplete C03.ProofsMain.
Import ListNotations.

(* ========================================================================================== *)
(* A. The unchanged tree: the full statements are refuted (for cfg_original, the code as found),
      the partial ones proved (for cfg_repo, whatever it currently is).
      THE line that ties the two; after a repair is applied to /repo, switch cfg_repo in Model.v
      (Cfg true true after repair 1, Cfg false false after repair 3, cfg_fixed after both) and
      update this Example -- nothing else in this file depends on the value of cfg_repo. *)
Example C03_repo_configuration : cfg_repo = cfg_fixed.
Proof. reflexivity. Qed.
Print Assumptions C03_repo_configuration.

(* (1) result types are never compared *)
Theorem C03_sound_refuted : exists a b,
  wf_op a /\ wf_op b /\ dpu_top_op a /\ ext_ok_op a b /\ detached a b
  /\ se_op cfg_original a b = true /\ ~ iso_op true a b.
Proof. exact sound_refuted_lemma. Qed.
Print Assumptions C03_sound_refuted.

Theorem C03_sound_partial : forall a b,
  wf_op a -> wf_op b -> dpu_top_op a -> ext_ok_op a b -> rt_eq_op a b ->
  se_op cfg_repo a b = true -> iso_op true a b.
Proof. exact (sound_partial cfg_repo). Qed.
Print Assumptions C03_sound_partial.

(* without assuming equal result types: isomorphic up to result types *)
Theorem C03_sound_upto_result_types : forall a b,
  wf_op a -> wf_op b -> dpu_top_op a -> ext_ok_op a b ->
  se_op cfg_repo a b = true -> iso_op false a b.
Proof. exact (sound_upto_rt cfg_repo). Qed.
Print Assumptions C03_sound_upto_result_types.

(* (2) a use before its definition is compared by identity: IR is not equivalent to its clone *)
Theorem C03_complete_refuted : exists a b,
  wf_op a /\ wf_op b /\ detached a b /\ iso_op true a b /\ se_op cfg_original a b = false.
Proof. exact complete_refuted_lemma. Qed.
Print Assumptions C03_complete_refuted.

Theorem C03_complete_partial : forall a b,
  wf_op a -> wf_op b -> dpu_top_op a -> detached a b ->
  iso_op true a b -> se_op cfg_repo a b = true.
Proof. exact (complete_partial cfg_repo). Qed.
Print Assumptions C03_complete_partial.

(* (3) an op attached to a block is not equivalent to itself *)
Theorem C03_refl_refuted : exists a, wfp_op a /\ se_op cfg_original a a = false.
Proof. exact refl_refuted_lemma. Qed.
Print Assumptions C03_refl_refuted.

(* reflexive for every detached op, every block, every region -- use-before-def and graph regions
   included (no dpu hypothesis) *)
Theorem C03_refl_partial : forall a, op_parent a = None -> wfp_op a -> se_op cfg_repo a a = true.
Proof. exact (refl_partial cfg_repo). Qed.
Print Assumptions C03_refl_partial.
Theorem C03_refl_block : forall a, wfp_block a -> se_block cfg_repo a a = true.
Proof. exact (refl_block cfg_repo). Qed.
Print Assumptions C03_refl_block.
Theorem C03_refl_region : forall a, wfp_blocks a -> se_region cfg_repo a a = true.
Proof. exact (refl_region cfg_repo). Qed.
Print Assumptions C03_refl_region.

(* (4) an outside operand of the left IR that is defined inside the right IR is compared by
   identity: two sibling blocks, the first dominating the second; not symmetric, not sound *)
Theorem C03_sym_refuted : exists a b,
  wf_block a /\ wf_block b /\ dpu_top_block a /\ dpu_top_block b
  /\ se_block cfg_original a b = true /\ se_block cfg_original b a = false /\ ~ iso_block true a b.
Proof. exact sym_refuted_lemma. Qed.
Print Assumptions C03_sym_refuted.

Theorem C03_sym_partial : forall a b,
  wf_op a -> wf_op b -> dpu_top_op a -> dpu_top_op b -> ext_ok_op a b -> detached a b ->
  se_op cfg_repo a b = true -> se_op cfg_repo b a = true.
Proof. exact (sym_partial cfg_repo). Qed.
Print Assumptions C03_sym_partial.

(* clone = renaming of the inside ids by fv/fb (identity outside, injective inside, new ids not
   used by a as outside values), root detached *)
Theorem C03_clone_refuted : exists a fv fb,
  wf_op a /\ renaming_ok fv fb a /\ ext_ok_op a (clone_root fv fb a)
  /\ se_op cfg_original a a = true /\ se_op cfg_original a (clone_root fv fb a) = false.
Proof. exact clone_refuted_lemma. Qed.
Print Assumptions C03_clone_refuted.

Theorem C03_clone_partial : forall fv fb a,
  wfp_op a -> dpu_top_op a -> renaming_ok fv fb a -> ext_ok_op a (clone_root fv fb a) ->
  se_op cfg_repo a (clone_root fv fb a) = true.
Proof. exact (clone_op_gen cfg_repo). Qed.
Print Assumptions C03_clone_partial.

(* the clone model is always isomorphic to its source (spec level, no scoping hypothesis) *)
Theorem C03_clone_iso : forall fv fb a,
  renaming_ok fv fb a -> ext_ok_op a (clone_root fv fb a) -> iso_op true a (clone_root fv fb a).
Proof. exact (iso_clone true). Qed.
Print Assumptions C03_clone_iso.

Theorem C03_iso_sym : forall a b, iso_op true a b -> iso_op true b a.
Proof. exact (iso_op_sym true). Qed.
Print Assumptions C03_iso_sym.

(* block and region roots *)
Theorem C03_sound_block_partial : forall a b,
  wf_block a -> wf_block b -> dpu_top_block a -> ext_ok_block a b -> rt_eq_block a b ->
  se_block cfg_repo a b = true -> iso_block true a b.
Proof. exact (sound_block_partial cfg_repo). Qed.
Print Assumptions C03_sound_block_partial.
Theorem C03_sound_region_partial : forall a b,
  wf_region a -> wf_region b -> dpu_top_region a -> ext_ok_region a b -> rt_eq_blocks a b ->
  se_region cfg_repo a b = true -> iso_region true a b.
Proof. exact (sound_region_partial cfg_repo). Qed.
Print Assumptions C03_sound_region_partial.
Theorem C03_complete_block : forall a b,
  wf_block a -> wf_block b -> dpu_top_block a -> iso_block true a b -> se_block cfg_repo a b = true.
Proof. exact (complete_block cfg_repo). Qed.
Print Assumptions C03_complete_block.
Theorem C03_complete_region : forall a b,
  wf_region a -> wf_region b -> dpu_top_region a -> iso_region true a b -> se_region cfg_repo a b = true.
Proof. exact (complete_region cfg_repo). Qed.
Print Assumptions C03_complete_region.

(* ========================================================================================== *)
(* B. With the proposed repairs, for every configuration that has them (these do not mention
      cfg_repo: once a repair is applied and cfg_repo is switched, instantiate cf := cfg_repo) *)

(* repair 1: result types compared -> no assumption on result types *)
Theorem C03_fix1_sound : forall cf a b, cmp_rt cf = true ->
  wf_op a -> wf_op b -> dpu_top_op a -> ext_ok_op a b -> se_op cf a b = true -> iso_op true a b.
Proof. exact sound_fix1. Qed.
Print Assumptions C03_fix1_sound.
Theorem C03_fix1_sound_block : forall cf a b, cmp_rt cf = true ->
  wf_block a -> wf_block b -> dpu_top_block a -> ext_ok_block a b -> se_block cf a b = true -> iso_block true a b.
Proof. exact sound_block_fix1. Qed.
Print Assumptions C03_fix1_sound_block.
Theorem C03_fix1_sound_region : forall cf a b, cmp_rt cf = true ->
  wf_region a -> wf_region b -> dpu_top_region a -> ext_ok_region a b -> se_region cf a b = true -> iso_region true a b.
Proof. exact sound_region_fix1. Qed.
Print Assumptions C03_fix1_sound_region.

(* repair 3: parent compared only when it is in the context -> attached roots are fine *)
Theorem C03_fix3_complete : forall cf a b, parent_strict cf = false ->
  wf_op a -> wf_op b -> dpu_top_op a -> iso_op true a b -> se_op cf a b = true.
Proof. exact complete_fix3. Qed.
Print Assumptions C03_fix3_complete.
Theorem C03_fix3_refl : forall cf a, parent_strict cf = false -> se_op cf a a = true.
Proof. exact refl_fix3. Qed.
Print Assumptions C03_fix3_refl.
Theorem C03_fix3_refl_block : forall cf a, parent_strict cf = false -> se_block cf a a = true.
Proof. exact refl_block_fix3. Qed.
Print Assumptions C03_fix3_refl_block.
Theorem C03_fix3_refl_region : forall cf a, parent_strict cf = false -> se_region cf a a = true.
Proof. exact refl_region_fix3. Qed.
Print Assumptions C03_fix3_refl_region.
Theorem C03_fix3_sym : forall cf a b, parent_strict cf = false ->
  wf_op a -> wf_op b -> dpu_top_op a -> dpu_top_op b -> ext_ok_op a b ->
  se_op cf a b = true -> se_op cf b a = true.
Proof. exact sym_fix3. Qed.
Print Assumptions C03_fix3_sym.

(* the repairs do not touch findings (2) and (4): they persist in the repaired configuration *)
Theorem C03_fixed_forward_ref_persists : exists a fv fb,
  wf_op a /\ renaming_ok fv fb a /\ ext_ok_op a (clone_root fv fb a)
  /\ iso_op true a (clone_root fv fb a) /\ se_op cfg_fixed a (clone_root fv fb a) = false.
Proof. exact fixed_forward_ref_persists_lemma. Qed.
Print Assumptions C03_fixed_forward_ref_persists.
Theorem C03_fixed_outside_operand_persists : exists a b,
  wf_block a /\ wf_block b /\ dpu_top_block a /\ dpu_top_block b
  /\ se_block cfg_fixed a b = true /\ se_block cfg_fixed b a = false /\ ~ iso_block true a b.
Proof. exact fixed_outside_operand_persists_lemma. Qed.
Print Assumptions C03_fixed_outside_operand_persists.

(* ========================================================================================== *)
(* B'. The CURRENT code of /repo (cfg_repo = cfg_fixed, see C03_repo_configuration): the
       full-strength statements that hold now; what remains excluded is spelled out by
       the hypotheses (definitions precede uses: dpu_top; outside operands: ext_ok) and by
       C03_fixed_forward_ref_persists / C03_fixed_outside_operand_persists above. *)
Theorem C03_current_sound : forall a b,
  wf_op a -> wf_op b -> dpu_top_op a -> ext_ok_op a b -> se_op cfg_repo a b = true -> iso_op true a b.
Proof. exact (fun a b => C03_fix1_sound cfg_repo a b eq_refl). Qed.
Print Assumptions C03_current_sound.
Theorem C03_current_complete : forall a b,
  wf_op a -> wf_op b -> dpu_top_op a -> iso_op true a b -> se_op cfg_repo a b = true.
Proof. exact (fun a b => C03_fix3_complete cfg_repo a b eq_refl). Qed.
Print Assumptions C03_current_complete.
Theorem C03_current_refl : forall a, se_op cfg_repo a a = true.
Proof. exact (fun a => C03_fix3_refl cfg_repo a eq_refl). Qed.
Print Assumptions C03_current_refl.
Theorem C03_current_sym : forall a b,
  wf_op a -> wf_op b -> dpu_top_op a -> dpu_top_op b -> ext_ok_op a b ->
  se_op cfg_repo a b = true -> se_op cfg_repo b a = true.
Proof. exact (fun a b => C03_fix3_sym cfg_repo a b eq_refl). Qed.
Print Assumptions C03_current_sym.

(* ========================================================================================== *)
(* C. Non-vacuity: a nested IR (block arguments, successor, outside operand, nested region,
      backward references) satisfies every side condition and is equivalent to its clone, both
      argument orders, and to itself; witnesses (1) and (3) are repaired by the repairs *)
Example C03_nonvacuous :
  wf_op nv_a /\ dpu_top_op nv_a /\ renaming_ok nv_fv nv_fb nv_a /\ ext_ok_op nv_a (clone_root nv_fv nv_fb nv_a)
  /\ se_op cfg_original nv_a (clone_root nv_fv nv_fb nv_a) = true
  /\ se_op cfg_fixed nv_a (clone_root nv_fv nv_fb nv_a) = true
  /\ se_op cfg_original (clone_root nv_fv nv_fb nv_a) nv_a = true
  /\ se_op cfg_original nv_a nv_a = true.
Proof. exact nv_facts. Qed.
Print Assumptions C03_nonvacuous.
Example C03_repairs_fix_witnesses :
  se_op cfg_fixed w1_a w1_b = false /\ se_op cfg_fixed w3_a w3_a = true.
Proof. vm_compute. split; reflexivity. Qed.
Print Assumptions C03_repairs_fix_witnesses.
