(* Props/C04.v -- Generic textual form round-trips every valid IR: the theorems. *)
From Coq Require Import ZArith List Bool.
From XV Require Import C04.Model C04.ProofsStr C04.ProofsGhost C04.ProofsPrint C04.ProofsParse C04.ProofsRound.
Import ListNotations.

Theorem C04_names_unique : forall c l pre post g1,
  hints_ok c l -> l = pre ++ post -> ws_run c pre g0 = Some g1 ->
  NoDup (map (name_of (runP c l pst0)) (active g1)).
Proof. exact names_unique_values. Qed.
Print Assumptions C04_names_unique.
