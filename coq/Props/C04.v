(* Props/C04.v -- Generic textual form round-trips every valid IR: the theorems.

   Vocabulary (coq/C04/Model.v, ProofsGhost.v, ProofsTree.v):
     skel                IR skeleton: operations (results, operands, successors, regions), blocks (label,
                         arguments, operations); leaves are object identities with their name hints;
                         attributes, properties, types are opaque
     sched ir            the sequence of name-relevant effects of printing / parsing ir
     print_names c ir    the names the printer writes (as a tree over names)
     parse_names c t     what the parser makes of such a tree: Ok ir' or the ParseError class
     hints_ok c l        every (non-empty) hint is a valid ASCII name without trailing _<digits> group;
                         for the switches of c that are off (pinned behaviour) also: no block hint of the
                         form bb<digits>, no hint on an entry block whose label is omitted
     well_scoped c ir    SSA visibility by region nesting, every value defined exactly once, everything first
                         printed inside an IsolatedFromAbove operation is defined inside it, successors are
                         labelled blocks of the enclosing region (ProofsGhost.v)
     c : cfg             which of the four proposed repairs the code contains (pinned_cfg: none,
                         repaired_cfg: all); the theorems hold for every configuration. *)
From Coq Require Import ZArith List Bool.
From XV Require Import C07.Regex C04.Model C04.ProofsStr C04.ProofsGhost C04.ProofsPrint C04.ProofsParse
  C04.ProofsRound C04.ProofsTree C04.ProofsLex C04.ProofsSyntax C04.ProofsWit Gen.C04_current.
Import ListNotations.
Local Open Scope Z_scope.

(* At every moment of printing, the names of the values first printed in the scopes that are still
   open (enter_scope without exit_scope) are pairwise distinct. *)
Theorem C04_names_unique : forall c l pre post g1,
  hints_ok c l -> l = pre ++ post -> ws_run c pre g0 = Some g1 ->
  NoDup (map (name_of (runP c l pst0)) (active g1)).
Proof. exact names_unique_values. Qed.
Print Assumptions C04_names_unique.

(* The labels of the blocks of one region are pairwise distinct. *)
Theorem C04_block_labels_unique : forall c l pre ls ep post g1 g2,
  hints_ok c l -> l = pre ++ Arbegin ls ep :: post ->
  ws_run c pre g0 = Some g1 -> ws_step c (Arbegin ls ep) g1 = Some g2 ->
  NoDup (map (bname_of (runP c l pst0)) (map fst ls)).
Proof. exact names_unique_blocks. Qed.
Print Assumptions C04_block_labels_unique.

(* Printing and parsing yields the same skeleton over new object identities, every hint being the one
   the printer acted on, and the parsed skeleton prints the same names. *)
Theorem C04_roundtrip : forall c ir,
  hints_ok c (sched ir) -> well_scoped c ir = true ->
  exists ir', parse_names c (print_names c ir) = Ok ir' /\ skel_iso c ir ir' /\
              print_names c ir' = print_names c ir.
Proof. exact roundtrip. Qed.
Print Assumptions C04_roundtrip.

(* M3: the token stream of a well-formed tree over names parses back to that tree (generic operation
   syntax: results, operands, successors, properties, regions with labelled / unlabelled entry block,
   attribute dictionary, function type). *)
Theorem C04_syntax_roundtrip : forall res args succs props regs attrs it ot,
  let t := Op module_nm res args succs props regs attrs it ot in
  wf_op t = true -> parse_toks (toks_op t) = Some t.
Proof. exact parse_toks_ok. Qed.
Print Assumptions C04_syntax_roundtrip.

(* M1 and M3 together: the token stream of a module round-trips. *)
Theorem C04_text_roundtrip : forall c res args succs props regs attrs it ot,
  let ir : skel := Op module_nm res args succs props regs attrs it ot in
  hints_ok c (sched ir) -> well_scoped c ir = true -> wf_skel ir = true ->
  exists ir', parse_ir c (print_ir c ir) = Ok ir' /\ skel_iso c ir ir' /\ print_ir c ir' = print_ir c ir.
Proof. exact text_roundtrip. Qed.
Print Assumptions C04_text_roundtrip.

(* For the repaired configuration the hint hypothesis is "the hints are hints the API stores". *)
Theorem C04_roundtrip_repaired : forall ir,
  hints_stored repaired_cfg (sched ir) -> well_scoped repaired_cfg ir = true ->
  exists ir', parse_names repaired_cfg (print_names repaired_cfg ir) = Ok ir' /\ skel_iso repaired_cfg ir ir' /\
              print_names repaired_cfg ir' = print_names repaired_cfg ir.
Proof. exact roundtrip_repaired. Qed.
Print Assumptions C04_roundtrip_repaired.

(* A copy over other object identities (a clone) prints the same names; no hypothesis on the IR. *)
Theorem C04_deterministic : forall c ir fv fb,
  (forall x y, fv x = fv y -> x = y) -> (forall x y, fb x = fb y -> x = y) ->
  print_names c (tmapP (fun x : Z * hint => (fv (fst x), snd x)) (fun x => (fv (fst x), snd x))
                       (fun x => (fv (fst x), snd x)) fb (fun _ (l : Z * hint) => (fb (fst l), snd l)) ir)
  = print_names c ir.
Proof. exact deterministic. Qed.
Print Assumptions C04_deterministic.

(* A name accepted by a name pattern that passes `name_check` is read as one token by a lexer pattern
   that passes `lexer_check` (whatever follows it, as long as it is not an identifier character). *)
Theorem C04_hint_lexable : forall U rn rl s rest,
  name_check rn = true -> lexer_check rl = true ->
  outc (bt_fullmatch U rn s) = MSome [] ->
  (rest = [] \/ exists y r', rest = y :: r' /\ id_cont y = false) ->
  lexable s = true /\ outc (bt_match U rl (s ++ rest)) = MSome rest.
Proof. exact hint_lexable. Qed.
Print Assumptions C04_hint_lexable.

(* the lexer pattern of the current source passes; the proposed name pattern (re.ASCII) passes *)
Theorem C04_hint_lexable_repaired : forall U s rest,
  outc (bt_fullmatch U rep_r_name s) = MSome [] ->
  (rest = [] \/ exists y r', rest = y :: r' /\ id_cont y = false) ->
  lexable s = true /\ outc (bt_match U cur_r_suffix_id (s ++ rest)) = MSome rest.
Proof. exact hint_lexable_repaired. Qed.
Print Assumptions C04_hint_lexable_repaired.

(* ---- the pinned tree refutes the unconditional statements ---- *)
(* hints a, a, "a_1_2" (stored a_1): names %a, %a_1, %a_1; the text does not parse *)
Theorem C04_names_unique_refuted : exists ir,
  hints_stored pinned_cfg (sched ir) /\ well_scoped pinned_cfg ir = true /\
  ~ NoDup (printed pinned_cfg ir) /\
  parse_names pinned_cfg (print_names pinned_cfg ir) = Err EAlreadyDefined.
Proof. exact names_unique_refuted. Qed.
Print Assumptions C04_names_unique_refuted.

Theorem C04_default_block_hint_refuted :
  well_scoped pinned_cfg (w2 pinned_cfg) = true /\
  parse_names pinned_cfg (print_names pinned_cfg (w2 pinned_cfg)) = Err ERedeclared.
Proof. exact w2_refutes. Qed.
Print Assumptions C04_default_block_hint_refuted.

Theorem C04_entry_hint_refuted :
  well_scoped pinned_cfg (w4 pinned_cfg) = true /\
  printed pinned_cfg (w4 pinned_cfg) = [[97; 95; 49]; [97; 95; 49]] /\
  reprinted pinned_cfg (w4 pinned_cfg) = Some [[97]; [97]].
Proof. exact w4_refutes. Qed.
Print Assumptions C04_entry_hint_refuted.

Theorem C04_iso_operand_refuted :
  well_scoped repaired_cfg w5 = true /\ printed pinned_cfg w5 = [[48]; [48]; [48]] /\
  parse_names pinned_cfg (print_names pinned_cfg w5) = Err EAlreadyDefined /\ well_scoped pinned_cfg w5 = false.
Proof. exact w5_refutes. Qed.
Print Assumptions C04_iso_operand_refuted.

Theorem C04_hint_lexable_refuted :
  outc (bt_fullmatch cpyU pin_r_name [97; 233]) = MSome [] /\ lexable [97; 233] = false /\
  outc (bt_match cpyU cur_r_suffix_id ([97; 233] ++ [32])) = MSome [233; 32].
Proof. exact pin_name_refutes. Qed.
Print Assumptions C04_hint_lexable_refuted.

(* ---- with the repairs the witnesses round-trip ---- *)
Example C04_witnesses_repaired :
  reprinted repaired_cfg (w1 repaired_cfg) = Some (printed repaired_cfg (w1 repaired_cfg)) /\
  reprinted repaired_cfg (w2 repaired_cfg) = Some (printed repaired_cfg (w2 repaired_cfg)) /\
  reprinted repaired_cfg (w4 repaired_cfg) = Some (printed repaired_cfg (w4 repaired_cfg)) /\
  reprinted repaired_cfg w5 = Some (printed repaired_cfg w5).
Proof. vm_compute. repeat split. Qed.

(* ---- the hypotheses of C04_roundtrip are satisfiable by a non-trivial skeleton (pinned tree) ---- *)
Example C04_hypotheses_satisfiable :
  hints_ok pinned_cfg (sched demo) /\ well_scoped pinned_cfg demo = true /\
  printed pinned_cfg demo =
    [[97]; [97; 95; 49]; [97; 95; 49]; [48]; [97]; [98; 98; 48]; [120]; [120]; [116; 104; 101; 110];
     [116; 104; 101; 110]; [120; 95; 49]; [98; 98; 48]].
Proof. split; [exact demo_hints_ok|split; [exact demo_ws|exact demo_prints]]. Qed.
