(* Props/C07.v -- property C07: parsing any text terminates promptly and fails only with diagnostics.
   ONLY theorem statements closed by `exact`.

   Reading guide.  `bt_match U r s` (C07/Regex.v) is the step-counting backtracking matcher;
   `cost_bound` the analyser.  `lex O cfg s` (C07/Model.v) is MLIRLexer.lex iterated to EOF together
   with the literal conversions the parser applies, for a configuration `cfg` (the seven lexer regexes
   + four switches describing the code shape) and a Unicode oracle `O`; its outcome is
   Done | ParseErr | Internal k | OutOfFuel and `no_internal` (C07/Proofs.v) excludes the last two.
   `run U cfg pinit es` is the parser's block-label / SSA-name bookkeeping over an event sequence.
   pinned_cfg / repaired_cfg (C07/Current.v): the pinned tree / the tree with the proposed repairs.
   The statements about the regexes and code shape regenerated from the CURRENT source are in the
   generated file Gen/C07_current.v (same general theorems applied to `cur_cfg`). *)
From Coq Require Import ZArith List Bool Arith.
From XV Require Import C07.Regex C07.RegexProofs C07.Model C07.Current C07.Proofs C07.ProofsLabels
  C07.ProofsText C07.ProofsInst Gen.C07_regexes.
Import ListNotations.

(* ---- the certified cost analyser, for every regex, oracle and input ---- *)
Theorem C07_cost_bound_sound : forall U r k p, cost_bound r = Some (k, p) -> forall s d o,
  bt_match U r s = (d, o) ->
  o <> MFuel /\
  (forall sf, o = MSome sf -> length sf <= length s /\ d <= k * (length s - length sf + 1)) /\
  (o = MNone -> d <= k * (length s + 1) /\ (p = true -> d <= k)).
Proof. exact cost_bound_sound. Qed.
Print Assumptions C07_cost_bound_sound.

Theorem C07_cost_bound_linear : forall U r k p, cost_bound r = Some (k, p) -> forall s i,
  steps (bt_match_at U r s i) <= k * (length s - i + 1).
Proof. exact cost_bound_linear. Qed.
Print Assumptions C07_cost_bound_linear.

(* ---- general theorems: any configuration, any oracle, EVERY input string ---- *)
(* linear time: depends only on the per-regex obligations collected in rx_ok *)
Theorem C07_lex_linear_general : forall O cfg, rx_ok cfg = true ->
  forall s, lex_steps O cfg s <= Kof cfg * (length s + 1).
Proof. exact lex_linear_general. Qed.
Print Assumptions C07_lex_linear_general.

Theorem C07_lex_terminates : forall O cfg, progress_ok cfg = true ->
  forall s, lex_outcome O cfg s <> OutOfFuel.
Proof. exact lex_no_fuel. Qed.
Print Assumptions C07_lex_terminates.

Theorem C07_lex_total_general : forall O cfg, progress_ok cfg = true -> fx_int_guard cfg = true ->
  forall s, no_internal (lex_outcome O cfg s).
Proof. exact lex_total_general. Qed.
Print Assumptions C07_lex_total_general.

Theorem C07_labels_no_internal_general : forall U cfg,
  fx_label_validate cfg = true -> fx_label_redef cfg = true ->
  forall es k, run U cfg pinit es <> PInternal k.
Proof. exact labels_no_internal_general. Qed.
Print Assumptions C07_labels_no_internal_general.

(* ---- the repaired code: full statements ---- *)
Theorem C07_lex_linear_repaired : forall O s,
  lex_steps O repaired_cfg s <= Kof repaired_cfg * (length s + 1).
Proof. exact lex_linear_repaired. Qed.
Print Assumptions C07_lex_linear_repaired.

Theorem C07_lex_total_repaired : forall O s, no_internal (lex_outcome O repaired_cfg s).
Proof. exact lex_total_repaired. Qed.
Print Assumptions C07_lex_total_repaired.

Theorem C07_labels_no_internal_repaired : forall U es k, run U repaired_cfg pinit es <> PInternal k.
Proof. exact labels_no_internal_repaired. Qed.
Print Assumptions C07_labels_no_internal_repaired.

(* ---- the pinned tree: the full statements are refuted ... ---- *)
(* an unterminated string literal of 12 letters costs more steps than the linear bound allows *)
Theorem C07_lex_linear_refuted :
  exists s, Kof repaired_cfg * (length s + 1) < lex_steps cpy pinned_cfg s.
Proof. exact lex_linear_pinned_refuted. Qed.
Print Assumptions C07_lex_linear_refuted.

(* {a = superscript-two} and a 4301-digit literal end in a ValueError *)
Theorem C07_lex_total_refuted :
  lex_outcome cpy pinned_cfg (w_attr [178%Z]) = Internal ValueError /\
  lex_outcome cpy pinned_cfg (w_attr (repeat 49%Z (Z.to_nat 4301))) = Internal ValueError.
Proof. exact lex_total_pinned_refuted. Qed.
Print Assumptions C07_lex_total_refuted.

(* the label ^42: raises ValueError; a second definition of a forward-referenced block raises KeyError *)
Theorem C07_labels_refuted :
  run cpy_named pinned_cfg pinit [EOpen; EDef [52; 50]%Z] = PInternal ValueError /\
  run cpy_named pinned_cfg pinit [EOpen; ESucc [97%Z]; EDef [97%Z]; EDef [97%Z]] = PInternal KeyError.
Proof. exact labels_pinned_refuted. Qed.
Print Assumptions C07_labels_refuted.

(* ---- ... and the partial statements that do hold for it ---- *)
(* inputs without a double quote are lexed in linear time *)
Theorem C07_lex_linear_partial : forall O s, (forall c, In c s -> c <> 34%Z) ->
  lex_steps O pinned_cfg s <= Kof repaired_cfg * (length s + 1).
Proof. exact lex_linear_pinned_partial. Qed.
Print Assumptions C07_lex_linear_partial.

(* inputs without a code point that str.isnumeric accepts never end in an internal error *)
Theorem C07_lex_total_partial : forall O s, (forall c, In c s -> o_numeric O c = false) ->
  no_internal (lex_outcome O pinned_cfg s).
Proof. exact lex_total_pinned_partial. Qed.
Print Assumptions C07_lex_total_partial.

(* stronger: every code point of the input that str.isnumeric accepts is an ASCII digit, and the input has
   at most 4300 code points (oracle assumption: int()/float() accept the ASCII digits) *)
Theorem C07_lex_total_partial_strong : forall O s,
  (forall x, is_ascii_digit x = true -> o_decimal O x = true) ->
  (forall x, In x s -> o_numeric O x = true -> is_ascii_digit x = true) ->
  (Z.of_nat (length s) <= 4300)%Z ->
  no_internal (lex_outcome O pinned_cfg s).
Proof. exact lex_total_pinned_partial_strong. Qed.
Print Assumptions C07_lex_total_partial_strong.

(* any code shape: every name is a valid name hint and no block label is defined twice *)
Theorem C07_labels_no_internal_partial : forall U cfg es,
  (forall n, In n (ev_names es) -> valid_name U cfg n = true) -> NoDup (def_names es) ->
  forall k, run U cfg pinit es <> PInternal k.
Proof. exact labels_no_internal_partial. Qed.
Print Assumptions C07_labels_no_internal_partial.

(* non-vacuity (the concrete constant K is stated in Gen/C07_current.v): the hypotheses of the partial statements are satisfiable,
   and the pinned / proposed string patterns differ exactly in their growth *)
Example C07_analyser_verdicts : rx_ok repaired_cfg = true /\ rx_ok pinned_cfg = false.
Proof. vm_compute. repeat split; reflexivity. Qed.
Example C07_partial_hypotheses_satisfiable :
  let s := [37; 120; 32; 61; 32; 97; 114; 105; 116; 104; 46; 97; 100; 100; 32; 37; 97; 44; 32; 37; 98]%Z in
  forallb (fun c => negb (c =? 34)%Z && negb (o_numeric cpy c)) s = true /\
  lex_outcome cpy pinned_cfg s = Done /\ length (fst (snd (lex cpy pinned_cfg s))) = 7.
Proof. exact partial_hypotheses_satisfiable. Qed.
Example C07_strong_partial_hypotheses_satisfiable :
  let s := [37; 48; 32; 61; 32; 97; 114; 105; 116; 104; 46; 99; 111; 110; 115; 116; 97; 110; 116; 32; 52; 50;
            32; 58; 32; 105; 51; 50]%Z in
  forallb (fun c => negb (o_numeric cpy c) || is_ascii_digit c) s = true /\
  forallb (fun c => o_decimal cpy c) [48; 49; 50; 51; 52; 53; 54; 55; 56; 57]%Z = true /\
  lex_outcome cpy pinned_cfg s = Done /\ existsb (o_numeric cpy) s = true.
Proof. exact strong_partial_hypotheses_satisfiable. Qed.
Example C07_string_pattern_growth :
  map (fun n => N.of_nat (fst (bt_match cpy_named r_pinned_string (w_unterminated n)))) [4; 6; 8; 10; 12]
    = [111; 447; 1791; 7167; 28671]%N /\
  map (fun n => N.of_nat (fst (bt_match cpy_named r_proposed_string (w_unterminated n)))) [4; 6; 8; 10; 12]
    = [26; 36; 46; 56; 66]%N.
Proof. exact pinned_string_growth. Qed.
