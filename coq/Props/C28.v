(* Props/C28.v -- property C28: equality saturation preserves program results.
   ONLY theorem statements closed by `exact`.
   Model: C28/Model.v (`create` = eqsat-create-eclasses, `add_costs` = eqsat-add-costs, `extract` =
   eqsat-extract on one block: list of operations with ids, operand lists, eqsat_cost, min_cost_index).
   Spec (C28/Proofs.v): `eval sem args p` executes a block in order with uninterpreted operation
   semantics `sem` (None: use before definition or a left-over e-class); `models sem args rho body`: the
   valuation rho satisfies every operation (value = sem of operand values) and every e-class (all
   members have the value of the class: the class invariant which sound rewrite rules maintain -- the
   saturation engine is abstracted to exactly this); `obs args rho body`: values of the returned
   operands under rho; `ids_ok`: operation ids are unique and no operand names a return operation. *)
From Coq Require Import ZArith List Lia.
From XV Require Import C28.Model C28.Proofs C28.ProofsCosts.
Import ListNotations.
Local Open Scope Z_scope.

(* Extraction is sound on EVERY e-graph (cyclic or not, any block order, any min_cost_index choice):
   if a valuation models the e-graph, whatever program extraction leaves returns -- whenever it is
   executable -- exactly the values the valuation gives to the results. *)
Theorem C28_extract_sound : forall sem args rho g p' rs,
  ids_ok (p_body g) -> models sem args rho (p_body g) ->
  extract g = Ok p' -> eval sem args p' = Some rs ->
  hd_error (obs args rho (p_body g)) = Some rs.
Proof. exact extract_sound. Qed.
Print Assumptions C28_extract_sound.

(* the cost pass only writes eqsat_cost / min_cost_index: cost assignment + extraction is sound *)
Theorem C28_costs_extract_sound : forall sem args rho fuel d dict g g' p' rs,
  ids_ok (p_body g) -> models sem args rho (p_body g) ->
  add_costs fuel d dict g = Ok g' -> extract g' = Ok p' -> eval sem args p' = Some rs ->
  hd_error (obs args rho (p_body g)) = Some rs.
Proof. exact costs_extract_sound. Qed.
Print Assumptions C28_costs_extract_sound.

(* the `while changed` loop of add_eqsat_costs terminates when no cost is negative (costs strictly
   decrease on a well-founded order); more fuel does not change the answer *)
Theorem C28_costs_terminate : forall d dict p,
  (forall n c, In n (p_body p) -> ncost n = CInt c -> 0 <= c) ->
  (forall k c, lookup k dict = Some c -> 0 <= c) -> (forall c, d = Some c -> 0 <= c) ->
  exists fuel, forall k, add_costs (fuel + k) d dict p <> OutOfFuel /\
                         add_costs (fuel + k) d dict p = add_costs fuel d dict p.
Proof. exact add_costs_terminates. Qed.
Print Assumptions C28_costs_terminate.

(* ... and it does NOT terminate with a negative cost on a cycle (x = x * 1, eqsat_cost -1 on the muli) *)
Theorem C28_costs_negative_cycle_diverges : forall fuel,
  add_costs fuel (Some 0) [] (Prog 1 neg_cycle) = OutOfFuel.
Proof. exact neg_cycle_never_terminates. Qed.
Print Assumptions C28_costs_negative_cycle_diverges.

(* when the loop stops, the cost of a class is at most the total cost of each of its members *)
Theorem C28_costs_minimal : forall fuel body d cs ms,
  fix_loop fuel body d [] [] = Ok (cs, ms) ->
  forall c m t, In c body -> is_class c = true -> In m (nops c) ->
                calc_total body cs d m = Ok (Some t) ->
                exists b i, lookup (nid c) cs = Some b /\ b <= t /\ lookup (nid c) ms = Some i /\ 0 <= i.
Proof. exact costs_minimal. Qed.
Print Assumptions C28_costs_minimal.

(* every class that has a member with a computable cost gets a min_cost_index in range *)
Theorem C28_costs_chosen : forall fuel d dict body body',
  NoDup (map nid body) ->
  add_eqsat_costs fuel d dict body = Ok body' ->
  exists body1, first_pass d dict body = Ok body1 /\
    forall c', In c' body' -> is_class c' = true -> costable body1 d (nid c') ->
               exists i, nmci c' = Some i /\ 0 <= i < Z.of_nat (length (nops c')).
Proof. exact costable_chosen. Qed.
Print Assumptions C28_costs_chosen.

(* ------------------------------------------------------------------ *)
(* Totality on e-graphs in definition-before-use order (C28/ProofsExtract.v).
   `wf_egraph body` = the conditions of ClassOp.verify_ plus an index for every class:
   unique ids, every operand defined earlier (`ordered`), members of a class pairwise different,
   a member operation is an ordinary operation used by that class only, every class has a
   min_cost_index in range, there is a return. *)
From XV Require Import C28.ProofsExtract C28.ProofsCreate.

(* extraction then raises no exception, leaves no e-class, and the extracted block is executable
   (with C28_extract_sound it returns the values of the e-graph) *)
Theorem C28_extract_total : forall sem args g,
  wf_egraph (p_body g) ->
  exists p' rs, extract g = Ok p' /\ (forall n, In n (p_body p') -> is_class n = false) /\
                eval sem args p' = Some rs.
Proof. exact extract_total. Qed.
Print Assumptions C28_extract_total.

(* No rewrite rules: for EVERY well-formed source function (`wf_src`: unique ids, definition before use,
   no e-class operations, single-result operations, a return, no negative / non-integer eqsat_cost) and every
   non-negative default cost and cost dictionary, create ; add-costs ; extract succeeds with enough fuel,
   leaves no e-class, and the result is executable and returns, for every operation semantics and every
   input, exactly what the source returns. *)
Theorem C28_create_extract_id : forall p d dict,
  wf_src (p_body p) -> 0 <= d -> (forall k c, lookup k dict = Some c -> 0 <= c) ->
  exists fuel, forall k, exists g g' p',
    create p = Ok g /\ add_costs (fuel + k) (Some d) dict g = Ok g' /\ extract g' = Ok p' /\
    (forall n, In n (p_body p') -> is_class n = false) /\
    forall sem args, exists rs, eval sem args p = Some rs /\ eval sem args p' = Some rs.
Proof. exact create_extract_id. Qed.
Print Assumptions C28_create_extract_id.

(* ------------------------------------------------------------------ *)
(* non-vacuity / behaviour witnesses; the programs are defined in C28/ProofsExamples.v:
   ex_identity = tests/filecheck/projects/eqsat/identity.mlir; ex_cycle = x_c = class(muli x_c one_c, x) with
   all costs 0; ex_two = an e-graph with a two-member class whose second member is chosen;
   pipeline fuel d p = create ; add_costs fuel d [] ; extract *)
From XV Require Import C28.ProofsExamples.

Example C28_identity_example :
  pipeline 10 (Some 1) ex_identity = Ok ex_identity.
Proof. exact C28_identity_example_pf. Qed.

Example C28_wf_src_example :
  wf_src (p_body ex_identity).
Proof. exact C28_wf_src_example_pf. Qed.

Example C28_cycle_example :
  match add_costs 10 (Some 0) [] ex_cycle with Ok g' => extract g' | e => e end
  = Ok (Prog 1 [ Node 4 N_RET 0 [VArg 0] 0 CNone None ]).
Proof. exact C28_cycle_example_pf. Qed.

Example C28_cyclic_choice_not_executable :
  forall sem args,
  match extract (Prog 1 [ Node 0 3 1 [] 1 CNone None; Node 1 N_CLASS 0 [VRes 0] 1 CNone (Some 0);
                          Node 2 5 0 [VRes 3; VRes 1] 1 CNone None;
                          Node 3 N_CLASS 0 [VRes 2; VArg 0] 1 CNone (Some 0);
                          Node 4 N_RET 0 [VRes 3] 0 CNone None ]) with
  | Ok p' => eval sem args p' = None
  | _ => False
  end.
Proof. exact C28_cyclic_choice_not_executable_pf. Qed.

Example C28_wf_egraph_example :
  wf_egraph (p_body ex_two).
Proof. exact C28_wf_egraph_example_pf. Qed.

Example C28_two_example :
  extract ex_two = Ok (Prog 1 [ Node 2 5 0 [VArg 0; VArg 0] 1 CNone None; Node 4 N_RET 0 [VRes 2] 0 CNone None ]).
Proof. exact C28_two_example_pf. Qed.
